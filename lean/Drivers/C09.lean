import KawinV.DriverMain
import KawinV.Drv.C09
def main : IO Unit := KawinV.runDriver [KawinV.Drv.C09.handle]
