import KawinV.DriverMain
import KawinV.Drv.C03
import KawinV.Drv.KWNFull
def main : IO Unit := KawinV.runDriver [KawinV.Drv.C03.handle, KawinV.Drv.KWNFull.handle]
