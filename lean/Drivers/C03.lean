import KawinV.DriverMain
import KawinV.Drv.C03
def main : IO Unit := KawinV.runDriver [KawinV.Drv.C03.handle]
