import KawinV.DriverMain
import KawinV.Drv.C04
def main : IO Unit := KawinV.runDriver [KawinV.Drv.C04.handle]
