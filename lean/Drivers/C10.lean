import KawinV.DriverMain
import KawinV.Drv.C10
def main : IO Unit := KawinV.runDriver [KawinV.Drv.C10.handle]
