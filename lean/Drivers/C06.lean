import KawinV.DriverMain
import KawinV.Drv.C06
def main : IO Unit := KawinV.runDriver [KawinV.Drv.C06.handle]
