import KawinV.DriverMain
import KawinV.Drv.C18
def main : IO Unit := KawinV.runDriver [KawinV.Drv.C18.handle]
