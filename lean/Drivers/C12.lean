import KawinV.DriverMain
import KawinV.Drv.C12
def main : IO Unit := KawinV.runDriver [KawinV.Drv.C12.handle]
