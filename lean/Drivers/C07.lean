import KawinV.DriverMain
import KawinV.Drv.C07
def main : IO Unit := KawinV.runDriver [KawinV.Drv.C07.handle]
