import KawinV.DriverMain
import KawinV.Drv.C01
def main : IO Unit := KawinV.runDriver [KawinV.Drv.C01.handle]
