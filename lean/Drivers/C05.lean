import KawinV.DriverMain
import KawinV.Drv.C05
def main : IO Unit := KawinV.runDriver [KawinV.Drv.C05.handle]
