import KawinV.DriverMain
import KawinV.Drv.C11
def main : IO Unit := KawinV.runDriver [KawinV.Drv.C11.handle]
