import KawinV.DriverMain
import KawinV.Drv.C15
def main : IO Unit := KawinV.runDriver [KawinV.Drv.C15.handle]
