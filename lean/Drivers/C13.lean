import KawinV.DriverMain
import KawinV.Drv.C13
def main : IO Unit := KawinV.runDriver [KawinV.Drv.C13.handle]
