import KawinV.DriverMain
import KawinV.Drv.C14
def main : IO Unit := KawinV.runDriver [KawinV.Drv.C14.handle]
