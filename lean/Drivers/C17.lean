import KawinV.DriverMain
import KawinV.Drv.C17
def main : IO Unit := KawinV.runDriver [KawinV.Drv.C17.handle]
