import KawinV.DriverMain
import KawinV.Drv.C16
def main : IO Unit := KawinV.runDriver [KawinV.Drv.C16.handle]
