import KawinV.DriverMain
import KawinV.Drv.C08
def main : IO Unit := KawinV.runDriver [KawinV.Drv.C08.handle]
