import KawinV.DriverMain
import KawinV.Drv.C02
def main : IO Unit := KawinV.runDriver [KawinV.Drv.C02.handle]
