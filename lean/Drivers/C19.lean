import KawinV.DriverMain
import KawinV.Drv.C19
def main : IO Unit := KawinV.runDriver [KawinV.Drv.C19.handle]
