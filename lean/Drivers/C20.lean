import KawinV.DriverMain
import KawinV.Drv.C20
def main : IO Unit := KawinV.runDriver [KawinV.Drv.C20.handle]
