/-
Audit: for every module named on the command line, list every theorem declared in that module
together with the axioms it (transitively) depends on, one JSON object per line.
Own traversal of the kernel environment: no reliance on cached axiom tables.
Run:  lake env lean --run Audit.lean KawinV.Props.C07 [...]
-/
import Lean
open Lean

def jsonStr (s : String) : String := "\"" ++ s ++ "\""

structure St where
  seen : NameSet := {}
  axioms : NameSet := {}

partial def visit (env : Environment) (c : Name) : StateM St Unit := do
  if (← get).seen.contains c then return
  modify fun s => { s with seen := s.seen.insert c }
  let go (e : Expr) : StateM St Unit := e.getUsedConstants.forM (visit env)
  match env.find? c with
  | some (.axiomInfo v)  => modify (fun s => { s with axioms := s.axioms.insert c }); go v.type
  | some (.defnInfo v)   => go v.type *> go v.value
  | some (.thmInfo v)    => go v.type *> go v.value
  | some (.opaqueInfo v) => go v.type *> go v.value
  | some (.quotInfo _)   => pure ()
  | some (.ctorInfo v)   => go v.type
  | some (.recInfo v)    => go v.type
  | some (.inductInfo v) => go v.type *> v.ctors.forM (visit env)
  | none                 => pure ()

def main (args : List String) : IO UInt32 := do
  initSearchPath (← findSysroot)
  let mods := args.map String.toName
  let env ← importModules (mods.map (fun m => ({ module := m } : Import))).toArray {}
  let mut st : St := {}
  for m in mods do
    match env.getModuleIdx? m with
    | none => IO.eprintln s!"module not found: {m}"; return 2
    | some idx =>
      let names := env.header.moduleData[idx.toNat]!.constNames
      for c in names do
        match env.find? c with
        | some (.thmInfo _) =>
          if c.isInternalDetail then continue
          -- fresh axiom set per theorem, shared `seen` would hide axioms: restart seen as well
          let ((), s) := (visit env c).run {}
          st := s
          let axs := s.axioms.toList.map (fun a => jsonStr a.toString)
          IO.println s!"\{\"module\": {jsonStr m.toString}, \"theorem\": {jsonStr c.toString}, \"axioms\": [{", ".intercalate axs}]}"
        | _ => pure ()
  return 0
