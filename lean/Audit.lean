/-
Audit: for every module named on the command line, list every theorem declared in that module
together with the axioms it (transitively) depends on, one JSON object per line.
Own traversal of the kernel environment (direct dependencies cached per constant, a full
reachability search per theorem): no reliance on cached axiom tables.
Run:  lake env lean --run Audit.lean KawinV.Props.C07 [...]
-/
import Lean
open Lean

def jsonStr (s : String) : String := "\"" ++ s ++ "\""

structure St where
  deps : NameMap (Array Name) := {}      -- direct dependencies, computed once per constant
  isAx : NameSet := {}

/-- direct dependencies of a constant (cached) -/
def depsOf (env : Environment) (c : Name) : StateM St (Array Name) := do
  if let some d := (← get).deps.find? c then return d
  let used (e : Expr) : Array Name := e.getUsedConstants
  let d : Array Name := match env.find? c with
    | some (.axiomInfo v)  => used v.type
    | some (.defnInfo v)   => used v.type ++ used v.value
    | some (.thmInfo v)    => used v.type ++ used v.value
    | some (.opaqueInfo v) => used v.type ++ used v.value
    | some (.quotInfo _)   => #[]
    | some (.ctorInfo v)   => used v.type
    | some (.recInfo v)    => used v.type
    | some (.inductInfo v) => used v.type ++ v.ctors.toArray
    | none                 => #[]
  let ax := match env.find? c with | some (.axiomInfo _) => true | _ => false
  modify fun s => { s with deps := s.deps.insert c d, isAx := if ax then s.isAx.insert c else s.isAx }
  return d

/-- axioms reachable from `c`: plain graph search over the cached dependency graph -/
def axiomsOf (env : Environment) (c : Name) : StateM St NameSet := do
  let mut seen : NameSet := {}
  let mut axs : NameSet := {}
  let mut todo : Array Name := #[c]
  while h : todo.size > 0 do
    let x := todo[todo.size - 1]
    todo := todo.pop
    if seen.contains x then continue
    seen := seen.insert x
    let d ← depsOf env x
    if (← get).isAx.contains x then axs := axs.insert x
    for y in d do
      if !seen.contains y then todo := todo.push y
  return axs

def main (args : List String) : IO UInt32 := do
  initSearchPath (← findSysroot)
  let mods := args.map String.toName
  let env ← importModules (mods.map (fun m => ({ module := m } : Import))).toArray {}
  let mut st : St := {}
  for m in mods do
    match env.getModuleIdx? m with
    | none => IO.eprintln s!"module not found: {m}"; return 2
    | some idx =>
      let names := env.header.moduleData[idx.toNat]!.constNames
      for c in names do
        match env.find? c with
        | some (.thmInfo _) =>
          if c.isInternalDetail then continue
          let (a, s') := (axiomsOf env c).run st
          st := s'
          let axs := a.toList.map (fun a => jsonStr a.toString)
          IO.println s!"\{\"module\": {jsonStr m.toString}, \"theorem\": {jsonStr c.toString}, \"axioms\": [{", ".intercalate axs}]}"
        | _ => pure ()
  return 0
