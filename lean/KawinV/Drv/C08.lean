import KawinV.Proto
import KawinV.Model.PBMGrid
/-!
driver for the size-class grid model (Float instance).

`grid.run cMin cMax bins minBins maxBins nitems item*` — one line = initial grid + whole sequence.
items:  reset T|F | add k | change cMin cMax none|bins T|F | adjust T|F | update t <list> | backup |
        revert | setpsd <list> | load <list> | adaptive T|F | enablerec | record t | setrec t | saverec |
        loadrec | mom k <N> <w>   (query, no state change)
`grid.samewidth ...` — one re-mesh, class widths and third moments of the code's re-mesh and of the skip-rescale variant (below).
state:  min max bins adaptive psd bounds size prevPsd prevBounds recording nrows widthB widthP
        lastRowB lastRowP lastTime sumB sumP sumT
answer: `I <orig...> <state>` then per item `S <state>` (`adjust` appends `R chg newIdx`),
        `Q ...` for a query, `E` at the first raising operation (the rest is dropped).
An array equal bit-for-bit to the same array of the previous state is sent as `=`.
-/
namespace KawinV.Drv.C08
open KawinV.Proto KawinV.Grid

instance : NatCast Float := ⟨Nat.toFloat⟩

abbrev St := State Float

inductive Item where
  | op (o : Op Float)
  | mom (k : Nat) (N w : List Float)

def optNat : P (Option Nat) := do
  let t ← tok
  if t == "none" then pure none else match t.toNat? with | some n => pure (some n) | none => failure

def item : P Item := do
  let t ← tok
  match t with
  | "reset" => do let b ← bool; pure (.op (.reset b))
  | "add" => do let k ← nat; pure (.op (.add k))
  | "change" => do
      let a ← flt; let b ← flt; let n ← optNat; let r ← bool
      pure (.op (.change a b n r))
  | "adjust" => do let b ← bool; pure (.op (.adjust b))
  | "update" => do let t ← flt; let l ← flts; pure (.op (.update t l))
  | "enablerec" => pure (.op .enableRec)
  | "record" => do let t ← flt; pure (.op (.record t))
  | "setrec" => do let t ← flt; pure (.op (.setRecorded t))
  | "saverec" => pure (.op .saveRec)
  | "loadrec" => pure (.op .loadRec)
  | "backup" => pure (.op .backup)
  | "revert" => pure (.op .revert)
  | "setpsd" => do let l ← flts; pure (.op (.setPsd l))
  | "load" => do let l ← flts; pure (.op (.load l))
  | "adaptive" => do let b ← bool; pure (.op (.setAdaptive b))
  | "mom" => do let k ← nat; let n ← flts; let w ← flts; pure (.mom k n w)
  | _ => failure

def sameBits (a b : List Float) : Bool :=
  a.length == b.length && (a.zip b).all (fun xy => xy.1.toBits == xy.2.toBits)

def arr (prev : Option (List Float)) (x : List Float) : String :=
  match prev with
  | some p => if sameBits p x then "=" else flist x
  | none => flist x

def fsum (l : List Float) : Float := l.foldl (· + ·) 0.0

def dump (prev : Option St) (s : St) : String :=
  " ".intercalate [fout s.min, fout s.max, toString s.bins, bstr s.adaptive,
    arr (prev.map (·.psd)) s.psd, arr (prev.map (·.bounds)) s.bounds, arr (prev.map (·.size)) s.size,
    arr (prev.map (·.prevPsd)) s.prevPsd, arr (prev.map (·.prevBounds)) s.prevBounds,
    bstr s.recording, toString s.recBins.length, toString (rowWidth s.recBins), toString (rowWidth s.recPsd),
    arr (prev.map (fun p => p.recBins.getLast?.getD [])) (s.recBins.getLast?.getD []),
    arr (prev.map (fun p => p.recPsd.getLast?.getD [])) (s.recPsd.getLast?.getD []),
    fout (s.recTime.getLast?.getD 0.0),
    fout (fsum (s.recBins.map fsum)), fout (fsum (s.recPsd.map fsum)), fout (fsum s.recTime)]

def optNatStr : Option Nat → String
  | none => "none"
  | some n => toString n

/-- apply one item; `none` state = an operation raised -/
def apply (s : St) : Item → Option St × String
  | .mom k N w =>
    (some s, " ".intercalate ["Q", fout (momentFromN s N k), fout (weightedMomentFromN s N k w),
      flist (cumulativeMomentFromN s N k), flist (cumulativeWeightedMomentFromN s N k w),
      fout (momentFromN s N 0), fout (momentFromN s N 1), fout (momentFromN s N 2), fout (momentFromN s N 3)])
  | .op (.adjust c) =>
    match adjust s c with
    | none => (none, "E")
    | some (s', chg, ni) => (some s', "S " ++ dump (some s) s' ++ " R " ++ bstr chg ++ " " ++ optNatStr ni)
  | .op o =>
    match step s o with
    | none => (none, "E")
    | some s' => (some s', "S " ++ dump (some s) s')

def runItems (s : St) (items : List Item) : Array String := Id.run do
  let mut cur : Option St := some s
  let mut out : Array String := #[]
  for it in items do
    match cur with
    | none => pure ()
    | some c =>
      let (n, str) := apply c it
      out := out.push str
      cur := n
  return out

def gridRun : P String := do
  let cMin ← flt; let cMax ← flt; let bins ← nat; let minB ← nat; let maxB ← nat
  let items ← lst item
  let s0 : St := init cMin cMax bins minB maxB
  let head := " ".intercalate ["I", fout s0.origMin, fout s0.origMax, toString s0.origBins,
    toString s0.minBins, toString s0.maxBins, dump none s0]
  pure (" ".intercalate (head :: (runItems s0 items).toList))

def optFout : Option Float → String
  | none => "E"
  | some x => fout x

/-- `grid.samewidth cMin cMax bins minBins maxBins <psd> newMin newMax none|bins`: one re-mesh of a supplied distribution.
answer: old class width, new class width, M3 before, M3 after `change`, M3 of the interpolated (not rescaled)
distribution (`remeshNewV`), M3 after the variant `changeSkipSameWidth`; `E` where the operation raises. -/
def gridSameWidth : P String := do
  let cMin ← flt; let cMax ← flt; let bins ← nat; let minB ← nat; let maxB ← nat
  let psd ← flts
  let a ← flt; let b ← flt; let n ← optNat
  let s : St := { init cMin cMax bins minB maxB with psd := psd }
  let c := change s a b n false
  pure (" ".intercalate [fout (firstWidth s.bounds), optFout (c.map (fun s' => firstWidth s'.bounds)),
    fout (thirdMoment s), optFout (c.map thirdMoment), fout (remeshNewV s a b n),
    optFout ((changeSkipSameWidth s a b n).map thirdMoment)])

def handle (verb : String) : Option (P String) :=
  match verb with
  | "grid.run" => some gridRun
  | "grid.samewidth" => some gridSameWidth
  | _ => none

end KawinV.Drv.C08
