import KawinV.Proto
import KawinV.Model.MobMatrix
import KawinV.Model.DMuDX
import KawinV.Gen.C10Tracer
import KawinV.Model.MobTable
/-! driver verbs for the mobility-matrix / dMudX / interdiffusivity models (Float instance) -/
namespace KawinV.Drv.C10
open KawinV.Proto KawinV.Mob KawinV.DMu

def fn (a : Array Float) : Nat → Float := fun i => a.getD i 0.0
def mat (a : Array Float) (cols : Nat) : Nat → Nat → Float := fun i j => if j < cols then a.getD (i * cols + j) 0.0 else 0.0
def bfn (a : Array Nat) : Nat → Bool := fun i => a.getD i 0 != 0
def flat (rows cols : Nat) (m : Nat → Nat → Float) : List Float :=
  (List.range rows).flatMap (fun i => (List.range cols).map (fun j => m i j))

/-- c10.mob  n interst(n) vacPoor X(n) M(n) yVa(n) g(n) → U(n) Usum Mm(n²) J(n) Jsum -/
def mob : P String := do
  let n ← nat; let it ← lst nat; let vp ← bool; let X ← flts; let M ← flts; let y ← flts; let g ← flts
  let it := bfn it.toArray
  let X := fn X.toArray; let M := fn M.toArray; let y := fn y.toArray; let g := fn g.toArray
  let Mm := mobMatrixX n it vp X M y
  let J := flux n Mm g
  pure s!"{flist ((List.range n).map (ufrac n it X))} {fout (usum n it X)} {flist (flat n n Mm)} {flist ((List.range n).map J)} {fout (substSum n it J)}"

/-- c10.hess  p k n d2g(p²) dg(p) mu(n) jac(k·p) dxdy(n·p) moleA(n) → H(size²) -/
def hess : P String := do
  let p ← nat; let k ← nat; let n ← nat
  let d2g ← flts; let dg ← flts; let mu ← flts; let jac ← flts; let dxdy ← flts; let mole ← flts
  let size := p + k + 1 + n
  let H := hessAsm p k n (mat d2g.toArray p) (fn dg.toArray) (fn mu.toArray) (mat jac.toArray p)
    (mat dxdy.toArray p) (fn mole.toArray)
  pure (flist (flat size size H))

def optInv (size : Nat) : P (Option (Nat → Nat → Float)) := do
  let has ← bool
  let K ← flts
  pure (if has then some (mat K.toArray size) else none)

/-- c10.dmu  size i0 n ref hasInv K(size²) → ddx(size·(n−1)) dMudX((n−1)²) partial(n²) -/
def dmu : P String := do
  let size ← nat; let i0 ← nat; let n ← nat; let ref ← nat
  let inv ← optInv size
  let ddx := totalddx size i0 ref inv
  let tot := dMudX i0 ref ddx
  let par := partialdMudX i0 (partialddx size i0 inv)
  pure s!"{flist (flat size (n-1) ddx)} {flist (flat (n-1) (n-1) tot)} {flist (flat n n par)}"

/-- c10.inter  size i0 n ref interst(n) vacPoor X(n) M(n) yVa(n) hasInv K(size²) → Dkj(n²) Dnkj((n−1)²) -/
def inter : P String := do
  let size ← nat; let i0 ← nat; let n ← nat; let ref ← nat
  let it ← lst nat; let vp ← bool; let X ← flts; let M ← flts; let y ← flts
  let inv ← optInv size
  let it := bfn it.toArray
  let X := fn X.toArray; let M := fn M.toArray; let y := fn y.toArray
  let Dkj := chemDiff n (mobMatrixX n it vp X M y) (partialdMudX i0 (partialddx size i0 inv))
  let Dn := interdiffX size i0 n ref it vp X M y inv
  pure s!"{flist (flat n n Dkj)} {flist (flat (n-1) (n-1) Dn)}"

/-- c10.darken  xk xR Mk MR G2 R T → (x_R·RT·M_k + x_k·RT·M_R)·x_k·x_R·G2/(RT) -/
def darkenV : P String := do
  let xk ← flt; let xR ← flt; let Mk ← flt; let MR ← flt; let G2 ← flt; let R ← flt; let T ← flt
  pure (fout (darken xk xR (R * T * Mk) (R * T * MR) (thermoFactor xk xR G2 R T)))

/-- c10.tracer  T c0 m0 c1 m1 c2 m2 → mobility(3) tracer(3)  (generated definitions) -/
def tracer : P String := do
  let T ← flt; let c0 ← flt; let m0 ← flt; let c1 ← flt; let m1 ← flt; let c2 ← flt; let m2 ← flt
  pure s!"{flist (KawinV.Gen.C10.mobility_all T c0 m0 c1 m1 c2 m2)} {flist (KawinV.Gen.C10.tracer_all T c0 m0 c1 m1 c2 m2)}"

/-! ### user-supplied callable tables (setMobility / setDiffusivity histories) -/
section table
open KawinV.MobTable

def which : P Which := do
  let t ← tok
  match t with | "M" => pure Which.mob | "D" => pure Which.diff | _ => failure

def pairP : P (Nat × Nat) := do let e ← nat; let f ← nat; pure (e, f)

def opP : P Op := do
  let k ← tok
  match k with
  | "A" => do let w ← which; let d ← lst pairP; pure (Op.setAll w d)
  | "S" => do let w ← which; let f ← nat; pure (Op.setSame w f)
  | "O" => do let w ← which; let e ← nat; let f ← nat; pure (Op.setOne w e f)
  | _ => failure

/-- table entry as an integer: −2 table is None, −1 no entry, else the function id -/
def entry (t : Option Tab) (e : Nat) : Int :=
  match t with
  | none => -2
  | some t => match t e with | none => -1 | some f => Int.ofNat f

def readCode : Read → String
  | .mobility f => s!"M{f}"
  | .diffusivity f => s!"D{f}"
  | .keyError => "K"
  | .noCallables => "N"

def optOut : Option Float → String
  | none => "none"
  | some x => fout x

/-- value of function id `f` at temperature T: ids < 1000 are the user's Arrhenius functions
`A·exp(−Q/(8.314·T))` (pool), 1000+e the database mobility of element e, 2000+e its database diffusivity
(values at the evaluation point captured from the original callables) -/
def fval (pool : Array (Float × Float)) (dbm dbd : Array Float) (f : Nat) (T : Float) : Float :=
  if f < 1000 then
    let (A, Q) := pool.getD f (0.0, 0.0)
    A * Float.exp (-Q / (8.314 * T))
  else if f < 2000 then dbm.getD (f - 1000) 0.0 else dbd.getD (f - 2000) 0.0

/-- c10.table  n initMob initDiff ops pool(A Q) T corr(n) dbmob(n) dbdiff(n)
    → per op: raised, then per element: mobEntry diffEntry read raw tracer  (after that op) -/
def table : P String := do
  let n ← nat; let im ← bool; let idf ← bool
  let ops ← lst opP
  let pool ← lst (do let a ← flt; let q ← flt; pure (a, q))
  let T ← flt; let corr ← flts; let dbm ← flts; let dbd ← flts
  let s0 : St := { mob := if im then some (fun e => if e < n then some (1000 + e) else none) else none,
                   diff := if idf then some (fun e => if e < n then some (2000 + e) else none) else none }
  let F := fval pool.toArray dbm.toArray dbd.toArray
  let c := fn corr.toArray
  let mut s := s0
  let mut out : List String := []
  for o in ops do
    let (s', raised) := step n s o
    s := s'
    let cells := (List.range n).map (fun e =>
      let r := read s e
      s!"{entry s.mob e} {entry s.diff e} {readCode r} {optOut (rawOf F T (c e) r)} {optOut (tracerOf F 8.314 T (c e) r)}")
    out := out ++ [bstr raised ++ " " ++ " ".intercalate cells]
  pure (" ".intercalate out)

end table

def handle (verb : String) : Option (P String) :=
  match verb with
  | "c10.mob" => some mob
  | "c10.hess" => some hess
  | "c10.dmu" => some dmu
  | "c10.inter" => some inter
  | "c10.darken" => some darkenV
  | "c10.tracer" => some tracer
  | "c10.table" => some table
  | _ => none

end KawinV.Drv.C10
