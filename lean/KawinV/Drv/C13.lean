import KawinV.Proto
import KawinV.Model.TempSched
import KawinV.Model.Lookup
import KawinV.Model.HashCache
/-! driver verbs for C13 (Float instance of the schedule and lookup models).
Each line is a complete case: the whole constructor/setter sequence, or the whole call history. -/
namespace KawinV.Drv.C13
open KawinV.Proto KawinV.TempSched KawinV.Lookup
open KawinV.HashCache (Cfg Table keyCast)

/-- the callable family used on both sides: hold `a` until `c`, then ramp with rate `b` -/
def rampFn (a b c : Float) : Float → Float := fun t => if t < c then a else a + b * (t - c)
/-- diffusion callable `f(z,t) = a + b*t + c*z` -/
def rampFnZ (a b c : Float) : List Float → Float → List Float := fun z t => z.map (fun zi => a + b * t + c * zi)

def args {φ : Type} (mk : Float → Float → Float → φ) : P (Args Float φ) := do
  let k ← tok
  match k with
  | "o" => pure .other
  | "s" => do let T ← flt; pure (.scalar T)
  | "f" => do let a ← flt; let b ← flt; let c ← flt; pure (.func (mk a b c))
  | "2" => do let ts ← flts; let Ts ← flts; pure (.two ts Ts)
  | _ => failure

inductive TOp (φ : Type) where
  | ctor (a : Args Float φ) | set (a : Args Float φ)
  | iso (T : Float) | arr (ts Ts : List Float) | fn (f : φ)

def top {φ : Type} (mk : Float → Float → Float → φ) : P (TOp φ) := do
  let k ← tok
  match k with
  | "C" => do let a ← args mk; pure (.ctor a)
  | "S" => do let a ← args mk; pure (.set a)
  | "I" => do let T ← flt; pure (.iso T)
  | "A" => do let ts ← flts; let Ts ← flts; pure (.arr ts Ts)
  | "F" => do let a ← flt; let b ← flt; let c ← flt; pure (.fn (mk a b c))
  | _ => failure

def optS (o : Option Float) : String := match o with | some v => fout v | none => "E"
def optL (o : Option (List Float)) : String := match o with | some v => flist v | none => "E"

def pApply (s : PState Float) : TOp (Float → Float) → PState Float
  | .ctor a => PState.ctor a
  | .set a => s.setParams a
  | .iso T => s.setIso T
  | .arr ts Ts => s.setArr ts Ts
  | .fn f => s.setFn f

/-- ts.prec  nOps op…  nTimes t…   → per op: flag and the value (or E) at every time -/
def prec : P String := do
  let ops ← lst (top rampFn); let ts ← flts
  let step := fun (acc : PState Float × List String) (o : TOp (Float → Float)) =>
    let s := pApply acc.1 o
    (s, acc.2 ++ [bstr s.isIso ++ " " ++ " ".intercalate (ts.map (fun t => optS (s.eval t)))])
  let r := ops.foldl step (PState.ctor .other, [])
  pure (" ".intercalate r.2)

def dApply (s : DState Float) : TOp (List Float → Float → List Float) → DState Float
  | .ctor a => DState.ctor a
  | .set a => DState.ctor a   -- the diffusion class has no setTemperatureParameters; not generated
  | .iso T => s.setIso T
  | .arr ts Ts => s.setArr ts Ts
  | .fn f => s.setFn f

/-- ts.diff  nOps op…  z  nTimes t…   → per op, per time: the node temperatures (or E) -/
def diff : P String := do
  let ops ← lst (top rampFnZ); let z ← flts; let ts ← flts
  let step := fun (acc : DState Float × List String) (o : TOp (List Float → Float → List Float)) =>
    let s := dApply acc.1 o
    (s, acc.2 ++ [" ".intercalate (ts.map (fun t => optL (s.eval z t)))])
  let r := ops.foldl step (DState.ctor .other, [])
  pure (" ".intercalate r.2)

/-- interp  x xp fp → np.interp(x, xp, fp, fp[0], fp[-1]) or E -/
def interp : P String := do
  let x ← flt; let xp ← flts; let fp ← flts
  pure (optS (npInterp x xp fp))

def kop : P (Op Float) := do
  let k ← tok
  match k with
  | "p" => pure .pre
  | "d" => do let t ← flt; pure (.dep t)
  | "P" => do let t ← flt; pure (.post t)
  | "r" => pure .remesh
  | "e" => pure .extend
  | _ => failure

def pair : P (Float × Float) := do let a ← flt; let b ← flt; pure (a, b)

def showObs (o : Obs Float) : String :=
  s!"{fout o.cur} {bstr o.rebuilt} {fout o.eqT} {fout o.dTemp} {flist o.tabT}"

def showRun {σ : Type} (s : KState Float σ) : String :=
  let obs := s.obs.reverse
  let sl := s.slices.reverse
  s!"{obs.length} " ++ " ".intercalate (obs.map showObs) ++ s!" {sl.length} " ++
    " ".intercalate (sl.map (fun x => s!"{fout x.time} {fout x.temp} {fout x.eqT}"))

/-- lk.run  variant(0 = as it was, 1 = as it is)  maxTempChange  nPairs (t T)…  nOps op…
    → every growth-rate call (cur rebuilt eqT dTemp tabT) and every recorded slice (time temp eqT) -/
def lkrun : P String := do
  let v ← nat; let mx ← flt; let pairs ← lst pair; let ops ← lst kop
  let sched : Float → Float := fun t =>
    match pairs.find? (fun p => p.1 == t) with
    | some p => p.2
    | none => 0.0 / 0.0
  if v == 0 then pure (showRun (run (implOld mx) sched ops))
  else pure (showRun (run (implNew mx) sched ops))

def wop : P (WOp Float) := do
  let k ← tok
  match k with
  | "C" => do let a ← nat; let b ← nat; pure (.ctor a b)
  | "A" => do let o ← nat; let a ← nat; let b ← nat; pure (.setArr o a b)
  | "W" => do let id ← nat; let i ← nat; let v ← flt; pure (.write id i v)
  | _ => failure

/-- how the two classes evaluate an object holding (times, temperatures) -/
def evalObj (diffusion : Bool) (z ts : List Float) (x : List Float × List Float) : String :=
  if diffusion then " ".intercalate (ts.map (fun t => optL (((DState.ctor .other).setArr x.1 x.2).eval z t)))
  else " ".intercalate (ts.map (fun t => optS (((PState.ctor .other).setArr x.1 x.2).eval t)))

def showWorld (diffusion : Bool) (z ts : List Float) (store : List (List Float))
    (objs : List (Option (List Float × List Float))) : String :=
  " ".intercalate (store.map flist ++ objs.map (fun o => match o with
    | some x => evalObj diffusion z ts x
    | none => "E"))

/-- ts.world  variant(0 = references kept, 1 = contents stored)  P|D  store…  ops…  z  times
    → after every op: every array of the caller, then every object evaluated at every time -/
def world : P String := do
  let v ← nat; let k ← tok; let store ← lst flts; let ops ← lst wop; let z ← flts; let ts ← flts
  let d := k == "D"
  if v == 0 then
    let r := ops.foldl (fun (acc : RWorld Float × List String) op =>
      let w := acc.1.step op
      (w, acc.2 ++ [showWorld d z ts w.store ((List.range w.objs.length).map w.obj)])) (⟨store, []⟩, [])
    pure (" ".intercalate r.2)
  else
    let r := ops.foldl (fun (acc : VWorld Float × List String) op =>
      let w := acc.1.step op
      (w, acc.2 ++ [showWorld d z ts w.store ((List.range w.objs.length).map w.obj)])) (⟨store, []⟩, [])
    pure (" ".intercalate r.2)

def dev : P (DEv Float) := do
  let k ← tok
  match k with
  | "E" => do let b ← bool; pure (.enable b)
  | "C" => pure .clear
  | "S" => do let s ← nat; pure (.setSens s)
  | "F" => do let t ← flt; let xs ← lst flts; pure (.flux t xs)
  | _ => failure

def showFlux (o : Option (FluxObs Float (List Float × Float))) : String :=
  match o with
  | none => "E"
  | some ob => "O " ++ flist ob.temps ++ s!" {ob.vals.length} " ++
      " ".intercalate (ob.vals.map (fun v => flist v.1 ++ " " ++ fout v.2))

/-- df.run  key(0 = the code: every component ×10^s, int64; 1 = temperature left unscaled)
    nOps op… (constructor/setter sequence of the diffusion TemperatureParameters)  z  nEv ev…
    ev = E bool | C | S digits | F t nNodes x…     (control calls and flux evaluations, in call order)
    → per flux evaluation: E (raises) or the temperature handed over per node and, per node, the
      (composition, temperature) the value in use was computed at -/
def dfrun : P String := do
  let v ← nat; let ops ← lst (top rampFnZ); let z ← flts; let evs ← lst dev
  let s := ops.foldl dApply (DState.ctor .other)
  let temp : Float → Option (List Float) := fun t => s.eval z t
  let init : Table (List Int) (List Float × Float) := KawinV.HashCache.init
  let outs :=
    if v == 0 then (runDiff Cfg.fixed (keyCast 64) prov temp init evs).2
    else (runDiff Cfg.fixed (keyKelvinCast 64) prov temp init evs).2
  pure (" ".intercalate (outs.map showFlux))

def handle (verb : String) : Option (P String) :=
  match verb with
  | "ts.prec" => some prec
  | "ts.diff" => some diff
  | "interp" => some interp
  | "lk.run" => some lkrun
  | "ts.world" => some world
  | "df.run" => some dfrun
  | _ => none

end KawinV.Drv.C13
