import KawinV.Proto
import KawinV.Gen.C15Shape
import KawinV.Model.ShapeWrap
import KawinV.Model.Bisect
import KawinV.Model.ShapeFactorState
/-! driver verbs for C15: generated shape formulas, wrapper model, bisection model (Float instance) -/
namespace KawinV.Drv.C15
open KawinV.Proto KawinV.Gen.C15 KawinV.Shape KawinV.Bisect KawinV.SFState

structure ShapeFns where
  radii : Float → List Float
  eq : Float → Float
  th : Float → Float
  kin : Float → Float
  eqMin : Float
  thMin : Float
  kinMin : Float

def shapeOf : Nat → Option ShapeFns
  | 0 => some ⟨needle_normalRadii_all, needle_eqRadius, needle_thermoFactor, needle_kineticFactor,
               needle_eqRadiusFactorMin, needle_thermoFactorMin, needle_kineticFactorMin⟩
  | 1 => some ⟨plate_normalRadii_all, plate_eqRadius, plate_thermoFactor, plate_kineticFactor,
               plate_eqRadiusFactorMin, plate_thermoFactorMin, plate_kineticFactorMin⟩
  | 2 => some ⟨cuboid_normalRadii_all, cuboid_eqRadius, cuboid_thermoFactor, cuboid_kineticFactor,
               cuboid_eqRadiusFactorMin, cuboid_thermoFactorMin, cuboid_kineticFactorMin⟩
  | 3 => some ⟨sphere_normalRadii_all, sphere_eqRadius, sphere_thermoFactor, sphere_kineticFactor,
               sphere_eqRadiusFactorMin, sphere_thermoFactorMin, sphere_kineticFactorMin⟩
  | _ => none

def shape : P ShapeFns := do
  let k ← nat
  match shapeOf k with
  | some s => pure s
  | none => failure

/-- which factor: 0 eqRadiusFactor, 1 thermoFactor, 2 kineticFactor → (…Min, inner formula) -/
def pick (s : ShapeFns) : Nat → Option (Float × (Float → Float))
  | 0 => some (s.eqMin, s.eq)
  | 1 => some (s.thMin, s.th)
  | 2 => some (s.kinMin, s.kin)
  | _ => none

/-- the aspect-ratio functions of the radius used by the correspondence cases -/
def arFun (kind : Nat) (p0 p1 p2 : Float) (r : Float) : Float :=
  match kind with
  | 0 => p0
  | 1 => p0 + p1 * (r / p2)
  | 2 => p0 * Float.pow (r / p2) p1
  | 4 => if r < p2 then p0 else p0 + p1 * (r / p2 - 1.0)
  | _ => p0 + p1 / (1.0 + r / p2)

/-- c15.gen shape ars → per ar: r0 r1 r2 eqRadius thermo kinetic (inner formulas, no wrapper) -/
def gen : P String := do
  let s ← shape; let ars ← flts
  pure (flist (ars.flatMap (fun a => s.radii a ++ [s.eq a, s.th a, s.kin a])))

/-- c15.mins shape → eqRadiusFactorMin thermoFactorMin kineticFactorMin -/
def mins : P String := do
  let s ← shape
  pure (flist [s.eqMin, s.thMin, s.kinMin])

/-- c15.wrap shape which ars → wrapper output (array call), per-element scalar calls, caller's array after -/
def wrap : P String := do
  let s ← shape; let w ← nat; let ars ← flts
  match pick s w with
  | none => failure
  | some (fmin, f) =>
    let out := wrapArr fmin f ars
    let sc := ars.map (wrapScalar fmin f)
    pure s!"{flist out} {flist sc} {flist (processAspectRatio ars).2}"

/-- c15.radii shape ars → normalRadii rows flattened (array call), scalar calls flattened, caller's array after -/
def radii : P String := do
  let s ← shape; let ars ← flts
  let out := (radiiArr s.radii ars).flatten
  let sc := ars.flatMap (radiiScalar s.radii)
  pure s!"{flist out} {flist sc} {flist (processAspectRatio ars).2}"

/-- c15.bisect shape kind p0 p1 p2 tol Rs Rmax → fallback iters r final.minR final.maxR -/
def bisect : P String := do
  let s ← shape; let k ← nat; let p0 ← flt; let p1 ← flt; let p2 ← flt
  let tol ← flt; let rs ← flt; let rmax ← flt
  let tf : Float → Float := fun r => wrapScalar s.thMin s.th (arFun k p0 p1 p2 r)
  let o := findRcrit tol rs rmax tf
  pure s!"{bstr o.fallback} {o.iters} {fout o.r} {fout o.final.minR} {fout o.final.maxR}"

/-- c15.rscalar shape ar Rs → _findRcritScalar -/
def rscalar : P String := do
  let s ← shape; let ar ← flt; let rs ← flt
  pure (fout (findRcritScalar rs (fun _ => wrapScalar s.thMin s.th ar)))

/-- an aspect-ratio function of the radius: (kind, p0, p1, p2) of `arFun` -/
abbrev Fn := Nat × Float × Float × Float

def evalFn (f : Fn) (r : Float) : Float := arFun f.1 f.2.1 f.2.2.1 f.2.2.2 r

/-- `0 c` scalar | `1 kind p0 p1 p2` function -/
def spec : P (ArSpec Float Fn) := do
  let t ← nat
  match t with
  | 0 => do let c ← flt; pure (.scalar c)
  | 1 => do let k ← nat; let p0 ← flt; let p1 ← flt; let p2 ← flt; pure (.func (k, p0, p1, p2))
  | _ => failure

/-- `0 spec` setAspectRatio | `1 shape spec` setPrecipitateShape / set…Shape | `2` setSpherical -/
def op : P (Op Float Fn) := do
  let t ← nat
  match t with
  | 0 => do let s ← spec; pure (.setAspectRatio s)
  | 1 => do let sh ← nat; let s ← spec; pure (.setShape sh s)
  | 2 => pure .setSpherical
  | _ => failure

def thermoOf (sh : Nat) (ar : Float) : Float :=
  match shapeOf sh with
  | some s => wrapScalar s.thMin s.th ar
  | none => 1.0

/-- c15.hist tol Rs Rmax ctor(0 shape spec | 1) ops → search fallback iters r shape
the PUBLIC findRcrit of the object reached through a history of setter calls -/
def hist : P String := do
  let tol ← flt; let rs ← flt; let rmax ← flt
  let c ← nat
  let st0 : Option (List (Op Float Fn) → St Float Fn) ← (match c with
    | 0 => do let sh ← nat; let s ← spec; pure (some (run sh s))
    | 1 => pure (some runSpherical)
    | _ => pure none)
  let ops ← lst op
  match st0 with
  | none => failure
  | some mk =>
    let st := mk ops
    let o := findRcritPublic evalFn thermoOf tol rs rmax st
    let sk := match st.search with | .closedForm => "S" | .bisection => "B"
    pure s!"{sk} {bstr o.fallback} {o.iters} {fout o.r} {st.shape}"

/-- description-level functions of a list of aspect ratios, flat output:
`which` 0 eqRadiusFactor, 1 thermoFactor, 2 kineticFactor (wrapper model on the regenerated formulas),
3 normalRadii (rows flattened) -/
def descF (sh which : Nat) (ars : List Float) : List Float :=
  match shapeOf sh with
  | none => []
  | some s =>
    if which == 3 then (radiiArr s.radii ars).flatten
    else match pick s which with
      | some (fmin, f) => wrapArr fmin f ars
      | none => []

/-- `0 spec` | `1 shape spec` | `2` setters as in `op`; `3 which obj vals` evaluation of a radius
function with the argument object `obj` (explicit identity) whose current contents are `vals` -/
def rop : P (ROp Float Fn) := do
  let t ← nat
  match t with
  | 0 => do let s ← spec; pure (.cfg (.setAspectRatio s))
  | 1 => do let sh ← nat; let s ← spec; pure (.cfg (.setShape sh s))
  | 2 => pure (.cfg .setSpherical)
  | 3 => do let w ← nat; let o ← nat; let vs ← flts; pure (.eval w o vs)
  | _ => failure

/-- c15.rhist ctor(0 shape spec | 1) ops → shape-after n, then per evaluation (call order):
answer of the model of the code as it is, answer of the identity-memo variant -/
def rhist : P String := do
  let c ← nat
  let st0 : Option (St Float Fn) ← (match c with
    | 0 => do let sh ← nat; let s ← spec; pure (some (run sh s []))
    | 1 => pure (some (runSpherical []))
    | _ => pure none)
  let ops ← lst rop
  match st0 with
  | none => failure
  | some st =>
    let r := runR evalFn descF st ops
    let m := memoRun evalFn descF (memoFresh st) ops
    let body := (r.2.zip m.2).map (fun (a, b) => s!"{flist a} {flist b}")
    pure (" ".intercalate (toString r.1.shape :: toString r.2.length :: body))

def handle (verb : String) : Option (P String) :=
  match verb with
  | "c15.gen" => some gen
  | "c15.mins" => some mins
  | "c15.wrap" => some wrap
  | "c15.radii" => some radii
  | "c15.bisect" => some bisect
  | "c15.rscalar" => some rscalar
  | "c15.hist" => some hist
  | "c15.rhist" => some rhist
  | _ => none

end KawinV.Drv.C15
