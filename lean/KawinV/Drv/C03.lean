import KawinV.Proto
import KawinV.Model.KWNFault
/-! driver verbs for the KWN fault-path model (Float instance) -/
namespace KawinV.Drv.C03
open KawinV.Proto KawinV.KWNF

def optList : P (Option (List Float)) := do
  let t ← tok
  if t == "none" then pure none
  else if t == "some" then do let l ← flts; pure (some l)
  else failure

/-- kwn.growth nElem nBounds dG precDens (none | some growth xEqA xEqB) kin (none | some prevGrowth) prevEqA prevEqB -/
def growth : P String := do
  let nE ← nat; let nB ← nat; let dG ← flt; let dens ← flt
  let t ← tok
  let res ← (if t == "none" then pure none
             else if t == "some" then do
               let g ← flts; let a ← flts; let b ← flts; pure (some (g, a, b))
             else failure : P (Option (List Float × List Float × List Float)))
  let kin ← flts
  let pg ← optList
  let pa ← flts; let pb ← flts
  match singleGrowthMulti nE nB dG dens res kin pg pa pb with
  | .ok o => pure s!"val {flist o.growth} {flist o.xEqA} {flist o.xEqB} {bstr o.tablesKept}"
  | .error .attr => pure "exc attr"
  | .error .unbound => pure "exc unbound"

def handle (verb : String) : Option (P String) :=
  match verb with
  | "kwn.growth" => some growth
  | _ => none

end KawinV.Drv.C03
