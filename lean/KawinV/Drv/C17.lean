import KawinV.Proto
/-! driver verbs for C17 (stub: no verbs yet) -/
namespace KawinV.Drv.C17
open KawinV.Proto

def handle (verb : String) : Option (P String) :=
  match verb with
  | _ => none

end KawinV.Drv.C17
