import KawinV.Proto
import KawinV.Model.Homog
import KawinV.Model.HashCache
/-! driver verbs for the homogenization model (Float instance) -/
namespace KawinV.Drv.C17
open KawinV.Proto KawinV.Homog

/-- np.finfo(np.float64).tiny / .max -/
def tiny : Float := Float.ofBits 0x0010000000000000
def big : Float := Float.ofBits 0x7FEFFFFFFFFFFFFF

def pw (x n : Float) : Float := Float.pow x n

def ruleOf : Nat → Option Rule
  | 0 => some .wienerUpper | 1 => some .wienerLower | 2 => some .hashinUpper
  | 3 => some .hashinLower | 4 => some .labyrinth | _ => none

/-- homog.rules  fr(p) mob(p) n  → wienerUpper wienerLower hashinUpper hashinLower labyrinth
    (one element column through the five public averaging functions) -/
def rules : P String := do
  let fr ← flts; let m ← flts; let n ← flt
  let ps := List.zip fr m
  pure (flist ([Rule.wienerUpper, .wienerLower, .hashinUpper, .hashinLower, .labyrinth].map
    (fun r => applyRule pw tiny big n r ps)))

/-- homog.clip n → np.clip(n, 1, 2) -/
def clip : P String := do
  let n ← flt
  pure (fout (clipFactor n))

def post : P (Post Nat) := do
  let k ← nat
  match k with
  | 0 => pure .none
  | 1 => do let a ← nat; pure (.predefined a)
  | 2 => pure .majority
  | 3 => do let xs ← lst nat; pure (.exclude xs)
  | _ => failure

def cfg : P (Cfg Nat Float) := do
  let r ← nat; let n ← flt; let p ← post
  match ruleOf r with
  | some rule => pure { rule := rule, n := n, post := p }
  | none => failure

/-- homog.history  db(nats) stable(nats) rows(list of flts) fr(flts) cfgs(list of: rule n post)
    → per configuration `R <list>` or `E <error>`, then the stored record afterwards `M rows… F fr` -/
def history : P String := do
  let db ← lst nat; let stable ← lst nat; let rows ← lst flts; let fr ← flts
  let cfgs ← lst cfg
  let pt : Point Nat Float := { stable := stable, mob := rows, fr := fr }
  let (outs, st) := runHistory (evalCached pw tiny big db) cfgs pt
  let os := outs.map (fun o => match o with
    | .ok xs => "R " ++ flist xs
    | .error e => "E " ++ e)
  let ms := st.mob.map flist
  pure (" ".intercalate (os ++ ["M", toString ms.length] ++ ms ++ ["F", flist st.fr]))

/-! the pipeline over many points through one shared table (Homog.runPipeline with the code's
64-bit integer key `HashCache.keyCast 64`); the thermodynamics function is the table of records the
harness obtained from the implementation without a cache, looked up by the exact bits of (x, T) -/

structure PtRec where
  x : List Float
  T : Float
  pt : Point Nat Float

def sameF (a b : Float) : Bool := a.toBits == b.toBits
def sameL : List Float → List Float → Bool
  | [], [] => true
  | a :: r, b :: s => sameF a b && sameL r s
  | _, _ => false

def thermOf (tab : List PtRec) (x : List Float) (T : Float) : Point Nat Float :=
  match tab.find? (fun p => sameL p.x x && sameF p.T T) with
  | some p => p.pt
  | none => { stable := [], mob := [], fr := [] }

def idxOf (tab : List PtRec) (x : List Float) (T : Float) : Nat :=
  (tab.findIdx? (fun p => sameL p.x x && sameF p.T T)).getD tab.length

def ptRec : P PtRec := do
  let x ← flts; let T ← flt; let stable ← lst nat; let rows ← lst flts; let fr ← flts
  pure { x := x, T := T, pt := { stable := stable, mob := rows, fr := fr } }

inductive DEv where
  | enable (b : Bool) | clear | setSens (s : Nat) | call (c : Cfg Nat Float) (idx : List Nat)

def dev : P DEv := do
  let k ← nat
  match k with
  | 0 => do let b ← bool; pure (.enable b)
  | 1 => pure .clear
  | 2 => do let s ← nat; pure (.setSens s)
  | 3 => do let c ← cfg; let idx ← lst nat; pure (.call c idx)
  | _ => failure

open KawinV.HashCache in
/-- which earlier-or-same point's record each point of a call was served from: the same table
machine with the index of the point as the stored value -/
def srcCall (tab : List PtRec) (t : Table (List Int) Nat) :
    List (List Float × Float) → List Nat × Table (List Int) Nat
  | [] => ([], t)
  | p :: r =>
    let q := cachedQuery Cfg.fixed (keyCast 64) (idxOf tab) t p.1 p.2
    let b := srcCall tab q.2 r
    (q.1 :: b.1, b.2)

open KawinV.HashCache in
/-- sources for a whole history; `oks` tells for every call whether it ended normally (an exception
of the post-process function ends the call after the first point's record was looked up / added) -/
def srcRun (tab : List PtRec) (pt : Nat → List Float × Float) :
    Table (List Int) Nat → List DEv → List Bool → List (List Nat)
  | _, [], _ => []
  | t, .enable b :: r, oks => srcRun tab pt (step Cfg.fixed (keyCast 64) t (Op.enable b : Op Float Nat)) r oks
  | t, .clear :: r, oks => srcRun tab pt (step Cfg.fixed (keyCast 64) t (Op.clear : Op Float Nat)) r oks
  | t, .setSens s :: r, oks => srcRun tab pt (step Cfg.fixed (keyCast 64) t (Op.setSens s : Op Float Nat)) r oks
  | t, .call _ idx :: r, oks =>
    let ok := oks.headD true
    let pts := idx.map pt
    let sc := srcCall tab t (if ok then pts else pts.take 1)
    sc.1 :: srcRun tab pt sc.2 r oks.tail

open KawinV.HashCache in
/-- homog.pipeline  db(nats) points(list of: x T stable rows fr) events(list of: 0 b | 1 | 2 s | 3 cfg idx…)
    → per call `R k (src answer)…` or `E <error>` -/
def pipeline : P String := do
  let db ← lst nat; let tab ← lst ptRec; let evs ← lst dev
  let pt (i : Nat) : List Float × Float := match tab[i]? with | some p => (p.x, p.T) | none => ([], 0)
  let pevs : List (PEv Nat Float) := evs.map (fun e => match e with
    | .enable b => PEv.enable b
    | .clear => PEv.clear
    | .setSens s => PEv.setSens s
    | .call c idx => PEv.call c (idx.map pt))
  let outs := (runPipeline (keyCast 64) (thermOf tab) pw tiny big db
    (init : Table (List Int) (Point Nat Float)) pevs).2
  let oks := outs.map (fun o => match o with | .ok _ => true | .error _ => false)
  let srcs := srcRun tab pt init evs oks
  let line (o : Except String (List (List Float))) (sc : List Nat) : String := match o with
    | .ok vs => " ".intercalate (["R", toString vs.length] ++
        (List.zip sc vs).map (fun sv => toString sv.1 ++ " " ++ flist sv.2))
    | .error e => "E " ++ e
  pure (" ".intercalate (List.zipWith line outs srcs))

/-! several HomogenizationModel objects and their parameter objects (Homog.runM, the code: a model built
without parameters allocates its own object) -/

def setting : P (Setting Nat Float) := do
  let k ← nat
  match k with
  | 0 => do
    let r ← nat
    match ruleOf r with
    | some rule => pure (.rule rule)
    | none => failure
  | 1 => do let n ← flt; pure (.factor n)
  | 2 => do let p ← post; pure (.post p)
  | 3 => do let e ← flt; pure (.eps e)
  | _ => failure

def point : P (Point Nat Float) := do
  let stable ← lst nat; let rows ← lst flts; let fr ← flts
  pure { stable := stable, mob := rows, fr := fr }

def mop : P (MOp Nat Float) := do
  let k ← nat
  match k with
  | 0 => do let c ← cfg; let e ← flt; pure (.newParams { cfg := c, eps := e })
  | 1 => do
    let h ← nat
    match h with
    | 0 => pure (.newModel none)
    | _ => do let pid ← nat; pure (.newModel (some pid))
  | 2 => do let mid ← nat; let s ← setting; pure (.set mid s)
  | 3 => do let pid ← nat; let s ← setting; pure (.setP pid s)
  | 4 => do let mid ← nat; let pts ← lst point; pure (.eval mid pts)
  | _ => failure

def ruleId : Rule → Nat
  | .wienerUpper => 0 | .wienerLower => 1 | .hashinUpper => 2 | .hashinLower => 3 | .labyrinth => 4

def postOut : Post Nat → String
  | .none => "0"
  | .predefined a => "1 " ++ toString a
  | .majority => "2"
  | .exclude xs => " ".intercalate ("3" :: toString xs.length :: xs.map toString)

/-- homog.objects  db(nats) eps0 ops(list of: 0 cfg eps | 1 0 | 1 1 pid | 2 mid setting | 3 pid setting | 4 mid points…)
    → per eval `R k rows…` or `E <error>`, then `M models(pids)… P k (rule n eps post)…` = the store at the end -/
def objects : P String := do
  let db ← lst nat; let eps0 ← flt; let ops ← lst mop
  let r := runM pw tiny big eps0 db none (initStore eps0 none) ops
  let os := r.2.map (fun o => match o with
    | .ok vs => " ".intercalate (["R", toString vs.length] ++ vs.map flist)
    | .error e => "E " ++ e)
  let ms := r.1.models.map toString
  let ps := r.1.params.map (fun p =>
    " ".intercalate [toString (ruleId p.cfg.rule), fout p.cfg.n, fout p.eps, postOut p.cfg.post])
  pure (" ".intercalate (os ++ ["M", toString ms.length] ++ ms ++ ["P", toString ps.length] ++ ps))

def handle (verb : String) : Option (P String) :=
  match verb with
  | "homog.rules" => some rules
  | "homog.clip" => some clip
  | "homog.history" => some history
  | "homog.pipeline" => some pipeline
  | "homog.objects" => some objects
  | _ => none

end KawinV.Drv.C17
