import KawinV.Proto
import KawinV.Model.Homog
/-! driver verbs for the homogenization model (Float instance) -/
namespace KawinV.Drv.C17
open KawinV.Proto KawinV.Homog

/-- np.finfo(np.float64).tiny / .max -/
def tiny : Float := Float.ofBits 0x0010000000000000
def big : Float := Float.ofBits 0x7FEFFFFFFFFFFFFF

def pw (x n : Float) : Float := Float.pow x n

def ruleOf : Nat → Option Rule
  | 0 => some .wienerUpper | 1 => some .wienerLower | 2 => some .hashinUpper
  | 3 => some .hashinLower | 4 => some .labyrinth | _ => none

/-- homog.rules  fr(p) mob(p) n  → wienerUpper wienerLower hashinUpper hashinLower labyrinth
    (one element column through the five public averaging functions) -/
def rules : P String := do
  let fr ← flts; let m ← flts; let n ← flt
  let ps := List.zip fr m
  pure (flist ([Rule.wienerUpper, .wienerLower, .hashinUpper, .hashinLower, .labyrinth].map
    (fun r => applyRule pw tiny big n r ps)))

/-- homog.clip n → np.clip(n, 1, 2) -/
def clip : P String := do
  let n ← flt
  pure (fout (clipFactor n))

def post : P (Post Nat) := do
  let k ← nat
  match k with
  | 0 => pure .none
  | 1 => do let a ← nat; pure (.predefined a)
  | 2 => pure .majority
  | 3 => do let xs ← lst nat; pure (.exclude xs)
  | _ => failure

def cfg : P (Cfg Nat Float) := do
  let r ← nat; let n ← flt; let p ← post
  match ruleOf r with
  | some rule => pure { rule := rule, n := n, post := p }
  | none => failure

/-- homog.history  db(nats) stable(nats) rows(list of flts) fr(flts) cfgs(list of: rule n post)
    → per configuration `R <list>` or `E <error>`, then the stored record afterwards `M rows… F fr` -/
def history : P String := do
  let db ← lst nat; let stable ← lst nat; let rows ← lst flts; let fr ← flts
  let cfgs ← lst cfg
  let pt : Point Nat Float := { stable := stable, mob := rows, fr := fr }
  let (outs, st) := runHistory (evalCached pw tiny big db) cfgs pt
  let os := outs.map (fun o => match o with
    | .ok xs => "R " ++ flist xs
    | .error e => "E " ++ e)
  let ms := st.mob.map flist
  pure (" ".intercalate (os ++ ["M", toString ms.length] ++ ms ++ ["F", flist st.fr]))

def handle (verb : String) : Option (P String) :=
  match verb with
  | "homog.rules" => some rules
  | "homog.clip" => some clip
  | "homog.history" => some history
  | _ => none

end KawinV.Drv.C17
