import KawinV.Proto
import KawinV.Model.Diffusion
/-! driver verbs for the diffusion mesh model (Float instance) -/
namespace KawinV.Drv.C04
open KawinV.Proto KawinV.Diffusion

def fn (a : Array Float) : Nat → Float := fun i => a.getD i 0.0

/-- row-major (element, index) table of row length `len` -/
def tab (a : Array Float) (len : Nat) : Nat → Nat → Float := fun e i => a.getD (e * len + i) 0.0

def mat (E N : Nat) (x : State Float) : Array Float := Id.run do
  let mut a := Array.mkEmpty (E * N)
  for e in [0:E] do
    for i in [0:N] do
      a := a.push (x e i)
  return a

def bcType : P BCType := do
  let t ← nat
  match t with
  | 0 => pure .flux
  | 1 => pure .comp
  | _ => failure

def bcP : P (BC Float) := do
  let lt ← bcType; let lv ← flt; let rt ← bcType; let rv ← flt
  pure ⟨lt, lv, rt, rv⟩

def schemeP : P Scheme := do
  let t ← nat
  match t with
  | 0 => pure .euler
  | 1 => pure .rk4
  | _ => failure

def cfgP : P (Cfg Float) := do
  let N ← nat; let E ← nat; let dz ← flt; let minC ← flt; let nAll ← flt
  let bcs ← rep bcP E
  let bca := bcs.toArray
  pure { N := N, E := E, dz := dz, minC := minC, nAll := nAll,
         bc := fun e => bca.getD e ⟨.flux, 0.0, .flux, 0.0⟩ }

/-- dif.solve  N E dz minC nAll bc(E) scheme built(E*N) hist(list of dt lists) fluxes(list of E*(N+1) raw tables, one per
    `_getFluxes` call)
    → per solve call: `K x(E*N)` after setup (or `E`, then the answer stops), per step `x(E*N)`;
      finally `S x(E*N)` / `X`: the state after the whole history through `solves`. -/
def solve : P String := do
  let cfg ← cfgP
  let sch ← schemeP
  let built ← flts
  let hist ← lst flts
  let tables ← lst flts
  let N := cfg.N; let E := cfg.E
  let tabs := (tables.map (fun t => t.toArray)).toArray
  let F : Nat → State Float → Nat → Nat → Float := fun c _ e j => tab (tabs.getD c #[]) (N+1) e j
  let builtS : State Float := tab built.toArray N
  let zero : State Float := fun _ _ => 0.0
  let mut out : Array String := #[]
  let mut c := 0
  let mut s : MState Float := ⟨zero, false⟩
  let mut failed := false
  for dts in hist do
    if failed then break
    match setup cfg builtS s with
    | .error _ =>
      out := out.push "E"
      failed := true
    | .ok s1 =>
      let a0 := mat E N s1.x
      out := out.push ("K " ++ flist a0.toList)
      let mut x : State Float := tab a0 N
      for dt in dts do
        let a := mat E N (step cfg sch F c x dt)
        out := out.push (flist a.toList)
        x := tab a N
        c := c + calls sch
      s := ⟨x, true⟩
  match solves cfg sch F builtS (0, ⟨zero, false⟩) hist with
  | .error _ => out := out.push "X"
  | .ok (_, sf) => out := out.push ("S " ++ flist (mat E N sf.x).toList)
  pure (" ".intercalate out.toList)

/-- dif.rhs  N dz bc Jraw(N+1) → BC-applied fluxes (N+1), dXdt (N)  (one element row) -/
def rhsV : P String := do
  let N ← nat; let dz ← flt; let bc ← bcP; let J ← flts
  let Jb := applyBC N bc (fn J.toArray)
  let d := rhs N dz (fun _ => bc) (fun _ => fn J.toArray) 0
  pure s!"{flist ((List.range (N+1)).map Jb)} {flist ((List.range N).map d)}"

/-- dif.vframe  subst(indices) J(all elements) u(all elements) → Jv(all elements), Σ_subst Jv -/
def vframe : P String := do
  let subst ← lst nat; let J ← flts; let u ← flts
  let n := J.length
  let Jv := vflux subst (fn J.toArray) (fn u.toArray)
  pure s!"{flist ((List.range n).map Jv)} {fout (sumOver subst Jv)}"

def handle (verb : String) : Option (P String) :=
  match verb with
  | "dif.solve" => some solve
  | "dif.rhs" => some rhsV
  | "dif.vframe" => some vframe
  | _ => none

end KawinV.Drv.C04
