import KawinV.Proto
import KawinV.Model.Diffusion
/-! driver verbs for the diffusion mesh model (Float instance) -/
namespace KawinV.Drv.C04
open KawinV.Proto KawinV.Diffusion

def fn (a : Array Float) : Nat → Float := fun i => a.getD i 0.0

/-- row-major (element, index) table of row length `len` -/
def tab (a : Array Float) (len : Nat) : Nat → Nat → Float := fun e i => a.getD (e * len + i) 0.0

def mat (E N : Nat) (x : State Float) : Array Float := Id.run do
  let mut a := Array.mkEmpty (E * N)
  for e in [0:E] do
    for i in [0:N] do
      a := a.push (x e i)
  return a

def bcType : P BCType := do
  let t ← nat
  match t with
  | 0 => pure .flux
  | 1 => pure .comp
  | _ => failure

def bcP : P (BC Float) := do
  let lt ← bcType; let lv ← flt; let rt ← bcType; let rv ← flt
  pure ⟨lt, lv, rt, rv⟩

def schemeP : P Scheme := do
  let t ← nat
  match t with
  | 0 => pure .euler
  | 1 => pure .rk4
  | _ => failure

def cfgP : P (Cfg Float) := do
  let N ← nat; let E ← nat; let dz ← flt; let minC ← flt; let nAll ← flt
  let bcs ← rep bcP E
  let bca := bcs.toArray
  pure { N := N, E := E, dz := dz, minC := minC, nAll := nAll,
         bc := fun e => bca.getD e ⟨.flux, 0.0, .flux, 0.0⟩ }

/-- dif.solve  N E dz minC nAll bc(E) scheme built(E*N) hist(list of dt lists) fluxes(list of E*(N+1) raw tables, one per
    `_getFluxes` call)
    → per solve call: `K x(E*N) dependent(N)` after setup (or `E`, then the answer stops), per step `x(E*N)`;
      finally `S x(E*N)` / `X`: the state after the whole history through `solves`. -/
def solve : P String := do
  let cfg ← cfgP
  let sch ← schemeP
  let built ← flts
  let hist ← lst flts
  let tables ← lst flts
  let N := cfg.N; let E := cfg.E
  let tabs := (tables.map (fun t => t.toArray)).toArray
  let F : Nat → State Float → Nat → Nat → Float := fun c _ e j => tab (tabs.getD c #[]) (N+1) e j
  let builtS : State Float := tab built.toArray N
  let zero : State Float := fun _ _ => 0.0
  let mut out : Array String := #[]
  let mut c := 0
  let mut s : MState Float := ⟨zero, false⟩
  let mut failed := false
  for dts in hist do
    if failed then break
    match setup cfg builtS s with
    | .error _ =>
      out := out.push "E"
      failed := true
    | .ok s1 =>
      let a0 := mat E N s1.x
      out := out.push ("K " ++ flist a0.toList)
      out := out.push (flist ((List.range N).map (dependent E s1.x)))
      let mut x : State Float := tab a0 N
      for dt in dts do
        let a := mat E N (step cfg sch F c x dt)
        out := out.push (flist a.toList)
        x := tab a N
        c := c + calls sch
      s := ⟨x, true⟩
  match solves cfg sch F builtS (0, ⟨zero, false⟩) hist with
  | .error _ => out := out.push "X"
  | .ok (_, sf) => out := out.push ("S " ++ flist (mat E N sf.x).toList)
  pure (" ".intercalate out.toList)

/-- dif.rhs  N dz bc Jraw(N+1) → BC-applied fluxes (N+1), dXdt (N)  (one element row) -/
def rhsV : P String := do
  let N ← nat; let dz ← flt; let bc ← bcP; let J ← flts
  let Jb := applyBC N bc (fn J.toArray)
  let d := rhs N dz (fun _ => bc) (fun _ => fn J.toArray) 0
  pure s!"{flist ((List.range (N+1)).map Jb)} {flist ((List.range N).map d)}"

/-- dif.vframe  subst(indices) J(all elements) u(all elements) → Jv(all elements), Σ_subst Jv -/
def vframe : P String := do
  let subst ← lst nat; let J ← flts; let u ← flts
  let n := J.length
  let Jv := vflux subst (fn J.toArray) (fn u.toArray)
  pure s!"{flist ((List.range n).map Jv)} {fout (sumOver subst Jv)}"

/-! boundary-condition entering calls -/

def sideP : P SideArg := do
  let t ← tok
  match t with
  | "L" => pure .left
  | "R" => pure .right
  | "X" => pure .invalid
  | _ => failure

def typeP : P TypeArg := do
  let t ← tok
  match t with
  | "F" => pure .flux
  | "C" => pure .comp
  | "X" => pure .invalid
  | _ => failure

/-- key: -1 = None, k ≥ 0 = the k-th name -/
def keyP : P Key := do
  let i ← int
  pure (if i < 0 then none else some i.toNat)

def opP : P (BCOp Float) := do
  let t ← tok
  match t with
  | "S" => do let sd ← sideP; let ty ← typeP; let v ← flt; let k ← keyP; pure (.set sd ty v k)
  | "L" => do let ty ← typeP; let v ← flt; let k ← keyP; pure (.setLeft ty v k)
  | "R" => do let ty ← typeP; let v ← flt; let k ← keyP; pure (.setRight ty v k)
  | "B" => do let lt ← typeP; let lv ← flt; let rt ← typeP; let rv ← flt; let k ← keyP; pure (.setBC lt lv rt rv k)
  | _ => failure

def tyStr : Option BCType → String
  | none => "-"
  | some .flux => "0"
  | some .comp => "1"

def valStr : Option Float → String
  | none => "none"
  | some v => fout v

/-- the four dictionaries over the keys None, 0..K-1 -/
def storeStr (K : Nat) (s : BCStore Float) : String :=
  let keys : List Key := none :: (List.range K).map some
  " ".intercalate (keys.map (fun k => s!"{tyStr (s.ltype k)} {valStr (s.lval k)} {tyStr (s.rtype k)} {valStr (s.rval k)}"))

/-- dif.bcops  E K ctor(T/F: object passed to the constructor / made by it) ops
    → raised flag per op, the dictionaries after the calls (keys None, 0..K-1: ltype lval rtype rval),
      the dictionaries after setupDefaults(E), the (ltype lval rtype rval) rows read for the E elements;
      the last token repeats the final dictionaries through `applyOps` -/
def bcops : P String := do
  let E ← nat; let K ← nat; let ctor ← bool
  let ops ← lst opP
  let s0 : BCStore Float := if ctor then initBC (some BCStore.empty) else initBC none
  let mut s := s0
  let mut flags : Array String := #[]
  for o in ops do
    let r := applyOp s o
    s := r.1
    flags := flags.push (bstr r.2)
  let d := setupDefaults E s
  let rows := (List.range E).map (fun e =>
    let b := toBC d e
    s!"{tyStr (some b.ltype)} {fout b.lval} {tyStr (some b.rtype)} {fout b.rval}")
  let same := storeStr K (applyOps s0 ops) == storeStr K s
  pure (" ".intercalate (flags.toList ++ [storeStr K s, storeStr K d] ++ rows ++ [bstr same]))

/-- dif.shiftclamp  minC nAll v → shiftClamp (the two statements of setup on one value) -/
def shiftclampV : P String := do
  let minC ← flt; let nAll ← flt; let vs ← flts
  pure (flist (vs.map (shiftClamp minC nAll)))

def handle (verb : String) : Option (P String) :=
  match verb with
  | "dif.solve" => some solve
  | "dif.rhs" => some rhsV
  | "dif.vframe" => some vframe
  | "dif.bcops" => some bcops
  | "dif.shiftclamp" => some shiftclampV
  | _ => none

end KawinV.Drv.C04
