import KawinV.Proto
import KawinV.Model.MassBalance
/-! driver verbs for the mass-balance model (Float instance) -/
namespace KawinV.Drv.C01
open KawinV.Proto KawinV.MB

def phaseIn : P (PhaseIn Float) := do
  let N ← flts; let R ← flts
  let cols ← lst flts            -- per element: boundary table column (n+1 entries)
  let vr ← flt; let vfac ← flt; let pvf ← flt; let inf ← bool
  let pf ← flts; let old ← flts
  pure { N := N, R := R, xb := cols.map midpoints, volRatio := vr, volumeFactor := vfac,
         prevVolFrac := pvf, infinite := inf, prevFconc := pf, psdOld := old }

def outStr (s : Slice Float) : String :=
  let ph := s.phases.map (fun p => s!"{fout p.dens} {fout p.ravg} {fout p.volFrac} {flist p.fconc}")
  s!"{s.phases.length} {" ".intercalate ph} {flist s.comp}"

/-- mb.balance minDens minComp x0 prevComp phases… -/
def balance : P String := do
  let minDens ← flt; let minComp ← flt
  let x0 ← flts; let prev ← flts
  let ins ← lst phaseIn
  pure (outStr (massBalance minDens minComp x0 prev ins))

def handle (verb : String) : Option (P String) :=
  match verb with
  | "mb.balance" => some balance
  | _ => none

end KawinV.Drv.C01
