import KawinV.Proto
import KawinV.Model.MassBalance
import KawinV.Gen.C01MassBalance
/-! driver verbs for the mass-balance model (Float instance) -/
namespace KawinV.Drv.C01
open KawinV.Proto KawinV.MB

def phaseIn : P (PhaseIn Float) := do
  let N ← flts; let R ← flts
  let cols ← lst flts            -- per element: boundary table column (n+1 entries)
  let vr ← flt; let vfac ← flt; let pvf ← flt; let inf ← bool
  let pf ← flts; let old ← flts
  pure { N := N, R := R, xb := cols.map midpoints, volRatio := vr, volumeFactor := vfac,
         prevVolFrac := pvf, infinite := inf, prevFconc := pf, psdOld := old }

def outStr (s : Slice Float) : String :=
  let ph := s.phases.map (fun p => s!"{fout p.dens} {fout p.ravg} {fout p.volFrac} {flist p.fconc}")
  s!"{s.phases.length} {" ".intercalate ph} {flist s.comp}"

/-- mb.balance minDens minComp x0 prevComp phases… -/
def balance : P String := do
  let minDens ← flt; let minComp ← flt
  let x0 ← flts; let prev ← flts
  let ins ← lst phaseIn
  pure (outStr (massBalance minDens minComp x0 prev ins))

/-- mb.gen N(2x3 flat) R(2x3 flat) xb(2x4x2 flat) vma vmb(2) vfac(2) x0(2) → the regenerated definitions on Float -/
def gen : P String := do
  let N ← flts; let R ← flts; let xb ← flts; let vma ← flt; let vmb ← flts; let vfac ← flts; let x0 ← flts
  let Na := N.toArray; let Ra := R.toArray; let xa := xb.toArray
  let fN : Nat → Nat → Float := fun p i => Na.getD (p*3+i) 0.0
  let fR : Nat → Nat → Float := fun p i => Ra.getD (p*3+i) 0.0
  let fx : Nat → Nat → Nat → Float := fun p j e => xa.getD (p*8+j*2+e) 0.0
  pure (flist (KawinV.Gen.C01.mb_all fN fR fx vma (fun p => vmb.getD p 0.0) (fun p => vfac.getD p 0.0) (fun e => x0.getD e 0.0)))

def handle (verb : String) : Option (P String) :=
  match verb with
  | "mb.balance" => some balance
  | "mb.gen" => some gen
  | _ => none

end KawinV.Drv.C01
