import KawinV.Proto
import KawinV.Model.ICScan
/-! driver verbs for C12: regenerated Gibbs–Thomson / growth formulas and the scan model, on `Float` -/
namespace KawinV.Drv.C12
open KawinV KawinV.Proto KawinV.Gen.C12 KawinV.IC

instance : One Float := ⟨1.0⟩
instance : Zero Float := ⟨0.0⟩

def fn (a : Array Float) : Nat → Float := fun i => a.getD i 0.0

/-- gen.gt Vm E f gamma R dG → gExtra(R), volDG, rcritProposal(volDG), gcrit(gamma, R) -/
def gt : P String := do
  let vm ← flt; let e ← flt; let f ← flt; let g ← flt; let r ← flt; let dG ← flt
  let dv := volDG dG vm e
  pure (flist [gExtra vm e f g r, dv, rcritProposal f g dv, gcrit g r])

/-- gen.rckwn f gamma dG Vm E → rcritKWN -/
def rckwn : P String := do
  let f ← flt; let g ← flt; let dG ← flt; let vm ← flt; let e ← flt
  pure (fout (rcritKWN f g dG vm e))

/-- gen.multi mc R dG gExtra → growthMulti -/
def multi : P String := do
  let mc ← flt; let r ← flt; let dG ← flt; let ge ← flt
  pure (fout (growthMulti mc r dG ge))

/-- gen.kwn kf mc R dGv Vm Va E f gamma → growthMultiKWN -/
def kwn : P String := do
  let kf ← flt; let mc ← flt; let r ← flt; let dv ← flt; let vm ← flt; let va ← flt; let e ← flt; let f ← flt; let g ← flt
  pure (fout (growthMultiKWN kf mc r dv vm va e f g))

/-- gen.bin kf D eff x xa xb Va Vb R → superSat, growthBinary -/
def bin : P String := do
  let kf ← flt; let d ← flt; let eff ← flt; let x ← flt; let xa ← flt; let xb ← flt
  let va ← flt; let vb ← flt; let r ← flt
  pure (flist [superSat x xa xb va vb, growthBinary kf d eff x xa xb va vb r])

/-- ic.rcrit f gamma dGv Rmin → Rcrit, Gcrit as nucleationBarrier returns them (bulk/dislocation) -/
def rcrit : P String := do
  let f ← flt; let g ← flt; let dv ← flt; let rmin ← flt
  let rc := rcritUsed f g dv rmin
  pure (flist [rc, gcrit g rc])

def recP : P (Rec Float) := do
  let ge ← nat; let two ← bool; let xm ← flt; let xp ← flt
  pure ⟨ge, two, xm, xp⟩

/-- ic.scan sent n k (ge two xm xp)×k → final gIndex, inRange, xMatrixArray(n), xPrecipArray(n) -/
def scanV : P String := do
  let sent ← flt; let n ← nat; let rs ← lst recP
  let st := scan sent rs
  let idx := List.range n
  pure s!"{st.gIndex} {bstr (inRange n rs)} {flist (idx.map st.xM)} {flist (idx.map st.xP)}"

/-- ic.lookup sent xa(n) xb(n) → RdrivingForceIndex, PSDXalpha(n), PSDXbeta(n) after the prefix fill -/
def lookupV : P String := do
  let sent ← flt; let xa ← flts; let xb ← flts
  let n := xa.length
  let k := rdfi n sent (fn xa.toArray)
  let idx := List.range n
  pure s!"{k} {flist (idx.map (fillPrefix n 0.0 k (fn xa.toArray)))} {flist (idx.map (fillPrefix n 0.0 k (fn xb.toArray)))}"

/-- ic.dispatch Ts gs (the `atleast_1d` lists) → `E` (ValueError of the length check) or the calls of
`_interfacialComposition` in order: k, then k × (T, GE values) -/
def dispatchV : P String := do
  let ts ← flts; let gs ← flts
  match processTG ts gs with
  | none => pure "E"
  | some (ts', gs') =>
    let cs := icCalls allEqual ts' gs'
    pure (" ".intercalate (toString cs.length :: cs.map (fun c => s!"{fout c.1} {flist c.2}")))

/-- gen.extra ast GE N → extraGM (energy per mole of atoms), extraG (energy per formula unit) -/
def extraV : P String := do
  let a ← flt; let ge ← flt; let n ← flt
  pure (flist [extraGM a ge, extraG a ge n])

/-- df.order twoPhase s(nat list) x(flt list) → `F` / `C` (fallback = sampling / curvature formula) and the composition
it is handed, in order -/
def dfOrderV : P String := do
  let two ← bool; let s ← lst nat; let x ← flts
  let n := x.length
  let xs : Nat → Float := fn x.toArray
  let sf : Nat → Nat := fun i => s.getD i 0
  let show_ (tag : String) (y : Nat → Float) : String := s!"{tag} {flist ((List.range n).map y)}"
  pure (dfCurvature two (show_ "F") (show_ "C") sf xs)

def opP : P (NucHist.Op Float) := do
  let t ← tok
  match t with
  | "G" => do let v ← flt; pure (.setGamma v)
  | "B" => do let v ← flt; pure (.setGb v)
  | "S" => do let d ← nat; pure (.setSite d)
  | "K" => pure .getK
  | "A" => pure (.get .area)
  | "V" => pure (.get .vol)
  | "R" => pure (.get .rem)
  | "M" => pure (.get .arem)
  | _ => failure

/-- nuc.hist maxR(flt list, by site id) gamma gb site ops → one answer per operation: `-` (setter), `k <bits>`,
`f <site> <k bits>` (the factor was computed by the description of `site` at ratio `k`), `E` (ValueError).
The invalidation table is the REGENERATED `Gen.C12.fclears`. -/
def nucHistV : P String := do
  let mr ← flts; let g ← flt; let b ← flt; let d ← nat; let ops ← lst opP
  let maxR : Nat → Float := fun i => mr.getD i 0.0
  let F : Nat → Fac → Float → (Nat × Float) := fun site _ k => (site, k)
  let outs := NucHist.runOut fclears F maxR ops (NucHist.fresh ⟨g, b, d⟩)
  let sh : NucHist.Out Float (Nat × Float) → String
    | .nothing => "-"
    | .ratio k => s!"k {fout k}"
    | .factor v => s!"f {v.1} {fout v.2}"
    | .error => "E"
  pure (" ".intercalate (outs.map sh))

/-- ic.barray f gamma Rmin dGs → the critical radii of `nucleationBarrier(array)` (bulk / dislocation), one per condition -/
def barrayV : P String := do
  let f ← flt; let g ← flt; let rmin ← flt; let ds ← flts
  pure (flist (barrierArray f g rmin ds))

def parP : P (PhasePar Float) := do
  let vm ← flt; let e ← flt; let f ← flt; let g ← flt
  pure ⟨vm, e, f, g⟩

/-- ic.gtargs p params(vm e f gamma)×k bounds → the Gibbs-Thomson energies handed to the growth law for phase `p`
(`E` when the phase does not exist) -/
def gtArgsV : P String := do
  let p ← nat; let ps ← lst parP; let bs ← flts
  let out := gibbsArgs ps some p bs
  if out.all Option.isSome then pure (flist (out.filterMap id)) else pure "E"

def handle (verb : String) : Option (P String) :=
  match verb with
  | "gen.gt" => some gt
  | "gen.rckwn" => some rckwn
  | "gen.multi" => some multi
  | "gen.kwn" => some kwn
  | "gen.bin" => some bin
  | "ic.rcrit" => some rcrit
  | "ic.scan" => some scanV
  | "ic.lookup" => some lookupV
  | "ic.dispatch" => some dispatchV
  | "gen.extra" => some extraV
  | "df.order" => some dfOrderV
  | "nuc.hist" => some nucHistV
  | "ic.barray" => some barrayV
  | "ic.gtargs" => some gtArgsV
  | _ => none

end KawinV.Drv.C12
