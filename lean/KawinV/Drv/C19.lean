import KawinV.Proto
import KawinV.Model.StopCond
/-! driver verbs for the stopping-condition model (Float instance).

history block  `nP nE time(N) volFrac(N*nP) Ravg drivingForce nucRate density composition(N*nE)`
names block    `phases(list of tokens) elements(list of tokens)`
condition      `q(0..5) dir(G|L) value selector(- = None | name)`
-/
namespace KawinV.Drv.C19
open KawinV.Proto KawinV.StopCond

def grid (a : Array Float) (w : Nat) : Nat → Nat → Float := fun r c => a.getD (r * w + c) 0.0

def pdata : P (PData Float) := do
  let nP ← nat; let nE ← nat
  let t ← flts; let vf ← flts; let ra ← flts; let dg ← flts; let nr ← flts; let de ← flts; let co ← flts
  let ta := t.toArray
  pure { time := fun i => ta.getD i 0.0,
         volFrac := grid vf.toArray nP, Ravg := grid ra.toArray nP, drivingForce := grid dg.toArray nP,
         nucRate := grid nr.toArray nP, precipitateDensity := grid de.toArray nP,
         composition := grid co.toArray nE }

def quantity : P Quantity := do
  let k ← nat
  match k with
  | 0 => pure .volFrac | 1 => pure .radius | 2 => pure .drivingForce
  | 3 => pure .nucRate | 4 => pure .density | 5 => pure .composition
  | _ => failure

def dir : P Dir := do
  let t ← tok
  match t with | "G" => pure .gt | "L" => pure .lt | _ => failure

/-- a condition; `none` when the selector does not resolve (the Python side raises) -/
def cond (phases elements : List String) : P (Option (Cond Float)) := do
  let q ← quantity; let d ← dir; let v ← flt; let s ← tok
  let sel := if s == "-" then none else some s
  pure ((columnOf phases elements q sel).map (fun c => ⟨q, d, v, c⟩))

def latch : P (Latch Float) := do
  let s ← bool; let t ← flt
  pure ⟨s, t⟩

def showLatch (l : Latch Float) : String := s!"{bstr l.sat} {fout l.time}"

/-- sc.seq  history names cond latch steps(list of n) → the latch after every `testCondition` -/
def seq : P String := do
  let d ← pdata; let ph ← lst tok; let el ← lst tok
  let c ← cond ph el; let l0 ← latch; let steps ← lst nat
  match c with
  | none => pure "raise"
  | some c =>
    let (_, out) := steps.foldl (fun (acc : Latch Float × List String) n =>
        let l := test d n c acc.1
        (l, showLatch l :: acc.2)) (l0, [])
    pure (" ".intercalate (toString steps.length :: out.reverse))

def entries (ph el : List String) : P (Option (List (Entry Float))) := do
  let k ← nat
  let es ← rep (do
      let c ← cond ph el; let o ← bool; let l ← latch
      pure (c.map (fun c => (⟨c, o, l⟩ : Entry Float)))) k
  pure (es.foldr (fun e acc => match e, acc with
      | some e, some acc => some (e :: acc)
      | _, _ => none) (some []))

def showEntries (es : List (Entry Float)) : String :=
  " ".intercalate (toString es.length :: es.map (fun e => showLatch e.l))

/-- stop flags after each of the steps k0+1 .. m, entries `es` being those of row k0 -/
def flagsFrom (d : PData Float) (es : List (Entry Float)) (k0 m : Nat) : List Bool :=
  ((List.range (m - k0)).foldl (fun (acc : List (Entry Float) × List Bool) i =>
      let es' := testAll d (k0 + i + 1) acc.1
      (es', stopFlag es' :: acc.2)) (es, [])).2.reverse

/-- sc.run  history names tf fuel k0 reset?(T|F) entries      (k0 = row at which `solve` is entered)
    → last row, stopped early, stop flag after every step taken, latches -/
def runV : P String := do
  let d ← pdata; let ph ← lst tok; let el ← lst tok
  let tf ← flt; let fuel ← nat; let k0 ← nat; let rs ← bool
  let es ← entries ph el
  match es with
  | none => pure "raise"
  | some es =>
    let es := if rs then resetAll es else es
    let (m, stopped, es') := run d tf fuel k0 es
    let flags := (flagsFrom d es k0 m).map bstr
    pure s!"{m} {bstr stopped} {" ".intercalate (toString flags.length :: flags)} {showEntries es'}"

/-- sc.ttp  history names tf fuel conds(with their current latches; modes are all 'and')
    → the reported times -/
def ttp : P String := do
  let d ← pdata; let ph ← lst tok; let el ← lst tok
  let tf ← flt; let fuel ← nat
  let k ← nat
  let cl ← rep (do let c ← cond ph el; let l ← latch; pure (c, l)) k
  if cl.any (fun x => x.1.isNone) then pure "raise" else
  let cs := cl.filterMap (fun x => x.1)
  let ls := cl.map (fun x => x.2)
  pure (flist (ttpTimes d tf fuel (ttpEntries cs ls)))

/-- sc.stop  k × (isOr sat) → the stop flag of `postProcess` for these latch states -/
def stopV : P String := do
  let k ← nat
  let xs ← rep (do let o ← bool; let s ← bool; pure (o, s)) k
  let es : List (Entry Float) := xs.map (fun x => ⟨⟨.volFrac, .gt, 0.0, 0⟩, x.1, ⟨x.2, 0.0⟩⟩)
  pure (bstr (stopFlag es))

/-- one call of a history (see `KawinV.StopCond.Op`) -/
def op : P (Op Float) := do
  let t ← tok
  match t with
  | "A" => do let i ← nat; let o ← bool; pure (.add i o)
  | "C" => pure .clear
  | "R" => pure .reset
  | "S" => do let d ← pdata; let tf ← flt; let fuel ← nat; let k0 ← nat; pure (.solve d tf fuel k0)
  | "T" => do let is ← lst nat; pure (.ttpInit is)
  | "P" => do
      let cfgs ← lst (do
        let a ← flt; let b ← flt; let n ← nat; let mn ← nat; let mx ← nat; let ad ← bool; let rc ← bool
        pure (⟨a, b, n, mn, mx, ad, rc⟩ : PBMCfg Float))
      pure (.setPBM cfgs)
  | "G" => do let p ← nat; let a ← flt; let b ← flt; let n ← nat; pure (.regrid p a b n)
  | _ => failure

def showReg (k : Nat) (s : Reg Float) : String :=
  let ls := (List.range k).map (fun i => showLatch (s.latches i))
  let rs := s.reg.map (fun r => s!"{r.1} {bstr r.2}")
  let ps := s.pbm.map (fun p => s!"{fout p.cfg.cMin} {fout p.cfg.cMax} {p.cfg.bins} {p.cfg.minBins} {p.cfg.maxBins} {bstr p.cfg.adaptive} {bstr p.cfg.record} {fout p.gMin} {fout p.gMax} {p.gBins}")
  " ".intercalate (ls ++ (toString s.reg.length :: rs) ++ (toString s.pbm.length :: ps))

/-- sc.hist  names k conds(k)  nops ops   — a whole history of calls on ONE model, all pool objects new (clear)
    → after every call: last row and stopped-early of that call (0 F unless it is a solve), the k pool latches,
      the registered list (index, mode), the population balance models (configuration + grid in use)
    calls: A i mode | C | R | S history tf fuel k0 | T is | P cfgs (setPBMParameters/setPSDrecording) | G p min max bins (re-meshing seen) -/
def hist : P String := do
  let ph ← lst tok; let el ← lst tok
  let k ← nat
  let cs ← rep (cond ph el) k
  let ops ← lst op
  if cs.any (fun c => c.isNone) then pure "raise" else
  let ca := (cs.filterMap id).toArray
  let conds : Nat → Cond Float := fun i => ca.getD i ⟨.volFrac, .gt, 0.0, 0⟩
  let (_, out) := ops.foldl (fun (acc : Reg Float × List String) o =>
      let (m, b, s') : Nat × Bool × Reg Float := match o with
        | .solve d tf fuel k0 => acc.1.solve conds d tf fuel k0
        | o => (0, false, acc.1.step conds o)
      (s', s!"{m} {bstr b} {showReg k s'}" :: acc.2)) (Reg.fresh, [])
  pure (" ".intercalate (toString ops.length :: out.reverse))

/-- one coupled model: `O` (postProcess returns False) | `P history names entries`; `none` = a selector does not resolve -/
def cmodel : P (Option (CModel Float)) := do
  let t ← tok
  match t with
  | "O" => pure (some .other)
  | "P" => do
      let d ← pdata; let ph ← lst tok; let el ← lst tok
      let es ← entries ph el
      pure (es.map (fun es => CModel.prec d es))
  | _ => failure

def showCModel : CModel Float → String
  | .prec _ es => showEntries es
  | .other => "0"

/-- sc.coupled  clock(list) tf fuel k0 models(list)     — one `Coupler.solve` entered at row k0
    → last row, stopped early, number of steps taken, per step: the flag every model returned (list order) and the
      combined flag of `Coupler.postProcess`, then per model its latches -/
def coupledV : P String := do
  let ck ← flts; let tf ← flt; let fuel ← nat; let k0 ← nat
  let ms ← lst cmodel
  if ms.any (fun m => m.isNone) then pure "raise" else
  let ms := ms.filterMap id
  let ca := ck.toArray
  let clock : Nat → Float := fun i => ca.getD i 0.0
  let (m, stopped, ms') := coupledRun clock tf fuel k0 ms
  let steps := ((List.range (m - k0)).foldl (fun (acc : List (CModel Float) × List String) i =>
      let r := couplerPost (k0 + i + 1) acc.1
      (r.1, s!"{" ".intercalate (r.2.1.map bstr)} {bstr r.2.2}" :: acc.2)) (ms, [])).2.reverse
  pure (" ".intercalate ([toString m, bstr stopped, toString steps.length] ++ steps ++ ms'.map showCModel))

def handle (verb : String) : Option (P String) :=
  match verb with
  | "sc.coupled" => some coupledV
  | "sc.hist" => some hist
  | "sc.seq" => some seq
  | "sc.run" => some runV
  | "sc.ttp" => some ttp
  | "sc.stop" => some stopV
  | _ => none

end KawinV.Drv.C19
