import KawinV.Proto
/-! driver verbs for C19 (stub: no verbs yet) -/
namespace KawinV.Drv.C19
open KawinV.Proto

def handle (verb : String) : Option (P String) :=
  match verb with
  | _ => none

end KawinV.Drv.C19
