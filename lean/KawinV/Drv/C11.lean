import KawinV.Proto
/-! driver verbs for C11 (stub: no verbs yet) -/
namespace KawinV.Drv.C11
open KawinV.Proto

def handle (verb : String) : Option (P String) :=
  match verb with
  | _ => none

end KawinV.Drv.C11
