import KawinV.Proto
import KawinV.Model.Permute
import KawinV.Model.DtRules
/-! driver verbs for C11: element re-ordering wrappers and per-phase step rules (Float instance) -/
namespace KawinV.Drv.C11
open KawinV.Proto KawinV.Permute KawinV.DtRules

def nlist (xs : List Nat) : String := " ".intercalate (toString xs.length :: xs.map toString)
def names : P (List String) := lst tok
def nats : P (List Nat) := lst nat

/-- a matrix: `<rows> <row>…` each row a float list -/
def mat : P (List (List Float)) := lst flts
def mlist (m : List (List Float)) : String := " ".intercalate (toString m.length :: m.map flist)

/-- perm.argsort.str names → argsort, unsortIdx -/
def argsortStr : P String := do
  let ks ← names
  pure s!"{nlist (argsort ks)} {nlist (unsortIdx ks)}"

/-- perm.argsort.int keys → argsort, unsortIdx -/
def argsortInt : P String := do
  let ks ← lst int
  pure s!"{nlist (argsort ks)} {nlist (unsortIdx ks)}"

/-- perm.argsort.flt keys → argsort, unsortIdx -/
def argsortFlt : P String := do
  let ks ← flts
  pure s!"{nlist (argsort ks)} {nlist (unsortIdx ks)}"

/-- perm.take idx a → a[idx] -/
def takeV : P String := do
  let idx ← nats; let a ← flts
  pure (flist (take idx a))

/-- perm.roundtrip names a → a[sort], a[sort][unsort], a[unsort][sort] -/
def roundtrip : P String := do
  let ks ← names; let a ← flts
  let s := sortIdx ks; let u := unsortIdx ks
  pure s!"{flist (take s a)} {flist (take u (take s a))} {flist (take s (take u a))}"

/-- perm.vec names x d → sorted names, x aligned with them (what the backend is handed), and
`wrapVec` with the backend answering `d` -/
def vec : P String := do
  let ks ← names; let x ← flts; let d ← flts
  let sn := take (sortIdx ks) ks
  let sx := take (sortIdx ks) x
  pure s!"{nlist (sortIdx ks)} {flist sx} {flist (wrapVec (fun _ _ => d) ks x)} {" ".intercalate sn}"

/-- perm.mat names x D → `wrapMat` with the backend answering `D` -/
def matV : P String := do
  let ks ← names; let x ← flts; let d ← mat
  pure (mlist (wrapMat (fun _ _ => d) ks x))

/-- perm.ref ref solutes x d → x aligned with the sorted solutes, `wrapVecRef`, `wrapVecFull` with the
backend answering `d` (all components, alphabetical) -/
def refV : P String := do
  let r ← tok; let ks ← names; let x ← flts; let d ← flts
  let sx := take (sortIdx ks) x
  pure s!"{flist sx} {flist (wrapVecRef (fun _ _ _ => d) r ks x)} {flist (wrapVecFull (fun _ _ _ => d) r ks x)}"

/-- perm.matvec D x → D·x -/
def matvec : P String := do
  let d ← mat; let x ← flts
  pure (flist (matVec d x))

def site : P Site := do
  let k ← nat
  match k with
  | 0 => pure .bulk | 1 => pure .disl | 2 => pure .gb | 3 => pure .edge | 4 => pure .corner
  | _ => failure

def phase : P (Phase Float) := do
  let id ← nat; let s ← site
  let psd ← flts; let size ← flts; let bounds ← flts; let growth ← flts; let dissIdx ← nat
  let nucPrev ← flt; let nucCur ← flt; let rcPrev ← flt; let rcCur ← flt; let dG ← flt; let Rnuc ← flt
  let vmBeta ← flt; let areaFactor ← flt; let volumeFactor ← flt; let gbRemoval ← flt; let gbk ← flt
  let parents ← nats; let x ← flts
  pure { id, site := s, psd, size, bounds, growth, dissIdx, nucPrev, nucCur, rcPrev, rcCur, dG, Rnuc,
         vmBeta, areaFactor, volumeFactor, gbRemoval, gbk, parents, x }

def cfg : P (Cfg Float) := do
  let checkPSD ← bool; let checkNuc ← bool; let checkTemp ← bool; let checkRcrit ← bool; let checkVol ← bool
  let minNucRate ← flt; let maxNucChange ← flt; let maxNonIsoDT ← flt; let maxRcritChange ← flt
  let maxVolChange ← flt; let dtScale ← flt; let binRatio ← flt
  pure { checkPSD, checkNuc, checkTemp, checkRcrit, checkVol, minNucRate, maxNucChange, maxNonIsoDT,
         maxRcritChange, maxVolChange, dtScale, binRatio }

def siteCfg : P (SiteCfg Float) := do
  let bulkN0 ← flt; let dislN0 ← flt; let gbN0 ← flt; let edgeN0 ← flt; let cornerN0 ← flt
  let NA ← flt; let vmAlpha ← flt
  pure { bulkN0, dislN0, gbN0, edgeN0, cornerN0, NA, vmAlpha }

def stepIn : P (StepIn Float) := do
  let n ← nat; let tPrev ← flt; let tCur ← flt; let finalTime ← flt; let Tprev ← flt; let Tcur ← flt
  let vmAlpha ← flt
  pure { n, tPrev, tCur, finalTime, Tprev, Tcur, vmAlpha }

/-- kwn.step cfg sitecfg stepin phases →
    dtPSD dtNuc dtTemp dtRcrit dtVolume dtVolumeOld getDt getDtOld sites(list) -/
def kwnStep : P String := do
  let c ← cfg; let sc ← siteCfg; let s ← stepIn; let phs ← lst phase
  let dtPrev := dtPrevOf s
  let dtMax := s.finalTime - s.tCur
  let out := [dtPSD c s.n s.Tprev s.Tcur dtMax phs, dtNuc c s.n dtPrev dtMax phs,
              dtTemp c s.n s.Tprev s.Tcur dtPrev dtMax, dtRcrit c s.n dtPrev dtMax phs,
              dtVolume c s.vmAlpha dtMax phs, dtVolumeOld c s.vmAlpha dtMax phs,
              getDt c s phs, getDtOld c s phs]
  let summary := stepSummary c sc s phs
  pure s!"{flist out} {flist summary.2}"

def handle (verb : String) : Option (P String) :=
  match verb with
  | "perm.argsort.str" => some argsortStr
  | "perm.argsort.int" => some argsortInt
  | "perm.argsort.flt" => some argsortFlt
  | "perm.take" => some takeV
  | "perm.roundtrip" => some roundtrip
  | "perm.vec" => some vec
  | "perm.mat" => some matV
  | "perm.ref" => some refV
  | "perm.matvec" => some matvec
  | "kwn.step" => some kwnStep
  | _ => none

end KawinV.Drv.C11
