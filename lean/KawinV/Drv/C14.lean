import KawinV.Proto
import KawinV.Model.NucSites
/-! driver verbs for C14: generated nucleation formulas and the hand model, on `Float` -/
namespace KawinV.Drv.C14
open KawinV KawinV.Proto KawinV.Gen.C14 KawinV.Nuc

instance : One Float := ⟨1.0⟩

def site : P Site := do
  let t ← tok
  match t with
  | "bulk" => pure .bulk
  | "disl" => pure .disl
  | "gb" => pure .gb
  | "edge" => pure .edge
  | "corner" => pure .corner
  | _ => failure

def cache : P Cache := do
  let t ← tok
  match t with
  | "gbk" => pure .gbk
  | "area" => pure .area
  | "vol" => pure .vol
  | "rem" => pure .rem
  | "arem" => pure .arem
  | _ => failure

def caches : List Cache := [.rem, .area, .vol, .arem]

/-- gen.geo site k → the four inner formulas [gbRemoval, areaFactor, volumeFactor, areaRemoval] -/
def geo : P String := do
  let s ← site; let k ← flt
  pure (flist (caches.map fun c => formula s c k))

/-- desc.val site k → belowMax, maxRatio (inf for none), the four wrapper values (sentinel −1 above the limit) -/
def descval : P String := do
  let s ← site; let k ← flt
  let m : Float := match maxRatio (α := Float) s with | none => 1.0 / 0.0 | some m => m
  pure s!"{bstr (belowMax s k)} {fout m} {flist (caches.map fun c => descValue s c k)}"

/-- gen.nbp a b c gamma gbE dG R → nbp_Rcrit, nbp_Gcrit, gbRatio -/
def nbpf : P String := do
  let a ← flt; let b ← flt; let c ← flt; let g ← flt; let e ← flt; let dG ← flt; let r ← flt
  pure (flist [nbp_Rcrit a b c g e dG, nbp_Gcrit a b c g e dG r, gbRatio e g])

/-- nr.barrier isGB f gamma a b c gbE Rmin dG → Rcrit, Gcrit -/
def barrierV : P String := do
  let gb ← bool; let f ← flt; let g ← flt; let a ← flt; let b ← flt; let c ← flt; let e ← flt
  let rmin ← flt; let dG ← flt
  let (r, gc) := barrier gb f g a b c e rmin dG
  pure (flist [r, gc])

def zeld : P String := do
  let kB ← flt; let na ← flt; let c ← flt; let vm ← flt; let g ← flt; let t ← flt; let r ← flt
  pure (fout (zeldovichW kB na c vm g t r))

def beta1 : P String := do
  let a ← flt; let a0 ← flt; let x ← flt; let d1 ← flt; let r ← flt
  pure (fout (beta1W a a0 x d1 r))

def beta2 : P String := do
  let a ← flt; let a0 ← flt; let xa ← flt; let xb ← flt; let d0 ← flt; let d1 ← flt; let r ← flt
  pure (fout (beta2W a a0 xa xb d0 d1 r))

def betam : P String := do
  let a ← flt; let a0 ← flt; let imp ← flt; let r ← flt
  pure (fout (betaMW a a0 imp r))

def tauV : P String := do
  let th ← flt; let b ← flt; let z ← flt
  pure (fout (incubationW th b z))

/-- nr.rate kB Z beta G T tau t → rate (finite time), steady rate (time = inf) -/
def rate : P String := do
  let kB ← flt; let z ← flt; let b ← flt; let g ← flt; let t ← flt; let tau ← flt; let time ← flt
  pure (flist [nucRateW kB z b g t tau time, steadyRateW kB z b g t])

def radius : P String := do
  let kB ← flt; let g ← flt; let t ← flt; let r ← flt
  pure (fout (nucleationRadius kB g t r))

/-- nr.tauni theta Z currBeta currTime currTemp betas times temps -/
def tauni : P String := do
  let th ← flt; let z ← flt; let cb ← flt; let ct ← flt; let cT ← flt
  let bs ← flts; let ts ← flts; let Ts ← flts
  pure (fout (tauNonIso th z cb ct cT bs ts Ts))

def op : P (Op Float) := do
  let t ← tok
  match t with
  | "G" => do let v ← optFlt; pure (.setGamma v)
  | "E" => do let v ← optFlt; pure (.setGbE v)
  | "D" => do let s ← site; pure (.setSite s)
  | "g" => do let c ← cache; pure (.get c)
  | _ => failure

def showRes : Except Err Float → String
  | .ok v => fout v
  | .error .gamma => "err-gamma"
  | .error .gbEnergy => "err-gb"
  | .error .ratio => "err-ratio"

/-- nbp.ops site gamma? gbE? n op… → one token per `get` -/
def ops : P String := do
  let s ← site; let g ← optFlt; let e ← optFlt
  let os ← lst op
  let (rs, _) := (NBP.init s g e).run os
  pure (" ".intercalate (toString rs.length :: rs.map showRes))

def phase : P (PhasePop Float) := do
  let s ← site; let ns ← flts; let rs ← flts; let gr ← flt; let k ← flt; let vm ← flt
  pure ⟨s, ns.zip rs, gr, k, vm⟩

/-- sites.calc bulkN0 dislN0 gbN0 edgeN0 cornerN0 NA VmAlpha nphases phase… parents site -/
def sitesV : P String := do
  let b ← flt; let d ← flt; let g ← flt; let e ← flt; let c ← flt; let na ← flt; let vm ← flt
  let phs ← lst phase
  let par ← lst nat
  let s ← site
  pure (fout (calcSites ⟨b, d, g, e, c, na, vm⟩ phs par s))

/-- step.nuc isGB f gamma a b c gbE Rmin kB NA Vm T theta t dt minDens sites tauNI?  prev(5) dG beta
→ the slice after the step (repaired code) and after the stale variant -/
def stepV : P String := do
  let gb ← bool; let f ← flt; let g ← flt; let a ← flt; let b ← flt; let c ← flt; let e ← flt
  let rmin ← flt; let kB ← flt; let na ← flt; let vm ← flt; let T ← flt; let th ← flt
  let t ← flt; let dt ← flt; let md ← flt; let st ← flt; let tn ← optFlt
  let p ← flts; let dG ← flt; let beta ← flt
  let q : StepIn Float := ⟨gb, f, g, a, b, c, e, rmin, kB, na, vm, T, th, t, dt, md, st, tn⟩
  let prev : NucSlice Float := ⟨p.getD 0 0, p.getD 1 0, p.getD 2 0, p.getD 3 0, p.getD 4 0⟩
  -- the impingement rate is a thermodynamic input: the recorded value where the radius is non-zero
  let betaOf : Float → Float := fun r => if r < 0 ∨ 0 < r then beta else 0
  let o := nucStep q prev dG betaOf
  let o' := nucStepStale q prev dG betaOf
  pure s!"{flist [o.Rcrit, o.Gcrit, o.imp, o.rate, o.Rnuc]} {flist [o'.Rcrit, o'.Gcrit, o'.imp, o'.rate, o'.Rnuc]}"

def handle (verb : String) : Option (P String) :=
  match verb with
  | "gen.geo" => some geo
  | "desc.val" => some descval
  | "gen.nbp" => some nbpf
  | "nr.barrier" => some barrierV
  | "nr.zeld" => some zeld
  | "nr.beta1" => some beta1
  | "nr.beta2" => some beta2
  | "nr.betam" => some betam
  | "nr.tau" => some tauV
  | "nr.rate" => some rate
  | "nr.radius" => some radius
  | "nr.tauni" => some tauni
  | "nbp.ops" => some ops
  | "sites.calc" => some sitesV
  | "step.nuc" => some stepV
  | _ => none

end KawinV.Drv.C14
