import KawinV.Proto
import KawinV.Gen.C18Strength
import KawinV.Model.Strength
import KawinV.Model.GrainGrowth
import KawinV.Model.Coupling
/-! driver verbs for C18: generated strength formulas, strength array-logic model, grain-growth model
(Float instance) -/
namespace KawinV.Drv.C18
open KawinV.Proto KawinV.Gen.C18 KawinV.Strength KawinV.Grain

abbrev F3 := Float → Float → Float → Float
abbrev F22 := Float → Float → Float → Float → Float → Float → Float → Float → Float → Float → Float →
  Float → Float → Float → Float → Float → Float → Float → Float → Float → Float → Float → Float
abbrev L22 := Float → Float → Float → Float → Float → Float → Float → Float → Float → Float → Float →
  Float → Float → Float → Float → Float → Float → Float → Float → Float → Float → Float → List Float

def g (p : Array Float) (i : Nat) : Float := p.getD i 0.0

/-- parameter vector (G b nu ri theta psi J eps Gp w1 w2 yAPB s beta V ySFM ySFP bp gamma _ _ _) + (r, Ls, r0) -/
def ap (f : F22) (p : Array Float) : F3 := fun r Ls r0 =>
  f (g p 0) (g p 1) (g p 2) (g p 3) (g p 4) (g p 5) (g p 6) (g p 7) (g p 8) (g p 9) (g p 10) (g p 11)
    (g p 12) (g p 13) (g p 14) (g p 15) (g p 16) (g p 17) (g p 18) r Ls r0

def apL (f : L22) (p : Array Float) : List Float :=
  f (g p 0) (g p 1) (g p 2) (g p 3) (g p 4) (g p 5) (g p 6) (g p 7) (g p 8) (g p 9) (g p 10) (g p 11)
    (g p 12) (g p 13) (g p 14) (g p 15) (g p 16) (g p 17) (g p 18) (g p 19) (g p 20) (g p 21)

def vec22 : P (Array Float) := do let l ← rep flt 22; pure l.toArray
def bools5 : P (List Bool) := rep bool 5

/-- weak / strong formula of contribution i (Coherency, Modulus, APB, SFE, Interfacial) for the line-tension model -/
def weakF (tm i : Nat) : F22 :=
  match tm, i with
  | 0, 0 => sf_coherencyWeak | 0, 1 => sf_modulusWeak | 0, 2 => sf_APBweak | 0, 3 => sf_SFEweak | 0, _ => sf_interfacialWeak
  | _, 0 => sfs_coherencyWeak | _, 1 => sfs_modulusWeak | _, 2 => sfs_APBweak | _, 3 => sfs_SFEweak | _, _ => sfs_interfacialWeak

def strongF (tm i : Nat) : F22 :=
  match tm, i with
  | 0, 0 => sf_coherencyStrong | 0, 1 => sf_modulusStrong | 0, 2 => sf_APBstrong | 0, 3 => sf_SFEstrong | 0, _ => sf_interfacialStrong
  | _, 0 => sfs_coherencyStrong | _, 1 => sfs_modulusStrong | _, 2 => sfs_APBstrong | _, 3 => sfs_SFEstrong | _, _ => sfs_interfacialStrong

def contribs (tm : Nat) (pall pph : Array Float) (allOn phOn : List Bool) : List (Contrib Float) :=
  (List.range 5).map (fun i =>
    { allOn := allOn.getD i false, phaseOn := phOn.getD i false,
      weakAll := ap (weakF tm i) pall, strongAll := ap (strongF tm i) pall,
      weakPhase := ap (weakF tm i) pph, strongPhase := ap (strongF tm i) pph })

def oroF (pall : Array Float) : Float → Float → Float := fun r Ls => ap sf_orowan pall r Ls 0.0

def fin (x : Float) : Bool := x.isFinite

/-- c18.gen group vec22 → all generated outputs of the group -/
def gen : P String := do
  let grp ← nat; let p ← vec22
  pure (flist (if grp = 0 then apL sf_all p else apL sfs_all p))

/-- c18.strength tmodel n M pall allOn pph phOn rs Ls
    → k, then per entry: weak(k) strong(k) orowan strength weakDominant tausumweak tausumstrong -/
def strength : P String := do
  let tm ← nat; let n ← flt; let M ← flt
  let pall ← vec22; let allOn ← bools5; let pph ← vec22; let phOn ← bools5
  let rs ← flts; let ls ← flts
  let cs := contribs tm pall pph allOn phOn
  let psi := g pall 5
  let k := (cs.filter (fun c => c.active)).length
  let out := (rs.zip ls).map (fun (r, L) =>
    let c := getContributions fin cs (oroF pall) (r0Weak psi) r L
    let cb := combine fin Float.pow n M c.weak c.strong c.oro
    s!"{flist c.weak} {flist c.strong} {fout c.oro} {fout cb.strength} {bstr cb.weakDominant} {fout cb.tw} {fout cb.ts}")
  pure (" ".intercalate (toString k :: out))

/-- c18.prec tmodel n nSame nMixed M pall allOn P [pph phOn rs ls]ᴾ → precStrength per row -/
def prec : P String := do
  let tm ← nat; let n ← flt; let nS ← flt; let nM ← flt; let M ← flt
  let pall ← vec22; let allOn ← bools5
  let np ← nat
  let phases ← rep (do let pph ← vec22; let on ← bools5; let rs ← flts; let ls ← flts; pure (pph, on, rs, ls)) np
  let psi := g pall 5
  let rows := match phases with | [] => 0 | (_, _, rs, _) :: _ => rs.length
  let out := (List.range rows).map (fun i =>
    let cbs := phases.map (fun (pph, on, rs, ls) =>
      phaseStrength fin Float.pow n M (contribs tm pall pph allOn on) (oroF pall) (r0Weak psi) (rs.getD i 0.0) (ls.getD i 0.0))
    precRow fin Float.pow nS nM cbs)
  pure (flist out)

/-- c18.total n sigma0 ss prec → totalStrength per row -/
def total : P String := do
  let n ← flt; let s0 ← flt; let ss ← flts; let pr ← flts
  pure (flist ((ss.zip pr).map (fun (s, p) => totalStrength Float.pow n s0 s p)))

def histOut (h : Option (Hist Float)) : String :=
  match h with
  | none => s!"0 {flist []} {flist []} {flist []}"
  | some h => s!"{h.rss.length} {flist h.rss.flatten} {flist h.ls.flatten} {flist h.ss}"

/-- c18.hist P ss0 nsolve [nsteps [ss rssRow lsRow]*]* → rows, rss (row-major), ls, ss -/
def hist : P String := do
  let np ← nat; let ss0 ← flt
  let solves ← lst (lst (do let ss ← flt; let r ← flts; let l ← flts; pure ({ rssRow := r, lsRow := l, ss := ss } : Step Float)))
  pure (histOut (runSolves np ss0 none solves))

/-- c18.histpsd P ss0 nsolve [nsteps [ss [psd size]ᴾ]*]* — rows computed by rssTerm / lsTerm -/
def histpsd : P String := do
  let np ← nat; let ss0 ← flt
  let solves ← lst (lst (do
    let ss ← flt
    let pbs ← rep (do let psd ← flts; let size ← flts; pure (psd, size)) np
    pure ({ rssRow := pbs.map (fun (p, s) => rssTerm p s), lsRow := pbs.map (fun (p, s) => lsTerm p s), ss := ss } : Step Float)))
  pure (histOut (runSolves np ss0 none solves))

/-- c18.rssls psd size → rss Ls -/
def rssls : P String := do
  let psd ← flts; let size ← flts
  pure s!"{fout (rssTerm psd size)} {fout (lsTerm psd size)}"

/-- c18.clock clock0 hostTimes → grain-growth clock after every host step -/
def clock : P String := do
  let c ← flt; let ts ← flts
  pure (flist (clockRun c ts))

def fn (a : Array Float) : Nat → Float := fun i => a.getD i 0.0

/-- c18.cg alpha M gbe z g → constrainedGrowth -/
def cg : P String := do
  let al ← flt; let M ← flt; let gbe ← flt; let z ← flt; let gs ← flts
  pure (flist (gs.map (constrained al M gbe z)))

/-- c18.norm psd size → normalised psd, third moment after, Rm before, Rm after -/
def norm : P String := do
  let psd ← flts; let size ← flts
  let n := psd.length
  let p := fn psd.toArray; let s := fn size.toArray
  let q := normalize n p s
  pure s!"{flist ((List.range n).map q)} {fout (moment 3 n q s)} {fout (rm n p s)} {fout (rm n q s)}"

/-- c18.gg alpha M gbe z psd size bounds → grainGrowth(n+1) rate(n+1) dXdt(n) netFlux(n+1) -/
def gg : P String := do
  let al ← flt; let M ← flt; let gbe ← flt; let z ← flt
  let psd ← flts; let size ← flts; let b ← flts
  let n := psd.length
  let p := fn psd.toArray; let s := fn size.toArray; let bd := fn b.toArray
  let gr := (List.range (n+1)).map (grainGrowth al M gbe n p s bd)
  let rt := ((List.range (n+1)).map (rate al M gbe z n p s bd)).toArray
  let dR : Nat → Float := fun i => bd (i+1) - bd i
  let nf := (List.range (n+1)).map (PBM.netFlux n (fn rt) p dR)
  let d := (List.range n).map (Grain.dXdt n (fn rt) p bd)
  pure s!"{flist gr} {flist rt.toList} {flist d} {flist nf}"

/-- one coupling-list operation: `A id cls` (addCouplingModel), `C` (clearCouplingModels), `S` (host step) -/
def cop : P Coupling.Op := do
  let t ← tok
  match t with
  | "A" => do let i ← nat; let c ← nat; pure (Coupling.Op.attach ⟨i, c⟩)
  | "C" => pure Coupling.Op.clear
  | "S" => pure Coupling.Op.step
  | _ => failure

/-- c18.couple variant ops → attached ids (list order), host steps, log of update calls (host index, id)*;
variant 0 = addCouplingModel as it is (append), 1 = de-duplication by class -/
def couple : P String := do
  let v ← nat; let ops ← lst cop
  let s := Coupling.run (if v = 0 then Coupling.attach else Coupling.attachDedup) Coupling.init ops
  let ids := s.models.map (fun m => toString m.id)
  let lg := s.log.map (fun e => s!"{e.1} {e.2.id}")
  pure (" ".intercalate (toString ids.length :: ids ++ [toString s.n, toString lg.length] ++ lg))

/-- one host operation: `A id cls`, `C`, `R` (host.reset()), `S` (host step) -/
def hop : P Coupling.HOp := do
  let t ← tok
  match t with
  | "A" => do let i ← nat; let c ← nat; pure (Coupling.HOp.attach ⟨i, c⟩)
  | "C" => pure Coupling.HOp.clear
  | "R" => pure Coupling.HOp.reset
  | "S" => pure Coupling.HOp.step
  | _ => failure

/-- c18.hcouple variant ops → attached ids (list order), host index, host steps ever, log of update calls
(host step ever, host index, id)*; variant 0 = reset as it is (keeps the coupling list), 1 = reset detaches -/
def hcouple : P String := do
  let v ← nat; let ops ← lst hop
  let s := Coupling.hrun (if v = 0 then Coupling.resetKeep else Coupling.resetDetach) Coupling.hinit ops
  let ids := s.models.map (fun m => toString m.id)
  let lg := s.log.map (fun e => s!"{e.1} {e.2.1} {e.2.2.id}")
  pure (" ".intercalate (toString ids.length :: ids ++ [toString s.n, toString s.g, toString lg.length] ++ lg))

def gstate (psd size bounds : List Float) : GState Float :=
  ⟨psd.length, fn psd.toArray, fn bounds.toArray, fn size.toArray⟩

/-- one grain-growth operation: `L raw` (either loader; raw on the initial grid), `R` (reset()),
`E psd size bounds t` (state and clock after a solve call / coupled host step) -/
def gop : P (Coupling.GOp Float) := do
  let t ← tok
  match t with
  | "L" => do let raw ← flts; pure (Coupling.GOp.load (fn raw.toArray))
  | "R" => pure Coupling.GOp.reset
  | "E" => do
      let psd ← flts; let size ← flts; let b ← flts; let t ← flt
      pure (Coupling.GOp.evolve (gstate psd size b) t)
  | _ => failure

/-- c18.ggload variant size bounds ops → after every operation: psd, bounds, last clock entry, grain volume;
variant 0 = backup after Normalize (the code), 1 = backup before Normalize -/
def ggload : P String := do
  let v ← nat; let size ← flts; let b ← flts; let ops ← lst gop
  let grid := gstate (size.map (fun _ => 0.0)) size b
  let tr := Coupling.traceG (v = 1) grid (Coupling.ggInit grid) ops
  let out := tr.map (fun s =>
    let n := s.cur.n
    s!"{flist ((List.range n).map s.cur.psd)} {flist ((List.range (n+1)).map s.cur.bounds)} {fout (s.clock.getLastD 0.0)} {fout (Coupling.ggVolume s)}")
  pure (" ".intercalate (toString out.length :: out))

/-- c18.precrow variant nSame nMixed nrows P [strength weakDominant]ᴾ per row → per row: value, strongest phase, same-regime flag;
the per-phase (strength, flag) pairs are the ones the implementation reports (combineStrengthContributions);
variant 0 = the code (one exponent per branch), 1 = mixed branch: power sum with nMixed, root with 1/nSame -/
def precrow : P String := do
  let v ← nat; let nS ← flt; let nM ← flt; let nrows ← nat; let np ← nat
  let rows ← rep (rep (do let s ← flt; let b ← bool; pure ({ strength := s, weakDominant := b, tw := 0.0, ts := 0.0, oro := 0.0 } : Combined Float)) np) nrows
  let out := rows.map (fun ph =>
    let x := precRowWith fin Float.pow nS nS nM (if v = 0 then nM else nS) ph
    s!"{fout x} {fout (maxOf (ph.map (fun c => clean fin c.strength)))} {bstr (sameRegime fin ph)}")
  pure (" ".intercalate (toString out.length :: out))

/-- c18.stopstep variant fuels flags → host rows, update indices, host index after every solve call;
`flags` = what the stopping conditions said on host row 1, 2, … (false beyond the list);
variant 0 = postProcess as it is (record, update coupled models, test), 1 = test first and return early -/
def stopstep : P String := do
  let v ← nat; let fuels ← lst nat; let flags ← lst bool
  let stopAt : Nat → Bool := fun n => (flags.toArray.getD (n - 1) false) && decide (0 < n)
  let s := Coupling.solveCalls (v = 1) stopAt Coupling.pinit fuels
  let tr := Coupling.solveTrace (v = 1) stopAt Coupling.pinit fuels
  pure (" ".intercalate ([toString s.n, toString s.upd.length] ++ s.upd.map toString ++ [toString tr.length] ++ tr.map toString))

/-- c18.zener variant P [Ravg volFrac m K]ᴾ gmax alpha M gbe → drag z of the host row (phases in host order), the specification
(sum over the phases with precipitates), frozen flag of the boundary with the largest unconstrained rate `gmax`;
variant 0 = computeZenerRadius as it is (a phase without precipitates is skipped), 1 = early exit, 2 = break -/
def zener : P String := do
  let v ← nat; let np ← nat
  let phs ← rep (do let r ← flt; let f ← flt; let m ← flt; let k ← flt; pure ({ ravg := r, volFrac := f, m := m, K := k } : ZPhase Float)) np
  let gmax ← flt; let al ← flt; let M ← flt; let gbe ← flt
  let z := if v = 0 then zenerDrag Float.pow phs else if v = 1 then zenerDragEarlyExit Float.pow phs 0.0 else zenerDragBreak Float.pow phs 0.0
  let frozen := constrained al M gbe z gmax == 0.0 && constrained al M gbe z (-gmax) == 0.0
  pure s!"{fout z} {fout (zenerSpec Float.pow phs)} {bstr frozen}"

def handle (verb : String) : Option (P String) :=
  match verb with
  | "c18.zener" => some zener
  | "c18.precrow" => some precrow
  | "c18.stopstep" => some stopstep
  | "c18.hcouple" => some hcouple
  | "c18.ggload" => some ggload
  | "c18.gen" => some gen
  | "c18.strength" => some strength
  | "c18.prec" => some prec
  | "c18.total" => some total
  | "c18.hist" => some hist
  | "c18.histpsd" => some histpsd
  | "c18.rssls" => some rssls
  | "c18.clock" => some clock
  | "c18.cg" => some cg
  | "c18.norm" => some norm
  | "c18.gg" => some gg
  | "c18.couple" => some couple
  | _ => none

end KawinV.Drv.C18
