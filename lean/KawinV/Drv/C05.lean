import KawinV.Proto
import KawinV.Model.Solver
import KawinV.Model.Flatten
/-! driver verbs for C05: the solve loop on `Float` with a scripted user model, and
flatten/unflatten of nested states (single model and Coupler).

State encoding (both directions): `<n> item*`, item = `S <double>` | `A <rank> d1 … dr <len> <double>*`. -/
namespace KawinV.Drv.C05
open KawinV.Proto KawinV.Solver KawinV.Flatten

/-- a Python float as the model's proposal type -/
def toDt (x : Float) : Dt Float :=
  if x.isNaN then .nan
  else if x.isInf then (if x > 0.0 then .posInf else .negInf)
  else .fin x

/-- sol.run t0 tf minFrac maxFrac proposals(list, used cyclically by step index) stops(list of T/F by
step index, F beyond) fuel → nsteps stop cur dtmax times(oldest first) dts(oldest first) -/
def solRun : P String := do
  let t0 ← flt; let tf ← flt; let mn ← flt; let mx ← flt
  let props ← flts; let stops ← lst bool; let fuel ← nat
  let pa := props.toArray; let sa := stops.toArray
  let propose : List Float → Dt Float := fun h =>
    if pa.size == 0 then .fin 0.0 else toDt (pa.getD (h.length % pa.size) 0.0)
  let stopAt : List Float → Bool := fun h => sa.getD (h.length - 1) false
  let s := solve t0 tf mn mx propose stopAt fuel
  pure s!"{s.steps.length} {bstr s.stop} {fout s.cur} {fout s.dtmax} {flist s.times.reverse} {flist s.dts.reverse}"

/-- sol.runx t0 tf minFrac maxFrac proposals stops fuel E|R x0 → as `sol.run`, then the state of an f ≡ 1
model (explicit Euler / Runge-Kutta iterator of the model, scalar state starting at x0) handed to postProcess after
every accepted step (oldest first): the loop WITH the state carried along (`runXs`) -/
def solRunX : P String := do
  let t0 ← flt; let tf ← flt; let mn ← flt; let mx ← flt
  let props ← flts; let stops ← lst bool; let fuel ← nat
  let k ← tok; let x0 ← flt
  let pa := props.toArray; let sa := stops.toArray
  let propose : List Float → Dt Float := fun h =>
    if pa.size == 0 then .fin 0.0 else toDt (pa.getD (h.length % pa.size) 0.0)
  let stopAt : List Float → Bool := fun h => sa.getD (h.length - 1) false
  let one : Float → Float → Float := fun _ _ => 1.0
  let iter ← (if k == "E" then pure (fun dt t x => (eulerIter scalarOps one dt t x).xnew)
              else if k == "R" then pure (fun dt t x => (rk4Iter scalarOps one dt t x).xnew) else failure)
  let r := runXs tf (mn * (tf - t0)) propose stopAt iter fuel ((initSt t0 tf mx, x0), [])
  let s := r.1.1
  pure s!"{s.steps.length} {bstr s.stop} {fout s.cur} {fout s.dtmax} {flist s.times.reverse} {flist s.dts.reverse} {flist r.2.reverse}"

def item : P (Item Float) := do
  let k ← tok
  if k == "S" then
    let x ← flt; pure (.scalar x)
  else if k == "A" then
    let sh ← lst nat; let d ← flts; pure (.arr sh d)
  else failure

def state : P (List (Item Float)) := lst item

def encItem : Item Float → String
  | .scalar x => s!"S {fout x}"
  | .arr sh d => s!"A {" ".intercalate (toString sh.length :: sh.map toString)} {flist d}"

def encState (X : List (Item Float)) : String :=
  " ".intercalate (toString X.length :: X.map encItem)

def encOpt : Option (List (Item Float)) → String
  | none => "E"
  | some X => encState X

/-- flat.rt state → flat(list) then unflatten(flatten X, X) -/
def rt : P String := do
  let X ← state
  let f := flatten X
  pure s!"{flist f} {encOpt (unflatten f X)}"

/-- flat.un flat(list) ref-state → unflatten flat ref -/
def un : P String := do
  let f ← flts; let X ← state
  pure (encOpt (unflatten f X))

def encStates : Option (List (List (Item Float))) → String
  | none => "E"
  | some Xs => " ".intercalate (toString Xs.length :: Xs.map encState)

/-- flat.c states(list) → sizeRef, flat, unflattenC (round trip) -/
def coup : P String := do
  let Xs ← lst state
  let (f, ss) := flattenC Xs
  pure s!"{" ".intercalate (toString ss.length :: ss.map toString)} {flist f} {encStates (unflattenC f ss Xs)}"

/-- flat.cu flat(list) sizes(list) refs(list of states) → unflattenC flat sizes refs -/
def coupUn : P String := do
  let f ← flts; let ss ← lst nat; let Xs ← lst state
  pure (encStates (unflattenC f ss Xs))

def encSizes : Option (List Nat) → String
  | none => "N"
  | some ss => " ".intercalate (toString ss.length :: ss.map toString)

/-- flat.hist K (states(list))^K → per history entry, on ONE Coupler object that never flattened before:
sizeRef after flattenX, the flat vector, the delivered states (unflattenX by the same states) -/
def hist : P String := do
  let h ← lst (lst state)
  let rec go (c : Coupler) : List (List (List (Item Float))) → List String
    | [] => []
    | Xs :: rest =>
      let r := c.flattenX Xs
      s!"{encSizes r.2.sizeRef} {flist r.1} {encStates (r.2.unflattenX r.1 Xs)}" :: go r.2 rest
  pure (" ".intercalate (toString h.length :: go Coupler.new h))

/-! nested couplers.  Tree encoding (both directions): `L state` | `N <id> <k> tree^k`. -/

partial def tree : P (CTree Float) := do
  let k ← tok
  if k == "L" then
    let X ← state; pure (.leaf X)
  else if k == "N" then
    let id ← nat; let cs ← lst tree; pure (.node id cs)
  else failure

partial def encTree : CTree Float → String
  | .leaf X => s!"L {encState X}"
  | .node id cs => " ".intercalate (s!"N {id} {cs.length}" :: cs.map encTree)

def op : P (Op Float) := do
  let k ← tok
  if k == "F" then
    let i ← nat; pure (.flat i)
  else if k == "U" then
    let i ← nat; pure (.unflat i)
  else if k == "V" then
    let i ← nat; let v ← flts; pure (.unflatWith i v)
  else failure

def encOut : Out Float → String
  | .flat v sizes => s!"F {flist v} {" ".intercalate (toString sizes.length :: sizes.map encSizes)}"
  | .unflat none => "U E"
  | .unflat (some T) => s!"U {encTree T}"
  | .bad => "B"

/-- flat.nest forest(list of trees) ops(list) → the answers of the operations, run in that order on ONE world in
which no Coupler has flattened yet: `F i` = flattenX of tree i (answer: flat vector, then `_sizeRef` of every Coupler
of tree i in pre-order), `U i` = unflattenX of the vector kept for tree i, `V i v` = unflattenX of the vector v -/
def nest : P String := do
  let forest ← lst tree
  let ops ← lst op
  let outs := runOps forest World.new ops
  pure (" ".intercalate (toString outs.length :: outs.map encOut))

def handle (verb : String) : Option (P String) :=
  match verb with
  | "sol.run" => some solRun
  | "sol.runx" => some solRunX
  | "flat.hist" => some hist
  | "flat.nest" => some nest
  | "flat.rt" => some rt
  | "flat.un" => some un
  | "flat.c" => some coup
  | "flat.cu" => some coupUn
  | _ => none

end KawinV.Drv.C05
