import KawinV.Proto
import KawinV.Model.Solver
import KawinV.Model.Flatten
/-! driver verbs for C05: the solve loop on `Float` with a scripted user model, and
flatten/unflatten of nested states (single model and Coupler).

State encoding (both directions): `<n> item*`, item = `S <double>` | `A <rank> d1 … dr <len> <double>*`. -/
namespace KawinV.Drv.C05
open KawinV.Proto KawinV.Solver KawinV.Flatten

/-- a Python float as the model's proposal type -/
def toDt (x : Float) : Dt Float :=
  if x.isNaN then .nan
  else if x.isInf then (if x > 0.0 then .posInf else .negInf)
  else .fin x

/-- sol.run t0 tf minFrac maxFrac proposals(list, used cyclically by step index) stops(list of T/F by
step index, F beyond) fuel → nsteps stop cur dtmax times(oldest first) dts(oldest first) -/
def solRun : P String := do
  let t0 ← flt; let tf ← flt; let mn ← flt; let mx ← flt
  let props ← flts; let stops ← lst bool; let fuel ← nat
  let pa := props.toArray; let sa := stops.toArray
  let propose : List Float → Dt Float := fun h =>
    if pa.size == 0 then .fin 0.0 else toDt (pa.getD (h.length % pa.size) 0.0)
  let stopAt : List Float → Bool := fun h => sa.getD (h.length - 1) false
  let s := solve t0 tf mn mx propose stopAt fuel
  pure s!"{s.steps.length} {bstr s.stop} {fout s.cur} {fout s.dtmax} {flist s.times.reverse} {flist s.dts.reverse}"

def item : P (Item Float) := do
  let k ← tok
  if k == "S" then
    let x ← flt; pure (.scalar x)
  else if k == "A" then
    let sh ← lst nat; let d ← flts; pure (.arr sh d)
  else failure

def state : P (List (Item Float)) := lst item

def encItem : Item Float → String
  | .scalar x => s!"S {fout x}"
  | .arr sh d => s!"A {" ".intercalate (toString sh.length :: sh.map toString)} {flist d}"

def encState (X : List (Item Float)) : String :=
  " ".intercalate (toString X.length :: X.map encItem)

def encOpt : Option (List (Item Float)) → String
  | none => "E"
  | some X => encState X

/-- flat.rt state → flat(list) then unflatten(flatten X, X) -/
def rt : P String := do
  let X ← state
  let f := flatten X
  pure s!"{flist f} {encOpt (unflatten f X)}"

/-- flat.un flat(list) ref-state → unflatten flat ref -/
def un : P String := do
  let f ← flts; let X ← state
  pure (encOpt (unflatten f X))

def encStates : Option (List (List (Item Float))) → String
  | none => "E"
  | some Xs => " ".intercalate (toString Xs.length :: Xs.map encState)

/-- flat.c states(list) → sizeRef, flat, unflattenC (round trip) -/
def coup : P String := do
  let Xs ← lst state
  let (f, ss) := flattenC Xs
  pure s!"{" ".intercalate (toString ss.length :: ss.map toString)} {flist f} {encStates (unflattenC f ss Xs)}"

/-- flat.cu flat(list) sizes(list) refs(list of states) → unflattenC flat sizes refs -/
def coupUn : P String := do
  let f ← flts; let ss ← lst nat; let Xs ← lst state
  pure (encStates (unflattenC f ss Xs))

def handle (verb : String) : Option (P String) :=
  match verb with
  | "sol.run" => some solRun
  | "flat.rt" => some rt
  | "flat.un" => some un
  | "flat.c" => some coup
  | "flat.cu" => some coupUn
  | _ => none

end KawinV.Drv.C05
