import KawinV.Proto
import KawinV.Model.HashCache
import KawinV.Model.Broadcast
import KawinV.Model.CompSetCache
/-! driver verbs for C09: HashTable op sequences, broadcasting helpers, the gExtra argument model and
trace replay of the thermodynamics cache state machine (solver outcomes supplied by the real run) -/
namespace KawinV.Drv.C09
open KawinV.Proto

/-! ### HashTable -/
section hash
open KawinV.HashCache

def op : P (Op Float Nat) := do
  let t ← tok
  match t with
  | "E" => do let b ← bool; pure (.enable b)
  | "C" => pure .clear
  | "S" => do let s ← nat; pure (.setSens s)
  | "A" => do let x ← flts; let T ← flt; let v ← nat; pure (.add x T v)
  | "R" => do let x ← flts; let T ← flt; pure (.retrieve x T)
  | _ => failure

def ilist (xs : List Int) : String := " ".intercalate (toString xs.length :: xs.map toString)

/-- hash.run offFix sensFix width nops ops… →
    one token per op (`-`, `M`, `H<v>`) | key of every add/retrieve (as formed at that moment) | #distinct keys, flag -/
def hashRun : P String := do
  let offFix ← bool; let sensFix ← bool; let w ← nat
  let ops ← lst op
  let cfg : Cfg := ⟨offFix, sensFix⟩
  let key := fun (s : Nat) (x : List Float) (T : Float) => keyCast w s x T
  let rec go (t : Table (List Int) Nat) (ops : List (Op Float Nat)) (outs keys : List String) : Table (List Int) Nat × List String × List String :=
    match ops with
    | [] => (t, outs.reverse, keys.reverse)
    | o :: r =>
      let out := match o with
        | .retrieve x T => (match retrieve cfg key t x T with | some v => s!"H{v}" | none => "M")
        | _ => "-"
      let keys := match o with
        | .retrieve x T => ilist (key t.sens x T) :: keys
        | .add x T _ => ilist (key t.sens x T) :: keys
        | _ => keys
      go (step cfg key t o) r (out :: outs) keys
  let (t, outs, keys) := go init ops [] []
  let distinct := (t.data.map (·.1)).eraseDups.length
  pure (" ".intercalate outs ++ " | " ++ " ".intercalate keys ++ " | " ++ toString distinct ++ " " ++ bstr t.flag)

/-- nodes.run cacheOn sens n (x T)… → one token per node of a diffusion model's node loop
    (`SinglePhaseModel._getFluxes` / `computeMobility`: retrieve, else evaluate the thermodynamics and add), starting
    from an empty table: `M` = the thermodynamics is evaluated at this node, `H<j>` = the value computed at node j is reused -/
def nodesRun : P String := do
  let on ← bool; let sens ← nat
  let nodes ← lst (do let x ← flts; let T ← flt; pure (x, T))
  let cfg : Cfg := Cfg.fixed
  let key := fun (s : Nat) (x : List Float) (T : Float) => keyCast 64 s x T
  let t0 : Table (List Int) Nat := step cfg key (step cfg key init (.setSens sens)) (.enable on)
  let rec go (t : Table (List Int) Nat) (i : Nat) (ns : List (List Float × Float)) (outs : List String) : List String :=
    match ns with
    | [] => outs.reverse
    | (x, T) :: r =>
      let q := cachedQuery cfg key (fun _ _ => i) t x T
      go q.2 (i + 1) r ((if q.1 = i then "M" else s!"H{q.1}") :: outs)
  pure (" ".intercalate (go t0 0 nodes []))

end hash

/-! ### broadcasting -/
section bc
open KawinV.Broadcast

def arg : P (Arg Float) := do
  let t ← tok
  match t with
  | "s" => do let v ← flt; pure (.scalar v)
  | "v" => do let l ← flts; pure (.vec l)
  | "m" => do
    let nr ← nat; let nc ← nat
    let rows ← rep (rep flt nc) nr
    pure (.mat rows)
  | _ => failure

def errStr : BErr → String
  | .lengthMismatch => "E length"
  | .indexOutOfRange => "E index"
  | .badRank => "E rank"

def argStr : Arg Float → String
  | .scalar v => "s " ++ fout v
  | .vec l => "v " ++ flist l
  | .mat rows => "m " ++ toString rows.length ++ " " ++ " ".intercalate (rows.map flist)

/-- bc.xt isBinary x T → `O nrows row… T` (each row / T as a list) or `E kind` -/
def bcXT : P String := do
  let b ← bool; let x ← arg; let T ← arg
  match processXT x T b with
  | .error e => pure (errStr e)
  | .ok (xs, Ts) => pure ("O " ++ toString xs.length ++ " " ++ " ".intercalate (xs.map flist) ++ " " ++ flist Ts)

def bcTG : P String := do
  let T ← arg; let g ← arg
  match processTG T g with
  | .error e => pure (errStr e)
  | .ok (Ts, gs) => pure ("O " ++ flist Ts ++ " " ++ flist gs)

def bcX : P String := do
  let n ← nat; let x ← arg
  match processX x n with
  | .error e => pure (errStr e)
  | .ok l => pure ("O " ++ flist l)

def bcMIC : P String := do
  let T ← arg; let g ← arg
  match multiICPairs T g with
  | .error e => pure (errStr e)
  | .ok ps => pure ("O " ++ flist (ps.map (·.1)) ++ " " ++ flist (ps.map (·.2)))

/-- bc.bic inPlace off T g → `O ncalls (T GElist)… | caller's g afterwards` -/
def bcBIC : P String := do
  let ip ← bool; let off ← flt; let T ← arg; let g ← arg
  match binaryIC ip off T g with
  | .error e => pure (errStr e)
  | .ok (calls, after) =>
    pure ("O " ++ toString calls.length ++ " " ++ " ".intercalate (calls.map (fun c => fout c.1 ++ " " ++ flist c.2))
      ++ " | " ++ argStr after)

end bc

/-! ### thermodynamics cache machine: replay of a real query sequence -/
section cs
open KawinV.CompSetCache

/-- conditions of the toy instance: which dictionary (kind 0 `getLocalEq` single phase, 1 tangent MU
conditions, 2 two-phase equilibrium, 3 interfacial composition), for which phase, of which query /
search step, GE = offset?, temperature (bit pattern) -/
structure Cnd where
  kind : Nat
  ph : Nat
  qid : Nat
  step : Nat
  ge : Bool
  T : Nat
deriving BEq

/-- outcome of one real solver call, as observed -/
structure Outc where
  valid : Bool
  hasM : Bool
  hasP : Bool
  gap : Bool
  degen : Bool

structure Out where
  qid : Nat
  valid : Bool

abbrev Tab := List ((Nat × Nat × Nat) × Outc)

def lookupOutc (tab : Tab) (k : Nat × Nat × Nat) : Outc :=
  match tab.find? (fun e => e.1 == k) with
  | some e => e.2
  | none => ⟨true, true, true, false, false⟩

def toy (tab : Tab) : Env Nat Cnd Nat Nat Out Nat (Nat × Nat) (Nat × Nat) Nat Nat Nat Nat where
  solve c _ :=
    let o := lookupOutc tab (c.kind, c.qid, c.step)
    let sets : List (CS Nat Nat) :=
      if c.kind = 0 then [⟨0, c.T⟩]
      else if c.kind = 1 then [⟨if o.degen then 11 else 1, c.T⟩]
      else (if o.hasM then [⟨0, c.T⟩] else []) ++ (if o.hasP then [⟨1, c.T⟩] else []) ++ (if o.gap then [⟨2, c.T⟩] else [])
    ⟨⟨c.qid, o.valid⟩, sets⟩
  svOf c := c.T
  matrix := 0
  condLocal x T ph := ⟨0, ph, x.1, x.2, false, T⟩
  condMu T mu p := ⟨1, p, mu.qid, 0, false, T⟩
  condEq x T p b := ⟨2, p, x.1, x.2, b, T⟩
  condIC x T _ p := ⟨3, p, x.1, x.2, true, T⟩
  valid o := o.valid
  sample T d _ := (T, d)
  pick _ _ T := (0, ⟨1, T⟩)
  degenerate r2 _ := r2.any (fun cs => cs.body ≥ 10)
  split sets _ := (sets.find? (fun cs => cs.body = 0), sets.find? (fun cs => cs.body = 1), sets.any (fun cs => cs.body = 2))
  mid a _ := (a.1, a.2 + 1)
  dfOfSample _ _ := 0
  dfOfTangent _ := 0
  dfOfApprox _ _ _ := 0
  dfOfCurv _ _ _ _ := 0
  curvOf mu _ _ _ := mu.qid

def outc : P ((Nat × Nat × Nat) × Outc) := do
  let k ← nat; let q ← nat; let st ← nat
  let v ← bool; let m ← bool; let p ← bool; let g ← bool; let d ← bool
  pure ((k, q, st), ⟨v, m, p, g, d⟩)

def query : P (Query Nat Nat (Nat × Nat)) := do
  let t ← tok
  match t with
  | "D" => do
    let tr ← nat; let q ← nat; let T ← nat; let ph ← nat; let rm ← bool
    pure (if tr = 0 then .interdiff (q, 0) T ph rm else .tracer (q, 0) T ph rm)
  | "F" => do
    let m ← nat; let q ← nat; let T ← nat; let p ← nat; let rm ← bool
    let m : DFMethod := match m with | 0 => .tangent | 1 => .sampling | 2 => .approximate | _ => .curvature
    pure (.df m (q, 0) T p rm)
  | "K" => do
    let q ← nat; let T ← nat; let p ← nat; let rm ← bool; let hd ← bool
    pure (.curv (q, 0) T p rm (if hd then some (q, 0) else none))
  | "I" => do let q ← nat; let T ← nat; let ge ← nat; let p ← nat; pure (.ic (q, 0) T ge p)
  | "N" => do let d ← nat; pure (.setDens d)
  | "X" => pure .clear
  | "W" => pure .setMethod
  | _ => failure

def evTok (e : Cnd × Option (List (CS Nat Nat))) : String :=
  s!"{e.1.kind}{if e.2.isSome then "g" else "n"}{if e.1.ge then 1 else 0}p{e.1.ph}"

/-- cs.run gOffsetFix dens0 nph tab queries → per query
    `events… ; used sampled resultNone ; df[phase…] matrix points[phase…] diff[phase…] curv[phase…]`
    (every cache slot of every phase index 0..nph-1, so that a write under a wrong phase key shows) -/
def csRun : P String := do
  let gfix ← bool; let d0 ← nat; let nph ← nat
  let tab ← lst outc
  let qs ← lst query
  let E := toy tab
  let cfg : Cfg := ⟨gfix⟩
  let phs := List.range nph
  let rec go (s : St Nat Cnd Nat Nat Nat (Nat × Nat) Nat) (qs : List (Query Nat Nat (Nat × Nat))) (acc : List String) : List String :=
    match qs with
    | [] => acc.reverse
    | q :: r =>
      let res := runQuery E cfg (fun _ => 0) (fun _ => 0) s q
      let s' := res.2
      let evs := (s'.calls.drop s.calls.length).map evTok
      let rnone := match res.1 with
        | .df none => 1
        | .curv none => 1
        | _ => 0
      let bits (f : Nat → Bool) : String := String.join (phs.map (fun p => bstr (f p)))
      let pts := ",".intercalate (phs.map (fun p => match s'.points p with | some (tag, _) => toString tag | none => "-"))
      let line := " ".intercalate evs ++ s!" ; {s'.used.length - s.used.length} {s'.sampled.length - s.sampled.length} {rnone} ; " ++
        s!"{bits (fun p => (s'.dfCache p).isSome)} {bstr s'.matrixCs.isSome} {pts} {bits (fun p => (s'.diffCache p).isSome)} {bits (fun p => (s'.curvCache p).isSome)}"
      go s' r (line :: acc)
  pure (" / ".intercalate (go (fresh d0) qs []))

end cs

def handle (verb : String) : Option (P String) :=
  match verb with
  | "hash.run" => some hashRun
  | "nodes.run" => some nodesRun
  | "bc.xt" => some bcXT
  | "bc.tg" => some bcTG
  | "bc.x" => some bcX
  | "bc.mic" => some bcMIC
  | "bc.bic" => some bcBIC
  | "cs.run" => some csRun
  | _ => none

end KawinV.Drv.C09
