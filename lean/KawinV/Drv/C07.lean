import KawinV.Proto
import KawinV.Model.PBMTransport
import KawinV.Model.GrainGrowth
/-! driver verbs for the PBM transport model and the grain-growth post-processing order (Float instance) -/
namespace KawinV.Drv.C07
open KawinV.Proto KawinV.PBM

def fn (a : Array Float) : Nat → Float := fun i => a.getD i 0.0

/-- pbm.dxdt  bounds(n+1) flux(n+1) psd(n) nucRate nucRadius
    → nucIdx, netFlux(n+1), dXdt(n) -/
def dxdt : P String := do
  let b ← flts; let f ← flts; let p ← flts; let nr ← flt; let rad ← flt
  let n := p.length
  let b := b.toArray; let f := f.toArray; let p := p.toArray
  let dR : Nat → Float := fun i => fn b (i+1) - fn b i
  let nf := netFlux n (fn f) (fn p) dR
  let k := nucIndex n (fn b) rad
  let nfl := (List.range (n+1)).map nf
  let d := (List.range n).map (dXdt nf k nr)
  pure s!"{k} {flist nfl} {flist d}"

/-- pbm.correct  bounds flux psd nucRate nucRadius dt → corrected netFlux(n+1), dXdt(n) -/
def correct : P String := do
  let b ← flts; let f ← flts; let p ← flts; let nr ← flt; let rad ← flt; let dt ← flt
  let n := p.length
  let b := b.toArray; let f := f.toArray; let p := p.toArray
  let dR : Nat → Float := fun i => fn b (i+1) - fn b i
  let nf0 := ((List.range (n+1)).map (netFlux n (fn f) (fn p) dR)).toArray
  let nf := correctedFlux n dt (fn p) (fn nf0)
  let k := nucIndex n (fn b) rad
  let nfl := (List.range (n+1)).map nf
  let d := (List.range n).map (dXdt nf k nr)
  pure s!"{k} {flist nfl} {flist d}"

/-- pbm.getdt  bounds growth(n+1) psd(n) dissIdx currDT ratio → dt -/
def getdt : P String := do
  let b ← flts; let g ← flts; let p ← flts; let d ← nat; let c ← flt; let r ← flt
  let n := p.length
  pure (fout (getDT n d c r (fn g.toArray) (fn p.toArray) (fn b.toArray)))

/-- pbm.dissidx psd(n) size(n) maxDiss minIndex → index -/
def dissidx : P String := do
  let p ← flts; let sz ← flts; let md ← flt; let mi ← nat
  let n := p.length
  let pa := p.toArray; let sa := sz.toArray
  let vol : Nat → Float := fun i => fn pa i * (fn sa i * fn sa i * fn sa i)
  pure (toString (dissolutionIndex n md vol mi))

/-- pbm.correctnf  netFlux(n+1) psd(n) nucIdx nucRate dt → corrected netFlux(n+1), dXdt(n)
    (the correction applied to GIVEN face fluxes: in an RK4 stage `correctdXdtEuler` limits the fluxes of the stage
    state with the distribution at the start of the iteration) -/
def correctnf : P String := do
  let nf0 ← flts; let p ← flts; let k ← nat; let nr ← flt; let dt ← flt
  let n := p.length
  let nf := correctedFlux n dt (fn p.toArray) (fn nf0.toArray)
  let nfl := (List.range (n+1)).map nf
  let d := (List.range n).map (dXdt nf k nr)
  pure s!"{flist nfl} {flist d}"

/-- gg.post  x(n0)  psdAdj(n1) boundsAdj(n1+1) sizeAdj(n1)  maxDiss
    → stored index, truncated x (n0), stored (normalized) distribution (n1), index of the stored state
    `KawinV.Grain.postProcess` with `adjust` := the grid adjustment observed on the implementation
    (the grid operation is C08's; this verb ties the ORDER update → adjust → index → normalize). -/
def ggpost : P String := do
  let x ← flts; let pa ← flts; let ba ← flts; let sa ← flts; let md ← flt
  let n0 := x.length; let n1 := pa.length
  let xa := x.toArray; let paa := pa.toArray; let baa := ba.toArray; let saa := sa.toArray
  let s0 : Grain.GState Float := { n := n0, psd := fun _ => 0.0, bounds := fun _ => 0.0, size := fun _ => 0.0 }
  let adj : Grain.GState Float → Grain.GState Float :=
    fun _ => { n := n1, psd := fn paa, bounds := fn baa, size := fn saa }
  let r := Grain.postProcess adj md (fn xa) s0
  let tr := (List.range n0).map (Grain.truncate (fn xa))
  let st := (List.range n1).map r.state.psd
  pure s!"{r.index} {flist tr} {flist st} {Grain.stateIndex md r.state}"

/-- gg.getdt  bounds(n+1) growth(n+1) psd(n) storedIdx remaining ratio → dt  (`KawinV.Grain.getDt`) -/
def gggetdt : P String := do
  let b ← flts; let g ← flts; let p ← flts; let d ← nat; let c ← flt; let r ← flt
  let st : Grain.Post Float :=
    { state := { n := p.length, psd := fn p.toArray, bounds := fn b.toArray, size := fun _ => 0.0 }, index := d }
  pure (fout (Grain.getDt c r (fn g.toArray) st))

/-- pbm.nucidx  bounds(n+1) nucRadius → nucIndex (the code's argmax − 1 with wrap and guard), nucIdx (class scan) -/
def nucidx : P String := do
  let b ← flts; let rad ← flt
  let n := b.length - 1
  let ba := b.toArray
  pure s!"{nucIndex n (fn ba) rad} {nucIdx n (fn ba) rad}"

def handle (verb : String) : Option (P String) :=
  match verb with
  | "pbm.nucidx" => some nucidx
  | "pbm.correctnf" => some correctnf
  | "gg.post" => some ggpost
  | "gg.getdt" => some gggetdt
  | "pbm.dxdt" => some dxdt
  | "pbm.correct" => some correct
  | "pbm.getdt" => some getdt
  | "pbm.dissidx" => some dissidx
  | _ => none

end KawinV.Drv.C07
