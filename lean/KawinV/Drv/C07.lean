import KawinV.Proto
import KawinV.Model.PBMTransport
/-! driver verbs for the PBM transport model (Float instance) -/
namespace KawinV.Drv.C07
open KawinV.Proto KawinV.PBM

def fn (a : Array Float) : Nat → Float := fun i => a.getD i 0.0

/-- pbm.dxdt  bounds(n+1) flux(n+1) psd(n) nucRate nucRadius
    → nucIdx, netFlux(n+1), dXdt(n) -/
def dxdt : P String := do
  let b ← flts; let f ← flts; let p ← flts; let nr ← flt; let rad ← flt
  let n := p.length
  let b := b.toArray; let f := f.toArray; let p := p.toArray
  let dR : Nat → Float := fun i => fn b (i+1) - fn b i
  let nf := netFlux n (fn f) (fn p) dR
  let k := nucIndex n (fn b) rad
  let nfl := (List.range (n+1)).map nf
  let d := (List.range n).map (dXdt nf k nr)
  pure s!"{k} {flist nfl} {flist d}"

/-- pbm.correct  bounds flux psd nucRate nucRadius dt → corrected netFlux(n+1), dXdt(n) -/
def correct : P String := do
  let b ← flts; let f ← flts; let p ← flts; let nr ← flt; let rad ← flt; let dt ← flt
  let n := p.length
  let b := b.toArray; let f := f.toArray; let p := p.toArray
  let dR : Nat → Float := fun i => fn b (i+1) - fn b i
  let nf0 := ((List.range (n+1)).map (netFlux n (fn f) (fn p) dR)).toArray
  let nf := correctedFlux n dt (fn p) (fn nf0)
  let k := nucIndex n (fn b) rad
  let nfl := (List.range (n+1)).map nf
  let d := (List.range n).map (dXdt nf k nr)
  pure s!"{k} {flist nfl} {flist d}"

/-- pbm.getdt  bounds growth(n+1) psd(n) dissIdx currDT ratio → dt -/
def getdt : P String := do
  let b ← flts; let g ← flts; let p ← flts; let d ← nat; let c ← flt; let r ← flt
  let n := p.length
  pure (fout (getDT n d c r (fn g.toArray) (fn p.toArray) (fn b.toArray)))

/-- pbm.dissidx psd(n) size(n) maxDiss minIndex → index -/
def dissidx : P String := do
  let p ← flts; let sz ← flts; let md ← flt; let mi ← nat
  let n := p.length
  let pa := p.toArray; let sa := sz.toArray
  let vol : Nat → Float := fun i => fn pa i * (fn sa i * fn sa i * fn sa i)
  pure (toString (dissolutionIndex n md vol mi))

def handle (verb : String) : Option (P String) :=
  match verb with
  | "pbm.dxdt" => some dxdt
  | "pbm.correct" => some correct
  | "pbm.getdt" => some getdt
  | "pbm.dissidx" => some dissidx
  | _ => none

end KawinV.Drv.C07
