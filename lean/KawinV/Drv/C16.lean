import KawinV.Proto
import KawinV.Gen.C16Elastic
import KawinV.Model.Elastic
/-! driver verbs for C16: generated ElasticFactors formulas and the KawinV.Elastic model (Float instance) -/
namespace KawinV.Drv.C16
open KawinV.Proto KawinV.Gen.C16 KawinV.Elastic

/-! ### arrays <-> index functions -/
@[noinline] def t2Of (a : Array Float) : T2 Float := fun i j => a.getD (3 * i.val + j.val) 0.0
@[noinline] def t4Of (a : Array Float) : T4 Float := fun i j k l => a.getD (27 * i.val + 9 * j.val + 3 * k.val + l.val) 0.0
@[noinline] def m6Of (a : Array Float) : M6 Float := fun i j => a.getD (6 * i.val + j.val) 0.0
@[noinline] def v3Of (a : Array Float) : V3 Float := fun i => a.getD i.val 0.0
@[noinline] def v6Of (a : Array Float) : V6 Float := fun i => a.getD i.val 0.0

def f3 : List (Fin 3) := List.finRange 3
def f6 : List (Fin 6) := List.finRange 6
def l2 (t : T2 Float) : List Float := f3.flatMap fun i => f3.map fun j => t i j
def l4 (t : T4 Float) : List Float :=
  f3.flatMap fun i => f3.flatMap fun j => f3.flatMap fun k => f3.map fun l => t i j k l
def l6 (t : M6 Float) : List Float := f6.flatMap fun i => f6.map fun j => t i j
def lv6 (t : V6 Float) : List Float := f6.map t

/-- evaluate every entry once -/
@[noinline] def tab2 (t : T2 Float) : Array Float := (l2 t).toArray
@[noinline] def tab4 (t : T4 Float) : Array Float := (l4 t).toArray
@[noinline] def tab6 (t : M6 Float) : Array Float := (l6 t).toArray
/-- the evaluation hooks of the model: tabulate once (boxes make this strict) -/
def box2 (t : T2 Float) : Box2 Float := let a := tab2 t; ⟨t2Of a⟩
def box4 (t : T4 Float) : Box4 Float := let a := tab4 t; ⟨t4Of a⟩
def box6 (t : M6 Float) : Box6 Float := let a := tab6 t; ⟨m6Of a⟩
def ev : Eval Float := ⟨box2, box4, box6⟩

/-! ### np.linalg.inv of a 6x6 array: Gauss–Jordan with partial pivoting -/
def gaussJordan (n : Nat) (a : Array (Array Float)) : Array (Array Float) := Id.run do
  let mut m : Array (Array Float) := Array.ofFn (n := n) fun i =>
    (a.getD i.val #[]) ++ Array.ofFn (n := n) fun j => if i.val = j.val then 1.0 else 0.0
  for k in [0:n] do
    let mut piv := k
    for i in [k+1:n] do
      if Float.abs ((m.getD i #[]).getD k 0.0) > Float.abs ((m.getD piv #[]).getD k 0.0) then piv := i
    let rk := m.getD piv #[]
    let rp := m.getD k #[]
    m := (m.setIfInBounds piv rp).setIfInBounds k rk
    let p := rk.getD k 0.0
    let rk := rk.map (· / p)
    m := m.setIfInBounds k rk
    for i in [0:n] do
      if i != k then
        let ri := m.getD i #[]
        let f := ri.getD k 0.0
        m := m.setIfInBounds i (Array.zipWith (fun x y => x - f * y) ri rk)
  return m.map fun r => r.extract n (2 * n)

@[noinline] def inv6Arr (c : M6 Float) : Array Float :=
  let a : Array (Array Float) := Array.ofFn (n := 6) fun i => Array.ofFn (n := 6) fun j => c i j
  (gaussJordan 6 a).flatMap id

def inv6 (c : M6 Float) : Box6 Float := let a := inv6Arr c; ⟨m6Of a⟩

def inv4 : T4 Float → T4 Float := invert4 inv6 mandelVec

/-! ### generated definitions -/
def pairFn : Nat → Option (Float → Float → List Float)
  | 0 => some moduli_E_nu_all | 1 => some moduli_E_G_all | 2 => some moduli_E_lam_all
  | 3 => some moduli_E_K_all | 4 => some moduli_E_M_all | 5 => some moduli_nu_G_all
  | 6 => some moduli_nu_lam_all | 7 => some moduli_nu_K_all | 8 => some moduli_nu_M_all
  | 9 => some moduli_G_lam_all | 10 => some moduli_G_K_all | 11 => some moduli_G_M_all
  | 12 => some moduli_lam_K_all | 13 => some moduli_lam_M_all | 14 => some moduli_K_M_all
  | _ => none

/-- el.gen.moduli pair a b → s11 s12 s44 -/
def genModuli : P String := do
  let k ← nat; let a ← flt; let b ← flt
  match pairFn k with
  | some f => pure (flist (f a b))
  | none => failure

/-- el.gen.khach c11 c12 c44 eps I1 I2 r0 r1 r2 e0 → khachaturyan khach_sphere khach_cube constant_energy -/
def genKhach : P String := do
  let c11 ← flt; let c12 ← flt; let c44 ← flt; let e ← flt; let i1 ← flt; let i2 ← flt
  let r0 ← flt; let r1 ← flt; let r2 ← flt; let e0 ← flt
  pure (flist [khachaturyan c11 c12 c44 e i1 i2 r0 r1 r2, khach_sphere c11 c12 c44 e r0 r1 r2,
               khach_cube c11 c12 c44 e r0 r1 r2, constant_energy e0 r0 r1 r2])

/-- el.gen.inv3 m(9) → generated quickInverse (9) | model cramer3 (9) -/
def genInv3 : P String := do
  let m ← flts
  let a := m.toArray
  let g (k : Nat) := a.getD k 0.0
  pure (flist (quickInverse_all (g 0) (g 1) (g 2) (g 3) (g 4) (g 5) (g 6) (g 7) (g 8)) ++ " " ++
        flist (l2 (cramer3 (t2Of a))))

/-- el.gen.beta a b c phi theta → beta, n0 n1 n2, model betaN at that normal -/
def genBeta : P String := do
  let a ← flt; let b ← flt; let c ← flt; let ph ← flt; let th ← flt
  let n := nvec_all ph th
  pure (flist ([beta a b c ph th] ++ n ++ [betaN (v3Of #[a, b, c]) (v3Of n.toArray)]))

/-- el.beta.axes a b c phi theta k → quadForm r n | radicand of `_beta` from the sines / cosines | betaN of the
jointly relabelled (r, n) (relabelling k of `perm6`) | the x↔y mirrored radicand — with n = the traced `_n(phi, theta)` -/
def betaAxes : P String := do
  let a ← flt; let b ← flt; let c ← flt; let ph ← flt; let th ← flt; let k ← nat
  let r := v3Of #[a, b, c]
  let n := v3Of (nvec_all ph th).toArray
  let sp := Trans.sin ph; let cp := Trans.cos ph; let st := Trans.sin th; let ct := Trans.cos th
  pure (flist [quadForm r n, betaSqSC a b c sp cp st ct, betaN (permV3 (perm6 k) r) (permV3 (perm6 k) n),
               betaSqMirrored a b c sp cp st ct, quadForm r (nSC sp cp st ct)])

/-! ### tensor utilities -/
/-- el.conv6 c6(36) → convert2To4 (81) | convert4To2 of it (36) -/
def conv6 : P String := do
  let c ← flts
  let c4 := (box4 (convert2To4 (m6Of c.toArray))).f
  pure (flist (l4 c4) ++ " " ++ flist (l6 (convert4To2 c4)))

/-- el.conv4 c4(81) → convert4To2 (36) | convert2To4 of it (81) -/
def conv4 : P String := do
  let c ← flts
  let c2 := (box6 (convert4To2 (t4Of c.toArray))).f
  pure (flist (l6 c2) ++ " " ++ flist (l4 (convert2To4 c2)))

/-- el.vec v(6) t(9) → vecTo2 v (9) | rank2ToVec t (6) -/
def vec : P String := do
  let v ← flts; let t ← flts
  pure (flist (l2 (vecTo2 (v6Of v.toArray))) ++ " " ++ flist (lv6 (rank2ToVec (t2Of t.toArray))))

/-- el.rot r(9) t4(81) t2(9) → rotate4 (81) | rotate2 (9) -/
def rot : P String := do
  let r ← flts; let a ← flts; let b ← flts
  let r := t2Of r.toArray
  pure (flist (l4 (rotate4 r (t4Of a.toArray))) ++ " " ++ flist (l2 (rotate2 r (t2Of b.toArray))))

/-- el.ec c11 c12 c44 → elasticConstantToC (36) -/
def ec : P String := do
  let a ← flt; let b ← flt; let c ← flt
  pure (flist (l6 (elasticConstantToC a b c)))

/-- el.moduliC E nu G lam K M (each a double or `none`) → T c6(36) | F -/
def moduliC : P String := do
  let E ← optFlt; let nu ← optFlt; let G ← optFlt; let lam ← optFlt; let K ← optFlt; let M ← optFlt
  match moduliToC E nu G lam K M with
  | some c => pure ("T " ++ flist (l6 c))
  | none => pure "F"

/-- el.inv4 c4(81) → invert4 (repaired, 81) | invert4Old (81) -/
def inv4v : P String := do
  let c ← flts
  let c4 := t4Of c.toArray
  pure (flist (l4 (inv4 c4)) ++ " " ++ flist (l4 (invert4Old inv6 c4)))

/-! ### Eshelby energy on given nodes -/
/-- el.energy phi(n) theta(n) w(n) dA r(3) cM4(81) cP4(81) eig(9)
    → S (81) | energyEllipsoid energyBohm V -/
def energy : P String := do
  let ph ← flts; let th ← flts; let w ← flts; let dA ← flt
  let r ← flts; let cM ← flts; let cP ← flts; let e ← flts
  let nodes : List (QNode Float) := (ph.zip (th.zip w)).map fun (p, t, w) =>
    { n := v3Of (nvec_all p t).toArray, w := w }
  let r := v3Of r.toArray
  let cM := t4Of cM.toArray; let cP := t4Of cP.toArray; let eig := t2Of e.toArray
  let D := (box4 (Dijkl (ohmOf cM) betaN nodes dA r)).f
  let S := (box4 (Sijmn cM D)).f
  let V := volume r
  pure (flist (l4 S) ++ " " ++
        flist [energyEllipsoid cM S eig V, energyBohm ev inv4 cM cP S eig V, V])

/-! ### setter sequences -/
def descOf : Nat → Option Desc
  | 0 => some .constant | 1 => some .sphere | 2 => some .cube | 3 => some .ellipsoid | _ => none
def descNat : Desc → Nat
  | .constant => 0 | .sphere => 1 | .cube => 2 | .ellipsoid => 3

def pdesc : P Desc := do
  let k ← nat
  match descOf k with
  | some d => pure d
  | none => failure

def pm6 : P (M6 Float) := do let c ← flts; pure (m6Of c.toArray)
def pt4 : P (T4 Float) := do let c ← flts; pure (t4Of c.toArray)
def pt2 : P (T2 Float) := do let c ← flts; pure (t2Of c.toArray)
def pv3 : P (V3 Float) := do let c ← flts; pure (v3Of c.toArray)

def pop : P (Op Float) := do
  let code ← nat
  match code with
  | 0 => do let d ← pdesc; pure (.setShape d)
  | 1 => do let e ← flt; pure (.setConstantEnergy e)
  | 2 => do let c ← pm6; pure (.setElasticTensor6 c)
  | 3 => do let c ← pt4; pure (.setElasticTensor4 c)
  | 4 => do let a ← flt; let b ← flt; let c ← flt; pure (.setElasticConstants a b c)
  | 5 => do
    let E ← optFlt; let nu ← optFlt; let G ← optFlt; let lam ← optFlt; let K ← optFlt; let M ← optFlt
    pure (.setModuli E nu G lam K M)
  | 6 => do let c ← pm6; pure (.setPrecTensor6 c)
  | 7 => do let c ← pt4; pure (.setPrecTensor4 c)
  | 8 => do let a ← flt; let b ← flt; let c ← flt; pure (.setPrecConstants a b c)
  | 9 => do
    let E ← optFlt; let nu ← optFlt; let G ← optFlt; let lam ← optFlt; let K ← optFlt; let M ← optFlt
    pure (.setPrecModuli E nu G lam K M)
  | 10 => do let r ← pt2; pure (.setRotation r)
  | 11 => do let r ← pt2; pure (.setRotationPrec r)
  | 12 => do let e ← flt; pure (.setEigScalar e)
  | 13 => do let e ← pv3; pure (.setEigVec e)
  | 14 => do let e ← pt2; pure (.setEigMat e)
  | 15 => do let e ← flt; pure (.setStressScalar e)
  | 16 => do let e ← pv3; pure (.setStressVec e)
  | 17 => do let e ← pt2; pure (.setStressMat e)
  | _ => failure

/-- `compute` for one radius triple with a Khachaturyan / constant description -/
def computeSimple (s : State Float) (r : V3 Float) : Float :=
  match s.desc with
  | .constant => constant_energy s.constE (r 0) (r 1) (r 2)
  | .sphere => khach_sphere (s.p.cM2 0 0) (s.p.cM2 0 1) (s.p.cM2 3 3) (s.eig 0 0) (r 0) (r 1) (r 2)
  | .cube => khach_cube (s.p.cM2 0 0) (s.p.cM2 0 1) (s.p.cM2 3 3) (s.eig 0 0) (r 0) (r 1) (r 2)
  | .ellipsoid => 0.0 / 0.0

/-- el.seq desc0 nops op… r(3)
    → flags(nops as T/F string) desc cM4(81) cM2(36) cP4(81) cP2(36) stress(9) strain(9) eig(9) energy -/
def seq : P String := do
  let d ← pdesc
  let ops ← lst pop
  let r ← pv3
  let (s, flags) := ops.foldl (fun (acc : State Float × String) op =>
      let (s', ok) := step ev inv6 acc.1 op
      (s', acc.2 ++ bstr ok)) ((init d : State Float), "x")
  pure (s!"{flags} {descNat s.desc} " ++ flist (l4 s.p.cM4) ++ " " ++ flist (l6 s.p.cM2) ++ " " ++
        flist (l4 s.p.cP4) ++ " " ++ flist (l6 s.p.cP2) ++ " " ++ flist (l2 s.p.stress) ++ " " ++
        flist (l2 s.p.strain) ++ " " ++ flist (l2 s.eig) ++ " " ++ fout (computeSimple s r))

def showState (s : State Float) (r : V3 Float) : String :=
  s!"{descNat s.desc} " ++ flist (l4 s.p.cM4) ++ " " ++ flist (l6 s.p.cM2) ++ " " ++
    flist (l4 s.p.cP4) ++ " " ++ flist (l6 s.p.cP2) ++ " " ++ flist (l2 s.p.stress) ++ " " ++
    flist (l2 s.p.strain) ++ " " ++ flist (l2 s.eig) ++ " " ++ fout (computeSimple s r)

/-- el.fam K desc_0 … desc_{K-1} nops (obj op)… r(3)
    → flags, then per object: desc cM4 cM2 cP4 cP2 stress strain eig energy (interleaved calls on K live objects) -/
def fam : P String := do
  let ds ← lst pdesc
  let ops ← lst (do let i ← nat; let op ← pop; pure (i, op))
  let r ← pv3
  let f0 : Family Float := ds.map fun d => init d
  let (f, flags) := ops.foldl (fun (acc : Family Float × String) io =>
      let ok := match acc.1[io.1]? with
        | some s => (step ev inv6 s io.2).2
        | none => false
      (stepAt ev inv6 acc.1 io.1 io.2, acc.2 ++ bstr ok)) (f0, "x")
  pure (flags ++ " " ++ " ".intercalate (f.map fun s => showState s r))

/-! ### history of one object -/
def pquad : P (Quad Float) := do
  let ph ← flts; let th ← flts; let w ← flts; let dA ← flt
  pure { nodes := (ph.zip (th.zip w)).map fun (p, t, w) => { n := v3Of (nvec_all p t).toArray, w := w }, dA := dA }

def phop (quads : Array (Quad Float)) : P (HOp Float) := do
  let t ← tok
  match t with
  | "S" => do let op ← pop; pure (.setter op)
  | "Q" => do
    let k ← nat
    match quads[k]? with
    | some q => pure (.setQuad q)
    | none => failure
  | "C" => do let r ← pv3; pure (.compute r)
  | _ => failure

/-- el.hist desc0 nq quad_0 … (quad_0 = nodes of a new ellipsoidal description) nops (S op | Q k | C r(3))…
    → flags of the setter calls, final description, results of the compute calls in order -/
def hist : P String := do
  let d ← pdesc
  let quads ← lst pquad
  let qa := quads.toArray
  let dq : Quad Float := qa.getD 0 { nodes := [], dA := 0.0 }
  let ops ← lst (phop qa)
  let flags := ops.foldl (fun (acc : HState Float × String) op =>
      let f := match op with
        | .setter o => bstr (step ev inv6 acc.1.st o).2
        | _ => ""
      ((hstep ev inv6 inv4 computeSimple dq acc.1 op).1, acc.2 ++ f)) ((hinit d dq : HState Float), "x")
  let out := hrun ev inv6 inv4 computeSimple dq (hinit d dq) ops
  pure (s!"{flags.2} {descNat out.1.st.desc} " ++ flist out.2)

/-! ### array calls of `compute` -/
/-- `np.allclose(ri / ri[0], rp / rp[0])` (rtol 1e-5, atol 1e-8): the test of the reuse-previous-row variant -/
def sameShapeF (p r : V3 Float) : Bool :=
  let ok (k : Fin 3) : Bool :=
    let a := r k / r 0; let b := p k / p 0
    Float.abs (a - b) <= 1e-8 + 1e-5 * Float.abs b
  ok 1 && ok 2

/-- el.rows desc0 nq quad… nops (S op | Q k)… nrows r(3)… nidx idx…
    → final description | computeRows (one single-row energy per row) | the reuse-previous-row VARIANT |
      computeRows of rows[idx] | (computeRows of rows)[idx] -/
def rowsV : P String := do
  let d ← pdesc
  let quads ← lst pquad
  let qa := quads.toArray
  let dq : Quad Float := qa.getD 0 { nodes := [], dA := 0.0 }
  let ops ← lst (phop qa)
  let rows ← lst pv3
  let idx ← lst nat
  let h := (hrun ev inv6 inv4 computeSimple dq (hinit d dq) ops).1
  let f := computeOf ev inv4 computeSimple h
  let res := computeRows f rows
  let d0 : V3 Float := v3Of #[0.0 / 0.0, 0.0 / 0.0, 0.0 / 0.0]
  -- f is a pure function of the row: for the two further evaluations below a row already evaluated is looked up
  let fm : V3 Float → Float := fun r =>
    match (rows.zip res).find? (fun pe => pe.1 0 == r 0 && pe.1 1 == r 1 && pe.1 2 == r 2) with
    | some pe => pe.2
    | none => f r
  pure (s!"{descNat h.st.desc} " ++ flist res ++ " " ++ flist (computeRowsReuse sameShapeF fm rows) ++ " " ++
        flist (computeRows fm (takeRows d0 rows idx)) ++ " " ++ flist (takeRows (0.0 / 0.0) res idx))

def handle (verb : String) : Option (P String) :=
  match verb with
  | "el.gen.moduli" => some genModuli
  | "el.gen.khach" => some genKhach
  | "el.gen.inv3" => some genInv3
  | "el.gen.beta" => some genBeta
  | "el.beta.axes" => some betaAxes
  | "el.conv6" => some conv6
  | "el.conv4" => some conv4
  | "el.vec" => some vec
  | "el.rot" => some rot
  | "el.ec" => some ec
  | "el.moduliC" => some moduliC
  | "el.inv4" => some inv4v
  | "el.energy" => some energy
  | "el.seq" => some seq
  | "el.fam" => some fam
  | "el.hist" => some hist
  | "el.rows" => some rowsV
  | _ => none

end KawinV.Drv.C16
