import KawinV.Proto
/-! driver verbs for C16 (stub: no verbs yet) -/
namespace KawinV.Drv.C16
open KawinV.Proto

def handle (verb : String) : Option (P String) :=
  match verb with
  | _ => none

end KawinV.Drv.C16
