import KawinV.Proto
import KawinV.Model.SaveLoad
import KawinV.Gen.C20Tables
/-! driver verbs for the save/load model (Float instance), run with the GENERATED tables -/
namespace KawinV.Drv.C20
open KawinV.Proto KawinV.SaveLoad KawinV.Gen.C20
open KawinV.Forward (Getter Call)

/-- value:  `N`  |  `A <ndim> d1 … <len> x1 …` -/
def val : P (Val Float) := do
  let t ← tok
  if t == "N" then pure .none
  else if t == "A" then do
    let sh ← lst nat; let d ← flts; pure (.arr sh d)
  else failure

def slots : P (List (String × Val Float)) := lst (do let n ← tok; let v ← val; pure (n, v))

def stateOf (l : List (String × Val Float)) : State Float :=
  fun x => match l.find? (fun e => e.1 == x) with | some e => e.2 | none => .none

def showVal : Val Float → String
  | .none => "N"
  | .arr sh d => s!"A {" ".intercalate (toString sh.length :: sh.map toString)} {flist d}"

def specOf (kind : String) (phases : List String) : Spec :=
  if kind == "P" then
    { writes := expand precipGlobalW precipPhaseW phases, reads := expand precipGlobalR precipPhaseR phases,
      resets := expandSlots precipGlobalReset precipPhaseReset phases }
  else { writes := diffW, reads := diffR, resets := diffReset }

/-- sl.rt  kind(P|D)  phases  state  fresh-state
    → `K <n> keys…` (keys of the saved file) then `E objarray` | `E keyerror <k>` |
      `R <n> (slot value)…` for every slot named in the fresh state, after load -/
def rt : P String := do
  let kind ← tok
  let phases ← lst tok
  let s ← slots
  let s0 ← slots
  let sp := specOf kind phases
  let file := save sp (stateOf s)
  let keys := (Dict.keys file).eraseDups
  let ks := " ".intercalate (toString keys.length :: keys)
  match load sp file (stateOf s0) with
  | .error .objectArray => pure s!"K {ks} E objarray"
  | .error (.keyError k) => pure s!"K {ks} E keyerror {k}"
  | .ok s' =>
    let names := s0.map (·.1)
    let body := names.map (fun n => s!"{n} {showVal (s' n)}")
    pure s!"K {ks} R {" ".intercalate (toString names.length :: body)}"

/-- sl.cls  class  branch(compressed|uncompressed)  state  fresh-state        save / load of a class by its row of the GENERATED
    table `saveTables` (every class with a save/load pair x every keyword branch of save); answer as `sl.rt`;
    `U` = the table has no such row -/
def clsrt : P String := do
  let cls ← tok
  let branch ← tok
  let s ← slots
  let s0 ← slots
  match findRow saveTables cls branch with
  | none => pure "U"
  | some row =>
    let sp := row.spec
    let file := save sp (stateOf s)
    let keys := (Dict.keys file).eraseDups
    let ks := " ".intercalate (toString keys.length :: keys)
    match load sp file (stateOf s0) with
    | .error .objectArray => pure s!"K {ks} E objarray"
    | .error (.keyError k) => pure s!"K {ks} E keyerror {k}"
    | .ok s' =>
      let names := s0.map (·.1)
      let body := names.map (fun n => s!"{n} {showVal (s' n)}")
      pure s!"K {ks} R {" ".intercalate (toString names.length :: body)}"

def showNest : (k : Nat) → Nest Float k → String
  | 0, x => fout x
  | k+1, xs => "[ " ++ " ".intercalate (List.map (showNest k) xs) ++ " ]"

/-- json.rt  shape  data  → shape and data of `np.array(a.tolist())`, then the nested list itself -/
def jsonrt : P String := do
  let sh ← lst nat
  let d ← flts
  let j := tolist sh d
  let sh' := shapeOf sh.length j
  let d' := flatten sh.length j
  pure s!"{" ".intercalate (toString sh'.length :: sh'.map toString)} {flist d'} {showNest sh.length j}"

def showErr : KawinV.Forward.Err → String
  | .tooMany => "toomany"
  | .multiple p => s!"multiple {p}"
  | .unexpected k => s!"unexpected {k}"

def showKw (l : List (String × String)) : String :=
  " ".intercalate (toString l.length :: l.map (fun e => s!"{e.1} {e.2}"))

/-- fw.call  class(B|M)  getter  positional-values  keyword-values   (values are opaque tokens)
    the forwarding row of that getter in the GENERATED table decides what happens:
    → `S err <why>`                                  Python refuses the call to the getter
    | `F <pos> <kw> B ok <received>` | `F <pos> <kw> B err <why>`   the call handed on, bound to the thermodynamics signature
    a named parameter the caller left out travels as `D:<name>` -/
def fwcall : P String := do
  let cls ← tok
  let gname ← tok
  let pos ← lst tok
  let kw ← lst (do let k ← tok; let v ← tok; pure (k, v))
  let table := if cls == "B" then binaryForwarding else multiForwarding
  match table.find? (fun r => r.1 == gname) with
  | none => failure
  | some row =>
    let g := Getter.ofRow row
    let c : Call String := { pos := pos, kw := kw }
    let d := fun n => "D:" ++ n
    match KawinV.Forward.forward g d c with
    | .error e => pure s!"S err {showErr e}"
    | .ok f =>
      let head := s!"F {" ".intercalate (toString f.pos.length :: f.pos)} {showKw f.kw}"
      match KawinV.Forward.bindT g.tsig f with
      | .error e => pure s!"{head} B err {showErr e}"
      | .ok r => pure s!"{head} B ok {showKw r}"


/-- sl.hist  kind(P|D)  phases  <nstates> (slots)…  <initial state id>  <nops> ops…
    ops:  `S i sid` (model i is now in state sid)  |  `W i file` (model i saved)  |  `L file sid` (fresh model in state sid, loaded)
    → `H <nloads>` then per load  `X` (no such file) | `E objarray` | `E keyerror <k>` | `R <n> (slot value)…`,
      then `F <n> names…` the distinct files that exist after the history -/
def hist : P String := do
  let kind ← tok
  let phases ← lst tok
  let states ← lst slots
  let st := fun (i : Nat) => stateOf (states.getD i [])
  let i0 ← nat
  let ops ← lst (do
    let t ← tok
    if t == "S" then do let i ← nat; let sid ← nat; pure (Op.solve i (st sid), ([] : List String))
    else if t == "W" then do let i ← nat; let f ← tok; pure (Op.save i f, [])
    else if t == "L" then do let f ← tok; let sid ← nat; pure (Op.load f (st sid), (states.getD sid []).map (·.1))
    else failure)
  let sp := specOf kind phases
  let p0 : Proc Float := { models := [st i0], files := [] }
  let outs := loadOutcomes sp p0 (ops.map (·.1))
  let names := (ops.filter (fun o => match o.1 with | .load _ _ => true | _ => false)).map (·.2)
  let body := (outs.zip names).map (fun (o, ns) =>
    match o with
    | none => "X"
    | some (.error .objectArray) => "E objarray"
    | some (.error (.keyError k)) => s!"E keyerror {k}"
    | some (.ok s') => s!"R {" ".intercalate (toString ns.length :: ns.map (fun n => s!"{n} {showVal (s' n)}"))}")
  let files := (run sp p0 (ops.map (·.1))).files.names
  pure s!"H {" ".intercalate (toString outs.length :: body)} F {" ".intercalate (toString files.length :: files)}"

open KawinV.SurrogateFit in
def qOf (t : String) : Option Q :=
  if t == "df" then some .drivingForce else if t == "diff" then some .diffusivity
  else if t == "ic" then some .interfacial else if t == "curv" then some .curvature else none

open KawinV.SurrogateFit in
/-- sg.hist  kernel  normalize(T|F)  <nops> ops…      the fitting state of a surrogate through a history, with the hooks of the CODE
    ops:  `T q cols npoints payload` (train quantity q: `cols` input columns, `npoints` rows, payload = an id of the data)  |  `Q q` (getter call)
    → `N <n> flags…` (normalize flag of the surrogate's settings after each op)
      `O` per quantity of the refit order `-` | `<normalize of the fit> <nodes> <payload>`      (the trained object)
      `B` the same for the object rebuilt by toJson → fromJson with the constructor settings -/
def sghist : P String := do
  let kernel ← tok
  let nrm ← bool
  let ops ← lst (do
    let t ← tok
    if t == "T" then do
      let qt ← tok; let cols ← nat; let np ← nat; let pay ← nat
      match qOf qt with
      | some q => pure (Op.train q ({ payload := pay, points := List.range np, cols := cols } : Train Nat Nat))
      | none => failure
    else if t == "Q" then do
      let qt ← tok
      match qOf qt with
      | some q => pure (Op.query q)
      | none => failure
    else failure)
  let s0 : Settings := { kernel := kernel, normalize := nrm }
  let h := code Nat
  let flags := (List.range ops.length).map (fun k => bstr (runS h (empty Nat Nat s0) (ops.take (k+1))).settings.normalize)
  let s := runS h (empty Nat Nat s0) ops
  let b := rebuild h s0 s
  let showM := fun (x : Surr Nat Nat) => " ".intercalate (refitOrder.map (fun q =>
    match x.models q with
    | none => "-"
    | some f => s!"{bstr f.settings.normalize} {f.nodes.length} {f.payload}"))
  pure s!"N {" ".intercalate (toString flags.length :: flags)} O {showM s} B {showM b}"

open KawinV.SurrogateFit in
/-- sg.load  kernel  normalize(T|F)  <nops> receiver-ops…  then per quantity of the refit order  `-` | `cols npoints payload`  (the file)
    the receiver is built by the ops (as `sg.hist`), then `fromJson(file)` is called ON it (`loadInto`, hooks of the code)
    → `R` per quantity `-` | `<normalize of the fit> <nodes> <payload>` (receiver before the load)  `L` the same after the load -/
def sgload : P String := do
  let kernel ← tok
  let nrm ← bool
  let ops ← lst (do
    let t ← tok
    if t == "T" then do
      let qt ← tok; let cols ← nat; let np ← nat; let pay ← nat
      match qOf qt with
      | some q => pure (Op.train q ({ payload := pay, points := List.range np, cols := cols } : Train Nat Nat))
      | none => failure
    else if t == "Q" then do
      let qt ← tok
      match qOf qt with
      | some q => pure (Op.query q)
      | none => failure
    else failure)
  let entry : P (Option (Train Nat Nat)) := do
    let t ← tok
    if t == "-" then pure none
    else match t.toNat? with
      | some cols => do
        let np ← nat; let pay ← nat
        pure (some { payload := pay, points := List.range np, cols := cols })
      | none => failure
  let f0 ← entry; let f1 ← entry; let f2 ← entry; let f3 ← entry
  let file : Q → Option (Train Nat Nat) := fun q =>
    match q with
    | .drivingForce => f0 | .diffusivity => f1 | .interfacial => f2 | .curvature => f3
  let s0 : Settings := { kernel := kernel, normalize := nrm }
  let h := code Nat
  let r := runS h (empty Nat Nat s0) ops
  let l := loadInto h r file
  let showM := fun (x : Surr Nat Nat) => " ".intercalate (refitOrder.map (fun q =>
    match x.models q with
    | none => "-"
    | some f => s!"{bstr f.settings.normalize} {f.nodes.length} {f.payload}"))
  pure s!"R {showM r} L {showM l}"

def handle (verb : String) : Option (P String) :=
  match verb with
  | "sl.rt" => some rt
  | "sl.cls" => some clsrt
  | "json.rt" => some jsonrt
  | "fw.call" => some fwcall
  | "sl.hist" => some hist
  | "sg.hist" => some sghist
  | "sg.load" => some sgload
  | _ => none

end KawinV.Drv.C20
