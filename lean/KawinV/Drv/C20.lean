import KawinV.Proto
import KawinV.Model.SaveLoad
import KawinV.Gen.C20Tables
/-! driver verbs for the save/load model (Float instance), run with the GENERATED tables -/
namespace KawinV.Drv.C20
open KawinV.Proto KawinV.SaveLoad KawinV.Gen.C20

/-- value:  `N`  |  `A <ndim> d1 … <len> x1 …` -/
def val : P (Val Float) := do
  let t ← tok
  if t == "N" then pure .none
  else if t == "A" then do
    let sh ← lst nat; let d ← flts; pure (.arr sh d)
  else failure

def slots : P (List (String × Val Float)) := lst (do let n ← tok; let v ← val; pure (n, v))

def stateOf (l : List (String × Val Float)) : State Float :=
  fun x => match l.find? (fun e => e.1 == x) with | some e => e.2 | none => .none

def showVal : Val Float → String
  | .none => "N"
  | .arr sh d => s!"A {" ".intercalate (toString sh.length :: sh.map toString)} {flist d}"

def specOf (kind : String) (phases : List String) : Spec :=
  if kind == "P" then
    { writes := expand precipGlobalW precipPhaseW phases, reads := expand precipGlobalR precipPhaseR phases,
      resets := expandSlots precipGlobalReset precipPhaseReset phases }
  else { writes := diffW, reads := diffR, resets := diffReset }

/-- sl.rt  kind(P|D)  phases  state  fresh-state
    → `K <n> keys…` (keys of the saved file) then `E objarray` | `E keyerror <k>` |
      `R <n> (slot value)…` for every slot named in the fresh state, after load -/
def rt : P String := do
  let kind ← tok
  let phases ← lst tok
  let s ← slots
  let s0 ← slots
  let sp := specOf kind phases
  let file := save sp (stateOf s)
  let keys := (Dict.keys file).eraseDups
  let ks := " ".intercalate (toString keys.length :: keys)
  match load sp file (stateOf s0) with
  | .error .objectArray => pure s!"K {ks} E objarray"
  | .error (.keyError k) => pure s!"K {ks} E keyerror {k}"
  | .ok s' =>
    let names := s0.map (·.1)
    let body := names.map (fun n => s!"{n} {showVal (s' n)}")
    pure s!"K {ks} R {" ".intercalate (toString names.length :: body)}"

def showNest : (k : Nat) → Nest Float k → String
  | 0, x => fout x
  | k+1, xs => "[ " ++ " ".intercalate (List.map (showNest k) xs) ++ " ]"

/-- json.rt  shape  data  → shape and data of `np.array(a.tolist())`, then the nested list itself -/
def jsonrt : P String := do
  let sh ← lst nat
  let d ← flts
  let j := tolist sh d
  let sh' := shapeOf sh.length j
  let d' := flatten sh.length j
  pure s!"{" ".intercalate (toString sh'.length :: sh'.map toString)} {flist d'} {showNest sh.length j}"

def handle (verb : String) : Option (P String) :=
  match verb with
  | "sl.rt" => some rt
  | "json.rt" => some jsonrt
  | _ => none

end KawinV.Drv.C20
