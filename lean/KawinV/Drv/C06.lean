import KawinV.Proto
import KawinV.Model.Solver
import KawinV.Model.Flatten
import KawinV.Gen.C06Tableau
/-! driver verbs for C06: the hand model of the iterators and the general Runge-Kutta step with the
GENERATED tableau, on `Float`, for a small family of right-hand sides that exists identically in
tools/corr/C06.py (`_rhs`; ids and operation order must match). -/
namespace KawinV.Drv.C06
open KawinV.Proto KawinV.Solver

def ratF (q : Rat) : Float := Float.ofInt q.num / Float.ofNat q.den

def tabF (T : Tableau Rat) : Tableau Float := T.map ratF

def powN (t : Float) : Nat → Float
  | 0 => 1.0
  | n+1 => powN t n * t

/-- right-hand sides, vector state as a list -/
def rhs (ode : Nat) (p q t : Float) (y : List Float) : List Float :=
  match ode with
  | 0 => y.map (fun v => p * v + q * t)
  | 1 => y.map (fun v => p * v * (1.0 - v))
  | 2 => match y with
         | [a, b] => [-(p * b), p * a]
         | _ => y
  | 3 => y.map (fun v => p * v * Float.cos (q * t))
  | 4 => y.map (fun v => (-2.0) * p * t * v)
  | 5 => match y with
         | [a, b] => [-(p * t * b), p * t * a]
         | _ => y
  | 6 => y.map (fun v => p * t * v * v)
  | 7 => let k := q.toUInt64.toNat
         y.map (fun v => (Float.ofNat k + 1.0) * powN t k + 0.0 * v)
  | 8 => y.map (fun v => p * Float.cos (q * t) + 0.0 * v)
  | 9 => y.map (fun v => -(p * v) + Float.sin t)
  | 11 => y.map (fun v => p + 0.0 * v)
  | 12 => y.map (fun v => ((q * t + p) * t + 1.0) * t + p + 0.0 * v)
  | _ => y

def which (k : String) : Option (Tableau Rat) :=
  if k == "E" then some KawinV.Gen.C06.euler else if k == "R" then some KawinV.Gen.C06.rk4 else none

/-- rk.tableau E|R → c, number of rows of A, the rows, b (as doubles) -/
def tableau : P String := do
  let k ← tok
  match which k with
  | none => failure
  | some T =>
    let T := tabF T
    pure s!"{flist T.c} {T.A.length} {" ".intercalate (T.A.map flist)} {flist T.b}"

/-- rk.iter E|R ode p q t dt x(list) → xnew, callback times, callback states (concatenated), xold -/
def iter : P String := do
  let k ← tok; let ode ← nat; let p ← flt; let q ← flt; let t ← flt; let dt ← flt; let x ← flts
  let f := rhs ode p q
  let out ← (if k == "E" then pure (eulerIter listOps f dt t x)
             else if k == "R" then pure (rk4Iter listOps f dt t x) else failure)
  pure s!"{flist out.xnew} {flist (out.calls.map Prod.fst)} {flist (out.calls.flatMap Prod.snd)} {flist out.xold}"

/-- rk.tabstep E|R ode p q t dt x → one general Runge-Kutta step with the generated tableau -/
def tabstep : P String := do
  let k ← tok; let ode ← nat; let p ← flt; let q ← flt; let t ← flt; let dt ← flt; let x ← flt
  match which k with
  | none => failure
  | some T =>
    let f : Float → Float → Float := fun s v => (rhs ode p q s [v]).getD 0 0.0
    pure (fout (rkStep (tabF T) f t x dt))

/-- one independent block of a composite system: family id, parameters, its part of the state -/
structure Block where
  ode : Nat
  p : Float
  q : Float
  dim : Nat

def block : P (Block × List Float) := do
  let ode ← nat; let p ← flt; let q ← flt; let x ← flts
  pure ({ ode := ode, p := p, q := q, dim := x.length }, x)

/-- right-hand side of the composite system on the concatenated state -/
def rhsBlocks : List Block → Float → List Float → List Float
  | [], _, _ => []
  | b :: bs, t, y => rhs b.ode b.p b.q t (y.take b.dim) ++ rhsBlocks bs t (y.drop b.dim)

/-- rk.solve E|R t0 tf minFrac maxFrac h fuel nblocks (ode p q x(list))* → the DESolver.solve loop WITH the state
(`solveX`), constant proposal h, the iterator of the model on the flat concatenated state:
nsteps, final time, final state -/
def solveV : P String := do
  let k ← tok; let t0 ← flt; let tf ← flt; let mn ← flt; let mx ← flt; let h ← flt; let fuel ← nat
  let bl ← lst block
  let f := rhsBlocks (bl.map Prod.fst)
  let x0 := bl.flatMap Prod.snd
  let iter ← (if k == "E" then pure (fun dt t x => (eulerIter listOps f dt t x).xnew)
              else if k == "R" then pure (fun dt t x => (rk4Iter listOps f dt t x).xnew) else failure)
  let r := solveX t0 tf mn mx (fun _ => Dt.fin h) (fun _ => false) iter x0 fuel
  pure s!"{r.1.steps.length} {fout r.1.cur} {flist r.2}"

/-- rk.buf shared(T|F) E|R ode p q t dt x(list) → the iterator for a right-hand side that reuses ONE work array, the
flatten function between model and iterator sharing it (T) or copying (F): same answer format as rk.iter -/
def iterBuf : P String := do
  let sh ← bool
  let k ← tok; let ode ← nat; let p ← flt; let q ← flt; let t ← flt; let dt ← flt; let x ← flts
  let f := rhs ode p q
  let out ← (if k == "E" then pure (eulerIterBuf sh listOps f dt t x)
             else if k == "R" then pure (rk4IterBuf sh listOps f dt t x) else failure)
  pure s!"{flist out.xnew} {flist (out.calls.map Prod.fst)} {flist (out.calls.flatMap Prod.snd)} {flist out.xold}"

/-- round-to-nearest-even to binary16 (normal range; below 2^-14 the fixed quantum 2^-24; above 65504 → inf), as a double -/
def rnd16 (x : Float) : Float :=
  if x.isNaN || x.isInf || x == 0.0 then x else
  let a := x.abs
  if a >= 65520.0 then (if x > 0.0 then 1.0 / 0.0 else -1.0 / 0.0) else
  let e : Int := (Float.frExp a).2 - 1                 -- 2^e ≤ a < 2^(e+1)
  let qe : Int := (if e < -14 then -14 else e) - 10    -- exponent of the quantum
  let c := Float.scaleB 1.5 (52 + qe)                  -- adding and subtracting c rounds to a multiple of 2^qe, ties to even
  let r := (a + c) - c
  if x < 0.0 then -r else r

/-- the number formats a model can answer `getDt` in: 64 (Python float, np.float64, int, 0-d double array), 32, 16 -/
def rndFmt (fmt : Nat) : Option (Float → Float) :=
  if fmt == 64 then some id
  else if fmt == 32 then some (fun x => x.toFloat32.toFloat)
  else if fmt == 16 then some rnd16
  else none

/-- rk.solvefmt fmt E|R t0 tf minFrac maxFrac h fuel nblocks (ode p q x(list))* → `solveXR rnd`: the DESolver.solve
loop with the state for a model that answers getDt with the constant h IN THE FORMAT fmt:
nsteps, final time, final state, accepted times (oldest first), accepted steps (oldest first) -/
def solveFmt : P String := do
  let fmt ← nat
  let k ← tok; let t0 ← flt; let tf ← flt; let mn ← flt; let mx ← flt; let h ← flt; let fuel ← nat
  let bl ← lst block
  let f := rhsBlocks (bl.map Prod.fst)
  let x0 := bl.flatMap Prod.snd
  let rnd ← (match rndFmt fmt with | some r => pure r | none => failure)
  let iter ← (if k == "E" then pure (fun dt t x => (eulerIter listOps f dt t x).xnew)
              else if k == "R" then pure (fun dt t x => (rk4Iter listOps f dt t x).xnew) else failure)
  let r := solveXR rnd t0 tf mn mx (fun _ => Dt.fin h) (fun _ => false) iter x0 fuel
  pure s!"{r.1.steps.length} {fout r.1.cur} {flist r.2} {flist r.1.times.reverse} {flist r.1.dts.reverse}"

/-- rk.rnd fmt x → the rounding function of the format on one number -/
def rndV : P String := do
  let fmt ← nat; let x ← flt
  match rndFmt fmt with
  | some r => pure (fout (r x))
  | none => failure

/-- rk.own M|C|I → does the flatten function of the site hand back memory of its argument (T) or a new array (F):
GenericModel.flattenX, Coupler.flattenX, DESolver.flattenXNotImplemented -/
def ownV : P String := do
  let k ← tok
  if k == "M" then pure (bstr (KawinV.Flatten.flattenOwnership ([] : List (KawinV.Flatten.Item Float))).isShared)
  else if k == "C" then pure (bstr (KawinV.Flatten.flattenCOwnership ([] : List (List (KawinV.Flatten.Item Float)))).isShared)
  else if k == "I" then pure (bstr KawinV.Flatten.identityOwnership.isShared)
  else failure

/-- one call of a history: scheme E|R|M (M = the user-supplied midpoint iterator), reset T|F, simTime, minDtFrac,
maxDtFrac, constant proposal h, fuel -/
def callP : P (Call Float (List Float)) := do
  let k ← tok; let rs ← bool; let L ← flt; let mn ← flt; let mx ← flt; let h ← flt; let fuel ← nat
  let sc : Scheme Float (List Float) ← (if k == "E" then pure Scheme.euler else if k == "R" then pure Scheme.rk4
                                        else if k == "M" then pure (Scheme.custom midIter) else failure)
  pure { scheme := sc, reset := rs, simTime := L, minFrac := mn, maxFrac := mx, propose := fun _ => Dt.fin h,
         stopAt := fun _ => false, fuel := fuel }

/-- rk.hist t0 nblocks (ode p q x(list))* ncalls (call)* → `solveCalls`: a history of GenericModel.solve calls on ONE
model object; per call: model time afterwards, model state afterwards, right-hand-side evaluations since the last reset -/
def histV : P String := do
  let t0 ← flt
  let bl ← lst block
  let cs ← lst callP
  let f := rhsBlocks (bl.map Prod.fst)
  let x0 := bl.flatMap Prod.snd
  let init : Float × (List Float × Nat) := (t0, (x0, 0))
  let out := solveCalls (Scheme.stepN listOps f) init cs init
  pure (" ".intercalate (out.map (fun r => s!"{fout r.1} {flist r.2.1} {r.2.2}")))

def dtypeP : P KawinV.Flatten.DType := do
  let k ← tok
  if k == "f64" then pure .f64 else if k == "f32" then pure .f32 else if k == "f16" then pure .f16
  else if k == "i64" then pure .i64 else if k == "i32" then pure .i32 else failure

/-- typed reference state from (dtype, size) pairs (size 0 = scalar item) and the flat initial values -/
def typedState : List (KawinV.Flatten.DType × Nat) → List Float → KawinV.Flatten.TState Float
  | [], _ => []
  | (ty, 0) :: r, v => (ty, .scalar (v.headD 0.0)) :: typedState r (v.drop 1)
  | (ty, n) :: r, v => (ty, .arr [n] (v.take n)) :: typedState r (v.drop n)

/-- rk.dtype E|R t0 tf minFrac maxFrac h fuel nblocks (ode p q x(list))* nitems (dtype size)* → the solve loop for a model
whose state items have the given storage types: every vector travels through `Flatten.deliver` (flattenX ∘ unflattenX by
the typed reference) on its way to the callbacks (`rk4IterVia` / `eulerIterVia`, `passVia`): nsteps, final time, final state -/
def solveDtype : P String := do
  let k ← tok; let t0 ← flt; let tf ← flt; let mn ← flt; let mx ← flt; let h ← flt; let fuel ← nat
  let bl ← lst block
  let items ← lst (do let ty ← dtypeP; let n ← nat; pure (ty, n))
  let f := rhsBlocks (bl.map Prod.fst)
  let x0 := bl.flatMap Prod.snd
  let g := KawinV.Flatten.deliver (typedState items x0)
  let iter ← (if k == "E" then pure (passVia g (eulerIterVia g listOps f))
              else if k == "R" then pure (passVia g (rk4IterVia g listOps f)) else failure)
  let r := solveX t0 tf mn mx (fun _ => Dt.fin h) (fun _ => false) iter x0 fuel
  pure s!"{r.1.steps.length} {fout r.1.cur} {flist r.2}"

def handle (verb : String) : Option (P String) :=
  match verb with
  | "rk.tableau" => some tableau
  | "rk.iter" => some iter
  | "rk.tabstep" => some tabstep
  | "rk.solve" => some solveV
  | "rk.buf" => some iterBuf
  | "rk.solvefmt" => some solveFmt
  | "rk.rnd" => some rndV
  | "rk.own" => some ownV
  | "rk.hist" => some histV
  | "rk.dtype" => some solveDtype
  | _ => none

end KawinV.Drv.C06
