import KawinV.Proto
import KawinV.Model.Solver
import KawinV.Gen.C06Tableau
/-! driver verbs for C06: the hand model of the iterators and the general Runge-Kutta step with the
GENERATED tableau, on `Float`, for a small family of right-hand sides that exists identically in
tools/corr/C06.py (`_rhs`; ids and operation order must match). -/
namespace KawinV.Drv.C06
open KawinV.Proto KawinV.Solver

def ratF (q : Rat) : Float := Float.ofInt q.num / Float.ofNat q.den

def tabF (T : Tableau Rat) : Tableau Float := T.map ratF

def powN (t : Float) : Nat → Float
  | 0 => 1.0
  | n+1 => powN t n * t

/-- right-hand sides, vector state as a list -/
def rhs (ode : Nat) (p q t : Float) (y : List Float) : List Float :=
  match ode with
  | 0 => y.map (fun v => p * v + q * t)
  | 1 => y.map (fun v => p * v * (1.0 - v))
  | 2 => match y with
         | [a, b] => [-(p * b), p * a]
         | _ => y
  | 3 => y.map (fun v => p * v * Float.cos (q * t))
  | 4 => y.map (fun v => (-2.0) * p * t * v)
  | 5 => match y with
         | [a, b] => [-(p * t * b), p * t * a]
         | _ => y
  | 6 => y.map (fun v => p * t * v * v)
  | 7 => let k := q.toUInt64.toNat
         y.map (fun v => (Float.ofNat k + 1.0) * powN t k + 0.0 * v)
  | 8 => y.map (fun v => p * Float.cos (q * t) + 0.0 * v)
  | 9 => y.map (fun v => -(p * v) + Float.sin t)
  | 11 => y.map (fun v => p + 0.0 * v)
  | 12 => y.map (fun v => ((q * t + p) * t + 1.0) * t + p + 0.0 * v)
  | _ => y

def which (k : String) : Option (Tableau Rat) :=
  if k == "E" then some KawinV.Gen.C06.euler else if k == "R" then some KawinV.Gen.C06.rk4 else none

/-- rk.tableau E|R → c, number of rows of A, the rows, b (as doubles) -/
def tableau : P String := do
  let k ← tok
  match which k with
  | none => failure
  | some T =>
    let T := tabF T
    pure s!"{flist T.c} {T.A.length} {" ".intercalate (T.A.map flist)} {flist T.b}"

/-- rk.iter E|R ode p q t dt x(list) → xnew, callback times, callback states (concatenated), xold -/
def iter : P String := do
  let k ← tok; let ode ← nat; let p ← flt; let q ← flt; let t ← flt; let dt ← flt; let x ← flts
  let f := rhs ode p q
  let out ← (if k == "E" then pure (eulerIter listOps f dt t x)
             else if k == "R" then pure (rk4Iter listOps f dt t x) else failure)
  pure s!"{flist out.xnew} {flist (out.calls.map Prod.fst)} {flist (out.calls.flatMap Prod.snd)} {flist out.xold}"

/-- rk.tabstep E|R ode p q t dt x → one general Runge-Kutta step with the generated tableau -/
def tabstep : P String := do
  let k ← tok; let ode ← nat; let p ← flt; let q ← flt; let t ← flt; let dt ← flt; let x ← flt
  match which k with
  | none => failure
  | some T =>
    let f : Float → Float → Float := fun s v => (rhs ode p q s [v]).getD 0 0.0
    pure (fout (rkStep (tabF T) f t x dt))

/-- one independent block of a composite system: family id, parameters, its part of the state -/
structure Block where
  ode : Nat
  p : Float
  q : Float
  dim : Nat

def block : P (Block × List Float) := do
  let ode ← nat; let p ← flt; let q ← flt; let x ← flts
  pure ({ ode := ode, p := p, q := q, dim := x.length }, x)

/-- right-hand side of the composite system on the concatenated state -/
def rhsBlocks : List Block → Float → List Float → List Float
  | [], _, _ => []
  | b :: bs, t, y => rhs b.ode b.p b.q t (y.take b.dim) ++ rhsBlocks bs t (y.drop b.dim)

/-- rk.solve E|R t0 tf minFrac maxFrac h fuel nblocks (ode p q x(list))* → the DESolver.solve loop WITH the state
(`solveX`), constant proposal h, the iterator of the model on the flat concatenated state:
nsteps, final time, final state -/
def solveV : P String := do
  let k ← tok; let t0 ← flt; let tf ← flt; let mn ← flt; let mx ← flt; let h ← flt; let fuel ← nat
  let bl ← lst block
  let f := rhsBlocks (bl.map Prod.fst)
  let x0 := bl.flatMap Prod.snd
  let iter ← (if k == "E" then pure (fun dt t x => (eulerIter listOps f dt t x).xnew)
              else if k == "R" then pure (fun dt t x => (rk4Iter listOps f dt t x).xnew) else failure)
  let r := solveX t0 tf mn mx (fun _ => Dt.fin h) (fun _ => false) iter x0 fuel
  pure s!"{r.1.steps.length} {fout r.1.cur} {flist r.2}"

def handle (verb : String) : Option (P String) :=
  match verb with
  | "rk.tableau" => some tableau
  | "rk.iter" => some iter
  | "rk.tabstep" => some tabstep
  | "rk.solve" => some solveV
  | _ => none

end KawinV.Drv.C06
