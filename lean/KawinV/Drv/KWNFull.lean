import KawinV.Proto
import KawinV.Model.KWNFull
/-! driver verb for the composed KWN Euler step (Float instance): `kwn.estep <cfg> <state> <tf dtmin dtmax> <answers>` -/
namespace KawinV.Drv.KWNFull
open KawinV KawinV.Proto KawinV.KWNFull

instance : NatCast Float := ⟨fun n => Float.ofNat n⟩

def fll : P (List (List Float)) := lst flts

def site : P DtRules.Site := do
  let t ← tok
  match t with
  | "bulk" => pure .bulk | "disl" => pure .disl | "gb" => pure .gb | "edge" => pure .edge | "corner" => pure .corner
  | _ => failure

def phaseCfg : P (PhaseCfg Float) := do
  let id ← nat; let st ← site; let isGB ← bool
  let gamma ← flt; let gbE ← flt; let vmB ← flt; let a ← flt; let v ← flt; let r ← flt; let k ← flt; let rmin ← flt
  let inf ← bool; let par ← lst nat
  pure { id := id, site := st, isGB := isGB, gamma := gamma, gbE := gbE, vmBeta := vmB, areaFactor := a, volumeFactor := v,
         gbRemoval := r, gbk := k, rmin := rmin, infinite := inf, parents := par }

def cfg : P (Cfg Float) := do
  let cP ← bool; let cN ← bool; let cT ← bool; let cR ← bool; let cV ← bool
  let minNuc ← flt; let maxNuc ← flt; let maxNI ← flt; let maxRc ← flt; let maxVol ← flt; let dtScale ← flt; let binRatio ← flt
  let bulk ← flt; let disl ← flt; let gb ← flt; let edge ← flt; let corner ← flt; let na ← flt; let vmA ← flt
  let nE ← nat; let bin ← bool; let bt ← nat; let iso ← bool
  let kB ← flt; let a0 ← flt; let theta ← flt; let minDens ← flt; let minComp ← flt; let minRad ← flt; let maxDiss ← flt
  let maxTC ← flt; let x0 ← flts
  let effOn ← bool; let effOhm ← flts; let effVal ← flts
  let phs ← lst phaseCfg
  pure { dt := { checkPSD := cP, checkNuc := cN, checkTemp := cT, checkRcrit := cR, checkVol := cV, minNucRate := minNuc,
                 maxNucChange := maxNuc, maxNonIsoDT := maxNI, maxRcritChange := maxRc, maxVolChange := maxVol,
                 dtScale := dtScale, binRatio := binRatio },
         sites := { bulkN0 := bulk, dislN0 := disl, gbN0 := gb, edgeN0 := edge, cornerN0 := corner, NA := na, vmAlpha := vmA },
         phases := phs, nElem := nE, binary := bin, betaType := bt, isothermal := iso, kB := kB, a0 := a0, theta := theta,
         minDens := minDens, minComp := minComp, minRadius := minRad, maxDissolution := maxDiss, maxTempChange := maxTC, x0 := x0,
         effEnabled := effOn, effOhm := effOhm, effVal := effVal }

def grid : P (Grid.State Float) := do
  let oMin ← flt; let oMax ← flt; let oBins ← nat; let mn ← flt; let mx ← flt; let bins ← nat
  let minB ← nat; let maxB ← nat; let ad ← bool; let psd ← flts; let bounds ← flts; let size ← flts
  pure { origMin := oMin, origMax := oMax, origBins := oBins, min := mn, max := mx, bins := bins, minBins := minB,
         maxBins := maxB, adaptive := ad, psd := psd, bounds := bounds, size := size, prevPsd := [], prevBounds := [],
         recording := false, recBins := [], recPsd := [], recTime := [], savedOk := false, savedBins := [], savedPsd := [],
         savedTime := [] }

def phaseSt : P (PhaseSt Float) := do
  let g ← grid; let xa ← fll; let xb ← fll; let gr ← flts; let d ← nat; let r ← nat
  pure { grid := g, xaT := xa, xbT := xb, growth := gr, dissIdx := d, rdfIdx := r }

def pslice : P (PSlice Float) := do
  let a ← flts; let b ← flts
  let dG ← flt; let beta ← flt; let gc ← flt; let rc ← flt; let nr ← flt; let dens ← flt; let rn ← flt
  let ra ← flt; let ar ← flt; let vf ← flt; let fc ← flts
  pure { xEqA := a, xEqB := b, dG := dG, beta := beta, Gcrit := gc, Rcrit := rc, nucRate := nr, dens := dens, Rnuc := rn,
         Ravg := ra, ARavg := ar, volFrac := vf, fconc := fc }

def slice : P (Slice Float) := do
  let t ← flt; let T ← flt; let comp ← flts; let ph ← lst pslice
  pure { time := t, temp := T, comp := comp, ph := ph }

def state : P (St Float) := do
  let ph ← lst phaseSt; let lt ← flt; let la ← fll; let lb ← fll; let h ← lst slice
  pure { ph := ph, lookT := lt, lookEqA := la, lookEqB := lb, hist := h }

def phaseAns : P (PhaseAns Float) := do
  let dg ← flt; let tf ← flt; let d0 ← flt; let d1 ← flt; let tau ← flt
  let ar ← flts; let kin ← flts; let eff ← flts
  let t ← tok
  let multi ← (if t == "none" then pure none
    else if t == "some" then do
      let g ← flts; let xa ← fll; let xb ← fll; let ea ← flts; let eb ← flts
      pure (some (g, xa, xb, ea, eb))
    else failure : P (Option (List Float × List (List Float) × List (List Float) × List Float × List Float)))
  pure { volDG := dg, thermoF := tf, d0 := d0, d1 := d1, tauNonIso := tau, arClass := ar, kin := kin, eff := eff, multi := multi }

def tablePh : P (TablePh Float) := do
  let ok ← bool; let a ← flt; let b ← flt; let xa ← flts; let xb ← flts
  pure { eqOK := ok, eqA := a, eqB := b, xa := xa, xb := xb }

def evalAns : P (EvalAns Float) := do
  let T ← flt; let ph ← lst phaseAns; let D ← flt; let tab ← lst tablePh
  pure { T := T, ph := ph, D := D, table := tab }

def updAns : P (UpdAns Float) := do
  let tab ← lst tablePh; let xa ← flts; let xb ← flts; let rg ← evalAns
  pure { table := tab, xaNew := xa, xbNew := xb, regrow := rg }

def fllOut (l : List (List Float)) : String := " ".intercalate (toString l.length :: l.map flist)

def gridOut (g : Grid.State Float) : String :=
  s!"{g.bins} {fout g.min} {fout g.max} {flist g.psd} {flist g.bounds} {flist g.size}"

def phaseOut (p : PhaseSt Float) : String :=
  s!"{gridOut p.grid} {fllOut p.xaT} {fllOut p.xbT} {flist p.growth} {p.dissIdx} {p.rdfIdx}"

def psliceOut (y : PSlice Float) : String :=
  s!"{flist y.xEqA} {flist y.xEqB} {fout y.dG} {fout y.beta} {fout y.Gcrit} {fout y.Rcrit} {fout y.nucRate} {fout y.dens} {fout y.Rnuc} {fout y.Ravg} {fout y.ARavg} {fout y.volFrac} {flist y.fconc}"

def sliceOut (y : Slice Float) : String :=
  s!"{fout y.time} {fout y.temp} {flist y.comp} " ++ " ".intercalate (toString y.ph.length :: y.ph.map psliceOut)

def stepOut (c : Cfg Float) (o : StepOut Float) : String :=
  let st := o.st
  s!"val {fout o.dtProposed} {fout o.dt} {fllOut o.xNew} " ++
    " ".intercalate (toString st.ph.length :: st.ph.map phaseOut) ++
    s!" {fout st.lookT} {fllOut st.lookEqA} {fllOut st.lookEqB} {st.hist.length} {sliceOut (st.cur c.nElem)}"

/-- kwn.estep cfg state tf dtmin dtmax aPost upd →
    val dtProp dt <xNew> <phases> lookT <lookEqA> <lookEqB> histLen <newest slice>   |   raises -/
def estep : P String := do
  let c ← cfg; let s ← state; let tf ← flt; let dtmin ← flt; let dtmax ← flt
  let a ← evalAns; let u ← lst updAns
  match eulerStep c s tf dtmin dtmax a u with
  | none => pure "raises"
  | some o => pure (stepOut c o)

/-- kwn.rstep cfg state tf dtmin dtmax a2 a3 a4 aPost upd → same answer format -/
def rstep : P String := do
  let c ← cfg; let s ← state; let tf ← flt; let dtmin ← flt; let dtmax ← flt
  let a2 ← evalAns; let a3 ← evalAns; let a4 ← evalAns; let a ← evalAns; let u ← lst updAns
  match rk4Step c s tf dtmin dtmax a2 a3 a4 a u with
  | none => pure "raises"
  | some o => pure (stepOut c o)

/-- kwn.setup cfg state a0 eqMulti → same answer format as a step (dtProposed = dt = 0, no xNew) -/
def setupV : P String := do
  let c ← cfg; let s ← state; let a ← evalAns
  let eq ← lst (do
    let t ← tok
    if t == "none" then pure none
    else if t == "some" then do let ea ← flts; let eb ← flts; pure (some (ea, eb))
    else failure : P (Option (List Float × List Float)))
  pure (stepOut c { dtProposed := 0, dt := 0, xNew := [], st := setupState c s a eq })

/-- kwn.reset cfg state → same answer format as a step (dtProposed = dt = 0, no xNew) -/
def resetV : P String := do
  let c ← cfg; let s ← state
  pure (stepOut c { dtProposed := 0, dt := 0, xNew := [], st := resetState c s })

def handle (verb : String) : Option (P String) :=
  match verb with
  | "kwn.estep" => some estep
  | "kwn.rstep" => some rstep
  | "kwn.setup" => some setupV
  | "kwn.reset" => some resetV
  | _ => none

end KawinV.Drv.KWNFull
