import KawinV.Proto
import KawinV.Model.PSDUpdate
/-! driver verbs for C02: state update → processed state → stored PSD (Float instance) -/
namespace KawinV.Drv.C02
open KawinV.Proto KawinV.PBM KawinV.PSD KawinV.MB

def fn (a : Array Float) : Nat → Float := fun i => a.getD i 0.0

/-- psd.step bounds growth psd nucRate nucRadius dt kz minRadius size
    → new state (Euler update with the corrected fluxes), processed state, stored PSD, and M0/M1/M3 of each -/
def step : P String := do
  let b ← flts; let g ← flts; let p ← flts; let nr ← flt; let rad ← flt; let dt ← flt
  let kz ← int; let minR ← flt; let size ← flts
  let n := p.length
  let ba := b.toArray; let ga := g.toArray; let pa := p.toArray
  let dR : Nat → Float := fun i => fn ba (i+1) - fn ba i
  let nf0 := ((List.range (n+1)).map (netFlux n (fn ga) (fn pa) dR)).toArray
  let nf := correctedFlux n dt (fn pa) (fn nf0)
  let k := nucIndex n (fn ba) rad
  let x' := (List.range n).map (eulerUpdate (fn pa) (dXdt nf k nr) dt)
  -- x[:kz+1] = 0 with Python slice semantics: kz = -1 zeroes nothing
  let xp := if kz < 0 then (List.zipWith (fun v r => if r < minR then 0 else v) x' size)
            else processX kz.toNat minR x' size
  let st := trunc xp
  pure s!"{flist x'} {flist xp} {flist st} {fout (moment 0 xp size)} {fout (moment 1 xp size)} {fout (moment 3 xp size)}"

def handle (verb : String) : Option (P String) :=
  match verb with
  | "psd.step" => some step
  | _ => none

end KawinV.Drv.C02
