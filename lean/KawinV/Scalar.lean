/-
Scalar operations that are not field operations (core Lean only).
`Trans α` collects the transcendental atoms used by formulas regenerated from the Python source;
`Float` is the executable instance (driver), ℝ the noncomputable one (KawinV/RealInst.lean).
-/
namespace KawinV

/-- x^k for a literal natural exponent, by repeated multiplication (x^0 = 1) -/
def npow {α : Type} [Mul α] [One α] (x : α) : Nat → α
  | 0 => 1
  | 1 => x
  | k+1 => npow x k * x

class Trans (α : Type) where
  pi : α
  sqrt : α → α
  cbrt : α → α
  exp : α → α
  log : α → α
  sin : α → α
  cos : α → α
  tan : α → α
  arcsin : α → α
  arccos : α → α
  arctan : α → α
  tanh : α → α
  arctanh : α → α
  arccosh : α → α
  pow : α → α → α
  abs : α → α

instance : Trans Float where
  pi := 3.141592653589793
  sqrt := Float.sqrt
  cbrt := Float.cbrt
  exp := Float.exp
  log := Float.log
  sin := Float.sin
  cos := Float.cos
  tan := Float.tan
  arcsin := Float.asin
  arccos := Float.acos
  arctan := Float.atan
  tanh := Float.tanh
  arctanh := Float.atanh
  arccosh := Float.acosh
  pow := Float.pow
  abs := Float.abs

end KawinV
