/-
Line-protocol driver loop: one operation per input line, one answer per output line.
Core Lean only (no Mathlib), so that executables importing it link.
-/
import KawinV.Proto
namespace KawinV
open KawinV.Proto

def answer (handlers : List (String → Option (P String))) (line : String) : String :=
  match (line.splitOn " ").filter (· ≠ "") with
  | [] => "err empty"
  | verb :: args =>
    match handlers.findSome? (fun h => h verb) with
    | none => "err unknown-verb"
    | some p =>
      match Proto.run p args with
      | some out => "ok " ++ out
      | none => "err parse"

partial def loop (handlers : List (String → Option (P String))) (h out : IO.FS.Stream) : IO Unit := do
  let line ← h.getLine
  if line.isEmpty then return ()
  let l := (line.dropRightWhile (fun c => c == '\n' || c == '\r'))
  out.putStrLn (answer handlers l)
  loop handlers h out

def runDriver (handlers : List (String → Option (P String))) : IO Unit := do
  let out ← IO.getStdout
  loop handlers (← IO.getStdin) out
  out.flush

end KawinV
