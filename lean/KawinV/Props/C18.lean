/-
C18 — coupled strength and grain-growth models stay physical and aligned.

Theorems about
* `KawinV.Gen.C18`   — scalar strength formulas REGENERATED from kawin/precipitation/coupling/Strength.py
  on every run (mixed / edge / screw contributions, Orowan, line tension),
* `KawinV.Strength`  — hand model of getStrengthContributions / combineStrengthContributions /
  precStrength / totalStrength / updateCoupledModel,
* `KawinV.Grain`     — hand model of GrainGrowth.py (Zener-constrained growth, Normalize, transport
  with zero nucleation on top of `KawinV.PBM`, clock bookkeeping).

Generic parts: α any linearly ordered field (+ the transcendental atoms `Trans α` as opaque
functions; what "θ = 90°/0°" means for the atoms is an explicit hypothesis, discharged over ℝ).
Superposition: ℝ with Mathlib's `rpow`.
-/
import KawinV.Gen.C18Strength
import KawinV.Model.Strength
import KawinV.Model.GrainGrowth
import KawinV.Model.Coupling
import KawinV.Props.C07
import Mathlib.Tactic.Ring
import Mathlib.Tactic.Linarith
import Mathlib.Tactic.FieldSimp
import Mathlib.Tactic.NormNum
import Mathlib.Tactic.Positivity
import Mathlib.Algebra.Order.Field.Basic
import Mathlib.Algebra.BigOperators.Group.Finset.Basic
import Mathlib.Algebra.BigOperators.Intervals
import Mathlib.Algebra.Order.BigOperators.Group.List
import Mathlib.Algebra.Order.BigOperators.Group.Finset
import Mathlib.Analysis.SpecialFunctions.Pow.Real
import Mathlib.Analysis.MeanInequalitiesPow
import Mathlib.Analysis.SpecialFunctions.Trigonometric.Basic
import Mathlib.Analysis.SpecialFunctions.Log.Basic

set_option linter.unusedSectionVars false
set_option linter.unusedVariables false
set_option linter.unusedSimpArgs false
set_option linter.unnecessarySimpa false

namespace KawinV.Props.C18
open KawinV KawinV.Gen.C18 KawinV.Strength KawinV.Grain
open Finset

/-! ## clipping -/
section clipping
variable {α : Type} [Field α] [LinearOrder α] [IsStrictOrderedRing α]

/-- **clipping**: whatever the formula returned (negative, NaN, inf), the clipped value is ≥ 0 -/
theorem clip_nonneg (fin : α → Bool) (x : α) : 0 ≤ clip fin x := by
  unfold clip; split
  · exact le_refl _
  · next h => exact not_lt.mp (fun hx => h (Or.inl hx))

/-- a finite non-negative value passes the clip unchanged -/
theorem clip_eq_self (fin : α → Bool) (x : α) (hx : 0 ≤ x) (hf : fin x = true) : clip fin x = x := by
  unfold clip; rw [if_neg]
  rintro (h | h)
  · exact absurd h (not_lt.mpr hx)
  · simp [hf] at h

/-- a non-finite value (no precipitates: division by a zero spacing, log 0) becomes 0 -/
theorem clip_not_finite (fin : α → Bool) (x : α) (hf : fin x = false) : clip fin x = 0 := by
  unfold clip; simp [hf]

theorem clip_negative (fin : α → Bool) (x : α) (hx : x < 0) : clip fin x = 0 := by
  unfold clip; simp [hx]

theorem clean_nonneg (fin : α → Bool) (x : α) (hx : 0 ≤ x) : 0 ≤ clean fin x := by
  unfold clean; split <;> [exact hx; exact le_refl _]

theorem clean_clip (fin : α → Bool) (x : α) : clean fin (clip fin x) = clip fin x ∨ clean fin (clip fin x) = 0 := by
  unfold clean; split <;> simp

/-- **clipping**: every weak, strong and Orowan contribution handed on by getStrengthContributions
is ≥ 0, for every parameter set, phase selection, radius and spacing -/
theorem contributions_nonneg (fin : α → Bool) (cs : List (Contrib α)) (oroF : α → α → α)
    (r0w : α → α) (r Ls : α) :
    (∀ w ∈ (getContributions fin cs oroF r0w r Ls).weak, 0 ≤ w) ∧
    (∀ w ∈ (getContributions fin cs oroF r0w r Ls).strong, 0 ≤ w) ∧
    0 ≤ (getContributions fin cs oroF r0w r Ls).oro := by
  refine ⟨?_, ?_, clip_nonneg _ _⟩
  · intro w hw
    simp only [getContributions, List.mem_map] at hw
    obtain ⟨c, _, rfl⟩ := hw; exact clip_nonneg _ _
  · intro w hw
    simp only [getContributions, List.mem_map] at hw
    obtain ⟨c, _, rfl⟩ := hw; exact clip_nonneg _ _

/-- the weak and the strong family always have the same members, in the order
Coherency, Modulus, APB, SFE, Interfacial restricted to the active ones -/
theorem contributions_same_family (fin : α → Bool) (cs : List (Contrib α)) (oroF : α → α → α)
    (r0w : α → α) (r Ls : α) :
    (getContributions fin cs oroF r0w r Ls).weak.length = (cs.filter (fun c => c.active)).length ∧
    (getContributions fin cs oroF r0w r Ls).strong.length = (cs.filter (fun c => c.active)).length := by
  simp [getContributions]

/-- phase-specific parameters are used when the mechanism is enabled for the phase, the global
('all') ones otherwise -/
theorem contrib_phase_wins (c : Contrib α) (h : c.phaseOn = true) :
    c.weak = c.weakPhase ∧ c.strong = c.strongPhase := by
  simp [Contrib.weak, Contrib.strong, h]

theorem contrib_global (c : Contrib α) (h : c.phaseOn = false) :
    c.weak = c.weakAll ∧ c.strong = c.strongAll := by
  simp [Contrib.weak, Contrib.strong, h]

/-- **defect D-C18-orowan (before the repair)**: with the Orowan term only cleaned of non-finite
values, a finite negative Orowan value is handed on unchanged … -/
theorem unclipped_orowan_passes_negative (fin : α → Bool) (cs : List (Contrib α)) (oroF : α → α → α)
    (r0w : α → α) (r Ls : α) (hf : fin (oroF r Ls) = true) (hneg : oroF r Ls < 0) :
    (getContributionsUnclipped fin cs oroF r0w r Ls).oro < 0 := by
  simp [getContributionsUnclipped, clean, hf, hneg]

end clipping

/-! ## min rule -/
section minrule
variable {α : Type} [Field α] [LinearOrder α] [IsStrictOrderedRing α]

theorem min3_eq_min (a b c : α) : min3 a b c = min (min a b) c := by
  unfold min3
  simp only
  rcases lt_or_ge b a with h | h
  · rw [if_pos h, min_eq_right h.le]
    rcases lt_or_ge c b with h2 | h2
    · rw [if_pos h2, min_eq_right h2.le]
    · rw [if_neg (not_lt.mpr h2), min_eq_left h2]
  · rw [if_neg (not_lt.mpr h), min_eq_left h]
    rcases lt_or_ge c a with h2 | h2
    · rw [if_pos h2, min_eq_right h2.le]
    · rw [if_neg (not_lt.mpr h2), min_eq_left h2]

/-- **min rule**: precipitate strength of a phase = Taylor factor × the smallest of the weak sum,
the strong sum and the (cleaned) Orowan term -/
theorem combine_strength (fin : α → Bool) (pw : α → α → α) (n M : α) (weak strong : List α) (oro : α) :
    (combine fin pw n M weak strong oro).strength
      = M * min (min (tausum fin pw n weak) (tausum fin pw n strong)) (clean fin oro) := by
  simp [combine, min3_eq_min]

/-- the reported branch values are the ones entering the minimum -/
theorem combine_branches (fin : α → Bool) (pw : α → α → α) (n M : α) (weak strong : List α) (oro : α) :
    (combine fin pw n M weak strong oro).tw = tausum fin pw n weak ∧
    (combine fin pw n M weak strong oro).ts = tausum fin pw n strong ∧
    (combine fin pw n M weak strong oro).oro = clean fin oro := by
  simp [combine]

/-- the comparison flag says exactly "the weak sum is the largest branch" -/
theorem combine_flag (fin : α → Bool) (pw : α → α → α) (n M : α) (weak strong : List α) (oro : α) :
    (combine fin pw n M weak strong oro).weakDominant = true ↔
      tausum fin pw n strong < tausum fin pw n weak ∧ clean fin oro < tausum fin pw n weak := by
  simp [combine]

/-- the strength is at most M × every branch -/
theorem combine_le_branches (fin : α → Bool) (pw : α → α → α) (n M : α) (weak strong : List α) (oro : α)
    (hM : 0 ≤ M) :
    (combine fin pw n M weak strong oro).strength ≤ M * tausum fin pw n weak ∧
    (combine fin pw n M weak strong oro).strength ≤ M * tausum fin pw n strong ∧
    (combine fin pw n M weak strong oro).strength ≤ M * clean fin oro := by
  rw [combine_strength]
  refine ⟨?_, ?_, ?_⟩ <;> apply mul_le_mul_of_nonneg_left _ hM
  · exact le_trans (min_le_left _ _) (min_le_left _ _)
  · exact le_trans (min_le_left _ _) (min_le_right _ _)
  · exact min_le_right _ _

/-- non-negative branches and Taylor factor give a non-negative strength -/
theorem combine_nonneg (fin : α → Bool) (pw : α → α → α) (n M : α) (weak strong : List α) (oro : α)
    (hM : 0 ≤ M) (hw : 0 ≤ tausum fin pw n weak) (hs : 0 ≤ tausum fin pw n strong) (ho : 0 ≤ oro) :
    0 ≤ (combine fin pw n M weak strong oro).strength := by
  rw [combine_strength]
  exact mul_nonneg hM (le_min (le_min hw hs) (clean_nonneg fin oro ho))

/-- one vanishing branch (all others ≥ 0) gives zero strength: in particular no cutting mechanism
enabled (`weak = []`), or a non-finite Orowan term (no precipitates: Ls = 0) -/
theorem combine_zero_of_orowan_zero (fin : α → Bool) (pw : α → α → α) (n M : α) (weak strong : List α) (oro : α)
    (hw : 0 ≤ tausum fin pw n weak) (hs : 0 ≤ tausum fin pw n strong) (ho : clean fin oro = 0) :
    (combine fin pw n M weak strong oro).strength = 0 := by
  rw [combine_strength, ho, min_eq_right (le_min hw hs), mul_zero]

theorem combine_zero_of_no_mechanism (fin : α → Bool) (pw : α → α → α) (n M : α) (oro : α) (ho : 0 ≤ oro) :
    (combine fin pw n M [] [] oro).strength = 0 := by
  rw [combine_strength]
  simp [tausum, clean_nonneg fin oro ho]

/-- **defect D-C18-orowan (before the repair)**: … and then the minimum IS that negative value, so
the "strength" of the phase is negative (and `power(·, 1.8)` of it is NaN in precStrength/totalStrength) -/
theorem unclipped_strength_negative (fin : α → Bool) (pw : α → α → α) (n M : α) (weak strong : List α) (oro : α)
    (hM : 0 < M) (hw : 0 ≤ tausum fin pw n weak) (hs : 0 ≤ tausum fin pw n strong)
    (hf : fin oro = true) (hneg : oro < 0) :
    (combine fin pw n M weak strong oro).strength < 0 := by
  rw [combine_strength]
  have : clean fin oro = oro := by simp [clean, hf]
  rw [this, min_eq_right (le_trans hneg.le (le_min hw hs))]
  exact mul_neg_of_pos_of_neg hM hneg

end minrule

/-! ## superposition over ℝ -/
section superposition

/-- `np.power` on the reals -/
noncomputable def rp (x y : ℝ) : ℝ := x ^ y

theorem sum_rpow_nonneg (n : ℝ) (xs : List ℝ) (h : ∀ a ∈ xs, 0 ≤ a) :
    0 ≤ (xs.map (fun a => rp a n)).sum := by
  apply List.sum_nonneg
  intro x hx
  obtain ⟨a, ha, rfl⟩ := List.mem_map.mp hx
  exact Real.rpow_nonneg (h a ha) n

/-- superposition of non-negative parts is non-negative -/
theorem superpose_nonneg (n : ℝ) (xs : List ℝ) (h : ∀ a ∈ xs, 0 ≤ a) : 0 ≤ superpose rp n xs :=
  Real.rpow_nonneg (sum_rpow_nonneg n xs h) _

theorem rpow_inv_cancel {a n : ℝ} (ha : 0 ≤ a) (hn : 0 < n) : (a ^ n) ^ (1 / n) = a := by
  rw [← Real.rpow_mul ha, mul_one_div_cancel hn.ne', Real.rpow_one]

/-- **superposition ≥ each part**: `(Σ aᵢⁿ)^(1/n) ≥ aⱼ` for non-negative parts and n > 0 -/
theorem superpose_ge_mem (n : ℝ) (hn : 0 < n) (xs : List ℝ) (h : ∀ a ∈ xs, 0 ≤ a) (a : ℝ) (ha : a ∈ xs) :
    a ≤ superpose rp n xs := by
  have h1 : rp a n ≤ (xs.map (fun a => rp a n)).sum := by
    apply List.single_le_sum
    · intro x hx
      obtain ⟨b, hb, rfl⟩ := List.mem_map.mp hx
      exact Real.rpow_nonneg (h b hb) n
    · exact List.mem_map.mpr ⟨a, ha, rfl⟩
  have h2 : (rp a n) ^ (1 / n) ≤ ((xs.map (fun a => rp a n)).sum) ^ (1 / n) :=
    Real.rpow_le_rpow (Real.rpow_nonneg (h a ha) n) h1 (by positivity)
  rw [show rp a n = a ^ n from rfl, rpow_inv_cancel (h a ha) hn] at h2
  exact h2

/-- **superposition is non-decreasing in every part** (all parts raised at once, in particular one) -/
theorem superpose_mono (n : ℝ) (hn : 0 < n) (xs ys : List ℝ)
    (h : List.Forall₂ (fun a b => 0 ≤ a ∧ a ≤ b) xs ys) :
    superpose rp n xs ≤ superpose rp n ys := by
  have hx : ∀ a ∈ xs, 0 ≤ a := by
    intro a ha
    induction h with
    | nil => simp at ha
    | cons hab _ ih =>
      rcases List.mem_cons.mp ha with rfl | h'
      · exact hab.1
      · exact ih h'
  have hs : (xs.map (fun a => rp a n)).sum ≤ (ys.map (fun a => rp a n)).sum := by
    induction h with
    | nil => simp
    | cons hab _ ih =>
      simp only [List.map_cons, List.sum_cons]
      have := Real.rpow_le_rpow hab.1 hab.2 hn.le
      have ih' := ih (fun a ha => hx a (List.mem_cons_of_mem _ ha))
      unfold rp; unfold rp at ih'; linarith
  exact Real.rpow_le_rpow (sum_rpow_nonneg n xs hx) hs (by positivity)

/-- a single part is returned unchanged (one phase: precStrength = that phase's strength) -/
theorem superpose_single (n : ℝ) (hn : 0 < n) (a : ℝ) (ha : 0 ≤ a) : superpose rp n [a] = a := by
  simp only [superpose, List.map_cons, List.map_nil, List.sum_cons, List.sum_nil, add_zero]
  exact rpow_inv_cancel ha hn

/-- all parts zero gives zero -/
theorem superpose_zero (n : ℝ) (hn : 0 < n) (xs : List ℝ) (h : ∀ a ∈ xs, a = 0) : superpose rp n xs = 0 := by
  have : (xs.map (fun a => rp a n)).sum = 0 := by
    apply List.sum_eq_zero
    intro x hx
    obtain ⟨b, hb, rfl⟩ := List.mem_map.mp hx
    rw [h b hb]; exact Real.zero_rpow hn.ne'
  rw [superpose, this]; exact Real.zero_rpow (by positivity)

/-- the weak / strong sums are ≥ 0 whatever `isfinite` says -/
theorem tausum_nonneg (fin : ℝ → Bool) (n : ℝ) (cs : List ℝ) (h : ∀ a ∈ cs, 0 ≤ a) : 0 ≤ tausum fin rp n cs := by
  unfold tausum
  split
  · exact le_refl _
  · exact clean_nonneg fin _ (superpose_nonneg n _ h)

/-- **precipitate strength of a phase is ≥ 0** for every parameter set, radius and spacing
(model of the repaired code, Taylor factor ≥ 0) -/
theorem phaseStrength_nonneg (fin : ℝ → Bool) (n M : ℝ) (hM : 0 ≤ M) (cs : List (Contrib ℝ))
    (oroF : ℝ → ℝ → ℝ) (r0w : ℝ → ℝ) (r Ls : ℝ) :
    0 ≤ (phaseStrength fin rp n M cs oroF r0w r Ls).strength := by
  obtain ⟨hw, hs, ho⟩ := contributions_nonneg fin cs oroF r0w r Ls
  exact combine_nonneg fin rp n M _ _ _ hM (tausum_nonneg fin n _ hw) (tausum_nonneg fin n _ hs) ho

/-- **zero precipitate strength when there are no precipitates**: the Orowan formula divides by the
spacing and takes log(2r/ri); when its value is not finite (r = Ls = 0) the strength is exactly 0 -/
theorem phaseStrength_zero_no_precipitates (fin : ℝ → Bool) (n M : ℝ) (cs : List (Contrib ℝ))
    (oroF : ℝ → ℝ → ℝ) (r0w : ℝ → ℝ) (r Ls : ℝ) (hnf : fin (oroF r Ls) = false) :
    (phaseStrength fin rp n M cs oroF r0w r Ls).strength = 0 := by
  obtain ⟨hw, hs, ho⟩ := contributions_nonneg fin cs oroF r0w r Ls
  apply combine_zero_of_orowan_zero fin rp n M _ _ _ (tausum_nonneg fin n _ hw) (tausum_nonneg fin n _ hs)
  have : (getContributions fin cs oroF r0w r Ls).oro = 0 := by
    simp [getContributions, clip_not_finite fin _ hnf]
  rw [this]; unfold clean; split <;> rfl

/-- sub-core radii (Orowan formula negative): the repaired code gives strength 0, not a negative number -/
theorem phaseStrength_zero_subcore (fin : ℝ → Bool) (n M : ℝ) (cs : List (Contrib ℝ))
    (oroF : ℝ → ℝ → ℝ) (r0w : ℝ → ℝ) (r Ls : ℝ) (hneg : oroF r Ls < 0) :
    (phaseStrength fin rp n M cs oroF r0w r Ls).strength = 0 := by
  obtain ⟨hw, hs, ho⟩ := contributions_nonneg fin cs oroF r0w r Ls
  apply combine_zero_of_orowan_zero fin rp n M _ _ _ (tausum_nonneg fin n _ hw) (tausum_nonneg fin n _ hs)
  have : (getContributions fin cs oroF r0w r Ls).oro = 0 := by
    simp [getContributions, clip_negative fin _ hneg]
  rw [this]; unfold clean; split <;> rfl

/-- **multi-phase precipitate strength ≥ 0**, whichever exponent the weak/strong census selects -/
theorem precRow_nonneg (fin : ℝ → Bool) (nS nM : ℝ) (phases : List (Combined ℝ))
    (h : ∀ c ∈ phases, 0 ≤ c.strength) : 0 ≤ precRow fin rp nS nM phases := by
  unfold precRow
  apply superpose_nonneg
  intro a ha
  obtain ⟨c, hc, rfl⟩ := List.mem_map.mp ha
  exact clean_nonneg fin _ (h c hc)

/-- with finite phase strengths the multi-phase strength is at least every phase's strength -/
theorem precRow_ge_phase (fin : ℝ → Bool) (nS nM : ℝ) (hS : 0 < nS) (hMx : 0 < nM) (phases : List (Combined ℝ))
    (h : ∀ c ∈ phases, 0 ≤ c.strength) (c : Combined ℝ) (hc : c ∈ phases) (hf : fin c.strength = true) :
    c.strength ≤ precRow fin rp nS nM phases := by
  unfold precRow
  have hmem : c.strength ∈ phases.map (fun c => clean fin c.strength) :=
    List.mem_map.mpr ⟨c, hc, by simp [clean, hf]⟩
  have hnn : ∀ a ∈ phases.map (fun c => clean fin c.strength), 0 ≤ a := by
    intro a ha
    obtain ⟨d, hd, rfl⟩ := List.mem_map.mp ha
    exact clean_nonneg fin _ (h d hd)
  simp only
  split
  · exact superpose_ge_mem nS hS _ hnn _ hmem
  · exact superpose_ge_mem nM hMx _ hnn _ hmem

/-- **total strength ≥ each of its parts** (base, solid solution, precipitates; all ≥ 0, n > 0) -/
theorem totalStrength_ge_parts (n : ℝ) (hn : 0 < n) (s0 ss pr : ℝ) (h0 : 0 ≤ s0) (h1 : 0 ≤ ss) (h2 : 0 ≤ pr) :
    s0 ≤ totalStrength rp n s0 ss pr ∧ ss ≤ totalStrength rp n s0 ss pr ∧ pr ≤ totalStrength rp n s0 ss pr := by
  have hnn : ∀ a ∈ [s0, ss, pr], 0 ≤ a := by
    intro a ha; simp at ha; rcases ha with rfl | rfl | rfl <;> assumption
  exact ⟨superpose_ge_mem n hn _ hnn _ (by simp), superpose_ge_mem n hn _ hnn _ (by simp),
         superpose_ge_mem n hn _ hnn _ (by simp)⟩

/-- **total strength is non-decreasing in each part** -/
theorem totalStrength_mono (n : ℝ) (hn : 0 < n) (s0 ss pr s0' ss' pr' : ℝ)
    (h0 : 0 ≤ s0) (h1 : 0 ≤ ss) (h2 : 0 ≤ pr) (l0 : s0 ≤ s0') (l1 : ss ≤ ss') (l2 : pr ≤ pr') :
    totalStrength rp n s0 ss pr ≤ totalStrength rp n s0' ss' pr' := by
  apply superpose_mono n hn
  exact List.Forall₂.cons ⟨h0, l0⟩ (List.Forall₂.cons ⟨h1, l1⟩ (List.Forall₂.cons ⟨h2, l2⟩ List.Forall₂.nil))

theorem totalStrength_nonneg (n s0 ss pr : ℝ) (h0 : 0 ≤ s0) (h1 : 0 ≤ ss) (h2 : 0 ≤ pr) :
    0 ≤ totalStrength rp n s0 ss pr := by
  apply superpose_nonneg
  intro a ha; simp at ha; rcases ha with rfl | rfl | rfl <;> assumption

end superposition

/-! ## edge / screw limits of the traced formulas -/
section limits
variable {α : Type} [Field α] [LinearOrder α] [IsStrictOrderedRing α] [Trans α]
variable (G b nu ri theta psi J eps Gp w1 w2 yAPB s beta V ySFM ySFP bp gamma r Ls r0 : α)

/-- what "θ = 90°" means for the transcendental atoms -/
structure AtEdge (theta : α) : Prop where
  sin_eq : Trans.sin theta = (1 : α)
  cos_eq : Trans.cos theta = (0 : α)
  sin_half_pi : Trans.sin (Trans.pi / (2 : α)) = (1 : α)
  cos_two : Trans.cos ((2 : α) * theta) = Trans.cos ((2 : α) * (Trans.pi / (2 : α)))

/-- what "θ = 0°" means for the atoms (the screw formulas were traced with the concrete values
sin 0 = 0 and cos 0 = 1 computed by NumPy) -/
structure AtScrew (theta : α) : Prop where
  sin_eq : Trans.sin theta = (0 : α)
  cos_eq : Trans.cos theta = (1 : α)
  cos_two : Trans.cos ((2 : α) * theta) = (1 : α)

theorem two_cancel (a t : α) : ((2 : α) * a) / ((2 : α) * t) = a / t :=
  mul_div_mul_left a t two_ne_zero

theorem npow_two (x : α) : npow x 2 = x * x := rfl
theorem npow_three (x : α) : npow x 3 = x * x * x := rfl

/-- line tension: the traced Tcomplex at 90° is the expression used inside every edge formula -/
theorem Tcomplex_edge (h : AtEdge theta) :
    sf_Tcomplex G b nu ri theta psi J eps Gp w1 w2 yAPB s beta V ySFM ySFP bp gamma r Ls r0 = sf_Tcomplex G b nu ri (Trans.pi / (2 : α)) psi J eps Gp w1 w2 yAPB s beta V ySFM ySFP bp gamma r Ls r0 := by
  simp only [sf_Tcomplex, h.sin_eq, h.sin_half_pi]

/-- **modulus, weak, 90°** (|G − Gp| is written |Gp − G| in the edge formula) -/
theorem modulusWeak_edge (h : AtEdge theta) (habs : Trans.abs (G - Gp) = Trans.abs (Gp - G)) :
    sf_modulusWeak G b nu ri theta psi J eps Gp w1 w2 yAPB s beta V ySFM ySFP bp gamma r Ls r0 = sf_modulusWeakEdge G b nu ri theta psi J eps Gp w1 w2 yAPB s beta V ySFM ySFP bp gamma r Ls r0 := by
  simp only [sf_modulusWeak, sf_modulusWeakEdge, h.sin_eq, h.sin_half_pi, habs]

/-- **modulus, weak, 0°** -/
theorem modulusWeak_screw (h : AtScrew theta) (habs : Trans.abs (G - Gp) = Trans.abs (Gp - G)) :
    sf_modulusWeak G b nu ri theta psi J eps Gp w1 w2 yAPB s beta V ySFM ySFP bp gamma r Ls r0 = sf_modulusWeakScrew G b nu ri theta psi J eps Gp w1 w2 yAPB s beta V ySFM ySFP bp gamma r Ls r0 := by
  simp only [sf_modulusWeak, sf_modulusWeakScrew, h.sin_eq, habs, npow_two, mul_zero]

/-- **APB, weak, 90°** -/
theorem APBweak_edge (h : AtEdge theta) :
    sf_APBweak G b nu ri theta psi J eps Gp w1 w2 yAPB s beta V ySFM ySFP bp gamma r Ls r0 = sf_APBweakEdge G b nu ri theta psi J eps Gp w1 w2 yAPB s beta V ySFM ySFP bp gamma r Ls r0 := by
  simp only [sf_APBweak, sf_APBweakEdge, h.sin_eq, h.sin_half_pi, npow_two, mul_assoc (2 : α) yAPB r, two_cancel,
    mul_comm yAPB r]
  ring

/-- **APB, weak, 0°** -/
theorem APBweak_screw (h : AtScrew theta) :
    sf_APBweak G b nu ri theta psi J eps Gp w1 w2 yAPB s beta V ySFM ySFP bp gamma r Ls r0 = sf_APBweakScrew G b nu ri theta psi J eps Gp w1 w2 yAPB s beta V ySFM ySFP bp gamma r Ls r0 := by
  simp only [sf_APBweak, sf_APBweakScrew, h.sin_eq, npow_two, mul_zero, mul_assoc (2 : α) yAPB r, two_cancel,
    mul_comm yAPB r]
  ring

/-- **stacking fault, weak, 90°** (narrow-fault formula) -/
theorem SFEweak_edge (h : AtEdge theta) :
    sf_SFEweak G b nu ri theta psi J eps Gp w1 w2 yAPB s beta V ySFM ySFP bp gamma r Ls r0 = sf_SFEweakNarrowEdge G b nu ri theta psi J eps Gp w1 w2 yAPB s beta V ySFM ySFP bp gamma r Ls r0 := by
  simp only [sf_SFEweak, sf_SFEweakNarrowEdge, h.sin_eq, h.sin_half_pi, h.cos_two,
    mul_assoc (2 : α) (ySFM - ySFP), two_cancel]

/-- **stacking fault, weak, 0°** -/
theorem SFEweak_screw (h : AtScrew theta) :
    sf_SFEweak G b nu ri theta psi J eps Gp w1 w2 yAPB s beta V ySFM ySFP bp gamma r Ls r0 = sf_SFEweakNarrowScrew G b nu ri theta psi J eps Gp w1 w2 yAPB s beta V ySFM ySFP bp gamma r Ls r0 := by
  simp only [sf_SFEweak, sf_SFEweakNarrowScrew, h.sin_eq, h.cos_two, npow_two, mul_zero,
    mul_assoc (2 : α) (ySFM - ySFP), two_cancel]

/-- **stacking fault, strong, 90°**: the edge formula is J × the mixed one (J = 1 by default) -/
theorem SFEstrong_edge (h : AtEdge theta) :
    sf_SFEstrongNarrowEdge G b nu ri theta psi J eps Gp w1 w2 yAPB s beta V ySFM ySFP bp gamma r Ls r0 = J * sf_SFEstrong G b nu ri theta psi J eps Gp w1 w2 yAPB s beta V ySFM ySFP bp gamma r Ls r0 := by
  simp only [sf_SFEstrong, sf_SFEstrongNarrowEdge, h.cos_two]
  ring

/-- **stacking fault, strong, 0°** -/
theorem SFEstrong_screw (h : AtScrew theta) :
    sf_SFEstrongNarrowScrew G b nu ri theta psi J eps Gp w1 w2 yAPB s beta V ySFM ySFP bp gamma r Ls r0 = J * sf_SFEstrong G b nu ri theta psi J eps Gp w1 w2 yAPB s beta V ySFM ySFP bp gamma r Ls r0 := by
  simp only [sf_SFEstrong, sf_SFEstrongNarrowScrew, h.cos_two]
  ring

/-- **interfacial, weak, 90°** -/
theorem interfacialWeak_edge (h : AtEdge theta) :
    sf_interfacialWeak G b nu ri theta psi J eps Gp w1 w2 yAPB s beta V ySFM ySFP bp gamma r Ls r0 = sf_interfacialWeakEdge G b nu ri theta psi J eps Gp w1 w2 yAPB s beta V ySFM ySFP bp gamma r Ls r0 := by
  simp only [sf_interfacialWeak, sf_interfacialWeakEdge, h.sin_eq, h.sin_half_pi,
    mul_assoc (2 : α) gamma b, two_cancel]

/-- **interfacial, weak, 0°** -/
theorem interfacialWeak_screw (h : AtScrew theta) :
    sf_interfacialWeak G b nu ri theta psi J eps Gp w1 w2 yAPB s beta V ySFM ySFP bp gamma r Ls r0 = sf_interfacialWeakScrew G b nu ri theta psi J eps Gp w1 w2 yAPB s beta V ySFM ySFP bp gamma r Ls r0 := by
  simp only [sf_interfacialWeak, sf_interfacialWeakScrew, h.sin_eq, npow_two, mul_zero,
    mul_assoc (2 : α) gamma b, two_cancel]

/-- **interfacial, strong** (independent of the dislocation character) -/
theorem interfacialStrong_any :
    sf_interfacialStrongOld G b nu ri theta psi J eps Gp w1 w2 yAPB s beta V ySFM ySFP bp gamma r Ls r0 = J * sf_interfacialStrong G b nu ri theta psi J eps Gp w1 w2 yAPB s beta V ySFM ySFP bp gamma r Ls r0 := by
  simp only [sf_interfacialStrong, sf_interfacialStrongOld]
  ring

/-- **coherency, strong, 0°**: 2cos² + 2.1352 sin² = 2 -/
theorem coherencyStrong_screw (h : AtScrew theta) :
    sf_coherencyStrongScrew G b nu ri theta psi J eps Gp w1 w2 yAPB s beta V ySFM ySFP bp gamma r Ls r0 = J * sf_coherencyStrong G b nu ri theta psi J eps Gp w1 w2 yAPB s beta V ySFM ySFP bp gamma r Ls r0 := by
  simp only [sf_coherencyStrong, sf_coherencyStrongScrew, h.sin_eq, h.cos_eq, npow_two, mul_zero, mul_one,
    add_zero]
  ring

/-- **coherency, weak, 90°** — reduced form: coefficient 4.1127 (the edge formula has √(592/35) =
4.11270…, equal to 5 digits: see `coherency_weak_edge_coefficient`) -/
theorem coherencyWeak_edge_reduced (h : AtEdge theta) :
    sf_coherencyWeak G b nu ri theta psi J eps Gp w1 w2 yAPB s beta V ySFM ySFP bp gamma r Ls r0 = ((41127 : α) / 10000) / Ls *
      Trans.sqrt (npow G 3 * npow eps 3 * npow r 3 * b / sf_Tcomplex G b nu ri theta psi J eps Gp w1 w2 yAPB s beta V ySFM ySFP bp gamma r Ls r0) := by
  simp only [sf_coherencyWeak, sf_Tcomplex, h.sin_eq, h.cos_eq, npow_two, mul_zero, mul_one, zero_add]

/-- **coherency, weak, 0°** — reduced form: coefficient 1.3416 (the screw formula has √(9/5) = 1.34164…) -/
theorem coherencyWeak_screw_reduced (h : AtScrew theta) :
    sf_coherencyWeak G b nu ri theta psi J eps Gp w1 w2 yAPB s beta V ySFM ySFP bp gamma r Ls r0 = ((1677 : α) / 1250) / Ls *
      Trans.sqrt (npow G 3 * npow eps 3 * npow r 3 * b / sf_Tcomplex G b nu ri theta psi J eps Gp w1 w2 yAPB s beta V ySFM ySFP bp gamma r Ls r0) := by
  simp only [sf_coherencyWeak, sf_Tcomplex, h.sin_eq, h.cos_eq, npow_two, mul_zero, mul_one, add_zero]

/-- **coherency, strong, 90°** — reduced form: coefficient 2.1352 (edge formula: √2·3^(3/8) = 2.13518…) -/
theorem coherencyStrong_edge_reduced (h : AtEdge theta) :
    sf_coherencyStrong G b nu ri theta psi J eps Gp w1 w2 yAPB s beta V ySFM ySFP bp gamma r Ls r0 = ((2669 : α) / 1250) / Ls *
      Trans.pow (npow (sf_Tcomplex G b nu ri theta psi J eps Gp w1 w2 yAPB s beta V ySFM ySFP bp gamma r Ls r0) 3 * G * eps * r / npow b 3) ((1 : α) / 4) := by
  simp only [sf_coherencyStrong, sf_Tcomplex, h.sin_eq, h.cos_eq, npow_two, mul_zero, mul_one, zero_add]

/-- squared form of the 90° coherency-weak agreement: with `√x·√x = x` on the two radicands,
`mixed² · c_edge = edge² · 4.1127²`, where `c_edge` is the double closest to 592/35 -/
theorem coherencyWeak_edge_sq (h : AtEdge theta) (hLs : Ls ≠ 0)
    (hT : sf_Tcomplex G b nu ri theta psi J eps Gp w1 w2 yAPB s beta V ySFM ySFP bp gamma r Ls r0 ≠ 0)
    (hsq : ∀ x : α, 0 ≤ x → Trans.sqrt x * Trans.sqrt x = x)
    (hX : 0 ≤ npow G 3 * npow eps 3 * npow r 3 * b / sf_Tcomplex G b nu ri theta psi J eps Gp w1 w2 yAPB s beta V ySFM ySFP bp gamma r Ls r0) :
    sf_coherencyWeak G b nu ri theta psi J eps Gp w1 w2 yAPB s beta V ySFM ySFP bp gamma r Ls r0 * sf_coherencyWeak G b nu ri theta psi J eps Gp w1 w2 yAPB s beta V ySFM ySFP bp gamma r Ls r0 * ((3382857142857143 : α) / 200000000000000)
      = sf_coherencyWeakEdge G b nu ri theta psi J eps Gp w1 w2 yAPB s beta V ySFM ySFP bp gamma r Ls r0 * sf_coherencyWeakEdge G b nu ri theta psi J eps Gp w1 w2 yAPB s beta V ySFM ySFP bp gamma r Ls r0 * (((41127 : α) / 10000) * ((41127 : α) / 10000)) := by
  rw [coherencyWeak_edge_reduced G b nu ri theta psi J eps Gp w1 w2 yAPB s beta V ySFM ySFP bp gamma r Ls r0 h]
  have hT' := hT
  have hX' := hX
  simp only [sf_Tcomplex, h.sin_eq] at hT' hX'
  have e1 : sf_coherencyWeakEdge G b nu ri theta psi J eps Gp w1 w2 yAPB s beta V ySFM ySFP bp gamma r Ls r0 * sf_coherencyWeakEdge G b nu ri theta psi J eps Gp w1 w2 yAPB s beta V ySFM ySFP bp gamma r Ls r0
      = ((3382857142857143 : α) / 200000000000000) * npow G 3 * b * npow eps 3 * npow r 3 /
        (npow Ls 2 * sf_Tcomplex G b nu ri theta psi J eps Gp w1 w2 yAPB s beta V ySFM ySFP bp gamma r Ls r0) := by
    simp only [sf_coherencyWeakEdge, sf_Tcomplex, h.sin_eq, h.sin_half_pi]
    apply hsq
    have : ((3382857142857143 : α) / 200000000000000) * npow G 3 * b * npow eps 3 * npow r 3 /
        (npow Ls 2 * sf_Tcomplex G b nu ri theta psi J eps Gp w1 w2 yAPB s beta V ySFM ySFP bp gamma r Ls r0)
        = ((3382857142857143 : α) / 200000000000000) / (Ls * Ls) *
          (npow G 3 * npow eps 3 * npow r 3 * b / sf_Tcomplex G b nu ri theta psi J eps Gp w1 w2 yAPB s beta V ySFM ySFP bp gamma r Ls r0) := by
      simp only [npow_two]; field_simp
    simp only [sf_Tcomplex, h.sin_eq] at this
    rw [this]
    exact mul_nonneg (div_nonneg (by norm_num) (mul_self_nonneg Ls)) hX'
  rw [e1]
  have e2 : ∀ c x : α, 0 ≤ x → (c / Ls * Trans.sqrt x) * (c / Ls * Trans.sqrt x) = c * c / (Ls * Ls) * x := by
    intro c x hx
    have := hsq x hx
    calc (c / Ls * Trans.sqrt x) * (c / Ls * Trans.sqrt x)
        = c * c / (Ls * Ls) * (Trans.sqrt x * Trans.sqrt x) := by field_simp
      _ = c * c / (Ls * Ls) * x := by rw [this]
  rw [e2 _ _ hX]
  simp only [npow_two]
  field_simp

/-- the rounded published coefficients agree with the edge / screw closed forms to 5 digits:
4.1127² ≈ 592/35, 1.3416² ≈ 9/5, 2.1352⁸ ≈ (√2·3^(3/8))⁸ = 432 -/
theorem coherency_weak_edge_coefficient :
    |((41127 : ℚ) / 10000) ^ 2 / (592 / 35) - 1| < 1 / 500000 := by norm_num [abs_lt]

theorem coherency_weak_screw_coefficient :
    |((1677 : ℚ) / 1250) ^ 2 / (9 / 5) - 1| < 1 / 10000 := by norm_num [abs_lt]

theorem coherency_strong_edge_coefficient :
    |((2669 : ℚ) / 1250) ^ 8 / 432 - 1| < 1 / 10000 := by norm_num [abs_lt]

/-- **Orowan below the core radius**: with positive parameters the traced Orowan formula has the
sign of log(2r/ri) — negative for 2r < ri (this is the value the unrepaired code handed on) -/
theorem orowan_sign (hJ : 0 < J) (hG : 0 < G) (hb : 0 < b) (hLs : 0 < Ls)
    (hpi : 0 < (Trans.pi : α)) (hsq : 0 < Trans.sqrt ((1 : α) - nu))
    (hlog : Trans.log ((2 : α) * r / ri) < 0) :
    sf_orowan G b nu ri theta psi J eps Gp w1 w2 yAPB s beta V ySFM ySFP bp gamma r Ls r0 < 0 := by
  simp only [sf_orowan]
  apply mul_neg_of_pos_of_neg _ hlog
  exact div_pos (mul_pos (mul_pos hJ hG) hb) (mul_pos (mul_pos (mul_pos two_pos hpi) hsq) hLs)

/-- … and non-negative for 2r ≥ ri (log ≥ 0): in the regular regime the clip changes nothing -/
theorem orowan_nonneg (hJ : 0 < J) (hG : 0 < G) (hb : 0 < b) (hLs : 0 < Ls)
    (hpi : 0 < (Trans.pi : α)) (hsq : 0 < Trans.sqrt ((1 : α) - nu))
    (hlog : 0 ≤ Trans.log ((2 : α) * r / ri)) :
    0 ≤ sf_orowan G b nu ri theta psi J eps Gp w1 w2 yAPB s beta V ySFM ySFP bp gamma r Ls r0 := by
  simp only [sf_orowan]
  apply mul_nonneg _ hlog
  exact (div_pos (mul_pos (mul_pos hJ hG) hb) (mul_pos (mul_pos (mul_pos two_pos hpi) hsq) hLs)).le

end limits

/-! ## the atoms over ℝ (non-vacuity of the hypotheses above) -/
section real

noncomputable instance instTransReal : Trans ℝ where
  pi := Real.pi
  sqrt := Real.sqrt
  cbrt := fun x => if 0 ≤ x then x ^ ((1:ℝ)/3) else -((-x) ^ ((1:ℝ)/3))
  exp := Real.exp
  log := Real.log
  sin := Real.sin
  cos := Real.cos
  tan := Real.tan
  arcsin := fun x => x
  arccos := fun x => x
  arctan := fun x => x
  tanh := fun x => x
  arctanh := fun x => x
  arccosh := fun x => x
  pow := fun x y => x ^ y
  abs := fun x => |x|

theorem real_atEdge : AtEdge (Real.pi / 2 : ℝ) where
  sin_eq := Real.sin_pi_div_two
  cos_eq := Real.cos_pi_div_two
  sin_half_pi := Real.sin_pi_div_two
  cos_two := rfl

theorem real_atScrew : AtScrew (0 : ℝ) where
  sin_eq := Real.sin_zero
  cos_eq := Real.cos_zero
  cos_two := by show Real.cos (2 * 0) = 1; simp

theorem real_abs_symm (a b : ℝ) : (Trans.abs (a - b) : ℝ) = Trans.abs (b - a) := abs_sub_comm a b

theorem real_sqrt_sq (x : ℝ) (hx : 0 ≤ x) : (Trans.sqrt x : ℝ) * Trans.sqrt x = x := Real.mul_self_sqrt hx

/-- **D-C18-orowan over ℝ**: for 0 < 2r < ri and positive material parameters (ν < 1) the Orowan
formula of the code is negative -/
theorem orowan_negative_subcore (G b nu ri theta psi J eps Gp w1 w2 yAPB s beta V ySFM ySFP bp gamma r Ls r0 : ℝ)
    (hJ : 0 < J) (hG : 0 < G) (hb : 0 < b) (hLs : 0 < Ls) (hnu : nu < 1)
    (hr : 0 < r) (hri : 2 * r < ri) :
    sf_orowan G b nu ri theta psi J eps Gp w1 w2 yAPB s beta V ySFM ySFP bp gamma r Ls r0 < 0 := by
  apply orowan_sign G b nu ri theta psi J eps Gp w1 w2 yAPB s beta V ySFM ySFP bp gamma r Ls r0 hJ hG hb hLs Real.pi_pos (Real.sqrt_pos.mpr (by linarith))
  apply Real.log_neg
  · exact div_pos (by linarith) (by linarith)
  · rw [div_lt_one (by linarith)]; exact hri

theorem orowan_nonneg_above_core (G b nu ri theta psi J eps Gp w1 w2 yAPB s beta V ySFM ySFP bp gamma r Ls r0 : ℝ)
    (hJ : 0 < J) (hG : 0 < G) (hb : 0 < b) (hLs : 0 < Ls) (hnu : nu < 1)
    (hri0 : 0 < ri) (hri : ri ≤ 2 * r) :
    0 ≤ sf_orowan G b nu ri theta psi J eps Gp w1 w2 yAPB s beta V ySFM ySFP bp gamma r Ls r0 := by
  apply orowan_nonneg G b nu ri theta psi J eps Gp w1 w2 yAPB s beta V ySFM ySFP bp gamma r Ls r0 hJ hG hb hLs Real.pi_pos (Real.sqrt_pos.mpr (by linarith))
  apply Real.log_nonneg
  rw [one_le_div hri0]; exact hri

end real

/-! ## Zener drag -/
section zener
variable {α : Type} [Field α] [LinearOrder α] [IsStrictOrderedRing α]

/-- `constrained` in terms of the drag `d = α·M·γ·z` -/
theorem constrained_def (alpha M gbe z g : α) :
    constrained alpha M gbe z g =
      (if g + alpha * M * gbe * z < 0 then g + alpha * M * gbe * z
       else if 0 < g - alpha * M * gbe * z then g - alpha * M * gbe * z else 0) := rfl

/-- **Zener drag never reverses a boundary**: the constrained rate is 0 or has the sign of the
unconstrained one -/
theorem constrained_sign (alpha M gbe z g : α) (hd : 0 ≤ alpha * M * gbe * z) :
    constrained alpha M gbe z g = 0 ∨ (0 < constrained alpha M gbe z g ∧ 0 < g) ∨
      (constrained alpha M gbe z g < 0 ∧ g < 0) := by
  rw [constrained_def]
  split
  · next h => right; right; exact ⟨h, by linarith⟩
  · split
    · next h => right; left; exact ⟨h, by linarith⟩
    · left; rfl

/-- **Zener drag never accelerates a boundary** -/
theorem constrained_abs_le (alpha M gbe z g : α) (hd : 0 ≤ alpha * M * gbe * z) :
    |constrained alpha M gbe z g| ≤ |g| := by
  rw [constrained_def]
  split
  · next h =>
    rw [abs_of_neg h, abs_of_neg (by linarith : g < 0)]; linarith
  · split
    · next h =>
      rw [abs_of_pos h, abs_of_pos (by linarith : 0 < g)]; linarith
    · rw [abs_zero]; exact abs_nonneg _

/-- the exact amount: a moving boundary is slowed by exactly the drag -/
theorem constrained_moving (alpha M gbe z g : α) (hd : 0 ≤ alpha * M * gbe * z)
    (h : constrained alpha M gbe z g ≠ 0) :
    |constrained alpha M gbe z g| = |g| - alpha * M * gbe * z := by
  rw [constrained_def] at h ⊢
  split
  · next h1 => rw [abs_of_neg h1, abs_of_neg (by linarith : g < 0)]; ring
  · next h1 =>
    split
    · next h2 => rw [abs_of_pos h2, abs_of_pos (by linarith : 0 < g)]
    · next h2 => rw [if_neg h1, if_neg h2] at h; exact absurd rfl h

/-- **strong enough drag freezes the boundary** -/
theorem constrained_frozen (alpha M gbe z g : α) (h : |g| ≤ alpha * M * gbe * z) :
    constrained alpha M gbe z g = 0 := by
  rw [constrained_def]
  have h1 := neg_abs_le g
  have h2 := le_abs_self g
  rw [if_neg (by linarith), if_neg (by linarith)]

/-- **… and the whole structure when the drag ≥ max |g|** -/
theorem rate_frozen (alpha M gbe z : α) (n : Nat) (psd size bounds : Nat → α)
    (h : ∀ j, j ≤ n → |grainGrowth alpha M gbe n psd size bounds j| ≤ alpha * M * gbe * z) :
    ∀ j, j ≤ n → rate alpha M gbe z n psd size bounds j = 0 :=
  fun j hj => constrained_frozen _ _ _ _ _ (h j hj)

/-- no drag, no change -/
theorem constrained_free (alpha M gbe g : α) : constrained alpha M gbe 0 g = g := by
  rw [constrained_def]
  simp only [mul_zero, add_zero, sub_zero]
  split
  · rfl
  · next h =>
    split
    · rfl
    · next h2 => exact (le_antisymm (not_lt.mp h2) (not_lt.mp h)).symm

/-- more drag, slower boundary (monotone in the drag) -/
theorem constrained_antitone (alpha M gbe z z' g : α) (hd : 0 ≤ alpha * M * gbe * z)
    (hz : alpha * M * gbe * z ≤ alpha * M * gbe * z') :
    |constrained alpha M gbe z' g| ≤ |constrained alpha M gbe z g| := by
  by_cases h0 : constrained alpha M gbe z' g = 0
  · rw [h0, abs_zero]; exact abs_nonneg _
  · have hd' : 0 ≤ alpha * M * gbe * z' := le_trans hd hz
    rw [constrained_moving _ _ _ _ _ hd' h0]
    by_cases h1 : constrained alpha M gbe z g = 0
    · exfalso
      have : |g| ≤ alpha * M * gbe * z := by
        by_contra hc
        have hc := not_le.mp hc
        rw [constrained_def] at h1
        rcases le_or_gt 0 g with hg | hg
        · rw [abs_of_nonneg hg] at hc
          rw [if_neg (by linarith), if_pos (by linarith)] at h1; linarith
        · rw [abs_of_neg hg] at hc
          rw [if_pos (by linarith)] at h1; linarith
      exact h0 (constrained_frozen _ _ _ _ _ (le_trans this hz))
    · rw [constrained_moving _ _ _ _ _ hd h1]; linarith

end zener

/-! ## grain volume and number -/
section grain
variable {α : Type} [Field α] [LinearOrder α] [IsStrictOrderedRing α]

theorem foldl_add_range (n : Nat) (f : Nat → α) (a : α) :
    (List.range n).foldl (fun s i => s + f i) a = a + ∑ i ∈ range n, f i := by
  induction n with
  | zero => simp
  | succ k ih => rw [List.range_succ, List.foldl_append, ih, Finset.sum_range_succ]; simp [add_assoc]

theorem sumTo_eq_sum (n : Nat) (f : Nat → α) : sumTo n f = ∑ i ∈ range n, f i := by
  unfold sumTo; rw [foldl_add_range]; simp

theorem moment_eq_sum (k n : Nat) (psd size : Nat → α) :
    moment k n psd size = ∑ i ∈ range n, psd i * npow (size i) k := sumTo_eq_sum _ _

/-- moments are linear in the distribution -/
theorem moment_scale (k n : Nat) (psd size : Nat → α) (c : α) :
    moment k n (fun i => psd i * c) size = moment k n psd size * c := by
  rw [moment_eq_sum, moment_eq_sum, Finset.sum_mul]
  apply Finset.sum_congr rfl; intro i _; ring

/-- **grain volume**: after Normalize the third moment is exactly 1 (non-empty distribution) -/
theorem normalize_third_moment (n : Nat) (psd size : Nat → α) (h : moment 3 n psd size ≠ 0) :
    moment 3 n (Grain.normalize n psd size) size = 1 := by
  unfold Grain.normalize
  rw [moment_scale]; field_simp

/-- Normalize rescales every moment by the same factor … -/
theorem normalize_moment (k n : Nat) (psd size : Nat → α) :
    moment k n (Grain.normalize n psd size) size = moment k n psd size * (1 / moment 3 n psd size) := by
  unfold Grain.normalize; rw [moment_scale]

/-- … so the mean grain size Rm = cbrt(M3/M0) does not change under Normalize -/
theorem normalize_mean_size_ratio (n : Nat) (psd size : Nat → α) (h : moment 3 n psd size ≠ 0) :
    moment 3 n (Grain.normalize n psd size) size / moment 0 n (Grain.normalize n psd size) size
      = moment 3 n psd size / moment 0 n psd size := by
  rw [normalize_moment, normalize_moment]
  by_cases h0 : moment 0 n psd size = 0
  · simp [h0]
  · field_simp

theorem normalize_rm [Trans α] (n : Nat) (psd size : Nat → α) (h : moment 3 n psd size ≠ 0) :
    rm n (Grain.normalize n psd size) size = rm n psd size := by
  unfold rm; rw [normalize_mean_size_ratio n psd size h]

/-- Normalize keeps a non-negative distribution non-negative when the volume is positive -/
theorem normalize_nonneg (n : Nat) (psd size : Nat → α) (h : 0 < moment 3 n psd size)
    (hp : ∀ i, 0 ≤ psd i) (i : Nat) : 0 ≤ Grain.normalize n psd size i := by
  unfold Grain.normalize; exact mul_nonneg (hp i) (by positivity)

/-- the number of grains is the zeroth moment -/
theorem moment_zero (n : Nat) (psd size : Nat → α) : moment 0 n psd size = ∑ i ∈ range n, psd i := by
  rw [moment_eq_sum]; apply Finset.sum_congr rfl; intro i _; simp [npow]

/-- **transport does not create grains**: with zero nucleation the rate of change of the number
of grains is what leaves through the two ends of the grid, which is ≤ 0 (C07 budget + one-sided
ends), for ANY growth field — pinned or not -/
theorem transport_number_nonincreasing (n : Nat) (hn : 0 < n) (growth psd bounds : Nat → α)
    (hpsd : ∀ i, 0 ≤ psd i) (hb : ∀ i, bounds i < bounds (i+1)) (hb0 : 0 < bounds 0) :
    ∑ i ∈ range n, Grain.dXdt n growth psd bounds i ≤ 0 := by
  unfold Grain.dXdt
  simp only
  have hk : PBM.nucIndex n bounds 0 < n := by
    unfold PBM.nucIndex; simp [hb0, hn]
  rw [KawinV.Props.C07.budget n _ _ hk 0]
  have hdR : ∀ i, 0 < (fun i => bounds (i+1) - bounds i) i := fun i => sub_pos.mpr (hb i)
  have h0 := KawinV.Props.C07.netFlux_zero_nonpos n growth psd _ hpsd hdR
  have h1 := KawinV.Props.C07.netFlux_last_nonneg n growth psd _ hpsd hdR
  linarith

/-- the same after the step-size correction of the face fluxes (correctdXdt) -/
theorem corrected_number_nonincreasing (n : Nat) (hn : 0 < n) (dt : α) (hdt : 0 < dt)
    (growth psd bounds : Nat → α)
    (hpsd : ∀ i, 0 ≤ psd i) (hb : ∀ i, bounds i < bounds (i+1)) (hb0 : 0 < bounds 0) :
    ∑ i ∈ range n, PBM.dXdt (PBM.correctedFlux n dt psd
        (PBM.netFlux n growth psd (fun i => bounds (i+1) - bounds i))) (PBM.nucIndex n bounds 0) 0 i ≤ 0 := by
  have hk : PBM.nucIndex n bounds 0 < n := by
    unfold PBM.nucIndex; simp [hb0, hn]
  rw [KawinV.Props.C07.budget n _ _ hk 0]
  have hdR : ∀ i, 0 < (fun i => bounds (i+1) - bounds i) i := fun i => sub_pos.mpr (hb i)
  have h0 := KawinV.Props.C07.corrected_zero_nonpos n dt psd _ hdt hpsd
    (KawinV.Props.C07.netFlux_zero_nonpos n growth psd _ hpsd hdR)
  have h1 := KawinV.Props.C07.corrected_last_nonneg n dt psd _ hdt hpsd
    (KawinV.Props.C07.netFlux_last_nonneg n growth psd _ hpsd hdR)
  linarith

/-- Euler step: the number of grains after the step is at most the number before -/
theorem euler_number_nonincreasing (n : Nat) (dt : α) (hdt : 0 ≤ dt) (psd d : Nat → α)
    (hd : ∑ i ∈ range n, d i ≤ 0) :
    ∑ i ∈ range n, (psd i + dt * d i) ≤ ∑ i ∈ range n, psd i := by
  rw [Finset.sum_add_distrib, ← Finset.mul_sum]
  nlinarith [mul_nonneg hdt (neg_nonneg.mpr hd)]

/-- **truncation does not create grains**: emptying the classes below one grain per volume -/
theorem truncate_number_nonincreasing (n : Nat) (psd : Nat → α) (hpsd : ∀ i, 0 ≤ psd i) :
    ∑ i ∈ range n, truncate psd i ≤ ∑ i ∈ range n, psd i := by
  apply Finset.sum_le_sum
  intro i _
  unfold truncate; split <;> [exact hpsd i; exact le_refl _]

theorem truncate_nonneg (psd : Nat → α) (hpsd : ∀ i, 0 ≤ psd i) (i : Nat) : 0 ≤ truncate psd i := by
  unfold truncate; split <;> [exact le_refl _; exact hpsd i]

/-- **mean grain size, what is provable**: write N, N' for the number of grains before / after a
step and V' for the grain volume after the step and before Normalize (the volume before is 1).
N' ≤ N (theorems above) gives  Rm'³ = V'/N' ≥ V' · (1/N) = V' · Rm³ : the mean size can decrease
only by the volume the upwind step loses; with V' = 1 it cannot decrease.  (V' = 1 holds only
approximately for the upwind scheme, so plain monotonicity stays a monitored clause.) -/
theorem mean_size_lower_bound (N N' V' : α) (hN' : 0 < N') (hle : N' ≤ N) (hV : 0 ≤ V') :
    V' * (1 / N) ≤ V' / N' := by
  have hN : 0 < N := lt_of_lt_of_le hN' hle
  rw [div_eq_mul_one_div V' N']
  exact mul_le_mul_of_nonneg_left (one_div_le_one_div_of_le hN' hle) hV

theorem mean_size_monotone_if_volume_conserved (N N' : α) (hN' : 0 < N') (hle : N' ≤ N) :
    1 / N ≤ 1 / N' := one_div_le_one_div_of_le hN' hle

end grain

/-! ## alignment of the histories -/
section alignment
variable {α : Type} [Zero α]

theorem update_some (P : Nat) (ss0 : α) (h : Hist α) (s : Step α) :
    update P ss0 (some h) s = some ⟨h.rss ++ [s.rssRow], h.ls ++ [s.lsRow], h.ss ++ [s.ss]⟩ := rfl

theorem update_none (P : Nat) (ss0 : α) (s : Step α) :
    update P ss0 none s =
      some ⟨[List.replicate P 0, s.rssRow], [List.replicate P 0, s.lsRow], [ss0, s.ss]⟩ := rfl

theorem runSolve_some (P : Nat) (ss0 : α) (h : Hist α) (steps : List (Step α)) :
    runSolve P ss0 (some h) steps =
      some ⟨h.rss ++ steps.map (·.rssRow), h.ls ++ steps.map (·.lsRow), h.ss ++ steps.map (·.ss)⟩ := by
  induction steps generalizing h with
  | nil => simp [runSolve]
  | cons s rest ih =>
    have : runSolve P ss0 (some h) (s :: rest) = runSolve P ss0 (update P ss0 (some h) s) rest := rfl
    rw [this, update_some, ih]; simp

/-- **one row per host step plus the initial row**: after the host steps `s₁ … s_k` (k ≥ 1) the
three histories are exactly `initial :: [row of s₁, …, row of s_k]` -/
theorem runSolve_none (P : Nat) (ss0 : α) (s : Step α) (rest : List (Step α)) :
    runSolve P ss0 none (s :: rest) =
      some ⟨List.replicate P 0 :: (s :: rest).map (·.rssRow), List.replicate P 0 :: (s :: rest).map (·.lsRow),
            ss0 :: (s :: rest).map (·.ss)⟩ := by
  have : runSolve P ss0 none (s :: rest) = runSolve P ss0 (update P ss0 none s) rest := rfl
  rw [this, update_none, runSolve_some]; simp

/-- splitting the run into solve calls changes nothing: the histories only see the host steps -/
theorem runSolves_flatten (P : Nat) (ss0 : α) (h : Option (Hist α)) (solves : List (List (Step α))) :
    runSolves P ss0 h solves = runSolve P ss0 h solves.flatten := by
  unfold runSolves runSolve
  rw [List.foldl_flatten]

/-- **alignment over any number of solve calls**: the strength history has (number of host steps
so far) + 1 rows — as many as the host's own history — or none before the first step -/
theorem history_length (P : Nat) (ss0 : α) (solves : List (List (Step α))) :
    histLen (runSolves P ss0 none solves) =
      if (solves.map List.length).sum = 0 then 0 else (solves.map List.length).sum + 1 := by
  rw [runSolves_flatten, ← List.length_flatten]
  cases hfl : solves.flatten with
  | nil => simp [runSolve, histLen]
  | cons s rest => rw [runSolve_none]; simp [histLen]

/-- the three histories always have the same length -/
theorem history_aligned (P : Nat) (ss0 : α) (solves : List (List (Step α))) (h : Hist α)
    (hh : runSolves P ss0 none solves = some h) :
    h.rss.length = h.ls.length ∧ h.ls.length = h.ss.length := by
  rw [runSolves_flatten] at hh
  cases hfl : solves.flatten with
  | nil => rw [hfl] at hh; simp [runSolve] at hh
  | cons s rest =>
    rw [hfl, runSolve_none] at hh
    cases hh; simp

/-- row k+1 is the row handed over by host step k+1 (no shift, no overwrite) -/
theorem history_row (P : Nat) (ss0 : α) (s : Step α) (rest : List (Step α)) (h : Hist α)
    (hh : runSolve P ss0 none (s :: rest) = some h) (k : Nat) (hk : k < (s :: rest).length) :
    h.rss[k+1]? = some ((s :: rest)[k]).rssRow ∧ h.ls[k+1]? = some ((s :: rest)[k]).lsRow ∧
    h.ss[k+1]? = some ((s :: rest)[k]).ss := by
  rw [runSolve_none] at hh
  cases hh
  refine ⟨?_, ?_, ?_⟩ <;>
    simp only [List.getElem?_cons_succ, List.getElem?_map, List.getElem?_eq_getElem hk, Option.map_some]

end alignment

section clock
variable {α : Type} [Field α] [LinearOrder α] [IsStrictOrderedRing α]

/-- **grain-growth clock**: after every host step the clock has advanced by the host time elapsed
since the first coupled step … -/
theorem clockRun_eq (c t0 : α) (ts : List α) :
    clockRun c (t0 :: ts) = ts.map (fun t => c + (t - t0)) := by
  induction ts generalizing c t0 with
  | nil => rfl
  | cons t1 rest ih =>
    have : clockRun c (t0 :: t1 :: rest) = clockStep c t0 t1 :: clockRun (clockStep c t0 t1) (t1 :: rest) := rfl
    rw [this, ih]
    simp only [List.map_cons, clockStep]
    congr 1
    apply List.map_congr_left
    intro t _; ring

/-- … so a clock that starts at the host's initial time equals the host clock after every host step
(both start at 0 in kawin), over any number of solve calls (the list of host times does not know
about solve calls) -/
theorem clock_eq_host (t0 : α) (ts : List α) : clockRun t0 (t0 :: ts) = ts := by
  rw [clockRun_eq]
  conv_rhs => rw [← List.map_id ts]
  apply List.map_congr_left
  intro t _; simp

/-- one clock entry per host step -/
theorem clock_length (c t0 : α) (ts : List α) : (clockRun c (t0 :: ts)).length = ts.length := by
  rw [clockRun_eq]; simp

/-- the clock is the sum of the host steps -/
theorem clockStep_sum (c t0 t1 t2 : α) : clockStep (clockStep c t0 t1) t1 t2 = c + ((t1 - t0) + (t2 - t1)) := by
  unfold clockStep; ring

end clock

/-! ## the coupling list of the host (GenericModel.addCouplingModel / clearCouplingModels / updateCoupledModels) -/
section coupling
open KawinV.Coupling

/-- **attaching never detaches**: every model that was attached is still attached -/
theorem attach_mem (l : List Mdl) (m m' : Mdl) (h : m' ∈ l) : m' ∈ attach l m := by
  simp [Coupling.attach, h]

/-- … and never reorders or alters: the old list is the prefix of the new one, the new model is last -/
theorem attach_prefix (l : List Mdl) (m : Mdl) :
    (attach l m).take l.length = l ∧ (attach l m).getLast? = some m ∧ (attach l m).length = l.length + 1 := by
  simp [Coupling.attach]

theorem attach_count_other (l : List Mdl) (m m' : Mdl) (h : m ≠ m') : (attach l m).count m' = l.count m' := by
  simp [Coupling.attach, List.count_append, List.count_singleton, h]

theorem step_updates (l : List Mdl) (a : Nat) (m : Mdl) :
    ((l.map (fun x => (a, x))).filter (fun e => e.2 = m)).map (·.1) = List.replicate (l.count m) a := by
  induction l with
  | nil => simp
  | cons x l ih =>
    by_cases h : x = m
    · subst h; simp [List.replicate_succ, ih]
    · simp [h, ih]

theorem updatesOf_run (s : St) (ops : List Op) (m : Mdl) :
    updatesOf (run attach s ops) m = updatesOf s m ++ expectedIdx m (s.models.count m) s.n ops := by
  induction ops generalizing s with
  | nil => simp [run, expectedIdx]
  | cons o r ih =>
    have hr : run attach s (o :: r) = run attach (applyOp attach s o) r := rfl
    rw [hr, ih]
    cases o with
    | attach m' =>
      by_cases h : m' = m
      · subst h; simp [applyOp, expectedIdx, updatesOf, Coupling.attach]
      · simp [applyOp, expectedIdx, updatesOf, Coupling.attach, h]
    | clear => simp [applyOp, expectedIdx, updatesOf]
    | step =>
      simp only [applyOp, expectedIdx, updatesOf, List.filter_append, List.map_append, List.append_assoc]
      rw [step_updates]


theorem countSteps_cons_step (r : List Op) : countSteps (Op.step :: r) = countSteps r + 1 := by
  simp [countSteps]
theorem countSteps_cons_attach (m : Mdl) (r : List Op) : countSteps (Op.attach m :: r) = countSteps r := by
  simp [countSteps]
theorem countSteps_cons_clear (r : List Op) : countSteps (Op.clear :: r) = countSteps r := by
  simp [countSteps]

theorem expectedIdx_not_attached (m : Mdl) (n : Nat) (pre rest : List Op) (h : Op.attach m ∉ pre) :
    expectedIdx m 0 n (pre ++ rest) = expectedIdx m 0 (n + countSteps pre) rest := by
  induction pre generalizing n with
  | nil => simp [countSteps]
  | cons o r ih =>
    have hr : Op.attach m ∉ r := fun hh => h (List.mem_cons_of_mem _ hh)
    cases o with
    | attach m' =>
      have hne : m' ≠ m := fun e => h (by simp [e])
      simp only [List.cons_append, expectedIdx, if_neg hne, countSteps_cons_attach]
      exact ih n hr
    | clear =>
      simp only [List.cons_append, expectedIdx, countSteps_cons_clear]
      exact ih n hr
    | step =>
      simp only [List.cons_append, expectedIdx, countSteps_cons_step, List.replicate_zero, List.nil_append]
      rw [ih (n + 1) hr]; congr 1; omega

theorem expectedIdx_attached (m : Mdl) (n : Nat) (post : List Op) (h : Op.attach m ∉ post) (hc : Op.clear ∉ post) :
    expectedIdx m 1 n post = List.range' (n + 1) (countSteps post) := by
  induction post generalizing n with
  | nil => simp [countSteps, expectedIdx]
  | cons o r ih =>
    have hr : Op.attach m ∉ r := fun hh => h (List.mem_cons_of_mem _ hh)
    have hcr : Op.clear ∉ r := fun hh => hc (List.mem_cons_of_mem _ hh)
    cases o with
    | attach m' =>
      have hne : m' ≠ m := fun e => h (by simp [e])
      simp only [expectedIdx, if_neg hne, countSteps_cons_attach]
      exact ih n hr hcr
    | clear => exact absurd (List.mem_cons_self) hc
    | step =>
      simp only [expectedIdx, countSteps_cons_step]
      rw [ih (n + 1) hr hcr, List.range'_succ]; simp

theorem run_append (att : List Mdl → Mdl → List Mdl) (s : St) (a b : List Op) :
    run att s (a ++ b) = run att (run att s a) b := by simp [run, List.foldl_append]

theorem attached_updated_every_step (pre post : List Op) (m : Mdl)
    (hpre : Op.attach m ∉ pre) (hpost : Op.attach m ∉ post) (hclear : Op.clear ∉ post) :
    updatesOf (run attach init (pre ++ Op.attach m :: post)) m
      = List.range' (countSteps pre + 1) (countSteps post) := by
  rw [updatesOf_run]
  have h0 : updatesOf init m = [] := rfl
  have h1 : List.count m init.models = 0 := rfl
  have h2 : init.n = 0 := rfl
  rw [h0, h1, h2, List.nil_append, expectedIdx_not_attached m _ pre _ hpre]
  simp only [expectedIdx, if_true, Nat.zero_add]
  exact expectedIdx_attached m _ post hpost hclear

/-- **every attached model is updated exactly once per host step since its attachment** (count form):
whatever else is attached, cleared or attached later -/
theorem attached_updates_count (pre post : List Op) (m : Mdl)
    (hpre : Op.attach m ∉ pre) (hpost : Op.attach m ∉ post) (hclear : Op.clear ∉ post) :
    updates (run attach init (pre ++ Op.attach m :: post)) m = countSteps post := by
  unfold updates
  rw [attached_updated_every_step pre post m hpre hpost hclear]; simp

/-- a model that was never attached is never updated -/
theorem never_attached_never_updated (ops : List Op) (m : Mdl) (h : Op.attach m ∉ ops) :
    updatesOf (run attach init ops) m = [] := by
  rw [updatesOf_run]
  have h0 : updatesOf init m = [] := rfl
  have h1 : List.count m init.models = 0 := rfl
  have hx := expectedIdx_not_attached m init.n ops [] h
  rw [List.append_nil] at hx
  rw [h0, h1, hx]; simp [expectedIdx]

/-- **attaching a model never alters another**: the update calls any OTHER model receives are the same
with and without the attach operation, wherever it sits in the history -/
theorem attach_does_not_alter_others (s : St) (pre post : List Op) (m m' : Mdl) (h : m ≠ m') :
    updatesOf (run attach s (pre ++ Op.attach m :: post)) m' = updatesOf (run attach s (pre ++ post)) m' := by
  rw [run_append, run_append]
  have hr : run attach (run attach s pre) (Op.attach m :: post)
      = run attach (applyOp attach (run attach s pre) (Op.attach m)) post := rfl
  rw [hr, updatesOf_run, updatesOf_run]
  simp only [applyOp, updatesOf, attach_count_other _ _ _ h]

/-- after `clearCouplingModels` nobody is updated until attached again -/
theorem cleared_not_updated (s : St) (post : List Op) (m : Mdl) (hpost : Op.attach m ∉ post) :
    updatesOf (run attach s (Op.clear :: post)) m = updatesOf s m := by
  have hr : run attach s (Op.clear :: post) = run attach (applyOp attach s Op.clear) post := rfl
  rw [hr, updatesOf_run]
  have hx := expectedIdx_not_attached m s.n post [] hpost
  rw [List.append_nil] at hx
  simp only [applyOp, List.count_nil]
  rw [hx]; simp [expectedIdx, updatesOf]

/-! the variant that de-duplicates by class -/

/-- `attachDedup` drops every other attached model of the new model's class … -/
theorem attachDedup_drops (l : List Mdl) (m m' : Mdl) (hc : m'.cls = m.cls) (hne : m' ≠ m) :
    m' ∉ attachDedup l m := by
  simp [attachDedup, hc, hne]

/-- … so it does not preserve membership (two parameter sets of one class on one host) -/
theorem attachDedup_not_preserving : ∃ (l : List Mdl) (m m' : Mdl), m' ∈ l ∧ m' ∉ attachDedup l m :=
  ⟨[⟨0, 7⟩], ⟨1, 7⟩, ⟨0, 7⟩, by simp, by decide⟩

/-- witness: two models of one class, two host steps: the first is never updated with the
de-duplicating attach, twice (host indices 1, 2) with kawin's attach; a model of another class is
not affected -/
theorem dedup_detaches_first_of_same_class :
    updatesOf (run attachDedup init [.attach ⟨0, 7⟩, .attach ⟨2, 5⟩, .attach ⟨1, 7⟩, .step, .step]) ⟨0, 7⟩ = [] ∧
    updatesOf (run attach init [.attach ⟨0, 7⟩, .attach ⟨2, 5⟩, .attach ⟨1, 7⟩, .step, .step]) ⟨0, 7⟩ = [1, 2] ∧
    updatesOf (run attachDedup init [.attach ⟨0, 7⟩, .attach ⟨2, 5⟩, .attach ⟨1, 7⟩, .step, .step]) ⟨2, 5⟩ = [1, 2] := by
  decide

end coupling

section couplingHistory
open KawinV.Coupling
variable {α : Type} [Zero α]

/-- **strength history of an attached model**: fed with the rows of exactly the host steps at which
it was updated, the history of a StrengthModel attached at any time (fresh: `none`) has one row per
host step since its attachment plus its initial row — independent of the other attached models -/
theorem attached_history_length (P : Nat) (ss0 : α) (rowOf : Nat → Step α) (pre post : List Op) (m : Mdl)
    (hpre : Op.attach m ∉ pre) (hpost : Op.attach m ∉ post) (hclear : Op.clear ∉ post) :
    histLen (runSolve P ss0 none ((updatesOf (run attach init (pre ++ Op.attach m :: post)) m).map rowOf))
      = if countSteps post = 0 then 0 else countSteps post + 1 := by
  rw [attached_updated_every_step pre post m hpre hpost hclear]
  have h := history_length P ss0 [(List.range' (countSteps pre + 1) (countSteps post)).map rowOf]
  simp only [runSolves, List.foldl_cons, List.foldl_nil, List.map_cons, List.map_nil, List.length_map,
    List.length_range', List.sum_cons, List.sum_nil, Nat.add_zero] at h
  exact h

end couplingHistory


/-! ## round 4: histories with `reset()` — the host keeps its coupling models, the grain-growth model returns to the loaded state -/
section hostReset
open KawinV.Coupling

/-- **reset of the host does not detach**: `PrecipitateBase.reset` / `GrainGrowthModel.reset` leave the coupling
list and the calls made so far as they are and rewind the host index -/
theorem reset_keeps_attachments (s : HSt) :
    (applyHOp resetKeep s HOp.reset).models = s.models ∧ (applyHOp resetKeep s HOp.reset).log = s.log ∧
    (applyHOp resetKeep s HOp.reset).n = 0 ∧ (applyHOp resetKeep s HOp.reset).g = s.g := by
  simp [applyHOp, resetKeep]

theorem hstep_updates (l : List Mdl) (a b : Nat) (m : Mdl) :
    ((l.map (fun x => (a, b, x))).filter (fun e => e.2.2 = m)).map (fun e => (e.1, e.2.1))
      = List.replicate (l.count m) (a, b) := by
  induction l with
  | nil => simp
  | cons x l ih =>
    by_cases h : x = m
    · subst h; simp [List.replicate_succ, ih]
    · simp [h, ih]

/-- the log of update calls is the specification, for EVERY history of attach / clear / reset / step -/
theorem hupdatesOf_hrun (s : HSt) (ops : List HOp) (m : Mdl) :
    hupdatesOf (hrun resetKeep s ops) m = hupdatesOf s m ++ hexpected m (s.models.count m) s.g s.n ops := by
  induction ops generalizing s with
  | nil => simp [hrun, hexpected]
  | cons o r ih =>
    have hr : hrun resetKeep s (o :: r) = hrun resetKeep (applyHOp resetKeep s o) r := rfl
    rw [hr, ih]
    cases o with
    | attach m' =>
      by_cases h : m' = m
      · subst h; simp [applyHOp, hexpected, hupdatesOf, Coupling.attach]
      · simp [applyHOp, hexpected, hupdatesOf, Coupling.attach, h]
    | clear => simp [applyHOp, hexpected, hupdatesOf]
    | reset => simp [applyHOp, hexpected, hupdatesOf, resetKeep]
    | step =>
      simp only [applyHOp, hexpected, hupdatesOf, List.filter_append, List.map_append, List.append_assoc]
      rw [hstep_updates]

theorem countHSteps_cons_step (r : List HOp) : countHSteps (HOp.step :: r) = countHSteps r + 1 := by
  simp [countHSteps]
theorem countHSteps_cons_attach (m : Mdl) (r : List HOp) : countHSteps (HOp.attach m :: r) = countHSteps r := by
  simp [countHSteps]
theorem countHSteps_cons_clear (r : List HOp) : countHSteps (HOp.clear :: r) = countHSteps r := by
  simp [countHSteps]
theorem countHSteps_cons_reset (r : List HOp) : countHSteps (HOp.reset :: r) = countHSteps r := by
  simp [countHSteps]

theorem hexpected_not_attached (m : Mdl) (g n : Nat) (pre rest : List HOp) (h : HOp.attach m ∉ pre) :
    hexpected m 0 g n (pre ++ rest) = hexpected m 0 (g + countHSteps pre) (hostIdx n pre) rest := by
  induction pre generalizing g n with
  | nil => simp [countHSteps, hostIdx]
  | cons o r ih =>
    have hr : HOp.attach m ∉ r := fun hh => h (List.mem_cons_of_mem _ hh)
    cases o with
    | attach m' =>
      have hne : m' ≠ m := fun e => h (by simp [e])
      simp only [List.cons_append, hexpected, if_neg hne, countHSteps_cons_attach, hostIdx]
      exact ih g n hr
    | clear =>
      simp only [List.cons_append, hexpected, countHSteps_cons_clear, hostIdx]
      exact ih g n hr
    | reset =>
      simp only [List.cons_append, hexpected, countHSteps_cons_reset, hostIdx]
      exact ih g 0 hr
    | step =>
      simp only [List.cons_append, hexpected, countHSteps_cons_step, List.replicate_zero, List.nil_append, hostIdx]
      rw [ih (g + 1) (n + 1) hr]; congr 1; omega

/-- attached once, not cleared afterwards: one update per host step, at consecutive host steps — resets of the
host anywhere in the history do not change that -/
theorem hexpected_attached (m : Mdl) (g n : Nat) (post : List HOp) (h : HOp.attach m ∉ post) (hc : HOp.clear ∉ post) :
    (hexpected m 1 g n post).map (·.1) = List.range' (g + 1) (countHSteps post) := by
  induction post generalizing g n with
  | nil => simp [countHSteps, hexpected]
  | cons o r ih =>
    have hr : HOp.attach m ∉ r := fun hh => h (List.mem_cons_of_mem _ hh)
    have hcr : HOp.clear ∉ r := fun hh => hc (List.mem_cons_of_mem _ hh)
    cases o with
    | attach m' =>
      have hne : m' ≠ m := fun e => h (by simp [e])
      simp only [hexpected, if_neg hne, countHSteps_cons_attach]
      exact ih g n hr hcr
    | clear => exact absurd (List.mem_cons_self) hc
    | reset =>
      simp only [hexpected, countHSteps_cons_reset]
      exact ih g 0 hr hcr
    | step =>
      simp only [hexpected, countHSteps_cons_step, List.replicate_one, List.singleton_append, List.map_cons]
      rw [ih (g + 1) (n + 1) hr hcr, List.range'_succ]

theorem hrun_append (rst : List Mdl → List Mdl) (s : HSt) (a b : List HOp) :
    hrun rst s (a ++ b) = hrun rst (hrun rst s a) b := by simp [hrun, List.foldl_append]

/-- **exactly one update per host step over histories**: a model attached once (anything before: other models,
clears, resets, solve calls) and not cleared BY THE USER afterwards is updated exactly once at each of the host
steps after its attachment, in order — however many `reset()` and solve calls of the host follow -/
theorem one_entry_per_step_over_histories (pre post : List HOp) (m : Mdl)
    (hpre : HOp.attach m ∉ pre) (hpost : HOp.attach m ∉ post) (hclear : HOp.clear ∉ post) :
    (hupdatesOf (hrun resetKeep hinit (pre ++ HOp.attach m :: post)) m).map (·.1)
      = List.range' (countHSteps pre + 1) (countHSteps post) := by
  rw [hupdatesOf_hrun]
  have h0 : hupdatesOf hinit m = [] := rfl
  have h1 : List.count m hinit.models = 0 := rfl
  have h2 : hinit.n = 0 := rfl
  have h3 : hinit.g = 0 := rfl
  rw [h0, h1, h2, h3, List.nil_append, hexpected_not_attached m _ _ pre _ hpre]
  simp only [hexpected, if_true, Nat.zero_add]
  exact hexpected_attached m _ _ post hpost hclear

theorem updates_count_over_histories (pre post : List HOp) (m : Mdl)
    (hpre : HOp.attach m ∉ pre) (hpost : HOp.attach m ∉ post) (hclear : HOp.clear ∉ post) :
    (hupdatesOf (hrun resetKeep hinit (pre ++ HOp.attach m :: post)) m).length = countHSteps post := by
  have h := congrArg List.length (one_entry_per_step_over_histories pre post m hpre hpost hclear)
  simpa using h

/-- the model is still attached at the end of such a history -/
theorem attached_stays_attached (s : HSt) (post : List HOp) (m : Mdl) (hm : m ∈ s.models) (hclear : HOp.clear ∉ post) :
    m ∈ (hrun resetKeep s post).models := by
  induction post generalizing s with
  | nil => exact hm
  | cons o r ih =>
    have hcr : HOp.clear ∉ r := fun hh => hclear (List.mem_cons_of_mem _ hh)
    have hr : hrun resetKeep s (o :: r) = hrun resetKeep (applyHOp resetKeep s o) r := rfl
    rw [hr]
    apply ih _ _ hcr
    cases o with
    | attach m' => simp [applyHOp, Coupling.attach, hm]
    | clear => exact absurd (List.mem_cons_self) hclear
    | reset => simpa [applyHOp, resetKeep] using hm
    | step => simpa [applyHOp] using hm

theorem attached_after_resets (pre post : List HOp) (m : Mdl) (hclear : HOp.clear ∉ post) :
    m ∈ (hrun resetKeep hinit (pre ++ HOp.attach m :: post)).models := by
  rw [hrun_append]
  have hr : hrun resetKeep (hrun resetKeep hinit pre) (HOp.attach m :: post)
      = hrun resetKeep (applyHOp resetKeep (hrun resetKeep hinit pre) (HOp.attach m)) post := rfl
  rw [hr]
  exact attached_stays_attached _ post m (by simp [applyHOp, Coupling.attach]) hclear

/-- **strength history over histories**: a StrengthModel (fresh: `none`) fed with the rows of exactly the host
steps at which it was updated has one row per host step since its attachment plus the initial row, over any
number of solve calls and host resets -/
theorem strength_history_over_histories {α : Type} [Zero α] (P : Nat) (ss0 : α) (rowOf : Nat × Nat → Strength.Step α)
    (pre post : List HOp) (m : Mdl)
    (hpre : HOp.attach m ∉ pre) (hpost : HOp.attach m ∉ post) (hclear : HOp.clear ∉ post) :
    histLen (runSolve P ss0 none ((hupdatesOf (hrun resetKeep hinit (pre ++ HOp.attach m :: post)) m).map rowOf))
      = if countHSteps post = 0 then 0 else countHSteps post + 1 := by
  have hl := updates_count_over_histories pre post m hpre hpost hclear
  have h := history_length P ss0 [(hupdatesOf (hrun resetKeep hinit (pre ++ HOp.attach m :: post)) m).map rowOf]
  simp only [runSolves, List.foldl_cons, List.foldl_nil, List.map_cons, List.map_nil, List.length_map,
    List.sum_cons, List.sum_nil, Nat.add_zero, hl] at h
  exact h

theorem ggClock_eq {α : Type} [AddCommMonoid α] (dt : Nat → α) (c : α) (upd : List (Nat × Nat)) :
    ggClock dt c upd = c + ((upd.map (·.1)).map dt).sum := by
  unfold ggClock
  induction upd generalizing c with
  | nil => simp
  | cons e r ih => simp [List.foldl_cons, ih, add_assoc]

/-- **grain-growth clock over histories**: the clock of an attached GrainGrowthModel has advanced by the
durations of exactly the host steps since its attachment = the host time elapsed, over resets of the host -/
theorem grain_clock_over_histories {α : Type} [AddCommMonoid α] (dt : Nat → α) (c : α) (pre post : List HOp) (m : Mdl)
    (hpre : HOp.attach m ∉ pre) (hpost : HOp.attach m ∉ post) (hclear : HOp.clear ∉ post) :
    ggClock dt c (hupdatesOf (hrun resetKeep hinit (pre ++ HOp.attach m :: post)) m)
      = c + ((List.range' (countHSteps pre + 1) (countHSteps post)).map dt).sum := by
  rw [ggClock_eq, one_entry_per_step_over_histories pre post m hpre hpost hclear]

/-- witness: with a reset that detaches, a model attached BEFORE `host.reset()` gets no update at the two host
steps after the reset (kawin's reset: updated at all three steps, host indices 1, 1, 2); its strength history
stays at 2 rows instead of 4 -/
theorem reset_detaching_loses_updates :
    hupdatesOf (hrun resetDetach hinit [.attach ⟨0, 7⟩, .attach ⟨1, 5⟩, .step, .reset, .step, .step]) ⟨0, 7⟩ = [(1, 1)] ∧
    hupdatesOf (hrun resetKeep hinit [.attach ⟨0, 7⟩, .attach ⟨1, 5⟩, .step, .reset, .step, .step]) ⟨0, 7⟩
      = [(1, 1), (2, 1), (3, 2)] ∧
    (hrun resetDetach hinit [.attach ⟨0, 7⟩, .attach ⟨1, 5⟩, .step, .reset, .step, .step]).models = [] := by
  decide

end hostReset

section grainLoad
open KawinV.Coupling
variable {α : Type} [Field α] [LinearOrder α] [IsStrictOrderedRing α]

/-- the backup is only written by the loaders -/
theorem bak_invariant (bf : Bool) (grid : GState α) (s : GG α) (ops : List (GOp α))
    (h : ∀ o ∈ ops, o.isLoad = false) : (runG bf grid s ops).bak = s.bak := by
  induction ops generalizing s with
  | nil => rfl
  | cons o r ih =>
    have hr : runG bf grid s (o :: r) = runG bf grid (applyG bf grid s o) r := rfl
    rw [hr, ih _ (fun o' ho' => h o' (List.mem_cons_of_mem _ ho'))]
    cases o with
    | load raw => have := h _ List.mem_cons_self; simp [GOp.isLoad] at this
    | reset => rfl
    | evolve st t => rfl

theorem runG_append (bf : Bool) (grid : GState α) (s : GG α) (a b : List (GOp α)) :
    runG bf grid s (a ++ b) = runG bf grid (runG bf grid s a) b := by simp [runG, List.foldl_append]

/-- **reset ∘ anything ∘ load = the state right after the load**: whatever solve calls, coupled host steps and
further resets follow a load, `reset()` brings back exactly the distribution and grid the load left (and clock 0) -/
theorem reset_restores_loaded (grid : GState α) (raw : Nat → α) (s : GG α) (mid : List (GOp α))
    (h : ∀ o ∈ mid, o.isLoad = false) :
    (runG false grid (ggLoad false grid raw s) (mid ++ [GOp.reset])).cur = (ggLoad false grid raw s).cur ∧
    (runG false grid (ggLoad false grid raw s) (mid ++ [GOp.reset])).clock = [0] := by
  rw [runG_append]
  have hb := bak_invariant false grid (ggLoad false grid raw s) mid h
  constructor
  · show (ggReset _).cur = _
    simp only [ggReset, hb]; rfl
  · rfl

/-- **a loaded distribution has grain volume 1** (either loader, non-empty raw distribution) -/
theorem loaded_normalised (bf : Bool) (grid : GState α) (raw : Nat → α) (s : GG α)
    (h : moment 3 grid.n raw grid.size ≠ 0) : ggVolume (ggLoad bf grid raw s) = 1 := by
  unfold ggVolume ggLoad
  exact normalize_third_moment grid.n raw grid.size h

/-- … and so has the state after every later `reset()` -/
theorem reset_normalised (grid : GState α) (raw : Nat → α) (s : GG α) (mid : List (GOp α))
    (h : ∀ o ∈ mid, o.isLoad = false) (hv : moment 3 grid.n raw grid.size ≠ 0) :
    ggVolume (runG false grid (ggLoad false grid raw s) (mid ++ [GOp.reset])) = 1 := by
  have hr := (reset_restores_loaded grid raw s mid h).1
  unfold ggVolume at *
  rw [hr]
  exact loaded_normalised false grid raw s hv

/-- the variant that takes the backup before Normalize: reset brings back the RAW distribution … -/
theorem backupFirst_reset_restores_raw (grid : GState α) (raw : Nat → α) (s : GG α) (mid : List (GOp α))
    (h : ∀ o ∈ mid, o.isLoad = false) :
    (runG true grid (ggLoad true grid raw s) (mid ++ [GOp.reset])).cur.psd = raw := by
  rw [runG_append]
  have hb := bak_invariant true grid (ggLoad true grid raw s) mid h
  show (ggReset _).cur.psd = _
  simp only [ggReset, hb]; rfl

/-- … witness: two classes of size 1 holding 2 grains each: volume 1 after the load with either order, after
`reset()` volume 1 with kawin's order and 4 (the raw counts) with the backup taken before Normalize -/
theorem backup_before_normalise_loses_volume :
    let grid : GState ℚ := ⟨2, fun _ => 0, fun i => i, fun _ => 1⟩
    let raw : Nat → ℚ := fun _ => 2
    ggVolume (ggLoad true grid raw (ggInit grid)) = 1 ∧
    ggVolume (runG false grid (ggInit grid) [.load raw, .evolve ⟨2, fun _ => 7, fun i => i, fun _ => 1⟩ 5, .reset]) = 1 ∧
    ggVolume (runG true grid (ggInit grid) [.load raw, .evolve ⟨2, fun _ => 7, fun i => i, fun _ => 1⟩ 5, .reset]) = 4 := by
  refine ⟨?_, ?_, ?_⟩ <;>
    norm_num [ggVolume, runG, applyG, ggLoad, ggReset, ggEvolve, ggInit, Grain.normalize, moment, sumTo, npow, List.range, List.range.loop]

end grainLoad

/-! ## round 5: multi-phase superposition — bounds, one exponent per branch, the mismatched variant -/
section superpositionBounds

theorem maxOf_nonneg (xs : List ℝ) : 0 ≤ maxOf xs := by
  induction xs with
  | nil => exact le_refl _
  | cons a r ih =>
    show 0 ≤ (if maxOf r < a then a else maxOf r)
    split
    · exact le_trans ih (le_of_lt ‹_›)
    · exact ih

/-- `maxOf` is an upper bound of the parts … -/
theorem le_maxOf (xs : List ℝ) (a : ℝ) (ha : a ∈ xs) : a ≤ maxOf xs := by
  induction xs with
  | nil => simp at ha
  | cons b r ih =>
    show a ≤ (if maxOf r < b then b else maxOf r)
    rcases List.mem_cons.mp ha with rfl | h
    · split
      · exact le_refl _
      · exact not_lt.mp ‹_›
    · split
      · exact le_trans (ih h) (le_of_lt ‹_›)
      · exact ih h

/-- … and is one of them (or 0 when every part is ≤ 0 / there is none): it is the strongest part -/
theorem maxOf_mem (xs : List ℝ) : maxOf xs = 0 ∨ maxOf xs ∈ xs := by
  induction xs with
  | nil => exact Or.inl rfl
  | cons b r ih =>
    show (if maxOf r < b then b else maxOf r) = 0 ∨ (if maxOf r < b then b else maxOf r) ∈ b :: r
    split
    · exact Or.inr List.mem_cons_self
    · rcases ih with h | h
      · exact Or.inl h
      · exact Or.inr (List.mem_cons_of_mem _ h)

/-- **superposition ≥ the strongest part** (any exponent n > 0, non-negative parts) -/
theorem superpose_ge_max (n : ℝ) (hn : 0 < n) (xs : List ℝ) (h : ∀ a ∈ xs, 0 ≤ a) :
    maxOf xs ≤ superpose rp n xs := by
  rcases maxOf_mem xs with h0 | hm
  · rw [h0]; exact superpose_nonneg n xs h
  · exact superpose_ge_mem n hn xs h _ hm

theorem sum_rpow_le_rpow_sum (n : ℝ) (hn : 1 ≤ n) (xs : List ℝ) (h : ∀ a ∈ xs, 0 ≤ a) :
    (xs.map (fun a => rp a n)).sum ≤ (xs.sum) ^ n := by
  induction xs with
  | nil => simp [Real.zero_rpow (by linarith : n ≠ 0)]
  | cons a r ih =>
    have ha : 0 ≤ a := h a List.mem_cons_self
    have hr : ∀ b ∈ r, 0 ≤ b := fun b hb => h b (List.mem_cons_of_mem _ hb)
    have hs : 0 ≤ r.sum := List.sum_nonneg hr
    simp only [List.map_cons, List.sum_cons]
    have h1 := Real.add_rpow_le_rpow_add ha hs hn
    have h2 := ih hr
    unfold rp at h2 ⊢
    linarith

/-- **superposition ≤ the plain sum** for exponents n ≥ 1 -/
theorem superpose_le_sum (n : ℝ) (hn : 1 ≤ n) (xs : List ℝ) (h : ∀ a ∈ xs, 0 ≤ a) :
    superpose rp n xs ≤ xs.sum := by
  have hpos : 0 < n := by linarith
  have hs : 0 ≤ xs.sum := List.sum_nonneg h
  have h1 := sum_rpow_le_rpow_sum n hn xs h
  have h2 : ((xs.map (fun a => rp a n)).sum) ^ (1 / n) ≤ ((xs.sum) ^ n) ^ (1 / n) :=
    Real.rpow_le_rpow (sum_rpow_nonneg n xs h) h1 (by positivity)
  rw [rpow_inv_cancel hs hpos] at h2
  exact h2

/-- the one-phase case returns that phase's strength -/
theorem superpose_singleton (n : ℝ) (hn : 0 < n) (a : ℝ) (ha : 0 ≤ a) : superpose rp n [a] = a :=
  superpose_single n hn a ha

/-- raising ONE part (position i) does not lower the superposition -/
theorem superpose_mono_one (n : ℝ) (hn : 0 < n) (pre post : List ℝ) (a b : ℝ)
    (hpre : ∀ x ∈ pre, 0 ≤ x) (hpost : ∀ x ∈ post, 0 ≤ x) (ha : 0 ≤ a) (hab : a ≤ b) :
    superpose rp n (pre ++ a :: post) ≤ superpose rp n (pre ++ b :: post) := by
  apply superpose_mono n hn
  have refl_ : ∀ l : List ℝ, (∀ x ∈ l, 0 ≤ x) → List.Forall₂ (fun a b => 0 ≤ a ∧ a ≤ b) l l := by
    intro l hl
    induction l with
    | nil => exact List.Forall₂.nil
    | cons x r ih =>
      exact List.Forall₂.cons ⟨hl x List.mem_cons_self, le_refl _⟩ (ih (fun y hy => hl y (List.mem_cons_of_mem _ hy)))
  exact List.rel_append (refl_ pre hpre) (List.Forall₂.cons ⟨ha, hab⟩ (refl_ post hpost))

/-- the same exponent for the sum and the root IS the superposition -/
theorem superposeWith_same (pw : ℝ → ℝ → ℝ) (p : ℝ) (xs : List ℝ) : superposeWith pw p p xs = superpose pw p xs := rfl

/-- **the code uses one exponent per branch**: precStrength's row is `precRowWith` with the sum exponent and the
root exponent equal in the same-regime branch and equal in the mixed branch -/
theorem precRowWith_code (fin : ℝ → Bool) (pw : ℝ → ℝ → ℝ) (nS nM : ℝ) (phases : List (Combined ℝ)) :
    precRowWith fin pw nS nS nM nM phases = precRow fin pw nS nM phases := by
  unfold precRowWith precRow sameRegime weakCount
  simp only [superposeWith_same, decide_eq_true_eq]
  split <;> rename_i hc <;> simp [hc]

/-- in every branch the row is a superposition with ONE exponent: `nSame` in the same-regime branch, `nMixed`
in the mixed branch -/
theorem precRow_eq_superpose (fin : ℝ → Bool) (pw : ℝ → ℝ → ℝ) (nS nM : ℝ) (phases : List (Combined ℝ)) :
    precRow fin pw nS nM phases
      = superpose pw (if sameRegime fin phases then nS else nM) (phases.map (fun c => clean fin c.strength)) := by
  unfold precRow sameRegime weakCount
  simp only [decide_eq_true_eq]

theorem cleaned_nonneg (fin : ℝ → Bool) (phases : List (Combined ℝ)) (h : ∀ c ∈ phases, 0 ≤ c.strength) :
    ∀ a ∈ phases.map (fun c => clean fin c.strength), 0 ≤ a := by
  intro a ha
  obtain ⟨d, hd, rfl⟩ := List.mem_map.mp ha
  exact clean_nonneg fin _ (h d hd)

/-- **multi-phase strength ≥ its strongest phase**, in both branches -/
theorem precRow_ge_max (fin : ℝ → Bool) (nS nM : ℝ) (hS : 0 < nS) (hMx : 0 < nM) (phases : List (Combined ℝ))
    (h : ∀ c ∈ phases, 0 ≤ c.strength) :
    maxOf (phases.map (fun c => clean fin c.strength)) ≤ precRow fin rp nS nM phases := by
  rw [precRow_eq_superpose]
  split
  · exact superpose_ge_max nS hS _ (cleaned_nonneg fin phases h)
  · exact superpose_ge_max nM hMx _ (cleaned_nonneg fin phases h)

/-- **multi-phase strength ≤ the plain sum of the phase strengths** (exponents ≥ 1), in both branches -/
theorem precRow_le_sum (fin : ℝ → Bool) (nS nM : ℝ) (hS : 1 ≤ nS) (hMx : 1 ≤ nM) (phases : List (Combined ℝ))
    (h : ∀ c ∈ phases, 0 ≤ c.strength) :
    precRow fin rp nS nM phases ≤ (phases.map (fun c => clean fin c.strength)).sum := by
  rw [precRow_eq_superpose]
  split
  · exact superpose_le_sum nS hS _ (cleaned_nonneg fin phases h)
  · exact superpose_le_sum nM hMx _ (cleaned_nonneg fin phases h)

/-- **one phase**: the row is that phase's strength, whatever its regime flag -/
theorem precRow_one_phase (fin : ℝ → Bool) (nS nM : ℝ) (hS : 0 < nS) (c : Combined ℝ)
    (hc : 0 ≤ c.strength) (hf : fin c.strength = true) : precRow fin rp nS nM [c] = c.strength := by
  rw [precRow_eq_superpose]
  have hsame : sameRegime fin [c] = true := by
    unfold sameRegime weakCount
    by_cases hw : c.weakDominant = true <;> simp [List.filter, hf, hw]
  rw [hsame]
  simp only [if_true, List.map_cons, List.map_nil]
  have : clean fin c.strength = c.strength := by simp [clean, hf]
  rw [this]
  exact superpose_single nS hS _ hc

theorem weakCount_same_flags (fin : ℝ → Bool) (ps qs : List (Combined ℝ))
    (h : List.Forall₂ (fun a b : Combined ℝ => 0 ≤ a.strength ∧ a.strength ≤ b.strength ∧ fin a.strength = true ∧
      fin b.strength = true ∧ a.weakDominant = b.weakDominant) ps qs) : weakCount fin ps = weakCount fin qs := by
  unfold weakCount
  induction h with
  | nil => rfl
  | cons hab _ ih =>
    obtain ⟨_, _, fa, fb, hw⟩ := hab
    simp only [List.filter_cons, fa, fb, hw, Bool.true_and]
    split
    · simp only [List.length_cons, ih]
    · exact ih

theorem cleaned_rel_same_flags (fin : ℝ → Bool) (ps qs : List (Combined ℝ))
    (h : List.Forall₂ (fun a b : Combined ℝ => 0 ≤ a.strength ∧ a.strength ≤ b.strength ∧ fin a.strength = true ∧
      fin b.strength = true ∧ a.weakDominant = b.weakDominant) ps qs) :
    List.Forall₂ (fun a b : ℝ => 0 ≤ a ∧ a ≤ b) (ps.map (fun c => clean fin c.strength))
      (qs.map (fun c => clean fin c.strength)) := by
  induction h with
  | nil => exact List.Forall₂.nil
  | cons hab _ ih =>
    obtain ⟨h0, hle, fa, fb, _⟩ := hab
    simp only [List.map_cons]
    refine List.Forall₂.cons ?_ ih
    simp [clean, fa, fb, h0, hle]

/-- **non-decreasing in each phase strength within a regime**: the phases keep their regime flags (and stay
finite), every strength is raised or kept — the row does not decrease -/
theorem precRow_mono_same_flags (fin : ℝ → Bool) (nS nM : ℝ) (hS : 0 < nS) (hMx : 0 < nM)
    (ps qs : List (Combined ℝ))
    (h : List.Forall₂ (fun a b : Combined ℝ => 0 ≤ a.strength ∧ a.strength ≤ b.strength ∧ fin a.strength = true ∧
      fin b.strength = true ∧ a.weakDominant = b.weakDominant) ps qs) :
    precRow fin rp nS nM ps ≤ precRow fin rp nS nM qs := by
  have hlen : ps.length = qs.length := h.length_eq
  have hcnt : weakCount fin ps = weakCount fin qs := weakCount_same_flags fin ps qs h
  have hreg : sameRegime fin ps = sameRegime fin qs := by
    unfold sameRegime; rw [hcnt, hlen]
  have hrel := cleaned_rel_same_flags fin ps qs h
  rw [precRow_eq_superpose, precRow_eq_superpose, hreg]
  split
  · exact superpose_mono nS hS _ _ hrel
  · exact superpose_mono nM hMx _ _ hrel

theorem four_eq : (4:ℝ) = ((4:ℝ) ^ (2:ℝ)) ^ (1 / (2:ℝ)) := (rpow_inv_cancel (by norm_num) (by norm_num)).symm

/-- witness, mismatched exponents: power sum with exponent 1, root with 1/2 — the parts 3 and 4 combine to
√7 < 4, BELOW the strongest part (with one exponent: ≥ 4 by `superpose_ge_max`) -/
theorem superposeWith_mismatch_below_strongest :
    superposeWith rp 1 2 [3, 4] < maxOf [3, 4] ∧ maxOf ([3, 4] : List ℝ) ≤ superpose rp 1 [3, 4] := by
  have hmax : maxOf ([3, 4] : List ℝ) = 4 := by
    simp only [maxOf, List.foldr_cons, List.foldr_nil]; norm_num
  refine ⟨?_, superpose_ge_max 1 (by norm_num) _ (by intro a ha; simp at ha; rcases ha with rfl | rfl <;> norm_num)⟩
  rw [hmax]
  simp only [superposeWith, rp, List.map_cons, List.map_nil, List.sum_cons, List.sum_nil, add_zero, Real.rpow_one]
  rw [four_eq]
  apply Real.rpow_lt_rpow (by norm_num) _ (by norm_num)
  rw [Real.rpow_two]; norm_num

/-- witness on the row: a weak-dominated phase (3) next to a cutting-governed phase (4), i.e. the mixed branch;
with the root of the mixed branch taken with the same-regime exponent (sum exponent 1, root 1/2) the row is
below its strongest phase, while the code's row (`precRow`) is not -/
theorem precRowWith_mismatch_below_strongest :
    let fin : ℝ → Bool := fun _ => true
    let phases : List (Combined ℝ) := [⟨3, true, 0, 0, 0⟩, ⟨4, false, 0, 0, 0⟩]
    sameRegime fin phases = false ∧ precRowWith fin rp 2 2 1 2 phases < 4 ∧ 4 ≤ precRow fin rp 2 1 phases := by
  intro fin phases
  have hreg : sameRegime fin phases = false := by
    simp [sameRegime, weakCount, phases, fin, List.filter]
  refine ⟨hreg, ?_, ?_⟩
  · unfold precRowWith
    rw [hreg]
    have h := superposeWith_mismatch_below_strongest.1
    have hmax : maxOf ([3, 4] : List ℝ) = 4 := by
      simp only [maxOf, List.foldr_cons, List.foldr_nil]; norm_num
    rw [hmax] at h
    simpa [phases, fin, clean] using h
  · exact precRow_ge_phase fin 2 1 (by norm_num) (by norm_num) phases
      (by intro c hc; simp [phases] at hc; rcases hc with rfl | rfl <;> norm_num) ⟨4, false, 0, 0, 0⟩ (by simp [phases]) rfl

end superpositionBounds

/-! ## round 5: the host step with stopping conditions — the coupled update happens for every recorded row -/
section stopStep
open KawinV.Coupling

/-- the step: whatever the conditions say, the code's hostPostProcess records the row AND updates the coupled models -/
theorem postProcess_updates (stopAt : Nat → Bool) (s : PSt) :
    (hostPostProcess false stopAt s).1 = ⟨s.n + 1, s.upd ++ [s.n + 1]⟩ ∧ (hostPostProcess false stopAt s).2 = stopAt (s.n + 1) := by
  simp [hostPostProcess]

/-- rows and updates are aligned: the update calls happened at exactly the host indices 1 … n -/
def Aligned (s : PSt) : Prop := s.upd = List.range' 1 s.n

theorem aligned_postProcess (stopAt : Nat → Bool) (s : PSt) (h : Aligned s) : Aligned (hostPostProcess false stopAt s).1 := by
  rw [(postProcess_updates stopAt s).1]
  unfold Aligned at h ⊢
  simp only
  rw [h, List.range'_1_concat, Nat.add_comm 1 s.n]

theorem aligned_solveCall (stopAt : Nat → Bool) (fuel : Nat) (s : PSt) (h : Aligned s) :
    Aligned (solveCall false stopAt fuel s) := by
  induction fuel generalizing s with
  | zero => exact h
  | succ k ih =>
    unfold solveCall
    simp only
    split
    · exact aligned_postProcess stopAt s h
    · exact ih _ (aligned_postProcess stopAt s h)

/-- **the final step of a run updates the coupled models**: over any number of solve calls, whatever the stopping
conditions say at whichever step (ended by a condition, ended by time, called again after a condition was met),
`updateCoupledModels` ran at exactly the recorded host rows 1 … n — the step that ends a run included -/
theorem final_step_updates_coupled (stopAt : Nat → Bool) (fuels : List Nat) :
    (solveCalls false stopAt pinit fuels).upd = List.range' 1 (solveCalls false stopAt pinit fuels).n := by
  have hgen : ∀ s : PSt, Aligned s → Aligned (solveCalls false stopAt s fuels) := by
    induction fuels with
    | nil => intro s hs; exact hs
    | cons f r ih =>
      intro s hs
      exact ih _ (aligned_solveCall stopAt f s hs)
  exact hgen pinit rfl

/-- one update per recorded row -/
theorem updates_eq_rows (stopAt : Nat → Bool) (fuels : List Nat) :
    (solveCalls false stopAt pinit fuels).upd.length = (solveCalls false stopAt pinit fuels).n := by
  rw [final_step_updates_coupled]; simp

/-- a step whose conditions are met ends the call — and is recorded: a call on a host whose conditions are
already met is exactly one step -/
theorem solveCall_stops (early : Bool) (stopAt : Nat → Bool) (fuel : Nat) (s : PSt) (h : stopAt (s.n + 1) = true) :
    (solveCall early stopAt (fuel + 1) s).n = s.n + 1 := by
  unfold solveCall
  cases early <;> simp [hostPostProcess, h]

/-- a call never records more steps than the time span allows -/
theorem solveCall_le_fuel (early : Bool) (stopAt : Nat → Bool) (fuel : Nat) (s : PSt) :
    (solveCall early stopAt fuel s).n ≤ s.n + fuel := by
  induction fuel generalizing s with
  | zero => exact le_refl _
  | succ k ih =>
    unfold solveCall
    simp only
    have hn : (hostPostProcess early stopAt s).1.n = s.n + 1 := by
      unfold hostPostProcess; simp only; split <;> rfl
    split
    · rw [hn]; omega
    · have := ih (hostPostProcess early stopAt s).1
      rw [hn] at this; omega

/-- **strength history with stopping conditions**: a StrengthModel attached from the start and fed with the rows of
exactly the host steps at which it was updated has `n + 1` entries for `n` recorded host rows (0 before the first
step), after any number of solve calls however they ended -/
theorem strength_history_with_stopping {α : Type} [Zero α] (P : Nat) (ss0 : α) (rowOf : Nat → Strength.Step α)
    (stopAt : Nat → Bool) (fuels : List Nat) :
    histLen (runSolve P ss0 none ((solveCalls false stopAt pinit fuels).upd.map rowOf))
      = if (solveCalls false stopAt pinit fuels).n = 0 then 0 else (solveCalls false stopAt pinit fuels).n + 1 := by
  have hl := updates_eq_rows stopAt fuels
  have h := history_length P ss0 [(solveCalls false stopAt pinit fuels).upd.map rowOf]
  simp only [runSolves, List.foldl_cons, List.foldl_nil, List.map_cons, List.map_nil, List.length_map,
    List.sum_cons, List.sum_nil, Nat.add_zero, hl] at h
  exact h

/-- **grain clock with stopping conditions**: the clock of a GrainGrowthModel attached from the start is the sum of
the durations of ALL recorded host steps = the host clock -/
theorem grain_clock_with_stopping {α : Type} [AddCommMonoid α] (dt : Nat → α) (c : α) (stopAt : Nat → Bool) (fuels : List Nat) :
    ggClock dt c ((solveCalls false stopAt pinit fuels).upd.map (fun i => (i, i)))
      = c + ((List.range' 1 (solveCalls false stopAt pinit fuels).n).map dt).sum := by
  rw [ggClock_eq, final_step_updates_coupled]
  simp [List.map_map, Function.comp_def]

/-- witness, the early-return variant: three solve calls (2 steps by time; up to 5 steps, ended by the condition
`n ≥ 3` at its first step; one more call) record 4 host rows; the variant updates the coupled models at rows 1, 2
only (strength history 3 entries for 5 host rows, one more missing per later call), the code at all four -/
theorem early_return_skips_final_update :
    (solveCalls true (fun n => decide (3 ≤ n)) pinit [2, 5, 1]).n = 4 ∧
    (solveCalls true (fun n => decide (3 ≤ n)) pinit [2, 5, 1]).upd = [1, 2] ∧
    (solveCalls false (fun n => decide (3 ≤ n)) pinit [2, 5, 1]).n = 4 ∧
    (solveCalls false (fun n => decide (3 ≤ n)) pinit [2, 5, 1]).upd = [1, 2, 3, 4] ∧
    solveTrace true (fun n => decide (3 ≤ n)) pinit [2, 5, 1] = [2, 3, 4] := by
  decide

end stopStep

/-! ### non-vacuity: concrete instances of the hypothesis sets -/

example : clip (fun _ : ℚ => true) (-3) = 0 ∧ clip (fun _ : ℚ => true) 5 = 5 := by
  constructor <;> simp [clip]
example : (combine (fun _ : ℚ => true) (fun x _ => x) 1 2 [3] [4] 1).strength = 2 := by
  simp [combine, tausum, superpose, clean, min3]
  norm_num
example : (combine (fun _ : ℚ => true) (fun x _ => x) 1 2 [3] [4] (-1)).strength = -2 := by
  simp [combine, tausum, superpose, clean, min3]
  norm_num
example : constrained (1:ℚ) 1 1 2 5 = 3 ∧ constrained (1:ℚ) 1 1 2 (-5) = -3 ∧ constrained (1:ℚ) 1 1 2 1 = 0 := by
  refine ⟨?_, ?_, ?_⟩ <;> norm_num [constrained]
example : moment 3 2 (fun _ => (1:ℚ)) (fun i => (i:ℚ) + 1) = 9 := by
  norm_num [moment, sumTo, npow, List.range, List.range.loop]
example : superpose rp 2 [3, 4] = 5 := by
  have h : ((3:ℝ) ^ (2:ℝ) + (4:ℝ) ^ (2:ℝ)) = (5:ℝ) ^ (2:ℝ) := by
    rw [Real.rpow_two, Real.rpow_two, Real.rpow_two]; norm_num
  simp only [superpose, rp, List.map_cons, List.map_nil, List.sum_cons, List.sum_nil, add_zero]
  rw [h, rpow_inv_cancel (by norm_num) (by norm_num)]
example : clockRun (0:ℚ) [0, 1, 3] = [1, 3] := by
  rw [clock_eq_host]
example : histLen (runSolves 1 (0:ℚ) none [[⟨[1], [2], 3⟩], [], [⟨[4], [5], 6⟩, ⟨[7], [8], 9⟩]]) = 4 := by
  rw [history_length]; simp
-- the hypotheses of attached_updated_every_step: a history with other models (same class), a clear BEFORE the attachment and steps
example : Coupling.updatesOf (Coupling.run Coupling.attach Coupling.init
    ([.attach ⟨0, 7⟩, .step, .clear, .step] ++ Coupling.Op.attach ⟨1, 7⟩ :: [.step, .attach ⟨2, 7⟩, .step, .attach ⟨0, 7⟩, .step])) ⟨1, 7⟩
    = [3, 4, 5] := by
  rw [attached_updated_every_step _ _ _ (by decide) (by decide) (by decide)]; decide
example : Coupling.attach [⟨0, 7⟩, ⟨2, 5⟩] ⟨1, 7⟩ = [⟨0, 7⟩, ⟨2, 5⟩, ⟨1, 7⟩] ∧ Coupling.attachDedup [⟨0, 7⟩, ⟨2, 5⟩] ⟨1, 7⟩ = [⟨2, 5⟩, ⟨1, 7⟩] := by
  decide
-- the hypotheses of one_entry_per_step_over_histories: another model and a reset BEFORE the attachment, two resets, an attach of a
-- same-class model and solve calls after it; host steps ever 2, 3, 4, 5
example : (Coupling.hupdatesOf (Coupling.hrun Coupling.resetKeep Coupling.hinit
    ([.attach ⟨0, 7⟩, .step, .reset] ++ Coupling.HOp.attach ⟨1, 7⟩ :: [.step, .reset, .step, .attach ⟨2, 7⟩, .step, .reset, .step])) ⟨1, 7⟩).map (·.1)
    = [2, 3, 4, 5] := by
  rw [one_entry_per_step_over_histories _ _ _ (by decide) (by decide) (by decide)]; decide
example : Coupling.hupdatesOf (Coupling.hrun Coupling.resetKeep Coupling.hinit
    [.attach ⟨0, 7⟩, .step, .reset, .attach ⟨1, 7⟩, .step, .reset, .step, .step]) ⟨1, 7⟩ = [(2, 1), (3, 1), (4, 2)] := by
  decide
-- the hypotheses of reset_restores_loaded / reset_normalised: a history without a second load, a non-empty raw distribution
example : ∀ o ∈ ([.evolve ⟨2, fun _ => 7, fun i => i, fun _ => 1⟩ 5, .reset, .evolve ⟨3, fun _ => 1, fun i => i, fun _ => 2⟩ 9] : List (Coupling.GOp ℚ)),
    o.isLoad = false := by
  intro o ho; simp at ho; rcases ho with h | h | h <;> subst h <;> rfl
example : moment 3 2 (fun _ => (2:ℚ)) (fun _ => 1) ≠ 0 := by
  norm_num [moment, sumTo, npow, List.range, List.range.loop]

-- round 5: hypotheses of superpose_ge_max / superpose_le_sum / precRow_le_sum (non-negative parts, exponent ≥ 1; one part zero = a phase not yet nucleated)
example : (∀ a ∈ ([0, 3, 4] : List ℝ), 0 ≤ a) ∧ (1:ℝ) ≤ 1.4 ∧ maxOf ([0, 3, 4] : List ℝ) = 4 := by
  refine ⟨by intro a ha; simp at ha; rcases ha with rfl | rfl | rfl <;> norm_num, by norm_num, ?_⟩
  simp only [maxOf, List.foldr_cons, List.foldr_nil]; norm_num
-- hypotheses of precRow_mono_same_flags: a mixed-regime row, second phase raised, flags kept
example : List.Forall₂ (fun a b : Combined ℝ => 0 ≤ a.strength ∧ a.strength ≤ b.strength ∧ (fun _ : ℝ => true) a.strength = true ∧
    (fun _ : ℝ => true) b.strength = true ∧ a.weakDominant = b.weakDominant)
    [⟨3, true, 0, 0, 0⟩, ⟨4, false, 0, 0, 0⟩] [⟨3, true, 0, 0, 0⟩, ⟨5, false, 0, 0, 0⟩] := by
  refine List.Forall₂.cons ⟨by norm_num, by norm_num, rfl, rfl, rfl⟩ (List.Forall₂.cons ⟨by norm_num, by norm_num, rfl, rfl, rfl⟩ List.Forall₂.nil)
-- final_step_updates_coupled on a concrete history: ended by time, ended by the condition, called again
example : (Coupling.solveCalls false (fun n => decide (3 ≤ n)) Coupling.pinit [2, 5, 1]).upd = List.range' 1 4 := by
  decide
-- hypothesis of solveCall_stops: the condition is met at the next row
example : (fun n => decide (3 ≤ n)) ((⟨2, [1, 2]⟩ : Coupling.PSt).n + 1) = true := by decide

/-! ## round 6: Zener drag of a host with several precipitate phases (computeZenerRadius) -/
section zenerHost
variable {α : Type} [Field α] [LinearOrder α] [IsStrictOrderedRing α]

theorem foldl_add_eq_sum (l : List α) (a : α) : l.foldl (fun s x => s + x) a = a + l.sum := by
  induction l generalizing a with
  | nil => simp
  | cons x xs ih => simp [List.foldl_cons, ih, add_assoc]

/-- the entry `z[p]` of the code: the term of a phase with precipitates, 0 for a phase without -/
def zEntry (pw : α → α → α) (p : ZPhase α) : α := if p.populated then zenerTerm pw p else 0

theorem zenerDrag_eq_sum (pw : α → α → α) (phases : List (ZPhase α)) :
    zenerDrag pw phases = (phases.map (zEntry pw)).sum := by
  unfold zenerDrag; rw [foldl_add_eq_sum, zero_add]; rfl

theorem zenerSpec_eq_sum (pw : α → α → α) (phases : List (ZPhase α)) :
    zenerSpec pw phases = ((phases.filter (fun p => p.populated)).map (zenerTerm pw)).sum := by
  unfold zenerSpec; rw [foldl_add_eq_sum]; simp

/-- **the drag is the sum over the phases WITH precipitates**: a phase without precipitates (Ravg = 0: not nucleated yet,
or dissolved) is skipped and contributes nothing — for every host (any number of phases, any position of the empty ones) -/
theorem zenerDrag_skips_empty (pw : α → α → α) (phases : List (ZPhase α)) :
    zenerDrag pw phases = zenerSpec pw phases := by
  rw [zenerDrag_eq_sum, zenerSpec_eq_sum]
  induction phases with
  | nil => simp
  | cons p ps ih => by_cases h : p.populated <;> simp [List.filter_cons, h, ih, zEntry]

theorem zenerDrag_append (pw : α → α → α) (a b : List (ZPhase α)) :
    zenerDrag pw (a ++ b) = zenerDrag pw a + zenerDrag pw b := by
  simp [zenerDrag_eq_sum]

/-- an empty phase at ANY position of the host's phase list leaves the drag of the others as it is (it never cancels them) -/
theorem zenerDrag_insert_empty (pw : α → α → α) (a b : List (ZPhase α)) (e : ZPhase α) (he : e.populated = false) :
    zenerDrag pw (a ++ e :: b) = zenerDrag pw (a ++ b) := by
  simp [zenerDrag_eq_sum, zEntry, he]

/-- the drag of a host = the drag of its populated phases alone -/
theorem zenerDrag_filter (pw : α → α → α) (phases : List (ZPhase α)) :
    zenerDrag pw phases = zenerDrag pw (phases.filter (fun p => p.populated)) := by
  rw [zenerDrag_skips_empty, zenerDrag_skips_empty]; simp [zenerSpec, List.filter_filter]

/-- **the drag does not depend on the order of the phases** -/
theorem zenerDrag_perm (pw : α → α → α) {l₁ l₂ : List (ZPhase α)} (h : l₁.Perm l₂) :
    zenerDrag pw l₁ = zenerDrag pw l₂ := by
  rw [zenerDrag_eq_sum, zenerDrag_eq_sum]; exact (h.map _).sum_eq

/-- hosts with the same populated phases (in any order, with any empty phases in between) have the same drag -/
theorem zenerDrag_same_populated (pw : α → α → α) {l₁ l₂ : List (ZPhase α)}
    (h : (l₁.filter (fun p => p.populated)).Perm (l₂.filter (fun p => p.populated))) :
    zenerDrag pw l₁ = zenerDrag pw l₂ := by
  rw [zenerDrag_filter pw l₁, zenerDrag_filter pw l₂]; exact zenerDrag_perm pw h

theorem zEntry_nonneg (pw : α → α → α) (p : ZPhase α) (hf : 0 ≤ pw p.volFrac p.m) (hK : 0 < p.K) : 0 ≤ zEntry pw p := by
  unfold zEntry
  split
  · next h =>
    have hr : 0 < p.ravg := by simpa [ZPhase.populated] using h
    unfold zenerTerm; exact div_nonneg hf (le_of_lt (mul_pos hK hr))
  · exact le_refl _

theorem zenerDrag_nonneg (pw : α → α → α) (phases : List (ZPhase α))
    (h : ∀ p ∈ phases, 0 ≤ pw p.volFrac p.m ∧ 0 < p.K) : 0 ≤ zenerDrag pw phases := by
  rw [zenerDrag_eq_sum]
  apply List.sum_nonneg
  intro x hx
  obtain ⟨p, hp, rfl⟩ := List.mem_map.mp hx
  exact zEntry_nonneg pw p (h p hp).1 (h p hp).2

/-- **the other phases never cancel a pinning phase**: the drag of the host is at least the term of each populated phase -/
theorem zenerDrag_ge_term (pw : α → α → α) (phases : List (ZPhase α))
    (h : ∀ p ∈ phases, 0 ≤ pw p.volFrac p.m ∧ 0 < p.K) (q : ZPhase α) (hq : q ∈ phases) (hpop : q.populated = true) :
    zenerTerm pw q ≤ zenerDrag pw phases := by
  obtain ⟨a, b, rfl⟩ := List.append_of_mem hq
  have ha := zenerDrag_nonneg pw a (fun p hp => h p (by simp [hp]))
  have hb := zenerDrag_nonneg pw b (fun p hp => h p (by simp [hp]))
  have : zenerDrag pw (a ++ q :: b) = zenerDrag pw a + (zenerTerm pw q + zenerDrag pw b) := by
    rw [zenerDrag_append]; congr 1
    have : q :: b = [q] ++ b := rfl
    rw [this, zenerDrag_append]; simp [zenerDrag_eq_sum, zEntry, hpop]
  rw [this]; linarith

/-- **freezing for every host configuration**: when the drag of ONE pinning phase already exceeds the driving force of a
boundary, the boundary does not move — whatever other phases the host has (empty or not) and in whatever order -/
theorem zener_host_frozen (pw : α → α → α) (alpha M gbe g : α) (phases : List (ZPhase α)) (hd : 0 ≤ alpha * M * gbe)
    (h : ∀ p ∈ phases, 0 ≤ pw p.volFrac p.m ∧ 0 < p.K) (q : ZPhase α) (hq : q ∈ phases) (hpop : q.populated = true)
    (hg : |g| ≤ alpha * M * gbe * zenerTerm pw q) :
    constrained alpha M gbe (zenerDrag pw phases) g = 0 :=
  constrained_frozen _ _ _ _ _ (le_trans hg (mul_le_mul_of_nonneg_left (zenerDrag_ge_term pw phases h q hq hpop) hd))

/-- freezing by the sum: drag of the populated phases ≥ |g| → frozen, in any phase order -/
theorem zener_host_frozen_perm (pw : α → α → α) (alpha M gbe g : α) {l₁ l₂ : List (ZPhase α)}
    (hp : (l₁.filter (fun p => p.populated)).Perm (l₂.filter (fun p => p.populated)))
    (hg : |g| ≤ alpha * M * gbe * zenerSpec pw l₁) :
    constrained alpha M gbe (zenerDrag pw l₂) g = 0 := by
  apply constrained_frozen
  rw [← zenerDrag_same_populated pw hp, zenerDrag_skips_empty]; exact hg

/-- the early-exit variant agrees with the code on hosts whose phases ALL have precipitates (one-phase hosts with
precipitates included) — which is why such hosts cannot tell the two apart -/
theorem earlyExit_all_populated (pw : α → α → α) (phases : List (ZPhase α)) (acc : α)
    (h : ∀ p ∈ phases, p.populated = true) :
    zenerDragEarlyExit pw phases acc = acc + zenerDrag pw phases := by
  induction phases generalizing acc with
  | nil => simp [zenerDragEarlyExit, zenerDrag]
  | cons p ps ih =>
    have hp := h p (by simp)
    rw [zenerDragEarlyExit, if_pos hp, ih _ (fun q hq => h q (by simp [hq]))]
    have : p :: ps = [p] ++ ps := rfl
    rw [this, zenerDrag_append]; simp [zenerDrag_eq_sum, zEntry, hp, add_assoc]

/-- … and gives 0 as soon as one phase is empty, whatever the others are -/
theorem earlyExit_zero_of_empty (pw : α → α → α) (phases : List (ZPhase α)) (acc : α)
    (h : ∃ p ∈ phases, p.populated = false) : zenerDragEarlyExit pw phases acc = 0 := by
  induction phases generalizing acc with
  | nil => obtain ⟨p, hp, _⟩ := h; simp at hp
  | cons p ps ih =>
    rw [zenerDragEarlyExit]
    by_cases hp : p.populated = true
    · rw [if_pos hp]
      apply ih
      obtain ⟨q, hq, hqe⟩ := h
      rcases List.mem_cons.mp hq with rfl | hq'
      · rw [hp] at hqe; cases hqe
      · exact ⟨q, hq', hqe⟩
    · rw [if_neg hp]

end zenerHost

section zenerWitness
/-- pinning phase: 1 % … as rationals: Ravg 1, volume fraction 1, m = 1 (`pw x _ = x`), K = 1 → term 1; empty phase: Ravg 0 -/
def zPin : ZPhase ℚ := ⟨1, 1, 1, 1⟩
def zEmpty : ZPhase ℚ := ⟨0, 0, 1, 1⟩
def zPw : ℚ → ℚ → ℚ := fun x _ => x

/-- WITNESS (early exit): [pinning, empty] and [empty, pinning] both give drag 0 with the early-exit variant, drag 1 with the code -/
theorem early_exit_drops_pinning_phase :
    zenerDragEarlyExit zPw [zPin, zEmpty] 0 = 0 ∧ zenerDragEarlyExit zPw [zEmpty, zPin] 0 = 0 ∧
    zenerDrag zPw [zPin, zEmpty] = 1 ∧ zenerDrag zPw [zEmpty, zPin] = 1 := by
  refine ⟨?_, ?_, ?_, ?_⟩ <;>
    norm_num [zenerDragEarlyExit, zenerDrag, ZPhase.populated, zenerTerm, zPin, zEmpty, zPw]

/-- WITNESS (early exit): a boundary with driving force 1/2 is frozen by the pinning phase (drag 1) with the code and
moves at full speed with the early-exit variant, in either phase order -/
theorem early_exit_not_frozen :
    constrained 1 1 1 (zenerDrag zPw [zPin, zEmpty]) (1/2 : ℚ) = 0 ∧
    constrained 1 1 1 (zenerDrag zPw [zEmpty, zPin]) (1/2 : ℚ) = 0 ∧
    constrained 1 1 1 (zenerDragEarlyExit zPw [zPin, zEmpty] 0) (1/2 : ℚ) = 1/2 ∧
    constrained 1 1 1 (zenerDragEarlyExit zPw [zEmpty, zPin] 0) (1/2 : ℚ) = 1/2 := by
  refine ⟨?_, ?_, ?_, ?_⟩ <;>
    norm_num [constrained, zenerDragEarlyExit, zenerDrag, ZPhase.populated, zenerTerm, zPin, zEmpty, zPw]

/-- WITNESS (break): keeping the partial sum makes the drag depend on the phase order -/
theorem break_depends_on_order :
    zenerDragBreak zPw [zPin, zEmpty] 0 = 1 ∧ zenerDragBreak zPw [zEmpty, zPin] 0 = 0 := by
  constructor <;> norm_num [zenerDragBreak, ZPhase.populated, zenerTerm, zPin, zEmpty, zPw]

-- non-vacuity: the hypotheses of zenerDrag_ge_term / zener_host_frozen (a two-phase host, one phase empty, pinning phase strong enough)
example : (∀ p ∈ [zEmpty, zPin], 0 ≤ zPw p.volFrac p.m ∧ 0 < p.K) ∧ zPin ∈ [zEmpty, zPin] ∧ zPin.populated = true ∧
    (0:ℚ) ≤ 1 * 1 * 1 ∧ |(1/2 : ℚ)| ≤ 1 * 1 * 1 * zenerTerm zPw zPin := by
  refine ⟨?_, by simp, by norm_num [ZPhase.populated, zPin], by norm_num, ?_⟩
  · intro p hp; simp at hp; rcases hp with rfl | rfl <;> norm_num [zPw, zEmpty, zPin]
  · norm_num [zenerTerm, zPw, zPin, abs_of_pos]
-- hypothesis of zenerDrag_same_populated / zener_host_frozen_perm: [pin, empty] and [empty, pin] have the same populated phases
example : ([zPin, zEmpty].filter (fun p => p.populated)).Perm ([zEmpty, zPin].filter (fun p => p.populated)) := by
  have h1 : [zPin, zEmpty].filter (fun p => p.populated) = [zPin] := by
    simp [List.filter_cons, ZPhase.populated, zPin, zEmpty]
  have h2 : [zEmpty, zPin].filter (fun p => p.populated) = [zPin] := by
    simp [List.filter_cons, ZPhase.populated, zPin, zEmpty]
  rw [h1, h2]
-- hypotheses of earlyExit_all_populated / earlyExit_zero_of_empty
example : (∀ p ∈ [zPin, zPin], p.populated = true) ∧ (∃ p ∈ [zPin, zEmpty], p.populated = false) := by
  constructor
  · intro p hp; simp at hp; subst hp; norm_num [ZPhase.populated, zPin]
  · exact ⟨zEmpty, by simp, by norm_num [ZPhase.populated, zEmpty]⟩
end zenerWitness

end KawinV.Props.C18
