/-
C18 — property theorems (stub; nothing proved yet).
-/
namespace KawinV.Props.C18
end KawinV.Props.C18
