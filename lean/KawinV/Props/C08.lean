/-
C08 — size-class grid operations stay consistent and conserve particle volume.
Property theorems about `KawinV.Grid` (hand model of the grid operations of
PopulationBalance.py, tied to the source by tools/corr/C08.py).  α is any linearly ordered field.
-/
import KawinV.Model.PBMGrid
import Mathlib.Tactic.Ring
import Mathlib.Tactic.Linarith
import Mathlib.Tactic.FieldSimp
import Mathlib.Tactic.NormNum
import Mathlib.Algebra.Order.Field.Basic
import Mathlib.Algebra.Order.Field.Rat

set_option linter.unusedSectionVars false
set_option linter.unusedVariables false
set_option linter.unusedSimpArgs false

namespace KawinV.Props.C08
open KawinV KawinV.Grid KawinV.PBM

variable {α : Type} [Field α] [LinearOrder α] [IsStrictOrderedRing α]

/-! ### linspace -/

/-- closed form of boundary i of `linspace mn mx n` -/
def lin (mn mx : α) (n i : Nat) : α := mn + (i : α) * ((mx - mn) / (n : α))

theorem linspace_length (mn mx : α) (n : Nat) : (linspace mn mx n).length = n + 1 := by
  simp [linspace]

theorem linspace_getElem? (mn mx : α) (n i : Nat) (hn : 1 ≤ n) (hi : i ≤ n) :
    (linspace mn mx n)[i]? = some (lin mn mx n i) := by
  have hn0 : (n : α) ≠ 0 := by exact_mod_cast (by omega : n ≠ 0)
  simp only [linspace, List.getElem?_map, List.getElem?_range (by omega : i < n + 1), Option.map_some, lin]
  congr 1
  by_cases h : i = n
  · subst h
    simp only [if_true, show ¬ (i = 0) by omega, if_false]
    field_simp; ring
  · simp only [h, if_false]; ring

theorem lin_lt (mn mx : α) (n i j : Nat) (hn : 1 ≤ n) (h : mn < mx) (hij : i < j) :
    lin mn mx n i < lin mn mx n j := by
  have hn0 : (0 : α) < (n : α) := by exact_mod_cast hn
  have hs : 0 < (mx - mn) / (n : α) := div_pos (sub_pos.mpr h) hn0
  have : (i : α) < (j : α) := by exact_mod_cast hij
  unfold lin
  nlinarith

theorem lin_zero (mn mx : α) (n : Nat) : lin mn mx n 0 = mn := by simp [lin]

theorem lin_last (mn mx : α) (n : Nat) (hn : 1 ≤ n) : lin mn mx n n = mx := by
  have hn0 : (n : α) ≠ 0 := by exact_mod_cast (by omega : n ≠ 0)
  unfold lin; field_simp; ring

theorem linspace_head? (mn mx : α) (n : Nat) : (linspace mn mx n).head? = some mn := by
  simp only [linspace, List.range_succ_eq_map, List.map_cons, List.head?_cons]
  by_cases h : 0 = n
  · subst h; simp
  · simp [h]

theorem linspace_getLast? (mn mx : α) (n : Nat) (hn : 1 ≤ n) : (linspace mn mx n).getLast? = some mx := by
  simp [linspace, List.range_succ, show n ≠ 0 by omega]

/-! ### elementwise helpers -/

theorem forall_mem_zipWith {β γ δ : Type} (f : β → γ → δ) (P : β → Prop) (Q : γ → Prop) (R : δ → Prop)
    (hf : ∀ a b, P a → Q b → R (f a b)) :
    ∀ (l1 : List β) (l2 : List γ), (∀ a ∈ l1, P a) → (∀ b ∈ l2, Q b) → ∀ c ∈ List.zipWith f l1 l2, R c := by
  intro l1
  induction l1 with
  | nil => intro l2 _ _ c hc; simp at hc
  | cons a as ih =>
    intro l2 h1 h2 c hc
    cases l2 with
    | nil => simp at hc
    | cons b bs =>
      simp only [List.zipWith_cons_cons, List.mem_cons] at hc
      rcases hc with rfl | hc
      · exact hf a b (h1 a (by simp)) (h2 b (by simp))
      · exact ih bs (fun x hx => h1 x (by simp [hx])) (fun x hx => h2 x (by simp [hx])) c hc

theorem midpoints_length (b : List α) : (midpoints b).length = b.length - 1 := by
  simp [midpoints]

theorem widths_length (b : List α) : (widths b).length = b.length - 1 := by
  simp [widths]

theorem midpoints_getElem? (b : List α) (i : Nat) (x y : α) (hx : b[i]? = some x) (hy : b[i+1]? = some y) :
    (midpoints b)[i]? = some ((x + y) / 2) := by
  simp [midpoints, List.getElem?_zipWith, hx, hy]

theorem widths_getElem? (b : List α) (i : Nat) (x y : α) (hx : b[i]? = some x) (hy : b[i+1]? = some y) :
    (widths b)[i]? = some (y - x) := by
  simp [widths, List.getElem?_zipWith, hx, hy]

/-- centres of a linspace grid -/
theorem midpoints_linspace_getElem? (mn mx : α) (n i : Nat) (hn : 1 ≤ n) (hi : i < n) :
    (midpoints (linspace mn mx n))[i]? = some ((lin mn mx n i + lin mn mx n (i+1)) / 2) :=
  midpoints_getElem? _ i _ _ (linspace_getElem? mn mx n i hn (by omega)) (linspace_getElem? mn mx n (i+1) hn (by omega))

theorem widths_linspace_nonneg (mn mx : α) (n : Nat) (hn : 1 ≤ n) (h : mn < mx) :
    ∀ w ∈ widths (linspace mn mx n), 0 < w := by
  intro w hw
  obtain ⟨i, hi, rfl⟩ := List.mem_iff_getElem.mp hw
  have hlen : i < n := by
    have := widths_length (linspace mn mx n); rw [linspace_length] at this; omega
  have := widths_getElem? (linspace mn mx n) i _ _ (linspace_getElem? mn mx n i hn (by omega))
    (linspace_getElem? mn mx n (i+1) hn (by omega))
  rw [List.getElem?_eq_getElem hi] at this
  rw [Option.some.inj this]
  exact sub_pos.mpr (lin_lt mn mx n i (i+1) hn h (by omega))

/-! ### interpolation -/

theorem interpAux_nonneg : ∀ (xp fp : List α) (x : α), (∀ y ∈ fp, 0 ≤ y) →
    (∀ x0, xp.head? = some x0 → x0 ≤ x) → 0 ≤ interpAux xp fp x := by
  intro xp
  induction xp with
  | nil =>
    intro fp x hf _
    cases fp with
    | nil => simp [interpAux]
    | cons f0 fs => simp only [interpAux]; exact hf f0 (by simp)
  | cons x0 xs ih =>
    intro fp x hf hx
    cases fp with
    | nil => simp [interpAux]
    | cons f0 fs =>
      cases xs with
      | nil => simp only [interpAux]; exact hf f0 (by simp)
      | cons x1 xs' =>
        cases fs with
        | nil => simp only [interpAux]; exact hf f0 (by simp)
        | cons f1 fs' =>
          simp only [interpAux]
          have h0 : 0 ≤ f0 := hf f0 (by simp)
          have h1 : 0 ≤ f1 := hf f1 (by simp)
          have hx0 : x0 ≤ x := hx x0 rfl
          split
          · next hlt =>
            have hd : 0 < x1 - x0 := by linarith
            have : (f1 - f0) / (x1 - x0) * (x - x0) + f0 = (f1 * (x - x0) + f0 * (x1 - x)) / (x1 - x0) := by
              field_simp; ring
            rw [this]
            apply div_nonneg _ hd.le
            have : 0 ≤ x - x0 := by linarith
            have : 0 ≤ x1 - x := by linarith
            positivity
          · next hge =>
            apply ih (f1 :: fs') x (fun y hy => hf y (by simp [List.mem_cons] at hy ⊢; tauto))
            intro y hy
            simp at hy; subst hy
            exact not_lt.mp hge

/-- interpolating non-negative ordinates gives a non-negative value, whatever the abscissae -/
theorem interp_nonneg (xp fp : List α) (x : α) (hf : ∀ y ∈ fp, 0 ≤ y) : 0 ≤ interp xp fp x := by
  unfold interp
  split
  · next x0 _ f0 _ =>
    split
    · exact hf f0 (by simp)
    · next h =>
      apply interpAux_nonneg _ _ _ hf
      intro y hy; simp at hy; subst hy; exact not_lt.mp h
  · exact le_refl _

/-! ### moments -/

theorem npow_eq_pow (x : α) (k : Nat) : npow x k = x ^ k := by
  induction k with
  | zero => simp [npow]
  | succ k ih =>
    cases k with
    | zero => simp [npow]
    | succ k =>
      have : npow x (k+1+1) = npow x (k+1) * x := rfl
      rw [this, ih]; ring

theorem moment_nil_left (size : List α) (k : Nat) : moment ([] : List α) size k = 0 := by simp [moment]

theorem moment_cons (n : α) (N : List α) (r : α) (size : List α) (k : Nat) :
    moment (n :: N) (r :: size) k = n * r ^ k + moment N size k := by
  simp [moment, npow_eq_pow]

/-- scaling every population scales the moment -/
theorem moment_map_mul (c : α) (k : Nat) : ∀ (N size : List α),
    moment (N.map (fun x => x * c)) size k = c * moment N size k := by
  intro N
  induction N with
  | nil => intro size; simp [moment]
  | cons n N ih =>
    intro size
    cases size with
    | nil => simp [moment]
    | cons r size =>
      rw [List.map_cons, moment_cons, moment_cons, ih]; ring

theorem moment_zeros (m k : Nat) : ∀ (size : List α), moment (zeros m : List α) size k = 0 := by
  induction m with
  | zero => intro size; simp [moment, zeros]
  | succ m ih =>
    intro size
    cases size with
    | nil => simp [moment]
    | cons r size =>
      have : (zeros (m+1) : List α) = 0 :: zeros m := by simp [zeros, List.replicate_succ]
      rw [this, moment_cons, ih]; simp

/-- appending empty classes does not change a moment as long as the old centres stay where they were -/
theorem moment_append_zeros (k m : Nat) : ∀ (N size rest : List α), N.length = size.length →
    moment (N ++ zeros m) (size ++ rest) k = moment N size k := by
  intro N
  induction N with
  | nil =>
    intro size rest h
    have : size = [] := by cases size <;> simp_all
    subst this; simp [moment_zeros, moment_nil_left]
  | cons n N ih =>
    intro size rest h
    cases size with
    | nil => simp at h
    | cons r size =>
      simp only [List.cons_append, moment_cons]
      rw [ih size rest (by simpa using h)]

theorem moment_nonneg (k : Nat) : ∀ (N size : List α), (∀ x ∈ N, 0 ≤ x) → (∀ r ∈ size, 0 ≤ r) →
    0 ≤ moment N size k := by
  intro N
  induction N with
  | nil => intro size _ _; simp [moment]
  | cons n N ih =>
    intro size hN hs
    cases size with
    | nil => simp [moment]
    | cons r size =>
      rw [moment_cons]
      have := ih size (fun x hx => hN x (by simp [hx])) (fun x hx => hs x (by simp [hx]))
      have h1 : 0 ≤ n := hN n (by simp)
      have h2 : 0 ≤ r := hs r (by simp)
      positivity

/-! ### the consistency invariant -/

/-- a consistent grid: `n ≥ 1` classes on `[mn, mx]`, `0 ≤ mn < mx`, boundaries = linspace,
one non-negative population per class -/
structure GridOK (mn mx : α) (n : Nat) (bounds psd : List α) : Prop where
  bins_pos : 1 ≤ n
  min_nonneg : 0 ≤ mn
  lt : mn < mx
  bounds_eq : bounds = linspace mn mx n
  psd_len : psd.length = n
  psd_nonneg : ∀ x ∈ psd, 0 ≤ x

/-- one recorded row pair: an all-zero boundary row (the first record written by `enableRecording`), or
a consistent grid — lower end `0 ≤ mn`, ZERO INCLUDED since repair a549be2: the record length is the
position of the last non-zero boundary, and the last boundary `mx > mn ≥ 0` is never zero — each row
padded with zeros -/
def RowOK (rb rp : List α) : Prop :=
  recordedCount rb = 0 ∨
  ∃ (mn mx : α) (n : Nat) (b p : List α) (k1 k2 : Nat),
    GridOK mn mx n b p ∧ rb = b ++ zeros k1 ∧ rp = p ++ zeros k2

/-- recorded arrays: as many boundary rows as population rows as times, every row pair `RowOK` -/
def RecsOK (B P : List (List α)) (T : List α) : Prop :=
  B.length = P.length ∧ B.length = T.length ∧ ∀ q ∈ List.zip B P, RowOK q.1 q.2

/-- **Inv**: the current grid is consistent, centres are midpoints, the original grid description
is usable (so that `reset` works), the backup is itself a consistent grid (so that `revert`
works at any time), and every recorded / saved record is a consistent grid (so that
`setPSDtoRecordedTime` works at any time). -/
structure Inv (s : State α) : Prop where
  grid : GridOK s.min s.max s.bins s.bounds s.psd
  size_eq : s.size = midpoints s.bounds
  orig_bins : 1 ≤ s.origBins
  orig_nonneg : 0 ≤ s.origMin
  orig_lt : s.origMin < s.origMax
  backup : ∃ mn mx n, GridOK mn mx n s.prevBounds s.prevPsd
  recs : RecsOK s.recBins s.recPsd s.recTime
  saved : RecsOK s.savedBins s.savedPsd s.savedTime

theorem recsOK_nil : RecsOK ([] : List (List α)) [] [] := ⟨rfl, rfl, by simp⟩

theorem zeros_nonneg (n : Nat) : ∀ x ∈ (zeros n : List α), 0 ≤ x := by
  intro x hx; simp [zeros] at hx; rw [hx.2]

theorem zeros_length (n : Nat) : (zeros n : List α).length = n := by simp [zeros]

theorem linspace_mem_ge (mn mx : α) (n : Nat) (hn : 1 ≤ n) (h : mn < mx) :
    ∀ b ∈ linspace mn mx n, mn ≤ b := by
  intro b hb
  obtain ⟨i, hi, rfl⟩ := List.mem_iff_getElem.mp hb
  rw [linspace_length] at hi
  have := linspace_getElem? mn mx n i hn (by omega)
  rw [List.getElem?_eq_getElem (by rw [linspace_length]; exact hi)] at this
  rw [Option.some.inj this]
  rcases Nat.eq_zero_or_pos i with h0 | h0
  · subst h0; rw [lin_zero]
  · have := lin_lt mn mx n 0 i hn h h0
    rw [lin_zero] at this; exact le_of_lt this

theorem midpoints_linspace_nonneg (mn mx : α) (n : Nat) (hn : 1 ≤ n) (h0 : 0 ≤ mn) (h : mn < mx) :
    ∀ r ∈ midpoints (linspace mn mx n), 0 ≤ r := by
  unfold midpoints
  apply forall_mem_zipWith _ (fun a => 0 ≤ a) (fun a => 0 ≤ a) (fun a => 0 ≤ a)
  · intro a b ha hb; simp only [Nat.cast_ofNat]; positivity
  · intro a ha; exact le_trans h0 (linspace_mem_ge mn mx n hn h a ha)
  · intro a ha; exact le_trans h0 (linspace_mem_ge mn mx n hn h a (List.mem_of_mem_tail ha))

/-- **what Inv says in observable terms**: class count ≥ 1, array lengths match, boundaries run
from `min` to `max` strictly increasing, centres are midpoints, populations are non-negative. -/
theorem inv_spec (s : State α) (h : Inv s) :
    1 ≤ s.bins ∧ s.psd.length = s.bins ∧ s.bounds.length = s.bins + 1 ∧ s.size.length = s.bins ∧
    s.bounds.head? = some s.min ∧ s.bounds.getLast? = some s.max ∧
    (∀ (i j : Nat) (x y : α), i < j → s.bounds[i]? = some x → s.bounds[j]? = some y → x < y) ∧
    (∀ (i : Nat) (x y : α), s.bounds[i]? = some x → s.bounds[i+1]? = some y → s.size[i]? = some ((x + y) / 2)) ∧
    (∀ x ∈ s.psd, 0 ≤ x) := by
  obtain ⟨⟨hn, h0, hlt, hb, hl, hp⟩, hs, _, _, _, _⟩ := h
  have hbl : s.bounds.length = s.bins + 1 := by rw [hb, linspace_length]
  refine ⟨hn, hl, hbl, ?_, ?_, ?_, ?_, ?_, hp⟩
  · rw [hs, midpoints_length, hbl]; omega
  · rw [hb, linspace_head?]
  · rw [hb, linspace_getLast? _ _ _ hn]
  · intro i j x y hij hx hy
    have hj : j ≤ s.bins := by
      have := (List.getElem?_eq_some_iff.mp hy).1; omega
    rw [hb, linspace_getElem? _ _ _ _ hn (by omega)] at hx
    rw [hb, linspace_getElem? _ _ _ _ hn hj] at hy
    rw [← Option.some.inj hx, ← Option.some.inj hy]
    exact lin_lt _ _ _ _ _ hn hlt hij
  · intro i x y hx hy
    rw [hs]; exact midpoints_getElem? _ _ _ _ hx hy

/-! ### reset, constructor -/

theorem gridOK_fresh (mn mx : α) (n : Nat) (hn : 1 ≤ n) (h0 : 0 ≤ mn) (h : mn < mx) :
    GridOK mn mx n (linspace mn mx n) (zeros n) :=
  ⟨hn, h0, h, rfl, zeros_length n, zeros_nonneg n⟩

theorem reset_true_inv (s : State α) (hn : 1 ≤ s.origBins) (h0 : 0 ≤ s.origMin) (h : s.origMin < s.origMax)
    (hr : RecsOK s.recBins s.recPsd s.recTime) (hsv : RecsOK s.savedBins s.savedPsd s.savedTime) :
    Inv (reset s true) := by
  refine ⟨?_, ?_, ?_, ?_, ?_, ?_, ?_, ?_⟩ <;> simp only [reset, if_true]
  · exact gridOK_fresh _ _ _ hn h0 h
  · exact hn
  · exact h0
  · exact h
  · exact ⟨_, _, _, gridOK_fresh _ _ _ hn h0 h⟩
  · exact hr
  · exact hsv

theorem reset_false_inv (s : State α) (hb : 1 ≤ s.bins) (hm : 0 ≤ s.min) (hlt : s.min < s.max)
    (hn : 1 ≤ s.origBins) (h0 : 0 ≤ s.origMin) (h : s.origMin < s.origMax)
    (hr : RecsOK s.recBins s.recPsd s.recTime) (hsv : RecsOK s.savedBins s.savedPsd s.savedTime) :
    Inv (reset s false) := by
  refine ⟨?_, ?_, ?_, ?_, ?_, ?_, ?_, ?_⟩ <;> simp only [reset, Bool.false_eq_true, if_false]
  · exact gridOK_fresh _ _ _ hb hm hlt
  · exact hn
  · exact h0
  · exact h
  · exact ⟨_, _, _, gridOK_fresh _ _ _ hb hm hlt⟩
  · exact hr
  · exact hsv

/-- **reset**: `reset(True)` restores the original grid description, the boundaries are the
original linspace and the distribution is empty. -/
theorem reset_restores (s : State α) :
    (reset s true).min = s.origMin ∧ (reset s true).max = s.origMax ∧ (reset s true).bins = s.origBins ∧
    (reset s true).bounds = linspace s.origMin s.origMax s.origBins ∧
    (reset s true).psd = zeros s.origBins ∧ (∀ x ∈ (reset s true).psd, x = 0) := by
  refine ⟨rfl, rfl, rfl, rfl, rfl, ?_⟩
  intro x hx; simp [reset, zeros] at hx; exact hx.2

theorem lt_amax2 (a b c : α) (h : c < a ∨ c < b) : c < amax2 a b := by
  unfold amax2; split <;> rcases h with h | h <;> linarith

/-- **Inv holds initially** for every constructor call with at least one class, a non-negative
lower bound and a non-degenerate range -/
theorem inv_init (cMin cMax : α) (bins minBins maxBins : Nat) (hb : 1 ≤ bins) (h0 : 0 ≤ cMin)
    (h : cMin < amax2 (10 * cMin) cMax) : Inv (init cMin cMax bins minBins maxBins) := by
  unfold init
  apply reset_true_inv
  · exact hb
  · exact h0
  · simpa using h
  · exact recsOK_nil
  · exact recsOK_nil

theorem pre_of_pos (cMin cMax : α) (h : 0 < cMin) : cMin < amax2 (10 * cMin) cMax :=
  lt_amax2 _ _ _ (Or.inl (by linarith))
theorem pre_of_lt (cMin cMax : α) (h : cMin < cMax) : cMin < amax2 (10 * cMin) cMax :=
  lt_amax2 _ _ _ (Or.inr h)

/-! ### extend (addSizeClasses) -/

/-- class width of a consistent grid -/
def stepOf (s : State α) : α := (s.max - s.min) / (s.bins : α)

/-- on a consistent grid `addSizeClasses(k)` never raises and has this closed form: the upper end
moves by k class widths -/
theorem add_eq (s : State α) (k : Nat) (h : Inv s) :
    add s k = some { s with bins := s.bins + k, psd := s.psd ++ zeros k, max := s.max + (k : α) * stepOf s,
                            bounds := linspace s.min (s.max + (k : α) * stepOf s) (s.bins + k),
                            size := midpoints (linspace s.min (s.max + (k : α) * stepOf s) (s.bins + k)) } := by
  obtain ⟨⟨hn, _, hlt, hb, _, _⟩, _, _, _, _, _⟩ := h
  have h0 := linspace_getElem? s.min s.max s.bins 0 hn (by omega)
  have h1 := linspace_getElem? s.min s.max s.bins 1 hn hn
  rw [← hb] at h0 h1
  rcases hbb : s.bounds with _ | ⟨b0, _ | ⟨b1, rest⟩⟩
  · rw [hbb] at h0; simp at h0
  · rw [hbb] at h1; simp at h1
  · rw [hbb] at h0 h1
    simp only [List.getElem?_cons_zero, List.getElem?_cons_succ, Option.some.injEq] at h0 h1
    have hstep : b1 - b0 = stepOf s := by
      rw [h0, h1]; simp [lin, stepOf]
    simp only [add, hbb, hstep]

/-- **Inv is preserved by extension** (no precondition) -/
theorem add_inv (s s' : State α) (k : Nat) (h : Inv s) (hs : add s k = some s') : Inv s' := by
  rw [add_eq s k h] at hs
  have hs' := Option.some.inj hs
  subst hs'
  obtain ⟨⟨hn, h0, hlt, hb, hl, hp⟩, hsz, ho1, ho2, ho3, hbk, hr, hsv⟩ := h
  have hstep : 0 ≤ (k : α) * stepOf s := by
    have : (0 : α) < (s.bins : α) := by exact_mod_cast hn
    have : 0 < stepOf s := div_pos (sub_pos.mpr hlt) this
    positivity
  refine ⟨⟨by simp only; omega, h0, by simp only; linarith, rfl, by simp [hl, zeros], ?_⟩, rfl, ho1, ho2, ho3, hbk, hr, hsv⟩
  intro x hx
  simp only [List.mem_append] at hx
  rcases hx with hx | hx
  · exact hp x hx
  · exact zeros_nonneg k x hx

/-- boundary i of the extended grid coincides with boundary i of the old grid -/
theorem lin_extend (mn mx : α) (n k i : Nat) (hn : 1 ≤ n) :
    lin mn (mx + (k : α) * ((mx - mn) / (n : α))) (n + k) i = lin mn mx n i := by
  have hn0 : (n : α) ≠ 0 := by exact_mod_cast (by omega : n ≠ 0)
  have hnk : ((n + k : Nat) : α) ≠ 0 := by exact_mod_cast (by omega : n + k ≠ 0)
  unfold lin
  congr 1
  have : (mx + (k : α) * ((mx - mn) / (n : α)) - mn) / ((n + k : Nat) : α) = (mx - mn) / (n : α) := by
    push_cast at hnk ⊢
    field_simp; ring
  rw [this]

/-- **extend, boundaries**: every existing class boundary (indices 0..bins) is untouched -/
theorem add_bounds_untouched (s s' : State α) (k i : Nat) (h : Inv s) (hs : add s k = some s')
    (hi : i ≤ s.bins) : s'.bounds[i]? = s.bounds[i]? := by
  rw [add_eq s k h] at hs
  have hs' := Option.some.inj hs
  subst hs'
  have hn := h.grid.bins_pos
  simp only
  rw [h.grid.bounds_eq, linspace_getElem? _ _ _ _ hn hi, linspace_getElem? _ _ _ _ (by omega) (by omega)]
  rw [stepOf, lin_extend _ _ _ _ _ hn]

/-- **extend, populations**: existing populations are untouched, the new classes are empty -/
theorem add_psd (s s' : State α) (k : Nat) (h : Inv s) (hs : add s k = some s') :
    s'.psd = s.psd ++ zeros k ∧ s'.bins = s.bins + k := by
  rw [add_eq s k h] at hs
  have hs' := Option.some.inj hs
  subst hs'; exact ⟨rfl, rfl⟩

/-- **extend, centres**: the centres of the existing classes are untouched -/
theorem add_size_prefix (s s' : State α) (k : Nat) (h : Inv s) (hs : add s k = some s') :
    ∃ rest, s'.size = s.size ++ rest := by
  have hinv' := add_inv s s' k h hs
  have hb := fun i hi => add_bounds_untouched s s' k i h hs hi
  obtain ⟨hn, hpl, hbl, hsl, -, -, -, hmid, -⟩ := inv_spec s h
  obtain ⟨hn', hpl', hbl', hsl', -, -, -, hmid', -⟩ := inv_spec s' hinv'
  have hbins : s'.bins = s.bins + k := (add_psd s s' k h hs).2
  refine ⟨s'.size.drop s.bins, ?_⟩
  have htake : s'.size.take s.bins = s.size := by
    apply List.ext_getElem?
    intro i
    by_cases hi : i < s.bins
    · rw [List.getElem?_take_of_lt hi]
      have hx : s.bounds[i]? = some (s.bounds[i]'(by omega)) := List.getElem?_eq_getElem _
      have hy : s.bounds[i+1]? = some (s.bounds[i+1]'(by omega)) := List.getElem?_eq_getElem _
      rw [hmid i _ _ hx hy]
      rw [← hb i (by omega)] at hx
      rw [← hb (i+1) (by omega)] at hy
      exact hmid' i _ _ hx hy
    · have h1 : (List.take s.bins s'.size)[i]? = none := by
        rw [List.getElem?_eq_none]; simp; omega
      have h2 : s.size[i]? = none := List.getElem?_eq_none (by omega)
      rw [h1, h2]
  rw [← htake, List.take_append_drop]

/-- **extend, moments**: every moment (in particular M0, M1, M3) of the distribution is unchanged -/
theorem add_moment (s s' : State α) (k j : Nat) (h : Inv s) (hs : add s k = some s') :
    moment s'.psd s'.size j = moment s.psd s.size j := by
  obtain ⟨rest, hr⟩ := add_size_prefix s s' k h hs
  obtain ⟨hn, hpl, hbl, hsl, -⟩ := inv_spec s h
  rw [(add_psd s s' k h hs).1, hr]
  exact moment_append_zeros j k _ _ _ (by omega)

/-! ### re-mesh (changeSizeClasses) -/

theorem remeshRaw_nonneg (psd bounds newBounds : List α) (hp : ∀ x ∈ psd, 0 ≤ x)
    (hw : ∀ w ∈ widths bounds, 0 ≤ w) (hw' : ∀ w ∈ widths newBounds, 0 ≤ w) :
    ∀ x ∈ remeshRaw psd bounds newBounds, 0 ≤ x := by
  simp only [remeshRaw]
  apply forall_mem_zipWith _ (fun _ => True) (fun w => 0 ≤ w) (fun x => 0 ≤ x)
  · intro a w _ hw0
    refine mul_nonneg (interp_nonneg _ _ _ ?_) hw0
    exact forall_mem_zipWith _ (fun p => 0 ≤ p) (fun w => 0 ≤ w) (fun x => 0 ≤ x)
      (fun p w h1 h2 => div_nonneg h1 h2) _ _ hp hw
  · intros; trivial
  · exact hw'

theorem remeshRaw_length (psd bounds newBounds : List α) :
    (remeshRaw psd bounds newBounds).length = newBounds.length - 1 := by
  simp [remeshRaw, midpoints_length, widths_length]

/-- the freshly reset target grid of a re-mesh -/
def targetOf (s : State α) (cMin cMax : α) (b? : Option Nat) : State α := reset (retarget s cMin cMax b?) false
/-- interpolated, not yet rescaled populations on the target grid -/
def rawOf (s : State α) (cMin cMax : α) (b? : Option Nat) : List α :=
  remeshRaw s.psd s.bounds (targetOf s cMin cMax b?).bounds

theorem remeshNewV_eq (s : State α) (cMin cMax : α) (b? : Option Nat) :
    remeshNewV s cMin cMax b? = moment (rawOf s cMin cMax b?) (targetOf s cMin cMax b?).size 3 := rfl

/-- closed form of `changeSizeClasses(.., resetPSD=False)` on a consistent grid: it never raises;
the interpolated distribution is rescaled by `oldV/newV` when `newV ≠ 0` and replaced by zeros
otherwise -/
theorem change_false_eq (s : State α) (cMin cMax : α) (b? : Option Nat) (h : Inv s) :
    change s cMin cMax b? false =
      some (if remeshNewV s cMin cMax b? < 0 ∨ 0 < remeshNewV s cMin cMax b? then
              { targetOf s cMin cMax b? with
                  psd := (rawOf s cMin cMax b?).map (fun x => x * (thirdMoment s / remeshNewV s cMin cMax b?)) }
            else { targetOf s cMin cMax b? with psd := zeros (targetOf s cMin cMax b?).bins }) := by
  obtain ⟨hn, hpl, hbl, hsl, -⟩ := inv_spec s h
  have hg : ¬ (s.psd.length ≠ s.size.length ∨ s.psd.length + 1 ≠ s.bounds.length ∨
      (s.psd.length = 0 ∧ (retarget s cMin cMax b?).bins ≠ 0)) := by
    rw [hpl, hbl, hsl]; omega
  simp only [change, Bool.false_eq_true, if_false, if_neg hg]
  split
  · next hc =>
    have hc' : remeshNewV s cMin cMax b? < 0 ∨ 0 < remeshNewV s cMin cMax b? := hc
    rw [if_pos hc']; rfl
  · next hc =>
    have hc' : ¬ (remeshNewV s cMin cMax b? < 0 ∨ 0 < remeshNewV s cMin cMax b?) := hc
    rw [if_neg hc']; rfl

theorem target_fields (s : State α) (cMin cMax : α) (b? : Option Nat) :
    (targetOf s cMin cMax b?).min = cMin ∧ (targetOf s cMin cMax b?).max = amax2 (10 * cMin) cMax ∧
    (targetOf s cMin cMax b?).bins = b?.getD s.bins ∧
    (targetOf s cMin cMax b?).bounds = linspace cMin (amax2 (10 * cMin) cMax) (b?.getD s.bins) ∧
    (targetOf s cMin cMax b?).size = midpoints (linspace cMin (amax2 (10 * cMin) cMax) (b?.getD s.bins)) := by
  simp [targetOf, reset, retarget]

/-- **Inv is preserved by a re-mesh** under its precondition: a requested class count ≥ 1 and, unless
the distribution is reset (then the ORIGINAL grid is restored), `0 ≤ cMin < max(10 cMin, cMax)` -/
theorem change_inv (s s' : State α) (cMin cMax : α) (b? : Option Nat) (r : Bool) (h : Inv s)
    (hb : ∀ b, b? = some b → 1 ≤ b) (h0 : r = false → 0 ≤ cMin)
    (hlt : r = false → cMin < amax2 (10 * cMin) cMax)
    (hs : change s cMin cMax b? r = some s') : Inv s' := by
  cases r with
  | true =>
    simp only [change, if_true] at hs
    have := Option.some.inj hs; subst this
    exact reset_true_inv _ h.orig_bins h.orig_nonneg h.orig_lt h.recs h.saved
  | false =>
    rw [change_false_eq s cMin cMax b? h] at hs
    have hs' := Option.some.inj hs
    obtain ⟨⟨hn, hm0, hmlt, hbe, hl, hp⟩, hsz, ho1, ho2, ho3, hbk, hr, hsv⟩ := h
    have hbins : 1 ≤ b?.getD s.bins := by
      cases b? with
      | none => simpa using hn
      | some b => simpa using hb b rfl
    have hc0 := h0 rfl
    have hclt := hlt rfl
    obtain ⟨t1, t2, t3, t4, t5⟩ := target_fields s cMin cMax b?
    have hinv2 : Inv (targetOf s cMin cMax b?) := by
      apply reset_false_inv
      · simpa [retarget] using hbins
      · simpa [retarget] using hc0
      · simpa [retarget] using hclt
      · exact ho1
      · exact ho2
      · exact ho3
      · exact hr
      · exact hsv
    obtain ⟨⟨a1, a2, a3, a4, a5, a6⟩, b1, b2, b3, b4, b5, b6, b7⟩ := hinv2
    -- non-negativity of the interpolated populations and of both third moments
    have hraw : ∀ x ∈ rawOf s cMin cMax b?, 0 ≤ x := by
      apply remeshRaw_nonneg _ _ _ hp
      · intro w hw; rw [hbe] at hw; exact (widths_linspace_nonneg _ _ _ hn hmlt w hw).le
      · intro w hw; rw [t4] at hw; exact (widths_linspace_nonneg _ _ _ hbins hclt w hw).le
    have hold : 0 ≤ thirdMoment s := by
      apply moment_nonneg _ _ _ hp
      rw [hsz, hbe]; exact midpoints_linspace_nonneg _ _ _ hn hm0 hmlt
    have hnew : 0 ≤ remeshNewV s cMin cMax b? := by
      rw [remeshNewV_eq]
      apply moment_nonneg _ _ _ hraw
      rw [t5]; exact midpoints_linspace_nonneg _ _ _ hbins hc0 hclt
    split at hs'
    · subst hs'
      refine ⟨⟨a1, a2, a3, a4, ?_, ?_⟩, b1, b2, b3, b4, b5, b6, b7⟩
      · simp only [List.length_map, rawOf, remeshRaw_length, t4, linspace_length, t3]; omega
      · intro x hx
        simp only [List.mem_map] at hx
        obtain ⟨y, hy, rfl⟩ := hx
        exact mul_nonneg (hraw y hy) (div_nonneg hold hnew)
    · subst hs'
      exact ⟨⟨a1, a2, a3, a4, zeros_length _, zeros_nonneg _⟩, b1, b2, b3, b4, b5, b6, b7⟩

/-- the code as it is: `changeSizeClasses(cMin, cMax, bins, resetPSD=True)` discards the requested grid —
`reset()` is called with `resetBounds=True` — and restores the ORIGINAL grid with an empty
distribution (consistent, hence harmless for this property; reported as an observation). -/
theorem change_resetPSD_restores_original (s : State α) (cMin cMax : α) (b? : Option Nat) :
    ∃ s', change s cMin cMax b? true = some s' ∧ s'.min = s.origMin ∧ s'.max = s.origMax ∧
      s'.bins = s.origBins ∧ s'.bounds = linspace s.origMin s.origMax s.origBins ∧ s'.psd = zeros s.origBins :=
  ⟨reset (retarget s cMin cMax b?) true, by simp only [change, if_true], rfl, rfl, rfl, rfl, rfl⟩

/-- **re-mesh volume**: after `changeSizeClasses(.., resetPSD=False)` the third moment equals the
old one **iff** the interpolated distribution has a non-zero third moment (`newV ≠ 0`) or there was
no volume to begin with. -/
theorem remesh_M3_iff (s s' : State α) (cMin cMax : α) (b? : Option Nat) (h : Inv s)
    (hs : change s cMin cMax b? false = some s') :
    thirdMoment s' = thirdMoment s ↔ (remeshNewV s cMin cMax b? ≠ 0 ∨ thirdMoment s = 0) := by
  rw [change_false_eq s cMin cMax b? h] at hs
  have hs' := Option.some.inj hs
  split at hs'
  · next hc =>
    have hne : remeshNewV s cMin cMax b? ≠ 0 := by
      rcases hc with hc | hc
      · exact ne_of_lt hc
      · exact ne_of_gt hc
    subst hs'
    have : thirdMoment { targetOf s cMin cMax b? with
        psd := (rawOf s cMin cMax b?).map (fun x => x * (thirdMoment s / remeshNewV s cMin cMax b?)) }
        = thirdMoment s := by
      show moment _ (targetOf s cMin cMax b?).size 3 = _
      rw [moment_map_mul, ← remeshNewV_eq]
      field_simp
    rw [this]
    exact ⟨fun _ => Or.inl hne, fun _ => rfl⟩
  · next hc =>
    have hz : remeshNewV s cMin cMax b? = 0 := by
      rcases lt_trichotomy (remeshNewV s cMin cMax b?) 0 with h1 | h1 | h1
      · exact absurd (Or.inl h1) hc
      · exact h1
      · exact absurd (Or.inr h1) hc
    subst hs'
    have : thirdMoment { targetOf s cMin cMax b? with psd := zeros (targetOf s cMin cMax b?).bins } = 0 := by
      show moment _ (targetOf s cMin cMax b?).size 3 = 0
      exact moment_zeros _ _ _
    rw [this]
    constructor
    · intro h0; exact Or.inr h0.symm
    · rintro (h1 | h1)
      · exact absurd hz h1
      · exact h1.symm

/-- **re-mesh volume, the part that is true**: the third moment is preserved whenever the
interpolated distribution is not empty (`newV ≠ 0`).  The hypothesis cannot be replaced by "the new
grid covers the populated range": see `remesh_can_vanish`. -/
theorem remesh_preserves_M3_partial (s s' : State α) (cMin cMax : α) (b? : Option Nat) (h : Inv s)
    (hs : change s cMin cMax b? false = some s') (hnewV : remeshNewV s cMin cMax b? ≠ 0) :
    thirdMoment s' = thirdMoment s :=
  (remesh_M3_iff s s' cMin cMax b? h hs).mpr (Or.inl hnewV)

/-! ### update, direct assignment, load, backup, revert -/

theorem setPsd_inv (s : State α) (N : List α) (h : Inv s) (hN : N.length = s.bins) (h0 : ∀ x ∈ N, 0 ≤ x) :
    Inv { s with psd := N } := by
  obtain ⟨⟨hn, hm0, hmlt, hbe, hl, hp⟩, hsz, ho1, ho2, ho3, hbk, hr, hsv⟩ := h
  exact ⟨⟨hn, hm0, hmlt, hbe, hN, h0⟩, hsz, ho1, ho2, ho3, hbk, hr, hsv⟩

theorem histogram_length (data edges : List α) : (histogram data edges).length = edges.length - 1 := by
  simp [histogram]

theorem histogram_nonneg (data edges : List α) : ∀ x ∈ histogram data edges, 0 ≤ x := by
  intro x hx
  simp only [histogram, List.mem_map] at hx
  obtain ⟨i, _, rfl⟩ := hx
  split
  · exact Nat.cast_nonneg _
  · exact le_refl _

theorem load_inv (s s' : State α) (data : List α) (h : Inv s) (hs : load s data = some s') : Inv s' := by
  obtain ⟨hn, hpl, hbl, hsl, -⟩ := inv_spec s h
  obtain ⟨⟨hn, hm0, hmlt, hbe, hl, hp⟩, hsz, ho1, ho2, ho3, hbk, hr, hsv⟩ := h
  unfold load at hs
  split at hs
  · simp at hs
  · have := Option.some.inj hs; subst this
    exact ⟨⟨hn, hm0, hmlt, hbe, by simp only [histogram_length, hbl]; omega, histogram_nonneg _ _⟩, hsz, ho1, ho2, ho3, hbk, hr, hsv⟩

theorem backup_inv (s : State α) (h : Inv s) : Inv (backup s) := by
  obtain ⟨hg, hsz, ho1, ho2, ho3, hbk, hr, hsv⟩ := h
  exact ⟨hg, hsz, ho1, ho2, ho3, ⟨_, _, _, hg⟩, hr, hsv⟩

/-- closed form of `revert` when the backup is a consistent grid `(mn, mx, n)` -/
theorem revert_eq (s : State α) (mn mx : α) (n : Nat) (hg : GridOK mn mx n s.prevBounds s.prevPsd) :
    revert s = some { s with psd := s.prevPsd, bounds := s.prevBounds, size := midpoints s.prevBounds,
                             bins := n, min := mn, max := mx } := by
  obtain ⟨hn, _, _, hb, hl, _⟩ := hg
  have h1 : s.prevBounds.head? = some mn := by rw [hb, linspace_head?]
  have h2 : s.prevBounds.getLast? = some mx := by rw [hb, linspace_getLast? _ _ _ hn]
  simp only [revert, h1, h2, hl]

/-- **Inv is preserved by `revert` at any time** (also before any `createBackup`, after `reset`,
after a re-mesh): the backup is part of the invariant.  Before the repair recorded in
known_findings.txt the backup boundaries were initialised to zeros and this failed, see
`revert_zero_backup_breaks`. -/
theorem revert_inv (s s' : State α) (h : Inv s) (hs : revert s = some s') : Inv s' := by
  obtain ⟨hg, hsz, ho1, ho2, ho3, ⟨mn, mx, n, hbk⟩, hr, hsv⟩ := h
  rw [revert_eq s mn mx n hbk] at hs
  have := Option.some.inj hs; subst this
  exact ⟨hbk, rfl, ho1, ho2, ho3, ⟨mn, mx, n, hbk⟩, hr, hsv⟩

/-- **backup/revert**: `revert` directly after `createBackup` on a consistent grid gives back the
distribution, boundaries, centres, class count and range. -/
theorem revert_backup (s : State α) (h : Inv s) :
    ∃ s', revert (backup s) = some s' ∧ s'.psd = s.psd ∧ s'.bounds = s.bounds ∧ s'.size = s.size ∧
      s'.bins = s.bins ∧ s'.min = s.min ∧ s'.max = s.max := by
  have hg : GridOK s.min s.max s.bins (backup s).prevBounds (backup s).prevPsd := h.grid
  refine ⟨_, revert_eq (backup s) _ _ _ hg, rfl, rfl, ?_, rfl, rfl, rfl⟩
  simp only [backup]; exact h.size_eq.symm

/-- the pre-repair behaviour, kept as a record: with an all-zero backup of the right lengths (what
`reset` used to install) `revert` yields a grid whose boundaries are all zero — not a consistent
grid, whatever the state was before. -/
theorem revert_zero_backup_breaks (s s' : State α) (hn : 1 ≤ s.bins)
    (hb : s.prevBounds = zeros (s.bins + 1)) (hp : s.prevPsd = zeros s.bins)
    (hs : revert s = some s') : ¬ Inv s' := by
  intro hinv
  have hhead : s.prevBounds.head? = some 0 := by rw [hb]; simp [zeros, List.replicate_succ]
  have hlast : s.prevBounds.getLast? = some 0 := by
    rw [hb]; simp [zeros, List.getLast?_replicate]
  simp only [revert, hhead, hlast] at hs
  have := Option.some.inj hs; subst this
  exact absurd hinv.grid.lt (lt_irrefl _)

/-! ### automatic adjustment -/

theorem foldl_max_mem : ∀ (xs : List α) (x : α),
    xs.foldl (fun a b => if a < b then b else a) x ∈ x :: xs := by
  intro xs
  induction xs with
  | nil => intro x; simp
  | cons y ys ih =>
    intro x
    simp only [List.foldl_cons]
    have := ih (if x < y then y else x)
    split at this
    · simp only [List.mem_cons] at this ⊢
      next h => simp only [h, if_true]; tauto
    · simp only [List.mem_cons] at this ⊢
      next h => simp only [h, if_false]; tauto

theorem maxList_mem (l : List α) (h : l ≠ []) : maxList l ∈ l := by
  cases l with
  | nil => exact absurd rfl h
  | cons x xs => exact foldl_max_mem xs x

theorem populated_subset (psd xs : List α) : ∀ x ∈ populated psd xs, x ∈ xs := by
  intro x hx
  simp only [populated, List.mem_map, List.mem_filter] at hx
  obtain ⟨⟨p, y⟩, ⟨hz, _⟩, rfl⟩ := hx
  exact (List.of_mem_zip hz).2

theorem populated_ne_nil : ∀ (psd xs : List α), psd.length ≤ xs.length →
    psd.any (fun p => decide ((1 : α) < p)) = true → populated psd xs ≠ [] := by
  intro psd
  induction psd with
  | nil => intro xs _ h; simp at h
  | cons p ps ih =>
    intro xs hl h
    cases xs with
    | nil => simp at hl
    | cons x xs =>
      simp only [List.any_cons, Bool.or_eq_true, decide_eq_true_eq] at h
      by_cases hp : (1 : α) < p
      · simp [populated, hp]
      · have h' : ps.any (fun p => decide ((1 : α) < p)) = true := by
          rcases h with h | h
          · exact absurd h hp
          · exact h
        have := ih xs (by simpa using hl) h'
        simpa [populated, hp] using this

theorem linspace_tail_gt (mn mx : α) (n : Nat) (hn : 1 ≤ n) (h : mn < mx) :
    ∀ b ∈ (linspace mn mx n).tail, mn < b := by
  intro b hb
  obtain ⟨i, hi, rfl⟩ := List.mem_iff_getElem.mp hb
  simp only [List.length_tail, linspace_length] at hi
  have := linspace_getElem? mn mx n (i+1) hn (by omega)
  rw [List.getElem_tail]
  rw [List.getElem?_eq_getElem (by rw [linspace_length]; omega)] at this
  rw [Option.some.inj this]
  have h2 := lin_lt mn mx n 0 (i+1) hn h (by omega)
  rwa [lin_zero] at h2

theorem adjustAdd_inv (s s1 : State α) (chg : Bool) (ni : Option Nat) (h : Inv s)
    (hs : adjustAdd s = some (s1, chg, ni)) : Inv s1 := by
  unfold adjustAdd at hs
  split at hs
  · simp at hs
  · split at hs
    · rw [Option.map_eq_some_iff] at hs
      obtain ⟨s', hadd, heq⟩ := hs
      have : s' = s1 := by simpa using congrArg Prod.fst heq
      subst this
      exact add_inv s s' _ h hadd
    · have : s = s1 := by simpa using congrArg Prod.fst (Option.some.inj hs)
      subst this; exact h

/-- what a re-mesh request of the automatic adjustment looks like on a consistent grid: it starts at
the current minimum, ends above it, and asks for `minBins` classes (when there are more than
`maxBins`) or for `maxBins` classes (dissolution branch) -/
theorem meshTarget_spec (s : State α) (cd : Bool) (a b : α) (n : Nat) (h : Inv s)
    (ht : meshTarget s cd = some (some (a, b, n))) :
    a = s.min ∧ s.min < b ∧ (n = s.minBins ∨ n = s.maxBins) := by
  obtain ⟨hn, hpl, hbl, hsl, hhead, hlast, -⟩ := inv_spec s h
  obtain ⟨⟨-, hm0, hmlt, hbe, -, -⟩, -⟩ := h
  unfold meshTarget at ht
  split at ht
  · rw [hhead, hlast] at ht
    simp only at ht
    split at ht
    · simp only [Option.some.injEq, Prod.mk.injEq] at ht
      obtain ⟨rfl, rfl, rfl⟩ := ht
      exact ⟨rfl, hmlt, Or.inl rfl⟩
    · split at ht
      · split at ht
        · next hany =>
          split at ht
          · simp at ht
          · split at ht
            · simp at ht
            · split at ht
              · simp only [Option.some.injEq, Prod.mk.injEq] at ht
                obtain ⟨rfl, rfl, rfl⟩ := ht
                refine ⟨rfl, ?_, Or.inr rfl⟩
                have hne : populated s.psd s.bounds.tail ≠ [] :=
                  populated_ne_nil _ _ (by simp only [List.length_tail]; omega) hany
                have hmem := populated_subset _ _ _ (maxList_mem _ hne)
                rw [hbe] at hmem
                have := linspace_tail_gt _ _ _ hn hmlt _ hmem
                rwa [← hbe] at this
              · simp at ht
        · simp at ht
      · simp at ht
  · simp at ht

/-- when the automatic adjustment decides not to re-mesh with adaptive binning on, the class count
is already within the cap -/
theorem meshTarget_none_cap (s : State α) (cd : Bool) (ha : s.adaptive = true)
    (ht : meshTarget s cd = some none) : s.bins ≤ s.maxBins := by
  unfold meshTarget at ht
  rw [if_pos ha] at ht
  split at ht
  · split at ht
    · simp at ht
    · next hle => omega
  · simp at ht

theorem meshTarget_bins (s : State α) (cd : Bool) (a b : α) (n : Nat)
    (ht : meshTarget s cd = some (some (a, b, n))) : n = s.minBins ∨ n = s.maxBins := by
  unfold meshTarget at ht
  split at ht
  · split at ht
    · split at ht
      · simp only [Option.some.injEq, Prod.mk.injEq] at ht; exact Or.inl ht.2.2.symm
      · split at ht
        · split at ht
          · split at ht
            · simp at ht
            · split at ht
              · simp at ht
              · split at ht
                · simp only [Option.some.injEq, Prod.mk.injEq] at ht; exact Or.inr ht.2.2.symm
                · simp at ht
          · simp at ht
        · simp at ht
    · simp at ht
  · simp at ht

/-- **Inv is preserved by the automatic adjustment** when `minBins, maxBins ≥ 1` -/
theorem adjust_inv (s s' : State α) (cd chg : Bool) (ni : Option Nat) (h : Inv s)
    (hmin : 1 ≤ s.minBins) (hmax : 1 ≤ s.maxBins)
    (hs : adjust s cd = some (s', chg, ni)) : Inv s' := by
  unfold adjust at hs
  split at hs
  · simp at hs
  · next s1 c1 n1 hadd =>
    have h1 := adjustAdd_inv s s1 c1 n1 h hadd
    have hcfg : s1.minBins = s.minBins ∧ s1.maxBins = s.maxBins := by
      unfold adjustAdd at hadd
      split at hadd
      · simp at hadd
      · split at hadd
        · rw [Option.map_eq_some_iff] at hadd
          obtain ⟨t, hadd', heq⟩ := hadd
          have : t = s1 := by simpa using congrArg Prod.fst heq
          subst this
          rw [add_eq s _ h] at hadd'
          have := Option.some.inj hadd'; subst this; exact ⟨rfl, rfl⟩
        · have : s = s1 := by simpa using congrArg Prod.fst (Option.some.inj hadd)
          subst this; exact ⟨rfl, rfl⟩
    split at hs
    · simp at hs
    · have : s1 = s' := by simpa using congrArg Prod.fst (Option.some.inj hs)
      subst this; exact h1
    · next a b n ht =>
      rw [Option.map_eq_some_iff] at hs
      obtain ⟨s2, hch, heq⟩ := hs
      have : s2 = s' := by simpa using congrArg Prod.fst heq
      subst this
      obtain ⟨ha, hb, hn⟩ := meshTarget_spec s1 cd a b n h1 ht
      apply change_inv s1 s2 a b (some n) false h1 _ _ _ hch
      · intro b' hb'
        have : n = b' := by simpa using hb'
        subst this
        rcases hn with rfl | rfl <;> omega
      · intro _; rw [ha]; exact h1.grid.min_nonneg
      · intro _; rw [ha]; exact lt_amax2 _ _ _ (Or.inr hb)

/-- **adaptive cap**: with adaptive binning on and `minBins ≤ maxBins` the automatic adjustment never
leaves more than `maxBins` classes (no other hypothesis: any state, any distribution). -/
theorem adjust_cap (s s' : State α) (cd chg : Bool) (ni : Option Nat)
    (hmm : s.minBins ≤ s.maxBins) (ha : s.adaptive = true) (hs : adjust s cd = some (s', chg, ni)) :
    s'.bins ≤ s.maxBins := by
  unfold adjust at hs
  split at hs
  · simp at hs
  · next s1 c1 n1 hadd =>
    have hcfg : s1.minBins = s.minBins ∧ s1.maxBins = s.maxBins ∧ s1.adaptive = s.adaptive := by
      unfold adjustAdd at hadd
      split at hadd
      · simp at hadd
      · split at hadd
        · rw [Option.map_eq_some_iff] at hadd
          obtain ⟨t, hadd', heq⟩ := hadd
          have : t = s1 := by simpa using congrArg Prod.fst heq
          subst this
          unfold add at hadd'
          split at hadd'
          · have := Option.some.inj hadd'; subst this; exact ⟨rfl, rfl, rfl⟩
          · simp at hadd'
        · have : s = s1 := by simpa using congrArg Prod.fst (Option.some.inj hadd)
          subst this; exact ⟨rfl, rfl, rfl⟩
    split at hs
    · simp at hs
    · next ht =>
      have : s1 = s' := by simpa using congrArg Prod.fst (Option.some.inj hs)
      subst this
      rw [← hcfg.2.1]; exact meshTarget_none_cap s1 cd (hcfg.2.2 ▸ ha) ht
    · next a b n ht =>
      rw [Option.map_eq_some_iff] at hs
      obtain ⟨s2, hch, heq⟩ := hs
      have : s2 = s' := by simpa using congrArg Prod.fst heq
      subst this
      have hn := meshTarget_bins s1 cd a b n ht
      have hb : s2.bins = n := by
        simp only [change, Bool.false_eq_true, if_false] at hch
        split at hch
        · simp at hch
        · split at hch <;> (have := Option.some.inj hch; subst this; simp [reset, retarget])
      rw [hb]
      rcases hn with rfl | rfl <;> omega

/-! ### PSD recording: enableRecording, record, UpdatePBMEuler, save/load, setPSDtoRecordedTime -/

theorem nonzeroCount_append (a b : List α) : nonzeroCount (a ++ b) = nonzeroCount a + nonzeroCount b := by
  simp [nonzeroCount, List.filter_append]

theorem nonzeroCount_zeros (k : Nat) : nonzeroCount (zeros k : List α) = 0 := by
  unfold nonzeroCount
  rw [List.length_eq_zero_iff, List.filter_eq_nil_iff]
  intro a ha
  simp only [zeros, List.mem_replicate] at ha
  simp [ha.2]

theorem nonzeroCount_pos_all (b : List α) (h : ∀ x ∈ b, 0 < x) : nonzeroCount b = b.length := by
  unfold nonzeroCount
  rw [List.filter_eq_self.mpr]
  intro a ha
  simp [h a ha]

theorem zeros_append (a b : Nat) : (zeros a : List α) ++ zeros b = zeros (a + b) := by
  simp [zeros, List.replicate_append_replicate]

theorem zeros_succ (k : Nat) : (zeros (k + 1) : List α) = 0 :: zeros k := by
  simp [zeros, List.replicate_succ]

/-! the record length of the repaired `_grabPSDfromIndex`: position of the last non-zero boundary + 1 -/

theorem recordedCount_cons (x : α) (xs : List α) :
    recordedCount (x :: xs) =
      if recordedCount xs = 0 then (if x < 0 ∨ 0 < x then 1 else 0) else recordedCount xs + 1 := by
  rw [recordedCount]
  cases recordedCount xs with
  | zero => simp
  | succ k => simp

theorem recordedCount_zeros (k : Nat) : recordedCount (zeros k : List α) = 0 := by
  induction k with
  | zero => rfl
  | succ k ih => rw [zeros_succ, recordedCount_cons, ih]; simp

/-- zero padding at the end does not change the record length -/
theorem recordedCount_append_zeros (b : List α) (k : Nat) :
    recordedCount (b ++ zeros k) = recordedCount b := by
  induction b with
  | nil => rw [List.nil_append, recordedCount_zeros]; rfl
  | cons x xs ih => rw [List.cons_append, recordedCount_cons, recordedCount_cons, ih]

/-- a row whose last entry is not zero is a record of its full length, whatever the other entries
are (in particular a zero FIRST boundary is counted) -/
theorem recordedCount_of_getLast_ne : ∀ (b : List α) (l : α), b.getLast? = some l → l ≠ 0 →
    recordedCount b = b.length := by
  intro b
  induction b with
  | nil => intro l h; simp at h
  | cons x xs ih =>
    intro l h hl
    cases xs with
    | nil =>
      simp only [List.getLast?_singleton, Option.some.injEq] at h
      subst h
      rw [recordedCount_cons]
      simp only [recordedCount, if_true, List.length_singleton]
      rw [if_pos (lt_or_gt_of_ne hl)]
    | cons y ys =>
      rw [List.getLast?_cons_cons] at h
      have := ih l h hl
      rw [recordedCount_cons, this]
      simp

theorem rowOK_pad (rb rp : List α) (w1 w2 : Nat) (h : RowOK rb rp) : RowOK (padRow w1 rb) (padRow w2 rp) := by
  rcases h with h | ⟨mn, mx, n, b, p, k1, k2, hg, rfl, rfl⟩
  · left; unfold padRow; rw [recordedCount_append_zeros, h]
  · right
    refine ⟨mn, mx, n, b, p, k1 + (w1 - (b ++ zeros k1).length), k2 + (w2 - (p ++ zeros k2).length), hg, ?_, ?_⟩ <;>
      (unfold padRow; rw [List.append_assoc, zeros_append])

theorem rowOK_zeros (a b : Nat) : RowOK (zeros a : List α) (zeros b) := Or.inl (recordedCount_zeros a)

/-- every consistent grid — a lower end of exactly 0 included — gives a well-formed record row -/
theorem rowOK_grid (mn mx : α) (n : Nat) (b p : List α) (w1 w2 : Nat)
    (hg : GridOK mn mx n b p) : RowOK (padRow w1 b) (padRow w2 p) :=
  Or.inr ⟨mn, mx, n, b, p, _, _, hg, rfl, rfl⟩

theorem recsOK_record (B P : List (List α)) (T : List α) (w1 w2 : Nat) (rb rp : List α) (t : α)
    (h : RecsOK B P T) (hrow : RowOK rb rp) :
    RecsOK (B.map (padRow w1) ++ [rb]) (P.map (padRow w2) ++ [rp]) (T ++ [t]) := by
  obtain ⟨h1, h2, h3⟩ := h
  refine ⟨by simp [h1], by simp [h2], ?_⟩
  intro q hq
  rw [List.zip_append (by simp [h1]), List.mem_append] at hq
  rcases hq with hq | hq
  · rw [List.zip_map, List.mem_map] at hq
    obtain ⟨q0, hq0, rfl⟩ := hq
    exact rowOK_pad _ _ _ _ (h3 q0 hq0)
  · simp only [List.zip_cons_cons, List.zip_nil_right, List.mem_singleton] at hq
    subst hq; exact hrow

/-- **Inv is preserved by `record`** — no precondition: the grid may start at R = 0 (since repair
a549be2 the record length is the position of the last non-zero boundary, so a zero first boundary
is kept) -/
theorem record_inv (s s' : State α) (t : α) (h : Inv s) (hs : record s t = some s') : Inv s' := by
  obtain ⟨hg, hsz, ho1, ho2, ho3, hbk, hr, hsv⟩ := h
  unfold record at hs
  by_cases hrec : s.recording = true
  · rw [if_pos hrec] at hs
    generalize (if s.adaptive = true then s.maxBins else s.bins) = mb at hs
    unfold recordWith at hs
    split at hs
    · simp at hs
    · have := Option.some.inj hs; subst this
      exact ⟨hg, hsz, ho1, ho2, ho3, hbk,
        recsOK_record _ _ _ _ _ _ _ _ hr (rowOK_grid _ _ _ _ _ _ _ hg), hsv⟩
  · rw [if_neg hrec] at hs
    have := Option.some.inj hs; subst this; exact ⟨hg, hsz, ho1, ho2, ho3, hbk, hr, hsv⟩

/-- `record` only touches the recorded arrays -/
theorem record_fields (s s' : State α) (t : α) (hs : record s t = some s') :
    s' = { s with recBins := s'.recBins, recPsd := s'.recPsd, recTime := s'.recTime } := by
  unfold record at hs
  by_cases hrec : s.recording = true
  · rw [if_pos hrec] at hs
    generalize (if s.adaptive = true then s.maxBins else s.bins) = mb at hs
    unfold recordWith at hs
    split at hs
    · simp at hs
    · have := Option.some.inj hs; subst this; rfl
  · rw [if_neg hrec] at hs
    have := Option.some.inj hs; subst this; rfl

/-- **Inv is preserved by `UpdatePBMEuler`** for a distribution of the right length (any sign: entries
below 1 are dropped), recording or not, on any consistent grid (lower end 0 included) -/
theorem update_inv_any (s s' : State α) (t : α) (N : List α) (h : Inv s) (hN : N.length = s.bins)
    (hs : update s t N = some s') : Inv s' := by
  unfold update at hs
  refine record_inv { s with psd := N.map (fun x => if x < 1 then 0 else x) } s' t ?_ hs
  obtain ⟨⟨hn, hm0, hmlt, hbe, hl, hp⟩, hsz, ho1, ho2, ho3, hbk, hr, hsv⟩ := h
  refine ⟨⟨hn, hm0, hmlt, hbe, by rw [List.length_map]; exact hN, ?_⟩, hsz, ho1, ho2, ho3, hbk, hr, hsv⟩
  intro x hx
  rw [List.mem_map] at hx
  obtain ⟨y, _, rfl⟩ := hx
  split
  · exact le_refl _
  · next hy => linarith [not_lt.mp hy]

/-- `update_inv_any` in the form other modules call it.  The hypothesis `hpos` (positive lower end
while recording) was needed while `_grabPSDfromIndex` counted non-zero boundaries; it is NOT used
any more and is kept only so that existing callers keep compiling. -/
theorem update_inv (s s' : State α) (t : α) (N : List α) (h : Inv s) (hN : N.length = s.bins)
    (hpos : s.recording = true → 0 < s.min) (hs : update s t N = some s') : Inv s' :=
  update_inv_any s s' t N h hN hs

theorem enableRec_inv (s : State α) (h : Inv s) : Inv (enableRec s) := by
  obtain ⟨hg, hsz, ho1, ho2, ho3, hbk, hr, hsv⟩ := h
  refine ⟨hg, hsz, ho1, ho2, ho3, hbk, ⟨rfl, rfl, ?_⟩, hsv⟩
  intro q hq
  simp only [enableRec, List.zip_cons_cons, List.zip_nil_right, List.mem_singleton] at hq
  subst hq; exact rowOK_zeros _ _

theorem saveRec_inv (s : State α) (h : Inv s) : Inv (saveRec s) := by
  obtain ⟨hg, hsz, ho1, ho2, ho3, hbk, hr, hsv⟩ := h
  unfold saveRec
  split
  · exact ⟨hg, hsz, ho1, ho2, ho3, hbk, hr, hr⟩
  · exact ⟨hg, hsz, ho1, ho2, ho3, hbk, hr, hsv⟩

theorem loadRec_inv (s s' : State α) (h : Inv s) (hs : loadRec s = some s') : Inv s' := by
  obtain ⟨hg, hsz, ho1, ho2, ho3, hbk, hr, hsv⟩ := h
  unfold loadRec at hs
  split at hs
  · have := Option.some.inj hs; subst this; exact ⟨hg, hsz, ho1, ho2, ho3, hbk, hsv, hsv⟩
  · simp at hs

/-! extremes of a grid (`np.amin`, `np.amax` of the boundaries) -/

theorem le_foldl_max : ∀ (xs : List α) (a : α),
    a ≤ xs.foldl (fun a b => if a < b then b else a) a ∧
    ∀ x ∈ xs, x ≤ xs.foldl (fun a b => if a < b then b else a) a := by
  intro xs
  induction xs with
  | nil => intro a; simp
  | cons y ys ih =>
    intro a
    simp only [List.foldl_cons, List.mem_cons]
    obtain ⟨h1, h2⟩ := ih (if a < y then y else a)
    refine ⟨le_trans ?_ h1, ?_⟩
    · split <;> [exact le_of_lt ‹_›; exact le_refl _]
    · intro x hx
      rcases hx with rfl | hx
      · refine le_trans ?_ h1
        split <;> [exact le_refl _; exact not_lt.mp ‹_›]
      · exact h2 x hx

theorem le_maxList (xs : List α) (x : α) (hx : x ∈ xs) : x ≤ maxList xs := by
  cases xs with
  | nil => simp at hx
  | cons y ys =>
    unfold maxList
    obtain ⟨h1, h2⟩ := le_foldl_max ys y
    rcases List.mem_cons.mp hx with rfl | h
    · exact h1
    · exact h2 x h

theorem foldl_min_spec : ∀ (xs : List α) (a : α),
    xs.foldl (fun a b => if b < a then b else a) a ∈ a :: xs ∧
    xs.foldl (fun a b => if b < a then b else a) a ≤ a ∧
    ∀ x ∈ xs, xs.foldl (fun a b => if b < a then b else a) a ≤ x := by
  intro xs
  induction xs with
  | nil => intro a; simp
  | cons y ys ih =>
    intro a
    simp only [List.foldl_cons, List.mem_cons]
    obtain ⟨h1, h2, h3⟩ := ih (if y < a then y else a)
    by_cases hya : y < a
    · simp only [hya, if_true] at h1 h2 h3 ⊢
      refine ⟨?_, le_trans h2 hya.le, ?_⟩
      · rcases List.mem_cons.mp h1 with h | h
        · exact Or.inr (Or.inl h)
        · exact Or.inr (Or.inr h)
      · intro x hx
        rcases hx with rfl | hx
        · exact h2
        · exact h3 x hx
    · simp only [hya, if_false] at h1 h2 h3 ⊢
      refine ⟨?_, h2, ?_⟩
      · rcases List.mem_cons.mp h1 with h | h
        · exact Or.inl h
        · exact Or.inr (Or.inr h)
      · intro x hx
        rcases hx with rfl | hx
        · exact le_trans h2 (not_lt.mp hya)
        · exact h3 x hx

theorem linspace_mem_le (mn mx : α) (n : Nat) (hn : 1 ≤ n) (h : mn < mx) :
    ∀ b ∈ linspace mn mx n, b ≤ mx := by
  intro b hb
  obtain ⟨i, hi, rfl⟩ := List.mem_iff_getElem.mp hb
  rw [linspace_length] at hi
  have := linspace_getElem? mn mx n i hn (by omega)
  rw [List.getElem?_eq_getElem (by rw [linspace_length]; exact hi)] at this
  rw [Option.some.inj this]
  rcases Nat.lt_or_ge i n with h0 | h0
  · have := lin_lt mn mx n i n hn h h0
    rw [lin_last _ _ _ hn] at this; exact le_of_lt this
  · have : i = n := by omega
    subst this; rw [lin_last _ _ _ hn]

theorem maxList_linspace (mn mx : α) (n : Nat) (hn : 1 ≤ n) (h : mn < mx) :
    maxList (linspace mn mx n) = mx := by
  have hne : linspace mn mx n ≠ [] := by
    intro h0; have := linspace_length mn mx n; rw [h0] at this; simp at this
  apply le_antisymm
  · exact linspace_mem_le mn mx n hn h _ (maxList_mem _ hne)
  · exact le_maxList _ _ (List.mem_of_getLast? (linspace_getLast? mn mx n hn))

theorem minList_linspace (mn mx : α) (n : Nat) (hn : 1 ≤ n) (h : mn < mx) :
    minList (linspace mn mx n) = mn := by
  have hh := linspace_head? mn mx n
  rcases hl : linspace mn mx n with _ | ⟨x, xs⟩
  · rw [hl] at hh; simp at hh
  · rw [hl] at hh
    simp only [List.head?_cons, Option.some.injEq] at hh
    subst hh
    unfold minList
    obtain ⟨h1, h2, h3⟩ := foldl_min_spec xs x
    apply le_antisymm h2
    have := linspace_mem_ge x mx n hn h _ (hl ▸ h1)
    exact this

/-- what a correct `_grabPSDfromIndex` result looks like -/
structure GrabOK (g : Grab α) (mn mx : α) (n : Nat) : Prop where
  grid : GridOK mn mx n g.bounds g.psd
  size_eq : g.size = midpoints g.bounds
  bins_eq : g.bins = n
  mn_eq : g.mn = mn
  mx_eq : g.mx = mx
  minl : minList g.bounds = mn
  maxl : maxList g.bounds = mx

/-! strictly increasing boundaries: extremes are the ends -/

theorem pairwise_le_getLast : ∀ (b : List α) (l : α), b.Pairwise (· < ·) → b.getLast? = some l →
    ∀ y ∈ b, y ≤ l := by
  intro b
  induction b with
  | nil => intro l _ h; simp at h
  | cons x xs ih =>
    intro l hp hl y hy
    cases xs with
    | nil =>
      simp only [List.getLast?_singleton, Option.some.injEq] at hl
      simp only [List.mem_singleton] at hy
      rw [hy, hl]
    | cons z zs =>
      rw [List.getLast?_cons_cons] at hl
      rw [List.pairwise_cons] at hp
      rcases List.mem_cons.mp hy with rfl | hy
      · exact (hp.1 l (List.mem_of_getLast? hl)).le
      · exact ih l hp.2 hl y hy

theorem maxList_pairwise (b : List α) (l : α) (hp : b.Pairwise (· < ·)) (hl : b.getLast? = some l) :
    maxList b = l := by
  have hne : b ≠ [] := by intro h; rw [h] at hl; simp at hl
  apply le_antisymm
  · exact pairwise_le_getLast b l hp hl _ (maxList_mem b hne)
  · exact le_maxList _ _ (List.mem_of_getLast? hl)

theorem minList_pairwise (x : α) (xs : List α) (hp : (x :: xs).Pairwise (· < ·)) : minList (x :: xs) = x := by
  unfold minList
  obtain ⟨h1, h2, _⟩ := foldl_min_spec xs x
  rcases List.mem_cons.mp h1 with h | h
  · exact h
  · exact absurd ((List.pairwise_cons.mp hp).1 _ h) (not_lt.mpr h2)

theorem linspace_pairwise (mn mx : α) (n : Nat) (hn : 1 ≤ n) (h : mn < mx) :
    (linspace mn mx n).Pairwise (· < ·) := by
  rw [List.pairwise_iff_getElem]
  intro i j hi hj hij
  have hi' : i < n + 1 := by rw [linspace_length] at hi; exact hi
  have hj' : j < n + 1 := by rw [linspace_length] at hj; exact hj
  have e1 := linspace_getElem? mn mx n i hn (by omega)
  have e2 := linspace_getElem? mn mx n j hn (by omega)
  rw [List.getElem?_eq_getElem hi] at e1
  rw [List.getElem?_eq_getElem hj] at e2
  rw [Option.some.inj e1, Option.some.inj e2]
  exact lin_lt mn mx n i j hn h hij

/-- **a restored record is exactly what was recorded** (repaired `_grabPSDfromIndex`): for a row pair
recorded from a grid with at least one class whose boundaries `b` are strictly increasing and start
at a NON-NEGATIVE value — a first boundary of exactly 0 included — and its populations `p`, each
padded with any number of zeros, `grab` returns exactly `b` and `p`: same boundaries, same
populations, same class count, centres = midpoints, and the stated minimum / maximum are the first /
last boundary.  (`s` only supplies the original grid for the all-zero row; it does not enter.) -/
theorem grab_restores_record (s : State α) (b p : List α) (k1 k2 : Nat)
    (hlen : 2 ≤ b.length) (hp : p.length + 1 = b.length) (hinc : b.Pairwise (· < ·))
    (h0 : ∀ x, b.head? = some x → 0 ≤ x) :
    grab s (b ++ zeros k1) (p ++ zeros k2) =
        { bounds := b, psd := p, size := midpoints b, bins := p.length, mn := minList b, mx := maxList b } ∧
      b.head? = some (minList b) ∧ b.getLast? = some (maxList b) := by
  rcases hb : b with _ | ⟨x0, _ | ⟨x1, rest⟩⟩
  · rw [hb] at hlen; simp at hlen
  · rw [hb] at hlen; simp at hlen
  · rw [← hb]
    have hx0 : 0 ≤ x0 := h0 x0 (by rw [hb]; rfl)
    obtain ⟨l, hl⟩ : ∃ l, b.getLast? = some l := by
      rw [hb, List.getLast?_cons_cons]
      exact ⟨_, List.getLast?_eq_some_getLast (List.cons_ne_nil x1 rest)⟩
    have hlpos : 0 < l := by
      have hmem : l ∈ x1 :: rest := by
        rw [hb, List.getLast?_cons_cons] at hl; exact List.mem_of_getLast? hl
      have := (List.pairwise_cons.mp (hb ▸ hinc)).1 l hmem
      linarith
    have hcnt : recordedCount (b ++ zeros k1) = b.length := by
      rw [recordedCount_append_zeros]
      exact recordedCount_of_getLast_ne b l hl (ne_of_gt hlpos)
    have hne : b.length ≠ 0 := by omega
    have ht1 : (b ++ zeros k1).take b.length = b := List.take_left' rfl
    have ht2 : (p ++ zeros k2).take (b.length - 1) = p := List.take_left' (by omega)
    refine ⟨?_, ?_, ?_⟩
    · simp only [grab, grabWith, hcnt, hne, if_false, ht1, ht2]
    · rw [hb, minList_pairwise x0 (x1 :: rest) (hb ▸ hinc)]; rfl
    · rw [hl, maxList_pairwise b l hinc hl]

/-- the number of non-zero entries (the record length BEFORE repair a549be2) of a row recorded from
a grid that starts at exactly 0 is one short: the last class of the record is lost by `grabOld` -/
theorem nonzeroCount_zero_start (xs : List α) (k : Nat) (h : ∀ x ∈ xs, 0 < x) :
    nonzeroCount ((0 : α) :: xs ++ zeros k) = xs.length := by
  have : (0 : α) :: xs ++ zeros k = [0] ++ (xs ++ zeros k) := by simp
  rw [this, nonzeroCount_append, nonzeroCount_append, nonzeroCount_zeros, nonzeroCount_pos_all xs h]
  simp [nonzeroCount]

/-- a consistent record is read back as the consistent grid that was recorded (or, for the all-zero
first record, as the original empty grid) -/
theorem grab_ok (s : State α) (rb rp : List α) (hrow : RowOK rb rp)
    (ho1 : 1 ≤ s.origBins) (ho2 : 0 ≤ s.origMin) (ho3 : s.origMin < s.origMax) :
    ∃ mn mx n, GrabOK (grab s rb rp) mn mx n := by
  rcases hrow with h | ⟨mn, mx, n, b, p, k1, k2, hg, rfl, rfl⟩
  · refine ⟨s.origMin, s.origMax, s.origBins, ?_⟩
    simp only [grab, grabWith, h, if_true]
    exact ⟨gridOK_fresh _ _ _ ho1 ho2 ho3, rfl, rfl, minList_linspace _ _ _ ho1 ho3, maxList_linspace _ _ _ ho1 ho3,
      minList_linspace _ _ _ ho1 ho3, maxList_linspace _ _ _ ho1 ho3⟩
  · have hb := hg.bounds_eq
    have hbl : b.length = n + 1 := by rw [hb, linspace_length]
    have hn := hg.bins_pos
    have hr := (grab_restores_record s b p k1 k2 (by omega) (by rw [hg.psd_len, hbl])
      (by rw [hb]; exact linspace_pairwise _ _ _ hg.bins_pos hg.lt)
      (by intro x hx; rw [hb, linspace_head?] at hx; rw [← Option.some.inj hx]; exact hg.min_nonneg)).1
    refine ⟨mn, mx, n, ?_⟩
    rw [hr]
    have hmin : minList b = mn := by rw [hb]; exact minList_linspace _ _ _ hg.bins_pos hg.lt
    have hmax : maxList b = mx := by rw [hb]; exact maxList_linspace _ _ _ hg.bins_pos hg.lt
    exact ⟨hg, rfl, hg.psd_len, hmin, hmax, hmin, hmax⟩

/-- **restoring a consistent grid from its record gives back that grid**, lower end 0 included:
boundaries, populations, class count, minimum and maximum -/
theorem grab_restores_grid (s : State α) (mn mx : α) (n : Nat) (b p : List α) (w1 w2 : Nat)
    (hg : GridOK mn mx n b p) :
    grab s (padRow w1 b) (padRow w2 p) =
      { bounds := b, psd := p, size := midpoints b, bins := n, mn := mn, mx := mx } := by
  have hb := hg.bounds_eq
  have hbl : b.length = n + 1 := by rw [hb, linspace_length]
  have hn := hg.bins_pos
  have hr := (grab_restores_record s b p (w1 - b.length) (w2 - p.length) (by omega) (by rw [hg.psd_len, hbl])
    (by rw [hb]; exact linspace_pairwise _ _ _ hg.bins_pos hg.lt)
    (by intro x hx; rw [hb, linspace_head?] at hx; rw [← Option.some.inj hx]; exact hg.min_nonneg)).1
  unfold padRow
  rw [hr, hg.psd_len]
  have hmin : minList b = mn := by rw [hb]; exact minList_linspace _ _ _ hg.bins_pos hg.lt
  have hmax : maxList b = mx := by rw [hb]; exact maxList_linspace _ _ _ hg.bins_pos hg.lt
  rw [hmin, hmax]

theorem applyGrab_inv (s : State α) (g : Grab α) (mn mx : α) (n : Nat) (h : Inv s) (hg : GrabOK g mn mx n) :
    Inv (applyGrab s g) := by
  obtain ⟨_, hsz, ho1, ho2, ho3, hbk, hr, hsv⟩ := h
  obtain ⟨g1, g2, g3, g4, g5, _, _⟩ := hg
  refine ⟨?_, g2, ho1, ho2, ho3, hbk, hr, hsv⟩
  simp only [applyGrab, g3, g4, g5]
  exact g1

theorem interp0_nonneg (xp fp : List α) (x : α) (hf : ∀ y ∈ fp, 0 ≤ y) : 0 ≤ interp0 xp fp x := by
  unfold interp0
  split
  · next x0 _ f0 _ =>
    split
    · exact le_refl _
    · next h =>
      split
      · split
        · exact le_refl _
        · apply interpAux_nonneg _ _ _ hf
          intro y hy; simp at hy; subst hy; exact not_lt.mp h
      · exact le_refl _
  · exact le_refl _

/-- re-expressing a consistent record on another consistent grid gives one non-negative population
per class of the target grid -/
theorem resize_ok (src dst : Grab α) (m1 x1 : α) (n1 : Nat) (m2 x2 : α) (n2 : Nat)
    (h1 : GrabOK src m1 x1 n1) (h2 : GrabOK dst m2 x2 n2) (q : List α) (hq : resize src dst = some q) :
    q.length = n2 ∧ ∀ x ∈ q, 0 ≤ x := by
  have hw1 : ∀ w ∈ widths src.bounds, 0 ≤ w := by
    intro w hw; rw [h1.grid.bounds_eq] at hw
    exact (widths_linspace_nonneg _ _ _ h1.grid.bins_pos h1.grid.lt w hw).le
  have hw2 : ∀ w ∈ widths dst.bounds, 0 ≤ w := by
    intro w hw; rw [h2.grid.bounds_eq] at hw
    exact (widths_linspace_nonneg _ _ _ h2.grid.bins_pos h2.grid.lt w hw).le
  have hs1 : ∀ r ∈ src.size, 0 ≤ r := by
    rw [h1.size_eq, h1.grid.bounds_eq]
    exact midpoints_linspace_nonneg _ _ _ h1.grid.bins_pos h1.grid.min_nonneg h1.grid.lt
  have hs2 : ∀ r ∈ dst.size, 0 ≤ r := by
    rw [h2.size_eq, h2.grid.bounds_eq]
    exact midpoints_linspace_nonneg _ _ _ h2.grid.bins_pos h2.grid.min_nonneg h2.grid.lt
  have hraw : ∀ x ∈ List.zipWith (fun x w => interp0 (midpoints src.bounds)
      (List.zipWith (fun p w => p / w) src.psd (widths src.bounds)) x * w) dst.size (widths dst.bounds), 0 ≤ x := by
    apply forall_mem_zipWith _ (fun _ => True) (fun w => 0 ≤ w) (fun x => 0 ≤ x)
    · intro a w _ hw0
      refine mul_nonneg (interp0_nonneg _ _ _ ?_) hw0
      exact forall_mem_zipWith _ (fun p => 0 ≤ p) (fun w => 0 ≤ w) (fun x => 0 ≤ x)
        (fun p w a b => div_nonneg a b) _ _ h1.grid.psd_nonneg hw1
    · intros; trivial
    · exact hw2
  have hlen : (List.zipWith (fun x w => interp0 (midpoints src.bounds)
      (List.zipWith (fun p w => p / w) src.psd (widths src.bounds)) x * w) dst.size (widths dst.bounds)).length = n2 := by
    simp only [List.length_zipWith, h2.size_eq, midpoints_length, widths_length, h2.grid.bounds_eq, linspace_length]
    omega
  simp only [resize] at hq
  split at hq
  · simp at hq
  · split at hq
    · have := Option.some.inj hq; subst this
      refine ⟨by rw [List.length_map]; exact hlen, ?_⟩
      intro x hx
      simp only [List.mem_map] at hx
      obtain ⟨y, hy, rfl⟩ := hx
      refine mul_nonneg (hraw y hy) (div_nonneg ?_ ?_)
      · exact moment_nonneg _ _ _ h1.grid.psd_nonneg hs1
      · exact moment_nonneg _ _ _ hraw hs2
    · have := Option.some.inj hq; subst this
      exact ⟨by rw [zeros_length, h2.bins_eq], zeros_nonneg _⟩

theorem blend_nonneg (U L : List α) (t lt ut : α) (hU : ∀ x ∈ U, 0 ≤ x) (hL : ∀ x ∈ L, 0 ≤ x)
    (h1 : lt ≤ t) (h2 : t < ut) : ∀ x ∈ blend U L t lt ut, 0 ≤ x := by
  unfold blend
  apply forall_mem_zipWith _ (fun x => 0 ≤ x) (fun x => 0 ≤ x) (fun x => 0 ≤ x) _ _ _ hU hL
  intro u l hu hl
  have hd : 0 < ut - lt := by linarith
  have : (u - l) * (t - lt) / (ut - lt) + l = (u * (t - lt) + l * (ut - t)) / (ut - lt) := by
    field_simp; ring
  rw [this]
  apply div_nonneg _ hd.le
  have : 0 ≤ t - lt := by linarith
  have : 0 ≤ ut - t := by linarith
  positivity

/-- the blended state sits on the grid `g` (the record with more classes) -/
theorem onGrid_inv (s : State α) (g : Grab α) (mn mx : α) (n : Nat) (psd : List α) (h : Inv s)
    (hg : GrabOK g mn mx n) (hl : psd.length = n) (hp : ∀ x ∈ psd, 0 ≤ x) :
    Inv { s with bounds := g.bounds, size := midpoints g.bounds, psd := psd,
                 bins := (midpoints g.bounds).length, min := minList g.bounds, max := maxList g.bounds } := by
  obtain ⟨_, hsz, ho1, ho2, ho3, hbk, hr, hsv⟩ := h
  have hbins : (midpoints g.bounds).length = n := by
    rw [midpoints_length, hg.grid.bounds_eq, linspace_length]; omega
  refine ⟨?_, rfl, ho1, ho2, ho3, hbk, hr, hsv⟩
  simp only [hbins, hg.minl, hg.maxl]
  exact ⟨hg.grid.bins_pos, hg.grid.min_nonneg, hg.grid.lt, hg.grid.bounds_eq, hl, hp⟩

theorem between_inv (s s' : State α) (u l : Grab α) (t lt ut : α) (h : Inv s)
    (mu xu : α) (nu : Nat) (ml xl : α) (nl : Nat) (hu : GrabOK u mu xu nu) (hl : GrabOK l ml xl nl)
    (h1 : lt ≤ t) (h2 : t < ut) (hs : between s u l t lt ut = some s') : Inv s' := by
  unfold between at hs
  split at hs
  · rw [Option.map_eq_some_iff] at hs
    obtain ⟨lp, hres, rfl⟩ := hs
    obtain ⟨hlen, hnn⟩ := resize_ok l u _ _ _ _ _ _ hl hu lp hres
    apply onGrid_inv s u mu xu nu _ h hu
    · simp [blend, hlen, hu.grid.psd_len]
    · exact blend_nonneg _ _ _ _ _ hu.grid.psd_nonneg hnn h1 h2
  · rw [Option.map_eq_some_iff] at hs
    obtain ⟨up, hres, rfl⟩ := hs
    obtain ⟨hlen, hnn⟩ := resize_ok u l _ _ _ _ _ _ hu hl up hres
    apply onGrid_inv s l ml xl nl _ h hl
    · simp [blend, hlen, hl.grid.psd_len]
    · exact blend_nonneg _ _ _ _ _ hnn hl.grid.psd_nonneg h1 h2

theorem rowOK_of_getElem? (B P : List (List α)) (T : List α) (h : RecsOK B P T) (i : Nat) (rb rp : List α)
    (hb : B[i]? = some rb) (hp : P[i]? = some rp) : RowOK rb rp := by
  have : (B.zip P)[i]? = some (rb, rp) := List.getElem?_zip_eq_some.mpr ⟨hb, hp⟩
  exact h.2.2 (rb, rp) (List.mem_of_getElem? this)

/-- first index at which a predicate holds, when there is one (`np.argmax` of a boolean array) -/
theorem argmaxFirst_first (p : Nat → Bool) (len j : Nat) (hj : j < len) (hp : p j = true) :
    argmaxFirst p len < len ∧ p (argmaxFirst p len) = true ∧ ∀ k, k < argmaxFirst p len → p k = false := by
  unfold argmaxFirst
  cases hf : (List.range len).find? (fun i => p i) with
  | none =>
    rw [List.find?_eq_none] at hf
    exact absurd hp (hf j (by simpa using hj))
  | some i =>
    rw [List.find?_eq_some_iff_getElem] at hf
    obtain ⟨hpi, k, hk, hki, hmin⟩ := hf
    simp only [List.getElem_range] at hki hmin
    subst hki
    simp only [List.length_range] at hk
    refine ⟨hk, hpi, ?_⟩
    intro m hm
    have := hmin m hm
    simpa using this

/-- **Inv is preserved by `setPSDtoRecordedTime`** at any time, for any requested time: before the
first record, after the last, or in between (blend of the neighbouring records) -/
theorem setRecorded_inv (s s' : State α) (t : α) (h : Inv s) (hs : setRecorded s t = some s') : Inv s' := by
  have hr := h.recs
  have ho1 := h.orig_bins
  have ho2 := h.orig_nonneg
  have ho3 := h.orig_lt
  unfold setRecorded at hs
  split at hs
  · split at hs
    · next t0 tl hhead hlast =>
      split at hs
      · split at hs
        · next rb rp hb hp =>
          have := Option.some.inj hs; subst this
          obtain ⟨mn, mx, n, hg⟩ := grab_ok s rb rp (rowOK_of_getElem? _ _ _ hr 0 rb rp hb hp) ho1 ho2 ho3
          exact applyGrab_inv s _ mn mx n h hg
        · simp at hs
      · split at hs
        · split at hs
          · next rb rp hb hp =>
            have := Option.some.inj hs; subst this
            rw [List.getLast?_eq_getElem?] at hb hp
            rw [← hr.1] at hp
            obtain ⟨mn, mx, n, hg⟩ := grab_ok s rb rp (rowOK_of_getElem? _ _ _ hr _ rb rp hb hp) ho1 ho2 ho3
            exact applyGrab_inv s _ mn mx n h hg
          · simp at hs
        · next hnle1 hnle2 =>
          dsimp only at hs
          split at hs
          · next ub up lb lp ut lt hub hup hlb hlp hut hlt =>
            have ht0 : t0 < t := not_le.mp hnle1
            have htl : t < tl := not_le.mp hnle2
            -- the last time exceeds t, so a first index with a larger time exists
            have hlen : 0 < s.recTime.length := by
              cases hT : s.recTime with
              | nil => rw [hT] at hhead; simp at hhead
              | cons a as => simp
            have hlastD : s.recTime.getD (s.recTime.length - 1) 0 = tl := by
              rw [List.getLast?_eq_getElem?] at hlast
              rw [List.getD_eq_getElem?_getD, hlast]; rfl
            obtain ⟨_, hpu, hmin⟩ := argmaxFirst_first (fun i => decide (t < s.recTime.getD i 0)) s.recTime.length
              (s.recTime.length - 1) (by omega)
              (by show decide (t < s.recTime.getD (s.recTime.length - 1) 0) = true; rw [hlastD]; exact decide_eq_true htl)
            have hutD : s.recTime.getD (argmaxFirst (fun i => decide (t < s.recTime.getD i 0)) s.recTime.length) 0 = ut := by
              rw [List.getD_eq_getElem?_getD, hut]; rfl
            have h2 : t < ut := by
              have := hpu; simp only [decide_eq_true_eq] at this; rw [hutD] at this; exact this
            have hu0 : argmaxFirst (fun i => decide (t < s.recTime.getD i 0)) s.recTime.length ≠ 0 := by
              intro h0
              rw [h0] at hpu
              simp only [decide_eq_true_eq] at hpu
              rw [List.head?_eq_getElem?] at hhead
              rw [List.getD_eq_getElem?_getD, hhead] at hpu
              exact absurd hpu (not_lt.mpr ht0.le)
            have h1 : lt ≤ t := by
              have := hmin (argmaxFirst (fun i => decide (t < s.recTime.getD i 0)) s.recTime.length - 1) (by omega)
              simp only [decide_eq_false_iff_not, not_lt] at this
              rw [List.getD_eq_getElem?_getD, hlt] at this
              exact this
            obtain ⟨mu, xu, nu, hgu⟩ := grab_ok s ub up (rowOK_of_getElem? _ _ _ hr _ ub up hub hup) ho1 ho2 ho3
            obtain ⟨ml, xl, nl, hgl⟩ := grab_ok s lb lp (rowOK_of_getElem? _ _ _ hr _ lb lp hlb hlp) ho1 ho2 ho3
            exact between_inv s s' _ _ t lt ut h mu xu nu ml xl nl hgu hgl h1 h2 hs
          · simp at hs
    · simp at hs
  · have := Option.some.inj hs; subst this; exact h

/-- **record, then restore at (or after) that time: the grid and the distribution come back exactly** —
boundaries, populations, centres, class count, stated minimum and maximum — on every consistent
grid, a lower end of exactly 0 included, whatever was recorded before (`t0` is the first recorded
time; a request at or before it returns the first record instead). -/
theorem record_then_restore (s s1 : State α) (t t' : α) (h : Inv s) (hrec : s.recording = true)
    (hs : record s t = some s1) (ht : t ≤ t') (h0 : ∀ t0, s.recTime.head? = some t0 → t0 < t') :
    ∃ s2, setRecorded s1 t' = some s2 ∧ s2.bounds = s.bounds ∧ s2.psd = s.psd ∧ s2.size = s.size ∧
      s2.bins = s.bins ∧ s2.min = s.min ∧ s2.max = s.max := by
  unfold record at hs
  rw [if_pos hrec] at hs
  generalize (if s.adaptive = true then s.maxBins else s.bins) = mb at hs
  unfold recordWith at hs
  split at hs
  · simp at hs
  · have hs1 := Option.some.inj hs
    have e_rec : s1.recording = true := by rw [← hs1]; exact hrec
    have e_T : s1.recTime = s.recTime ++ [t] := by rw [← hs1]
    have e_B : s1.recBins = s.recBins.map (padRow (mb + 1)) ++ [padRow (mb + 1) s.bounds] := by rw [← hs1]
    have e_P : s1.recPsd = s.recPsd.map (padRow mb) ++ [padRow mb s.psd] := by rw [← hs1]
    have hrow := grab_restores_grid s1 _ _ _ _ _ (mb + 1) mb h.grid
    have hlast : s1.recTime.getLast? = some t := by rw [e_T]; simp
    have hBl : s1.recBins.getLast? = some (padRow (mb + 1) s.bounds) := by rw [e_B]; simp
    have hPl : s1.recPsd.getLast? = some (padRow mb s.psd) := by rw [e_P]; simp
    refine ⟨applyGrab s1 (grab s1 (padRow (mb + 1) s.bounds) (padRow mb s.psd)), ?_, ?_⟩
    · unfold setRecorded
      rw [if_pos e_rec]
      cases hT : s.recTime with
      | nil =>
        have hB0 : s.recBins = [] := by
          have := h.recs.2.1; rw [hT] at this; exact List.length_eq_zero_iff.mp this
        have hP0 : s.recPsd = [] := by
          have := h.recs.1; rw [hB0] at this; exact List.length_eq_zero_iff.mp this.symm
        have hhead : s1.recTime.head? = some t := by rw [e_T, hT]; rfl
        have hB1 : s1.recBins[0]? = some (padRow (mb + 1) s.bounds) := by rw [e_B, hB0]; rfl
        have hP1 : s1.recPsd[0]? = some (padRow mb s.psd) := by rw [e_P, hP0]; rfl
        simp only [hhead, hlast, hB1, hP1, hBl, hPl]
        split <;> rfl
      | cons t0 T =>
        have hhead : s1.recTime.head? = some t0 := by rw [e_T, hT]; rfl
        have hlt : ¬ t' ≤ t0 := not_le.mpr (h0 t0 (by rw [hT]; rfl))
        simp only [hhead, hlast, hBl, hPl]
        rw [if_neg hlt, if_pos ht]
    · rw [hrow]
      simp only [applyGrab]
      exact ⟨trivial, trivial, h.size_eq.symm, trivial, trivial, trivial⟩

/-! ### operation sequences -/

/-- stated precondition of each operation (what the caller has to guarantee) -/
def Pre (s : State α) : Op α → Prop
  | .reset _ => True
  | .add _ => True
  | .change cMin cMax b? r =>
      (∀ b, b? = some b → 1 ≤ b) ∧ (r = false → 0 ≤ cMin) ∧ (r = false → cMin < amax2 (10 * cMin) cMax)
  | .adjust _ => 1 ≤ s.minBins ∧ 1 ≤ s.maxBins
  | .update _ N => N.length = s.bins
  | .backup => True
  | .revert => True
  | .setPsd N => N.length = s.bins ∧ ∀ x ∈ N, 0 ≤ x
  | .load _ => True
  | .setAdaptive _ => True
  | .enableRec => True
  | .record _ => True
  | .setRecorded _ => True
  | .saveRec => True
  | .loadRec => True

/-- **Inv is preserved by every operation under its stated precondition** -/
theorem inv_step (s s' : State α) (op : Op α) (h : Inv s) (hp : Pre s op) (hs : step s op = some s') :
    Inv s' := by
  cases op with
  | reset b =>
    have := Option.some.inj hs; subst this
    cases b with
    | true => exact reset_true_inv s h.orig_bins h.orig_nonneg h.orig_lt h.recs h.saved
    | false => exact reset_false_inv s h.grid.bins_pos h.grid.min_nonneg h.grid.lt h.orig_bins h.orig_nonneg h.orig_lt h.recs h.saved
  | add k => exact add_inv s s' k h hs
  | change cMin cMax b? r => exact change_inv s s' cMin cMax b? r h hp.1 hp.2.1 hp.2.2 hs
  | adjust c =>
    simp only [step, Option.map_eq_some_iff] at hs
    obtain ⟨⟨s1, chg, ni⟩, hadj, rfl⟩ := hs
    exact adjust_inv s s1 c chg ni h hp.1 hp.2 hadj
  | update t N => exact update_inv_any s s' t N h hp hs
  | backup => have := Option.some.inj hs; subst this; exact backup_inv s h
  | revert => exact revert_inv s s' h hs
  | setPsd N => have := Option.some.inj hs; subst this; exact setPsd_inv s N h hp.1 hp.2
  | load d => exact load_inv s s' d h hs
  | setAdaptive b =>
    have := Option.some.inj hs; subst this
    obtain ⟨hg, hsz, ho1, ho2, ho3, hbk, hr, hsv⟩ := h
    exact ⟨hg, hsz, ho1, ho2, ho3, hbk, hr, hsv⟩
  | enableRec => have := Option.some.inj hs; subst this; exact enableRec_inv s h
  | record t => exact record_inv s s' t h hs
  | setRecorded t => exact setRecorded_inv s s' t h hs
  | saveRec => have := Option.some.inj hs; subst this; exact saveRec_inv s h
  | loadRec => exact loadRec_inv s s' h hs

/-- every operation of the sequence meets its precondition in the state it is applied to -/
def Valid : State α → List (Op α) → Prop
  | _, [] => True
  | s, op :: ops => Pre s op ∧ ∀ s', step s op = some s' → Valid s' ops

/-- **Inv after operation sequences of any length** (induction over the operation list) -/
theorem inv_run : ∀ (ops : List (Op α)) (s s' : State α), Inv s → Valid s ops → run s ops = some s' → Inv s' := by
  intro ops
  induction ops with
  | nil => intro s s' h _ hr; simp only [run, Option.some.injEq] at hr; subst hr; exact h
  | cons op ops ih =>
    intro s s' h hv hr
    simp only [run] at hr
    cases hst : step s op with
    | none => rw [hst] at hr; simp at hr
    | some s1 =>
      rw [hst] at hr
      exact ih s1 s' (inv_step s s1 op h hv.1 hst) (hv.2 s1 hst) hr

theorem valid_prefix : ∀ (p q : List (Op α)) (s : State α), Valid s (p ++ q) → Valid s p := by
  intro p
  induction p with
  | nil => intro q s _; trivial
  | cons op p ih =>
    intro q s hv
    exact ⟨hv.1, fun s' hs => ih q s' (hv.2 s' hs)⟩

/-- Inv holds after EVERY operation of a valid sequence, not only at its end -/
theorem inv_run_every_prefix (p q : List (Op α)) (s s1 : State α) (h : Inv s) (hv : Valid s (p ++ q))
    (hr : run s p = some s1) : Inv s1 :=
  inv_run p s s1 h (valid_prefix p q s hv) hr

/-- from the constructor: any valid operation sequence on a freshly constructed grid -/
theorem inv_run_init (cMin cMax : α) (bins minBins maxBins : Nat) (ops : List (Op α)) (s' : State α)
    (hb : 1 ≤ bins) (h0 : 0 ≤ cMin) (h : cMin < amax2 (10 * cMin) cMax)
    (hv : Valid (init cMin cMax bins minBins maxBins) ops)
    (hr : run (init cMin cMax bins minBins maxBins) ops = some s') : Inv s' :=
  inv_run ops _ s' (inv_init cMin cMax bins minBins maxBins hb h0 h) hv hr

/-! ### backup / revert across operations -/

/-- operations that do not touch the backup (everything except reset, re-mesh, createBackup and the
automatic adjustment, which may re-mesh) -/
def KeepsBackup : Op α → Prop
  | .add _ | .update _ _ | .setPsd _ | .load _ | .setAdaptive _ | .revert
  | .enableRec | .record _ | .setRecorded _ | .saveRec | .loadRec => True
  | _ => False

theorem between_keeps_backup (s s' : State α) (u l : Grab α) (t lt ut : α) (hs : between s u l t lt ut = some s') :
    s'.prevPsd = s.prevPsd ∧ s'.prevBounds = s.prevBounds := by
  unfold between at hs
  split at hs <;>
    (rw [Option.map_eq_some_iff] at hs; obtain ⟨q, _, rfl⟩ := hs; exact ⟨rfl, rfl⟩)

theorem setRecorded_keeps_backup (s s' : State α) (t : α) (hs : setRecorded s t = some s') :
    s'.prevPsd = s.prevPsd ∧ s'.prevBounds = s.prevBounds := by
  unfold setRecorded at hs
  split at hs
  · split at hs
    · split at hs
      · split at hs
        · have := Option.some.inj hs; subst this; exact ⟨rfl, rfl⟩
        · simp at hs
      · split at hs
        · split at hs
          · have := Option.some.inj hs; subst this; exact ⟨rfl, rfl⟩
          · simp at hs
        · dsimp only at hs
          split at hs
          · exact between_keeps_backup s s' _ _ t _ _ hs
          · simp at hs
    · simp at hs
  · have := Option.some.inj hs; subst this; exact ⟨rfl, rfl⟩

theorem step_keeps_backup (s s' : State α) (op : Op α) (hk : KeepsBackup op) (hs : step s op = some s') :
    s'.prevPsd = s.prevPsd ∧ s'.prevBounds = s.prevBounds := by
  cases op with
  | add k =>
    simp only [step, add] at hs
    split at hs
    · have := Option.some.inj hs; subst this; exact ⟨rfl, rfl⟩
    · simp at hs
  | update t N =>
    simp only [step, update] at hs
    have := record_fields _ s' t hs
    rw [this]; exact ⟨rfl, rfl⟩
  | enableRec => have := Option.some.inj hs; subst this; exact ⟨rfl, rfl⟩
  | record t =>
    have := record_fields s s' t hs
    rw [this]; exact ⟨rfl, rfl⟩
  | setRecorded t => exact setRecorded_keeps_backup s s' t hs
  | saveRec =>
    have := Option.some.inj hs; subst this
    simp only [saveRec]; split <;> exact ⟨rfl, rfl⟩
  | loadRec =>
    simp only [step, loadRec] at hs
    split at hs
    · have := Option.some.inj hs; subst this; exact ⟨rfl, rfl⟩
    · simp at hs
  | setPsd N => have := Option.some.inj hs; subst this; exact ⟨rfl, rfl⟩
  | load d =>
    simp only [step, load] at hs
    split at hs
    · simp at hs
    · have := Option.some.inj hs; subst this; exact ⟨rfl, rfl⟩
  | setAdaptive b => have := Option.some.inj hs; subst this; exact ⟨rfl, rfl⟩
  | revert =>
    simp only [step, revert] at hs
    split at hs
    · have := Option.some.inj hs; subst this; exact ⟨rfl, rfl⟩
    · simp at hs
  | reset b => exact absurd hk (by simp [KeepsBackup])
  | change a b c d => exact absurd hk (by simp [KeepsBackup])
  | adjust c => exact absurd hk (by simp [KeepsBackup])
  | backup => exact absurd hk (by simp [KeepsBackup])

theorem run_keeps_backup : ∀ (ops : List (Op α)) (s s' : State α), (∀ op ∈ ops, KeepsBackup op) →
    run s ops = some s' → s'.prevPsd = s.prevPsd ∧ s'.prevBounds = s.prevBounds := by
  intro ops
  induction ops with
  | nil => intro s s' _ hr; simp only [run, Option.some.injEq] at hr; subst hr; exact ⟨rfl, rfl⟩
  | cons op ops ih =>
    intro s s' hk hr
    simp only [run] at hr
    cases hst : step s op with
    | none => rw [hst] at hr; simp at hr
    | some s1 =>
      rw [hst] at hr
      obtain ⟨h1, h2⟩ := step_keeps_backup s s1 op (hk op (by simp)) hst
      obtain ⟨h3, h4⟩ := ih s1 s' (fun o ho => hk o (by simp [ho])) hr
      exact ⟨h3.trans h1, h4.trans h2⟩

/-- **backup/revert**: `createBackup`, then any number of extensions / updates / assignments / loads
(valid or not), then `revert`: distribution, boundaries, centres, class count and range of the
state at backup time are restored exactly. -/
theorem revert_restores_backup (s s1 : State α) (ops : List (Op α)) (h : Inv s)
    (hk : ∀ op ∈ ops, KeepsBackup op) (hr : run (backup s) ops = some s1) :
    ∃ s2, revert s1 = some s2 ∧ s2.psd = s.psd ∧ s2.bounds = s.bounds ∧ s2.size = s.size ∧
      s2.bins = s.bins ∧ s2.min = s.min ∧ s2.max = s.max := by
  obtain ⟨h1, h2⟩ := run_keeps_backup ops (backup s) s1 hk hr
  have hg : GridOK s.min s.max s.bins s1.prevBounds s1.prevPsd := by
    rw [h1, h2]; exact h.grid
  refine ⟨_, revert_eq s1 _ _ _ hg, ?_, ?_, ?_, rfl, rfl, rfl⟩
  · simp only [h1]; rfl
  · simp only [h2]; rfl
  · simp only [h2]; exact h.size_eq.symm

/-! ### moment functions depend only on their argument and the grid -/

/-- **moment purity**: every `...FromN` function is determined by `N`, the class centres and its
other explicit arguments; nothing else of the state (in particular not the stored distribution)
enters.  (`CumulativeWeightedMomentFromN` read `self.PSD` before the repair.) -/
theorem momentFromN_pure (s t : State α) (N : List α) (k : Nat) (h : s.size = t.size) :
    momentFromN s N k = momentFromN t N k := by unfold momentFromN; rw [h]
theorem cumulativeMomentFromN_pure (s t : State α) (N : List α) (k : Nat) (h : s.size = t.size) :
    cumulativeMomentFromN s N k = cumulativeMomentFromN t N k := by unfold cumulativeMomentFromN; rw [h]
theorem weightedMomentFromN_pure (s t : State α) (N w : List α) (k : Nat) (h : s.size = t.size) :
    weightedMomentFromN s N k w = weightedMomentFromN t N k w := by
  unfold weightedMomentFromN weightedTerms; rw [h]
theorem cumulativeWeightedMomentFromN_pure (s t : State α) (N w : List α) (k : Nat) (h : s.size = t.size) :
    cumulativeWeightedMomentFromN s N k w = cumulativeWeightedMomentFromN t N k w := by
  unfold cumulativeWeightedMomentFromN weightedTerms; rw [h]
/-- in particular: changing only the stored distribution changes none of them -/
theorem moments_ignore_stored_psd (s : State α) (P N w : List α) (k : Nat) :
    momentFromN { s with psd := P } N k = momentFromN s N k ∧
    cumulativeMomentFromN { s with psd := P } N k = cumulativeMomentFromN s N k ∧
    weightedMomentFromN { s with psd := P } N k w = weightedMomentFromN s N k w ∧
    cumulativeWeightedMomentFromN { s with psd := P } N k w = cumulativeWeightedMomentFromN s N k w :=
  ⟨rfl, rfl, rfl, rfl⟩

/-- **moment purity along histories**: after ANY valid operation sequence — including `revert`,
`setPSDtoRecordedTime`, saving and loading records, which replace the grid without `reset` — every
`...FromN` function is the moment of the supplied `N` on the CURRENT class boundaries; nothing
remembered from an earlier grid can enter. -/
theorem moments_after_run (s s' : State α) (ops : List (Op α)) (N w : List α) (k : Nat)
    (h : Inv s) (hv : Valid s ops) (hr : run s ops = some s') :
    momentFromN s' N k = moment N (midpoints s'.bounds) k ∧
    cumulativeMomentFromN s' N k = cumsum (List.zipWith (fun n r => n * npow r k) N (midpoints s'.bounds)) ∧
    weightedMomentFromN s' N k w =
      (List.zipWith (fun t w => t * w) (List.zipWith (fun n r => n * npow r k) N (midpoints s'.bounds)) w).sum ∧
    cumulativeWeightedMomentFromN s' N k w =
      cumsum (List.zipWith (fun t w => t * w) (List.zipWith (fun n r => n * npow r k) N (midpoints s'.bounds)) w) := by
  have hsz := (inv_run ops s s' h hv hr).size_eq
  unfold momentFromN cumulativeMomentFromN weightedMomentFromN cumulativeWeightedMomentFromN weightedTerms
  rw [hsz]
  exact ⟨rfl, rfl, rfl, rfl⟩

/-- two different histories that end on the same class boundaries give the same moments of the same
supplied distribution -/
theorem moments_history_independent (s1 s2 t1 t2 : State α) (ops1 ops2 : List (Op α)) (N w : List α) (k : Nat)
    (h1 : Inv s1) (h2 : Inv s2) (v1 : Valid s1 ops1) (v2 : Valid s2 ops2)
    (r1 : run s1 ops1 = some t1) (r2 : run s2 ops2 = some t2) (hb : t1.bounds = t2.bounds) :
    momentFromN t1 N k = momentFromN t2 N k ∧
    cumulativeMomentFromN t1 N k = cumulativeMomentFromN t2 N k ∧
    weightedMomentFromN t1 N k w = weightedMomentFromN t2 N k w ∧
    cumulativeWeightedMomentFromN t1 N k w = cumulativeWeightedMomentFromN t2 N k w := by
  obtain ⟨a1, a2, a3, a4⟩ := moments_after_run s1 t1 ops1 N w k h1 v1 r1
  obtain ⟨b1, b2, b3, b4⟩ := moments_after_run s2 t2 ops2 N w k h2 v2 r2
  rw [a1, a2, a3, a4, b1, b2, b3, b4, hb]
  exact ⟨rfl, rfl, rfl, rfl⟩

/-! ### the unrestricted re-mesh claim is FALSE of the code: concrete witnesses over ℚ

"Re-meshing preserves the third moment whenever the new grid covers the populated range" fails:
if the populated classes are isolated and the new class spacing exceeds twice the old one, no new
centre falls inside the support of the linearly interpolated number density; then `newV = 0` and the
code replaces the distribution by zeros.  (`decide +kernel`: the kernel evaluates the executable
model on rationals; no axioms beyond the standard three.) -/

/-- 9 classes on [1,10] (boundaries 1,2,…,10), only class 4 = [5,6] populated; minBins 4, maxBins 8 -/
def witness9 : State ℚ := { init (1 : ℚ) 10 9 4 8 with psd := [0, 0, 0, 0, 5, 0, 0, 0, 0] }

theorem witness9_inv : Inv witness9 :=
  setPsd_inv _ _ (inv_init 1 10 9 4 8 (by norm_num) (by norm_num) (by decide +kernel))
    (by decide +kernel) (by decide +kernel)

/-- **re-mesh volume, full claim refuted**: re-meshing `witness9` to 4 classes on the same range
[1,10] — a grid that covers the populated class [5,6] — deletes everything: the third moment drops
from 6655/8 to 0. -/
theorem remesh_can_vanish :
    ∃ s', change witness9 1 10 (some 4) false = some s' ∧
      s'.min = 1 ∧ s'.max = 10 ∧ s'.bounds = [1, 13/4, 11/2, 31/4, 10] ∧      -- covers [5,6]
      s'.size = [17/8, 35/8, 53/8, 71/8] ∧                                     -- no centre in (4.5, 6.5)
      remeshNewV witness9 1 10 (some 4) = 0 ∧
      thirdMoment witness9 = 6655/8 ∧ thirdMoment s' = 0 ∧ s'.psd = [0, 0, 0, 0] := by
  decide +kernel

/-- the same through the automatic adjustment (9 classes > maxBins = 8 ⇒ re-mesh to minBins = 4):
returned `(change, newIndices) = (True, None)`, 4 classes on [1,10], all empty -/
theorem adjust_can_vanish :
    (adjust witness9 false).map (fun r => (r.2.1, r.2.2, r.1.bins, r.1.psd)) = some (true, none, 4, [0, 0, 0, 0]) ∧
    (adjust witness9 false).map (fun r => (r.1.min, r.1.max, thirdMoment r.1)) = some (1, 10, 0) ∧
    thirdMoment witness9 ≠ 0 := by
  decide +kernel

/-- the witness of DESIGN.md at full size: the default bin constraints (100/200), 224 classes on
[1e-10, 1e-8], only class 4 populated with 1e20 particles -/
def witness224 : State ℚ :=
  { init (1 / 10^10 : ℚ) (1 / 10^8) 224 100 200 with
      psd := (List.range 224).map (fun i => if i = 4 then (10 : ℚ)^20 else 0) }

/-- the automatic adjustment re-meshes it to 100 classes on the same range and every class is empty -/
theorem adjust_can_vanish_224 :
    (adjust witness224 false).map (fun r => (r.2.1, r.2.2, r.1.bins,
        decide (r.1.min = 1 / 10^10 ∧ r.1.max = 1 / 10^8), r.1.psd.all (fun x => decide (x = 0))))
      = some (true, none, 100, true, true) := by
  decide +kernel
theorem witness224_has_volume : thirdMoment witness224 ≠ 0 := by decide +kernel

/-! ### non-vacuity: the hypotheses of the theorems above are met by concrete states -/

example : Inv (init (1 : ℚ) 10 9 4 8) := inv_init 1 10 9 4 8 (by norm_num) (by norm_num) (by decide +kernel)
example : (change witness9 1 10 (some 6) false).map (fun s => thirdMoment s) = some (thirdMoment witness9) ∧
    remeshNewV witness9 1 10 (some 6) ≠ 0 := by decide +kernel
example : Valid (init (1 : ℚ) 10 3 2 8) [.update 0 [7, 1/2, 3], .backup, .add 2, .revert] :=
  ⟨(by decide +kernel : [7, 1/2, (3 : ℚ)].length = (init (1 : ℚ) 10 3 2 8).bins),
   fun _ _ => ⟨trivial, fun _ _ => ⟨trivial, fun _ _ => ⟨trivial, fun _ _ => trivial⟩⟩⟩⟩
example : (run (init (1 : ℚ) 10 3 2 8) [.update 0 [7, 1/2, 3], .backup, .add 2, .revert]).map (fun s => (s.psd, s.bins))
    = some ([7, 0, 3], 3) := by decide +kernel
example : (adjust { witness9 with psd := [0, 0, 0, 0, 5, 0, 0, 0, 2] } false).map (fun r => decide (r.1.bins ≤ 8))
    = some true := by
  decide +kernel

/-- recording: enable, record twice on different grids, load a time in between and beyond the end -/
example : Valid (init (1 : ℚ) 10 3 2 8) [.enableRec, .record 1, .setRecorded 2] :=
  ⟨trivial, fun s1 h1 => by
    have := Option.some.inj h1; subst this
    exact ⟨trivial, fun _ _ => ⟨trivial, fun _ _ => trivial⟩⟩⟩
example : (run (init (1 : ℚ) 10 3 2 8)
      [.enableRec, .update 1 [7, 1/2, 3], .add 2, .update 2 [0, 4, 0, 9, 2], .setRecorded (3/2), .saveRec, .reset true,
       .loadRec, .setRecorded 5]).map (fun s => (s.bins, s.psd, s.recBins.length))
    = some (5, [0, 4, 0, 9, 2], 3) := by decide +kernel
example : (run (init (1 : ℚ) 10 3 2 8)
      [.enableRec, .update 1 [7, 1/2, 3], .add 2, .update 2 [0, 4, 0, 9, 2], .setRecorded (3/2)]).map
        (fun s => (s.bins, decide (∀ x ∈ s.psd, 0 ≤ x), s.size == midpoints s.bounds))
    = some (5, true, true) := by decide +kernel

/-! ### the record length BEFORE repair a549be2 (number of non-zero boundaries) loses the last class -/

/-- for EVERY consistent grid that starts at exactly 0, the pre-repair `_grabPSDfromIndex` (`grabOld`)
reads its record back one class short: the last class, populated or not, is gone and the boundaries
stop one early (so the stated maximum is no longer the recorded one) -/
theorem grabOld_zero_start_loses_class (s : State α) (mx : α) (n : Nat) (b p : List α) (w1 w2 : Nat)
    (hg : GridOK 0 mx n b p) :
    (grabOld s (padRow w1 b) (padRow w2 p)).bins = n - 1 ∧
    (grabOld s (padRow w1 b) (padRow w2 p)).bounds = b.take n ∧
    (grabOld s (padRow w1 b) (padRow w2 p)).psd = p.take (n - 1) := by
  have hb := hg.bounds_eq
  have hn := hg.bins_pos
  have hbl : b.length = n + 1 := by rw [hb, linspace_length]
  have hpw : b.Pairwise (· < ·) := by rw [hb]; exact linspace_pairwise _ _ _ hg.bins_pos hg.lt
  have hh : b.head? = some 0 := by rw [hb, linspace_head?]
  rcases hbb : b with _ | ⟨x, xs⟩
  · rw [hbb] at hh; simp at hh
  · rw [hbb] at hh hpw hbl
    simp only [List.head?_cons, Option.some.injEq] at hh; subst hh
    have hpos : ∀ y ∈ xs, 0 < y := (List.pairwise_cons.mp hpw).1
    have hxl : xs.length = n := by simpa using hbl
    have hcnt : nonzeroCount (padRow w1 (0 :: xs)) = n := by
      unfold padRow; rw [nonzeroCount_zero_start xs _ hpos, hxl]
    have hn0 : ¬ n = 0 := by omega
    simp only [grabOld, grabWith, hcnt, if_neg hn0]
    have hpl := hg.psd_len
    refine ⟨?_, ?_, ?_⟩
    · simp only [padRow, List.length_take, List.length_append, zeros_length]; omega
    · unfold padRow; rw [List.take_append_of_le_length (by simp; omega)]
    · unfold padRow; rw [List.take_append_of_le_length (by omega)]

/-- **witness** (ℚ, kernel-evaluated): the grid [0, 1, 2] with populations [5, 7], stored in record rows
of width 5 / 4.  The pre-repair count `len(np.nonzero(row)[0])` = 2 gives back ONE class [0, 1] with
population 5 — the class [1, 2] holding 7 particles is lost and the stated maximum is 1, not 2;
the repaired count (position of the last non-zero boundary + 1 = 3) gives back both classes. -/
theorem grabOld_loses_last_class :
    (fun g : Grab ℚ => (g.bounds, g.psd, g.size, g.bins, g.mn, g.mx))
        (grabOld (init (0 : ℚ) 2 2 1 4) [0, 1, 2, 0, 0] [5, 7, 0, 0]) = ([0, 1], [5], [1/2], 1, 0, 1) ∧
    (fun g : Grab ℚ => (g.bounds, g.psd, g.size, g.bins, g.mn, g.mx))
        (grab (init (0 : ℚ) 2 2 1 4) [0, 1, 2, 0, 0] [5, 7, 0, 0]) = ([0, 1, 2], [5, 7], [1/2, 3/2], 2, 0, 2) ∧
    nonzeroCount ([0, 1, 2, 0, 0] : List ℚ) = 2 ∧ recordedCount ([0, 1, 2, 0, 0] : List ℚ) = 3 := by
  decide +kernel

/-- **witness**: a ONE-class record of a grid starting at 0 ([0, 3], population 5).  Pre-repair it is read
back as a grid without any class (one boundary, no population: the invariant is broken), and blending
it with a neighbouring record raises (`np.interp` on an empty sample array: `between` = none);
repaired, the class comes back and the blend with the all-zero first record is defined. -/
theorem grabOld_one_class_breaks :
    (fun g : Grab ℚ => (g.bounds, g.psd, g.bins)) (grabOld (init (0 : ℚ) 3 1 1 2) [0, 3, 0] [5, 0]) = ([0], [], 0) ∧
    between (init (0 : ℚ) 3 1 1 2) (grabOld (init (0 : ℚ) 3 1 1 2) [0, 3, 0] [5, 0])
        (grabOld (init (0 : ℚ) 3 1 1 2) [0, 0, 0] [0, 0]) (1/2) 0 1 = none ∧
    (fun g : Grab ℚ => (g.bounds, g.psd, g.bins)) (grab (init (0 : ℚ) 3 1 1 2) [0, 3, 0] [5, 0]) = ([0, 3], [5], 1) ∧
    (between (init (0 : ℚ) 3 1 1 2) (grab (init (0 : ℚ) 3 1 1 2) [0, 3, 0] [5, 0])
        (grab (init (0 : ℚ) 3 1 1 2) [0, 0, 0] [0, 0]) (1/2) 0 1).map (fun s => (s.bounds, s.psd, s.bins))
      = some ([0, 3], [5/2], 1) := by
  decide +kernel

/-- the same through whole operation sequences on the (repaired) model: a grid from 0, record, restore
at the recorded time / after save-reset-load / between the first (all-zero) record and this one -/
theorem restore_from_zero_grid :
    (run (init (0 : ℚ) 2 2 1 4) [.enableRec, .update 1 [5, 7], .add 1, .setRecorded 1]).map
        (fun s => (s.bins, s.psd, s.bounds, s.size, s.min, s.max)) = some (2, [5, 7], [0, 1, 2], [1/2, 3/2], 0, 2) ∧
    (run (init (0 : ℚ) 2 2 1 4) [.enableRec, .update 1 [5, 7], .saveRec, .reset true, .change 1 5 (some 3) false,
        .loadRec, .setRecorded 7]).map
        (fun s => (s.bins, s.psd, s.bounds, s.min, s.max)) = some (2, [5, 7], [0, 1, 2], 0, 2) ∧
    (run (init (0 : ℚ) 2 2 1 4) [.enableRec, .update 1 [5, 7], .setRecorded (1/2)]).map
        (fun s => (s.bins, s.psd, s.bounds, s.min, s.max)) = some (2, [5/2, 7/2], [0, 1, 2], 0, 2) ∧
    (run (init (1 : ℚ) 5 2 1 4) [.change 0 3 (some 1) false, .enableRec, .update 1 [9], .add 2, .setRecorded 1]).map
        (fun s => (s.bins, s.psd, s.bounds, s.min, s.max)) = some (1, [9], [0, 3], 0, 3) := by
  refine ⟨?_, ?_, ?_, ?_⟩ <;> decide +kernel

/-! non-vacuity of the new hypothesis sets -/

/-- `grab_restores_record`: strictly increasing boundaries starting at exactly 0 -/
example : (2 ≤ ([0, 1, 2] : List ℚ).length) ∧ ([5, 7] : List ℚ).length + 1 = ([0, 1, 2] : List ℚ).length ∧
    ([0, 1, 2] : List ℚ).Pairwise (· < ·) ∧ (∀ x, ([0, 1, 2] : List ℚ).head? = some x → 0 ≤ x) := by
  refine ⟨by decide, by decide, by decide +kernel, ?_⟩
  intro x hx; simp at hx; rw [← hx]

/-- `grabOld_zero_start_loses_class`, `grab_restores_grid`: a consistent grid with lower end 0 -/
example : GridOK (0 : ℚ) 2 2 [0, 1, 2] [5, 7] :=
  ⟨by decide, le_refl _, by norm_num, by decide +kernel, rfl, by decide +kernel⟩

/-- `record_then_restore` / the invariant on a grid from 0 while recording: every operation of this
sequence meets its (now unconditional) precondition, and the state the restore starts from is
recording, consistent, with first recorded time 0 < 1 -/
example : Valid (init (0 : ℚ) 2 2 1 4) [.enableRec, .update 1 [5, 7], .setRecorded 1] :=
  ⟨trivial, fun s1 h1 => by
    have := Option.some.inj h1; subst this
    exact ⟨(by decide +kernel : [5, (7 : ℚ)].length = (enableRec (init (0 : ℚ) 2 2 1 4)).bins),
      fun _ _ => ⟨trivial, fun _ _ => trivial⟩⟩⟩
example : Inv (enableRec (init (0 : ℚ) 2 2 1 4)) ∧ (enableRec (init (0 : ℚ) 2 2 1 4)).recording = true ∧
    (enableRec (init (0 : ℚ) 2 2 1 4)).recTime.head? = some 0 ∧ (enableRec (init (0 : ℚ) 2 2 1 4)).min = 0 :=
  ⟨enableRec_inv _ (inv_init 0 2 2 1 4 (by norm_num) (le_refl _) (by decide +kernel)), rfl, rfl, rfl⟩

/-! ### round 6: re-meshes to a grid of the SAME class width (translated by a fraction of a class, by whole classes,
backwards, or with another class count) -/

/-- the re-mesh target has exactly the class width of the current grid -/
def SameWidth (s : State α) (cMin cMax : α) (b? : Option Nat) : Prop :=
  firstWidth (targetOf s cMin cMax b?).bounds = firstWidth s.bounds

/-- a successful re-mesh lands on the target grid (whatever happens to the populations) -/
theorem change_false_bounds (s s' : State α) (cMin cMax : α) (b? : Option Nat) (h : Inv s)
    (hs : change s cMin cMax b? false = some s') :
    s'.bounds = (targetOf s cMin cMax b?).bounds ∧ s'.size = (targetOf s cMin cMax b?).size := by
  rw [change_false_eq s cMin cMax b? h] at hs
  have hs' := Option.some.inj hs
  split at hs' <;> (subst hs'; exact ⟨rfl, rfl⟩)

/-- **same-width re-mesh keeps the volume** (corollary of `remesh_M3_iff` for this class of re-meshes): a re-mesh of a
consistent grid onto a grid of the same class width — aligned with the old one or not — keeps the class width and
preserves the third moment exactly whenever the interpolated distribution is not empty.  The rescaling by
`oldV/newV` is what makes this true: see `changeSkip_same_width_M3` / `skipRescale_changes_M3`. -/
theorem change_preserves_M3_same_width (s s' : State α) (cMin cMax : α) (b? : Option Nat) (h : Inv s)
    (hs : change s cMin cMax b? false = some s') (hw : SameWidth s cMin cMax b?)
    (hnewV : remeshNewV s cMin cMax b? ≠ 0) :
    thirdMoment s' = thirdMoment s ∧ firstWidth s'.bounds = firstWidth s.bounds := by
  refine ⟨remesh_preserves_M3_partial s s' cMin cMax b? h hs hnewV, ?_⟩
  rw [(change_false_bounds s s' cMin cMax b? h hs).1]; exact hw

/-- the variant that returns before the rescaling when the class width is unchanged leaves the third moment of the
INTERPOLATED distribution (`newV`), for every consistent grid and every same-width target -/
theorem changeSkip_same_width_M3 (s s' : State α) (cMin cMax : α) (b? : Option Nat) (h : Inv s)
    (hw : SameWidth s cMin cMax b?) (hs : changeSkipSameWidth s cMin cMax b? = some s') :
    thirdMoment s' = remeshNewV s cMin cMax b? := by
  obtain ⟨hn, hpl, hbl, hsl, -⟩ := inv_spec s h
  have hg : ¬ (s.psd.length ≠ s.size.length ∨ s.psd.length + 1 ≠ s.bounds.length ∨
      (s.psd.length = 0 ∧ (retarget s cMin cMax b?).bins ≠ 0)) := by
    rw [hpl, hbl, hsl]; omega
  have hw' : ¬ (firstWidth (reset (retarget s cMin cMax b?) false).bounds < firstWidth s.bounds ∨
      firstWidth s.bounds < firstWidth (reset (retarget s cMin cMax b?) false).bounds) := by
    have e : firstWidth (reset (retarget s cMin cMax b?) false).bounds = firstWidth s.bounds := hw
    rw [e]; simp
  simp only [changeSkipSameWidth, if_neg hg, if_neg hw'] at hs
  have hs' := Option.some.inj hs
  subst hs'; rfl

/-- ... hence it preserves the volume only if the interpolation happens to: on a same-width target the variant is
correct **iff** `newV = M3` -/
theorem changeSkip_same_width_iff (s s' : State α) (cMin cMax : α) (b? : Option Nat) (h : Inv s)
    (hw : SameWidth s cMin cMax b?) (hs : changeSkipSameWidth s cMin cMax b? = some s') :
    thirdMoment s' = thirdMoment s ↔ remeshNewV s cMin cMax b? = thirdMoment s := by
  rw [changeSkip_same_width_M3 s s' cMin cMax b? h hw hs]

/-- off the same-width class the variant IS the code -/
theorem changeSkip_other_width (s : State α) (cMin cMax : α) (b? : Option Nat) (h : Inv s)
    (hw : firstWidth (targetOf s cMin cMax b?).bounds ≠ firstWidth s.bounds) :
    changeSkipSameWidth s cMin cMax b? = change s cMin cMax b? false := by
  obtain ⟨hn, hpl, hbl, hsl, -⟩ := inv_spec s h
  have hg : ¬ (s.psd.length ≠ s.size.length ∨ s.psd.length + 1 ≠ s.bounds.length ∨
      (s.psd.length = 0 ∧ (retarget s cMin cMax b?).bins ≠ 0)) := by
    rw [hpl, hbl, hsl]; omega
  have hw' : firstWidth (reset (retarget s cMin cMax b?) false).bounds < firstWidth s.bounds ∨
      firstWidth s.bounds < firstWidth (reset (retarget s cMin cMax b?) false).bounds :=
    lt_or_gt_of_ne hw
  simp only [changeSkipSameWidth, if_neg hg, if_pos hw']

/-- four classes of width 2 on [0,8] (boundaries 0,2,4,6,8), the two middle classes [2,4] and [4,6] populated -/
def witnessSW : State ℚ := { init (0 : ℚ) 8 4 1 8 with psd := [0, 3, 5, 0] }

theorem witnessSW_inv : Inv witnessSW :=
  setPsd_inv _ _ (inv_init 0 8 4 1 8 (by norm_num) (by norm_num) (by decide +kernel))
    (by decide +kernel) (by decide +kernel)

/-- the re-mesh `changeSizeClasses(1, 11, 5)`: five classes of the SAME width 2, boundaries 1,3,…,11 — the old grid
translated by HALF a class; it covers the populated range [2,6] -/
theorem witnessSW_same_width : SameWidth witnessSW 1 11 (some 5) ∧
    (targetOf witnessSW 1 11 (some 5)).bounds = [1, 3, 5, 7, 9, 11] ∧ firstWidth witnessSW.bounds = 2 := by
  unfold SameWidth; decide +kernel

/-- **the code keeps the volume on the half-class shift** (M3 = 706 before and after; the interpolated distribution
[3/2, 4, 5/2, 0, 0] has `newV = 808`), -/
theorem witnessSW_change_keeps_M3 :
    ∃ s', change witnessSW 1 11 (some 5) false = some s' ∧ thirdMoment witnessSW = 706 ∧ thirdMoment s' = 706 ∧
      remeshNewV witnessSW 1 11 (some 5) = 808 ∧ s'.psd = [1059/808, 353/101, 1765/808, 0, 0] := by
  decide +kernel

/-- **… and the variant that skips the rescaling for an unchanged class width does not**: same grid, same
distribution, same re-mesh: the third moment goes from 706 to 808 although the new grid covers the populated range -/
theorem skipRescale_changes_M3 :
    ∃ s', changeSkipSameWidth witnessSW 1 11 (some 5) = some s' ∧ s'.bounds = [1, 3, 5, 7, 9, 11] ∧
      s'.psd = [3/2, 4, 5/2, 0, 0] ∧ thirdMoment witnessSW = 706 ∧ thirdMoment s' = 808 := by
  decide +kernel

/-- non-vacuity of the hypothesis set of `change_preserves_M3_same_width` / `changeSkip_same_width_M3`
(consistent grid, successful re-mesh, same width, `newV ≠ 0`), and of `changeSkip_other_width` -/
example : Inv witnessSW ∧ SameWidth witnessSW 1 11 (some 5) ∧ remeshNewV witnessSW 1 11 (some 5) ≠ 0 ∧
    (change witnessSW 1 11 (some 5) false).isSome ∧ (changeSkipSameWidth witnessSW 1 11 (some 5)).isSome :=
  ⟨witnessSW_inv, witnessSW_same_width.1, by decide +kernel, by decide +kernel, by decide +kernel⟩
example : firstWidth (targetOf witnessSW 0 8 (some 8)).bounds ≠ firstWidth witnessSW.bounds := by decide +kernel
example : (thirdMoment witnessSW = 706) ∧
    ∀ s', change witnessSW 1 11 (some 5) false = some s' → thirdMoment s' = thirdMoment witnessSW :=
  ⟨by decide +kernel, fun s' hs =>
    (change_preserves_M3_same_width witnessSW s' 1 11 (some 5) witnessSW_inv hs witnessSW_same_width.1
      (by decide +kernel)).1⟩

end KawinV.Props.C08
