/-
C08 — size-class grid operations stay consistent and conserve particle volume.
Property theorems about `KawinV.Grid` (hand model of the grid operations of
PopulationBalance.py, tied to the source by tools/corr/C08.py).  α is any linearly ordered field.
-/
import KawinV.Model.PBMGrid
import Mathlib.Tactic.Ring
import Mathlib.Tactic.Linarith
import Mathlib.Tactic.FieldSimp
import Mathlib.Tactic.NormNum
import Mathlib.Algebra.Order.Field.Basic
import Mathlib.Algebra.Order.Field.Rat

set_option linter.unusedSectionVars false
set_option linter.unusedVariables false
set_option linter.unusedSimpArgs false

namespace KawinV.Props.C08
open KawinV KawinV.Grid KawinV.PBM

variable {α : Type} [Field α] [LinearOrder α] [IsStrictOrderedRing α]

/-! ### linspace -/

/-- closed form of boundary i of `linspace mn mx n` -/
def lin (mn mx : α) (n i : Nat) : α := mn + (i : α) * ((mx - mn) / (n : α))

theorem linspace_length (mn mx : α) (n : Nat) : (linspace mn mx n).length = n + 1 := by
  simp [linspace]

theorem linspace_getElem? (mn mx : α) (n i : Nat) (hn : 1 ≤ n) (hi : i ≤ n) :
    (linspace mn mx n)[i]? = some (lin mn mx n i) := by
  have hn0 : (n : α) ≠ 0 := by exact_mod_cast (by omega : n ≠ 0)
  simp only [linspace, List.getElem?_map, List.getElem?_range (by omega : i < n + 1), Option.map_some, lin]
  congr 1
  by_cases h : i = n
  · subst h
    simp only [if_true, show ¬ (i = 0) by omega, if_false]
    field_simp; ring
  · simp only [h, if_false]; ring

theorem lin_lt (mn mx : α) (n i j : Nat) (hn : 1 ≤ n) (h : mn < mx) (hij : i < j) :
    lin mn mx n i < lin mn mx n j := by
  have hn0 : (0 : α) < (n : α) := by exact_mod_cast hn
  have hs : 0 < (mx - mn) / (n : α) := div_pos (sub_pos.mpr h) hn0
  have : (i : α) < (j : α) := by exact_mod_cast hij
  unfold lin
  nlinarith

theorem lin_zero (mn mx : α) (n : Nat) : lin mn mx n 0 = mn := by simp [lin]

theorem lin_last (mn mx : α) (n : Nat) (hn : 1 ≤ n) : lin mn mx n n = mx := by
  have hn0 : (n : α) ≠ 0 := by exact_mod_cast (by omega : n ≠ 0)
  unfold lin; field_simp; ring

theorem linspace_head? (mn mx : α) (n : Nat) : (linspace mn mx n).head? = some mn := by
  simp only [linspace, List.range_succ_eq_map, List.map_cons, List.head?_cons]
  by_cases h : 0 = n
  · subst h; simp
  · simp [h]

theorem linspace_getLast? (mn mx : α) (n : Nat) (hn : 1 ≤ n) : (linspace mn mx n).getLast? = some mx := by
  simp [linspace, List.range_succ, show n ≠ 0 by omega]

/-! ### elementwise helpers -/

theorem forall_mem_zipWith {β γ δ : Type} (f : β → γ → δ) (P : β → Prop) (Q : γ → Prop) (R : δ → Prop)
    (hf : ∀ a b, P a → Q b → R (f a b)) :
    ∀ (l1 : List β) (l2 : List γ), (∀ a ∈ l1, P a) → (∀ b ∈ l2, Q b) → ∀ c ∈ List.zipWith f l1 l2, R c := by
  intro l1
  induction l1 with
  | nil => intro l2 _ _ c hc; simp at hc
  | cons a as ih =>
    intro l2 h1 h2 c hc
    cases l2 with
    | nil => simp at hc
    | cons b bs =>
      simp only [List.zipWith_cons_cons, List.mem_cons] at hc
      rcases hc with rfl | hc
      · exact hf a b (h1 a (by simp)) (h2 b (by simp))
      · exact ih bs (fun x hx => h1 x (by simp [hx])) (fun x hx => h2 x (by simp [hx])) c hc

theorem midpoints_length (b : List α) : (midpoints b).length = b.length - 1 := by
  simp [midpoints]

theorem widths_length (b : List α) : (widths b).length = b.length - 1 := by
  simp [widths]

theorem midpoints_getElem? (b : List α) (i : Nat) (x y : α) (hx : b[i]? = some x) (hy : b[i+1]? = some y) :
    (midpoints b)[i]? = some ((x + y) / 2) := by
  simp [midpoints, List.getElem?_zipWith, hx, hy]

theorem widths_getElem? (b : List α) (i : Nat) (x y : α) (hx : b[i]? = some x) (hy : b[i+1]? = some y) :
    (widths b)[i]? = some (y - x) := by
  simp [widths, List.getElem?_zipWith, hx, hy]

/-- centres of a linspace grid -/
theorem midpoints_linspace_getElem? (mn mx : α) (n i : Nat) (hn : 1 ≤ n) (hi : i < n) :
    (midpoints (linspace mn mx n))[i]? = some ((lin mn mx n i + lin mn mx n (i+1)) / 2) :=
  midpoints_getElem? _ i _ _ (linspace_getElem? mn mx n i hn (by omega)) (linspace_getElem? mn mx n (i+1) hn (by omega))

theorem widths_linspace_nonneg (mn mx : α) (n : Nat) (hn : 1 ≤ n) (h : mn < mx) :
    ∀ w ∈ widths (linspace mn mx n), 0 < w := by
  intro w hw
  obtain ⟨i, hi, rfl⟩ := List.mem_iff_getElem.mp hw
  have hlen : i < n := by
    have := widths_length (linspace mn mx n); rw [linspace_length] at this; omega
  have := widths_getElem? (linspace mn mx n) i _ _ (linspace_getElem? mn mx n i hn (by omega))
    (linspace_getElem? mn mx n (i+1) hn (by omega))
  rw [List.getElem?_eq_getElem hi] at this
  rw [Option.some.inj this]
  exact sub_pos.mpr (lin_lt mn mx n i (i+1) hn h (by omega))

/-! ### interpolation -/

theorem interpAux_nonneg : ∀ (xp fp : List α) (x : α), (∀ y ∈ fp, 0 ≤ y) →
    (∀ x0, xp.head? = some x0 → x0 ≤ x) → 0 ≤ interpAux xp fp x := by
  intro xp
  induction xp with
  | nil =>
    intro fp x hf _
    cases fp with
    | nil => simp [interpAux]
    | cons f0 fs => simp only [interpAux]; exact hf f0 (by simp)
  | cons x0 xs ih =>
    intro fp x hf hx
    cases fp with
    | nil => simp [interpAux]
    | cons f0 fs =>
      cases xs with
      | nil => simp only [interpAux]; exact hf f0 (by simp)
      | cons x1 xs' =>
        cases fs with
        | nil => simp only [interpAux]; exact hf f0 (by simp)
        | cons f1 fs' =>
          simp only [interpAux]
          have h0 : 0 ≤ f0 := hf f0 (by simp)
          have h1 : 0 ≤ f1 := hf f1 (by simp)
          have hx0 : x0 ≤ x := hx x0 rfl
          split
          · next hlt =>
            have hd : 0 < x1 - x0 := by linarith
            have : (f1 - f0) / (x1 - x0) * (x - x0) + f0 = (f1 * (x - x0) + f0 * (x1 - x)) / (x1 - x0) := by
              field_simp; ring
            rw [this]
            apply div_nonneg _ hd.le
            have : 0 ≤ x - x0 := by linarith
            have : 0 ≤ x1 - x := by linarith
            positivity
          · next hge =>
            apply ih (f1 :: fs') x (fun y hy => hf y (by simp [List.mem_cons] at hy ⊢; tauto))
            intro y hy
            simp at hy; subst hy
            exact not_lt.mp hge

/-- interpolating non-negative ordinates gives a non-negative value, whatever the abscissae -/
theorem interp_nonneg (xp fp : List α) (x : α) (hf : ∀ y ∈ fp, 0 ≤ y) : 0 ≤ interp xp fp x := by
  unfold interp
  split
  · next x0 _ f0 _ =>
    split
    · exact hf f0 (by simp)
    · next h =>
      apply interpAux_nonneg _ _ _ hf
      intro y hy; simp at hy; subst hy; exact not_lt.mp h
  · exact le_refl _

/-! ### moments -/

theorem npow_eq_pow (x : α) (k : Nat) : npow x k = x ^ k := by
  induction k with
  | zero => simp [npow]
  | succ k ih =>
    cases k with
    | zero => simp [npow]
    | succ k =>
      have : npow x (k+1+1) = npow x (k+1) * x := rfl
      rw [this, ih]; ring

theorem moment_nil_left (size : List α) (k : Nat) : moment ([] : List α) size k = 0 := by simp [moment]

theorem moment_cons (n : α) (N : List α) (r : α) (size : List α) (k : Nat) :
    moment (n :: N) (r :: size) k = n * r ^ k + moment N size k := by
  simp [moment, npow_eq_pow]

/-- scaling every population scales the moment -/
theorem moment_map_mul (c : α) (k : Nat) : ∀ (N size : List α),
    moment (N.map (fun x => x * c)) size k = c * moment N size k := by
  intro N
  induction N with
  | nil => intro size; simp [moment]
  | cons n N ih =>
    intro size
    cases size with
    | nil => simp [moment]
    | cons r size =>
      rw [List.map_cons, moment_cons, moment_cons, ih]; ring

theorem moment_zeros (m k : Nat) : ∀ (size : List α), moment (zeros m : List α) size k = 0 := by
  induction m with
  | zero => intro size; simp [moment, zeros]
  | succ m ih =>
    intro size
    cases size with
    | nil => simp [moment]
    | cons r size =>
      have : (zeros (m+1) : List α) = 0 :: zeros m := by simp [zeros, List.replicate_succ]
      rw [this, moment_cons, ih]; simp

/-- appending empty classes does not change a moment as long as the old centres stay where they were -/
theorem moment_append_zeros (k m : Nat) : ∀ (N size rest : List α), N.length = size.length →
    moment (N ++ zeros m) (size ++ rest) k = moment N size k := by
  intro N
  induction N with
  | nil =>
    intro size rest h
    have : size = [] := by cases size <;> simp_all
    subst this; simp [moment_zeros, moment_nil_left]
  | cons n N ih =>
    intro size rest h
    cases size with
    | nil => simp at h
    | cons r size =>
      simp only [List.cons_append, moment_cons]
      rw [ih size rest (by simpa using h)]

theorem moment_nonneg (k : Nat) : ∀ (N size : List α), (∀ x ∈ N, 0 ≤ x) → (∀ r ∈ size, 0 ≤ r) →
    0 ≤ moment N size k := by
  intro N
  induction N with
  | nil => intro size _ _; simp [moment]
  | cons n N ih =>
    intro size hN hs
    cases size with
    | nil => simp [moment]
    | cons r size =>
      rw [moment_cons]
      have := ih size (fun x hx => hN x (by simp [hx])) (fun x hx => hs x (by simp [hx]))
      have h1 : 0 ≤ n := hN n (by simp)
      have h2 : 0 ≤ r := hs r (by simp)
      positivity

/-! ### the consistency invariant -/

/-- a consistent grid: `n ≥ 1` classes on `[mn, mx]`, `0 ≤ mn < mx`, boundaries = linspace,
one non-negative population per class -/
structure GridOK (mn mx : α) (n : Nat) (bounds psd : List α) : Prop where
  bins_pos : 1 ≤ n
  min_nonneg : 0 ≤ mn
  lt : mn < mx
  bounds_eq : bounds = linspace mn mx n
  psd_len : psd.length = n
  psd_nonneg : ∀ x ∈ psd, 0 ≤ x

/-- **Inv**: the current grid is consistent, centres are midpoints, the original grid description
is usable (so that `reset` works) and the backup is itself a consistent grid (so that `revert`
works at any time). -/
structure Inv (s : State α) : Prop where
  grid : GridOK s.min s.max s.bins s.bounds s.psd
  size_eq : s.size = midpoints s.bounds
  orig_bins : 1 ≤ s.origBins
  orig_nonneg : 0 ≤ s.origMin
  orig_lt : s.origMin < s.origMax
  backup : ∃ mn mx n, GridOK mn mx n s.prevBounds s.prevPsd

theorem zeros_nonneg (n : Nat) : ∀ x ∈ (zeros n : List α), 0 ≤ x := by
  intro x hx; simp [zeros] at hx; rw [hx.2]

theorem zeros_length (n : Nat) : (zeros n : List α).length = n := by simp [zeros]

theorem linspace_mem_ge (mn mx : α) (n : Nat) (hn : 1 ≤ n) (h : mn < mx) :
    ∀ b ∈ linspace mn mx n, mn ≤ b := by
  intro b hb
  obtain ⟨i, hi, rfl⟩ := List.mem_iff_getElem.mp hb
  rw [linspace_length] at hi
  have := linspace_getElem? mn mx n i hn (by omega)
  rw [List.getElem?_eq_getElem (by rw [linspace_length]; exact hi)] at this
  rw [Option.some.inj this]
  rcases Nat.eq_zero_or_pos i with h0 | h0
  · subst h0; rw [lin_zero]
  · have := lin_lt mn mx n 0 i hn h h0
    rw [lin_zero] at this; exact le_of_lt this

theorem midpoints_linspace_nonneg (mn mx : α) (n : Nat) (hn : 1 ≤ n) (h0 : 0 ≤ mn) (h : mn < mx) :
    ∀ r ∈ midpoints (linspace mn mx n), 0 ≤ r := by
  unfold midpoints
  apply forall_mem_zipWith _ (fun a => 0 ≤ a) (fun a => 0 ≤ a) (fun a => 0 ≤ a)
  · intro a b ha hb; simp only [Nat.cast_ofNat]; positivity
  · intro a ha; exact le_trans h0 (linspace_mem_ge mn mx n hn h a ha)
  · intro a ha; exact le_trans h0 (linspace_mem_ge mn mx n hn h a (List.mem_of_mem_tail ha))

/-- **what Inv says in observable terms**: class count ≥ 1, array lengths match, boundaries run
from `min` to `max` strictly increasing, centres are midpoints, populations are non-negative. -/
theorem inv_spec (s : State α) (h : Inv s) :
    1 ≤ s.bins ∧ s.psd.length = s.bins ∧ s.bounds.length = s.bins + 1 ∧ s.size.length = s.bins ∧
    s.bounds.head? = some s.min ∧ s.bounds.getLast? = some s.max ∧
    (∀ (i j : Nat) (x y : α), i < j → s.bounds[i]? = some x → s.bounds[j]? = some y → x < y) ∧
    (∀ (i : Nat) (x y : α), s.bounds[i]? = some x → s.bounds[i+1]? = some y → s.size[i]? = some ((x + y) / 2)) ∧
    (∀ x ∈ s.psd, 0 ≤ x) := by
  obtain ⟨⟨hn, h0, hlt, hb, hl, hp⟩, hs, _, _, _, _⟩ := h
  have hbl : s.bounds.length = s.bins + 1 := by rw [hb, linspace_length]
  refine ⟨hn, hl, hbl, ?_, ?_, ?_, ?_, ?_, hp⟩
  · rw [hs, midpoints_length, hbl]; omega
  · rw [hb, linspace_head?]
  · rw [hb, linspace_getLast? _ _ _ hn]
  · intro i j x y hij hx hy
    have hj : j ≤ s.bins := by
      have := (List.getElem?_eq_some_iff.mp hy).1; omega
    rw [hb, linspace_getElem? _ _ _ _ hn (by omega)] at hx
    rw [hb, linspace_getElem? _ _ _ _ hn hj] at hy
    rw [← Option.some.inj hx, ← Option.some.inj hy]
    exact lin_lt _ _ _ _ _ hn hlt hij
  · intro i x y hx hy
    rw [hs]; exact midpoints_getElem? _ _ _ _ hx hy

/-! ### reset, constructor -/

theorem gridOK_fresh (mn mx : α) (n : Nat) (hn : 1 ≤ n) (h0 : 0 ≤ mn) (h : mn < mx) :
    GridOK mn mx n (linspace mn mx n) (zeros n) :=
  ⟨hn, h0, h, rfl, zeros_length n, zeros_nonneg n⟩

theorem reset_true_inv (s : State α) (hn : 1 ≤ s.origBins) (h0 : 0 ≤ s.origMin) (h : s.origMin < s.origMax) :
    Inv (reset s true) := by
  refine ⟨?_, ?_, ?_, ?_, ?_, ?_⟩ <;> simp only [reset, if_true]
  · exact gridOK_fresh _ _ _ hn h0 h
  · exact hn
  · exact h0
  · exact h
  · exact ⟨_, _, _, gridOK_fresh _ _ _ hn h0 h⟩

theorem reset_false_inv (s : State α) (hb : 1 ≤ s.bins) (hm : 0 ≤ s.min) (hlt : s.min < s.max)
    (hn : 1 ≤ s.origBins) (h0 : 0 ≤ s.origMin) (h : s.origMin < s.origMax) :
    Inv (reset s false) := by
  refine ⟨?_, ?_, ?_, ?_, ?_, ?_⟩ <;> simp only [reset, Bool.false_eq_true, if_false]
  · exact gridOK_fresh _ _ _ hb hm hlt
  · exact hn
  · exact h0
  · exact h
  · exact ⟨_, _, _, gridOK_fresh _ _ _ hb hm hlt⟩

/-- **reset**: `reset(True)` restores the original grid description, the boundaries are the
original linspace and the distribution is empty. -/
theorem reset_restores (s : State α) :
    (reset s true).min = s.origMin ∧ (reset s true).max = s.origMax ∧ (reset s true).bins = s.origBins ∧
    (reset s true).bounds = linspace s.origMin s.origMax s.origBins ∧
    (reset s true).psd = zeros s.origBins ∧ (∀ x ∈ (reset s true).psd, x = 0) := by
  refine ⟨rfl, rfl, rfl, rfl, rfl, ?_⟩
  intro x hx; simp [reset, zeros] at hx; exact hx.2

theorem lt_amax2 (a b c : α) (h : c < a ∨ c < b) : c < amax2 a b := by
  unfold amax2; split <;> rcases h with h | h <;> linarith

/-- **Inv holds initially** for every constructor call with at least one class, a non-negative
lower bound and a non-degenerate range -/
theorem inv_init (cMin cMax : α) (bins minBins maxBins : Nat) (hb : 1 ≤ bins) (h0 : 0 ≤ cMin)
    (h : cMin < amax2 (10 * cMin) cMax) : Inv (init cMin cMax bins minBins maxBins) := by
  unfold init
  apply reset_true_inv
  · exact hb
  · exact h0
  · simpa using h

theorem pre_of_pos (cMin cMax : α) (h : 0 < cMin) : cMin < amax2 (10 * cMin) cMax :=
  lt_amax2 _ _ _ (Or.inl (by linarith))
theorem pre_of_lt (cMin cMax : α) (h : cMin < cMax) : cMin < amax2 (10 * cMin) cMax :=
  lt_amax2 _ _ _ (Or.inr h)

/-! ### extend (addSizeClasses) -/

/-- class width of a consistent grid -/
def stepOf (s : State α) : α := (s.max - s.min) / (s.bins : α)

/-- on a consistent grid `addSizeClasses(k)` never raises and has this closed form: the upper end
moves by k class widths -/
theorem add_eq (s : State α) (k : Nat) (h : Inv s) :
    add s k = some { s with bins := s.bins + k, psd := s.psd ++ zeros k, max := s.max + (k : α) * stepOf s,
                            bounds := linspace s.min (s.max + (k : α) * stepOf s) (s.bins + k),
                            size := midpoints (linspace s.min (s.max + (k : α) * stepOf s) (s.bins + k)) } := by
  obtain ⟨⟨hn, _, hlt, hb, _, _⟩, _, _, _, _, _⟩ := h
  have h0 := linspace_getElem? s.min s.max s.bins 0 hn (by omega)
  have h1 := linspace_getElem? s.min s.max s.bins 1 hn hn
  rw [← hb] at h0 h1
  rcases hbb : s.bounds with _ | ⟨b0, _ | ⟨b1, rest⟩⟩
  · rw [hbb] at h0; simp at h0
  · rw [hbb] at h1; simp at h1
  · rw [hbb] at h0 h1
    simp only [List.getElem?_cons_zero, List.getElem?_cons_succ, Option.some.injEq] at h0 h1
    have hstep : b1 - b0 = stepOf s := by
      rw [h0, h1]; simp [lin, stepOf]
    simp only [add, hbb, hstep]

/-- **Inv is preserved by extension** (no precondition) -/
theorem add_inv (s s' : State α) (k : Nat) (h : Inv s) (hs : add s k = some s') : Inv s' := by
  rw [add_eq s k h] at hs
  have hs' := Option.some.inj hs
  subst hs'
  obtain ⟨⟨hn, h0, hlt, hb, hl, hp⟩, hsz, ho1, ho2, ho3, hbk⟩ := h
  have hstep : 0 ≤ (k : α) * stepOf s := by
    have : (0 : α) < (s.bins : α) := by exact_mod_cast hn
    have : 0 < stepOf s := div_pos (sub_pos.mpr hlt) this
    positivity
  refine ⟨⟨by simp only; omega, h0, by simp only; linarith, rfl, by simp [hl, zeros], ?_⟩, rfl, ho1, ho2, ho3, hbk⟩
  intro x hx
  simp only [List.mem_append] at hx
  rcases hx with hx | hx
  · exact hp x hx
  · exact zeros_nonneg k x hx

/-- boundary i of the extended grid coincides with boundary i of the old grid -/
theorem lin_extend (mn mx : α) (n k i : Nat) (hn : 1 ≤ n) :
    lin mn (mx + (k : α) * ((mx - mn) / (n : α))) (n + k) i = lin mn mx n i := by
  have hn0 : (n : α) ≠ 0 := by exact_mod_cast (by omega : n ≠ 0)
  have hnk : ((n + k : Nat) : α) ≠ 0 := by exact_mod_cast (by omega : n + k ≠ 0)
  unfold lin
  congr 1
  have : (mx + (k : α) * ((mx - mn) / (n : α)) - mn) / ((n + k : Nat) : α) = (mx - mn) / (n : α) := by
    push_cast at hnk ⊢
    field_simp; ring
  rw [this]

/-- **extend, boundaries**: every existing class boundary (indices 0..bins) is untouched -/
theorem add_bounds_untouched (s s' : State α) (k i : Nat) (h : Inv s) (hs : add s k = some s')
    (hi : i ≤ s.bins) : s'.bounds[i]? = s.bounds[i]? := by
  rw [add_eq s k h] at hs
  have hs' := Option.some.inj hs
  subst hs'
  have hn := h.grid.bins_pos
  simp only
  rw [h.grid.bounds_eq, linspace_getElem? _ _ _ _ hn hi, linspace_getElem? _ _ _ _ (by omega) (by omega)]
  rw [stepOf, lin_extend _ _ _ _ _ hn]

/-- **extend, populations**: existing populations are untouched, the new classes are empty -/
theorem add_psd (s s' : State α) (k : Nat) (h : Inv s) (hs : add s k = some s') :
    s'.psd = s.psd ++ zeros k ∧ s'.bins = s.bins + k := by
  rw [add_eq s k h] at hs
  have hs' := Option.some.inj hs
  subst hs'; exact ⟨rfl, rfl⟩

/-- **extend, centres**: the centres of the existing classes are untouched -/
theorem add_size_prefix (s s' : State α) (k : Nat) (h : Inv s) (hs : add s k = some s') :
    ∃ rest, s'.size = s.size ++ rest := by
  have hinv' := add_inv s s' k h hs
  have hb := fun i hi => add_bounds_untouched s s' k i h hs hi
  obtain ⟨hn, hpl, hbl, hsl, -, -, -, hmid, -⟩ := inv_spec s h
  obtain ⟨hn', hpl', hbl', hsl', -, -, -, hmid', -⟩ := inv_spec s' hinv'
  have hbins : s'.bins = s.bins + k := (add_psd s s' k h hs).2
  refine ⟨s'.size.drop s.bins, ?_⟩
  have htake : s'.size.take s.bins = s.size := by
    apply List.ext_getElem?
    intro i
    by_cases hi : i < s.bins
    · rw [List.getElem?_take_of_lt hi]
      have hx : s.bounds[i]? = some (s.bounds[i]'(by omega)) := List.getElem?_eq_getElem _
      have hy : s.bounds[i+1]? = some (s.bounds[i+1]'(by omega)) := List.getElem?_eq_getElem _
      rw [hmid i _ _ hx hy]
      rw [← hb i (by omega)] at hx
      rw [← hb (i+1) (by omega)] at hy
      exact hmid' i _ _ hx hy
    · rw [List.getElem?_eq_none (by omega)]
      rw [List.getElem?_eq_none]; simp; omega
  rw [← htake, List.take_append_drop]

/-- **extend, moments**: every moment (in particular M0, M1, M3) of the distribution is unchanged -/
theorem add_moment (s s' : State α) (k j : Nat) (h : Inv s) (hs : add s k = some s') :
    moment s'.psd s'.size j = moment s.psd s.size j := by
  obtain ⟨rest, hr⟩ := add_size_prefix s s' k h hs
  obtain ⟨hn, hpl, hbl, hsl, -⟩ := inv_spec s h
  rw [(add_psd s s' k h hs).1, hr]
  exact moment_append_zeros j k _ _ _ (by omega)

end KawinV.Props.C08
