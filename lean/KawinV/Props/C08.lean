/-
C08 — property theorems (stub; nothing proved yet).
-/
namespace KawinV.Props.C08
end KawinV.Props.C08
