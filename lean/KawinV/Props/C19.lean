/-
C19 — property theorems (stub; nothing proved yet).
-/
namespace KawinV.Props.C19
end KawinV.Props.C19
