/-
C19 — stopping conditions stop the run when, and only when, they are met.
Property theorems about `KawinV.StopCond` (hand model of StoppingConditions.py, the and/or
combination of KWNBase.postProcess, the DESolver loop, KWNBase.reset and TTPCalculator._getStopTime;
tied to the source by the correspondence check tools/corr/C19.py).
α is any linearly ordered field; histories are arbitrary functions of the row index, so every
statement holds for histories of every length.
-/
import KawinV.Model.StopCond
import Mathlib.Tactic.Ring
import Mathlib.Tactic.Linarith
import Mathlib.Tactic.FieldSimp
import Mathlib.Algebra.Order.Field.Basic

set_option linter.unusedSectionVars false
set_option linter.unusedVariables false
set_option linter.unusedSimpArgs false

namespace KawinV.Props.C19
open KawinV.StopCond

variable {α : Type} [Field α] [LinearOrder α] [IsStrictOrderedRing α]

/-! ### every quantity / phase / element: what `_poll` reads -/

/-- **poll**: `_poll(model, n)` is row n, column `col` of the array the condition names. -/
theorem poll_reads (d : PData α) (c : Cond α) (n : Nat) : poll d c n = d.array c.q n c.col := rfl

theorem poll_volFrac (d : PData α) (c : Cond α) (n : Nat) (h : c.q = .volFrac) :
    poll d c n = d.volFrac n c.col := by unfold poll; rw [h]; rfl
theorem poll_radius (d : PData α) (c : Cond α) (n : Nat) (h : c.q = .radius) :
    poll d c n = d.Ravg n c.col := by unfold poll; rw [h]; rfl
theorem poll_drivingForce (d : PData α) (c : Cond α) (n : Nat) (h : c.q = .drivingForce) :
    poll d c n = d.drivingForce n c.col := by unfold poll; rw [h]; rfl
theorem poll_nucRate (d : PData α) (c : Cond α) (n : Nat) (h : c.q = .nucRate) :
    poll d c n = d.nucRate n c.col := by unfold poll; rw [h]; rfl
theorem poll_density (d : PData α) (c : Cond α) (n : Nat) (h : c.q = .density) :
    poll d c n = d.precipitateDensity n c.col := by unfold poll; rw [h]; rfl
theorem poll_composition (d : PData α) (c : Cond α) (n : Nat) (h : c.q = .composition) :
    poll d c n = d.composition n c.col := by unfold poll; rw [h]; rfl

/-- nothing else is read: two histories that agree on that one cell give the same value -/
theorem poll_local (d d' : PData α) (c : Cond α) (n : Nat)
    (h : d.array c.q n c.col = d'.array c.q n c.col) : poll d c n = poll d' c n := h

/-- **selection**: a name resolves to the first position holding it … -/
theorem indexOf_some (s : String) (names : List String) (i : Nat) (h : indexOf s names = some i) :
    names[i]? = some s ∧ ∀ j, j < i → names[j]? ≠ some s := by
  induction names generalizing i with
  | nil => simp [indexOf] at h
  | cons x xs ih =>
    unfold indexOf at h
    split at h
    · next hx =>
      have : i = 0 := by simpa using h.symm
      subst this
      exact ⟨by simp [hx], by intro j hj; omega⟩
    · next hx =>
      cases hr : indexOf s xs with
      | none => simp [hr] at h
      | some k =>
        simp [hr] at h
        subst h
        obtain ⟨h1, h2⟩ := ih k hr
        refine ⟨by simpa using h1, ?_⟩
        intro j hj
        cases j with
        | zero => simpa using hx
        | succ j => simpa using h2 j (by omega)

/-- … and fails (the Python call raises) exactly when the name is not in the list. -/
theorem indexOf_none (s : String) (names : List String) : indexOf s names = none ↔ s ∉ names := by
  induction names with
  | nil => simp [indexOf]
  | cons x xs ih =>
    unfold indexOf
    by_cases hx : x = s
    · simp [hx]
    · simp [hx, ih, Ne.symm hx]

/-- no name given: column 0 -/
theorem columnOf_default (phases elements : List String) (q : Quantity) :
    columnOf phases elements q none = some 0 := by
  cases q <;> rfl

/-- the composition condition looks its name up among the *elements* … -/
theorem columnOf_composition (phases elements : List String) (s : String) :
    columnOf phases elements .composition (some s) = indexOf s elements := rfl

/-- … every other condition among the *phases*. -/
theorem columnOf_phase (phases elements : List String) (q : Quantity) (s : String)
    (hq : q ≠ .composition) : columnOf phases elements q (some s) = indexOf s phases := by
  cases q <;> first | rfl | exact absurd rfl hq

/-! ### both inequalities -/

theorem holds_gt (v x : α) : holds .gt v x = true ↔ v < x := by simp [holds]
theorem holds_lt (v x : α) : holds .lt v x = true ↔ x < v := by simp [holds]
theorem holds_gt_false (v x : α) : holds .gt v x = false ↔ x ≤ v := by simp [holds]
theorem holds_lt_false (v x : α) : holds .lt v x = false ↔ v ≤ x := by simp [holds]

/-! ### latch -/

/-- **latch, one test**: a satisfied condition is not touched by `testCondition`. -/
theorem test_of_sat (d : PData α) (n : Nat) (c : Cond α) (l : Latch α) (h : l.sat = true) :
    test d n c l = l := by
  unfold test; simp [h]

/-- **latch, any further tests** (at any rows, in any order, any number): neither the flag nor
the reported time changes. -/
theorem latch_forever (d : PData α) (c : Cond α) (l : Latch α) (h : l.sat = true) (ns : List Nat) :
    ns.foldl (fun l n => test d n c l) l = l := by
  induction ns with
  | nil => rfl
  | cons n ns ih => simp only [List.foldl_cons]; rw [test_of_sat d n c l h]; exact ih

/-- **when and only when**, one test: satisfied after the test iff it was satisfied before or
the monitored value of the current row is beyond the threshold. -/
theorem test_sat_iff (d : PData α) (n : Nat) (c : Cond α) (l : Latch α) :
    (test d n c l).sat = true ↔ l.sat = true ∨ holds c.dir c.value (poll d c n) = true := by
  unfold test
  by_cases hl : l.sat = true
  · simp [hl]
  · have hl' : l.sat = false := by simpa using hl
    by_cases hh : holds c.dir c.value (poll d c n) = true
    · simp only [hl', hh, Bool.false_eq_true, if_false, if_true]
      split <;> simp
    · simp [hl', hh]

/-- not met on this row: flag stays clear and the reported time is not touched -/
theorem test_not_met (d : PData α) (n : Nat) (c : Cond α) (l : Latch α) (hl : l.sat = false)
    (hh : holds c.dir c.value (poll d c n) = false) : test d n c l = ⟨false, l.time⟩ := by
  unfold test; simp [hl, hh]

/-- in a run (tests at rows 1..k): once satisfied at step k, identical at every later step -/
theorem latchAt_stable (d : PData α) (c : Cond α) (l : Latch α) (k m : Nat)
    (h : (latchAt d c l k).sat = true) (hm : k ≤ m) : latchAt d c l m = latchAt d c l k := by
  induction m with
  | zero => have : k = 0 := by omega
            subst this; rfl
  | succ m ih =>
    rcases Nat.lt_or_ge m k with hlt | hge
    · have : k = m + 1 := by omega
      subst this; rfl
    · have e := ih hge
      show test d (m+1) c (latchAt d c l m) = latchAt d c l k
      rw [e, test_of_sat _ _ _ _ h]

/-- **when and only when**, whole run: satisfied after k steps iff it was satisfied at the start
or the monitored value was beyond the threshold on one of the rows 1..k. -/
theorem latchAt_sat_iff (d : PData α) (c : Cond α) (l : Latch α) (k : Nat) :
    (latchAt d c l k).sat = true ↔
      l.sat = true ∨ ∃ j, 1 ≤ j ∧ j ≤ k ∧ holds c.dir c.value (poll d c j) = true := by
  induction k with
  | zero => simp [latchAt]
  | succ k ih =>
    show (test d (k+1) c (latchAt d c l k)).sat = true ↔ _
    rw [test_sat_iff, ih]
    constructor
    · rintro ((h | ⟨j, h1, h2, h3⟩) | h)
      · exact Or.inl h
      · exact Or.inr ⟨j, h1, by omega, h3⟩
      · exact Or.inr ⟨k+1, by omega, le_refl _, h⟩
    · rintro (h | ⟨j, h1, h2, h3⟩)
      · exact Or.inl (Or.inl h)
      · rcases Nat.lt_or_ge j (k+1) with hj | hj
        · exact Or.inl (Or.inr ⟨j, h1, by omega, h3⟩)
        · have : j = k+1 := by omega
          subst this; exact Or.inr h3

/-- never beyond the threshold on rows 1..k: the latch is untouched (a cleared condition still
reports −1, which is what the TTP calculator stores for "not reached") -/
theorem latchAt_never (d : PData α) (c : Cond α) (l : Latch α) (k : Nat) (hl : l.sat = false)
    (h : ∀ i, 1 ≤ i → i ≤ k → holds c.dir c.value (poll d c i) = false) :
    latchAt d c l k = ⟨false, l.time⟩ := by
  induction k with
  | zero => cases l; simp_all [latchAt]
  | succ k ih =>
    show test d (k+1) c (latchAt d c l k) = _
    rw [ih (fun i h1 h2 => h i h1 (by omega))]
    exact test_not_met d (k+1) c ⟨false, l.time⟩ rfl (h (k+1) (by omega) (le_refl _))

/-- the latch of a run is decided on the **first** row j ≥ 1 beyond the threshold, by the single
test made on that row, and is the same after every later step -/
theorem latchAt_first (d : PData α) (c : Cond α) (l : Latch α) (j k : Nat) (hj : 1 ≤ j) (hjk : j ≤ k)
    (hl : l.sat = false)
    (hbefore : ∀ i, 1 ≤ i → i < j → holds c.dir c.value (poll d c i) = false)
    (hat : holds c.dir c.value (poll d c j) = true) :
    latchAt d c l k = test d j c ⟨false, l.time⟩ := by
  obtain ⟨j', rfl⟩ : ∃ j', j = j' + 1 := ⟨j - 1, by omega⟩
  have hprev := latchAt_never d c l j' hl (fun i h1 h2 => hbefore i h1 (by omega))
  have hj' : latchAt d c l (j'+1) = test d (j'+1) c ⟨false, l.time⟩ := by
    show test d (j'+1) c (latchAt d c l j') = _
    rw [hprev]
  have hs : (latchAt d c l (j'+1)).sat = true := by
    rw [hj', test_sat_iff]; exact Or.inr hat
  rw [latchAt_stable d c l (j'+1) k hs hjk, hj']

/-! ### crossing time -/

/-- **linear interpolant**: the reported time is the abscissa at which the straight line through
(t_prev, v_prev), (t_cur, v_cur) takes the threshold value … -/
theorem crossTime_interp (tp tc vp vc v : α) (h : vc ≠ vp) :
    (crossTime tp tc vp vc v - tp) * (vc - vp) = (tc - tp) * (v - vp) := by
  unfold crossTime
  have : vc - vp ≠ 0 := sub_ne_zero.mpr h
  field_simp
  ring

/-- … i.e. the interpolated value at the reported time *is* the threshold. -/
theorem crossTime_value (tp tc vp vc v : α) (ht : tp ≠ tc) (h : vc ≠ vp) :
    vp + (vc - vp) * ((crossTime tp tc vp vc v - tp) / (tc - tp)) = v := by
  unfold crossTime
  have h1 : vc - vp ≠ 0 := sub_ne_zero.mpr h
  have h2 : tc - tp ≠ 0 := sub_ne_zero.mpr (Ne.symm ht)
  field_simp
  ring

/-- **in the step, GREATER_THAN**: previous value not above the threshold, current value above
it ⇒ t_prev ≤ reported time ≤ t_cur. -/
theorem crossTime_mem_gt (tp tc vp vc v : α) (ht : tp ≤ tc) (hp : vp ≤ v) (hc : v < vc) :
    tp ≤ crossTime tp tc vp vc v ∧ crossTime tp tc vp vc v ≤ tc := by
  unfold crossTime
  have hd : 0 < vc - vp := by linarith
  have h0 : 0 ≤ (tc - tp) * (v - vp) / (vc - vp) :=
    div_nonneg (mul_nonneg (by linarith) (by linarith)) hd.le
  have h1 : (tc - tp) * (v - vp) / (vc - vp) ≤ tc - tp := by
    rw [div_le_iff₀ hd]
    exact mul_le_mul_of_nonneg_left (by linarith) (by linarith)
  constructor <;> linarith

/-- **in the step, LESSER_THAN**: previous value not below the threshold, current value below
it ⇒ t_prev ≤ reported time ≤ t_cur. -/
theorem crossTime_mem_lt (tp tc vp vc v : α) (ht : tp ≤ tc) (hp : v ≤ vp) (hc : vc < v) :
    tp ≤ crossTime tp tc vp vc v ∧ crossTime tp tc vp vc v ≤ tc := by
  have e : crossTime tp tc vp vc v = crossTime tp tc (-vp) (-vc) (-v) := by
    unfold crossTime
    have : vc - vp ≠ 0 := by intro h; linarith
    have : -vc - -vp ≠ 0 := by intro h; linarith
    field_simp
    ring
  rw [e]
  exact crossTime_mem_gt tp tc (-vp) (-vc) (-v) ht (by linarith) (by linarith)

/-- the current value is *strictly* beyond the threshold, so on a step of positive length the
reported time is strictly before the end of the step -/
theorem crossTime_lt_cur (tp tc vp vc v : α) (ht : tp < tc)
    (h : (vp ≤ v ∧ v < vc) ∨ (v ≤ vp ∧ vc < v)) : crossTime tp tc vp vc v < tc := by
  unfold crossTime
  rcases h with ⟨hp, hc⟩ | ⟨hp, hc⟩
  · have hd : 0 < vc - vp := by linarith
    have : (tc - tp) * (v - vp) / (vc - vp) < tc - tp := by
      rw [div_lt_iff₀ hd]
      exact mul_lt_mul_of_pos_left (by linarith) (by linarith)
    linarith
  · have hd : 0 < vp - vc := by linarith
    have e : (tc - tp) * (v - vp) / (vc - vp) = (tc - tp) * (vp - v) / (vp - vc) := by
      have : vc - vp ≠ 0 := by intro h; linarith
      have : vp - vc ≠ 0 := ne_of_gt hd
      field_simp
      ring
    have : (tc - tp) * (vp - v) / (vp - vc) < tc - tp := by
      rw [div_lt_iff₀ hd]
      exact mul_lt_mul_of_pos_left (by linarith) (by linarith)
    linarith

/-- previous value exactly on the threshold ⇒ the interpolant is the previous time: the branch
taken when the previous row already satisfies the condition continues the interpolation. -/
theorem crossTime_at_prev (tp tc vp vc : α) : crossTime tp tc vp vc vp = tp := by
  unfold crossTime; simp

/-- **crossing step**: not satisfied before, previous row not beyond the threshold, current row
beyond it ⇒ satisfied, and the reported time is the interpolant between the two rows. -/
theorem test_cross (d : PData α) (n : Nat) (c : Cond α) (l : Latch α) (hl : l.sat = false)
    (hn : 0 < n) (hprev : holds c.dir c.value (poll d c (n-1)) = false)
    (hcur : holds c.dir c.value (poll d c n) = true) :
    test d n c l = ⟨true, crossTime (d.time (n-1)) (d.time n) (poll d c (n-1)) (poll d c n) c.value⟩ := by
  unfold test; simp [hl, hcur, hn, hprev]

/-- **first step**: satisfied on row 0 ⇒ the reported time is the time of that row. -/
theorem test_first_step (d : PData α) (c : Cond α) (l : Latch α) (hl : l.sat = false)
    (hcur : holds c.dir c.value (poll d c 0) = true) : test d 0 c l = ⟨true, d.time 0⟩ := by
  unfold test; simp [hl, hcur]

/-- already beyond the threshold on the previous row (only possible on the first test of a run,
i.e. the condition holds in the initial state): the previous row's time, no extrapolation -/
theorem test_already (d : PData α) (n : Nat) (c : Cond α) (l : Latch α) (hl : l.sat = false)
    (hprev : holds c.dir c.value (poll d c (n-1)) = true)
    (hcur : holds c.dir c.value (poll d c n) = true) : test d n c l = ⟨true, d.time (n-1)⟩ := by
  unfold test; simp [hl, hcur, hprev]

/-- **reported time lies within the step** on which the latch closes, whatever the quantity,
direction, selection and branch: `time (n-1) ≤ reported ≤ time n`. -/
theorem test_time_in_step (d : PData α) (n : Nat) (c : Cond α) (l : Latch α) (hl : l.sat = false)
    (ht : d.time (n-1) ≤ d.time n) (hs : (test d n c l).sat = true) :
    d.time (n-1) ≤ (test d n c l).time ∧ (test d n c l).time ≤ d.time n := by
  have hcur : holds c.dir c.value (poll d c n) = true := by
    rcases (test_sat_iff d n c l).mp hs with h | h
    · rw [hl] at h; exact absurd h (by simp)
    · exact h
  by_cases hp : 0 < n ∧ holds c.dir c.value (poll d c (n-1)) = false
  · rw [test_cross d n c l hl hp.1 hp.2 hcur]
    show d.time (n-1) ≤ crossTime _ _ _ _ _ ∧ crossTime _ _ _ _ _ ≤ d.time n
    cases hd : c.dir with
    | gt =>
      rw [hd] at hcur hp
      exact crossTime_mem_gt _ _ _ _ _ ht ((holds_gt_false _ _).mp hp.2) ((holds_gt _ _).mp hcur)
    | lt =>
      rw [hd] at hcur hp
      exact crossTime_mem_lt _ _ _ _ _ ht ((holds_lt_false _ _).mp hp.2) ((holds_lt _ _).mp hcur)
  · have : test d n c l = ⟨true, d.time (n-1)⟩ := by
      unfold test; simp [hl, hcur]; intro h1 h2; exact absurd ⟨h1, h2⟩ hp
    rw [this]
    exact ⟨le_refl _, ht⟩

/-- the same for a whole run started with a clear latch: the reported time after any number of
steps k lies within the step j on which the monitored quantity first went beyond the threshold. -/
theorem run_time_in_crossing_step (d : PData α) (c : Cond α) (j k : Nat) (hj : 1 ≤ j) (hjk : j ≤ k)
    (hbefore : ∀ i, 1 ≤ i → i < j → holds c.dir c.value (poll d c i) = false)
    (hat : holds c.dir c.value (poll d c j) = true) (ht : d.time (j-1) ≤ d.time j) :
    (latchAt d c Latch.clear k).sat = true ∧
    d.time (j-1) ≤ (latchAt d c Latch.clear k).time ∧ (latchAt d c Latch.clear k).time ≤ d.time j := by
  rw [latchAt_first d c Latch.clear j k hj hjk rfl hbefore hat]
  have hs : (test d j c ⟨false, (Latch.clear : Latch α).time⟩).sat = true :=
    (test_sat_iff _ _ _ _).mpr (Or.inr hat)
  exact ⟨hs, test_time_in_step d j c _ rfl ht hs⟩

/-! ### and / or combination -/

theorem accumulate_spec (es : List (Entry α)) (o a : Bool) (k : Nat) :
    let r := es.foldl (fun (acc : Bool × Bool × Nat) (e : Entry α) =>
      if e.isOr then (acc.1 || e.l.sat, acc.2.1, acc.2.2)
      else (acc.1, acc.2.1 && e.l.sat, acc.2.2 + 1)) (o, a, k)
    (r.1 = true ↔ o = true ∨ ∃ e ∈ es, e.isOr = true ∧ e.l.sat = true) ∧
    (r.2.1 = true ↔ a = true ∧ ∀ e ∈ es, e.isOr = false → e.l.sat = true) ∧
    (r.2.2 = k + es.countP (fun e => !e.isOr)) := by
  induction es generalizing o a k with
  | nil => simp
  | cons e es ih =>
    simp only [List.foldl_cons]
    by_cases he : e.isOr = true
    · simp only [he, if_true]
      obtain ⟨h1, h2, h3⟩ := ih (o || e.l.sat) a k
      refine ⟨?_, ?_, ?_⟩
      · rw [h1]; simp only [Bool.or_eq_true, List.mem_cons]
        constructor
        · rintro ((h | h) | ⟨x, hx, hx2⟩)
          · exact Or.inl h
          · exact Or.inr ⟨e, Or.inl rfl, he, h⟩
          · exact Or.inr ⟨x, Or.inr hx, hx2⟩
        · rintro (h | ⟨x, hx | hx, hx2⟩)
          · exact Or.inl (Or.inl h)
          · subst hx; exact Or.inl (Or.inr hx2.2)
          · exact Or.inr ⟨x, hx, hx2⟩
      · rw [h2]; simp only [List.mem_cons]
        constructor
        · rintro ⟨ha, hall⟩
          refine ⟨ha, ?_⟩
          rintro x (hx | hx) hxo
          · subst hx; rw [he] at hxo; exact absurd hxo (by simp)
          · exact hall x hx hxo
        · rintro ⟨ha, hall⟩
          exact ⟨ha, fun x hx => hall x (Or.inr hx)⟩
      · rw [h3]; simp [List.countP_cons, he]
    · have he' : e.isOr = false := by simpa using he
      simp only [he', Bool.false_eq_true, if_false]
      obtain ⟨h1, h2, h3⟩ := ih o (a && e.l.sat) (k+1)
      refine ⟨?_, ?_, ?_⟩
      · rw [h1]; simp only [List.mem_cons]
        constructor
        · rintro (h | ⟨x, hx, hx2⟩)
          · exact Or.inl h
          · exact Or.inr ⟨x, Or.inr hx, hx2⟩
        · rintro (h | ⟨x, hx | hx, hx2⟩)
          · exact Or.inl h
          · subst hx; rw [he'] at hx2; exact absurd hx2.1 (by simp)
          · exact Or.inr ⟨x, hx, hx2⟩
      · rw [h2]; simp only [Bool.and_eq_true, List.mem_cons]
        constructor
        · rintro ⟨⟨ha, hs⟩, hall⟩
          refine ⟨ha, ?_⟩
          rintro x (hx | hx) hxo
          · subst hx; exact hs
          · exact hall x hx hxo
        · rintro ⟨ha, hall⟩
          exact ⟨⟨ha, hall e (Or.inl rfl) he'⟩, fun x hx => hall x (Or.inr hx)⟩
      · rw [h3]; simp [List.countP_cons, he']; omega

/-- **combination law**: the stop flag of `postProcess` is
`(∃ or-condition satisfied) ∨ (#and > 0 ∧ ∀ and-condition satisfied)`. -/
theorem stopFlag_iff (es : List (Entry α)) :
    stopFlag es = true ↔
      (∃ e ∈ es, e.isOr = true ∧ e.l.sat = true) ∨
      (0 < es.countP (fun e => !e.isOr) ∧ ∀ e ∈ es, e.isOr = false → e.l.sat = true) := by
  unfold stopFlag accumulate
  obtain ⟨h1, h2, h3⟩ := accumulate_spec es false true 0
  simp only at h1 h2 h3
  simp only [Bool.or_eq_true]
  rw [h1, h3]
  by_cases hk : es.countP (fun e => !e.isOr) = 0
  · simp [hk]
  · have hpos : 0 < es.countP (fun e => !e.isOr) := Nat.pos_of_ne_zero hk
    simp only [Nat.zero_add, hk, if_false, h2, hpos, true_and]
    simp

/-- no conditions at all: never stop -/
theorem stopFlag_nil : stopFlag ([] : List (Entry α)) = false := rfl

/-- only and-conditions (what the TTP calculator registers): stop iff there is at least one and
all are satisfied -/
theorem stopFlag_all_and (es : List (Entry α)) (h : ∀ e ∈ es, e.isOr = false) :
    stopFlag es = true ↔ es ≠ [] ∧ ∀ e ∈ es, e.l.sat = true := by
  rw [stopFlag_iff]
  constructor
  · rintro (⟨e, he, ho, _⟩ | ⟨hc, hall⟩)
    · rw [h e he] at ho; exact absurd ho (by simp)
    · refine ⟨?_, fun e he => hall e he (h e he)⟩
      rintro rfl; simp at hc
  · rintro ⟨hne, hall⟩
    refine Or.inr ⟨?_, fun e he _ => hall e he⟩
    cases es with
    | nil => exact absurd rfl hne
    | cons e es =>
      have : e.isOr = false := h e (List.mem_cons_self ..)
      simp [List.countP_cons, this]

/-! ### the run -/

/-- conditions do not interact: after k steps every entry carries the latch of its own
condition, list order and modes unchanged -/
theorem evolve_eq (d : PData α) (es : List (Entry α)) (k : Nat) :
    evolve d es k = es.map (fun e => { e with l := latchAt d e.c e.l k }) := by
  induction k with
  | zero => simp [evolve, latchAt]
  | succ k ih =>
    show testAll d (k+1) (evolve d es k) = _
    rw [ih]; unfold testAll
    simp [List.map_map, Function.comp_def, latchAt]

/-- **stop, in terms of the history** (when and only when): in a run started with clear latches,
the stop flag after step k is true iff some or-condition's quantity was beyond its threshold on
one of the rows 1..k, or there is an and-condition and every and-condition's quantity was beyond
its threshold on one of the rows 1..k (not necessarily the same row). -/
theorem stop_after_iff (d : PData α) (es : List (Entry α)) (k : Nat)
    (hclear : ∀ e ∈ es, e.l.sat = false) :
    stopFlag (evolve d es k) = true ↔
      (∃ e ∈ es, e.isOr = true ∧
        ∃ j, 1 ≤ j ∧ j ≤ k ∧ holds e.c.dir e.c.value (poll d e.c j) = true) ∨
      (0 < es.countP (fun e => !e.isOr) ∧
        ∀ e ∈ es, e.isOr = false →
          ∃ j, 1 ≤ j ∧ j ≤ k ∧ holds e.c.dir e.c.value (poll d e.c j) = true) := by
  have hsat : ∀ e ∈ es, ((latchAt d e.c e.l k).sat = true ↔
      ∃ j, 1 ≤ j ∧ j ≤ k ∧ holds e.c.dir e.c.value (poll d e.c j) = true) := by
    intro e he
    rw [latchAt_sat_iff, hclear e he]
    simp
  have hcount : (es.map (fun e => ({ e with l := latchAt d e.c e.l k } : Entry α))).countP
      (fun e => !e.isOr) = es.countP (fun e => !e.isOr) := by
    rw [List.countP_map]; rfl
  rw [stopFlag_iff, evolve_eq, hcount]
  constructor
  · rintro (⟨e', he', ho, hs⟩ | ⟨hc, hall⟩)
    · obtain ⟨e, he, rfl⟩ := List.mem_map.mp he'
      exact Or.inl ⟨e, he, ho, (hsat e he).mp hs⟩
    · refine Or.inr ⟨hc, fun e he ho => (hsat e he).mp ?_⟩
      exact hall _ (List.mem_map.mpr ⟨e, he, rfl⟩) ho
  · rintro (⟨e, he, ho, hs⟩ | ⟨hc, hall⟩)
    · exact Or.inl ⟨_, List.mem_map.mpr ⟨e, he, rfl⟩, ho, (hsat e he).mpr hs⟩
    · refine Or.inr ⟨hc, ?_⟩
      intro e' he' ho
      obtain ⟨e, he, rfl⟩ := List.mem_map.mp he'
      exact (hsat e he).mpr (hall e he ho)

/-- what the loop returns, in general position (entered at row k with the entries of row k) -/
theorem run_sound_aux (d : PData α) (tf : α) (es0 : List (Entry α)) (f k m : Nat) (b : Bool)
    (es' : List (Entry α)) (h : run d tf f k (evolve d es0 k) = (m, b, es')) :
    es' = evolve d es0 m ∧ k ≤ m ∧ m ≤ k + f ∧
    (∀ j, k ≤ j → j < m → d.time j < tf) ∧
    (∀ j, k < j → j < m → stopFlag (evolve d es0 j) = false) ∧
    (b = true → k < m ∧ stopFlag (evolve d es0 m) = true) ∧
    (b = false → (k < m → stopFlag (evolve d es0 m) = false) ∧ (¬ d.time m < tf ∨ m = k + f)) := by
  induction f generalizing k with
  | zero =>
    simp only [run, Prod.mk.injEq] at h
    obtain ⟨rfl, rfl, rfl⟩ := h
    refine ⟨rfl, le_refl _, by omega, by intro j h1 h2; omega, by intro j h1 h2; omega, by simp, ?_⟩
    intro _; exact ⟨by intro h; omega, Or.inr rfl⟩
  | succ f ih =>
    unfold run at h
    by_cases ht : d.time k < tf
    · simp only [ht, if_true] at h
      have hev : testAll d (k+1) (evolve d es0 k) = evolve d es0 (k+1) := rfl
      rw [hev] at h
      by_cases hs : stopFlag (evolve d es0 (k+1)) = true
      · simp only [hs, if_true, Prod.mk.injEq] at h
        obtain ⟨rfl, rfl, rfl⟩ := h
        refine ⟨rfl, by omega, by omega, ?_, by intro j h1 h2; omega, fun _ => ⟨by omega, hs⟩, by simp⟩
        intro j h1 h2
        have : j = k := by omega
        subst this; exact ht
      · have hs' : stopFlag (evolve d es0 (k+1)) = false := by simpa using hs
        simp only [hs', Bool.false_eq_true, if_false] at h
        obtain ⟨e1, e2, e3, e4, e5, e6, e7⟩ := ih (k+1) h
        refine ⟨e1, by omega, by omega, ?_, ?_, ?_, ?_⟩
        · intro j h1 h2
          rcases Nat.eq_or_lt_of_le h1 with h | h
          · subst h; exact ht
          · exact e4 j h h2
        · intro j h1 h2
          rcases Nat.eq_or_lt_of_le (Nat.succ_le_of_lt h1) with h | h
          · rw [← h]; exact hs'
          · exact e5 j h h2
        · intro hb; exact ⟨by omega, (e6 hb).2⟩
        · intro hb
          obtain ⟨g1, g2⟩ := e7 hb
          refine ⟨?_, ?_⟩
          · intro _
            rcases Nat.eq_or_lt_of_le e2 with h | h
            · rw [← h]; exact hs'
            · exact g1 h
          · rcases g2 with g | g
            · exact Or.inl g
            · exact Or.inr (by omega)
    · simp only [ht, if_false, Prod.mk.injEq] at h
      obtain ⟨rfl, rfl, rfl⟩ := h
      refine ⟨rfl, le_refl _, by omega, by intro j h1 h2; omega, by intro j h1 h2; omega, by simp, ?_⟩
      intro _; exact ⟨by intro h; omega, Or.inl ht⟩

/-- **the run stops only when the combination holds, and at the first such step**: if the loop
reports an early stop at row m, the stop flag is true after step m, false after every earlier
step, every earlier row was before the end time, and the latches are those of m steps. -/
theorem run_stop_sound (d : PData α) (tf : α) (es : List (Entry α)) (fuel m : Nat)
    (es' : List (Entry α)) (h : run d tf fuel 0 es = (m, true, es')) :
    1 ≤ m ∧ stopFlag (evolve d es m) = true ∧
    (∀ j, 1 ≤ j → j < m → stopFlag (evolve d es j) = false) ∧
    (∀ j, j < m → d.time j < tf) ∧ es' = evolve d es m := by
  obtain ⟨e1, e2, e3, e4, e5, e6, e7⟩ := run_sound_aux d tf es fuel 0 m true es' h
  obtain ⟨g1, g2⟩ := e6 rfl
  exact ⟨g1, g2, fun j h1 h2 => e5 j h1 h2, fun j h2 => e4 j (Nat.zero_le _) h2, e1⟩

/-- **otherwise it runs to the end time**: if the loop does not report an early stop (and was
not cut by the step bound), the stop flag was false after every step and row m is the first
row at or beyond the end time. -/
theorem run_end_sound (d : PData α) (tf : α) (es : List (Entry α)) (fuel m : Nat)
    (es' : List (Entry α)) (h : run d tf fuel 0 es = (m, false, es')) (hm : m < fuel) :
    ¬ d.time m < tf ∧ (∀ j, j < m → d.time j < tf) ∧
    (∀ j, 1 ≤ j → j ≤ m → stopFlag (evolve d es j) = false) ∧ es' = evolve d es m := by
  obtain ⟨e1, e2, e3, e4, e5, e6, e7⟩ := run_sound_aux d tf es fuel 0 m false es' h
  obtain ⟨g1, g2⟩ := e7 rfl
  refine ⟨?_, fun j h2 => e4 j (Nat.zero_le _) h2, ?_, e1⟩
  · rcases g2 with g | g
    · exact g
    · omega
  · intro j h1 h2
    rcases Nat.eq_or_lt_of_le h2 with h | h
    · subst h; exact g1 (by omega)
    · exact e5 j h1 h

theorem run_stop_aux (d : PData α) (tf : α) (es0 : List (Entry α)) (m : Nat)
    (htime : ∀ j, j < m → d.time j < tf)
    (hfirst : ∀ j, 1 ≤ j → j < m → stopFlag (evolve d es0 j) = false)
    (hstop : stopFlag (evolve d es0 m) = true) (f k : Nat) (hk : k < m) (hf : m ≤ k + f) :
    run d tf f k (evolve d es0 k) = (m, true, evolve d es0 m) := by
  induction f generalizing k with
  | zero => omega
  | succ f ih =>
    unfold run
    simp only [htime k hk, if_true]
    have hev : testAll d (k+1) (evolve d es0 k) = evolve d es0 (k+1) := rfl
    rw [hev]
    rcases Nat.eq_or_lt_of_le (Nat.succ_le_of_lt hk) with h | h
    · have h' : k + 1 = m := h
      rw [h']; simp [hstop]
    · have h' : k + 1 < m := h
      simp only [hfirst (k+1) (by omega) h', Bool.false_eq_true, if_false]
      exact ih (k+1) h' (by omega)

/-- **the run ends at the first step where the combination holds** (completeness): if m ≥ 1 is
the first step after which the stop flag is true and the end time was not reached before it,
the loop stops exactly there. -/
theorem run_stops_at_first (d : PData α) (tf : α) (es : List (Entry α)) (fuel m : Nat)
    (hm : 1 ≤ m) (hf : m ≤ fuel) (htime : ∀ j, j < m → d.time j < tf)
    (hfirst : ∀ j, 1 ≤ j → j < m → stopFlag (evolve d es j) = false)
    (hstop : stopFlag (evolve d es m) = true) :
    run d tf fuel 0 es = (m, true, evolve d es m) :=
  run_stop_aux d tf es m htime hfirst hstop fuel 0 (by omega) (by omega)

theorem run_end_aux (d : PData α) (tf : α) (es0 : List (Entry α)) (N : Nat)
    (htime : ∀ j, j < N → d.time j < tf) (hend : ¬ d.time N < tf)
    (hnone : ∀ j, 1 ≤ j → j ≤ N → stopFlag (evolve d es0 j) = false)
    (f k : Nat) (hk : k ≤ N) (hf : N ≤ k + f) :
    run d tf f k (evolve d es0 k) = (N, false, evolve d es0 N) := by
  induction f generalizing k with
  | zero =>
    have : k = N := by omega
    subst this; rfl
  | succ f ih =>
    unfold run
    rcases Nat.eq_or_lt_of_le hk with h | h
    · subst h; simp [hend]
    · simp only [htime k h, if_true]
      have hev : testAll d (k+1) (evolve d es0 k) = evolve d es0 (k+1) := rfl
      rw [hev]
      simp only [hnone (k+1) (by omega) (by omega), Bool.false_eq_true, if_false]
      exact ih (k+1) (by omega) (by omega)

/-- **otherwise it runs to the requested end time** (completeness): if the stop flag is false
after every step up to the first row N at or beyond the end time, the loop ends at row N. -/
theorem run_to_end (d : PData α) (tf : α) (es : List (Entry α)) (fuel N : Nat) (hf : N ≤ fuel)
    (htime : ∀ j, j < N → d.time j < tf) (hend : ¬ d.time N < tf)
    (hnone : ∀ j, 1 ≤ j → j ≤ N → stopFlag (evolve d es j) = false) :
    run d tf fuel 0 es = (N, false, evolve d es N) :=
  run_end_aux d tf es N htime hend hnone fuel 0 (Nat.zero_le _) (by omega)

/-! ### reset and the TTP calculator -/

/-- **reset**: afterwards every latch is clear (not satisfied, time −1) … -/
theorem resetAll_clear (es : List (Entry α)) : ∀ e ∈ resetAll es, e.l = Latch.clear := by
  intro e he
  unfold resetAll at he
  obtain ⟨x, _, rfl⟩ := List.mem_map.mp he
  rfl

/-- … the conditions and their modes are kept … -/
theorem resetAll_keeps (es : List (Entry α)) :
    (resetAll es).map (fun e => (e.c, e.isOr)) = es.map (fun e => (e.c, e.isOr)) := by
  unfold resetAll; simp [List.map_map, Function.comp_def]

/-- … and nothing of the previous run's latch state survives: two lists with the same conditions
and modes are identical after reset. -/
theorem resetAll_forgets (es es' : List (Entry α))
    (h : es.map (fun e => (e.c, e.isOr)) = es'.map (fun e => (e.c, e.isOr))) :
    resetAll es = resetAll es' := by
  induction es generalizing es' with
  | nil => cases es' with
    | nil => rfl
    | cons _ _ => simp at h
  | cons e es ih =>
    cases es' with
    | nil => simp at h
    | cons e' es' =>
      simp only [List.map_cons, List.cons.injEq, Prod.mk.injEq] at h
      obtain ⟨⟨h1, h2⟩, h3⟩ := h
      unfold resetAll
      simp only [List.map_cons, List.cons.injEq]
      refine ⟨by rw [h1, h2], ?_⟩
      exact ih es' h3

/-- **TTP, own run only**: the times reported for a temperature do not depend on the latches
left by the previous temperature's run. -/
theorem ttpTimes_forgets (d : PData α) (tf : α) (fuel : Nat) (es es' : List (Entry α))
    (h : es.map (fun e => (e.c, e.isOr)) = es'.map (fun e => (e.c, e.isOr))) :
    ttpTimes d tf fuel es = ttpTimes d tf fuel es' := by
  unfold ttpTimes; rw [resetAll_forgets es es' h]

/-- **TTP, what is reported**: with m the last row of that temperature's run, the time reported
for each condition is the time of the latch obtained from a *clear* latch by the tests on rows
1..m of that run's history (so `run_time_in_crossing_step` / `latchAt_never` apply: within the
crossing step of this run, or −1 when the threshold was not reached in this run). -/
theorem ttpTimes_eq (d : PData α) (tf : α) (fuel : Nat) (es : List (Entry α)) :
    ttpTimes d tf fuel es =
      es.map (fun e => (latchAt d e.c Latch.clear (run d tf fuel 0 (resetAll es)).1).time) := by
  unfold ttpTimes
  rcases hr : run d tf fuel 0 (resetAll es) with ⟨m, b, es'⟩
  have := (run_sound_aux d tf (resetAll es) fuel 0 m b es' hr).1
  simp only [this, evolve_eq]
  unfold resetAll
  simp [List.map_map, Function.comp_def]

/-- the TTP calculator registers all its conditions as 'and' -/
theorem ttpEntries_all_and (cs : List (Cond α)) (ls : List (Latch α)) :
    ∀ e ∈ ttpEntries cs ls, e.isOr = false := by
  induction cs generalizing ls with
  | nil => intro e he; simp [ttpEntries] at he
  | cons c cs ih =>
    cases ls with
    | nil => intro e he; simp [ttpEntries] at he
    | cons l ls =>
      intro e he
      simp only [ttpEntries, List.zipWith_cons_cons, List.mem_cons] at he
      rcases he with rfl | he
      · rfl
      · exact ih ls e he

/-! ### histories of the condition list of one model

`Reg` = pool latches + the model's registered list; `Reg.after` = state after any sequence of
addStoppingCondition / clearStoppingConditions / reset / solve / TTPCalculator(model, …). -/

/-- testing the same row twice is the same as testing it once (an object registered twice is
polled twice per step) -/
theorem test_idem (d : PData α) (n : Nat) (c : Cond α) (l : Latch α) :
    test d n c (test d n c l) = test d n c l := by
  by_cases hs : (test d n c l).sat = true
  · exact test_of_sat d n c _ hs
  · have h := (not_congr (test_sat_iff d n c l)).mp hs
    have h1 : l.sat = false := by
      cases hl : l.sat with
      | false => rfl
      | true => exact absurd (Or.inl hl) h
    have h2 : holds c.dir c.value (poll d c n) = false := by
      cases hh : holds c.dir c.value (poll d c n) with
      | false => rfl
      | true => exact absurd (Or.inr hh) h
    rw [test_not_met d n c l h1 h2]
    exact test_not_met d n c ⟨false, l.time⟩ rfl h2

theorem foldl_add_reg (is : List Nat) (s : Reg α) :
    (is.foldl (fun s i => s.add i false) s).reg = s.reg ++ is.map (fun i => (i, false)) := by
  induction is generalizing s with
  | nil => simp
  | cons i is ih =>
    simp only [List.foldl_cons, List.map_cons]
    rw [ih]; simp [Reg.add]

theorem foldl_add_latches (is : List Nat) (s : Reg α) :
    (is.foldl (fun s i => s.add i false) s).latches = s.latches := by
  induction is generalizing s with
  | nil => rfl
  | cons i is ih => simp only [List.foldl_cons]; rw [ih]; rfl

/-- **the TTP constructor leaves exactly its own conditions registered, all 'and'**, whatever the
model carried before -/
theorem ttpInit_reg (s : Reg α) (is : List Nat) :
    (s.ttpInit is).reg = is.map (fun i => (i, false)) := by
  unfold Reg.ttpInit; rw [foldl_add_reg]; simp [Reg.clear]

/-- … and does not touch any latch -/
theorem ttpInit_latches (s : Reg α) (is : List Nat) : (s.ttpInit is).latches = s.latches := by
  unfold Reg.ttpInit; rw [foldl_add_latches]; rfl

/-- the registered list after one call: `add` appends, `clear` empties, the TTP constructor
replaces, `reset` and `solve` leave it alone -/
theorem step_reg (conds : Nat → Cond α) (s : Reg α) (o : Op α) :
    (s.step conds o).reg = match o with
      | .add i b => s.reg ++ [(i, b)]
      | .clear => []
      | .reset => s.reg
      | .solve _ _ _ _ => s.reg
      | .ttpInit is => is.map (fun i => (i, false))
      | .setPBM _ => s.reg
      | .regrid _ _ _ _ => s.reg := by
  cases o with
  | add i b => rfl
  | clear => rfl
  | reset => rfl
  | solve d tf fuel k0 => rfl
  | ttpInit is => exact ttpInit_reg s is
  | setPBM cfgs => rfl
  | regrid p mn mx b => rfl

theorem after_cons (conds : Nat → Cond α) (s : Reg α) (o : Op α) (ops : List (Op α)) :
    s.after conds (o :: ops) = (s.step conds o).after conds ops := rfl

/-- everything before a `clear` (or a TTP constructor) is forgotten by the registered list -/
theorem after_clear_reg (conds : Nat → Cond α) (s s' : Reg α) (pre pre' post : List (Op α))
    (hpost : ∀ o ∈ post, ∀ d tf f k, o ≠ .solve d tf f k) :
    (s.after conds (pre ++ .clear :: post)).reg = (s'.after conds (pre' ++ .clear :: post)).reg := by
  have key : ∀ (post : List (Op α)) (a b : Reg α), a.reg = b.reg →
      (a.after conds post).reg = (b.after conds post).reg := by
    intro post
    induction post with
    | nil => intro a b h; exact h
    | cons o post ih =>
      intro a b h
      rw [after_cons, after_cons]
      apply ih
      rw [step_reg, step_reg]
      cases o <;> simp [h]
  unfold Reg.after
  rw [List.foldl_append, List.foldl_append]
  exact key post _ _ rfl

/-- the solve of two states that agree on the registered list and on the latches of the registered
objects: same last row, same stop decision, same latches of the registered objects afterwards -/
theorem solve_congr (conds : Nat → Cond α) (s s' : Reg α)
    (hreg : s.reg = s'.reg) (hl : ∀ r ∈ s.reg, s.latches r.1 = s'.latches r.1)
    (d : PData α) (tf : α) (fuel k0 : Nat) :
    (s.solve conds d tf fuel k0).1 = (s'.solve conds d tf fuel k0).1 ∧
    (s.solve conds d tf fuel k0).2.1 = (s'.solve conds d tf fuel k0).2.1 ∧
    ∀ r ∈ s.reg, (s.solve conds d tf fuel k0).2.2.latches r.1 =
                 (s'.solve conds d tf fuel k0).2.2.latches r.1 := by
  have hent : s.entries conds = s'.entries conds := by
    unfold Reg.entries
    rw [← hreg]
    apply List.map_congr_left
    intro r hr
    rw [hl r hr]
  refine ⟨?_, ?_, ?_⟩
  · simp only [Reg.solve, hent]
  · simp only [Reg.solve, hent]
  · intro r hr
    simp only [Reg.solve, Reg.writeBack, hent, ← hreg]
    split
    · rfl
    · exact hl r hr

/-- **the stop decision after any history is a function of the currently registered list and the
run**: two models with arbitrary pasts (any initial states, any sequences of add / clear / reset /
solve / TTP-constructor calls) whose registered lists are equal now and whose registered objects
carry the same latches end the same run at the same row with the same stop decision.  Nothing
else of the past (what was registered and cleared earlier, how many and-conditions ever existed)
enters. -/
theorem stop_depends_on_registered_only (conds : Nat → Cond α) (s0 s0' : Reg α)
    (ops ops' : List (Op α))
    (hreg : (s0.after conds ops).reg = (s0'.after conds ops').reg)
    (hl : ∀ r ∈ (s0.after conds ops).reg,
      (s0.after conds ops).latches r.1 = (s0'.after conds ops').latches r.1)
    (d : PData α) (tf : α) (fuel k0 : Nat) :
    ((s0.after conds ops).solve conds d tf fuel k0).1 =
      ((s0'.after conds ops').solve conds d tf fuel k0).1 ∧
    ((s0.after conds ops).solve conds d tf fuel k0).2.1 =
      ((s0'.after conds ops').solve conds d tf fuel k0).2.1 :=
  ⟨(solve_congr conds _ _ hreg hl d tf fuel k0).1, (solve_congr conds _ _ hreg hl d tf fuel k0).2.1⟩

/-- the decision itself: `solve` is the loop of `run` on the registered entries, nothing else -/
theorem solve_eq_run (conds : Nat → Cond α) (s : Reg α) (d : PData α) (tf : α) (fuel k0 : Nat) :
    ((s.solve conds d tf fuel k0).1, (s.solve conds d tf fuel k0).2.1) =
      ((run d tf fuel k0 (s.entries conds)).1, (run d tf fuel k0 (s.entries conds)).2.1) := rfl

/-- only or-conditions registered: the and-branch contributes nothing -/
theorem stopFlag_all_or (es : List (Entry α)) (h : ∀ e ∈ es, e.isOr = true) :
    (stopFlag es = true ↔ ∃ e ∈ es, e.l.sat = true) ∧ stopFlag es = (accumulate es).1 := by
  have hc : es.countP (fun e => !e.isOr) = 0 := by
    rw [List.countP_eq_zero]
    intro e he; simp [h e he]
  refine ⟨?_, ?_⟩
  · rw [stopFlag_iff, hc]
    constructor
    · rintro (⟨e, he, _, hs⟩ | ⟨hpos, _⟩)
      · exact ⟨e, he, hs⟩
      · omega
    · rintro ⟨e, he, hs⟩
      exact Or.inl ⟨e, he, h e he, hs⟩
  · obtain ⟨_, _, h3⟩ := accumulate_spec es false true 0
    try simp only at h3
    unfold stopFlag accumulate
    simp only [h3, hc, Nat.zero_add, if_true, Bool.or_false]

theorem after_noAnd_allOr (conds : Nat → Cond α) (ops : List (Op α)) (s : Reg α)
    (hs : ∀ r ∈ s.reg, r.2 = true) (hops : ∀ o ∈ ops, o.addsAnd = false) :
    ∀ r ∈ (s.after conds ops).reg, r.2 = true := by
  induction ops generalizing s with
  | nil => exact hs
  | cons o ops ih =>
    rw [after_cons]
    apply ih
    · have ho := hops o (List.mem_cons_self ..)
      rw [step_reg]
      cases o with
      | add i b =>
        cases b with
        | false => simp [Op.addsAnd] at ho
        | true =>
          intro r hr
          simp only [List.mem_append, List.mem_singleton] at hr
          rcases hr with hr | rfl
          · exact hs r hr
          · rfl
      | clear => intro r hr; simp at hr
      | reset => exact hs
      | solve d tf fuel k0 => exact hs
      | ttpInit is => simp [Op.addsAnd] at ho
      | setPBM cfgs => exact hs
      | regrid p mn mx b => exact hs
    · intro o' ho'; exact hops o' (List.mem_cons_of_mem _ ho')

/-- **after `clearStoppingConditions()`, with no and-condition registered since, the and-branch
contributes false**: whatever was registered before the clear (any state `s`, e.g. the
and-conditions of a TTP calculator), after any later calls that register no and-condition the
entries are all 'or', the number of and-conditions is 0, and the stop flag is exactly
"some registered or-condition is satisfied". -/
theorem clear_then_no_and_never_stops (conds : Nat → Cond α) (s : Reg α) (ops : List (Op α))
    (hops : ∀ o ∈ ops, o.addsAnd = false) :
    (∀ e ∈ (s.clear.after conds ops).entries conds, e.isOr = true) ∧
    ((s.clear.after conds ops).entries conds).countP (fun e => !e.isOr) = 0 ∧
    (stopFlag ((s.clear.after conds ops).entries conds) = true ↔
      ∃ e ∈ (s.clear.after conds ops).entries conds, e.l.sat = true) ∧
    stopFlag ((s.clear.after conds ops).entries conds) =
      (accumulate ((s.clear.after conds ops).entries conds)).1 := by
  have hall : ∀ e ∈ (s.clear.after conds ops).entries conds, e.isOr = true := by
    intro e he
    unfold Reg.entries at he
    obtain ⟨r, hr, rfl⟩ := List.mem_map.mp he
    exact after_noAnd_allOr conds ops s.clear (by intro r hr; simp [Reg.clear] at hr) hops r hr
  refine ⟨hall, ?_, (stopFlag_all_or _ hall).1, (stopFlag_all_or _ hall).2⟩
  rw [List.countP_eq_zero]
  intro e he; simp [hall e he]

theorem evolve_nil (d : PData α) (k : Nat) : evolve d ([] : List (Entry α)) k = [] := by
  rw [evolve_eq]; rfl

/-- **a model with no registered conditions always runs to the end time** -/
theorem no_conditions_run_to_end (d : PData α) (tf : α) (fuel N : Nat) (hf : N ≤ fuel)
    (htime : ∀ j, j < N → d.time j < tf) (hend : ¬ d.time N < tf) :
    run d tf fuel 0 ([] : List (Entry α)) = (N, false, []) := by
  have := run_to_end d tf [] fuel N hf htime hend (by intro j _ _; rw [evolve_nil]; rfl)
  rw [this, evolve_nil]

/-- the same on the registration state: after a clear and any calls that register nothing, a
solve from row 0 ends at the first row at or beyond the end time, not stopped -/
theorem cleared_model_runs_to_end (conds : Nat → Cond α) (s : Reg α) (ops : List (Op α))
    (hops : ∀ o ∈ ops, (∃ d tf f k, o = .solve d tf f k) ∨ o = .reset ∨ o = .clear)
    (d : PData α) (tf : α) (fuel N : Nat) (hf : N ≤ fuel)
    (htime : ∀ j, j < N → d.time j < tf) (hend : ¬ d.time N < tf) :
    ((s.clear.after conds ops).solve conds d tf fuel 0).1 = N ∧
    ((s.clear.after conds ops).solve conds d tf fuel 0).2.1 = false := by
  have hreg : ∀ (ops : List (Op α)) (a : Reg α), a.reg = [] →
      (∀ o ∈ ops, (∃ d tf f k, o = .solve d tf f k) ∨ o = .reset ∨ o = .clear) →
      (a.after conds ops).reg = [] := by
    intro ops
    induction ops with
    | nil => intro a h _; exact h
    | cons o ops ih =>
      intro a h ho
      rw [after_cons]
      apply ih
      · rw [step_reg]
        rcases ho o (List.mem_cons_self ..) with ⟨d, tf, f, k, rfl⟩ | rfl | rfl <;> simp [h]
      · intro o' ho'; exact ho o' (List.mem_cons_of_mem _ ho')
  have he : (s.clear.after conds ops).entries conds = [] := by
    unfold Reg.entries; rw [hreg ops s.clear rfl hops]; rfl
  simp only [Reg.solve, he, no_conditions_run_to_end d tf fuel N hf htime hend]
  exact ⟨trivial, trivial⟩

/-- `reset()` on the registration state is `resetAll` on what `postProcess` loops over -/
theorem resetModel_entries (conds : Nat → Cond α) (s : Reg α) :
    s.resetModel.entries conds = resetAll (s.entries conds) := by
  unfold Reg.entries resetAll Reg.resetModel
  simp only [List.map_map]
  apply List.map_congr_left
  intro r hr
  have : (s.reg.any fun r' => r'.1 == r.1) = true :=
    List.any_eq_true.mpr ⟨r, hr, by simp⟩
  simp [Function.comp, this]

/-- **the TTP calculator sees only its own conditions**: the times it reports for a temperature
are the same whatever the model carried before the calculator was constructed (any registered
list, any latches: states `s`, `s'` are arbitrary), and the run it makes is the loop of `run`
from clear latches over exactly the calculator's conditions, all in 'and' mode (so
`ttpTimes_eq`, `stopFlag_all_and`, `run_stops_at_first`, `run_to_end` describe it). -/
theorem ttp_sees_only_its_conditions (conds : Nat → Cond α) (s s' : Reg α) (is : List Nat)
    (d : PData α) (tf : α) (fuel : Nat) :
    (Reg.ttpStopTimes conds (s.ttpInit is) is d tf fuel).1 =
      (Reg.ttpStopTimes conds (s'.ttpInit is) is d tf fuel).1 ∧
    (s.ttpInit is).resetModel.entries conds =
      is.map (fun i => (⟨conds i, false, Latch.clear⟩ : Entry α)) := by
  have hreg : (s.ttpInit is).resetModel.reg = (s'.ttpInit is).resetModel.reg := by
    show (s.ttpInit is).reg = (s'.ttpInit is).reg
    rw [ttpInit_reg, ttpInit_reg]
  have hclear : ∀ (a : Reg α), ∀ r ∈ a.reg, a.resetModel.latches r.1 = Latch.clear := by
    intro a r hr
    have : (a.reg.any fun r' => r'.1 == r.1) = true := List.any_eq_true.mpr ⟨r, hr, by simp⟩
    simp only [Reg.resetModel, this, ↓reduceIte]
  have hl : ∀ r ∈ (s.ttpInit is).resetModel.reg,
      (s.ttpInit is).resetModel.latches r.1 = (s'.ttpInit is).resetModel.latches r.1 := by
    intro r hr
    have hr' : r ∈ (s'.ttpInit is).reg := by
      have : r ∈ (s.ttpInit is).reg := hr
      rw [ttpInit_reg] at this; rw [ttpInit_reg]; exact this
    rw [hclear (s.ttpInit is) r hr, hclear (s'.ttpInit is) r hr']
  have h3 := (solve_congr conds _ _ hreg hl d tf fuel 0).2.2
  refine ⟨?_, ?_⟩
  · unfold Reg.ttpStopTimes
    apply List.map_congr_left
    intro i hi
    have hmem : (i, false) ∈ (s.ttpInit is).resetModel.reg := by
      show (i, false) ∈ (s.ttpInit is).reg
      rw [ttpInit_reg]; exact List.mem_map.mpr ⟨i, hi, rfl⟩
    have := h3 (i, false) hmem
    simp only at this
    rw [this]
  · rw [resetModel_entries]
    unfold Reg.entries resetAll
    rw [ttpInit_reg]
    simp [List.map_map, Function.comp]

/-! #### reset keeps the configuration (population balance models) -/

theorem regridAt_cfg (mn mx : α) (b p : Nat) (l : List (PBMState α)) :
    (regridAt mn mx b p l).map (fun x => x.cfg) = l.map (fun x => x.cfg) := by
  induction l generalizing p with
  | nil => cases p <;> rfl
  | cons x xs ih =>
    cases p with
    | zero => rfl
    | succ p => simp [regridAt, ih]

theorem foldl_add_pbm (is : List Nat) (s : Reg α) :
    (is.foldl (fun s i => s.add i false) s).pbm = s.pbm := by
  induction is generalizing s with
  | nil => rfl
  | cons i is ih => simp only [List.foldl_cons]; rw [ih]; rfl

theorem ttpInit_pbm (s : Reg α) (is : List Nat) : (s.ttpInit is).pbm = s.pbm := by
  unfold Reg.ttpInit; rw [foldl_add_pbm]; rfl

/-- **`reset()` keeps the configuration**: afterwards the model holds the same number of population
balance models with the same configuration (limits, class counts, adaptive and recording flags),
each on its own configured initial grid, and the registered stopping conditions are the same. -/
theorem reset_keeps_configuration (s : Reg α) :
    s.resetModel.pbm.map (fun x => x.cfg) = s.pbm.map (fun x => x.cfg) ∧
    s.resetModel.pbm.length = s.pbm.length ∧
    (∀ p ∈ s.resetModel.pbm, p.gMin = p.cfg.cMin ∧ p.gMax = p.cfg.cMax ∧ p.gBins = p.cfg.bins) ∧
    s.resetModel.reg = s.reg := by
  refine ⟨?_, ?_, ?_, rfl⟩
  · simp [Reg.resetModel, PBMState.reset, List.map_map, Function.comp_def]
  · simp [Reg.resetModel]
  · intro p hp
    simp only [Reg.resetModel, List.mem_map] at hp
    obtain ⟨q, _, rfl⟩ := hp
    exact ⟨rfl, rfl, rfl⟩

/-- one call other than `setPBMParameters` leaves the configuration of every population balance model alone -/
theorem step_keeps_configuration (conds : Nat → Cond α) (s : Reg α) (o : Op α)
    (ho : ∀ cfgs, o ≠ .setPBM cfgs) :
    (s.step conds o).pbm.map (fun x => x.cfg) = s.pbm.map (fun x => x.cfg) := by
  cases o with
  | add i b => rfl
  | clear => rfl
  | reset => exact (reset_keeps_configuration s).1
  | solve d tf fuel k0 => rfl
  | ttpInit is => show (s.ttpInit is).pbm.map _ = _; rw [ttpInit_pbm]
  | setPBM cfgs => exact absurd rfl (ho cfgs)
  | regrid p mn mx b => exact regridAt_cfg mn mx b p s.pbm

/-- **any history** of add / clear / reset / solve (with whatever re-meshing) / TTP-constructor calls
keeps what `setPBMParameters` / `setPSDrecording` configured -/
theorem history_keeps_configuration (conds : Nat → Cond α) (ops : List (Op α)) (s : Reg α)
    (hops : ∀ o ∈ ops, ∀ cfgs, o ≠ .setPBM cfgs) :
    (s.after conds ops).pbm.map (fun x => x.cfg) = s.pbm.map (fun x => x.cfg) := by
  induction ops generalizing s with
  | nil => rfl
  | cons o ops ih =>
    rw [after_cons, ih _ (fun o' ho' => hops o' (List.mem_cons_of_mem _ ho'))]
    exact step_keeps_configuration conds s o (hops o (List.mem_cons_self ..))

/-- **the TTP run of every temperature is made on the configured grid**: after `_getStopTime`
(reset; solve) the population balance models are the model's own, each reset to its configured grid
(the run's re-meshing is an input, `Op.regrid`) -/
theorem ttp_runs_on_configured_grid (conds : Nat → Cond α) (s : Reg α) (is : List Nat)
    (d : PData α) (tf : α) (fuel : Nat) :
    (Reg.ttpStopTimes conds (s.ttpInit is) is d tf fuel).2.pbm = s.pbm.map PBMState.reset := by
  show ((s.ttpInit is).resetModel).pbm = _
  show (s.ttpInit is).pbm.map PBMState.reset = _
  rw [ttpInit_pbm]

/-- **witness, reset that replaces the population balance models by default ones** (the code before
repair 9231d6f): whenever some configured model differs from the default, the configuration after
`reset()` is not the configured one — every later run (each temperature of a TTP calculation) is made
on the default grid. -/
theorem reset_default_loses_configuration (dflt : PBMCfg α) (s : Reg α) (p : PBMState α)
    (hp : p ∈ s.pbm) (hne : p.cfg ≠ dflt) :
    (s.resetModelDefault dflt).pbm.map (fun x => x.cfg) ≠ s.pbm.map (fun x => x.cfg) ∧
    ∀ q ∈ (s.resetModelDefault dflt).pbm, q.cfg = dflt := by
  refine ⟨?_, ?_⟩
  · intro h
    simp only [Reg.resetModelDefault, List.map_map] at h
    have := List.map_inj_left.mp h p hp
    exact hne this.symm
  · intro q hq
    simp only [Reg.resetModelDefault, List.mem_map] at hq
    obtain ⟨_, _, rfl⟩ := hq
    rfl

/-! ### coupled runs: several models solved together through `Coupler` (GenericModel.py 453-465)

`Coupler.postProcess` calls every model's `postProcess` and or-combines the returned flags.  The run of
the coupler therefore ends at the first step at which ANY coupled model requests the stop — whatever its
position in the list — and otherwise at the end time; all models are stepped together, so each of them is
at that step when the run ends. -/

theorem foldl_or_any (flags : List Bool) (b : Bool) :
    flags.foldl (fun stop s => stop || s) b = (b || flags.any id) := by
  induction flags generalizing b with
  | nil => simp
  | cons x xs ih => simp [List.foldl_cons, ih, Bool.or_assoc]

/-- the loop of `Coupler.postProcess` computes `any` of the returned flags -/
theorem couplerStop_eq_any (flags : List Bool) : couplerStop flags = flags.any id := by
  unfold couplerStop; rw [foldl_or_any]; simp

/-- **the coupler requests the stop iff some coupled model does** -/
theorem coupler_stops_iff_any (flags : List Bool) :
    couplerStop flags = true ↔ ∃ s ∈ flags, s = true := by
  rw [couplerStop_eq_any]; simp

theorem coupler_no_stop_iff (flags : List Bool) :
    couplerStop flags = false ↔ ∀ s ∈ flags, s = false := by
  rw [couplerStop_eq_any]; simp

/-- … **at every position of the list**: the combined flag does not depend on the order of the models -/
theorem couplerStop_perm {l l' : List Bool} (h : l.Perm l') : couplerStop l = couplerStop l' := by
  have key : ∀ {a b : List Bool}, a.Perm b → ∀ s, s ∈ a ↔ s ∈ b := fun h s => h.mem_iff
  cases hl : couplerStop l with
  | true =>
    obtain ⟨s, hs, rfl⟩ := (coupler_stops_iff_any l).mp hl
    exact ((coupler_stops_iff_any l').mpr ⟨true, (key h true).mp hs, rfl⟩).symm
  | false =>
    refine ((coupler_no_stop_iff l').mpr fun s hs => ?_).symm
    exact (coupler_no_stop_iff l).mp hl s ((key h s).mpr hs)

/-- the variant that keeps only the last assignment returns the LAST model's flag … -/
theorem couplerStopLast_append (l : List Bool) (s : Bool) : couplerStopLast (l ++ [s]) = s := by
  simp [couplerStopLast, List.foldl_append]

/-- … so a request of any model that is not the last one is lost (witness, any number of models in front),
while the code's flag is true as soon as the first model requests -/
theorem last_flag_only_drops_requests (l : List Bool) :
    couplerStopLast (true :: l ++ [false]) = false ∧ couplerStop (true :: l ++ [false]) = true := by
  refine ⟨?_, ?_⟩
  · have := couplerStopLast_append (true :: l) false
    simpa using this
  · exact (coupler_stops_iff_any _).mpr ⟨true, by simp, rfl⟩

theorem evolved_zero (x : CModel α) : x.evolved 0 = x := by cases x <;> rfl

theorem map_evolved_zero (ms : List (CModel α)) : ms.map (CModel.evolved 0) = ms := by
  induction ms with
  | nil => rfl
  | cons x xs ih => simp [evolved_zero, ih]

/-- one step of one coupled model in general position -/
theorem post_evolved (x : CModel α) (k : Nat) :
    CModel.post (k+1) (x.evolved k) = (x.evolved (k+1), x.requestAt (k+1)) := by
  cases x <;> rfl

/-- models that are not precipitation models never request the stop -/
theorem other_never_requests (j : Nat) : (CModel.other : CModel α).requestAt j = false := rfl

/-- **a precipitation model's request, in terms of its own history** (clear latches at the start):
its own and/or rule on its own rows 1..j -/
theorem prec_request_iff_history (d : PData α) (es : List (Entry α)) (j : Nat)
    (hclear : ∀ e ∈ es, e.l.sat = false) :
    (CModel.prec d es).requestAt j = true ↔
      (∃ e ∈ es, e.isOr = true ∧
        ∃ i, 1 ≤ i ∧ i ≤ j ∧ holds e.c.dir e.c.value (poll d e.c i) = true) ∨
      (0 < es.countP (fun e => !e.isOr) ∧
        ∀ e ∈ es, e.isOr = false →
          ∃ i, 1 ≤ i ∧ i ≤ j ∧ holds e.c.dir e.c.value (poll d e.c i) = true) :=
  stop_after_iff d es j hclear

/-- `Coupler.postProcess` in general position: every model is stepped, the flags are the models' requests -/
theorem couplerPost_evolved (comb : List Bool → Bool) (ms : List (CModel α)) (k : Nat) :
    couplerPostWith comb (k+1) (ms.map (CModel.evolved k)) =
      (ms.map (CModel.evolved (k+1)), ms.map (CModel.requestAt (k+1)),
       comb (ms.map (CModel.requestAt (k+1)))) := by
  unfold couplerPostWith
  simp only [List.map_map, Function.comp_def, post_evolved]

/-- what the coupled loop returns, in general position, for any combination of the flags -/
theorem coupledRun_sound_aux (comb : List Bool → Bool) (clock : Nat → α) (tf : α)
    (ms0 : List (CModel α)) (f k m : Nat) (b : Bool) (ms' : List (CModel α))
    (h : coupledRunWith comb clock tf f k (ms0.map (CModel.evolved k)) = (m, b, ms')) :
    ms' = ms0.map (CModel.evolved m) ∧ k ≤ m ∧ m ≤ k + f ∧
    (∀ j, k ≤ j → j < m → clock j < tf) ∧
    (∀ j, k < j → j < m → comb (ms0.map (CModel.requestAt j)) = false) ∧
    (b = true → k < m ∧ comb (ms0.map (CModel.requestAt m)) = true) ∧
    (b = false → (k < m → comb (ms0.map (CModel.requestAt m)) = false) ∧ (¬ clock m < tf ∨ m = k + f)) := by
  induction f generalizing k with
  | zero =>
    simp only [coupledRunWith, Prod.mk.injEq] at h
    obtain ⟨rfl, rfl, rfl⟩ := h
    refine ⟨rfl, le_refl _, by omega, by intro j h1 h2; omega, by intro j h1 h2; omega, by simp, ?_⟩
    intro _; exact ⟨by intro h; omega, Or.inr rfl⟩
  | succ f ih =>
    unfold coupledRunWith at h
    by_cases ht : clock k < tf
    · simp only [ht, if_true] at h
      rw [couplerPost_evolved] at h
      by_cases hs : comb (ms0.map (CModel.requestAt (k+1))) = true
      · simp only [hs, if_true, Prod.mk.injEq] at h
        obtain ⟨rfl, rfl, rfl⟩ := h
        refine ⟨rfl, by omega, by omega, ?_, by intro j h1 h2; omega, fun _ => ⟨by omega, hs⟩, by simp⟩
        intro j h1 h2
        have : j = k := by omega
        subst this; exact ht
      · have hs' : comb (ms0.map (CModel.requestAt (k+1))) = false := by simpa using hs
        simp only [hs', Bool.false_eq_true, if_false] at h
        obtain ⟨e1, e2, e3, e4, e5, e6, e7⟩ := ih (k+1) h
        refine ⟨e1, by omega, by omega, ?_, ?_, ?_, ?_⟩
        · intro j h1 h2
          rcases Nat.eq_or_lt_of_le h1 with h | h
          · subst h; exact ht
          · exact e4 j h h2
        · intro j h1 h2
          rcases Nat.eq_or_lt_of_le (Nat.succ_le_of_lt h1) with h | h
          · rw [← h]; exact hs'
          · exact e5 j h h2
        · intro hb; exact ⟨by omega, (e6 hb).2⟩
        · intro hb
          obtain ⟨g1, g2⟩ := e7 hb
          refine ⟨?_, ?_⟩
          · intro _
            rcases Nat.eq_or_lt_of_le e2 with h | h
            · rw [← h]; exact hs'
            · exact g1 h
          · rcases g2 with g | g
            · exact Or.inl g
            · exact Or.inr (by omega)
    · simp only [ht, if_false, Prod.mk.injEq] at h
      obtain ⟨rfl, rfl, rfl⟩ := h
      refine ⟨rfl, le_refl _, by omega, by intro j h1 h2; omega, by intro j h1 h2; omega, by simp, ?_⟩
      intro _; exact ⟨by intro h; omega, Or.inl ht⟩

/-- **a coupled run ends at the first step at which ANY coupled model requests the stop** (soundness):
if the loop over the coupler reports an early stop at row m, then some model of the list — at whatever
position — requests the stop after step m, no model requested it after an earlier step, every earlier
row was before the end time, and EVERY coupled model has been stepped to row m (all clocks are the
stop time). -/
theorem coupled_run_ends_at_first_request (clock : Nat → α) (tf : α) (ms : List (CModel α))
    (fuel m : Nat) (ms' : List (CModel α)) (h : coupledRun clock tf fuel 0 ms = (m, true, ms')) :
    1 ≤ m ∧ (∃ x ∈ ms, x.requestAt m = true) ∧
    (∀ j, 1 ≤ j → j < m → ∀ x ∈ ms, x.requestAt j = false) ∧
    (∀ j, j < m → clock j < tf) ∧ ms' = ms.map (CModel.evolved m) := by
  have h0 : coupledRunWith couplerStop clock tf fuel 0 (ms.map (CModel.evolved 0)) = (m, true, ms') := by
    rw [map_evolved_zero]; exact h
  obtain ⟨e1, e2, e3, e4, e5, e6, e7⟩ := coupledRun_sound_aux couplerStop clock tf ms fuel 0 m true ms' h0
  obtain ⟨g1, g2⟩ := e6 rfl
  refine ⟨g1, ?_, ?_, fun j h2 => e4 j (Nat.zero_le _) h2, e1⟩
  · obtain ⟨s, hs, rfl⟩ := (coupler_stops_iff_any _).mp g2
    obtain ⟨x, hx, hxs⟩ := List.mem_map.mp hs
    exact ⟨x, hx, hxs⟩
  · intro j h1 h2 x hx
    exact (coupler_no_stop_iff _).mp (e5 j h1 h2) _ (List.mem_map.mpr ⟨x, hx, rfl⟩)

/-- **otherwise the coupled run goes to the end time** (soundness): no early stop (and not cut by the step
bound) means no model requested the stop after any step and row m is the first at or beyond the end time -/
theorem coupled_run_end_sound (clock : Nat → α) (tf : α) (ms : List (CModel α))
    (fuel m : Nat) (ms' : List (CModel α)) (h : coupledRun clock tf fuel 0 ms = (m, false, ms'))
    (hm : m < fuel) :
    ¬ clock m < tf ∧ (∀ j, j < m → clock j < tf) ∧
    (∀ j, 1 ≤ j → j ≤ m → ∀ x ∈ ms, x.requestAt j = false) ∧ ms' = ms.map (CModel.evolved m) := by
  have h0 : coupledRunWith couplerStop clock tf fuel 0 (ms.map (CModel.evolved 0)) = (m, false, ms') := by
    rw [map_evolved_zero]; exact h
  obtain ⟨e1, e2, e3, e4, e5, e6, e7⟩ := coupledRun_sound_aux couplerStop clock tf ms fuel 0 m false ms' h0
  obtain ⟨g1, g2⟩ := e7 rfl
  refine ⟨?_, fun j h2 => e4 j (Nat.zero_le _) h2, ?_, e1⟩
  · rcases g2 with g | g
    · exact g
    · omega
  · intro j h1 h2 x hx
    have : couplerStop (ms.map (CModel.requestAt j)) = false := by
      rcases Nat.eq_or_lt_of_le h2 with h | h
      · subst h; exact g1 (by omega)
      · exact e5 j h1 h
    exact (coupler_no_stop_iff _).mp this _ (List.mem_map.mpr ⟨x, hx, rfl⟩)

theorem coupledRun_stop_aux (comb : List Bool → Bool) (clock : Nat → α) (tf : α)
    (ms0 : List (CModel α)) (m : Nat)
    (htime : ∀ j, j < m → clock j < tf)
    (hfirst : ∀ j, 1 ≤ j → j < m → comb (ms0.map (CModel.requestAt j)) = false)
    (hstop : comb (ms0.map (CModel.requestAt m)) = true) (f k : Nat) (hk : k < m) (hf : m ≤ k + f) :
    coupledRunWith comb clock tf f k (ms0.map (CModel.evolved k)) =
      (m, true, ms0.map (CModel.evolved m)) := by
  induction f generalizing k with
  | zero => omega
  | succ f ih =>
    unfold coupledRunWith
    simp only [htime k hk, if_true]
    rw [couplerPost_evolved]
    rcases Nat.eq_or_lt_of_le (Nat.succ_le_of_lt hk) with h | h
    · have h' : k + 1 = m := h
      rw [h']; simp [hstop]
    · have h' : k + 1 < m := h
      simp only [hfirst (k+1) (by omega) h', Bool.false_eq_true, if_false]
      exact ih (k+1) h' (by omega)

/-- **completeness**: if m ≥ 1 is the first step after which some coupled model — first, middle or last in
the list — requests the stop, and the end time was not reached before it, the coupled run stops exactly
there, with every model at row m. -/
theorem coupled_run_stops_at_first_request (clock : Nat → α) (tf : α) (ms : List (CModel α))
    (fuel m : Nat) (hm : 1 ≤ m) (hf : m ≤ fuel) (htime : ∀ j, j < m → clock j < tf)
    (hfirst : ∀ j, 1 ≤ j → j < m → ∀ x ∈ ms, x.requestAt j = false)
    (hstop : ∃ x ∈ ms, x.requestAt m = true) :
    coupledRun clock tf fuel 0 ms = (m, true, ms.map (CModel.evolved m)) := by
  have := coupledRun_stop_aux couplerStop clock tf ms m htime
    (fun j h1 h2 => (coupler_no_stop_iff _).mpr (by
      intro s hs
      obtain ⟨x, hx, rfl⟩ := List.mem_map.mp hs
      exact hfirst j h1 h2 x hx))
    ((coupler_stops_iff_any _).mpr (by
      obtain ⟨x, hx, hxs⟩ := hstop
      exact ⟨_, List.mem_map.mpr ⟨x, hx, rfl⟩, hxs⟩))
    fuel 0 (by omega) (by omega)
  rw [map_evolved_zero] at this
  exact this

theorem coupledRun_end_aux (comb : List Bool → Bool) (clock : Nat → α) (tf : α)
    (ms0 : List (CModel α)) (N : Nat)
    (htime : ∀ j, j < N → clock j < tf) (hend : ¬ clock N < tf)
    (hnone : ∀ j, 1 ≤ j → j ≤ N → comb (ms0.map (CModel.requestAt j)) = false)
    (f k : Nat) (hk : k ≤ N) (hf : N ≤ k + f) :
    coupledRunWith comb clock tf f k (ms0.map (CModel.evolved k)) =
      (N, false, ms0.map (CModel.evolved N)) := by
  induction f generalizing k with
  | zero =>
    have : k = N := by omega
    subst this; rfl
  | succ f ih =>
    unfold coupledRunWith
    rcases Nat.eq_or_lt_of_le hk with h | h
    · subst h; simp [hend]
    · simp only [htime k h, if_true]
      rw [couplerPost_evolved]
      simp only [hnone (k+1) (by omega) (by omega), Bool.false_eq_true, if_false]
      exact ih (k+1) (by omega) (by omega)

/-- **completeness, no request**: if no coupled model requests the stop up to the first row N at or beyond the
end time, the coupled run ends at row N -/
theorem coupled_run_to_end (clock : Nat → α) (tf : α) (ms : List (CModel α)) (fuel N : Nat)
    (hf : N ≤ fuel) (htime : ∀ j, j < N → clock j < tf) (hend : ¬ clock N < tf)
    (hnone : ∀ j, 1 ≤ j → j ≤ N → ∀ x ∈ ms, x.requestAt j = false) :
    coupledRun clock tf fuel 0 ms = (N, false, ms.map (CModel.evolved N)) := by
  have := coupledRun_end_aux couplerStop clock tf ms N htime hend
    (fun j h1 h2 => (coupler_no_stop_iff _).mpr (by
      intro s hs
      obtain ⟨x, hx, rfl⟩ := List.mem_map.mp hs
      exact hnone j h1 h2 x hx))
    fuel 0 (Nat.zero_le _) (by omega)
  rw [map_evolved_zero] at this
  exact this

/-- **the position of the requesting model does not matter**: reordering the coupled models does not change
where the coupled run ends -/
theorem coupled_run_position_irrelevant (clock : Nat → α) (tf : α) (ms ms' : List (CModel α))
    (hp : ms.Perm ms') (fuel : Nat) :
    (coupledRun clock tf fuel 0 ms).1 = (coupledRun clock tf fuel 0 ms').1 ∧
    (coupledRun clock tf fuel 0 ms).2.1 = (coupledRun clock tf fuel 0 ms').2.1 := by
  have key : ∀ (f k : Nat),
      (coupledRunWith couplerStop clock tf f k (ms.map (CModel.evolved k))).1 =
        (coupledRunWith couplerStop clock tf f k (ms'.map (CModel.evolved k))).1 ∧
      (coupledRunWith couplerStop clock tf f k (ms.map (CModel.evolved k))).2.1 =
        (coupledRunWith couplerStop clock tf f k (ms'.map (CModel.evolved k))).2.1 := by
    intro f
    induction f with
    | zero => intro k; exact ⟨rfl, rfl⟩
    | succ f ih =>
      intro k
      unfold coupledRunWith
      by_cases ht : clock k < tf
      · simp only [ht, if_true]
        rw [couplerPost_evolved, couplerPost_evolved]
        have hc : couplerStop (ms.map (CModel.requestAt (k+1))) = couplerStop (ms'.map (CModel.requestAt (k+1))) :=
          couplerStop_perm (hp.map _)
        simp only [hc]
        by_cases hs : couplerStop (ms'.map (CModel.requestAt (k+1))) = true
        · simp [hs]
        · have hs' : couplerStop (ms'.map (CModel.requestAt (k+1))) = false := by simpa using hs
          simp only [hs', Bool.false_eq_true, if_false]
          exact ih (k+1)
      · simp [ht]
  have := key fuel 0
  rw [map_evolved_zero, map_evolved_zero] at this
  exact this

/-! #### witnesses: the two broken variants -/

/-- the counter variant agrees with the code exactly as long as the counter equals the number of
registered and-conditions … -/
theorem stopFlagCnt_in_sync (es : List (Entry α)) :
    stopFlagCnt (es.countP (fun e => !e.isOr)) es = stopFlag es := by
  obtain ⟨_, _, h3⟩ := accumulate_spec es false true 0
  try simp only at h3
  unfold stopFlagCnt stopFlag accumulate
  simp only [h3, Nat.zero_add]

/-- … **stale counter**: history `addStoppingCondition(c, 'and'); clearStoppingConditions()`.
Nothing is registered afterwards and the code's stop flag after the first step is false (the
run goes on), but a counter that `clear` does not take back is 1 and the flag of the counter
variant is true: the run would end after its first step with no condition met. -/
theorem stale_counter_stops_empty_run (conds : Nat → Cond α) (d : PData α) :
    ((Reg.fresh : Reg α).after conds [.add 0 false, .clear]).entries conds = [] ∧
    stopFlag (testAll d 1 (((Reg.fresh : Reg α).after conds [.add 0 false, .clear]).entries conds)) = false ∧
    staleCount 0 ([.add 0 false, .clear] : List (Op α)) = 1 ∧
    stopFlagCnt (staleCount 0 ([.add 0 false, .clear] : List (Op α)))
      (testAll d 1 (((Reg.fresh : Reg α).after conds [.add 0 false, .clear]).entries conds)) = true := by
  refine ⟨rfl, rfl, rfl, rfl⟩

/-- the same with an or-condition that is not met registered after the clear -/
theorem stale_counter_stops_unmet_or (c : Cond α) :
    stopFlag [(⟨c, true, ⟨false, 0⟩⟩ : Entry α)] = false ∧
    stopFlagCnt 1 [(⟨c, true, ⟨false, 0⟩⟩ : Entry α)] = true := ⟨rfl, rfl⟩

/-- **constructor that keeps old conditions**: a model that carries an or-condition and is then
given to the variant constructor still has it registered, in front of the calculator's own. -/
theorem ttpInitKeep_keeps (s : Reg α) (i : Nat) (is : List Nat) :
    ∃ rest, ((s.clear.add i true).ttpInitKeep is).reg = (i, true) :: rest := by
  have key : ∀ (is : List Nat) (a : Reg α) (r : Nat × Bool) (tl : List (Nat × Bool)),
      a.reg = r :: tl → ∃ rest, (a.ttpInitKeep is).reg = r :: rest := by
    intro is
    induction is with
    | nil => intro a r tl h; exact ⟨tl, h⟩
    | cons j is ih =>
      intro a r tl h
      unfold Reg.ttpInitKeep
      simp only [List.foldl_cons]
      by_cases hj : (a.reg.any fun r => r.1 == j) = true
      · simp only [hj, if_true]; exact ih a r tl h
      · simp only [hj]
        exact ih (a.add j false) r (tl ++ [(j, false)]) (by simp [Reg.add, h])
  exact key is (s.clear.add i true) (i, true) [] rfl

/-- concrete run (ℚ, the `demo` history: time k = k, volFrac k = k/10): the model carries the
or-condition f > 1/4; the calculator is given f > 1/4 and f > 11/20.  The code's constructor gives a
run that ends at row 6 with both times reported (5/2, 11/2); the variant's run ends at row 3 —
when the left-over or-condition is met — and the second condition is reported as not reached (−1). -/
def demoConds : Nat → Cond ℚ
  | 2 => ⟨.volFrac, .gt, 11/20, 0⟩
  | _ => ⟨.volFrac, .gt, 1/4, 0⟩

/-! ### non-vacuity: concrete instances of the hypothesis sets -/

/-- a one-phase history over ℚ: time k = k, volFrac k = k/10 -/
def demo : PData ℚ :=
  { time := fun k => k, volFrac := fun k _ => k / 10, Ravg := fun _ _ => 0, drivingForce := fun k _ => 5 - k,
    nucRate := fun _ _ => 0, precipitateDensity := fun _ _ => 0, composition := fun _ _ => 0 }

def demoC : Cond ℚ := ⟨.volFrac, .gt, 1/4, 0⟩

-- crossing hypotheses (GREATER_THAN) are satisfiable and give the interpolant 2.5
example : test demo 3 demoC Latch.clear = ⟨true, 5/2⟩ := by
  unfold test holds poll PData.array crossTime demo demoC Latch.clear; norm_num
-- LESSER_THAN on a decreasing quantity: drivingForce = 5 - k < 3/2 first at k = 4, reported 3.5
example : test demo 4 ⟨.drivingForce, .lt, 3/2, 0⟩ Latch.clear = ⟨true, 7/2⟩ := by
  unfold test holds poll PData.array crossTime demo Latch.clear; norm_num
example : (1:ℚ) ≤ 2 ∧ (1:ℚ) ≤ 3 ∧ (3:ℚ) < 4 := by norm_num
example : crossTime (1:ℚ) 2 1 4 3 = 5/3 := by unfold crossTime; norm_num
-- a run that stops early and one that reaches the end
example : (run demo 10 20 0 [⟨demoC, true, Latch.clear⟩]).1 = 3 := by
  simp [run, testAll, stopFlag, accumulate, test, holds, poll, PData.array, demo, demoC, Latch.clear, crossTime]
  norm_num
example : (run demo 2 20 0 [⟨demoC, true, Latch.clear⟩]).1 = 2 := by
  simp [run, testAll, stopFlag, accumulate, test, holds, poll, PData.array, demo, demoC, Latch.clear, crossTime]
  norm_num
example : indexOf "B" ["A", "B", "B"] = some 1 := by decide

/-! #### histories: concrete witness for the constructor variant, non-vacuity of the new hypothesis sets -/

/-- see `demoConds`: the code's constructor (`ttpInit`) vs. the variant that keeps what the model
carried (`ttpInitKeep`), model carrying the or-condition f > 1/4 (pool object 0) -/
theorem keep_constructor_reports_unreached :
    ((((Reg.fresh : Reg ℚ).add 0 true).ttpInit [1,2]).resetModel.solve demoConds demo 10 20 0).1 = 6 ∧
    (Reg.ttpStopTimes demoConds (((Reg.fresh : Reg ℚ).add 0 true).ttpInit [1,2]) [1,2] demo 10 20).1 = [5/2, 11/2] ∧
    ((((Reg.fresh : Reg ℚ).add 0 true).ttpInitKeep [1,2]).resetModel.solve demoConds demo 10 20 0).1 = 3 ∧
    (Reg.ttpStopTimes demoConds (((Reg.fresh : Reg ℚ).add 0 true).ttpInitKeep [1,2]) [1,2] demo 10 20).1 = [5/2, -1] := by
  refine ⟨?_, ?_, ?_, ?_⟩
  · simp [Reg.solve, Reg.resetModel, Reg.ttpInit, Reg.add, Reg.clear, Reg.fresh, Reg.entries, demoConds,
      run, testAll, stopFlag, accumulate, test, holds, poll, PData.array, demo, Latch.clear, crossTime]
    norm_num
  · simp [Reg.ttpStopTimes, Reg.solve, Reg.writeBack, Reg.resetModel, Reg.ttpInit, Reg.add, Reg.clear, Reg.fresh,
      Reg.entries, demoConds, run, testAll, stopFlag, accumulate, test, holds, poll, PData.array, demo, Latch.clear, crossTime]
    norm_num
  · simp [Reg.solve, Reg.resetModel, Reg.ttpInitKeep, Reg.add, Reg.fresh, Reg.entries, demoConds,
      run, testAll, stopFlag, accumulate, test, holds, poll, PData.array, demo, Latch.clear, crossTime]
    norm_num
  · simp [Reg.ttpStopTimes, Reg.solve, Reg.writeBack, Reg.resetModel, Reg.ttpInitKeep, Reg.add, Reg.fresh,
      Reg.entries, demoConds, run, testAll, stopFlag, accumulate, test, holds, poll, PData.array, demo, Latch.clear, crossTime]
    norm_num

-- hypothesis set of `clear_then_no_and_never_stops`: a history after the clear that registers no and-condition
example : ∀ o ∈ ([.add 0 true, .reset, .solve demo 10 20 0, .clear, .add 1 true] : List (Op ℚ)), o.addsAnd = false := by
  intro o ho
  simp only [List.mem_cons, List.not_mem_nil, or_false] at ho
  rcases ho with rfl | rfl | rfl | rfl | rfl <;> rfl
-- … and it is not satisfied by a history that registers one (the hypothesis excludes something)
example : ¬ ∀ o ∈ ([.add 0 false] : List (Op ℚ)), o.addsAnd = false := by
  intro h; exact absurd (h _ (List.mem_singleton.mpr rfl)) (by simp [Op.addsAnd])
-- hypothesis set of `stop_depends_on_registered_only`: two different pasts, same registered list and latches now
example : ((Reg.fresh : Reg ℚ).after demoConds [.add 0 false, .add 2 true, .clear, .add 1 true]).reg =
          ((Reg.fresh : Reg ℚ).after demoConds [.ttpInit [0, 2], .clear, .add 1 true]).reg ∧
    ∀ r ∈ ((Reg.fresh : Reg ℚ).after demoConds [.add 0 false, .add 2 true, .clear, .add 1 true]).reg,
      ((Reg.fresh : Reg ℚ).after demoConds [.add 0 false, .add 2 true, .clear, .add 1 true]).latches r.1 =
      ((Reg.fresh : Reg ℚ).after demoConds [.ttpInit [0, 2], .clear, .add 1 true]).latches r.1 :=
  ⟨rfl, fun _ _ => rfl⟩
-- hypothesis set of `cleared_model_runs_to_end` / `no_conditions_run_to_end` on the demo history (end time 5/2: row 3)
example : (∀ j, j < 3 → demo.time j < (5/2 : ℚ)) ∧ ¬ demo.time 3 < (5/2 : ℚ) := by
  refine ⟨?_, by simp [demo]; norm_num⟩
  intro j hj
  have : j = 0 ∨ j = 1 ∨ j = 2 := by omega
  rcases this with rfl | rfl | rfl <;> simp [demo] <;> norm_num

-- hypothesis set of `reset_default_loses_configuration`: a configured model that is not the default one
example : (PBMState.ofCfg (⟨1, 100, 75, 50, 100, true, true⟩ : PBMCfg ℚ)) ∈
      ({ latches := fun _ => Latch.clear, reg := [], pbm := [PBMState.ofCfg ⟨1, 100, 75, 50, 100, true, true⟩] } : Reg ℚ).pbm ∧
    (PBMState.ofCfg (⟨1, 100, 75, 50, 100, true, true⟩ : PBMCfg ℚ)).cfg ≠ (⟨1, 10, 150, 100, 200, true, false⟩ : PBMCfg ℚ) := by
  refine ⟨List.mem_singleton.mpr rfl, ?_⟩
  intro h
  simp [PBMState.ofCfg] at h
-- `history_keeps_configuration`: a history without setPBMParameters
example : ∀ o ∈ ([.reset, .regrid 0 1 50 60, .ttpInit [0], .reset] : List (Op ℚ)), ∀ cfgs, o ≠ .setPBM cfgs := by
  intro o ho cfgs
  simp only [List.mem_cons, List.not_mem_nil, or_false] at ho
  rcases ho with rfl | rfl | rfl | rfl <;> simp

/-! #### coupled runs: concrete witness for the last-flag-only variant, non-vacuity of the hypothesis sets -/

/-- a precipitation model on the `demo` history carrying the or-condition f > 1/4 (met on row 3) -/
def demoPrec : CModel ℚ := .prec demo [⟨demoC, true, Latch.clear⟩]

/-- **requesting model FIRST in the list, last-flag-only variant** (clock k = k, end time 6): the code's coupled run
ends at row 3, where the precipitation model requests the stop; with the variant the request is overwritten
by the `False` of the model after it and the run goes on to the end time (row 6, not stopped).  With the
requesting model LAST the variant is indistinguishable from the code (why a check that only couples in that
order does not see it). -/
theorem last_flag_only_runs_past_request_of_first_model :
    (coupledRun demo.time 6 20 0 [demoPrec, .other]).1 = 3 ∧
    (coupledRun demo.time 6 20 0 [demoPrec, .other]).2.1 = true ∧
    (coupledRunWith couplerStopLast demo.time 6 20 0 [demoPrec, .other]).1 = 6 ∧
    (coupledRunWith couplerStopLast demo.time 6 20 0 [demoPrec, .other]).2.1 = false ∧
    (coupledRunWith couplerStopLast demo.time 6 20 0 [.other, demoPrec]).1 = 3 ∧
    (coupledRun demo.time 6 20 0 [.other, demoPrec, .other]).1 = 3 := by
  refine ⟨?_, ?_, ?_, ?_, ?_, ?_⟩ <;>
  · simp [coupledRun, coupledRunWith, couplerPostWith, couplerStop, couplerStopLast, CModel.post, demoPrec,
      testAll, stopFlag, accumulate, test, holds, poll, PData.array, demo, demoC, Latch.clear, crossTime]
    try norm_num

-- hypothesis set of `coupled_run_stops_at_first_request` (m = 3, requesting model first of two): satisfiable
example : (∃ x ∈ [demoPrec, .other], x.requestAt 3 = true) ∧
    (∀ j, 1 ≤ j → j < 3 → ∀ x ∈ [demoPrec, .other], x.requestAt j = false) ∧
    (∀ j, j < 3 → demo.time j < (6 : ℚ)) := by
  refine ⟨⟨demoPrec, by simp, ?_⟩, ?_, ?_⟩
  · simp [demoPrec, CModel.requestAt, evolve, testAll, stopFlag, accumulate, test, holds, poll, PData.array, demo, demoC,
      Latch.clear, crossTime]
    try norm_num
  · intro j h1 h2 x hx
    have hj : j = 1 ∨ j = 2 := by omega
    simp only [List.mem_cons, List.not_mem_nil, or_false] at hx
    rcases hx with rfl | rfl
    · rcases hj with rfl | rfl <;>
      · simp [demoPrec, CModel.requestAt, evolve, testAll, stopFlag, accumulate, test, holds, poll, PData.array, demo, demoC,
          Latch.clear, crossTime]
        try norm_num
    · rfl
  · intro j hj
    have : j = 0 ∨ j = 1 ∨ j = 2 := by omega
    rcases this with rfl | rfl | rfl <;> (simp [demo]; try norm_num)
-- … and the hypothesis `no model requests` of `coupled_run_to_end` excludes something: demoPrec requests at row 3
example : ¬ ∀ j, 1 ≤ j → j ≤ 6 → ∀ x ∈ [demoPrec, .other], x.requestAt j = false := by
  intro h
  have := h 3 (by omega) (by omega) demoPrec (by simp)
  revert this
  simp [demoPrec, CModel.requestAt, evolve, testAll, stopFlag, accumulate, test, holds, poll, PData.array, demo, demoC,
    Latch.clear, crossTime]
  try norm_num
-- `coupled_run_position_irrelevant`: a reordering
example : ([demoPrec, .other, .other] : List (CModel ℚ)).Perm [.other, demoPrec, .other] :=
  (List.Perm.swap _ _ _)
-- flags: one request among three models, at each position
example : couplerStop [true, false, false] = true ∧ couplerStop [false, true, false] = true ∧
    couplerStop [false, false, true] = true ∧ couplerStop [false, false, false] = false ∧ couplerStop [] = false := by
  decide

end KawinV.Props.C19
