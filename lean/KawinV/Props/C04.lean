/-
C04 — property theorems (stub; nothing proved yet).
-/
namespace KawinV.Props.C04
end KawinV.Props.C04
