/-
C04 — diffusion conserves every component and honours boundary conditions.
Property theorems about `KawinV.Diffusion` (hand model of Diffusion.py / DiffusionParameters.py /
Iterators.py / Homogenization.py line 133, tied to the source by tools/corr/C04.py).
α is any linearly ordered field; the mesh size N, the number of elements, the interior face
fluxes `F` (any function of a call counter and of the state) and the step list are arbitrary.
-/
import KawinV.Model.Diffusion
import Mathlib.Tactic.Ring
import Mathlib.Tactic.Linarith
import Mathlib.Tactic.FieldSimp
import Mathlib.Tactic.NormNum
import Mathlib.Algebra.Order.Field.Basic
import Mathlib.Algebra.BigOperators.Group.Finset.Basic
import Mathlib.Algebra.BigOperators.Intervals
import Mathlib.Algebra.BigOperators.Field
import Mathlib.Algebra.Order.BigOperators.Group.Finset

set_option linter.unusedSectionVars false
set_option linter.unusedVariables false
set_option linter.unusedSimpArgs false

namespace KawinV.Props.C04
open KawinV.Diffusion
open Finset

variable {α : Type} [Field α] [LinearOrder α] [IsStrictOrderedRing α]

/-! ### budget of the rate of change (telescoping) -/

/-- **budget**: `Σ_i dXdt_i = (J_0 − J_N)/dz` for any face fluxes and any N (all interior faces cancel). -/
theorem sum_dXdt' (N : Nat) (dz : α) (J : Nat → α) :
    ∑ i ∈ range N, dXdt dz J i = (J 0 - J N) / dz := by
  unfold dXdt
  have h : ∀ i, -(J (i+1) - J i) / dz = (J i - J (i+1)) / dz := by intro i; ring
  simp only [h]
  rw [← sum_div, sum_range_sub']

/-- **budget**, the form in the property text: `dz·Σ_i dXdt_i = J_0 − J_N`. -/
theorem sum_dXdt (N : Nat) (dz : α) (hdz : dz ≠ 0) (J : Nat → α) :
    dz * ∑ i ∈ range N, dXdt dz J i = J 0 - J N := by
  rw [sum_dXdt']; field_simp

/-- the rate of change of node i involves its own two faces only -/
theorem dXdt_local (dz : α) (J J' : Nat → α) (i : Nat) (h0 : J i = J' i) (h1 : J (i+1) = J' (i+1)) :
    dXdt dz J i = dXdt dz J' i := by
  unfold dXdt; rw [h0, h1]

/-! ### boundary conditions on the fluxes -/

/-- **flux BC, left**: face 0 carries the element's own left value -/
theorem applyBC_left_flux (N : Nat) (hN : 1 ≤ N) (bc : BC α) (J : Nat → α) (h : bc.ltype = .flux) :
    applyBC N bc J 0 = bc.lval := by
  have : ¬ (0 = N) := by omega
  simp [applyBC, this, h]

/-- **flux BC, right**: face N carries the element's own right value -/
theorem applyBC_right_flux (N : Nat) (bc : BC α) (J : Nat → α) (h : bc.rtype = .flux) :
    applyBC N bc J N = bc.rval := by
  simp [applyBC, h]

/-- interior faces are not touched by the boundary conditions -/
theorem applyBC_interior (N : Nat) (bc : BC α) (J : Nat → α) (j : Nat) (h0 : 0 < j) (hN : j ≠ N) :
    applyBC N bc J j = J j := by
  have : ¬ (j = 0) := by omega
  simp [applyBC, this, hN]

/-- **composition BC, left**: face 0 copies face 1 -/
theorem applyBC_left_comp (N : Nat) (hN : 1 ≤ N) (bc : BC α) (J : Nat → α) (h : bc.ltype = .comp) :
    applyBC N bc J 0 = J 1 := by
  have : ¬ (0 = N) := by omega
  simp [applyBC, this, h]

/-- **composition BC, right**: face N copies face N−1 (of the row after the left write) -/
theorem applyBC_right_comp (N : Nat) (hN : 1 ≤ N) (bc : BC α) (J : Nat → α) (h : bc.rtype = .comp) :
    applyBC N bc J N = applyBC N bc J (N-1) := by
  have : ¬ (N - 1 = N) := by omega
  simp [applyBC, this, h]

/-- **per element**: the rate of change of element e uses the boundary condition and the flux row of
element e only. -/
theorem rhs_element (N : Nat) (dz : α) (bc bc' : Nat → BC α) (J J' : Nat → Nat → α) (e : Nat)
    (hb : bc e = bc' e) (hJ : J e = J' e) : rhs N dz bc J e = rhs N dz bc' J' e := by
  unfold rhs; rw [hb, hJ]

/-- closed end faces: flux condition with value 0 on both sides -/
def Closed (bc : BC α) : Prop := bc.ltype = .flux ∧ bc.lval = 0 ∧ bc.rtype = .flux ∧ bc.rval = 0

/-! ### fixed-composition node: rate of change 0 for any fluxes -/

theorem rhs_left_comp (N : Nat) (hN : 2 ≤ N) (dz : α) (bc : Nat → BC α) (J : Nat → Nat → α) (e : Nat)
    (h : (bc e).ltype = .comp) : rhs N dz bc J e 0 = 0 := by
  unfold rhs dXdt
  rw [applyBC_left_comp N (by omega) _ _ h, applyBC_interior N _ _ (0+1) (by omega) (by omega)]
  simp

theorem rhs_right_comp (N : Nat) (hN : 1 ≤ N) (dz : α) (bc : Nat → BC α) (J : Nat → Nat → α) (e : Nat)
    (h : (bc e).rtype = .comp) : rhs N dz bc J e (N-1) = 0 := by
  unfold rhs dXdt
  have : N - 1 + 1 = N := by omega
  rw [this, applyBC_right_comp N hN _ _ h]
  simp

/-- the hypothesis `2 ≤ N` of `rhs_left_comp` cannot be dropped: on a one-node mesh with a left
composition condition and a right flux condition the single node is driven by the right flux
(`np.linspace(..., 1)` meshes are rejected by the constructor, `z[1]` does not exist). -/
example : rhs 1 (1:ℚ) (fun _ => ⟨.comp, 0, .flux, 1⟩) (fun _ _ => 0) 0 0 = -1 := by
  simp [rhs, dXdt, applyBC]

/-! ### one step -/

/-- BC-applied face fluxes of element e for a raw flux table -/
def Jbc (cfg : Cfg α) (Jraw : Nat → Nat → α) (e : Nat) : Nat → α := applyBC cfg.N (cfg.bc e) (Jraw e)

/-- the states handed to the four RK4 flux evaluations -/
def rk4X1 (cfg : Cfg α) (F : Nat → State α → Nat → Nat → α) (c : Nat) (x : State α) (dt : α) : State α :=
  axpy x (rhs cfg.N cfg.dz cfg.bc (F c x)) (dt / 2)
def rk4X2 (cfg : Cfg α) (F : Nat → State α → Nat → Nat → α) (c : Nat) (x : State α) (dt : α) : State α :=
  axpy x (rhs cfg.N cfg.dz cfg.bc (F (c+1) (rk4X1 cfg F c x dt))) (dt / 2)
def rk4X3 (cfg : Cfg α) (F : Nat → State α → Nat → Nat → α) (c : Nat) (x : State α) (dt : α) : State α :=
  axpy x (rhs cfg.N cfg.dz cfg.bc (F (c+2) (rk4X2 cfg F c x dt))) dt

/-- BC-applied face fluxes of the stages of one step (stage 0 only for Euler) -/
def stageJ (cfg : Cfg α) (F : Nat → State α → Nat → Nat → α) (c : Nat) (x : State α) (dt : α)
    (s : Nat) (e : Nat) : Nat → α :=
  match s with
  | 0 => Jbc cfg (F c x) e
  | 1 => Jbc cfg (F (c+1) (rk4X1 cfg F c x dt)) e
  | 2 => Jbc cfg (F (c+2) (rk4X2 cfg F c x dt)) e
  | _ => Jbc cfg (F (c+3) (rk4X3 cfg F c x dt)) e

/-- the b-weighted face flux of one step: the stage-0 flux for Euler, `(J1 + 2 J2 + 2 J3 + J4)/6` for RK4 -/
def Jbar (cfg : Cfg α) (sch : Scheme) (F : Nat → State α → Nat → Nat → α) (c : Nat) (x : State α) (dt : α)
    (e : Nat) (j : Nat) : α :=
  match sch with
  | .euler => stageJ cfg F c x dt 0 e j
  | .rk4 => rk4Comb (stageJ cfg F c x dt 0 e j) (stageJ cfg F c x dt 1 e j)
      (stageJ cfg F c x dt 2 e j) (stageJ cfg F c x dt 3 e j)

theorem rk4Raw_eq (cfg : Cfg α) (F : Nat → State α → Nat → Nat → α) (c : Nat) (x : State α) (dt : α) :
    rk4Raw cfg F c x dt = axpy x (fun e i => rk4Comb
      (dXdt cfg.dz (stageJ cfg F c x dt 0 e) i) (dXdt cfg.dz (stageJ cfg F c x dt 1 e) i)
      (dXdt cfg.dz (stageJ cfg F c x dt 2 e) i) (dXdt cfg.dz (stageJ cfg F c x dt 3 e) i)) dt := rfl

theorem sum_axpy (N : Nat) (x k : State α) (h : α) (e : Nat) :
    ∑ i ∈ range N, axpy x k h e i = ∑ i ∈ range N, x e i + (∑ i ∈ range N, k e i) * h := by
  unfold axpy; rw [sum_add_distrib, sum_mul]

theorem sum_rk4Comb (N : Nat) (k1 k2 k3 k4 : Nat → α) :
    ∑ i ∈ range N, rk4Comb (k1 i) (k2 i) (k3 i) (k4 i)
      = rk4Comb (∑ i ∈ range N, k1 i) (∑ i ∈ range N, k2 i) (∑ i ∈ range N, k3 i) (∑ i ∈ range N, k4 i) := by
  unfold rk4Comb
  rw [← sum_div, sum_add_distrib, sum_add_distrib, sum_add_distrib, ← mul_sum, ← mul_sum]

/-- **one step, Euler**: the mesh sum of element e changes by `(J_0 − J_N)·dt/dz`. -/
theorem euler_budget (cfg : Cfg α) (F : Nat → State α → Nat → Nat → α) (c : Nat) (x : State α) (dt : α) (e : Nat) :
    ∑ i ∈ range cfg.N, eulerRaw cfg F c x dt e i - ∑ i ∈ range cfg.N, x e i
      = (Jbc cfg (F c x) e 0 - Jbc cfg (F c x) e cfg.N) * dt / cfg.dz := by
  unfold eulerRaw
  rw [sum_axpy]
  unfold rhs
  rw [sum_dXdt']
  unfold Jbc; ring

/-- **one step, RK4**: the mesh sum changes by `(J̄_0 − J̄_N)·dt/dz` with the b-weighted stage
boundary fluxes `J̄ = (J1 + 2 J2 + 2 J3 + J4)/6`. -/
theorem rk4_budget (cfg : Cfg α) (F : Nat → State α → Nat → Nat → α) (c : Nat) (x : State α) (dt : α) (e : Nat) :
    ∑ i ∈ range cfg.N, rk4Raw cfg F c x dt e i - ∑ i ∈ range cfg.N, x e i
      = (Jbar cfg .rk4 F c x dt e 0 - Jbar cfg .rk4 F c x dt e cfg.N) * dt / cfg.dz := by
  rw [rk4Raw_eq, sum_axpy, sum_rk4Comb]
  simp only [sum_dXdt']
  unfold Jbar rk4Comb; simp only []; ring

/-- **one step, either iterator, before the clip** -/
theorem stepRaw_budget (cfg : Cfg α) (sch : Scheme) (F : Nat → State α → Nat → Nat → α) (c : Nat)
    (x : State α) (dt : α) (e : Nat) :
    ∑ i ∈ range cfg.N, stepRaw cfg sch F c x dt e i - ∑ i ∈ range cfg.N, x e i
      = (Jbar cfg sch F c x dt e 0 - Jbar cfg sch F c x dt e cfg.N) * dt / cfg.dz := by
  cases sch with
  | euler => exact euler_budget cfg F c x dt e
  | rk4 => exact rk4_budget cfg F c x dt e

/-! ### the clip in postProcess -/

theorem clip_of_mem (lo hi v : α) (h1 : lo ≤ v) (h2 : v ≤ hi) : clip lo hi v = v := by
  unfold clip
  simp [not_lt.mpr h1, not_lt.mpr h2]

theorem clip_bounds (lo hi v : α) (h : lo ≤ hi) : lo ≤ clip lo hi v ∧ clip lo hi v ≤ hi := by
  unfold clip
  by_cases h1 : v < lo
  · simp only [h1, if_true]
    simp [not_lt.mpr h, h]
  · simp only [h1, if_false]
    by_cases h2 : hi < v
    · simp [h2, h]
    · simp [h2, not_lt.mp h1, not_lt.mp h2]

/-- all nodes of element e inside `[minC, 1 − minC]` -/
def InBounds (cfg : Cfg α) (x : State α) (e : Nat) : Prop :=
  ∀ i, i < cfg.N → cfg.minC ≤ x e i ∧ x e i ≤ 1 - cfg.minC

/-- **bounds**: after `postProcess` every value (every element, every node) is in `[minC, 1 − minC]`. -/
theorem postProcess_bounds (cfg : Cfg α) (h : cfg.minC ≤ 1 - cfg.minC) (x : State α) (e i : Nat) :
    cfg.minC ≤ postProcess cfg x e i ∧ postProcess cfg x e i ≤ 1 - cfg.minC :=
  clip_bounds _ _ _ h

theorem step_bounds (cfg : Cfg α) (h : cfg.minC ≤ 1 - cfg.minC) (sch : Scheme)
    (F : Nat → State α → Nat → Nat → α) (c : Nat) (x : State α) (dt : α) (e i : Nat) :
    cfg.minC ≤ step cfg sch F c x dt e i ∧ step cfg sch F c x dt e i ≤ 1 - cfg.minC :=
  postProcess_bounds cfg h _ e i

/-- **bounds over a run**: after any positive number of steps, or from a state already in bounds. -/
theorem run_bounds (cfg : Cfg α) (h : cfg.minC ≤ 1 - cfg.minC) (sch : Scheme)
    (F : Nat → State α → Nat → Nat → α) (dts : List α) (c : Nat) (x : State α) (e i : Nat)
    (hx : dts ≠ [] ∨ (cfg.minC ≤ x e i ∧ x e i ≤ 1 - cfg.minC)) :
    cfg.minC ≤ run cfg sch F c x dts e i ∧ run cfg sch F c x dts e i ≤ 1 - cfg.minC := by
  induction dts generalizing c x with
  | nil => rcases hx with hx | hx; exact absurd rfl hx; exact hx
  | cons dt r ih =>
    simp only [run]
    exact ih _ _ (Or.inr (step_bounds cfg h sch F c x dt e i))

/-- **one step incl. postProcess**, clip inactive on element e -/
theorem step_budget (cfg : Cfg α) (sch : Scheme) (F : Nat → State α → Nat → Nat → α) (c : Nat)
    (x : State α) (dt : α) (e : Nat) (hin : InBounds cfg (stepRaw cfg sch F c x dt) e) :
    ∑ i ∈ range cfg.N, step cfg sch F c x dt e i - ∑ i ∈ range cfg.N, x e i
      = (Jbar cfg sch F c x dt e 0 - Jbar cfg sch F c x dt e cfg.N) * dt / cfg.dz := by
  rw [← stepRaw_budget]
  congr 1
  apply sum_congr rfl
  intro i hi
  have := hin i (mem_range.mp hi)
  exact clip_of_mem _ _ _ this.1 this.2

/-! ### any number of steps -/

/-- the clip is inactive for element e at every step of the run -/
def ClipInactive (cfg : Cfg α) (sch : Scheme) (F : Nat → State α → Nat → Nat → α) (e : Nat) :
    Nat → State α → List α → Prop
  | _, _, [] => True
  | c, x, dt :: r => InBounds cfg (stepRaw cfg sch F c x dt) e ∧
      ClipInactive cfg sch F e (c + calls sch) (step cfg sch F c x dt) r

/-- accumulated boundary exchange of element e along a run: `Σ_steps (J̄_0 − J̄_N)·dt/dz` -/
def runNet (cfg : Cfg α) (sch : Scheme) (F : Nat → State α → Nat → Nat → α) (e : Nat) :
    Nat → State α → List α → α
  | _, _, [] => 0
  | c, x, dt :: r => (Jbar cfg sch F c x dt e 0 - Jbar cfg sch F c x dt e cfg.N) * dt / cfg.dz +
      runNet cfg sch F e (c + calls sch) (step cfg sch F c x dt) r

/-- **budget over any number of steps** (induction over the step list) -/
theorem run_budget (cfg : Cfg α) (sch : Scheme) (F : Nat → State α → Nat → Nat → α) (e : Nat)
    (dts : List α) (c : Nat) (x : State α) (hin : ClipInactive cfg sch F e c x dts) :
    ∑ i ∈ range cfg.N, run cfg sch F c x dts e i
      = ∑ i ∈ range cfg.N, x e i + runNet cfg sch F e c x dts := by
  induction dts generalizing c x with
  | nil => simp [run, runNet]
  | cons dt r ih =>
    simp only [run, runNet]
    obtain ⟨h1, h2⟩ := hin
    rw [ih _ _ h2]
    have := step_budget cfg sch F c x dt e h1
    linarith

theorem rk4Comb_zero : rk4Comb (0:α) 0 0 0 = 0 := by unfold rk4Comb; simp

theorem Jbar_closed (cfg : Cfg α) (hN : 1 ≤ cfg.N) (sch : Scheme) (F : Nat → State α → Nat → Nat → α)
    (c : Nat) (x : State α) (dt : α) (e : Nat) (hc : Closed (cfg.bc e)) :
    Jbar cfg sch F c x dt e 0 = 0 ∧ Jbar cfg sch F c x dt e cfg.N = 0 := by
  obtain ⟨h1, h2, h3, h4⟩ := hc
  have hs0 : ∀ s, stageJ cfg F c x dt s e 0 = 0 := by
    intro s; unfold stageJ Jbc
    split <;> rw [applyBC_left_flux _ hN _ _ h1, h2]
  have hsN : ∀ s, stageJ cfg F c x dt s e cfg.N = 0 := by
    intro s; unfold stageJ Jbc
    split <;> rw [applyBC_right_flux _ _ _ h3, h4]
  cases sch with
  | euler => exact ⟨hs0 0, hsN 0⟩
  | rk4 => simp only [Jbar, hs0, hsN, rk4Comb_zero, and_self]

theorem runNet_closed (cfg : Cfg α) (hN : 1 ≤ cfg.N) (sch : Scheme) (F : Nat → State α → Nat → Nat → α)
    (e : Nat) (hc : Closed (cfg.bc e)) (dts : List α) (c : Nat) (x : State α) :
    runNet cfg sch F e c x dts = 0 := by
  induction dts generalizing c x with
  | nil => rfl
  | cons dt r ih =>
    simp only [runNet]
    obtain ⟨h0, hn⟩ := Jbar_closed cfg hN sch F c x dt e hc
    rw [ih, h0, hn]; simp

/-- **closed system**: with flux value 0 on both sides the mesh sum of the element is constant over
any number of steps (Euler and RK4), as long as the clip is inactive. -/
theorem closed_system (cfg : Cfg α) (hN : 1 ≤ cfg.N) (sch : Scheme) (F : Nat → State α → Nat → Nat → α)
    (e : Nat) (hc : Closed (cfg.bc e)) (dts : List α) (c : Nat) (x : State α)
    (hin : ClipInactive cfg sch F e c x dts) :
    ∑ i ∈ range cfg.N, run cfg sch F c x dts e i = ∑ i ∈ range cfg.N, x e i := by
  rw [run_budget cfg sch F e dts c x hin, runNet_closed cfg hN sch F e hc]; simp

/-! ### fixed-composition node through every stage and step -/

theorem axpy_zero (x k : State α) (h : α) (e i : Nat) (hk : k e i = 0) : axpy x k h e i = x e i := by
  unfold axpy; rw [hk]; simp

/-- the rate of change at node `i` vanishes for every flux table -/
def Pinned (cfg : Cfg α) (e i : Nat) : Prop := ∀ J : Nat → Nat → α, rhs cfg.N cfg.dz cfg.bc J e i = 0

theorem pinned_left (cfg : Cfg α) (hN : 2 ≤ cfg.N) (e : Nat) (h : (cfg.bc e).ltype = .comp) :
    Pinned cfg e 0 := fun J => rhs_left_comp _ hN _ _ J e h

theorem pinned_right (cfg : Cfg α) (hN : 1 ≤ cfg.N) (e : Nat) (h : (cfg.bc e).rtype = .comp) :
    Pinned cfg e (cfg.N - 1) := fun J => rhs_right_comp _ hN _ _ J e h

/-- **every stage**: each RK4 stage state carries the old value at a pinned node -/
theorem stages_fixed (cfg : Cfg α) (F : Nat → State α → Nat → Nat → α) (c : Nat) (x : State α) (dt : α)
    (e i : Nat) (hp : Pinned cfg e i) :
    rk4X1 cfg F c x dt e i = x e i ∧ rk4X2 cfg F c x dt e i = x e i ∧ rk4X3 cfg F c x dt e i = x e i :=
  ⟨axpy_zero _ _ _ _ _ (hp _), axpy_zero _ _ _ _ _ (hp _), axpy_zero _ _ _ _ _ (hp _)⟩

theorem stepRaw_fixed (cfg : Cfg α) (sch : Scheme) (F : Nat → State α → Nat → Nat → α) (c : Nat)
    (x : State α) (dt : α) (e i : Nat) (hp : Pinned cfg e i) :
    stepRaw cfg sch F c x dt e i = x e i := by
  cases sch with
  | euler => exact axpy_zero _ _ _ _ _ (hp _)
  | rk4 =>
    show rk4Raw cfg F c x dt e i = x e i
    unfold rk4Raw
    apply axpy_zero
    simp only [hp _, rk4Comb_zero]

theorem step_fixed (cfg : Cfg α) (sch : Scheme) (F : Nat → State α → Nat → Nat → α) (c : Nat)
    (x : State α) (dt : α) (e i : Nat) (hp : Pinned cfg e i)
    (hx : cfg.minC ≤ x e i ∧ x e i ≤ 1 - cfg.minC) :
    step cfg sch F c x dt e i = x e i := by
  unfold step postProcess
  rw [stepRaw_fixed cfg sch F c x dt e i hp]
  exact clip_of_mem _ _ _ hx.1 hx.2

/-- **fixed node, whole run**: a pinned node whose value is inside the bounds keeps it over any
number of steps, for Euler and RK4 and any fluxes. -/
theorem run_fixed (cfg : Cfg α) (sch : Scheme) (F : Nat → State α → Nat → Nat → α) (e i : Nat)
    (hp : Pinned cfg e i) (dts : List α) (c : Nat) (x : State α)
    (hx : cfg.minC ≤ x e i ∧ x e i ≤ 1 - cfg.minC) :
    run cfg sch F c x dts e i = x e i := by
  induction dts generalizing c x with
  | nil => rfl
  | cons dt r ih =>
    simp only [run]
    have hs := step_fixed cfg sch F c x dt e i hp hx
    rw [ih _ _ (by rw [hs]; exact hx), hs]

/-- left composition condition ⇒ node 0 fixed for the whole run -/
theorem run_fixed_left (cfg : Cfg α) (hN : 2 ≤ cfg.N) (sch : Scheme) (F : Nat → State α → Nat → Nat → α)
    (e : Nat) (h : (cfg.bc e).ltype = .comp) (dts : List α) (c : Nat) (x : State α)
    (hx : cfg.minC ≤ x e 0 ∧ x e 0 ≤ 1 - cfg.minC) :
    run cfg sch F c x dts e 0 = x e 0 :=
  run_fixed cfg sch F e 0 (pinned_left cfg hN e h) dts c x hx

/-- right composition condition ⇒ node N−1 fixed for the whole run -/
theorem run_fixed_right (cfg : Cfg α) (hN : 1 ≤ cfg.N) (sch : Scheme) (F : Nat → State α → Nat → Nat → α)
    (e : Nat) (h : (cfg.bc e).rtype = .comp) (dts : List α) (c : Nat) (x : State α)
    (hx : cfg.minC ≤ x e (cfg.N-1) ∧ x e (cfg.N-1) ≤ 1 - cfg.minC) :
    run cfg sch F c x dts e (cfg.N-1) = x e (cfg.N-1) :=
  run_fixed cfg sch F e _ (pinned_right cfg hN e h) dts c x hx

/-! ### setup and consecutive solve calls -/

theorem shiftClamp_lower (minC nAll v : α) : minC ≤ shiftClamp minC nAll v := by
  unfold shiftClamp clampLo
  split
  · exact le_refl _
  · next h => exact not_lt.mp h

theorem shiftClamp_upper (minC nAll v : α) (h0 : 0 ≤ minC) (hn : 1 ≤ nAll) (hm : minC ≤ 1 - minC)
    (hv : v ≤ 1) : shiftClamp minC nAll v ≤ 1 - minC := by
  unfold shiftClamp clampLo
  split
  · exact hm
  · unfold shift
    split
    · have : minC ≤ nAll * minC := by nlinarith
      linarith
    · next h1 h2 => linarith [not_lt.mp h2]

/-- the value a composition condition gives the end node before the shift -/
theorem applyBCInit_left (N : Nat) (hN : 2 ≤ N) (bc : Nat → BC α) (x : State α) (e : Nat)
    (h : (bc e).ltype = .comp) : applyBCInit N bc x e 0 = (bc e).lval := by
  have : ¬ (0 = N - 1) := by omega
  simp [applyBCInit, this, h]

theorem applyBCInit_right (N : Nat) (bc : Nat → BC α) (x : State α) (e : Nat)
    (h : (bc e).rtype = .comp) : applyBCInit N bc x e (N-1) = (bc e).rval := by
  simp [applyBCInit, h]

/-- a successful first `setup` shift-clamps the built profile with the composition conditions applied -/
theorem setup_first (cfg : Cfg α) (built : State α) (s s' : MState α) (hs : s.isSetup = false)
    (h : setup cfg built s = .ok s') :
    s'.isSetup = true ∧ ∀ e i, s'.x e i = shiftClamp cfg.minC cfg.nAll (applyBCInit cfg.N cfg.bc built e i) := by
  unfold setup at h
  simp only [hs, Bool.false_eq_true, if_false] at h
  by_cases hb : sumExceeds cfg (applyBCInit cfg.N cfg.bc built) = true
  · simp [hb] at h
  · simp only [hb, if_false] at h
    cases h; exact ⟨rfl, fun e i => rfl⟩

/-- **bounds after setup** -/
theorem setup_bounds (cfg : Cfg α) (built : State α) (s s' : MState α) (hs : s.isSetup = false)
    (h : setup cfg built s = .ok s') (e i : Nat) :
    cfg.minC ≤ s'.x e i ∧
    (0 ≤ cfg.minC → 1 ≤ cfg.nAll → cfg.minC ≤ 1 - cfg.minC → applyBCInit cfg.N cfg.bc built e i ≤ 1 →
      s'.x e i ≤ 1 - cfg.minC) := by
  obtain ⟨_, hx⟩ := setup_first cfg built s s' hs h
  rw [hx]
  exact ⟨shiftClamp_lower _ _ _, fun h0 hn hm hv => shiftClamp_upper _ _ _ h0 hn hm hv⟩

/-- **setup is idempotent**: on a model that is already set up, `setup` (when it does not raise)
returns the state unchanged, whatever the profile description. -/
theorem setup_idempotent (cfg : Cfg α) (built : State α) (s s' : MState α) (hs : s.isSetup = true)
    (h : setup cfg built s = .ok s') : s' = s := by
  unfold setup at h
  simp only [hs, if_true] at h
  by_cases hb : sumExceeds cfg s.x = true
  · simp [hb] at h
  · simp only [hb, if_false] at h
    cases h
    cases s; simp_all

/-- any successful `setup` leaves the model set up -/
theorem setup_isSetup (cfg : Cfg α) (built : State α) (s s' : MState α)
    (h : setup cfg built s = .ok s') : s'.isSetup = true := by
  unfold setup at h
  simp only [] at h
  by_cases hb : sumExceeds cfg (if s.isSetup = true then s.x else applyBCInit cfg.N cfg.bc built) = true
  · simp [hb] at h
  · simp only [hb, if_false] at h
    cases h; rfl

/-- a second `setup` after a first one leaves `x` unchanged -/
theorem setup_twice (cfg : Cfg α) (built built' : State α) (s s1 s2 : MState α)
    (h1 : setup cfg built s = .ok s1) (h2 : setup cfg built' s1 = .ok s2) : s2.x = s1.x := by
  rw [setup_idempotent cfg built' s1 s2 (setup_isSetup cfg built s s1 h1) h2]

theorem run_append (cfg : Cfg α) (sch : Scheme) (F : Nat → State α → Nat → Nat → α)
    (a b : List α) (c : Nat) (x : State α) :
    run cfg sch F c x (a ++ b) = run cfg sch F (c + calls sch * a.length) (run cfg sch F c x a) b := by
  induction a generalizing c x with
  | nil => simp [run]
  | cons d r ih =>
    simp only [List.cons_append, run, List.length_cons]
    rw [ih]
    congr 1
    ring

/-- **consecutive solve calls**: on a model that is set up, any history of `solve` calls (that does not
raise) is the same as one uninterrupted run over the concatenated step lists — the calls in between
change nothing. -/
theorem solves_eq_run (cfg : Cfg α) (sch : Scheme) (F : Nat → State α → Nat → Nat → α) (built : State α)
    (hist : List (List α)) (c : Nat) (s : MState α) (hs : s.isSetup = true) (c' : Nat) (s' : MState α)
    (h : solves cfg sch F built (c, s) hist = .ok (c', s')) :
    s'.x = run cfg sch F c s.x hist.flatten ∧ c' = c + calls sch * hist.flatten.length ∧ s'.isSetup = true := by
  induction hist generalizing c s with
  | nil =>
    simp only [solves] at h
    cases h
    simp [run, hs]
  | cons dts r ih =>
    simp only [solves] at h
    unfold solveCall at h
    cases hset : setup cfg built s with
    | error m => simp [hset] at h
    | ok s1 =>
      simp only [hset] at h
      have hid := setup_idempotent cfg built s s1 hs hset
      subst hid
      obtain ⟨hx, hc, hi⟩ := ih _ _ rfl h
      refine ⟨?_, ?_, hi⟩
      · simp only [List.flatten_cons, run_append]
        exact hx
      · simp only [List.flatten_cons, List.length_append]
        rw [hc]; ring

/-- **closed system over consecutive solve calls**: the mesh sum after any history of solve calls equals
the mesh sum the model had when the history started (clip inactive along the way). -/
theorem closed_system_solves (cfg : Cfg α) (hN : 1 ≤ cfg.N) (sch : Scheme)
    (F : Nat → State α → Nat → Nat → α) (built : State α) (e : Nat) (hc : Closed (cfg.bc e))
    (hist : List (List α)) (c : Nat) (s : MState α) (hs : s.isSetup = true) (c' : Nat) (s' : MState α)
    (h : solves cfg sch F built (c, s) hist = .ok (c', s'))
    (hin : ClipInactive cfg sch F e c s.x hist.flatten) :
    ∑ i ∈ range cfg.N, s'.x e i = ∑ i ∈ range cfg.N, s.x e i := by
  rw [(solves_eq_run cfg sch F built hist c s hs c' s' h).1]
  exact closed_system cfg hN sch F e hc _ c s.x hin

/-- **fixed node over consecutive solve calls** -/
theorem fixed_node_solves (cfg : Cfg α) (sch : Scheme) (F : Nat → State α → Nat → Nat → α)
    (built : State α) (e i : Nat) (hp : Pinned cfg e i)
    (hist : List (List α)) (c : Nat) (s : MState α) (hs : s.isSetup = true) (c' : Nat) (s' : MState α)
    (h : solves cfg sch F built (c, s) hist = .ok (c', s'))
    (hx : cfg.minC ≤ s.x e i ∧ s.x e i ≤ 1 - cfg.minC) :
    s'.x e i = s.x e i := by
  rw [(solves_eq_run cfg sch F built hist c s hs c' s' h).1]
  exact run_fixed cfg sch F e i hp _ c s.x hx

/-! ### the code before the repair: the shift is re-applied by every call -/

/-- what a further `setup` of the unrepaired code does to a set-up model -/
theorem setupUnguarded_again (cfg : Cfg α) (built : State α) (s s' : MState α) (hs : s.isSetup = true)
    (h : setupUnguarded cfg built s = .ok s') (e i : Nat) :
    s'.x e i = shiftClamp cfg.minC cfg.nAll (s.x e i) := by
  unfold setupUnguarded at h
  simp only [hs, if_true] at h
  by_cases hb : sumExceeds cfg s.x = true
  · simp [hb] at h
  · simp only [hb, if_false] at h
    cases h; rfl

/-- **drift of the unrepaired code**: every further call removes exactly `nAll·minC` from every node
that is above `(nAll+1)·minC`. -/
theorem setupUnguarded_drift (cfg : Cfg α) (built : State α) (s s' : MState α) (hs : s.isSetup = true)
    (h : setupUnguarded cfg built s = .ok s') (e i : Nat) (h0 : 0 ≤ cfg.nAll * cfg.minC)
    (hv : cfg.minC + cfg.nAll * cfg.minC ≤ s.x e i) :
    s'.x e i = s.x e i - cfg.nAll * cfg.minC := by
  rw [setupUnguarded_again cfg built s s' hs h]
  unfold shiftClamp clampLo shift
  by_cases h1 : cfg.minC < s.x e i
  · rw [if_pos h1, if_neg (not_lt.mpr (by linarith))]
  · rw [if_neg h1, if_neg (not_lt.mpr (by linarith))]
    linarith [not_lt.mp h1]

/-- the unrepaired `setup` is idempotent only where nothing is above the minimum composition -/
theorem setupUnguarded_idempotent_partial (cfg : Cfg α) (built : State α) (s s' : MState α)
    (hs : s.isSetup = true) (h : setupUnguarded cfg built s = .ok s') (e i : Nat)
    (hv : s.x e i = cfg.minC) : s'.x e i = s.x e i := by
  rw [setupUnguarded_again cfg built s s' hs h, hv]
  unfold shiftClamp clampLo shift
  simp

/-- concrete witness (ℚ): one element, two nodes at 1/2, minC = 1/100, two elements in all.
The first call gives 48/100, the second 46/100: **not idempotent**. -/
def witCfg : Cfg ℚ := { N := 2, E := 1, dz := 1, minC := 1/100, nAll := 2, bc := fun _ => ⟨.flux, 0, .flux, 0⟩ }

theorem setupUnguarded_not_idempotent :
    ∃ s1 s2 : MState ℚ,
      setupUnguarded witCfg (fun _ _ => 1/2) ⟨fun _ _ => 0, false⟩ = .ok s1 ∧
      setupUnguarded witCfg (fun _ _ => 1/2) s1 = .ok s2 ∧
      s1.x 0 0 = 48/100 ∧ s2.x 0 0 = 46/100 := by
  refine ⟨⟨fun e i => shiftClamp (1/100) 2 (applyBCInit 2 witCfg.bc (fun _ _ => 1/2) e i), true⟩,
          ⟨fun e i => shiftClamp (1/100) 2 (shiftClamp (1/100) 2 (applyBCInit 2 witCfg.bc (fun _ _ => 1/2) e i)), true⟩,
          ?_, ?_, ?_, ?_⟩
  · unfold setupUnguarded
    have : sumExceeds witCfg (applyBCInit witCfg.N witCfg.bc (fun _ _ => (1/2 : ℚ))) = false := by
      simp [sumExceeds, witCfg, sumE, applyBCInit, List.range, List.range.loop]; norm_num
    simp only [Bool.false_eq_true, if_false, this]
    rfl
  · unfold setupUnguarded
    have : sumExceeds witCfg (fun e i => shiftClamp (1/100 : ℚ) 2
          (applyBCInit 2 witCfg.bc (fun _ _ => 1/2) e i)) = false := by
      simp [sumExceeds, witCfg, sumE, applyBCInit, shiftClamp, clampLo, shift, List.range, List.range.loop]; norm_num
    simp only [if_true, this, Bool.false_eq_true, if_false]
    rfl
  · simp [witCfg, applyBCInit, shiftClamp, clampLo, shift]; norm_num
  · simp [witCfg, applyBCInit, shiftClamp, clampLo, shift]; norm_num

/-! ### volume-fixed frame -/

theorem foldl_vflux (l : List Nat) (J u : Nat → α) (S a b : α) :
    l.foldl (fun acc k => acc + (J k - u k * S)) (a - b * S)
      = l.foldl (fun acc k => acc + J k) a - l.foldl (fun acc k => acc + u k) b * S := by
  induction l generalizing a b with
  | nil => rfl
  | cons k r ih =>
    simp only [List.foldl_cons]
    have : a - b * S + (J k - u k * S) = (a + J k) - (b + u k) * S := by ring
    rw [this, ih]

/-- the frame change is linear: `Σ_subst Jv = Σ_subst J − (Σ_subst u)·Σ_subst J` -/
theorem sumOver_vflux (subst : List Nat) (J u : Nat → α) :
    sumOver subst (vflux subst J u) = sumOver subst J - sumOver subst u * sumOver subst J := by
  simp only [sumOver, vflux]
  have := foldl_vflux subst J u (subst.foldl (fun a k => a + J k) 0) 0 0
  simpa using this

/-- **volume-fixed frame**: the substitutional fluxes (reference element included) sum to zero when
the substitutional u-fractions sum to one. -/
theorem vflux_sum_zero (subst : List Nat) (J u : Nat → α) (hu : sumOver subst u = 1) :
    sumOver subst (vflux subst J u) = 0 := by
  rw [sumOver_vflux, hu]; ring

theorem foldl_add_start (l : List Nat) (f : Nat → α) (a : α) :
    l.foldl (fun acc k => acc + f k) a = a + l.foldl (fun acc k => acc + f k) 0 := by
  induction l generalizing a with
  | nil => simp
  | cons k r ih =>
    simp only [List.foldl_cons]
    rw [ih (a + f k), ih (0 + f k)]; ring

theorem sumOver_cons (k : Nat) (r : List Nat) (f : Nat → α) :
    sumOver (k :: r) f = f k + sumOver r f := by
  unfold sumOver
  simp only [List.foldl_cons]
  rw [foldl_add_start]; simp

/-- consequence for the stored rows: the flux of the reference element (index 0, not stored; its
composition is `1 − Σ x`) is minus the sum of the other substitutional volume-frame fluxes. -/
theorem vflux_reference (rest : List Nat) (J u : Nat → α) (hu : sumOver (0 :: rest) u = 1) :
    vflux (0 :: rest) J u 0 = - sumOver rest (vflux (0 :: rest) J u) := by
  have h := vflux_sum_zero (0 :: rest) J u hu
  rw [sumOver_cons] at h
  linarith

/-! ### the order of the shift and the clamp (round-4 strengthening)

`setup_bounds` above: for every built value, every element count and every minimum composition, the value after
the first `setup` is ≥ minComposition.  The merged single `np.where` loses exactly the window (min, (n+1)·min). -/

/-- for every initial value and every n: after `setup` the value is at least the minimum composition -/
theorem setup_ge_min (cfg : Cfg α) (built : State α) (s s' : MState α) (hs : s.isSetup = false)
    (h : setup cfg built s = .ok s') (e i : Nat) : cfg.minC ≤ s'.x e i :=
  (setup_bounds cfg built s s' hs h e i).1

/-- **the merged form violates the lower bound** on the whole window min < v < (n+1)·min -/
theorem shiftClampMerged_below (minC nAll v : α) (h1 : minC < v) (h2 : v < (nAll + 1) * minC) :
    shiftClampMerged minC nAll v < minC := by
  unfold shiftClampMerged
  rw [if_pos h1]
  have : (nAll + 1) * minC = nAll * minC + minC := by ring
  linarith

/-- outside that window the merged form and the shift-then-clamp pair agree (why ordinary profiles do not see it) -/
theorem shiftClampMerged_eq (minC nAll v : α) (h : ¬ (minC < v ∧ v < (nAll + 1) * minC)) :
    shiftClampMerged minC nAll v = shiftClamp minC nAll v := by
  unfold shiftClampMerged shiftClamp clampLo shift
  by_cases h1 : minC < v
  · have h2 : (nAll + 1) * minC ≤ v := not_lt.mp (fun h' => h ⟨h1, h'⟩)
    have h3 : (nAll + 1) * minC = nAll * minC + minC := by ring
    simp only [h1, if_true]
    rw [if_neg (not_lt.mpr (by linarith))]
  · simp only [h1, if_false]
    by_cases h4 : v < minC
    · rw [if_pos h4]
    · rw [if_neg h4]; exact le_antisymm (not_lt.mp h4) (not_lt.mp h1)

theorem setupMerged_first (cfg : Cfg α) (built : State α) (s s' : MState α) (hs : s.isSetup = false)
    (h : setupMerged cfg built s = .ok s') :
    ∀ e i, s'.x e i = shiftClampMerged cfg.minC cfg.nAll (applyBCInit cfg.N cfg.bc built e i) := by
  unfold setupMerged at h
  simp only [hs, Bool.false_eq_true, if_false] at h
  by_cases hb : sumExceeds cfg (applyBCInit cfg.N cfg.bc built) = true
  · simp [hb] at h
  · simp only [hb, if_false] at h
    cases h; exact fun e i => rfl

/-- every node whose described value lies in the window is below the minimum after the merged setup -/
theorem setupMerged_below (cfg : Cfg α) (built : State α) (s s' : MState α) (hs : s.isSetup = false)
    (h : setupMerged cfg built s = .ok s') (e i : Nat)
    (h1 : cfg.minC < applyBCInit cfg.N cfg.bc built e i)
    (h2 : applyBCInit cfg.N cfg.bc built e i < (cfg.nAll + 1) * cfg.minC) :
    s'.x e i < cfg.minC := by
  rw [setupMerged_first cfg built s s' hs h]
  exact shiftClampMerged_below _ _ _ h1 h2

/-- concrete witness (ℚ): binary, minC = 1/100, a trace of 25/1000: the merged setup leaves 5/1000 < minC,
the real setup leaves minC. -/
theorem setupMerged_violates_bounds :
    ∃ s1 s2 : MState ℚ,
      setupMerged witCfg (fun _ _ => 25/1000) ⟨fun _ _ => 0, false⟩ = .ok s1 ∧
      setup witCfg (fun _ _ => 25/1000) ⟨fun _ _ => 0, false⟩ = .ok s2 ∧
      s1.x 0 0 = 5/1000 ∧ s1.x 0 0 < witCfg.minC ∧ s2.x 0 0 = witCfg.minC := by
  have hsum : sumExceeds witCfg (applyBCInit witCfg.N witCfg.bc (fun _ _ => (25/1000 : ℚ))) = false := by
    simp [sumExceeds, witCfg, sumE, applyBCInit, List.range, List.range.loop]; norm_num
  refine ⟨⟨fun e i => shiftClampMerged (1/100) 2 (applyBCInit 2 witCfg.bc (fun _ _ => 25/1000) e i), true⟩,
          ⟨fun e i => shiftClamp (1/100) 2 (applyBCInit 2 witCfg.bc (fun _ _ => 25/1000) e i), true⟩,
          ?_, ?_, ?_, ?_, ?_⟩
  · unfold setupMerged
    simp only [Bool.false_eq_true, if_false, hsum]
    rfl
  · unfold setup
    simp only [Bool.false_eq_true, if_false, hsum]
    rfl
  · simp [witCfg, applyBCInit, shiftClampMerged]; norm_num
  · simp [witCfg, applyBCInit, shiftClampMerged]; norm_num
  · simp [witCfg, applyBCInit, shiftClamp, clampLo, shift]; norm_num

/-! #### the dependent component after setup -/

theorem sumE_eq_sum (E : Nat) (x : State α) (i : Nat) : sumE E x i = ∑ e ∈ range E, x e i := by
  unfold sumE
  induction E with
  | zero => simp
  | succ n ih => rw [List.range_succ, List.foldl_append, ih, Finset.sum_range_succ]; simp

theorem shiftClamp_le_add (minC nAll v : α) (h0 : 0 ≤ minC) (hn : 0 ≤ nAll) (hv : 0 ≤ v) :
    shiftClamp minC nAll v ≤ v + minC := by
  have hnm : 0 ≤ nAll * minC := mul_nonneg hn h0
  unfold shiftClamp clampLo
  split
  · linarith
  · unfold shift
    split <;> linarith

theorem shiftClamp_big (minC nAll v : α) (h0 : 0 ≤ minC) (hn : 0 ≤ nAll) (h : (nAll + 1) * minC ≤ v) :
    shiftClamp minC nAll v = v - nAll * minC := by
  have hnm : 0 ≤ nAll * minC := mul_nonneg hn h0
  have h3 : (nAll + 1) * minC = nAll * minC + minC := by ring
  unfold shiftClamp clampLo shift
  by_cases h1 : minC < v
  · simp only [h1, if_true]
    rw [if_neg (not_lt.mpr (by linarith))]
  · simp only [h1, if_false]
    rw [if_neg (not_lt.mpr (by linarith))]
    linarith [not_lt.mp h1]

theorem shiftClamp_small (minC nAll v : α) (h : v < (nAll + 1) * minC) :
    shiftClamp minC nAll v = minC := by
  have h3 : (nAll + 1) * minC = nAll * minC + minC := by ring
  unfold shiftClamp clampLo shift
  by_cases h1 : minC < v
  · simp only [h1, if_true]
    rw [if_pos (by linarith)]
  · simp only [h1, if_false]
    by_cases h4 : v < minC
    · rw [if_pos h4]
    · rw [if_neg h4]; exact le_antisymm (not_lt.mp h1) (not_lt.mp h4)

/-- **the shift by len(allElements)·min leaves room for the dependent component**: E independent elements,
E+1 elements in all, non-negative described values summing to at most 1 at a node ⇒ the shift-clamped values sum to
at most 1 − min. -/
theorem shiftClamp_sum_le (E : Nat) (minC nAll : α) (v : Nat → α) (hE : nAll = (E : α) + 1) (h0 : 0 ≤ minC)
    (hm : nAll * minC ≤ 1) (hv : ∀ e, e < E → 0 ≤ v e) (hs : ∑ e ∈ range E, v e ≤ 1) :
    ∑ e ∈ range E, shiftClamp minC nAll (v e) ≤ 1 - minC := by
  have hn : 0 ≤ nAll := by rw [hE]; positivity
  by_cases hbig : ∃ e0, e0 < E ∧ (nAll + 1) * minC ≤ v e0
  · obtain ⟨e0, he0, hb⟩ := hbig
    have hmem : e0 ∈ range E := mem_range.mpr he0
    rw [← Finset.add_sum_erase (range E) (fun e => shiftClamp minC nAll (v e)) hmem]
    have h1 : shiftClamp minC nAll (v e0) = v e0 - nAll * minC := shiftClamp_big _ _ _ h0 hn hb
    have h2 : ∑ e ∈ (range E).erase e0, shiftClamp minC nAll (v e) ≤ ∑ e ∈ (range E).erase e0, (v e + minC) := by
      apply Finset.sum_le_sum
      intro e he
      have : e < E := mem_range.mp (Finset.mem_of_mem_erase he)
      exact shiftClamp_le_add _ _ _ h0 hn (hv e this)
    have h3 : ∑ e ∈ (range E).erase e0, (v e + minC) = ∑ e ∈ (range E).erase e0, v e + ((E : α) - 1) * minC := by
      rw [Finset.sum_add_distrib, Finset.sum_const, Finset.card_erase_of_mem hmem, card_range, nsmul_eq_mul,
          Nat.cast_sub (by omega : 1 ≤ E)]
      simp
    have h4 : v e0 + ∑ e ∈ (range E).erase e0, v e = ∑ e ∈ range E, v e :=
      Finset.add_sum_erase (range E) v hmem
    rw [h1]
    have : nAll * minC = (E : α) * minC + minC := by rw [hE]; ring
    nlinarith
  · have hall : ∀ e ∈ range E, shiftClamp minC nAll (v e) = minC := by
      intro e he
      apply shiftClamp_small
      by_contra hc
      exact hbig ⟨e, mem_range.mp he, not_lt.mp hc⟩
    rw [Finset.sum_congr rfl hall, Finset.sum_const, card_range, nsmul_eq_mul]
    have : nAll * minC = (E : α) * minC + minC := by rw [hE]; ring
    linarith

theorem shiftClamp_sum_ge (E : Nat) (hE : 1 ≤ E) (minC nAll : α) (v : Nat → α) (h0 : 0 ≤ minC) :
    minC ≤ ∑ e ∈ range E, shiftClamp minC nAll (v e) := by
  have h1 : ∑ _e ∈ range E, minC ≤ ∑ e ∈ range E, shiftClamp minC nAll (v e) :=
    Finset.sum_le_sum (fun e _ => shiftClamp_lower minC nAll (v e))
  rw [Finset.sum_const, card_range, nsmul_eq_mul] at h1
  have : (1 : α) ≤ (E : α) := by exact_mod_cast hE
  nlinarith

/-- a first `setup` that does not raise saw node sums of at most 1 -/
theorem setup_ok_sum_le (cfg : Cfg α) (built : State α) (s s' : MState α) (hs : s.isSetup = false)
    (h : setup cfg built s = .ok s') (i : Nat) (hi : i < cfg.N) :
    sumE cfg.E (applyBCInit cfg.N cfg.bc built) i ≤ 1 := by
  unfold setup at h
  simp only [hs, Bool.false_eq_true, if_false] at h
  by_cases hb : sumExceeds cfg (applyBCInit cfg.N cfg.bc built) = true
  · simp [hb] at h
  · unfold sumExceeds at hb
    rw [List.any_eq_true] at hb
    by_contra hc
    exact hb ⟨i, List.mem_range.mpr hi, by simpa using not_le.mp hc⟩

/-- **bounds of the dependent component after setup**: with `len(allElements) = E + 1`, non-negative described
values and `len(allElements)·min ≤ 1`, the reference component `1 − Σ_e x_e` of every node is within
[min, 1 − min] after the first `setup` (that the node sums are ≤ 1 is what `setup` itself checked). -/
theorem setup_dependent_bounds (cfg : Cfg α) (built : State α) (s s' : MState α) (hs : s.isSetup = false)
    (h : setup cfg built s = .ok s') (i : Nat) (hi : i < cfg.N) (hE : 1 ≤ cfg.E)
    (hn : cfg.nAll = (cfg.E : α) + 1) (h0 : 0 ≤ cfg.minC) (hm : cfg.nAll * cfg.minC ≤ 1)
    (hv : ∀ e, e < cfg.E → 0 ≤ applyBCInit cfg.N cfg.bc built e i) :
    cfg.minC ≤ dependent cfg.E s'.x i ∧ dependent cfg.E s'.x i ≤ 1 - cfg.minC := by
  have hsum := setup_ok_sum_le cfg built s s' hs h i hi
  obtain ⟨_, hx⟩ := setup_first cfg built s s' hs h
  unfold dependent
  rw [sumE_eq_sum] at hsum ⊢
  have hx' : ∑ e ∈ range cfg.E, s'.x e i
      = ∑ e ∈ range cfg.E, shiftClamp cfg.minC cfg.nAll (applyBCInit cfg.N cfg.bc built e i) :=
    Finset.sum_congr rfl (fun e _ => hx e i)
  rw [hx']
  have hle := shiftClamp_sum_le cfg.E cfg.minC cfg.nAll (fun e => applyBCInit cfg.N cfg.bc built e i) hn h0 hm hv hsum
  have hge := shiftClamp_sum_ge cfg.E hE cfg.minC cfg.nAll (fun e => applyBCInit cfg.N cfg.bc built e i) h0
  constructor <;> linarith

/-! ### entering boundary conditions (round-4 strengthening)

Every public entry point is a function into the four dictionaries; each helper writes its own side only. -/

theorem setBoundaryCondition_left (s : BCStore α) (t : TypeArg) (ty : BCType) (ht : t.toBC? = some ty) (v : α) (k : Key) :
    setBoundaryCondition s .left t v k = ({ s with ltype := dset s.ltype k ty, lval := dset s.lval k v }, false) := by
  unfold setBoundaryCondition; rw [ht]

theorem setBoundaryCondition_right (s : BCStore α) (t : TypeArg) (ty : BCType) (ht : t.toBC? = some ty) (v : α) (k : Key) :
    setBoundaryCondition s .right t v k = ({ s with rtype := dset s.rtype k ty, rval := dset s.rval k v }, false) := by
  unfold setBoundaryCondition; rw [ht]

/-- an invalid type string or an invalid side raises and leaves the object as it was -/
theorem setBoundaryCondition_invalid (s : BCStore α) (side : SideArg) (t : TypeArg) (v : α) (k : Key)
    (h : t = .invalid ∨ side = .invalid) : setBoundaryCondition s side t v k = (s, true) := by
  unfold setBoundaryCondition
  rcases h with h | h
  · subst h; rfl
  · subst h; cases t <;> rfl

/-- **setRightBoundaryCondition writes the right side only**: the (type, value) of that key on the right, nothing on
the left, no other key. -/
theorem setRight_writes_right (s : BCStore α) (t : TypeArg) (ty : BCType) (ht : t.toBC? = some ty) (v : α) (k : Key) :
    (setRightBoundaryCondition s t v k).2 = false ∧
    (setRightBoundaryCondition s t v k).1.rtype k = some ty ∧ (setRightBoundaryCondition s t v k).1.rval k = some v ∧
    (setRightBoundaryCondition s t v k).1.ltype = s.ltype ∧ (setRightBoundaryCondition s t v k).1.lval = s.lval ∧
    ∀ j, j ≠ k → (setRightBoundaryCondition s t v k).1.rtype j = s.rtype j ∧
                 (setRightBoundaryCondition s t v k).1.rval j = s.rval j := by
  unfold setRightBoundaryCondition
  rw [setBoundaryCondition_right s t ty ht]
  refine ⟨rfl, by simp [dset], by simp [dset], rfl, rfl, fun j hj => by simp [dset, hj]⟩

/-- **setLeftBoundaryCondition writes the left side only** -/
theorem setLeft_writes_left (s : BCStore α) (t : TypeArg) (ty : BCType) (ht : t.toBC? = some ty) (v : α) (k : Key) :
    (setLeftBoundaryCondition s t v k).2 = false ∧
    (setLeftBoundaryCondition s t v k).1.ltype k = some ty ∧ (setLeftBoundaryCondition s t v k).1.lval k = some v ∧
    (setLeftBoundaryCondition s t v k).1.rtype = s.rtype ∧ (setLeftBoundaryCondition s t v k).1.rval = s.rval ∧
    ∀ j, j ≠ k → (setLeftBoundaryCondition s t v k).1.ltype j = s.ltype j ∧
                 (setLeftBoundaryCondition s t v k).1.lval j = s.lval j := by
  unfold setLeftBoundaryCondition
  rw [setBoundaryCondition_left s t ty ht]
  refine ⟨rfl, by simp [dset], by simp [dset], rfl, rfl, fun j hj => by simp [dset, hj]⟩

/-- **the helper that forwards the other side is wrong for every input**: the right dictionaries are not written
at all and the left entry of that key is overwritten. -/
theorem setRightSwapped_wrong (s : BCStore α) (t : TypeArg) (ty : BCType) (ht : t.toBC? = some ty) (v : α) (k : Key) :
    (setRightBoundaryConditionSwapped s t v k).1.rtype = s.rtype ∧
    (setRightBoundaryConditionSwapped s t v k).1.rval = s.rval ∧
    (setRightBoundaryConditionSwapped s t v k).1.ltype k = some ty ∧
    (setRightBoundaryConditionSwapped s t v k).1.lval k = some v := by
  unfold setRightBoundaryConditionSwapped
  rw [setBoundaryCondition_left s t ty ht]
  exact ⟨rfl, rfl, by simp [dset], by simp [dset]⟩

/-- concrete witness (ℚ): "Cr fixed at 3/10 on the right" entered through the swapped helper on a fresh object is read by
the mesh code as "fixed at 3/10 on the LEFT, closed on the right"; through the real helper as entered. -/
theorem setRightSwapped_witness :
    let bad := toBC (setupDefaults 1 (setRightBoundaryConditionSwapped (BCStore.empty : BCStore ℚ) .comp (3/10) (some 0)).1) 0
    let good := toBC (setupDefaults 1 (setRightBoundaryCondition (BCStore.empty : BCStore ℚ) .comp (3/10) (some 0)).1) 0
    (bad.ltype = .comp ∧ bad.lval = 3/10 ∧ bad.rtype = .flux ∧ bad.rval = 0) ∧
    (good.ltype = .flux ∧ good.lval = 0 ∧ good.rtype = .comp ∧ good.rval = 3/10) := by
  simp [toBC, setupDefaults, dfill, setRightBoundaryConditionSwapped, setRightBoundaryCondition, setBoundaryCondition,
        TypeArg.toBC?, BCStore.empty, dset]

/-- **DiffusionModel.setBC** writes both sides of the key of the named element — of the FIRST independent element when
called without `element` — and no other key -/
theorem setBC_writes_both (s : BCStore α) (lt rt : TypeArg) (lty rty : BCType) (hl : lt.toBC? = some lty)
    (hr : rt.toBC? = some rty) (lv rv : α) (k : Key) :
    (setBC s lt lv rt rv k).2 = false ∧
    (setBC s lt lv rt rv k).1.ltype (elementKey k) = some lty ∧ (setBC s lt lv rt rv k).1.lval (elementKey k) = some lv ∧
    (setBC s lt lv rt rv k).1.rtype (elementKey k) = some rty ∧ (setBC s lt lv rt rv k).1.rval (elementKey k) = some rv ∧
    ∀ j, j ≠ elementKey k →
      (setBC s lt lv rt rv k).1.ltype j = s.ltype j ∧ (setBC s lt lv rt rv k).1.lval j = s.lval j ∧
      (setBC s lt lv rt rv k).1.rtype j = s.rtype j ∧ (setBC s lt lv rt rv k).1.rval j = s.rval j := by
  unfold setBC
  rw [setBoundaryCondition_left s lt lty hl]
  simp only [Bool.false_eq_true, if_false]
  rw [setBoundaryCondition_right _ rt rty hr]
  refine ⟨rfl, by simp [dset], by simp [dset], by simp [dset], by simp [dset], fun j hj => by simp [dset, hj]⟩

/-- **setBC without element = setBC for the first independent element** (the repaired code) -/
theorem setBC_none_first (s : BCStore α) (lt rt : TypeArg) (lv rv : α) :
    setBC s lt lv rt rv none = setBC s lt lv rt rv (some 0) := rfl

/-- … so the mesh code reads it for element 0 -/
theorem setBC_none_read (s : BCStore α) (lt rt : TypeArg) (lty rty : BCType) (hl : lt.toBC? = some lty)
    (hr : rt.toBC? = some rty) (lv rv : α) :
    (toBC (setBC s lt lv rt rv none).1 0).ltype = lty ∧ (toBC (setBC s lt lv rt rv none).1 0).lval = lv ∧
    (toBC (setBC s lt lv rt rv none).1 0).rtype = rty ∧ (toBC (setBC s lt lv rt rv none).1 0).rval = rv := by
  obtain ⟨_, h1, h2, h3, h4, _⟩ := setBC_writes_both s lt rt lty rty hl hr lv rv none
  simp only [elementKey] at h1 h2 h3 h4
  simp [toBC, h1, h2, h3, h4]

/-- setBC with a valid left and an invalid right type raises AFTER the left entry was written -/
theorem setBC_right_invalid (s : BCStore α) (lt : TypeArg) (lty : BCType) (hl : lt.toBC? = some lty) (lv rv : α) (k : Key) :
    (setBC s lt lv .invalid rv k).2 = true ∧ (setBC s lt lv .invalid rv k).1.ltype (elementKey k) = some lty ∧
    (setBC s lt lv .invalid rv k).1.rtype = s.rtype ∧ (setBC s lt lv .invalid rv k).1.rval = s.rval := by
  unfold setBC
  rw [setBoundaryCondition_left s lt lty hl]
  simp only [Bool.false_eq_true, if_false]
  rw [setBoundaryCondition_invalid _ _ _ _ _ (Or.inl rfl)]
  exact ⟨rfl, by simp [dset], rfl, rfl⟩

/-- reading after `setupDefaults` = reading with the defaults FLUX_BC / 0 for absent keys -/
theorem toBC_setupDefaults (E : Nat) (s : BCStore α) (e : Nat) :
    (toBC (setupDefaults E s) e).ltype = (toBC s e).ltype ∧ (toBC (setupDefaults E s) e).lval = (toBC s e).lval ∧
    (toBC (setupDefaults E s) e).rtype = (toBC s e).rtype ∧ (toBC (setupDefaults E s) e).rval = (toBC s e).rval := by
  simp only [toBC, setupDefaults, dfill]
  by_cases he : e < E
  · simp only [he, if_true]
    refine ⟨?_, ?_, ?_, ?_⟩
    · cases s.ltype (some e) <;> rfl
    · cases s.lval (some e) <;> rfl
    · cases s.rtype (some e) <;> rfl
    · cases s.rval (some e) <;> rfl
  · simp [he]

/-- after `setupDefaults` every element of the model has all four entries (the `dict[e]` reads cannot fail) -/
theorem setupDefaults_present (E : Nat) (s : BCStore α) (e : Nat) (he : e < E) :
    ((setupDefaults E s).ltype (some e)).isSome ∧ ((setupDefaults E s).lval (some e)).isSome ∧
    ((setupDefaults E s).rtype (some e)).isSome ∧ ((setupDefaults E s).rval (some e)).isSome := by
  simp only [setupDefaults, dfill, he, if_true]
  refine ⟨?_, ?_, ?_, ?_⟩
  · cases s.ltype (some e) <;> rfl
  · cases s.lval (some e) <;> rfl
  · cases s.rtype (some e) <;> rfl
  · cases s.rval (some e) <;> rfl

/-- **the code before the repair (1d38457): `DiffusionModel.setBC` called without `element`** passed the default `None`
on as the dictionary key: whatever was entered, NO element of the model reads it. -/
theorem setBCUnrepaired_none_ignored (s : BCStore α) (lt rt : TypeArg) (lv rv : α) (e : Nat) :
    (toBC (setBCUnrepaired s lt lv rt rv none).1 e).ltype = (toBC s e).ltype ∧
    (toBC (setBCUnrepaired s lt lv rt rv none).1 e).lval = (toBC s e).lval ∧
    (toBC (setBCUnrepaired s lt lv rt rv none).1 e).rtype = (toBC s e).rtype ∧
    (toBC (setBCUnrepaired s lt lv rt rv none).1 e).rval = (toBC s e).rval := by
  cases lt <;> cases rt <;>
    simp [toBC, setBCUnrepaired, setBoundaryCondition, TypeArg.toBC?, dset]

/-- concrete witness (ℚ): "left node fixed at 3/10" entered by `setBC(COMPOSITION_BC, 3/10, FLUX_BC, 0)` on a fresh
object: the unrepaired code leaves element 0 closed on the left, the repaired code pins it. -/
theorem setBCUnrepaired_witness :
    (toBC (setBCUnrepaired (BCStore.empty : BCStore ℚ) .comp (3/10) .flux 0 none).1 0).ltype = .flux ∧
    (toBC (setBC (BCStore.empty : BCStore ℚ) .comp (3/10) .flux 0 none).1 0).ltype = .comp ∧
    (toBC (setBC (BCStore.empty : BCStore ℚ) .comp (3/10) .flux 0 none).1 0).lval = 3/10 := by
  simp [toBC, setBC, setBCUnrepaired, setBoundaryCondition, TypeArg.toBC?, BCStore.empty, dset, elementKey]

/-! #### op sequences: an entry stays until a later call writes the same (side, key) -/

theorem applyOp_frame_right (s : BCStore α) (o : BCOp α) (k : Key) (h : o.writesRight k = false) :
    (applyOp s o).1.rtype k = s.rtype k ∧ (applyOp s o).1.rval k = s.rval k := by
  cases o with
  | set side t v k' =>
    cases side <;> cases t <;>
      simp_all [applyOp, setBoundaryCondition, TypeArg.toBC?, BCOp.writesRight, dset]
  | setLeft t v k' =>
    cases t <;> simp [applyOp, setLeftBoundaryCondition, setBoundaryCondition, TypeArg.toBC?]
  | setRight t v k' =>
    cases t <;>
      simp_all [applyOp, setRightBoundaryCondition, setBoundaryCondition, TypeArg.toBC?, BCOp.writesRight, dset]
  | setBC lt lv rt rv k' =>
    cases lt <;> cases rt <;>
      simp_all [applyOp, setBC, setBoundaryCondition, TypeArg.toBC?, BCOp.writesRight, dset]

theorem applyOp_frame_left (s : BCStore α) (o : BCOp α) (k : Key) (h : o.writesLeft k = false) :
    (applyOp s o).1.ltype k = s.ltype k ∧ (applyOp s o).1.lval k = s.lval k := by
  cases o with
  | set side t v k' =>
    cases side <;> cases t <;>
      simp_all [applyOp, setBoundaryCondition, TypeArg.toBC?, BCOp.writesLeft, dset]
  | setLeft t v k' =>
    cases t <;>
      simp_all [applyOp, setLeftBoundaryCondition, setBoundaryCondition, TypeArg.toBC?, BCOp.writesLeft, dset]
  | setRight t v k' =>
    cases t <;> simp [applyOp, setRightBoundaryCondition, setBoundaryCondition, TypeArg.toBC?]
  | setBC lt lv rt rv k' =>
    cases lt <;> cases rt <;>
      simp_all [applyOp, setBC, setBoundaryCondition, TypeArg.toBC?, BCOp.writesLeft, dset]

theorem applyOps_frame_right (ops : List (BCOp α)) (s : BCStore α) (k : Key)
    (h : ∀ o ∈ ops, o.writesRight k = false) :
    (applyOps s ops).rtype k = s.rtype k ∧ (applyOps s ops).rval k = s.rval k := by
  induction ops generalizing s with
  | nil => exact ⟨rfl, rfl⟩
  | cons o r ih =>
    have h1 := applyOp_frame_right s o k (h o (List.mem_cons_self ..))
    have h2 := ih (applyOp s o).1 (fun o' ho' => h o' (List.mem_cons_of_mem _ ho'))
    simp only [applyOps, List.foldl_cons] at h2 ⊢
    exact ⟨h2.1.trans h1.1, h2.2.trans h1.2⟩

theorem applyOps_frame_left (ops : List (BCOp α)) (s : BCStore α) (k : Key)
    (h : ∀ o ∈ ops, o.writesLeft k = false) :
    (applyOps s ops).ltype k = s.ltype k ∧ (applyOps s ops).lval k = s.lval k := by
  induction ops generalizing s with
  | nil => exact ⟨rfl, rfl⟩
  | cons o r ih =>
    have h1 := applyOp_frame_left s o k (h o (List.mem_cons_self ..))
    have h2 := ih (applyOp s o).1 (fun o' ho' => h o' (List.mem_cons_of_mem _ ho'))
    simp only [applyOps, List.foldl_cons] at h2 ⊢
    exact ⟨h2.1.trans h1.1, h2.2.trans h1.2⟩

theorem applyOps_append (s : BCStore α) (a b : List (BCOp α)) :
    applyOps s (a ++ b) = applyOps (applyOps s a) b := by
  simp [applyOps, List.foldl_append]

/-- **last write wins, right side**: in any history of entering calls, what a call wrote for (right, key) is what
the object holds at the end, if no later call writes (right, key) — whatever came before, whatever the later calls do
elsewhere. -/
theorem last_write_right (before later : List (BCOp α)) (o : BCOp α) (s : BCStore α) (k : Key) (ty : BCType) (v : α)
    (ho : ∀ s', (applyOp s' o).1.rtype k = some ty ∧ (applyOp s' o).1.rval k = some v)
    (hl : ∀ o' ∈ later, o'.writesRight k = false) :
    (applyOps s (before ++ o :: later)).rtype k = some ty ∧ (applyOps s (before ++ o :: later)).rval k = some v := by
  rw [applyOps_append]
  have h1 := ho (applyOps s before)
  have h2 := applyOps_frame_right later (applyOp (applyOps s before) o).1 k hl
  simp only [applyOps, List.foldl_cons] at h2 ⊢
  exact ⟨h2.1.trans h1.1, h2.2.trans h1.2⟩

theorem last_write_left (before later : List (BCOp α)) (o : BCOp α) (s : BCStore α) (k : Key) (ty : BCType) (v : α)
    (ho : ∀ s', (applyOp s' o).1.ltype k = some ty ∧ (applyOp s' o).1.lval k = some v)
    (hl : ∀ o' ∈ later, o'.writesLeft k = false) :
    (applyOps s (before ++ o :: later)).ltype k = some ty ∧ (applyOps s (before ++ o :: later)).lval k = some v := by
  rw [applyOps_append]
  have h1 := ho (applyOps s before)
  have h2 := applyOps_frame_left later (applyOp (applyOps s before) o).1 k hl
  simp only [applyOps, List.foldl_cons] at h2 ⊢
  exact ⟨h2.1.trans h1.1, h2.2.trans h1.2⟩

/-- an untouched (side, key) of an object handed to the constructor or made by it stays as it was -/
theorem initBC_none_empty (e : Nat) :
    (toBC (initBC (none : Option (BCStore α))) e).ltype = .flux ∧ (toBC (initBC (none : Option (BCStore α))) e).lval = 0 ∧
    (toBC (initBC (none : Option (BCStore α))) e).rtype = .flux ∧ (toBC (initBC (none : Option (BCStore α))) e).rval = 0 :=
  ⟨rfl, rfl, rfl, rfl⟩

/-! #### from the entry point to the run -/

/-- **a composition condition entered through setRightBoundaryCondition pins the RIGHT node** of that element to the
entered value (before the shift) for any fluxes, and leaves the element's left condition as it was. -/
theorem entered_right_comp_pinned (cfg : Cfg α) (hN : 1 ≤ cfg.N) (s : BCStore α) (v : α) (e : Nat)
    (hbc : cfg.bc = toBC (setRightBoundaryCondition s .comp v (some e)).1) :
    Pinned cfg e (cfg.N - 1) ∧ (∀ x, applyBCInit cfg.N cfg.bc x e (cfg.N - 1) = v) ∧
    (cfg.bc e).ltype = (toBC s e).ltype ∧ (cfg.bc e).lval = (toBC s e).lval := by
  have ht : (cfg.bc e).rtype = .comp := by
    rw [hbc]; simp [toBC, setRightBoundaryCondition, setBoundaryCondition, TypeArg.toBC?, dset]
  have hv : (cfg.bc e).rval = v := by
    rw [hbc]; simp [toBC, setRightBoundaryCondition, setBoundaryCondition, TypeArg.toBC?, dset]
  refine ⟨pinned_right cfg hN e ht, fun x => ?_, ?_, ?_⟩
  · rw [applyBCInit_right cfg.N cfg.bc x e ht, hv]
  · rw [hbc]; simp [toBC, setRightBoundaryCondition, setBoundaryCondition, TypeArg.toBC?]
  · rw [hbc]; simp [toBC, setRightBoundaryCondition, setBoundaryCondition, TypeArg.toBC?]

/-- **a flux entered through setRightBoundaryCondition is written to the RIGHT end face** of that element -/
theorem entered_right_flux_face (cfg : Cfg α) (s : BCStore α) (v : α) (e : Nat)
    (hbc : cfg.bc = toBC (setRightBoundaryCondition s .flux v (some e)).1) (J : Nat → α) :
    applyBC cfg.N (cfg.bc e) J cfg.N = v := by
  have ht : (cfg.bc e).rtype = .flux := by
    rw [hbc]; simp [toBC, setRightBoundaryCondition, setBoundaryCondition, TypeArg.toBC?, dset]
  have hv : (cfg.bc e).rval = v := by
    rw [hbc]; simp [toBC, setRightBoundaryCondition, setBoundaryCondition, TypeArg.toBC?, dset]
  rw [applyBC_right_flux cfg.N _ J ht, hv]

/-- **a composition condition entered through setLeftBoundaryCondition pins the LEFT node** -/
theorem entered_left_comp_pinned (cfg : Cfg α) (hN : 2 ≤ cfg.N) (s : BCStore α) (v : α) (e : Nat)
    (hbc : cfg.bc = toBC (setLeftBoundaryCondition s .comp v (some e)).1) :
    Pinned cfg e 0 ∧ (∀ x, applyBCInit cfg.N cfg.bc x e 0 = v) ∧
    (cfg.bc e).rtype = (toBC s e).rtype ∧ (cfg.bc e).rval = (toBC s e).rval := by
  have ht : (cfg.bc e).ltype = .comp := by
    rw [hbc]; simp [toBC, setLeftBoundaryCondition, setBoundaryCondition, TypeArg.toBC?, dset]
  have hv : (cfg.bc e).lval = v := by
    rw [hbc]; simp [toBC, setLeftBoundaryCondition, setBoundaryCondition, TypeArg.toBC?, dset]
  refine ⟨pinned_left cfg hN e ht, fun x => ?_, ?_, ?_⟩
  · rw [applyBCInit_left cfg.N hN cfg.bc x e ht, hv]
  · rw [hbc]; simp [toBC, setLeftBoundaryCondition, setBoundaryCondition, TypeArg.toBC?]
  · rw [hbc]; simp [toBC, setLeftBoundaryCondition, setBoundaryCondition, TypeArg.toBC?]

/-- **a flux entered through setLeftBoundaryCondition is written to the LEFT end face** -/
theorem entered_left_flux_face (cfg : Cfg α) (hN : 1 ≤ cfg.N) (s : BCStore α) (v : α) (e : Nat)
    (hbc : cfg.bc = toBC (setLeftBoundaryCondition s .flux v (some e)).1) (J : Nat → α) :
    applyBC cfg.N (cfg.bc e) J 0 = v := by
  have ht : (cfg.bc e).ltype = .flux := by
    rw [hbc]; simp [toBC, setLeftBoundaryCondition, setBoundaryCondition, TypeArg.toBC?, dset]
  have hv : (cfg.bc e).lval = v := by
    rw [hbc]; simp [toBC, setLeftBoundaryCondition, setBoundaryCondition, TypeArg.toBC?, dset]
  rw [applyBC_left_flux cfg.N hN _ J ht, hv]

/-! ### non-vacuity: concrete data meeting the hypothesis sets -/

/-- a closed two-node, one-element configuration over ℚ -/
def exCfg : Cfg ℚ := { N := 2, E := 1, dz := 1, minC := 1/100, nAll := 2, bc := fun _ => ⟨.flux, 0, .flux, 0⟩ }
/-- the same mesh with composition conditions on both sides -/
def exCfgComp : Cfg ℚ := { N := 2, E := 1, dz := 1, minC := 1/100, nAll := 2, bc := fun _ => ⟨.comp, 1/4, .comp, 1/3⟩ }

example : Closed (exCfg.bc 0) := ⟨rfl, rfl, rfl, rfl⟩
example : (1:ℕ) ≤ exCfg.N ∧ exCfg.minC ≤ 1 - exCfg.minC := by simp [exCfg]; norm_num
example : Pinned exCfgComp 0 0 := pinned_left exCfgComp (by simp [exCfgComp]) 0 rfl
example : Pinned exCfgComp 0 1 := pinned_right exCfgComp (by simp [exCfgComp]) 0 rfl
/-- clip inactive along a (one-step, Euler, interior flux 1/10 at face 1) run -/
example : ClipInactive exCfg .euler (fun _ _ _ j => if j = 1 then 1/10 else 0) 0 0 (fun _ _ => 1/2) [1] := by
  refine ⟨?_, trivial⟩
  intro i hi
  have hi' : i = 0 ∨ i = 1 := by simp [exCfg] at hi; omega
  rcases hi' with rfl | rfl <;>
    simp [stepRaw, eulerRaw, axpy, rhs, dXdt, applyBC, exCfg] <;> norm_num
/-- u-fractions summing to one -/
example : sumOver [0, 1] (fun k => if k = 0 then (1/4:ℚ) else 3/4) = 1 := by
  simp [sumOver]; norm_num
/-- a successful first setup -/
example : ∃ s', setup exCfg (fun _ _ => 1/2) ⟨fun _ _ => 0, false⟩ = .ok s' := by
  unfold setup
  have : sumExceeds exCfg (applyBCInit exCfg.N exCfg.bc (fun _ _ => (1/2 : ℚ))) = false := by
    simp [sumExceeds, exCfg, sumE, applyBCInit, List.range, List.range.loop]; norm_num
  simp only [Bool.false_eq_true, if_false, this]
  exact ⟨_, rfl⟩

/-- a value inside the window (min, (n+1)·min) exists -/
example : (1/100 : ℚ) < 25/1000 ∧ (25/1000 : ℚ) < (2 + 1) * (1/100) := by norm_num
/-- the hypotheses of `setup_dependent_bounds` / `shiftClamp_sum_le` hold for the binary example -/
example : exCfg.nAll = (exCfg.E : ℚ) + 1 ∧ 0 ≤ exCfg.minC ∧ exCfg.nAll * exCfg.minC ≤ 1 ∧ 1 ≤ exCfg.E := by
  simp [exCfg]; norm_num
/-- valid type arguments exist; the helpers do not raise on them -/
example : TypeArg.comp.toBC? = some BCType.comp ∧ TypeArg.flux.toBC? = some BCType.flux := ⟨rfl, rfl⟩
/-- the hypothesis of `last_write_right` is met by each right-writing entry point -/
example (s' : BCStore ℚ) : (applyOp s' (.setRight .comp (3/10) (some 0))).1.rtype (some 0) = some .comp ∧
    (applyOp s' (.setRight .comp (3/10) (some 0))).1.rval (some 0) = some (3/10) := by
  simp [applyOp, setRightBoundaryCondition, setBoundaryCondition, TypeArg.toBC?, dset]
example (s' : BCStore ℚ) : (applyOp s' (.setBC .flux 0 .flux (1/7) (some 1))).1.rtype (some 1) = some .flux ∧
    (applyOp s' (.setBC .flux 0 .flux (1/7) (some 1))).1.rval (some 1) = some (1/7) := by
  simp [applyOp, setBC, setBoundaryCondition, TypeArg.toBC?, dset, elementKey]
/-- … and by setBC without element, for the first independent element -/
example (s' : BCStore ℚ) : (applyOp s' (.setBC .flux 0 .comp (1/7) none)).1.rtype (some 0) = some .comp ∧
    (applyOp s' (.setBC .flux 0 .comp (1/7) none)).1.rval (some 0) = some (1/7) := by
  simp [applyOp, setBC, setBoundaryCondition, TypeArg.toBC?, dset, elementKey]
example : (BCOp.setLeft .comp (1/5 : ℚ) (some 0)).writesRight (some 0) = false := rfl
/-- a configuration whose conditions come from the entry points -/
example : ∃ cfg : Cfg ℚ, 1 ≤ cfg.N ∧
    cfg.bc = toBC (setRightBoundaryCondition (BCStore.empty : BCStore ℚ) .comp (3/10) (some 0)).1 :=
  ⟨{ exCfg with bc := toBC (setRightBoundaryCondition (BCStore.empty : BCStore ℚ) .comp (3/10) (some 0)).1 },
   by simp [exCfg], rfl⟩

end KawinV.Props.C04
