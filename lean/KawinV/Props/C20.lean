/-
C20 — property theorems (stub; nothing proved yet).
-/
namespace KawinV.Props.C20
end KawinV.Props.C20
