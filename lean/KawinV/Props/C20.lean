/-
C20 — saved files and surrogates reproduce what they were made from.

Theorems about `KawinV.SaveLoad` (hand model of the npz / toDict / fromDict / JSON layers) instantiated with
the tables of `KawinV.Gen.C20` which tools/corr/C20.py extracts from the running kawin code on every run.
Facts about the tables are closed by `decide`, so they are re-decided whenever the code changes.
-/
import KawinV.Model.SaveLoad
import KawinV.Gen.C20Tables
import Mathlib.Data.List.Nodup
import Mathlib.Data.List.Basic

set_option linter.unusedSectionVars false
set_option linter.unusedVariables false
set_option linter.unusedSimpArgs false

namespace KawinV.Props.C20
open KawinV.SaveLoad
open KawinV.Gen.C20

variable {α : Type}

/-! ### dictionaries -/

theorem get?_none_of_no_key (d : Dict α) (k : String) (h : ∀ e ∈ d, e.1 ≠ k) : Dict.get? d k = none := by
  induction d with
  | nil => rfl
  | cons x r ih =>
    obtain ⟨k', v⟩ := x
    have h1 : k' ≠ k := h (k', v) (by simp)
    simp only [Dict.get?, h1, if_false]
    exact ih (fun e he => h e (List.mem_cons_of_mem _ he))

theorem get?_mem (d : Dict α) (k : String) (v : Val α) (h : Dict.get? d k = some v) : (k, v) ∈ d := by
  induction d with
  | nil => simp [Dict.get?] at h
  | cons x r ih =>
    obtain ⟨k', v'⟩ := x
    simp only [Dict.get?] at h
    split at h
    · next hk => cases h; subst hk; simp
    · exact List.mem_cons_of_mem _ (ih h)

theorem writeStep_get?_ne (s : State α) (d : Dict α) (e : Entry) (k : String) (h : e.key ≠ k) :
    Dict.get? (writeStep s d e) k = Dict.get? d k := by
  unfold writeStep
  split
  · rfl
  · simp [Dict.get?, h]

theorem writeStep_get?_eq (s : State α) (d : Dict α) (e : Entry) :
    Dict.get? (writeStep s d e) e.key = if skipped s e then Dict.get? d e.key else some (s e.slot) := by
  unfold writeStep
  split
  · rfl
  · simp [Dict.get?]

theorem foldl_write_other (s : State α) (W : List Entry) (acc : Dict α) (k : String)
    (h : ∀ e ∈ W, e.key ≠ k) : Dict.get? (W.foldl (writeStep s) acc) k = Dict.get? acc k := by
  induction W generalizing acc with
  | nil => rfl
  | cons e W ih =>
    simp only [List.foldl_cons]
    rw [ih _ (fun e' he' => h e' (List.mem_cons_of_mem _ he'))]
    exact writeStep_get?_ne s acc e k (h e (by simp))

/-- what `toDict` leaves under the key of one of its lines, when no two lines use the same key -/
theorem foldl_write_get (s : State α) (W : List Entry) (hnd : (W.map Entry.key).Nodup) (acc : Dict α)
    (w : Entry) (hw : w ∈ W) :
    Dict.get? (W.foldl (writeStep s) acc) w.key
      = if skipped s w then Dict.get? acc w.key else some (s w.slot) := by
  induction W generalizing acc with
  | nil => simp at hw
  | cons e W ih =>
    simp only [List.map_cons, List.nodup_cons] at hnd
    simp only [List.foldl_cons]
    rcases List.mem_cons.mp hw with rfl | hw'
    · rw [foldl_write_other s W _ w.key]
      · exact writeStep_get?_eq s acc w
      · intro e' he' heq
        exact hnd.1 (heq ▸ List.mem_map_of_mem he')
    · rw [ih hnd.2 _ hw']
      have hne : e.key ≠ w.key := fun heq => hnd.1 (heq ▸ List.mem_map_of_mem hw')
      rw [writeStep_get?_ne s acc e w.key hne]

theorem foldl_write_mem (s : State α) (W : List Entry) (acc : Dict α) (x : String × Val α)
    (hx : x ∈ W.foldl (writeStep s) acc) :
    x ∈ acc ∨ ∃ w ∈ W, skipped s w = false ∧ x = (w.key, s w.slot) := by
  induction W generalizing acc with
  | nil => exact Or.inl hx
  | cons e W ih =>
    simp only [List.foldl_cons] at hx
    rcases ih _ hx with h | ⟨w, hw, h1, h2⟩
    · unfold writeStep at h
      split at h
      · exact Or.inl h
      · next hs =>
        rcases List.mem_cons.mp h with h | h
        · exact Or.inr ⟨e, by simp, by simpa using hs, h⟩
        · exact Or.inl h
    · exact Or.inr ⟨w, List.mem_cons_of_mem _ hw, h1, h2⟩

/-- the archive layer accepts a dictionary without `None` -/
theorem npzLoad_ok (f : Dict α) (h : ∀ x ∈ f, x.2.isNone = false) : npzLoad f = .ok f := by
  unfold npzLoad
  have : f.all (fun e => liveOK f e.1) = true := by
    rw [List.all_eq_true]
    intro e _
    unfold liveOK
    cases hg : Dict.get? f e.1 with
    | none => rfl
    | some v => simpa using h _ (get?_mem f e.1 v hg)
  rw [if_pos this]

/-- … and refuses one that holds a `None` (the `np.load` error "Object arrays cannot be loaded") -/
theorem npzLoad_none (f : Dict α) (k : String) (hk : Dict.get? f k = some Val.none) :
    npzLoad f = .error .objectArray := by
  unfold npzLoad
  have hm := get?_mem f k _ hk
  have : ¬ (f.all (fun e => liveOK f e.1) = true) := by
    rw [List.all_eq_true]
    intro hall
    have := hall (k, Val.none) hm
    simp [liveOK, hk, Val.isNone] at this
  rw [if_neg this]

/-! ### fromDict -/

theorem fromDict_ok (R : List Entry) (d : Dict α) (s0 : State α)
    (h : ∀ e ∈ R, (Dict.get? d e.key).isSome = true ∨ e.opt = true) :
    fromDict R d s0 = .ok (applyReads R d s0) := by
  unfold fromDict applyReads
  induction R generalizing s0 with
  | nil => rfl
  | cons e R ih =>
    simp only [List.foldlM_cons, List.foldl_cons]
    have he := h e (by simp)
    have hstep : readStep d s0 e = .ok (s0.set e.slot (lookupOrNone d e.key)) := by
      unfold readStep lookupOrNone
      cases hg : Dict.get? d e.key with
      | some v => rfl
      | none =>
        rcases he with he | he
        · simp [hg] at he
        · simp [he]
    rw [hstep]
    exact ih _ (fun e' he' => h e' (List.mem_cons_of_mem _ he'))

/-- a `KeyError` if a mandatory key is missing (first such line) -/
theorem fromDict_keyError (e : Entry) (R : List Entry) (d : Dict α) (s0 : State α)
    (hm : Dict.get? d e.key = none) (ho : e.opt = false) :
    fromDict (e :: R) d s0 = .error (.keyError e.key) := by
  unfold fromDict
  simp only [List.foldlM_cons]
  have : readStep d s0 e = .error (.keyError e.key) := by unfold readStep; simp [hm, ho]
  rw [this]; rfl

theorem applyReads_cons (e : Entry) (R : List Entry) (d : Dict α) (s0 : State α) :
    applyReads (e :: R) d s0 = applyReads R d (s0.set e.slot (lookupOrNone d e.key)) := rfl

theorem applyReads_untouched (R : List Entry) (d : Dict α) (s0 : State α) (x : String)
    (h : ∀ e ∈ R, e.slot ≠ x) : applyReads R d s0 x = s0 x := by
  induction R generalizing s0 with
  | nil => rfl
  | cons e R ih =>
    rw [applyReads_cons, ih _ (fun e' he' => h e' (List.mem_cons_of_mem _ he'))]
    have : x ≠ e.slot := fun hx => h e (by simp) hx.symm
    simp [State.set, this]

theorem applyReads_value (R : List Entry) (d : Dict α) (s0 : State α) (x : String) (v : Val α)
    (hex : ∃ e ∈ R, e.slot = x)
    (hall : ∀ e ∈ R, e.slot = x → lookupOrNone d e.key = v) :
    applyReads R d s0 x = v := by
  induction R generalizing s0 with
  | nil => obtain ⟨e, he, _⟩ := hex; simp at he
  | cons e R ih =>
    rw [applyReads_cons]
    by_cases hlater : ∃ e' ∈ R, e'.slot = x
    · exact ih _ hlater (fun e' he' => hall e' (List.mem_cons_of_mem _ he'))
    · have hno : ∀ e' ∈ R, e'.slot ≠ x := fun e' he' hx => hlater ⟨e', he', hx⟩
      have hhere : e.slot = x := by
        obtain ⟨e', he', hx⟩ := hex
        rcases List.mem_cons.mp he' with rfl | he''
        · exact hx
        · exact absurd hx (hno e' he'')
      rw [applyReads_untouched R d _ x hno]
      simp [State.set, hhere, hall e (by simp) hhere]

/-! ### the round trip, for any pair of tables -/

theorem covers_iff (W : List Entry) (e : Entry) :
    covers W e = true ↔ ∃ w ∈ W, w.key = e.key ∧ w.slot = e.slot ∧ (w.opt = true → e.opt = true) := by
  unfold covers
  rw [List.any_eq_true]
  constructor
  · rintro ⟨w, hw, h⟩
    simp only [Bool.and_eq_true, beq_iff_eq, Bool.or_eq_true, Bool.not_eq_true'] at h
    refine ⟨w, hw, h.1.1, h.1.2, ?_⟩
    intro ho
    rcases h.2 with h2 | h2
    · rw [ho] at h2; cases h2
    · exact h2
  · rintro ⟨w, hw, h1, h2, h3⟩
    refine ⟨w, hw, ?_⟩
    simp only [Bool.and_eq_true, beq_iff_eq, Bool.or_eq_true, Bool.not_eq_true']
    refine ⟨⟨h1, h2⟩, ?_⟩
    cases ho : w.opt with
    | false => exact Or.inl rfl
    | true => exact Or.inr (h3 ho)

theorem isNone_eq_none (v : Val α) (h : v.isNone = true) : v = Val.none := by
  cases v with
  | none => rfl
  | arr _ _ => simp [Val.isNone] at h

/-- **round trip**.  For ANY pair of tables in which no two `toDict` lines share a key and every `fromDict`
line is covered by a `toDict` line (same key, same slot, a skippable write only read tolerantly), and ANY
state `s` whose mandatory slots hold arrays (any shapes, any contents), loading the saved file into ANY
model state `s0` succeeds; afterwards every slot named by a `fromDict` line holds exactly what it held in
`s` — including `None` in an optional slot — and every other slot is what it was in `s0`, or `None` if
`fromDict` resets it. -/
theorem roundtrip (sp : Spec) (hnd : (sp.writes.map Entry.key).Nodup)
    (hcov : ∀ e ∈ sp.reads, covers sp.writes e = true) (s s0 : State α)
    (hnn : ∀ w ∈ sp.writes, w.opt = false → (s w.slot).isNone = false) :
    ∃ s', load sp (save sp s) s0 = .ok s' ∧ (∀ e ∈ sp.reads, s' e.slot = s e.slot) ∧
      (∀ x, (∀ e ∈ sp.reads, e.slot ≠ x) → s' x = applyResets sp.resets s0 x) := by
  -- 1. the archive holds no None
  have hfile : ∀ x ∈ toDict sp.writes s, x.2.isNone = false := by
    intro x hx
    rcases foldl_write_mem s sp.writes [] x hx with h | ⟨w, hw, hs, rfl⟩
    · simp at h
    · cases ho : w.opt with
      | false => exact hnn w hw ho
      | true =>
        unfold skipped at hs
        rw [ho] at hs
        simpa using hs
  have hload : npzLoad (save sp s) = .ok (toDict sp.writes s) := npzLoad_ok _ hfile
  -- 2. what each read line finds
  have hfind : ∀ e ∈ sp.reads,
      ((Dict.get? (toDict sp.writes s) e.key).isSome = true ∨ e.opt = true) ∧
      lookupOrNone (toDict sp.writes s) e.key = s e.slot := by
    intro e he
    obtain ⟨w, hw, hk, hsl, hopt⟩ := (covers_iff _ _).mp (hcov e he)
    have hg := foldl_write_get s sp.writes hnd [] w hw
    rw [hk] at hg
    change Dict.get? (toDict sp.writes s) e.key = _ at hg
    unfold lookupOrNone
    rw [hg]
    cases hsk : skipped s w with
    | false => simp [hsl]
    | true =>
      unfold skipped at hsk
      simp only [Bool.and_eq_true] at hsk
      have := isNone_eq_none _ hsk.2
      simp [Dict.get?, hopt hsk.1, ← hsl, this]
  refine ⟨applyReads sp.reads (toDict sp.writes s) (applyResets sp.resets s0), ?_, ?_, ?_⟩
  · unfold load
    rw [hload]
    exact fromDict_ok _ _ _ (fun e he => (hfind e he).1)
  · intro e he
    exact applyReads_value _ _ _ _ _ ⟨e, he, rfl⟩
      (fun e' he' hs' => by rw [(hfind e' he').2, hs'])
  · intro x hx
    exact applyReads_untouched _ _ _ _ hx

/-! ### per-phase tables: keys of different phases never collide -/

theorem append_right_inj_str (a b ph : String) (h : a ++ ph = b ++ ph) : a = b := by
  have := congrArg String.toList h
  simp only [String.toList_append] at this
  exact String.toList_inj.mp (List.append_cancel_right this)

theorem prefix_of_append_eq (a b x y : String) (h : a ++ x = b ++ y) :
    a.toList <+: b.toList ∨ b.toList <+: a.toList := by
  have := congrArg String.toList h
  simp only [String.toList_append] at this
  rcases List.append_eq_append_iff.mp this with ⟨as, h1, _⟩ | ⟨bs, h1, _⟩
  · exact Or.inl ⟨as, h1.symm⟩
  · exact Or.inr ⟨bs, h1.symm⟩

theorem prefixFree_spec (G P : List Entry) (h : prefixFree G P = true) :
    (∀ p ∈ P, ∀ q ∈ P, p.key ≠ q.key → ¬ p.key.toList <+: q.key.toList) ∧
    (∀ p ∈ P, ∀ g ∈ G, ¬ p.key.toList <+: g.key.toList) := by
  unfold prefixFree at h
  simp only [Bool.and_eq_true, List.all_eq_true, Bool.or_eq_true, beq_iff_eq, Bool.not_eq_true',
    ← Bool.not_eq_true, List.isPrefixOf_iff_prefix] at h
  refine ⟨fun p hp q hq hne => ?_, fun p hp g hg => h.2 p hp g hg⟩
  rcases h.1 p hp q hq with h1 | h1
  · exact absurd h1 hne
  · exact h1

theorem expand_keys (G P : List Entry) (phases : List String) :
    (expand G P phases).map Entry.key
      = G.map Entry.key ++ phases.flatMap (fun ph => (P.map Entry.key).map (· ++ ph)) := by
  unfold expand
  simp only [List.map_append, List.map_flatMap, List.map_map]
  rfl

/-- keys built as `prefix ++ phase name` are pairwise distinct for distinct phase names, whatever the names -/
theorem expand_keys_nodup (G P : List Entry) (phases : List String)
    (hG : (G.map Entry.key).Nodup) (hP : (P.map Entry.key).Nodup) (hpf : prefixFree G P = true)
    (hph : phases.Nodup) : ((expand G P phases).map Entry.key).Nodup := by
  obtain ⟨hpp, hpg⟩ := prefixFree_spec G P hpf
  rw [expand_keys, List.nodup_append]
  refine ⟨hG, ?_, ?_⟩
  · rw [List.nodup_flatMap]
    refine ⟨fun ph _ => hP.map (fun a b h => append_right_inj_str a b ph h), ?_⟩
    refine List.Pairwise.imp_of_mem ?_ hph
    intro ph ph' _ _ hne
    change List.Disjoint _ _
    intro x hx hx'
    simp only [List.mem_map] at hx hx'
    obtain ⟨_, ⟨p, hp, rfl⟩, rfl⟩ := hx
    obtain ⟨_, ⟨q, hq, rfl⟩, hq'⟩ := hx'
    by_cases hk : p.key = q.key
    · rw [hk] at hq'
      have := congrArg String.toList hq'
      simp only [String.toList_append] at this
      exact hne (String.toList_inj.mp (List.append_cancel_left this)).symm
    · rcases prefix_of_append_eq _ _ _ _ hq' with h | h
      · exact hpp q hq p hp (Ne.symm hk) h
      · exact hpp p hp q hq hk h
  · intro a ha b hb hab
    subst hab
    simp only [List.mem_map] at ha
    obtain ⟨g, hg, rfl⟩ := ha
    simp only [List.mem_flatMap, List.mem_map] at hb
    obtain ⟨ph, _, _, ⟨p, hp, rfl⟩, hq⟩ := hb
    have : p.key.toList <+: g.key.toList := by
      refine ⟨ph.toList, ?_⟩
      rw [← String.toList_append]
      exact congrArg String.toList hq
    exact hpg p hp g hg this

theorem mem_expand (G P : List Entry) (phases : List String) (e : Entry) :
    e ∈ expand G P phases ↔
      e ∈ G ∨ ∃ ph ∈ phases, ∃ p ∈ P, e = (p.key ++ ph, p.slot ++ "@" ++ ph, p.opt) := by
  unfold expand
  simp only [List.mem_append, List.mem_flatMap, List.mem_map]
  constructor
  · rintro (h | ⟨ph, hph, p, hp, rfl⟩)
    · exact Or.inl h
    · exact Or.inr ⟨ph, hph, p, hp, rfl⟩
  · rintro (h | ⟨ph, hph, p, hp, rfl⟩)
    · exact Or.inl h
    · exact Or.inr ⟨ph, hph, p, hp, rfl⟩

/-- coverage of the templates gives coverage of the tables of every model -/
theorem covers_expand (GW PW GR PR : List Entry) (phases : List String)
    (hG : ∀ e ∈ GR, covers GW e = true) (hP : ∀ e ∈ PR, covers PW e = true) :
    ∀ e ∈ expand GR PR phases, covers (expand GW PW phases) e = true := by
  intro e he
  rw [covers_iff]
  rcases (mem_expand _ _ _ _).mp he with h | ⟨ph, hph, p, hp, rfl⟩
  · obtain ⟨w, hw, h1, h2, h3⟩ := (covers_iff _ _).mp (hG e h)
    exact ⟨w, (mem_expand _ _ _ _).mpr (Or.inl hw), h1, h2, h3⟩
  · obtain ⟨w, hw, h1, h2, h3⟩ := (covers_iff _ _).mp (hP p hp)
    refine ⟨(w.key ++ ph, w.slot ++ "@" ++ ph, w.opt), (mem_expand _ _ _ _).mpr (Or.inr ⟨ph, hph, w, hw, rfl⟩), ?_, ?_, h3⟩
    · change w.key ++ ph = p.key ++ ph; rw [h1]
    · change w.slot ++ "@" ++ ph = p.slot ++ "@" ++ ph; rw [h2]

/-! ### the precipitation model (tables generated from KWNBase / KWNEuler / PrecipitationParameters) -/

/-- `toDict` / `fromDict` of a `PrecipitateModel` with the given phase names -/
def precipSpec (phases : List String) : Spec :=
  { writes := expand precipGlobalW precipPhaseW phases, reads := expand precipGlobalR precipPhaseR phases,
    resets := expandSlots precipGlobalReset precipPhaseReset phases }

/-- the sixteen recorded histories the property names -/
def histories : List String :=
  ["time", "temperature", "composition", "xEqAlpha", "xEqBeta", "drivingForce", "impingement", "Gcrit",
   "Rcrit", "nucRate", "precipitateDensity", "Rnuc", "Ravg", "ARavg", "volFrac", "fconc"]

/-- per phase: PBM min/max/bins, the size distribution, class boundaries, class sizes, aspect-ratio table -/
def phaseObservables : List String :=
  ["PBM.(min,max,bins)", "PBM.PSD", "PBM.PSDbounds", "PBM.PSDsize", "eqAspectRatio"]

/-- per phase: the recorded size-distribution history of `setPSDrecording` -/
def psdRecording : List String := ["PBM._recordedTime", "PBM._recordedBins", "PBM._recordedPSD"]

def precipObservables (phases : List String) : List String :=
  attributes.map ("pData." ++ ·) ++ phases.flatMap (fun ph => phaseObservables.map (· ++ "@" ++ ph))

/-- the generated ATTRIBUTES are the sixteen histories -/
theorem attributes_are_the_histories : attributes = histories := by decide

/-- **key coverage, precipitation**: every key `fromDict` reads is written by `toDict`, from the slot it is
read into (global lines and per-phase lines) -/
theorem precip_reads_covered :
    (∀ e ∈ precipGlobalR, covers precipGlobalW e = true) ∧ (∀ e ∈ precipPhaseR, covers precipPhaseW e = true) := by
  decide

/-- no two lines share a key; no per-phase key prefix is a prefix of another key -/
theorem precip_keys_ok :
    (precipGlobalW.map Entry.key).Nodup ∧ (precipPhaseW.map Entry.key).Nodup ∧
      prefixFree precipGlobalW precipPhaseW = true := by
  decide

/-- every history of ATTRIBUTES is written and read back into its own slot -/
theorem precip_histories_saved :
    ∀ a ∈ attributes, ("pData." ++ a) ∈ precipGlobalW.map Entry.slot ∧ ("pData." ++ a) ∈ precipGlobalR.map Entry.slot := by
  decide

/-- every per-phase observable is written and read back into its own slot -/
theorem precip_phase_observables_saved :
    ∀ o ∈ phaseObservables, o ∈ precipPhaseW.map Entry.slot ∧ o ∈ precipPhaseR.map Entry.slot := by
  decide

/-- all lines are mandatory and every line lands in a known slot -/
theorem precip_lines_known :
    (∀ e ∈ precipGlobalW ++ precipPhaseW ++ precipGlobalR ++ precipPhaseR,
      Entry.opt e = false ∧ Entry.slot e ≠ "?") := by
  decide

/-- the per-phase templates are what was recorded on the two-phase model -/
theorem precip_templates_match_recording :
    expand precipGlobalW precipPhaseW precipRecordedPhases = precipRecordedW ∧
    expand precipGlobalR precipPhaseR precipRecordedPhases = precipRecordedR := by
  decide

theorem precip_observable_read (phases : List String) (o : String) (ho : o ∈ precipObservables phases) :
    ∃ e ∈ (precipSpec phases).reads, e.slot = o := by
  unfold precipObservables at ho
  rcases List.mem_append.mp ho with h | h
  · obtain ⟨a, ha, rfl⟩ := List.mem_map.mp h
    obtain ⟨e, he, hs⟩ := List.mem_map.mp (precip_histories_saved a ha).2
    exact ⟨e, (mem_expand _ _ _ _).mpr (Or.inl he), hs⟩
  · simp only [List.mem_flatMap, List.mem_map] at h
    obtain ⟨ph, hph, o', ho', rfl⟩ := h
    obtain ⟨p, hp, hs⟩ := List.mem_map.mp (precip_phase_observables_saved o' ho').2
    refine ⟨(p.key ++ ph, p.slot ++ "@" ++ ph, p.opt), (mem_expand _ _ _ _).mpr (Or.inr ⟨ph, hph, p, hp, rfl⟩), ?_⟩
    change p.slot ++ "@" ++ ph = o' ++ "@" ++ ph
    rw [hs]

/-- **round trip, precipitation model**: for every list of distinct phase names (any number of phases),
every state whose saved slots hold arrays (any contents, any shapes, any number of recorded steps) and every
freshly constructed model `s0`:  `load (save s)` succeeds and every observable — the sixteen histories and,
per phase, PBM data, size distribution, boundaries, sizes and aspect-ratio table — is exactly what was saved. -/
theorem precip_roundtrip (phases : List String) (hph : phases.Nodup) (s s0 : State α)
    (hnn : ∀ w ∈ (precipSpec phases).writes, (s w.slot).isNone = false) :
    ∃ s', load (precipSpec phases) (save (precipSpec phases) s) s0 = .ok s' ∧
      ∀ o ∈ precipObservables phases, s' o = s o := by
  obtain ⟨hg, hp, hpf⟩ := precip_keys_ok
  obtain ⟨s', h1, h2, _⟩ := roundtrip (precipSpec phases)
    (expand_keys_nodup _ _ _ hg hp hpf hph)
    (covers_expand _ _ _ _ _ precip_reads_covered.1 precip_reads_covered.2) s s0 (fun w hw _ => hnn w hw)
  refine ⟨s', h1, fun o ho => ?_⟩
  obtain ⟨e, he, rfl⟩ := precip_observable_read phases o ho
  exact h2 e he

/-- **finding F-C20-psdrec, on the generated tables**: no `toDict` / `fromDict` line touches the recorded
size-distribution history, and `fromDict` resets it (it replaces the PopulationBalanceModel objects) -/
theorem psd_recording_not_in_tables :
    ∀ o ∈ psdRecording, o ∉ precipPhaseW.map Entry.slot ∧ o ∉ precipPhaseR.map Entry.slot ∧
      o ∉ precipGlobalW.map Entry.slot ∧ o ∉ precipGlobalR.map Entry.slot ∧ o ∈ precipPhaseReset := by
  decide

/-- the only slots `fromDict` resets are the recorded size-distribution history; none of them is also read -/
theorem precip_resets_are_the_recording :
    precipGlobalReset = [] ∧ (∀ r ∈ precipPhaseReset, r ∈ psdRecording ∧ r ∉ precipPhaseR.map Entry.slot) := by
  decide

theorem at_injective (a b ph : String) (h : a ++ "@" ++ ph = b ++ "@" ++ ph) : a = b := by
  have := append_right_inj_str _ _ _ h
  exact append_right_inj_str _ _ _ this

/-- … hence a reloaded model does NOT reproduce the recorded size-distribution history: after
`load (save s)` these slots hold `None`, whatever was recorded and whatever the freshly constructed model
held.  The excluded observables are visible here; `precip_roundtrip` is the partial theorem without them. -/
theorem psd_recording_lost (ph : String) (s s0 : State α)
    (hnn : ∀ w ∈ (precipSpec [ph]).writes, (s w.slot).isNone = false) :
    ∃ s', load (precipSpec [ph]) (save (precipSpec [ph]) s) s0 = .ok s' ∧
      ∀ o ∈ psdRecording, s' (o ++ "@" ++ ph) = Val.none := by
  obtain ⟨hg, hp, hpf⟩ := precip_keys_ok
  obtain ⟨s', h1, _, h3⟩ := roundtrip (precipSpec [ph])
    (expand_keys_nodup _ _ _ hg hp hpf (by simp))
    (covers_expand _ _ _ _ _ precip_reads_covered.1 precip_reads_covered.2) s s0 (fun w hw _ => hnn w hw)
  refine ⟨s', h1, fun o ho => ?_⟩
  have hreset : (o ++ "@" ++ ph) ∈ (precipSpec [ph]).resets := by
    unfold precipSpec expandSlots
    simp only [List.mem_append, List.mem_flatMap, List.mem_map, List.mem_singleton]
    exact Or.inr ⟨ph, rfl, o, (psd_recording_not_in_tables o ho).2.2.2.2, rfl⟩
  rw [h3 _ ?_]
  · simp [applyResets, hreset]
  intro e he hs
  rcases (mem_expand _ _ _ _).mp he with h | ⟨ph', hph', p, hp', rfl⟩
  · -- a global slot never carries a phase suffix: all of them are in the generated list, decide
    have hmem : e.slot ∈ precipGlobalR.map Entry.slot := List.mem_map_of_mem h
    have hall : ∀ g ∈ precipGlobalR.map Entry.slot, '@' ∉ g.toList := by decide
    apply hall _ hmem
    rw [hs]
    simp [String.toList_append]
  · simp only [List.mem_singleton] at hph'
    subst hph'
    have : p.slot = o := at_injective _ _ _ hs
    exact (psd_recording_not_in_tables o ho).2.1 (this ▸ List.mem_map_of_mem hp')

/-! ### the diffusion model (tables generated from Diffusion.py) -/

def diffSpec : Spec := { writes := diffW, reads := diffR, resets := diffReset }

def diffObservables : List String := ["t", "x", "_recordedX", "_recordedTime"]

/-- **key coverage, diffusion**: every key read is written from the same slot; keys distinct; current time,
current profile and the recorded arrays are all written and read -/
theorem diff_tables_ok :
    (∀ e ∈ diffR, covers diffW e = true) ∧ (diffW.map Entry.key).Nodup ∧
    (∀ o ∈ diffObservables, o ∈ diffW.map Entry.slot ∧ o ∈ diffR.map Entry.slot) ∧ diffReset = [] := by
  decide

/-- the lines for the recorded arrays (which are `None` when recording is off) can be skipped; the current
time and profile are always saved -/
theorem diff_recording_lines_optional :
    ∀ w ∈ diffW, Entry.opt w = false → Entry.slot w = "t" ∨ Entry.slot w = "x" := by
  decide

/-- **round trip, diffusion model, whatever the recording options**: the current time and profile are always
arrays; the recorded arrays may be arrays (recording on) or `None` (recording off, or data removed) — in
every case the saved file loads and all four observables come back exactly, `None` as `None`. -/
theorem diff_roundtrip_any_recording (s s0 : State α)
    (ht : (s "t").isNone = false) (hx : (s "x").isNone = false) :
    ∃ s', load diffSpec (save diffSpec s) s0 = .ok s' ∧ ∀ o ∈ diffObservables, s' o = s o := by
  obtain ⟨hc, hk, hobs, _⟩ := diff_tables_ok
  obtain ⟨s', h1, h2, _⟩ := roundtrip diffSpec hk hc s s0 (by
    intro w hw ho
    rcases diff_recording_lines_optional w hw ho with h | h
    · rw [h]; exact ht
    · rw [h]; exact hx)
  refine ⟨s', h1, fun o ho => ?_⟩
  obtain ⟨e, he, hs⟩ := List.mem_map.mp (hobs o ho).2
  exact hs ▸ h2 e he

/-- the table of the code BEFORE the repair recorded in known_findings.txt (D-C20-none): all four lines
mandatory -/
def diffUnrepaired : Spec :=
  { writes := [("finalTime", "t", false), ("finalX", "x", false), ("recordX", "_recordedX", false),
               ("recordTime", "_recordedTime", false)],
    reads := [("finalTime", "t", false), ("finalX", "x", false), ("recordX", "_recordedX", false),
              ("recordTime", "_recordedTime", false)] }

/-- a model constructed with `record=False` -/
def recordOff : State Nat := fun slot =>
  if slot = "t" then .arr [] [7200] else if slot = "x" then .arr [1, 3] [1, 2, 3] else .none

/-- … with that table a model with recording off saves `None` and the file cannot be loaded -/
theorem diff_unrepaired_fails (s0 : State Nat) :
    load diffUnrepaired (save diffUnrepaired recordOff) s0 = .error .objectArray := by
  unfold load
  have : npzLoad (save diffUnrepaired recordOff) = .error .objectArray :=
    npzLoad_none _ "recordX" (by
      simp [save, npzSave, toDict, diffUnrepaired, writeStep, skipped, Entry.opt, Entry.key, Entry.slot,
        recordOff, Dict.get?])
  rw [this]; rfl

/-! ### untrained surrogates -/

/-- **untrained pass-through**: every public getter of an untrained surrogate has an entry, calls the
thermodynamics method of the SAME name, exactly once, handing its arguments and the result through unchanged -/
theorem binary_untrained_same_quantity :
    (∀ p ∈ binaryFallthrough, p.1 = p.2) ∧ (∀ g ∈ binaryGetters, g ∈ binaryFallthrough.map (·.1)) ∧
    (∀ p ∈ binaryPassThrough, p.2 = true) ∧ (∀ g ∈ binaryGetters, g ∈ binaryPassThrough.map (·.1)) := by
  decide

theorem multi_untrained_same_quantity :
    (∀ p ∈ multiFallthrough, p.1 = p.2) ∧ (∀ g ∈ multiGetters, g ∈ multiFallthrough.map (·.1)) ∧
    (∀ p ∈ multiPassThrough, p.2 = true) ∧ (∀ g ∈ multiGetters, g ∈ multiPassThrough.map (·.1)) := by
  decide

/-- the quantities the property talks about all have a getter -/
theorem surrogate_getters_present :
    (∀ g ∈ ["getDrivingForce", "getInterdiffusivity", "getTracerDiffusivity", "getInterfacialComposition"],
        g ∈ binaryGetters) ∧
    (∀ g ∈ ["getDrivingForce", "getInterdiffusivity", "getTracerDiffusivity", "curvatureFactor",
            "getGrowthAndInterfacialComposition", "impingementFactor"], g ∈ multiGetters) := by
  decide

section forwarding
open KawinV.Forward

/-! ### untrained surrogates: every argument of the caller reaches the thermodynamics method -/

/-- what a row of the generated forwarding table has to satisfy: the thermodynamics method of the same name; every
named parameter handed on (by position or under its own name), every further keyword handed on; and the model of the
forwarding line, run on the canonical calls (all keywords, each keyword alone, all positional, named positional +
keywords), delivers every argument under its own name -/
def rowOk (r : Row) : Bool :=
  let g := Getter.ofRow r
  let d : String → String := fun _ => "?"
  r.1 == g.target &&
  g.named.all (fun e => e.2 == How.pos || e.2 == How.kw) &&
  g.extras.all (fun e => e.2 == How.kw) &&
  faithfulOn g d (kwCall g) && faithfulOn g d (posCall g) && faithfulOn g d (mixedCall g) &&
  g.order.all (fun n => faithfulOn g d { pos := [], kw := [(n, n)] })

theorem untrained_forwards_all_arguments :
    (∀ r ∈ binaryForwarding, rowOk r = true) ∧ (∀ r ∈ multiForwarding, rowOk r = true) ∧
    (∀ g ∈ binaryGetters, g ∈ binaryForwarding.map (·.1)) ∧ (∀ g ∈ multiGetters, g ∈ multiForwarding.map (·.1)) := by
  decide

/-! #### the broken variants, on concrete calls -/

/-- `getGrowthAndInterfacialComposition` with the precipitate phase left out of the forwarding line -/
def growthDropped : Getter :=
  { target := "getGrowthAndInterfacialComposition", star := true,
    named := [("x", .pos), ("T", .pos), ("dG", .pos), ("R", .pos), ("gExtra", .pos), ("precPhase", .drop)],
    extras := [("removeCache", .kw), ("searchDir", .kw)],
    tsig := ["x", "T", "dG", "R", "gExtra", "precPhase", "removeCache", "searchDir"] }

/-- … a query for the THIRD phase reaches the thermodynamics without a phase: the method falls back to its default,
the first precipitate phase, and the surrogate answers with the growth rate of another phase -/
theorem dropped_phase_not_received :
    received growthDropped (fun _ => 0) { pos := [1, 2, 3, 4, 5], kw := [("precPhase", 3), ("removeCache", 1)] }
      = .ok [("x", 1), ("T", 2), ("dG", 3), ("R", 4), ("gExtra", 5), ("removeCache", 1)] ∧
    faithfulOn growthDropped (fun _ => 0) { pos := [1, 2, 3, 4, 5], kw := [("precPhase", 3), ("removeCache", 1)] } = false := by
  decide

/-- the same row does not pass the table obligation -/
theorem dropped_phase_row_rejected :
    rowOk ("getGrowthAndInterfacialComposition", "getGrowthAndInterfacialComposition", true,
      [("x", "pos"), ("T", "pos"), ("dG", "pos"), ("R", "pos"), ("gExtra", "pos"), ("precPhase", "drop")],
      [("removeCache", "kw"), ("searchDir", "kw")],
      ["x", "T", "dG", "R", "gExtra", "precPhase", "removeCache", "searchDir"]) = false := by
  decide

/-- `getDrivingForce` as it was before e476a9c: the phase by keyword, then `*args` -/
def drivingForceUnrepaired : Getter :=
  { target := "getDrivingForce", star := true,
    named := [("x", .pos), ("T", .pos), ("precPhase", .kw)],
    extras := [("removeCache", .kw), ("local_phase_sampling_conditions", .kw)],
    tsig := ["x", "T", "precPhase", "removeCache", "local_phase_sampling_conditions"] }

/-- … `getDrivingForce(x, T, phase, True)`: the flag lands in the slot of the phase, Python raises
"got multiple values for argument 'precPhase'" -/
theorem unrepaired_positional_collides :
    received drivingForceUnrepaired (fun _ => 0) { pos := [1, 2, 3, 4], kw := [] } = .error (.multiple "precPhase") := by
  decide

/-- … while keyword calls were already handed on correctly -/
example : faithfulOn drivingForceUnrepaired (fun _ => 0) { pos := [1, 2], kw := [("removeCache", 4), ("precPhase", 3)] } = true := by
  decide

/-! #### for every call -/
section forward_calls
variable {β : Type}

theorem lookup_append_of_not_mem (a b : List (String × β)) (k : String) (h : k ∉ a.map (·.1)) :
    lookup (a ++ b) k = lookup b k := by
  induction a with
  | nil => rfl
  | cons x r ih =>
    obtain ⟨k', v⟩ := x
    simp only [List.map_cons, List.mem_cons, not_or] at h
    have h1 : ¬ k' = k := fun e => h.1 e.symm
    simp only [List.cons_append, lookup, if_neg h1]
    exact ih h.2

theorem lookup_append_of_some (a b : List (String × β)) (k : String) (v : β) (h : lookup a k = some v) :
    lookup (a ++ b) k = some v := by
  induction a with
  | nil => simp [lookup] at h
  | cons x r ih =>
    obtain ⟨k', w⟩ := x
    simp only [List.cons_append, lookup] at h ⊢
    split
    · next hk => simpa [hk] using h
    · next hk => simp only [hk, if_false] at h; exact ih h

theorem lookup_some_mem (l : List (String × β)) (k : String) (v : β) (h : lookup l k = some v) : (k, v) ∈ l := by
  induction l with
  | nil => simp [lookup] at h
  | cons x r ih =>
    obtain ⟨k', w⟩ := x
    simp only [lookup] at h
    split at h
    · next hk => cases h; subst hk; simp
    · exact List.mem_cons_of_mem _ (ih h)

theorem lookup_of_mem_nodup (l : List (String × β)) (k : String) (v : β) (hn : (l.map (·.1)).Nodup)
    (h : (k, v) ∈ l) : lookup l k = some v := by
  induction l with
  | nil => simp at h
  | cons x r ih =>
    obtain ⟨k', w⟩ := x
    simp only [List.map_cons, List.nodup_cons] at hn
    simp only [List.mem_cons, Prod.mk.injEq] at h
    simp only [lookup]
    rcases h with ⟨rfl, rfl⟩ | h
    · simp
    · have : k' ≠ k := by
        rintro rfl
        exact hn.1 (List.mem_map.mpr ⟨(k', v), h, rfl⟩)
      simp only [this, if_false]
      exact ih hn.2 h

theorem lookup_filter (l : List (String × β)) (q : String → Bool) (k : String) (hq : q k = true) :
    lookup (l.filter (fun e => q e.1)) k = lookup l k := by
  induction l with
  | nil => rfl
  | cons x r ih =>
    obtain ⟨k', w⟩ := x
    by_cases hk : k' = k
    · subst hk; simp [List.filter, hq, lookup]
    · cases hqk : q k' with
      | true => simp [List.filter, hqk, lookup, hk, ih]
      | false => simp [List.filter, hqk, lookup, hk, ih]

/-- splitting the parameter list splits the positional arguments -/
theorem namedVals_append (d : String → β) (kw : List (String × β)) (A B : List (String × How)) (vs : List β) :
    namedVals d kw (A ++ B) vs = namedVals d kw A vs ++ namedVals d kw B (vs.drop A.length) := by
  induction A generalizing vs with
  | nil => simp [namedVals]
  | cons a A ih =>
    obtain ⟨n, h⟩ := a
    cases vs with
    | nil => simpa [namedVals] using ih []
    | cons v vs => simpa [namedVals] using ih vs

theorem namedVals_hows (d : String → β) (kw : List (String × β)) (L : List (String × How)) (vs : List β) :
    (namedVals d kw L vs).map (fun e => (e.1, e.2.1)) = L := by
  induction L generalizing vs with
  | nil => simp [namedVals]
  | cons a L ih =>
    obtain ⟨n, h⟩ := a
    cases vs with
    | nil => simp [namedVals, ih]
    | cons v vs => simp [namedVals, ih]

theorem namedVals_keys (d : String → β) (kw : List (String × β)) (L : List (String × How)) (vs : List β) :
    ((namedVals d kw L vs).map (fun e => (e.1, e.2.2))).map (·.1) = L.map (·.1) := by
  have h := congrArg (List.map (·.1)) (namedVals_hows d kw L vs)
  rw [List.map_map] at h ⊢
  exact h

theorem namedVals_how_mem (d : String → β) (kw : List (String × β)) (L : List (String × How)) (vs : List β)
    (e : String × How × β) (he : e ∈ namedVals d kw L vs) : (e.1, e.2.1) ∈ L := by
  have h := namedVals_hows d kw L vs
  rw [← h]
  exact List.mem_map.mpr ⟨e, he, rfl⟩

/-- a parameter not given by position holds its keyword (or its default) -/
theorem namedVals_lookup_kw (d : String → β) (kw : List (String × β)) (L : List (String × How)) (vs : List β) (k : String)
    (hk : k ∈ L.map (·.1)) (hnot : k ∉ (L.map (·.1)).take vs.length) :
    lookup ((namedVals d kw L vs).map (fun e => (e.1, e.2.2))) k = some ((lookup kw k).getD (d k)) := by
  induction L generalizing vs with
  | nil => simp at hk
  | cons a L ih =>
    obtain ⟨n, h⟩ := a
    cases vs with
    | nil =>
      simp only [namedVals, List.map_cons, lookup]
      split
      · next hn => subst hn; rfl
      · next hn =>
        simp only [List.map_cons, List.mem_cons] at hk
        rcases hk with rfl | hk
        · exact absurd rfl hn
        · exact ih [] hk (by simp)
    | cons v vs =>
      simp only [List.map_cons, List.length_cons, List.take_succ_cons, List.mem_cons, not_or] at hnot
      simp only [List.map_cons, List.mem_cons] at hk
      have hn : ¬ n = k := fun e => hnot.1 e.symm
      simp only [namedVals, List.map_cons, lookup, if_neg hn]
      rcases hk with rfl | hk
      · exact absurd rfl hn
      · exact ih vs hk hnot.2

/-- a parameter given by position holds that argument -/
theorem namedVals_lookup_pos (d : String → β) (kw : List (String × β)) (L : List (String × How)) (vs : List β)
    (n : String) (v : β) (hnd : (L.map (·.1)).Nodup) (h : (n, v) ∈ (L.map (·.1)).zip vs) :
    lookup ((namedVals d kw L vs).map (fun e => (e.1, e.2.2))) n = some v := by
  induction L generalizing vs with
  | nil => simp at h
  | cons a L ih =>
    obtain ⟨m, hw⟩ := a
    cases vs with
    | nil => simp at h
    | cons w vs =>
      simp only [List.map_cons, List.nodup_cons] at hnd
      simp only [List.map_cons, List.zip_cons_cons, List.mem_cons, Prod.mk.injEq] at h
      simp only [namedVals, List.map_cons, lookup]
      rcases h with ⟨rfl, rfl⟩ | h
      · simp
      · have hm : m ≠ n := by
          rintro rfl
          exact hnd.1 (List.of_mem_zip h).1
        simp only [hm, if_false]
        exact ih vs hnd.2 h

theorem bindPos_keys (l : List (String × How × β)) (rest : List String) :
    bindPos (l.map (·.1) ++ rest) (l.map (fun e => e.2.2)) = some (l.map (fun e => (e.1, e.2.2))) := by
  induction l with
  | nil => cases rest <;> rfl
  | cons a l ih =>
    simp only [List.map_cons, List.cons_append, bindPos, ih, Option.map_some]

theorem checkS_none_multiple (g : Getter) (c : Call β) (h : checkS g c = none) :
    ∀ e ∈ c.kw, e.1 ∉ g.names.take c.pos.length := by
  unfold checkS at h
  split at h
  · cases h
  · split at h
    · cases h
    · next hf =>
      intro e he hmem
      have := List.find?_eq_none.mp hf e he
      simp only [List.contains_iff_mem, Bool.not_eq_true, decide_eq_false_iff_not] at this
      exact this hmem

/-- **every argument is handed on, for every call** (`_partial`: positional arguments for the getter's own parameters
only — `hpos`; extra positional arguments travel through `*args` and are covered per getter by
`untrained_forwards_all_arguments`; the unrepaired line fails exactly there, `unrepaired_positional_collides`).

A getter whose forwarding line hands the parameters `Pn` on by position — they are the leading parameters of the
thermodynamics method — and the parameters `Kn` under their own names, and drops no further keyword: whenever the
thermodynamics method accepts the forwarded call, it has received every keyword of the caller and every positional
argument of the caller under the name of the parameter it was given for, with the caller's value. -/
theorem forward_faithful_partial (g : Getter) (Pn Kn rest : List String) (d : String → β) (c : Call β)
    (r : List (String × β))
    (hN : g.named = Pn.map (fun n => (n, How.pos)) ++ Kn.map (fun n => (n, How.kw)))
    (hT : g.tsig = Pn ++ rest)
    (hE : ∀ e ∈ g.extras, e.2 = How.kw)
    (hnd : (Pn ++ Kn).Nodup)
    (hpos : c.pos.length ≤ g.named.length)
    (hkw : (c.kw.map (·.1)).Nodup)
    (hr : received g d c = .ok r) :
    (∀ k v, (k, v) ∈ c.kw → lookup r k = some v) ∧
    (∀ n v, (n, v) ∈ Pn.zip c.pos → lookup r n = some v) ∧
    (∀ n v, (n, v) ∈ Kn.zip (c.pos.drop Pn.length) → lookup r n = some v) := by
  -- the two halves of the parameter list
  set LP : List (String × How) := Pn.map (fun n => (n, How.pos)) with hLP
  set LK : List (String × How) := Kn.map (fun n => (n, How.kw)) with hLK
  have hLPk : LP.map (·.1) = Pn := by rw [hLP, List.map_map]; exact List.map_id' Pn
  have hLKk : LK.map (·.1) = Kn := by rw [hLK, List.map_map]; exact List.map_id' Kn
  have hLPlen : LP.length = Pn.length := by simp [hLP]
  have hnames : g.names = Pn ++ Kn := by simp [Getter.names, hN, hLPk, hLKk]
  have hndP : Pn.Nodup := (List.nodup_append.mp hnd).1
  have hndK : Kn.Nodup := (List.nodup_append.mp hnd).2.1
  have hdisj : ∀ k, k ∈ Pn → k ∉ Kn := fun k hp hk => (List.nodup_append.mp hnd).2.2 k hp k hk rfl
  -- invert `received`
  unfold received at hr
  split at hr
  · cases hr
  next f hf =>
  unfold forward at hf
  split at hf
  · cases hf
  next hc =>
  have hmult := checkS_none_multiple g c hc
  simp only [Except.ok.injEq] at hf
  -- the values of the named parameters
  have hnv : namedVals d c.kw g.named c.pos
      = namedVals d c.kw LP c.pos ++ namedVals d c.kw LK (c.pos.drop Pn.length) := by
    rw [hN, namedVals_append, hLPlen]
  set nvP := namedVals d c.kw LP c.pos with hnvP
  set nvK := namedVals d c.kw LK (c.pos.drop Pn.length) with hnvK
  have hPpos : ∀ e ∈ nvP, e.2.1 = How.pos := by
    intro e he
    have := namedVals_how_mem d c.kw LP c.pos e he
    simp only [hLP, List.mem_map, Prod.mk.injEq] at this
    obtain ⟨_, _, _, h2⟩ := this
    exact h2.symm
  have hKkw : ∀ e ∈ nvK, e.2.1 = How.kw := by
    intro e he
    have := namedVals_how_mem d c.kw LK _ e he
    simp only [hLK, List.mem_map, Prod.mk.injEq] at this
    obtain ⟨_, _, _, h2⟩ := this
    exact h2.symm
  have hfP : (nvP ++ nvK).filter (fun e => e.2.1 == How.pos) = nvP := by
    rw [List.filter_append, List.filter_eq_self.mpr (fun e he => by simp [hPpos e he]),
      List.filter_eq_nil_iff.mpr (fun e he => by simp [hKkw e he]), List.append_nil]
  have hfK : (nvP ++ nvK).filter (fun e => e.2.1 == How.kw) = nvK := by
    rw [List.filter_append, List.filter_eq_nil_iff.mpr (fun e he => by simp [hPpos e he]),
      List.filter_eq_self.mpr (fun e he => by simp [hKkw e he]), List.nil_append]
  have hargs : c.pos.drop g.named.length = [] := List.drop_eq_nil_of_le hpos
  rw [hnv, hfP, hfK, hargs, List.append_nil] at hf
  subst hf
  -- invert `bindT`
  unfold bindT at hr
  simp only at hr
  have hbp : bindPos g.tsig (nvP.map (fun e => e.2.2)) = some (nvP.map (fun e => (e.1, e.2.2))) := by
    have hk : nvP.map (·.1) = Pn := by
      have := namedVals_keys d c.kw LP c.pos
      rw [List.map_map] at this
      rw [← hLPk, ← this]; rfl
    rw [hT, ← hk]
    exact bindPos_keys nvP rest
  rw [hbp] at hr
  simp only at hr
  split at hr
  · cases hr
  split at hr
  · cases hr
  simp only [Except.ok.injEq] at hr
  subst hr
  -- keys of the two blocks
  set A1 := nvP.map (fun e => (e.1, e.2.2)) with hA1
  set A2 := nvK.map (fun e => (e.1, e.2.2)) with hA2
  have hA1k : A1.map (·.1) = Pn := by rw [hA1, hnvP, namedVals_keys, hLPk]
  have hA2k : A2.map (·.1) = Kn := by rw [hA2, hnvK, namedVals_keys, hLKk]
  refine ⟨?_, ?_, ?_⟩
  · intro k v hkv
    have hlk : lookup c.kw k = some v := lookup_of_mem_nodup c.kw k v hkw hkv
    have hnotpos : k ∉ (Pn ++ Kn).take c.pos.length := by
      have := hmult (k, v) hkv
      rwa [hnames] at this
    rw [List.take_append] at hnotpos
    simp only [List.mem_append, not_or] at hnotpos
    by_cases hP : k ∈ Pn
    · apply lookup_append_of_some
      have := namedVals_lookup_kw d c.kw LP c.pos k (by rw [hLPk]; exact hP) (by rw [hLPk]; exact hnotpos.1)
      rw [hlk] at this
      simpa using this
    · rw [lookup_append_of_not_mem _ _ _ (by rw [hA1k]; exact hP)]
      by_cases hK : k ∈ Kn
      · apply lookup_append_of_some
        have := namedVals_lookup_kw d c.kw LK (c.pos.drop Pn.length) k (by rw [hLKk]; exact hK)
          (by rw [hLKk, List.length_drop]; exact hnotpos.2)
        rw [hlk] at this
        simpa using this
      · rw [lookup_append_of_not_mem _ _ _ (by rw [hA2k]; exact hK)]
        rw [lookup_filter c.kw (fun k => !g.names.contains k && howOf g.extras k == How.kw) k ?_]
        · exact hlk
        · have h1 : g.names.contains k = false := by
            rw [hnames]; simp [hP, hK]
          have h2 : howOf g.extras k = How.kw := by
            unfold howOf
            cases hl : lookup g.extras k with
            | none => rfl
            | some h => exact hE _ (lookup_some_mem _ _ _ hl)
          show (!g.names.contains k && howOf g.extras k == How.kw) = true
          rw [h1, h2]; rfl
  · intro n v hnv'
    apply lookup_append_of_some
    exact namedVals_lookup_pos d c.kw LP c.pos n v (by rw [hLPk]; exact hndP) (by rw [hLPk]; exact hnv')
  · intro n v hnv'
    have hnK : n ∈ Kn := (List.of_mem_zip hnv').1
    have hnP : n ∉ Pn := fun hp => hdisj n hp hnK
    rw [lookup_append_of_not_mem _ _ _ (by rw [hA1k]; exact hnP)]
    apply lookup_append_of_some
    exact namedVals_lookup_pos d c.kw LK _ n v (by rw [hLKk]; exact hndK) (by rw [hLKk]; exact hnv')

/-! #### … applied to every getter of the generated table -/

def posNames (g : Getter) : List String := (g.named.takeWhile (fun e => e.2 == How.pos)).map (·.1)
def kwNames (g : Getter) : List String := (g.named.dropWhile (fun e => e.2 == How.pos)).map (·.1)

/-- the shape `forward_faithful_partial` asks for, as a check that can be run on a row -/
def shapeOk (g : Getter) : Bool :=
  (g.named.dropWhile (fun e => e.2 == How.pos)).all (fun e => e.2 == How.kw) &&
  g.extras.all (fun e => e.2 == How.kw) &&
  decide g.names.Nodup &&
  (g.tsig.take (posNames g).length == posNames g)

theorem map_pair_const (L : List (String × How)) (h : How) (hL : ∀ e ∈ L, e.2 = h) :
    L = (L.map (·.1)).map (fun n => (n, h)) := by
  induction L with
  | nil => rfl
  | cons a L ih =>
    obtain ⟨n, w⟩ := a
    have hw : w = h := hL (n, w) (by simp)
    subst hw
    simp only [List.map_cons, List.cons.injEq, true_and]
    exact ih (fun e he => hL e (List.mem_cons_of_mem _ he))

theorem mem_takeWhile_sat {γ : Type} (p : γ → Bool) (l : List γ) (e : γ) (he : e ∈ l.takeWhile p) : p e = true := by
  induction l with
  | nil => simp at he
  | cons a l ih =>
    simp only [List.takeWhile] at he
    split at he
    · next hp =>
      simp only [List.mem_cons] at he
      rcases he with rfl | he
      · exact hp
      · exact ih he
    · simp at he

theorem shapeOk_decomp (g : Getter) (h : shapeOk g = true) :
    g.named = (posNames g).map (fun n => (n, How.pos)) ++ (kwNames g).map (fun n => (n, How.kw)) ∧
    g.tsig = posNames g ++ g.tsig.drop (posNames g).length ∧
    (∀ e ∈ g.extras, e.2 = How.kw) ∧ (posNames g ++ kwNames g).Nodup := by
  unfold shapeOk at h
  simp only [Bool.and_eq_true, List.all_eq_true, beq_iff_eq, decide_eq_true_eq] at h
  obtain ⟨⟨⟨h1, h2⟩, h3⟩, h4⟩ := h
  have hP : ∀ e ∈ g.named.takeWhile (fun e => e.2 == How.pos), e.2 = How.pos := by
    intro e he
    simpa using mem_takeWhile_sat _ _ e he
  refine ⟨?_, ?_, h2, ?_⟩
  · conv => lhs; rw [← List.takeWhile_append_dropWhile (p := fun e => e.2 == How.pos) (l := g.named)]
    unfold posNames kwNames
    rw [← map_pair_const _ _ hP, ← map_pair_const _ _ h1]
  · conv => lhs; rw [← List.take_append_drop (posNames g).length g.tsig]
    rw [h4]
  · unfold posNames kwNames
    rw [← List.map_append, List.takeWhile_append_dropWhile]
    exact h3

/-- every getter of both surrogate classes, as the running code forwards today, has that shape -/
theorem table_getters_shape :
    (∀ r ∈ binaryForwarding, shapeOk (Getter.ofRow r) = true) ∧ (∀ r ∈ multiForwarding, shapeOk (Getter.ofRow r) = true) := by
  decide

/-- **untrained pass-through with all arguments**: for every getter of `BinarySurrogate` / `MulticomponentSurrogate`
(generated rows), every call with distinct keywords and positional arguments for the getter's own parameters: if the
thermodynamics method accepts the forwarded call, it has received every keyword argument of the caller — phase,
`removeCache`, `searchDir`, … — with the caller's value. -/
theorem untrained_getters_hand_on_every_keyword (r : Row) (hr : r ∈ binaryForwarding ∨ r ∈ multiForwarding)
    (d : String → β) (c : Call β) (res : List (String × β))
    (hpos : c.pos.length ≤ (Getter.ofRow r).named.length) (hkw : (c.kw.map (·.1)).Nodup)
    (hres : received (Getter.ofRow r) d c = .ok res) :
    ∀ k v, (k, v) ∈ c.kw → lookup res k = some v := by
  have hs : shapeOk (Getter.ofRow r) = true := by
    rcases hr with hr | hr
    · exact table_getters_shape.1 r hr
    · exact table_getters_shape.2 r hr
  obtain ⟨h1, h2, h3, h4⟩ := shapeOk_decomp _ hs
  exact (forward_faithful_partial (Getter.ofRow r) _ _ _ d c res h1 h2 h3 h4 hpos hkw hres).1

/-- non-vacuity: a call of the generated `getGrowthAndInterfacialComposition` row that meets the hypotheses of
`untrained_getters_hand_on_every_keyword` and is accepted; the phase arrives -/
example : ∀ r ∈ multiForwarding, r.1 = "getGrowthAndInterfacialComposition" →
    (match received (Getter.ofRow r) (fun _ => 0) { pos := [1, 2, 3, 4, 5], kw := [("precPhase", 7), ("removeCache", 1)] } with
      | .ok res => lookup res "precPhase" == some 7 && lookup res "removeCache" == some 1
      | .error _ => false) = true := by
  decide

example : "getGrowthAndInterfacialComposition" ∈ multiForwarding.map (·.1) := by decide

end forward_calls

end forwarding

/-! ### JSON layer -/

theorem chunks_length (m n : Nat) (d : List α) : (chunks m n d).length = n := by
  induction n generalizing d with
  | zero => rfl
  | succ n ih => simp [chunks, ih]

theorem chunks_flatten (m n : Nat) (d : List α) : (chunks m n d).flatten = d.take (n * m) := by
  induction n generalizing d with
  | zero => simp [chunks]
  | succ n ih =>
    simp only [chunks, List.flatten_cons, ih]
    rw [Nat.succ_mul, Nat.add_comm, List.take_add]

theorem chunks_mem_length (m n : Nat) (d : List α) (h : d.length = n * m) :
    ∀ c ∈ chunks m n d, c.length = m := by
  induction n generalizing d with
  | zero => simp [chunks]
  | succ n ih =>
    intro c hc
    simp only [chunks, List.mem_cons] at hc
    have hlen : m ≤ d.length := by rw [h, Nat.succ_mul]; exact Nat.le_add_left _ _
    rcases hc with rfl | hc
    · simp [List.length_take, hlen]
    · exact ih (d.drop m) (by simp [List.length_drop, h, Nat.succ_mul]) c hc

theorem flatten_map_tolist [Inhabited α] (sh : List Nat)
    (ih : ∀ d : List α, d.length = prod sh → flatten sh.length (tolist sh d) = d)
    (L : List (List α)) (hL : ∀ c ∈ L, c.length = prod sh) :
    List.flatMap (flatten sh.length) (L.map (tolist sh)) = L.flatten := by
  induction L with
  | nil => rfl
  | cons c L ihL =>
    simp only [List.map_cons, List.flatMap_cons, List.flatten_cons]
    rw [ih c (hL c (by simp)), ihL (fun c' hc' => hL c' (List.mem_cons_of_mem _ hc'))]

/-- `np.array(a.tolist())` has the data of `a` … -/
theorem flatten_tolist [Inhabited α] (sh : List Nat) (d : List α) (h : d.length = prod sh) :
    flatten sh.length (tolist sh d) = d := by
  induction sh generalizing d with
  | nil =>
    match d, h with
    | [x], _ => rfl
  | cons n sh ih =>
    have h' : d.length = n * prod sh := h
    show List.flatMap (flatten sh.length) ((chunks (prod sh) n d).map (tolist sh)) = d
    rw [flatten_map_tolist sh ih _ (chunks_mem_length _ _ _ h'), chunks_flatten, ← h']
    exact List.take_length

theorem shapeOf_succ (k : Nat) (xs : List (Nest α k)) :
    shapeOf (k+1) xs = List.length xs :: (match xs with | [] => [] | x :: _ => shapeOf k x) := rfl

/-- … and, when no axis is empty, the shape of `a` -/
theorem shapeOf_tolist [Inhabited α] (sh : List Nat) (d : List α) (h : d.length = prod sh)
    (hpos : ∀ n ∈ sh, 0 < n) : shapeOf sh.length (tolist sh d) = sh := by
  induction sh generalizing d with
  | nil => rfl
  | cons n sh ih =>
    have h' : d.length = n * prod sh := h
    have hn : 0 < n := hpos n (by simp)
    obtain ⟨n', rfl⟩ : ∃ n', n = n' + 1 := ⟨n - 1, by omega⟩
    have hlen : prod sh ≤ d.length := by rw [h', Nat.succ_mul]; exact Nat.le_add_left _ _
    have ih' := ih (d.take (prod sh)) (by simp [List.length_take, hlen])
      (fun m hm => hpos m (List.mem_cons_of_mem _ hm))
    show shapeOf (sh.length + 1) ((chunks (prod sh) (n'+1) d).map (tolist sh)) = (n'+1) :: sh
    rw [shapeOf_succ]
    simp only [chunks, List.map_cons, List.length_cons, List.length_map, chunks_length]
    rw [ih']

/-- **JSON round trip, one entry**: a well-formed array of any rank (and a flag) comes back unchanged -/
theorem json_roundtrip_field [Inhabited α] (f : Field α) (h : f.wf) : decodeField (encodeField f) = f := by
  cases f with
  | flag b => rfl
  | array sh d =>
    obtain ⟨h1, h2⟩ := h
    simp only [encodeField, decodeField, flatten_tolist sh d h1, shapeOf_tolist sh d h1 h2]

/-- **JSON round trip**: `fromJson (toJson d) = d` for every data dictionary of well-formed entries -/
theorem json_roundtrip [Inhabited α] (d : DataDict α) (h : ∀ e ∈ d, e.2.wf) : fromJson (toJson d) = d := by
  unfold fromJson toJson
  rw [List.map_map]
  conv => rhs; rw [← List.map_id d]
  apply List.map_congr_left
  intro e he
  obtain ⟨k, f⟩ := e
  simp only [Function.comp, id]
  rw [json_roundtrip_field f (h _ he)]

/-- the hypothesis "no empty axis" is needed: an array of shape (0, 3) comes back with shape (0,) -/
example : decodeField (encodeField (Field.array [0, 3] ([] : List Nat))) = Field.array [0] [] := by
  rfl

/-! ### save / load HISTORIES in one process (file store) -/

section histories

theorem run_snoc (sp : Spec) (p : Proc α) (ops : List (Op α)) (op : Op α) :
    run sp p (ops ++ [op]) = step sp (run sp p ops) op := by
  simp [run, List.foldl_append]

theorem read_write_same (st : Store α) (f : String) (d : Dict α) : (st.write f d).read? f = some d := by
  simp [Store.write, Store.read?]

theorem read_write_other (st : Store α) (f g : String) (d : Dict α) (h : g ≠ f) :
    (st.write g d).read? f = st.read? f := by
  simp [Store.write, Store.read?, h]

theorem step_load_files (sp : Spec) (p : Proc α) (g : String) (s0 : State α) :
    (step sp p (.load g s0)).files = p.files := by
  simp only [step]
  split <;> rfl

/-- **the file store after ANY history**: under every name lies what the LAST `save` to that name wrote (the
saved model as it was at that moment), whatever was solved, saved under other names or loaded in between -/
theorem files_after_history (sp : Spec) (p : Proc α) (f : String) (opsRev : List (Op α)) :
    (run sp p opsRev.reverse).files.read? (npzName f) =
      match lastSaved sp p f opsRev with
      | some s => some (save sp s)
      | none => p.files.read? (npzName f) := by
  induction opsRev with
  | nil => simp [run, lastSaved]
  | cons op before ih =>
    rw [List.reverse_cons, run_snoc]
    cases op with
    | solve i s' =>
      simp only [lastSaved]
      exact ih
    | load g s0 =>
      simp only [lastSaved]
      rw [step_load_files]
      exact ih
    | save i g =>
      simp only [step, lastSaved]
      cases hm : (run sp p before.reverse).models[i]? with
      | none =>
        by_cases hg : npzName g = npzName f
        · simp only [hg, if_true]; exact ih
        · simp only [hg, if_false]; exact ih
      | some s =>
        by_cases hg : npzName g = npzName f
        · simp only [hg, if_true]; exact read_write_same _ _ _
        · simp only [hg, if_false]
          rw [read_write_other _ _ _ _ hg]
          exact ih

/-- **`load` returns the last save point — for EVERY history.**  Tables as in `roundtrip`.  Take any process, any
sequence `ops` of solve / save / load calls on any number of model objects and file names, and a file name `f` to
which the history has saved; let `s` be the state the saved object was in at the moment of the LAST `save` to `f`
(mandatory slots holding arrays).  Then `load(f)` into any freshly constructed model succeeds, the loaded object
joins the live models, and every slot read by `fromDict` holds exactly what it held in `s` — not what an earlier
save to that name wrote, not what the source model has become since. -/
theorem load_returns_last_save (sp : Spec) (hnd : (sp.writes.map Entry.key).Nodup)
    (hcov : ∀ e ∈ sp.reads, covers sp.writes e = true)
    (p : Proc α) (ops : List (Op α)) (f : String) (s s0 : State α)
    (hlast : lastSaved sp p f ops.reverse = some s)
    (hnn : ∀ w ∈ sp.writes, w.opt = false → (s w.slot).isNone = false) :
    ∃ s', loadFile sp (run sp p ops) f s0 = some (.ok s') ∧
      (run sp p (ops ++ [.load f s0])).models = (run sp p ops).models ++ [s'] ∧
      (∀ e ∈ sp.reads, s' e.slot = s e.slot) ∧
      (∀ x, (∀ e ∈ sp.reads, e.slot ≠ x) → s' x = applyResets sp.resets s0 x) := by
  obtain ⟨s', h1, h2, h3⟩ := roundtrip sp hnd hcov s s0 hnn
  have hf := files_after_history sp p f ops.reverse
  rw [List.reverse_reverse, hlast] at hf
  have hl : loadFile sp (run sp p ops) f s0 = some (.ok s') := by
    unfold loadFile
    rw [hf]
    simp [h1]
  refine ⟨s', hl, ?_, h2, h3⟩
  rw [run_snoc]
  simp only [step, hl]

/-- what the driver reports (`loadOutcomes`, the outcome of every `load` of a history in order) is what the theorem speaks
about: the outcome of a `load` at the end of a history is `loadFile` on the process the history has produced -/
theorem loadOutcomes_snoc_load (sp : Spec) (p : Proc α) (ops : List (Op α)) (f : String) (s0 : State α) :
    loadOutcomes sp p (ops ++ [.load f s0]) = loadOutcomes sp p ops ++ [loadFile sp (run sp p ops) f s0] := by
  induction ops generalizing p with
  | nil => simp [loadOutcomes, run]
  | cons op r ih =>
    cases op with
    | solve i s' => simpa [loadOutcomes, run] using ih (step sp p (.solve i s'))
    | save i g => simpa [loadOutcomes, run] using ih (step sp p (.save i g))
    | load g t0 => simpa [loadOutcomes, run] using ih (step sp p (.load g t0))

/-- … for the precipitation model: every observable (sixteen histories; per phase PBM data, size distribution,
bounds, sizes, aspect-ratio table), any number of distinct phases -/
theorem precip_load_returns_last_save (phases : List String) (hph : phases.Nodup)
    (p : Proc α) (ops : List (Op α)) (f : String) (s s0 : State α)
    (hlast : lastSaved (precipSpec phases) p f ops.reverse = some s)
    (hnn : ∀ w ∈ (precipSpec phases).writes, (s w.slot).isNone = false) :
    ∃ s', loadFile (precipSpec phases) (run (precipSpec phases) p ops) f s0 = some (.ok s') ∧
      ∀ o ∈ precipObservables phases, s' o = s o := by
  obtain ⟨hg, hp, hpf⟩ := precip_keys_ok
  obtain ⟨s', h1, _, h2, _⟩ := load_returns_last_save (precipSpec phases)
    (expand_keys_nodup _ _ _ hg hp hpf hph)
    (covers_expand _ _ _ _ _ precip_reads_covered.1 precip_reads_covered.2) p ops f s s0 hlast (fun w hw _ => hnn w hw)
  refine ⟨s', h1, fun o ho => ?_⟩
  obtain ⟨e, he, rfl⟩ := precip_observable_read phases o ho
  exact h2 e he

/-- … for the diffusion model, whatever the recording options -/
theorem diff_load_returns_last_save (p : Proc α) (ops : List (Op α)) (f : String) (s s0 : State α)
    (hlast : lastSaved diffSpec p f ops.reverse = some s)
    (ht : (s "t").isNone = false) (hx : (s "x").isNone = false) :
    ∃ s', loadFile diffSpec (run diffSpec p ops) f s0 = some (.ok s') ∧ ∀ o ∈ diffObservables, s' o = s o := by
  obtain ⟨hc, hk, hobs, _⟩ := diff_tables_ok
  obtain ⟨s', h1, _, h2, _⟩ := load_returns_last_save diffSpec hk hc p ops f s s0 hlast (by
    intro w hw ho
    rcases diff_recording_lines_optional w hw ho with h | h
    · rw [h]; exact ht
    · rw [h]; exact hx)
  refine ⟨s', h1, fun o ho => ?_⟩
  obtain ⟨e, he, hs⟩ := List.mem_map.mp (hobs o ho).2
  exact hs ▸ h2 e he

/-- the two spellings of a file name are the same file -/
theorem npzName_idem_example : npzName "ck" = "ck.npz" ∧ npzName "ck.npz" = "ck.npz" := by decide

/-! witness: the variant with a read cache that `save` does not invalidate -/

def ckSpec : Spec :=
  { writes := [("finalTime", "t", false), ("finalX", "x", false)],
    reads := [("finalTime", "t", false), ("finalX", "x", false)] }

def ckA : State Nat := fun _ => .arr [] [50]
def ckB : State Nat := fun _ => .arr [] [5550]
def ckFresh : State Nat := fun _ => .none
def ckProc : Proc Nat := { models := [ckA], files := [] }

/-- solve → save(ck) → load(ck) → solve on → save(ck): a checkpoint file written twice -/
def checkpointHistory : List (Op Nat) :=
  [.save 0 "ck", .load "ck" ckFresh, .solve 0 ckB, .save 0 "ck"]

def tOf (o : Option (Except Err (State Nat))) : Option (List Nat) :=
  match o with
  | some (.ok s) => (match s "t" with | .arr _ d => some d | .none => none)
  | _ => none

/-- the last save point of the checkpoint history is the second one (t = 5550) … -/
theorem checkpoint_last_saved :
    (lastSaved ckSpec ckProc "ck" checkpointHistory.reverse).map (fun s => match s "t" with | .arr _ d => d | .none => []) = some [5550] := by
  decide

/-- … the code's `load` returns it … -/
theorem checkpoint_load_ok : tOf (loadFile ckSpec (run ckSpec ckProc checkpointHistory) "ck" ckFresh) = some [5550] := by
  decide

/-- … and the cached variant returns the FIRST save point (t = 50): `load_returns_last_save` fails for it -/
theorem cached_load_returns_earlier_save_point :
    tOf (loadFileCached ckSpec (runCached ckSpec ckProc checkpointHistory) "ck" ckFresh).1 = some [50] := by
  decide

/-- non-vacuity of `load_returns_last_save`: the checkpoint history meets its hypotheses -/
example : ∃ s', loadFile ckSpec (run ckSpec ckProc checkpointHistory) "ck.npz" ckFresh = some (.ok s') ∧
    s' "t" = .arr [] [5550] := by
  have hl : lastSaved ckSpec ckProc "ck.npz" checkpointHistory.reverse = some ckB := by rfl
  obtain ⟨s', h1, _, h2, _⟩ := load_returns_last_save ckSpec (by decide) (by decide) ckProc checkpointHistory "ck.npz"
    ckB ckFresh hl (by intro w _ _; rfl)
  exact ⟨s', h1, h2 ("finalTime", "t", false) (by simp [ckSpec])⟩

end histories

/-! ### fitting state of a surrogate: training orders, rebuild from file -/

section surrogate_fit
open KawinV.SurrogateFit

variable {δ π : Type}

/-- hypothesis "training does not mutate the shared settings": assembling an input leaves `kernelKwargs` alone -/
def Inert (h : Hooks π) : Prop := ∀ s c, h.settings s c = s

/-- what a (re)fit of one quantity leaves as its kernel -/
def fitted (h : Hooks π) (st : Settings) (d : Option (Train δ π)) (old : Option (Fit δ π)) : Option (Fit δ π) :=
  match d with
  | some t => if t.cols = 0 then old else some { settings := st, payload := t.payload, nodes := h.points t.points }
  | none => old

theorem upd_same {β : Type} (f : Q → Option β) (q : Q) (v : Option β) : upd f q v q = v := by simp [upd]
theorem upd_other {β : Type} (f : Q → Option β) (q q' : Q) (v : Option β) (h : q' ≠ q) : upd f q v q' = f q' := by
  simp [upd, h]

theorem fitQ_spec (h : Hooks π) (hi : Inert h) (s : Surr δ π) (q : Q) :
    (fitQ h s q).settings = s.settings ∧ (fitQ h s q).data = s.data ∧
    ∀ q', (fitQ h s q).models q' = if q' = q then fitted h s.settings (s.data q) (s.models q) else s.models q' := by
  cases hd : s.data q with
  | none =>
    have hf : fitQ h s q = s := by simp [fitQ, hd]
    rw [hf]
    refine ⟨rfl, rfl, fun q' => ?_⟩
    by_cases hq : q' = q <;> simp [hq, fitted]
  | some t =>
    by_cases hc : t.cols = 0
    · have hf : fitQ h s q = s := by simp [fitQ, hd, hc]
      rw [hf]
      refine ⟨rfl, rfl, fun q' => ?_⟩
      by_cases hq : q' = q <;> simp [hq, fitted, hc]
    · have hs : h.settings s.settings t.cols = s.settings := hi _ _
      have hf : fitQ h s q = (Surr.mk s.settings s.data
          (upd s.models q (some (Fit.mk s.settings t.payload (h.points t.points))))) := by
        simp [fitQ, hd, hc, hs]
      rw [hf]
      refine ⟨rfl, rfl, fun q' => ?_⟩
      by_cases hq : q' = q <;> simp [hq, fitted, hc, upd]

theorem stepS_settings (h : Hooks π) (hi : Inert h) (s : Surr δ π) (op : Op δ π) : (stepS h s op).settings = s.settings := by
  cases op with
  | train q t => exact (fitQ_spec h hi _ q).1
  | query q =>
    simp only [stepS]
    split
    · exact hi _ _
    · rfl

/-- training and querying never change the settings the object was constructed with -/
theorem settings_const (h : Hooks π) (hi : Inert h) (s : Surr δ π) (ops : List (Op δ π)) :
    (runS h s ops).settings = s.settings := by
  induction ops generalizing s with
  | nil => rfl
  | cons op r ih =>
    simp only [runS, List.foldl_cons] at ih ⊢
    rw [ih, stepS_settings h hi]

theorem runS_snoc (h : Hooks π) (s : Surr δ π) (ops : List (Op δ π)) (op : Op δ π) :
    runS h s (ops ++ [op]) = stepS h (runS h s ops) op := by
  simp [runS, List.foldl_append]

/-- the kernel of quantity `q` after ANY history on a new object: fitted from the data of the LAST training of `q`
with the constructor settings — nothing else of the history enters -/
theorem models_after_history (h : Hooks π) (hi : Inert h) (s0 : Settings) (q : Q) (opsRev : List (Op δ π))
    (hc : ∀ q' t, Op.train q' t ∈ opsRev → t.cols ≠ 0) :
    (runS h (empty δ π s0) opsRev.reverse).data q = lastTrained q opsRev ∧
    (runS h (empty δ π s0) opsRev.reverse).models q =
      (lastTrained q opsRev).map (fun t => { settings := s0, payload := t.payload, nodes := h.points t.points }) := by
  induction opsRev with
  | nil => simp [runS, empty, lastTrained]
  | cons op before ih =>
    have ihb := ih (fun q' t hm => hc q' t (List.mem_cons_of_mem _ hm))
    rw [List.reverse_cons, runS_snoc]
    have hset : (runS h (empty δ π s0) before.reverse).settings = s0 := settings_const h hi _ _
    cases op with
    | query q' =>
      simp only [lastTrained, stepS]
      split
      · exact ihb
      · exact ihb
    | train q' t =>
      simp only [stepS, lastTrained]
      have hcols : t.cols ≠ 0 := hc q' t (by simp)
      obtain ⟨_, hd, hm⟩ := fitQ_spec h hi { (runS h (empty δ π s0) before.reverse) with data := upd (runS h (empty δ π s0) before.reverse).data q' (some t) } q'
      rw [hd, hm]
      by_cases hq : q' = q
      · subst hq
        simp [upd_same, fitted, hcols, hset]
      · have hq' : q ≠ q' := fun e => hq e.symm
        simp only [hq, hq', if_false]
        rw [upd_other _ _ _ _ hq']
        exact ihb

/-- **order independence**: two histories (any trainings and getter calls of any quantities, in any order) whose
last training of `q` used the same data leave the same kernel for `q` -/
theorem prediction_independent_of_order (h : Hooks π) (hi : Inert h) (s0 : Settings) (q : Q)
    (ops1 ops2 : List (Op δ π))
    (hc1 : ∀ q' t, Op.train q' t ∈ ops1 → t.cols ≠ 0) (hc2 : ∀ q' t, Op.train q' t ∈ ops2 → t.cols ≠ 0)
    (hsame : lastTrained q ops1.reverse = lastTrained q ops2.reverse) :
    (runS h (empty δ π s0) ops1).models q = (runS h (empty δ π s0) ops2).models q := by
  have h1 := (models_after_history h hi s0 q ops1.reverse (by simpa using hc1)).2
  have h2 := (models_after_history h hi s0 q ops2.reverse (by simpa using hc2)).2
  rw [List.reverse_reverse] at h1 h2
  rw [h1, h2, hsame]

/-- … in particular the kernel of `q` is the one of an object on which ONLY `q` was trained -/
theorem prediction_as_if_trained_alone (h : Hooks π) (hi : Inert h) (s0 : Settings) (q : Q) (t : Train δ π)
    (ops : List (Op δ π)) (hc : ∀ q' t, Op.train q' t ∈ ops → t.cols ≠ 0) (hl : lastTrained q ops.reverse = some t) :
    (runS h (empty δ π s0) ops).models q = (runS h (empty δ π s0) [.train q t]).models q := by
  have ht : t.cols ≠ 0 := by
    have : ∀ (l : List (Op δ π)), lastTrained q l = some t → Op.train q t ∈ l := by
      intro l
      induction l with
      | nil => simp [lastTrained]
      | cons op r ih =>
        cases op with
        | query _ => simp only [lastTrained]; intro hh; exact List.mem_cons_of_mem _ (ih hh)
        | train q' t' =>
          simp only [lastTrained]
          by_cases hq : q' = q
          · simp only [hq, if_true]; intro hh; cases hh; simp
          · simp only [hq, if_false]; intro hh; exact List.mem_cons_of_mem _ (ih hh)
    exact hc q t (by simpa using this _ hl)
  apply prediction_independent_of_order h hi s0 q ops [.train q t] hc
  · intro q' t' hm
    simp at hm
    rw [hm.2]; exact ht
  · rw [hl]; simp [lastTrained]

theorem foldl_fitQ (h : Hooks π) (hi : Inert h) (L : List Q) (s : Surr δ π) :
    (L.foldl (fitQ h) s).settings = s.settings ∧ (L.foldl (fitQ h) s).data = s.data ∧
    ∀ q, (L.foldl (fitQ h) s).models q = if q ∈ L then fitted h s.settings (s.data q) (s.models q) else s.models q := by
  induction L generalizing s with
  | nil => simp
  | cons a L ih =>
    obtain ⟨h1, h2, h3⟩ := fitQ_spec h hi s a
    obtain ⟨i1, i2, i3⟩ := ih (fitQ h s a)
    simp only [List.foldl_cons]
    refine ⟨i1.trans h1, i2.trans h2, fun q => ?_⟩
    rw [i3, h1, h2, h3]
    by_cases hqa : q = a
    · subst hqa
      simp only [List.mem_cons, true_or, if_true]
      by_cases hm : q ∈ L
      · simp only [hm, if_true]
        unfold fitted
        cases s.data q with
        | none => rfl
        | some t => by_cases hc : t.cols = 0 <;> simp [hc]
      · simp [hm]
    · simp [hqa]

/-- **rebuilt = original.**  If assembling an input does not touch the shared settings, then for EVERY history of
trainings and getter calls (all quantities, any order, any axis counts ≥ 1, retraining allowed) on an object
constructed with settings `s0`, the object rebuilt from its file by a constructor with the same settings holds,
for every quantity, the same kernel: same settings, same data, same rows. -/
theorem rebuild_equals_original (h : Hooks π) (hi : Inert h) (s0 : Settings) (ops : List (Op δ π))
    (hc : ∀ q' t, Op.train q' t ∈ ops → t.cols ≠ 0) (q : Q) :
    (rebuild h s0 (runS h (empty δ π s0) ops)).models q = (runS h (empty δ π s0) ops).models q := by
  obtain ⟨hd, hm⟩ := models_after_history h hi s0 q ops.reverse (by simpa using hc)
  rw [List.reverse_reverse] at hd hm
  obtain ⟨_, _, h3⟩ := foldl_fitQ h hi refitOrder
    ({ settings := s0, data := (runS h (empty δ π s0) ops).data, models := fun _ => none } : Surr δ π)
  unfold rebuild
  rw [h3 q, hm]
  have hin : q ∈ refitOrder := by cases q <;> simp [refitOrder]
  simp only [hin, if_true, hd]
  unfold fitted
  cases hl : lastTrained q ops.reverse with
  | none => rfl
  | some t =>
    have : Op.train q t ∈ ops := by
      have : ∀ (l : List (Op δ π)), lastTrained q l = some t → Op.train q t ∈ l := by
        intro l
        induction l with
        | nil => simp [lastTrained]
        | cons op r ih =>
          cases op with
          | query _ => simp only [lastTrained]; intro hh; exact List.mem_cons_of_mem _ (ih hh)
          | train q' t' =>
            simp only [lastTrained]
            by_cases hq : q' = q
            · simp only [hq, if_true]; intro hh; cases hh; simp
            · simp only [hq, if_false]; intro hh; exact List.mem_cons_of_mem _ (ih hh)
      simpa using this _ hl
    simp [hc q t this]

/-- the code's hooks meet the hypothesis (non-vacuity), and the kernel is built from EVERY stored training point -/
theorem code_inert : Inert (code π) := fun _ _ => rfl

theorem fit_uses_every_training_point (s0 : Settings) (q : Q) (t : Train δ π) (ops : List (Op δ π))
    (hc : ∀ q' t, Op.train q' t ∈ ops → t.cols ≠ 0) (hl : lastTrained q ops.reverse = some t) :
    ((runS (code π) (empty δ π s0) ops).models q).map (·.nodes) = some t.points := by
  have hm := (models_after_history (code π) code_inert s0 q ops.reverse (by simpa using hc)).2
  rw [List.reverse_reverse] at hm
  rw [hm, hl]
  rfl

/-! witnesses -/

def s0T : Settings := { kernel := "cubic", normalize := true }

/-- trainDiffusivity(x grid, T grid) then trainDrivingForce(x grid, single T) -/
def twoThenOneAxis : List (Op Nat Nat) :=
  [.train .diffusivity { payload := 0, points := [0, 1, 2, 3], cols := 2 },
   .train .drivingForce { payload := 1, points := [0, 1], cols := 1 }]

/-- with the code's hooks the rebuilt object is the original (instance of the theorem, non-vacuity) -/
example : ∀ q, (rebuild (code Nat) s0T (runS (code Nat) (empty Nat Nat s0T) twoThenOneAxis)).models q
    = (runS (code Nat) (empty Nat Nat s0T) twoThenOneAxis).models q :=
  rebuild_equals_original (code Nat) code_inert s0T twoThenOneAxis (by
    intro q' t hm
    simp [twoThenOneAxis] at hm
    rcases hm with ⟨_, rfl⟩ | ⟨_, rfl⟩ <;> simp)

/-- VARIANT where a one-axis input switches `normalize` off in the shared settings: the diffusivity kernel of the
original was fitted normalized, the one of the rebuilt object (driving force is refitted FIRST) is not -/
theorem flip_rebuilt_differs :
    ((runS (flipOnOneAxis Nat) (empty Nat Nat s0T) twoThenOneAxis).models .diffusivity).map (·.settings.normalize) = some true ∧
    ((rebuild (flipOnOneAxis Nat) s0T (runS (flipOnOneAxis Nat) (empty Nat Nat s0T) twoThenOneAxis)).models .diffusivity).map
      (·.settings.normalize) = some false := by
  decide

/-- … and the kernel of a quantity depends on what was trained before it -/
theorem flip_depends_on_order :
    ((runS (flipOnOneAxis Nat) (empty Nat Nat s0T) twoThenOneAxis.reverse).models .diffusivity).map (·.settings.normalize) = some false ∧
    ((runS (flipOnOneAxis Nat) (empty Nat Nat s0T) (twoThenOneAxis.take 1)).models .diffusivity).map (·.settings.normalize) = some true := by
  decide

theorem flip_not_inert : ¬ Inert (flipOnOneAxis Nat) := by
  intro h
  have := h s0T 1
  simp [flipOnOneAxis, s0T] at this

/-- VARIANT where near-coincident rows (absolute tolerance 10, think 1e-3 in units of 1e-4) are removed before the fit:
of the stored points 5, 10, 20, 40 only 20 and 40 reach the kernel -/
theorem filter_drops_training_points :
    ((runS (filterBeforeFit 10) (empty Nat Int s0T) [.train .drivingForce { payload := 0, points := [5, 10, 20, 40], cols := 1 }]).models
      .drivingForce).map (·.nodes) = some [20, 40] := by
  decide

/-- the hypothesis "every training has at least one non-single axis" is needed: retraining a quantity on a single point
stores the data but keeps the old kernel, and the rebuilt object has no kernel at all -/
example :
    let ops : List (Op Nat Nat) := [.train .drivingForce { payload := 0, points := [0, 1], cols := 1 },
                                    .train .drivingForce { payload := 1, points := [0], cols := 0 }]
    ((runS (code Nat) (empty Nat Nat s0T) ops).models .drivingForce).isSome = true ∧
    ((rebuild (code Nat) s0T (runS (code Nat) (empty Nat Nat s0T) ops)).models .drivingForce).isSome = false := by
  decide

end surrogate_fit

/-! ### round 6: `fromJson` into ANY receiver; file names with dots that are not the extension -/
section load_receiver
open KawinV.SurrogateFit

variable {δ π : Type}

/-- what `receiver.fromJson(file)` leaves: the receiver's settings, the FILE's data, and per quantity the kernel fitted
from the file's data (no kernel where the file has no data / no axis for that quantity): nothing of what the receiver
held as data or kernels is left -/
theorem loadInto_spec (h : Hooks π) (hi : Inert h) (r : Surr δ π) (file : Q → Option (Train δ π)) :
    (loadInto h r file).settings = r.settings ∧ (loadInto h r file).data = file ∧
    ∀ q, (loadInto h r file).models q = fitted h r.settings (file q) none := by
  obtain ⟨h1, h2, h3⟩ := foldl_fitQ h hi refitOrder
    ({ settings := r.settings, data := file, models := fun _ => none } : Surr δ π)
  refine ⟨h1, h2, fun q => ?_⟩
  have hin : q ∈ refitOrder := by cases q <;> simp [refitOrder]
  unfold loadInto
  rw [h3 q]
  simp only [hin, if_true]

/-- **load overwrites the models**: after `fromJson` every quantity in the file has the FILE's fit (the file's data and rows,
the receiver's settings) and the file's stored data — whatever data and kernels the receiver held before -/
theorem load_overwrites_models (h : Hooks π) (hi : Inert h) (r : Surr δ π) (file : Q → Option (Train δ π))
    (q : Q) (t : Train δ π) (hq : file q = some t) (hc : t.cols ≠ 0) :
    (loadInto h r file).models q = some { settings := r.settings, payload := t.payload, nodes := h.points t.points } ∧
    (loadInto h r file).data q = some t := by
  obtain ⟨_, h2, h3⟩ := loadInto_spec h hi r file
  refine ⟨?_, by rw [h2, hq]⟩
  rw [h3 q, hq]
  simp [fitted, hc]

/-- … so two receivers with the same settings end with the same kernel, whatever either held -/
theorem load_independent_of_receiver (h : Hooks π) (hi : Inert h) (r1 r2 : Surr δ π) (hs : r1.settings = r2.settings)
    (file : Q → Option (Train δ π)) (q : Q) (t : Train δ π) (hq : file q = some t) (hc : t.cols ≠ 0) :
    (loadInto h r1 file).models q = (loadInto h r2 file).models q := by
  rw [(load_overwrites_models h hi r1 file q t hq hc).1, (load_overwrites_models h hi r2 file q t hq hc).1, hs]

/-- loading into a fresh object is the `rebuild` of the earlier sections -/
theorem rebuild_is_load_into_fresh (h : Hooks π) (s0 : Settings) (s : Surr δ π) :
    rebuild h s0 s = loadInto h (empty δ π s0) s.data := rfl

/-- **rebuilt into a trained receiver = original**: for every history on the original and EVERY receiver constructed with
the same settings (whatever it was trained on or loaded before), after `fromJson` of the original's file the receiver
holds, for every quantity of the file, the kernel of the original -/
theorem load_into_receiver_equals_original (h : Hooks π) (hi : Inert h) (s0 : Settings) (ops : List (Op δ π))
    (hc : ∀ q' t, Op.train q' t ∈ ops → t.cols ≠ 0) (r : Surr δ π) (hr : r.settings = s0)
    (q : Q) (t : Train δ π) (hq : (runS h (empty δ π s0) ops).data q = some t) (hct : t.cols ≠ 0) :
    (loadInto h r (runS h (empty δ π s0) ops).data).models q = (runS h (empty δ π s0) ops).models q := by
  rw [load_independent_of_receiver h hi r (empty δ π s0) (by rw [hr]; rfl) _ q t hq hct,
    ← rebuild_is_load_into_fresh]
  exact rebuild_equals_original h hi s0 ops hc q

/-- a quantity the file does NOT hold is untrained after the load (no data, no kernel), as it is in the original the
file was written from — whatever the receiver was trained for (repair 1756dd7; oracle key
`surrogate-receiver-keeps-model-of-quantity-not-in-file:<quantity>`) -/
theorem load_clears_absent_quantity (h : Hooks π) (hi : Inert h) (r : Surr δ π)
    (file : Q → Option (Train δ π)) (q : Q) (hq : file q = none) :
    (loadInto h r file).models q = none ∧ (loadInto h r file).data q = none := by
  obtain ⟨_, h2, h3⟩ := loadInto_spec h hi r file
  refine ⟨?_, by rw [h2, hq]⟩
  rw [h3 q, hq]
  rfl

/-- the receiver's data and kernels do not matter at all: two receivers with the same settings are the same object
after the load, for every quantity -/
theorem load_forgets_receiver (h : Hooks π) (hi : Inert h) (r1 r2 : Surr δ π) (hs : r1.settings = r2.settings)
    (file : Q → Option (Train δ π)) (q : Q) :
    (loadInto h r1 file).models q = (loadInto h r2 file).models q ∧ (loadInto h r1 file).data q = (loadInto h r2 file).data q := by
  obtain ⟨_, a2, a3⟩ := loadInto_spec h hi r1 file
  obtain ⟨_, b2, b3⟩ := loadInto_spec h hi r2 file
  rw [a3, b3, a2, b2, hs]
  exact ⟨rfl, rfl⟩

/-! witnesses -/

/-- a coarse preliminary training of the driving force (data id 100, two points) -/
def coarseReceiver : Surr Nat Nat :=
  runS (code Nat) (empty Nat Nat s0T) [.train .drivingForce { payload := 100, points := [0, 1], cols := 1 }]

/-- the refined file: driving force only (data id 1, four points) -/
def refinedFile : Q → Option (Train Nat Nat) :=
  fun q => if q = .drivingForce then some { payload := 1, points := [0, 1, 2, 3], cols := 1 } else none

/-- VARIANT "fit only what is missing": the receiver stores the file's data (id 1) but answers from the kernel of its
preliminary training (id 100, two nodes); a fresh receiver is unaffected; the code refits (id 1, four nodes) -/
theorem fit_missing_keeps_stale_model :
    ((loadIntoFitMissing (code Nat) coarseReceiver refinedFile).models .drivingForce).map (fun f => (f.payload, f.nodes.length)) = some (100, 2) ∧
    ((loadIntoFitMissing (code Nat) coarseReceiver refinedFile).data .drivingForce).map (·.payload) = some 1 ∧
    ((loadIntoFitMissing (code Nat) (empty Nat Nat s0T) refinedFile).models .drivingForce).map (fun f => (f.payload, f.nodes.length)) = some (1, 4) ∧
    ((loadInto (code Nat) coarseReceiver refinedFile).models .drivingForce).map (fun f => (f.payload, f.nodes.length)) = some (1, 4) := by
  decide

/-- non-vacuity of `load_overwrites_models` / `load_into_receiver_equals_original` on the same receiver and file -/
example : (loadInto (code Nat) coarseReceiver refinedFile).models .drivingForce
    = some { settings := coarseReceiver.settings, payload := 1, nodes := [0, 1, 2, 3] } :=
  (load_overwrites_models (code Nat) code_inert coarseReceiver refinedFile .drivingForce
    { payload := 1, points := [0, 1, 2, 3], cols := 1 } rfl (by decide)).1

/-- VARIANT before repair 1756dd7 (kernels never cleared): a receiver trained for diffusivity that loads a file holding
the driving force only keeps a diffusivity kernel WITHOUT data (its getter raised KeyError); the code clears it -/
theorem unrepaired_load_keeps_model_of_absent_quantity :
    let r : Surr Nat Nat := runS (code Nat) (empty Nat Nat s0T) [.train .diffusivity { payload := 7, points := [0, 1], cols := 2 }]
    ((loadIntoKeepModels (code Nat) r refinedFile).models .diffusivity).isSome = true ∧
    ((loadIntoKeepModels (code Nat) r refinedFile).data .diffusivity).isSome = false ∧
    ((loadInto (code Nat) r refinedFile).models .diffusivity).isSome = false := by
  decide

end load_receiver

section file_names

theorem npzName_of_suffix (f : String) (h : ".npz".toList.isSuffixOf f.toList = true) : npzName f = f := by
  unfold npzName; rw [h]; rfl

theorem npzName_of_no_suffix (f : String) (h : ".npz".toList.isSuffixOf f.toList = false) : npzName f = f ++ ".npz" := by
  unfold npzName; rw [h]; rfl

/-- **two different names never share a file**: names of the same spelling (both without the `.npz` suffix, or both with
it) that differ — anywhere, also only behind a dot — are saved to / loaded from different files -/
theorem npzName_injective_on_distinct_names (f g : String)
    (hsp : ".npz".toList.isSuffixOf f.toList = ".npz".toList.isSuffixOf g.toList) (hne : f ≠ g) :
    npzName f ≠ npzName g := by
  intro heq
  cases hf : ".npz".toList.isSuffixOf f.toList with
  | true =>
    rw [npzName_of_suffix f hf, npzName_of_suffix g (hsp ▸ hf)] at heq
    exact hne heq
  | false =>
    rw [npzName_of_no_suffix f hf, npzName_of_no_suffix g (hsp ▸ hf)] at heq
    exact hne (append_right_inj_str f g ".npz" heq)

/-- the only aliasing: the two spellings of ONE name -/
theorem npzName_alias_iff_spellings (f g : String) (hf : ".npz".toList.isSuffixOf f.toList = false)
    (hg : ".npz".toList.isSuffixOf g.toList = true) : npzName f = npzName g ↔ g = f ++ ".npz" := by
  rw [npzName_of_no_suffix f hf, npzName_of_suffix g hg]
  exact eq_comm

/-- a save to a different name (same spelling) does not change what the last save to `f` was -/
theorem lastSaved_ignores_other_name (sp : Spec) (p : Proc α) (f g : String) (i : Nat) (before : List (Op α))
    (hsp : ".npz".toList.isSuffixOf g.toList = ".npz".toList.isSuffixOf f.toList) (hne : g ≠ f) :
    lastSaved sp p f (.save i g :: before) = lastSaved sp p f before := by
  simp [lastSaved, npzName_injective_on_distinct_names g f hsp hne]

/-- VARIANT `os.path.splitext(name)[0] + '.npz'`: two check points named after the model time share ONE file, which the
code's rule keeps apart -/
theorem splitext_aliases_distinct_names :
    splitextName "a_0.25h" = "a_0.npz" ∧ splitextName "a_0.5h" = "a_0.npz" ∧
    npzName "a_0.25h" = "a_0.25h.npz" ∧ npzName "a_0.5h" = "a_0.5h.npz" ∧
    splitextName "prec" = npzName "prec" ∧ splitextName "prec.npz" = npzName "prec.npz" := by
  decide

/-- … so the later check point overwrites the earlier one: reading the earlier name returns the later contents, and the
directory holds one file instead of two -/
theorem splitext_later_save_overwrites (d1 d2 : Dict α) :
    Store.read? (Store.writeNamed splitextName (Store.writeNamed splitextName [] "a_0.25h" d1) "a_0.5h" d2) (splitextName "a_0.25h") = some d2 ∧
    Store.read? (Store.writeNamed npzName (Store.writeNamed npzName [] "a_0.25h" d1) "a_0.5h" d2) (npzName "a_0.25h") = some d1 ∧
    (Store.writeNamed splitextName (Store.writeNamed splitextName [] "a_0.25h" d1) "a_0.5h" d2).names.length = 1 ∧
    (Store.writeNamed npzName (Store.writeNamed npzName [] "a_0.25h" d1) "a_0.5h" d2).names.length = 2 := by
  obtain ⟨h1, h2, h3, h4, _, _⟩ := splitext_aliases_distinct_names
  simp only [Store.writeNamed, Store.write, Store.read?, Store.names, h1, h2, h3, h4]
  refine ⟨by simp, ?_, ?_, ?_⟩
  · have : ("a_0.5h.npz" : String) ≠ "a_0.25h.npz" := by decide
    simp [this]
  · show ((["a_0.npz", "a_0.npz"] : List String).eraseDups.length = 1)
    decide
  · show ((["a_0.5h.npz", "a_0.25h.npz"] : List String).eraseDups.length = 2)
    decide

/-- non-vacuity: the hypothesis set of `npzName_injective_on_distinct_names` holds for the two check-point names -/
example : npzName "a_0.25h" ≠ npzName "a_0.5h" :=
  npzName_injective_on_distinct_names _ _ (by decide) (by decide)

example : npzName "v1.0.npz" ≠ npzName "v1.1.npz" :=
  npzName_injective_on_distinct_names _ _ (by decide) (by decide)

end file_names

/-! ### EVERY class with a save / load pair, every keyword branch of `save` (generated table `saveTables`) -/

section save_tables

theorem distinctKeys_nodup (l : List String) (h : distinctKeys l = true) : l.Nodup := by
  induction l with
  | nil => exact List.nodup_nil
  | cons k r ih =>
    simp only [distinctKeys, Bool.and_eq_true, Bool.not_eq_true', List.contains_eq_mem, decide_eq_false_iff_not] at h
    exact List.nodup_cons.mpr ⟨h.1, ih h.2⟩

/-- what `saveRowOk` says about a row -/
theorem rowOk_spec (r : SaveRow) (h : saveRowOk r = true) :
    (r.spec.writes.map Entry.key).Nodup ∧ (∀ e ∈ r.spec.reads, covers r.spec.writes e = true) ∧
    (∀ w ∈ r.writes, ∃ e ∈ r.reads, e.key = w.key ∧ e.slot = w.slot) := by
  unfold saveRowOk at h
  simp only [Bool.and_eq_true, List.all_eq_true] at h
  obtain ⟨⟨⟨⟨h1, h2⟩, h3⟩, _⟩, _⟩ := h
  refine ⟨distinctKeys_nodup _ h1, h2, fun w hw => ?_⟩
  have := h3 w hw
  unfold readBack at this
  rw [List.any_eq_true] at this
  obtain ⟨e, he, hk⟩ := this
  simp only [Bool.and_eq_true, beq_iff_eq] at hk
  exact ⟨e, he, hk.1, hk.2⟩

/-- **an entry of the file holds exactly the attribute its line names**: for tables with distinct keys, after `save` the
entry under the key of a line that was not skipped is the value of THAT line's attribute -/
theorem saved_entry_is_its_field (sp : Spec) (hnd : (sp.writes.map Entry.key).Nodup) (s : State α)
    (w : Entry) (hw : w ∈ sp.writes) (hs : skipped s w = false) :
    Dict.get? (save sp s) w.key = some (s w.slot) := by
  have := foldl_write_get s sp.writes hnd [] w hw
  rw [hs] at this
  simpa [save, npzSave, toDict] using this

/-- **two different saved fields never hold the same array unless they were the same before saving**: if the entries
under the keys of two lines are equal, the two attributes were equal in the model that was saved -/
theorem equal_entries_equal_fields (sp : Spec) (hnd : (sp.writes.map Entry.key).Nodup) (s : State α)
    (w1 w2 : Entry) (h1 : w1 ∈ sp.writes) (h2 : w2 ∈ sp.writes) (hs1 : skipped s w1 = false) (hs2 : skipped s w2 = false)
    (heq : Dict.get? (save sp s) w1.key = Dict.get? (save sp s) w2.key) : s w1.slot = s w2.slot := by
  rw [saved_entry_is_its_field sp hnd s w1 h1 hs1, saved_entry_is_its_field sp hnd s w2 h2 hs2] at heq
  exact Option.some.inj heq

/-- **load ∘ save = id on every saved field, for ANY row that passes `saveRowOk`** (a branch that writes every key from the
attribute `load` stores it into): whatever the arrays (any shapes and contents; the mandatory attributes hold arrays), the
file loads into ANY freshly constructed object and afterwards every attribute written by the branch, and every attribute
assigned by `load`, holds exactly what it held in the saved object; all other attributes are untouched. -/
theorem saved_fields_roundtrip (r : SaveRow) (hok : saveRowOk r = true) (s s0 : State α)
    (hnn : ∀ w ∈ r.writes, w.opt = false → (s w.slot).isNone = false) :
    ∃ s', load r.spec (save r.spec s) s0 = .ok s' ∧ (∀ f ∈ r.fields, s' f = s f) ∧
      (∀ e ∈ r.reads, s' e.slot = s e.slot) ∧ (∀ x, (∀ e ∈ r.reads, e.slot ≠ x) → s' x = s0 x) := by
  obtain ⟨hnd, hcov, hback⟩ := rowOk_spec r hok
  obtain ⟨s', h1, h2, h3⟩ := roundtrip r.spec hnd hcov s s0 hnn
  refine ⟨s', h1, ?_, h2, ?_⟩
  · intro f hf
    obtain ⟨w, hw, rfl⟩ := List.mem_map.mp hf
    obtain ⟨e, he, _, hsl⟩ := hback w hw
    have := h2 e he
    rw [hsl] at this
    exact this
  · intro x hx
    rw [h3 x hx]
    simp [applyResets, SaveRow.spec]

/-- **the generated table**: every (class, branch) row read off the running code passes `saveRowOk` — decided again whenever the
code changes -/
theorem save_tables_ok : ∀ r : SaveRow, r ∈ saveTables → saveRowOk r = true := by decide

/-- every class with a save / load pair, BOTH on-disk formats: every saved field is reproduced exactly -/
theorem every_class_every_branch_roundtrips (r : SaveRow) (hr : r ∈ saveTables) (s s0 : State α)
    (hnn : ∀ w ∈ r.writes, w.opt = false → (s w.slot).isNone = false) :
    ∃ s', load r.spec (save r.spec s) s0 = .ok s' ∧ (∀ f ∈ r.fields, s' f = s f) :=
  let ⟨s', h1, h2, _⟩ := saved_fields_roundtrip r (save_tables_ok r hr) s s0 hnn
  ⟨s', h1, h2⟩

/-- a class whose `save` takes a `compressed` keyword has a row for both branches, and both branches write the same
attributes under the same keys -/
theorem keyword_classes_have_both_branches :
    ∀ c ∈ saveKeywordClasses, ∃ a : SaveRow, a ∈ saveTables ∧ ∃ b : SaveRow, b ∈ saveTables ∧
      a.cls = c ∧ a.branch = "compressed" ∧ b.cls = c ∧ b.branch = "uncompressed" ∧ a.writes = b.writes ∧ a.reads = b.reads := by
  decide

/-- every class of the package with a save / load method pair is a row of the table (the base classes `GenericModel`,
`DiffusionModel`, `PrecipitateBase` through the subclasses that inherit the pair) -/
theorem every_pair_has_a_row :
    ∀ p ∈ saveLoadPairs, p.1 ∈ ["GenericModel", "DiffusionModel", "PrecipitateBase"] ∨
      ∃ r : SaveRow, r ∈ saveTables ∧ r.cls = p.1 := by
  decide

/-- the strength model saves its three histories in both formats -/
theorem strength_fields_saved :
    ∀ r : SaveRow, r ∈ saveTables → r.cls = "StrengthModel" → ∀ f ∈ ["rss", "ls", "solidStrength"], f ∈ r.fields := by
  decide

/-! witness: the uncompressed branch writes the key `ls` from the attribute `rss` (copy / paste slip) -/

def strengthSwapped : SaveRow :=
  ("StrengthModel", "uncompressed",
    [("ssStrength", "solidStrength", false), ("rss", "rss", false), ("ls", "rss", false)],
    [("ssStrength", "solidStrength", false), ("rss", "rss", false), ("ls", "ls", false)])

/-- a strength model after three steps with particles: mean projected radius ~ 1e-9, mean surface-to-surface distance ~ 1e-5
(integers stand for the doubles) -/
def strengthState : State Nat := fun slot =>
  if slot = "rss" then .arr [3, 1] [0, 896, 911]
  else if slot = "ls" then .arr [3, 1] [0, 13016021, 12990345]
  else if slot = "solidStrength" then .arr [3] [4000, 3998, 3997]
  else .none

def dataOf (o : Except Err (State Nat)) (x : String) : Option (List Nat) :=
  match o with
  | .ok s => (match s x with | .arr _ d => some d | .none => none)
  | .error _ => none

/-- `saveRowOk` rejects the swapped branch … -/
theorem swapped_row_rejected : saveRowOk strengthSwapped = false := by decide

/-- … the file loads without any error, `rss` and the solid solution strength come back, and the reloaded `ls` history
silently holds the `rss` history: `saved_fields_roundtrip` fails for it … -/
theorem swapped_branch_reloads_rss_as_ls :
    dataOf (load strengthSwapped.spec (save strengthSwapped.spec strengthState) (fun _ => .none)) "ls" = some [0, 896, 911] ∧
    dataOf (load strengthSwapped.spec (save strengthSwapped.spec strengthState) (fun _ => .none)) "rss" = some [0, 896, 911] ∧
    dataOf (.ok strengthState) "ls" = some [0, 13016021, 12990345] := by
  decide

/-- … and two different entries of the file hold the same array although the attributes differed -/
theorem swapped_branch_duplicates_an_entry :
    (Dict.get? (save strengthSwapped.spec strengthState) "ls").map (fun v => match v with | .arr _ d => d | .none => [])
      = (Dict.get? (save strengthSwapped.spec strengthState) "rss").map (fun v => match v with | .arr _ d => d | .none => []) ∧
    dataOf (.ok strengthState) "ls" ≠ dataOf (.ok strengthState) "rss" := by
  decide

/-- the uncompressed branch as the code has it -/
def strengthUncompressed : SaveRow :=
  ("StrengthModel", "uncompressed",
    [("ssStrength", "solidStrength", false), ("rss", "rss", false), ("ls", "ls", false)],
    [("ssStrength", "solidStrength", false), ("rss", "rss", false), ("ls", "ls", false)])

/-- non-vacuity: the same state through the branch as the code has it (a row of the generated table) -/
example : strengthUncompressed ∈ saveTables ∧
    ∃ s', load strengthUncompressed.spec (save strengthUncompressed.spec strengthState) (fun _ => .none) = .ok s' ∧
      s' "ls" = strengthState "ls" ∧ s' "rss" = strengthState "rss" := by
  refine ⟨by decide, ?_⟩
  obtain ⟨s', h1, h2, _⟩ := saved_fields_roundtrip (α := Nat) strengthUncompressed (by decide) strengthState (fun _ => .none)
    (by decide)
  exact ⟨s', h1, h2 "ls" (by decide), h2 "rss" (by decide)⟩

/-- non-vacuity of `equal_entries_equal_fields`: a precipitate-free run (rss = ls = 0 everywhere) does give equal entries -/
example : Dict.get? (save strengthSwapped.spec (fun _ => (.arr [2, 1] [0, 0] : Val Nat))) "ls"
    = Dict.get? (save strengthSwapped.spec (fun _ => (.arr [2, 1] [0, 0] : Val Nat))) "rss" := by
  rfl

end save_tables

/-! ### non-vacuity -/

/-- a state meeting the hypotheses of `precip_roundtrip`, and the theorem applied to it -/
example : ∃ s' : State Nat, load (precipSpec ["AL3ZR"]) (save (precipSpec ["AL3ZR"]) (fun _ => .arr [2] [1, 2]))
    (fun _ => .none) = .ok s' ∧ s' "PBM.PSD@AL3ZR" = .arr [2] [1, 2] := by
  obtain ⟨s', h1, h2⟩ := precip_roundtrip (α := Nat) ["AL3ZR"] (by simp) (fun _ => .arr [2] [1, 2]) (fun _ => .none)
    (fun _ _ => rfl)
  exact ⟨s', h1, h2 _ (by decide)⟩

/-- recording off satisfies the hypotheses of `diff_roundtrip_any_recording` -/
example : ∃ s' : State Nat, load diffSpec (save diffSpec recordOff) (fun _ => .arr [1] [0]) = .ok s' ∧
    s' "_recordedX" = .none := by
  obtain ⟨s', h1, h2⟩ := diff_roundtrip_any_recording recordOff (fun _ => .arr [1] [0]) (by decide) (by decide)
  refine ⟨s', h1, ?_⟩
  rw [h2 "_recordedX" (by decide)]
  simp [recordOff]

example : (Field.array [2, 3] [1, 2, 3, 4, 5, 6] : Field Nat).wf := by
  refine ⟨rfl, ?_⟩
  decide

end KawinV.Props.C20
