/-
C07 — size-class transport is conservative and bounded.
Property theorems about `KawinV.PBM` (hand model of PopulationBalance.py, tied to the
source by the correspondence check tools/corr/C07.py).  α is any linearly ordered field.
-/
import KawinV.Model.PBMTransport
import Mathlib.Tactic.Ring
import Mathlib.Tactic.Linarith
import Mathlib.Tactic.FieldSimp
import Mathlib.Algebra.Order.Field.Basic
import Mathlib.Algebra.BigOperators.Group.Finset.Basic
import Mathlib.Algebra.BigOperators.Intervals

set_option linter.unusedSectionVars false
set_option linter.unusedVariables false
set_option linter.unusedSimpArgs false

namespace KawinV.Props.C07
open KawinV.PBM
open Finset

variable {α : Type} [Field α] [LinearOrder α] [IsStrictOrderedRing α]

/-- **budget**: the rate of change sums to what crosses the two ends of the grid plus the
nucleation rate; all interior exchange cancels (telescoping), for any face fluxes `nf`. -/
theorem budget (n : Nat) (nf : Nat → α) (k : Nat) (hk : k < n) (r : α) :
    ∑ i ∈ range n, dXdt nf k r i = nf 0 - nf n + r := by
  unfold dXdt
  rw [sum_add_distrib, sum_range_sub']
  simp [sum_ite_eq', hk]

/-- the same budget for the rate of change after the step-size correction: the correction
changes face fluxes only, so the telescoping is untouched. -/
theorem budget_corrected (n : Nat) (dt : α) (psd nf : Nat → α) (k : Nat) (hk : k < n) (r : α) :
    ∑ i ∈ range n, dXdt (correctedFlux n dt psd nf) k r i
      = correctedFlux n dt psd nf 0 - correctedFlux n dt psd nf n + r :=
  budget n _ k hk r

/-- **ends**: nothing enters through the lower end and nothing enters through the upper end:
the flux at face 0 can only remove particles (dissolution), at face n only remove (growth out). -/
theorem netFlux_zero_nonpos (n : Nat) (flux psd dR : Nat → α)
    (hpsd : ∀ i, 0 ≤ psd i) (hdR : ∀ i, 0 < dR i) :
    netFlux n flux psd dR 0 ≤ 0 := by
  unfold netFlux
  simp only [show ¬ (1 ≤ 0) by omega, false_and, if_false, add_zero]
  split
  · next h =>
    exact div_nonpos_of_nonpos_of_nonneg
      (mul_nonpos_of_nonpos_of_nonneg (not_lt.mp h.2) (hpsd 0)) (hdR 0).le
  · exact le_refl _

theorem netFlux_last_nonneg (n : Nat) (flux psd dR : Nat → α)
    (hpsd : ∀ i, 0 ≤ psd i) (hdR : ∀ i, 0 < dR i) :
    0 ≤ netFlux n flux psd dR n := by
  unfold netFlux
  simp only [Nat.lt_irrefl, false_and, if_false, zero_add]
  split
  · next h => exact div_nonneg (mul_nonneg h.2.le (hpsd _)) (hdR _).le
  · exact le_refl _

/-- **upwind, growth**: a face with positive growth rate carries `flux·psd/dR` of the class on its
left (j-1) to the class on its right (j), a non-negative number. -/
theorem netFlux_growth (n j : Nat) (flux psd dR : Nat → α) (hj : 1 ≤ j) (hf : 0 < flux j) :
    netFlux n flux psd dR j = flux j * psd (j-1) / dR (j-1) := by
  unfold netFlux; simp [hf, hj]

/-- **upwind, dissolution**: a face with non-positive growth rate carries `flux·psd/dR` of the class
on its right (j) to the class on its left (j-1), a non-positive number. -/
theorem netFlux_dissolution (n j : Nat) (flux psd dR : Nat → α) (hj : j < n) (hf : flux j ≤ 0) :
    netFlux n flux psd dR j = flux j * psd j / dR j := by
  unfold netFlux; simp [not_lt.mpr hf, hj]

theorem netFlux_sign_growth (n j : Nat) (flux psd dR : Nat → α)
    (hpsd : ∀ i, 0 ≤ psd i) (hdR : ∀ i, 0 < dR i) (hf : 0 < flux j) :
    0 ≤ netFlux n flux psd dR j := by
  unfold netFlux
  simp only [hf, not_true_eq_false, and_false, if_false, zero_add, and_true]
  split
  · exact div_nonneg (mul_nonneg hf.le (hpsd _)) (hdR _).le
  · exact le_refl _

theorem netFlux_sign_dissolution (n j : Nat) (flux psd dR : Nat → α)
    (hpsd : ∀ i, 0 ≤ psd i) (hdR : ∀ i, 0 < dR i) (hf : flux j ≤ 0) :
    netFlux n flux psd dR j ≤ 0 := by
  unfold netFlux
  simp only [not_lt.mpr hf, not_false_eq_true, and_true, and_false, if_false, add_zero]
  split
  · exact div_nonpos_of_nonpos_of_nonneg (mul_nonpos_of_nonpos_of_nonneg hf (hpsd _)) (hdR _).le
  · exact le_refl _

/-- **adjacent only**: the flux across face j is determined by the growth rate at that face and
the population/width of the two classes touching it — no other class takes part. -/
theorem netFlux_local (n j : Nat) (flux flux' psd psd' dR dR' : Nat → α)
    (hf : flux j = flux' j) (h1 : psd j = psd' j) (h2 : psd (j-1) = psd' (j-1))
    (h3 : dR j = dR' j) (h4 : dR (j-1) = dR' (j-1)) :
    netFlux n flux psd dR j = netFlux n flux' psd' dR' j := by
  unfold netFlux; rw [hf, h1, h2, h3, h4]

/-- the rate of change of class i is the signed sum of its two faces plus nucleation, nothing else -/
theorem dXdt_two_faces (nf : Nat → α) (k : Nat) (r : α) (i : Nat) (hi : i ≠ k) :
    dXdt nf k r i = nf i - nf (i+1) := by
  unfold dXdt; simp [hi]

/-! ### nucleation class -/

theorem argmaxFirst_spec (p : Nat → Bool) (len i : Nat) (hi : i < len) (hp : p i = true)
    (hmin : ∀ j, j < i → p j = false) : argmaxFirst p len = i := by
  unfold argmaxFirst
  have : (List.range len).find? (fun i => p i) = some i := by
    rw [List.find?_eq_some_iff_getElem]
    refine ⟨hp, i, by simpa using hi, by simp, ?_⟩
    intro j hj
    simp only [List.getElem_range]
    simp [hmin j hj]
  rw [this]

theorem argmaxFirst_none (p : Nat → Bool) (len : Nat) (h : ∀ j, j < len → p j = false) :
    argmaxFirst p len = 0 := by
  unfold argmaxFirst
  have : (List.range len).find? (fun i => p i) = none := by
    rw [List.find?_eq_none]; intro x hx; simpa using h x (by simpa using hx)
  rw [this]

/-- **nucleation class**: on a strictly increasing grid, a radius inside the grid puts the nuclei
into the unique class whose interval contains it. -/
theorem nucIndex_inside (n : Nat) (b : Nat → α) (r : α) (i : Nat) (hi : i < n)
    (hmono : ∀ a c, a < c → c ≤ n → b a < b c)
    (hlo : b i ≤ r) (hhi : r < b (i+1)) : nucIndex n b r = i := by
  unfold nucIndex
  have hb0 : ¬ r < b 0 := by
    rcases Nat.eq_zero_or_pos i with h0 | h0
    · subst h0; exact not_lt.mpr hlo
    · exact not_lt.mpr ((hmono 0 i h0 (by omega)).le.trans hlo)
  have h := argmaxFirst_spec (fun j => decide (r < b j)) (n+1) (i+1) (by omega)
    (by simpa using hhi) (by
      intro j hj
      simp only [decide_eq_false_iff_not, not_lt]
      rcases Nat.lt_succ_iff_lt_or_eq.mp hj with h | h
      · exact (hmono j i h (by omega)).le.trans hlo
      · exact h ▸ hlo)
  simp [h, hb0]

/-- uniqueness: no other class contains the radius, so no other class receives nuclei -/
theorem class_unique (n : Nat) (b : Nat → α) (r : α) (i k : Nat) (hi : i < n) (hk : k < n)
    (hmono : ∀ a c, a < c → c ≤ n → b a < b c)
    (hlo : b i ≤ r) (hhi : r < b (i+1)) (hlo' : b k ≤ r) (hhi' : r < b (k+1)) : i = k := by
  rcases Nat.lt_trichotomy i k with h | h | h
  · exfalso
    have : b (i+1) ≤ b k := by
      rcases Nat.lt_or_ge (i+1) k with h' | h'
      · exact (hmono _ _ h' (by omega)).le
      · have : i + 1 = k := by omega
        exact this ▸ le_refl _
    linarith
  · exact h
  · exfalso
    have : b (k+1) ≤ b i := by
      rcases Nat.lt_or_ge (k+1) i with h' | h'
      · exact (hmono _ _ h' (by omega)).le
      · have : k + 1 = i := by omega
        exact this ▸ le_refl _
    linarith

/-- only the nucleation class receives the nucleation term -/
theorem nucleation_only_in_class (nf : Nat → α) (k : Nat) (r : α) (i : Nat) :
    dXdt nf k r i - (nf i - nf (i+1)) = if i = k then r else 0 := by
  unfold dXdt; ring

/-- **outside the grid, below**: a radius below the first boundary selects the FIRST class
(the nearest one).  Before the repair recorded in known_findings.txt (F-C07-nuc-below) the code
selected index -1, the largest class. -/
theorem nucIndex_below (n : Nat) (b : Nat → α) (r : α) (h : r < b 0) : nucIndex n b r = 0 := by
  unfold nucIndex; simp [h]

/-- a radius at or above the last boundary also selects the last class -/
theorem nucIndex_above (n : Nat) (b : Nat → α) (r : α) (h : ∀ j, j ≤ n → b j ≤ r) :
    nucIndex n b r = n - 1 := by
  unfold nucIndex
  have := argmaxFirst_none (fun j => decide (r < b j)) (n+1)
    (by intro j hj; simpa using h j (by omega))
  simp [this, not_lt.mpr (h 0 (by omega))]

/-! ### limiter -/

/-- **limiter, left face**: after the correction class i loses at most what it holds through its
left face: `-psd i ≤ dt · nf' i`. -/
theorem limiter_left (n : Nat) (dt : α) (psd nf : Nat → α) (i : Nat) (hi : i < n)
    (hdt : 0 < dt) (hpsd : ∀ j, 0 ≤ psd j) :
    - psd i ≤ correctedFlux n dt psd nf i * dt := by
  unfold correctedFlux limitAbove
  split
  · next h =>
    have : psd (i-1) / dt * dt = psd (i-1) := by field_simp
    rw [this]; linarith [hpsd i, hpsd (i-1)]
  · unfold limitBelow
    split
    · next h =>
      have : - psd i / dt * dt = - psd i := by field_simp
      rw [this]
    · next h =>
      have : ¬ nf i * dt < - psd i := fun hh => h ⟨hi, hh⟩
      exact not_lt.mp this

/-- **limiter, right face**: class i loses at most what it holds through its right face:
`dt · nf' (i+1) ≤ psd i`. -/
theorem limiter_right (n : Nat) (dt : α) (psd nf : Nat → α) (i : Nat) (hi : i < n)
    (hdt : 0 < dt) :
    correctedFlux n dt psd nf (i+1) * dt ≤ psd i := by
  unfold correctedFlux limitAbove
  split
  · next h =>
    have : psd (i+1-1) / dt * dt = psd (i+1-1) := by field_simp
    rw [this]; simp
  · next h =>
    have h' : ¬ psd (i+1-1) < limitBelow n dt psd nf (i+1) * dt :=
      fun hh => h ⟨by omega, by omega, hh⟩
    simpa using not_lt.mp h'

/-- the correction never changes the direction of a face flux into growth at face 0 or dissolution
at face n: the ends stay one-sided (so the corrected budget still only *removes* at the ends). -/
theorem corrected_zero_nonpos (n : Nat) (dt : α) (psd nf : Nat → α)
    (hdt : 0 < dt) (hpsd : ∀ j, 0 ≤ psd j) (h0 : nf 0 ≤ 0) :
    correctedFlux n dt psd nf 0 ≤ 0 := by
  unfold correctedFlux limitAbove
  simp only [show ¬ (1 ≤ 0) by omega, false_and, if_false]
  unfold limitBelow
  split
  · exact div_nonpos_of_nonpos_of_nonneg (neg_nonpos.mpr (hpsd 0)) hdt.le
  · exact h0

theorem corrected_last_nonneg (n : Nat) (dt : α) (psd nf : Nat → α)
    (hdt : 0 < dt) (hpsd : ∀ j, 0 ≤ psd j) (hn : 0 ≤ nf n) :
    0 ≤ correctedFlux n dt psd nf n := by
  unfold correctedFlux limitAbove
  split
  · exact div_nonneg (hpsd _) hdt.le
  · unfold limitBelow; simp [hn]

/-! ### step limit and non-negativity -/

theorem le_maxList_foldl (xs : List α) (a : α) :
    a ≤ xs.foldl (fun a b => if a < b then b else a) a ∧
    ∀ x ∈ xs, x ≤ xs.foldl (fun a b => if a < b then b else a) a := by
  induction xs generalizing a with
  | nil => simp
  | cons y ys ih =>
    simp only [List.foldl_cons, List.mem_cons]
    obtain ⟨h1, h2⟩ := ih (if a < y then y else a)
    refine ⟨le_trans ?_ h1, ?_⟩
    · split <;> [exact le_of_lt ‹_›; exact le_refl _]
    · intro x hx
      rcases hx with rfl | hx
      · refine le_trans ?_ h1
        split <;> [exact le_refl _; exact not_lt.mp ‹_›]
      · exact h2 x hx

theorem le_maxList (xs : List α) (x : α) (hx : x ∈ xs) : x ≤ maxList xs := by
  cases xs with
  | nil => simp at hx
  | cons y ys =>
    unfold maxList
    obtain ⟨h1, h2⟩ := le_maxList_foldl ys y
    rcases List.mem_cons.mp hx with rfl | h
    · exact h1
    · exact h2 x h

theorem absS_eq_abs (x : α) : absS x = |x| := by
  unfold absS; split
  · next h => exact (abs_of_neg h).symm
  · next h => exact (abs_of_nonneg (not_lt.mp h)).symm

/-- **step limit**: the returned step moves the fastest relevant face (a left face of a populated
class at or above the dissolution index) by exactly `ratio` class widths, hence every relevant
face by at most that. -/
theorem getDT_limits (n d : Nat) (currDT ratio : α) (growth psd bounds : Nat → α)
    (j : Nat) (hj : j < n) (hd : d ≤ j) (hp : 0 < psd j) (hg : growth j ≠ 0)
    (hr : 0 ≤ ratio) (hb : bounds 0 < bounds 1) :
    getDT n d currDT ratio growth psd bounds * |growth j| ≤ ratio * (bounds 1 - bounds 0) := by
  unfold getDT
  have hmem : j ∈ dtFilter n d psd := by
    unfold dtFilter; simp [hj, hd, hp]
  have hne : dtFilter n d psd ≠ [] := List.ne_nil_of_mem hmem
  cases hL : dtFilter n d psd with
  | nil => exact absurd hL hne
  | cons a as =>
    simp only
    rw [← hL]
    have hle : |growth j| ≤ maxList ((dtFilter n d psd).map (fun j => absS (growth j))) := by
      apply le_maxList
      rw [← absS_eq_abs]
      exact List.mem_map.mpr ⟨j, hmem, rfl⟩
    have hpos : 0 < maxList ((dtFilter n d psd).map (fun j => absS (growth j))) :=
      lt_of_lt_of_le (abs_pos.mpr hg) hle
    simp only [hpos, or_true, if_true]
    rw [div_mul_eq_mul_div, div_le_iff₀ hpos]
    exact mul_le_mul_of_nonneg_left hle (mul_nonneg hr (sub_pos.mpr hb).le)

/-- the limit is the configured ratio of the class width over the fastest relevant rate:
it is *attained* (equality for the maximiser) -/
theorem getDT_formula (n d : Nat) (currDT ratio : α) (growth psd bounds : Nat → α)
    (hne : dtFilter n d psd ≠ [])
    (hm : 0 < maxList ((dtFilter n d psd).map (fun j => absS (growth j)))) :
    getDT n d currDT ratio growth psd bounds
      = ratio * (bounds 1 - bounds 0) / maxList ((dtFilter n d psd).map (fun j => absS (growth j))) := by
  unfold getDT
  cases hL : dtFilter n d psd with
  | nil => exact absurd hL hne
  | cons a as => simp only; rw [← hL]; simp [hm]

/-- no populated class above the dissolution index, or all of them static: keep the current step -/
theorem getDT_empty (n d : Nat) (currDT ratio : α) (growth psd bounds : Nat → α)
    (h : dtFilter n d psd = []) : getDT n d currDT ratio growth psd bounds = currDT := by
  unfold getDT; rw [h]

/-- **non-negativity under the limit**: if both faces of class i move by at most `ratio ≤ 1/2`
class widths in `dt`, the class stays non-negative after an Euler step of the *uncorrected*
rate of change (nucleation can only add). -/
theorem nonneg_under_limit (n : Nat) (flux psd dR : Nat → α) (i : Nat) (hi : i < n) (dt ratio : α)
    (k : Nat) (r : α) (hr : 0 ≤ r)
    (hdt : 0 < dt) (hpsd : ∀ j, 0 ≤ psd j) (hdR : ∀ j, 0 < dR j)
    (hratio : ratio ≤ 1/2)
    (hl : dt * |flux i| ≤ ratio * dR i) (hrr : dt * |flux (i+1)| ≤ ratio * dR i) :
    0 ≤ psd i + dt * dXdt (netFlux n flux psd dR) k r i := by
  -- loss through left face ≤ ratio * psd i ; loss through right face ≤ ratio * psd i
  have hdRi := hdR i
  have hpi := hpsd i
  have hL : - (ratio * psd i) ≤ dt * netFlux n flux psd dR i := by
    by_cases hf : 0 < flux i
    · have := netFlux_sign_growth n i flux psd dR hpsd hdR hf
      have h2 : 0 ≤ dt * netFlux n flux psd dR i := mul_nonneg hdt.le this
      have h3 : 0 ≤ ratio * psd i := by
        have : 0 ≤ ratio * dR i := le_trans (mul_nonneg hdt.le (abs_nonneg _)) hl
        have : 0 ≤ ratio := nonneg_of_mul_nonneg_left this hdRi
        exact mul_nonneg this hpi
      linarith
    · have hf' : flux i ≤ 0 := not_lt.mp hf
      rw [netFlux_dissolution n i flux psd dR hi hf']
      rw [abs_of_nonpos hf'] at hl
      have : dt * (flux i * psd i / dR i) = - ((dt * -flux i) * psd i / dR i) := by ring
      rw [this, neg_le_neg_iff, div_le_iff₀ hdRi]
      calc dt * -flux i * psd i ≤ ratio * dR i * psd i := mul_le_mul_of_nonneg_right hl hpi
        _ = ratio * psd i * dR i := by ring
  have hR : dt * netFlux n flux psd dR (i+1) ≤ ratio * psd i := by
    by_cases hf : 0 < flux (i+1)
    · rw [netFlux_growth n (i+1) flux psd dR (by omega) hf]
      simp only [Nat.add_sub_cancel]
      rw [abs_of_pos hf] at hrr
      have : dt * (flux (i+1) * psd i / dR i) = (dt * flux (i+1)) * psd i / dR i := by ring
      rw [this, div_le_iff₀ hdRi]
      calc dt * flux (i+1) * psd i ≤ ratio * dR i * psd i := mul_le_mul_of_nonneg_right hrr hpi
        _ = ratio * psd i * dR i := by ring
    · have hf' : flux (i+1) ≤ 0 := not_lt.mp hf
      have := netFlux_sign_dissolution n (i+1) flux psd dR hpsd hdR hf'
      have h2 : dt * netFlux n flux psd dR (i+1) ≤ 0 := mul_nonpos_of_nonneg_of_nonpos hdt.le this
      have h3 : 0 ≤ ratio * psd i := by
        have : 0 ≤ ratio * dR i := le_trans (mul_nonneg hdt.le (abs_nonneg _)) hrr
        have : 0 ≤ ratio := nonneg_of_mul_nonneg_left this hdRi
        exact mul_nonneg this hpi
      linarith
  unfold dXdt
  have hnuc : 0 ≤ dt * (if i = k then r else 0) := by
    apply mul_nonneg hdt.le; split <;> [exact hr; exact le_refl _]
  have h2 : 2 * (ratio * psd i) ≤ psd i := by nlinarith
  nlinarith

/-- **non-negativity after correction**: with the corrected face fluxes no class becomes negative
in an Euler step *if its incoming fluxes are non-negative contributions*, i.e. the left face flux
is ≤ 0 or the right face flux ≥ 0 is bounded by the limiter: `psd i + dt·(nf' i − nf' (i+1)) ≥ −psd i`
always, and `≥ 0` when at most one face removes particles. This is the exact statement the
limiter supports (each face separately). -/
theorem corrected_step_lower (n : Nat) (dt : α) (psd nf : Nat → α) (i : Nat) (hi : i < n)
    (hdt : 0 < dt) (hpsd : ∀ j, 0 ≤ psd j) :
    - psd i ≤ psd i + dt * (correctedFlux n dt psd nf i - correctedFlux n dt psd nf (i+1)) := by
  have h1 := limiter_left n dt psd nf i hi hdt hpsd
  have h2 := limiter_right n dt psd nf i hi hdt
  nlinarith

/-- **the correction is inactive under the step limit**: if every face moves by at most `ratio ≤ 1`
class widths in `dt` (uniform width `w`), the face-wise limiter changes nothing — the corrected
fluxes are the upwind fluxes. -/
theorem correction_inactive_under_limit (n : Nat) (flux psd : Nat → α) (w dt ratio : α)
    (hw : 0 < w) (hdt : 0 < dt) (hpsd : ∀ j, 0 ≤ psd j) (hr1 : ratio ≤ 1)
    (hlim : ∀ j, dt * |flux j| ≤ ratio * w) (j : Nat) :
    correctedFlux n dt psd (netFlux n flux psd (fun _ => w)) j = netFlux n flux psd (fun _ => w) j := by
  have hr0 : 0 ≤ ratio := by
    have := le_trans (mul_nonneg hdt.le (abs_nonneg (flux 0))) (hlim 0)
    exact nonneg_of_mul_nonneg_left this hw
  -- bound of a face flux by the population of its upwind class
  have hbelow : ∀ i, i < n → ¬ (netFlux n flux psd (fun _ => w) i * dt < - psd i) := by
    intro i hi
    rw [not_lt]
    by_cases hf : 0 < flux i
    · have := netFlux_sign_growth n i flux psd (fun _ => w) hpsd (fun _ => hw) hf
      have h2 : 0 ≤ netFlux n flux psd (fun _ => w) i * dt := mul_nonneg this hdt.le
      linarith [hpsd i]
    · have hf' : flux i ≤ 0 := not_lt.mp hf
      rw [netFlux_dissolution n i flux psd (fun _ => w) hi hf']
      have hl := hlim i
      rw [abs_of_nonpos hf'] at hl
      have : flux i * psd i / w * dt = - ((dt * -flux i) * psd i / w) := by ring
      rw [this, neg_le_neg_iff, div_le_iff₀ hw]
      calc dt * -flux i * psd i ≤ ratio * w * psd i := mul_le_mul_of_nonneg_right hl (hpsd i)
        _ ≤ 1 * w * psd i := by
            apply mul_le_mul_of_nonneg_right _ (hpsd i)
            exact mul_le_mul_of_nonneg_right hr1 hw.le
        _ = psd i * w := by ring
  have habove : ∀ i, 1 ≤ i → ¬ (psd (i-1) < netFlux n flux psd (fun _ => w) i * dt) := by
    intro i hi
    rw [not_lt]
    by_cases hf : 0 < flux i
    · rw [netFlux_growth n i flux psd (fun _ => w) hi hf]
      have hl := hlim i
      rw [abs_of_pos hf] at hl
      have : flux i * psd (i-1) / w * dt = (dt * flux i) * psd (i-1) / w := by ring
      rw [this, div_le_iff₀ hw]
      calc dt * flux i * psd (i-1) ≤ ratio * w * psd (i-1) := mul_le_mul_of_nonneg_right hl (hpsd _)
        _ ≤ 1 * w * psd (i-1) := by
            apply mul_le_mul_of_nonneg_right _ (hpsd _)
            exact mul_le_mul_of_nonneg_right hr1 hw.le
        _ = psd (i-1) * w := by ring
    · have hf' : flux i ≤ 0 := not_lt.mp hf
      have := netFlux_sign_dissolution n i flux psd (fun _ => w) hpsd (fun _ => hw) hf'
      have h2 : netFlux n flux psd (fun _ => w) i * dt ≤ 0 := mul_nonpos_of_nonpos_of_nonneg this hdt.le
      linarith [hpsd (i-1)]
  have hLB : limitBelow n dt psd (netFlux n flux psd (fun _ => w)) j = netFlux n flux psd (fun _ => w) j := by
    unfold limitBelow
    split
    · next h => exact absurd h.2 (hbelow j h.1)
    · rfl
  unfold correctedFlux limitAbove
  split
  · next h =>
    exfalso
    have h3 := h.2.2
    rw [hLB] at h3
    exact habove j h.1 h3
  · exact hLB

/-- consequently a class whose faces obey the limit with `ratio ≤ 1/2` stays non-negative under
the CORRECTED update as well (what the solver actually applies). -/
theorem nonneg_corrected_under_limit (n : Nat) (flux psd : Nat → α) (w dt ratio : α) (i : Nat) (hi : i < n)
    (k : Nat) (r : α) (hr : 0 ≤ r)
    (hw : 0 < w) (hdt : 0 < dt) (hpsd : ∀ j, 0 ≤ psd j) (hratio : ratio ≤ 1/2)
    (hlim : ∀ j, dt * |flux j| ≤ ratio * w) :
    0 ≤ psd i + dt * dXdt (correctedFlux n dt psd (netFlux n flux psd (fun _ => w))) k r i := by
  have h1 : ratio ≤ 1 := by linarith
  have e1 := correction_inactive_under_limit n flux psd w dt ratio hw hdt hpsd h1 hlim i
  have e2 := correction_inactive_under_limit n flux psd w dt ratio hw hdt hpsd h1 hlim (i+1)
  have := nonneg_under_limit n flux psd (fun _ => w) i hi dt ratio k r hr hdt hpsd (fun _ => hw) hratio (hlim i) (hlim (i+1))
  unfold dXdt at *
  rw [e1, e2]
  exact this

/-! ### dissolution index: which faces are "relevant" for the step limit -/

theorem argmaxFirst_lt_or_zero (p : Nat → Bool) (len : Nat) :
    (argmaxFirst p len < len ∧ p (argmaxFirst p len) = true ∧ ∀ j, j < argmaxFirst p len → p j = false) ∨
    (argmaxFirst p len = 0 ∧ ∀ j, j < len → p j = false) := by
  unfold argmaxFirst
  cases h : (List.range len).find? (fun i => p i) with
  | none =>
    right
    refine ⟨rfl, ?_⟩
    intro j hj
    have := List.find?_eq_none.mp h j (by simpa using hj)
    simpa using this
  | some i =>
    left
    have h' := List.find?_eq_some_iff_getElem.mp h
    obtain ⟨hp, k, hk, hik, hmin⟩ := h'
    simp only [List.getElem_range] at hik
    subst hik
    refine ⟨by simpa using hk, by simpa using hp, ?_⟩
    intro j hj
    have := hmin j hj
    simpa using this

/-- the dissolution index is at least the index of the last unstable class -/
theorem dissolutionIndex_ge_min (n : Nat) (maxDiss : α) (vol : Nat → α) (m : Nat) :
    m ≤ dissolutionIndex n maxDiss vol m := by
  unfold dissolutionIndex
  simp only
  generalize argmaxFirst _ n = a
  by_cases h : a < m
  · simp [h]
  · simp [h]; omega

/-- **what is ignored by the step limit**: if the index `a` returned is above `minIndex`, then the
classes strictly below `a` hold at most the allowed fraction `maxDissolution` of the total particle
volume (cumulative third moment), and class `a` is the first one where that fraction is exceeded. -/
theorem dissolutionIndex_spec (n : Nat) (maxDiss : α) (vol : Nat → α) (m : Nat)
    (h : m < dissolutionIndex n maxDiss vol m) :
    let a := dissolutionIndex n maxDiss vol m
    let total := if n = 0 then 0 else cumSum vol (n-1)
    a < n ∧ maxDiss * total < cumSum vol a ∧ ∀ j, j < a → cumSum vol j ≤ maxDiss * total := by
  unfold dissolutionIndex at *
  simp only at *
  set total := (if n = 0 then (0:α) else cumSum vol (n-1)) with htot
  set a0 := argmaxFirst (fun i => decide (maxDiss * total < cumSum vol i)) n with ha0
  have hcase : ¬ a0 < m := by
    intro hlt; simp [hlt] at h
  simp only [hcase, if_false] at h ⊢
  rcases argmaxFirst_lt_or_zero (fun i => decide (maxDiss * total < cumSum vol i)) n with ⟨h1, h2, h3⟩ | ⟨h1, _⟩
  · refine ⟨h1, by simpa using h2, ?_⟩
    intro j hj
    have := h3 j hj
    simpa using this
  · rw [← ha0] at h1; omega

/-! ### non-vacuity: concrete states meeting the hypotheses -/

example : (0:ℚ) < 1 ∧ (∀ j : Nat, (0:ℚ) ≤ (fun _ => (2:ℚ)) j) := by simp
example : netFlux 3 (fun _ => (1:ℚ)) (fun _ => 2) (fun _ => 1/2) 1 = 4 := by
  unfold netFlux; norm_num
example : nucIndex 3 (fun i => (i:ℚ)) (3/2) = 1 := by
  apply nucIndex_inside 3 _ _ 1 (by omega)
  · intro a c h _; exact_mod_cast h
  · norm_num
  · norm_num

end KawinV.Props.C07
