/-
C07 — size-class transport is conservative and bounded.
Property theorems about `KawinV.PBM` (hand model of PopulationBalance.py, tied to the
source by the correspondence check tools/corr/C07.py).  α is any linearly ordered field.
-/
import KawinV.Model.PBMTransport
import KawinV.Model.GrainGrowth
import KawinV.Model.PBMGrid
import Mathlib.Tactic.Ring
import Mathlib.Tactic.Linarith
import Mathlib.Tactic.FieldSimp
import Mathlib.Algebra.Order.Field.Basic
import Mathlib.Algebra.BigOperators.Group.Finset.Basic
import Mathlib.Algebra.BigOperators.Intervals
import Mathlib.Tactic.NormNum

set_option linter.unusedSectionVars false
set_option linter.unusedVariables false
set_option linter.unusedSimpArgs false

namespace KawinV.Props.C07
open KawinV.PBM
open Finset

variable {α : Type} [Field α] [LinearOrder α] [IsStrictOrderedRing α]

/-- **budget**: the rate of change sums to what crosses the two ends of the grid plus the
nucleation rate; all interior exchange cancels (telescoping), for any face fluxes `nf`. -/
theorem budget (n : Nat) (nf : Nat → α) (k : Nat) (hk : k < n) (r : α) :
    ∑ i ∈ range n, dXdt nf k r i = nf 0 - nf n + r := by
  unfold dXdt
  rw [sum_add_distrib, sum_range_sub']
  simp [sum_ite_eq', hk]

/-- the same budget for the rate of change after the step-size correction: the correction
changes face fluxes only, so the telescoping is untouched. -/
theorem budget_corrected (n : Nat) (dt : α) (psd nf : Nat → α) (k : Nat) (hk : k < n) (r : α) :
    ∑ i ∈ range n, dXdt (correctedFlux n dt psd nf) k r i
      = correctedFlux n dt psd nf 0 - correctedFlux n dt psd nf n + r :=
  budget n _ k hk r

/-- **ends**: nothing enters through the lower end and nothing enters through the upper end:
the flux at face 0 can only remove particles (dissolution), at face n only remove (growth out). -/
theorem netFlux_zero_nonpos (n : Nat) (flux psd dR : Nat → α)
    (hpsd : ∀ i, 0 ≤ psd i) (hdR : ∀ i, 0 < dR i) :
    netFlux n flux psd dR 0 ≤ 0 := by
  unfold netFlux
  simp only [show ¬ (1 ≤ 0) by omega, false_and, if_false, add_zero]
  split
  · next h =>
    exact div_nonpos_of_nonpos_of_nonneg
      (mul_nonpos_of_nonpos_of_nonneg (not_lt.mp h.2) (hpsd 0)) (hdR 0).le
  · exact le_refl _

theorem netFlux_last_nonneg (n : Nat) (flux psd dR : Nat → α)
    (hpsd : ∀ i, 0 ≤ psd i) (hdR : ∀ i, 0 < dR i) :
    0 ≤ netFlux n flux psd dR n := by
  unfold netFlux
  simp only [Nat.lt_irrefl, false_and, if_false, zero_add]
  split
  · next h => exact div_nonneg (mul_nonneg h.2.le (hpsd _)) (hdR _).le
  · exact le_refl _

/-- **upwind, growth**: a face with positive growth rate carries `flux·psd/dR` of the class on its
left (j-1) to the class on its right (j), a non-negative number. -/
theorem netFlux_growth (n j : Nat) (flux psd dR : Nat → α) (hj : 1 ≤ j) (hf : 0 < flux j) :
    netFlux n flux psd dR j = flux j * psd (j-1) / dR (j-1) := by
  unfold netFlux; simp [hf, hj]

/-- **upwind, dissolution**: a face with non-positive growth rate carries `flux·psd/dR` of the class
on its right (j) to the class on its left (j-1), a non-positive number. -/
theorem netFlux_dissolution (n j : Nat) (flux psd dR : Nat → α) (hj : j < n) (hf : flux j ≤ 0) :
    netFlux n flux psd dR j = flux j * psd j / dR j := by
  unfold netFlux; simp [not_lt.mpr hf, hj]

theorem netFlux_sign_growth (n j : Nat) (flux psd dR : Nat → α)
    (hpsd : ∀ i, 0 ≤ psd i) (hdR : ∀ i, 0 < dR i) (hf : 0 < flux j) :
    0 ≤ netFlux n flux psd dR j := by
  unfold netFlux
  simp only [hf, not_true_eq_false, and_false, if_false, zero_add, and_true]
  split
  · exact div_nonneg (mul_nonneg hf.le (hpsd _)) (hdR _).le
  · exact le_refl _

theorem netFlux_sign_dissolution (n j : Nat) (flux psd dR : Nat → α)
    (hpsd : ∀ i, 0 ≤ psd i) (hdR : ∀ i, 0 < dR i) (hf : flux j ≤ 0) :
    netFlux n flux psd dR j ≤ 0 := by
  unfold netFlux
  simp only [not_lt.mpr hf, not_false_eq_true, and_true, and_false, if_false, add_zero]
  split
  · exact div_nonpos_of_nonpos_of_nonneg (mul_nonpos_of_nonpos_of_nonneg hf (hpsd _)) (hdR _).le
  · exact le_refl _

/-- **adjacent only**: the flux across face j is determined by the growth rate at that face and
the population/width of the two classes touching it — no other class takes part. -/
theorem netFlux_local (n j : Nat) (flux flux' psd psd' dR dR' : Nat → α)
    (hf : flux j = flux' j) (h1 : psd j = psd' j) (h2 : psd (j-1) = psd' (j-1))
    (h3 : dR j = dR' j) (h4 : dR (j-1) = dR' (j-1)) :
    netFlux n flux psd dR j = netFlux n flux' psd' dR' j := by
  unfold netFlux; rw [hf, h1, h2, h3, h4]

/-- the rate of change of class i is the signed sum of its two faces plus nucleation, nothing else -/
theorem dXdt_two_faces (nf : Nat → α) (k : Nat) (r : α) (i : Nat) (hi : i ≠ k) :
    dXdt nf k r i = nf i - nf (i+1) := by
  unfold dXdt; simp [hi]

/-! ### nucleation class -/

theorem argmaxFirst_spec (p : Nat → Bool) (len i : Nat) (hi : i < len) (hp : p i = true)
    (hmin : ∀ j, j < i → p j = false) : argmaxFirst p len = i := by
  unfold argmaxFirst
  have : (List.range len).find? (fun i => p i) = some i := by
    rw [List.find?_eq_some_iff_getElem]
    refine ⟨hp, i, by simpa using hi, by simp, ?_⟩
    intro j hj
    simp only [List.getElem_range]
    simp [hmin j hj]
  rw [this]

theorem argmaxFirst_none (p : Nat → Bool) (len : Nat) (h : ∀ j, j < len → p j = false) :
    argmaxFirst p len = 0 := by
  unfold argmaxFirst
  have : (List.range len).find? (fun i => p i) = none := by
    rw [List.find?_eq_none]; intro x hx; simpa using h x (by simpa using hx)
  rw [this]

/-- **nucleation class**: on a strictly increasing grid, a radius inside the grid puts the nuclei
into the unique class whose interval contains it. -/
theorem nucIndex_inside (n : Nat) (b : Nat → α) (r : α) (i : Nat) (hi : i < n)
    (hmono : ∀ a c, a < c → c ≤ n → b a < b c)
    (hlo : b i ≤ r) (hhi : r < b (i+1)) : nucIndex n b r = i := by
  unfold nucIndex
  have hb0 : ¬ r < b 0 := by
    rcases Nat.eq_zero_or_pos i with h0 | h0
    · subst h0; exact not_lt.mpr hlo
    · exact not_lt.mpr ((hmono 0 i h0 (by omega)).le.trans hlo)
  have h := argmaxFirst_spec (fun j => decide (r < b j)) (n+1) (i+1) (by omega)
    (by simpa using hhi) (by
      intro j hj
      simp only [decide_eq_false_iff_not, not_lt]
      rcases Nat.lt_succ_iff_lt_or_eq.mp hj with h | h
      · exact (hmono j i h (by omega)).le.trans hlo
      · exact h ▸ hlo)
  simp [h, hb0]

/-- uniqueness: no other class contains the radius, so no other class receives nuclei -/
theorem class_unique (n : Nat) (b : Nat → α) (r : α) (i k : Nat) (hi : i < n) (hk : k < n)
    (hmono : ∀ a c, a < c → c ≤ n → b a < b c)
    (hlo : b i ≤ r) (hhi : r < b (i+1)) (hlo' : b k ≤ r) (hhi' : r < b (k+1)) : i = k := by
  rcases Nat.lt_trichotomy i k with h | h | h
  · exfalso
    have : b (i+1) ≤ b k := by
      rcases Nat.lt_or_ge (i+1) k with h' | h'
      · exact (hmono _ _ h' (by omega)).le
      · have : i + 1 = k := by omega
        exact this ▸ le_refl _
    linarith
  · exact h
  · exfalso
    have : b (k+1) ≤ b i := by
      rcases Nat.lt_or_ge (k+1) i with h' | h'
      · exact (hmono _ _ h' (by omega)).le
      · have : k + 1 = i := by omega
        exact this ▸ le_refl _
    linarith

/-- only the nucleation class receives the nucleation term -/
theorem nucleation_only_in_class (nf : Nat → α) (k : Nat) (r : α) (i : Nat) :
    dXdt nf k r i - (nf i - nf (i+1)) = if i = k then r else 0 := by
  unfold dXdt; ring

/-- **outside the grid, below**: a radius below the first boundary selects the FIRST class
(the nearest one).  Before the repair recorded in known_findings.txt (F-C07-nuc-below) the code
selected index -1, the largest class. -/
theorem nucIndex_below (n : Nat) (b : Nat → α) (r : α) (h : r < b 0) : nucIndex n b r = 0 := by
  unfold nucIndex; simp [h]

/-- a radius at or above the last boundary also selects the last class -/
theorem nucIndex_above (n : Nat) (b : Nat → α) (r : α) (h : ∀ j, j ≤ n → b j ≤ r) :
    nucIndex n b r = n - 1 := by
  unfold nucIndex
  have := argmaxFirst_none (fun j => decide (r < b j)) (n+1)
    (by intro j hj; simpa using h j (by omega))
  simp [this, not_lt.mpr (h 0 (by omega))]

/-! ### nucleation radius exactly ON a class boundary (round 5, seed C07-12)

The class of a radius is `[b_k, b_{k+1})`: lower boundary included, upper boundary excluded — the convention of
`np.argmax(PSDbounds > nucRadius) - 1` in getdXdtEuler (first boundary STRICTLY above the radius, minus one).
So a radius on the first boundary belongs to class 0, on an interior boundary `b_k` to class `k` (the class
ABOVE the boundary), on the last boundary to the last class (outside the grid: nearest class).
`nucIdx` is the same index found by scanning the classes; `nucIndex` (the code) equals it on every strictly
increasing grid for EVERY radius.  `nucIndexBisect` is the `np.searchsorted(PSDbounds, r) - 1` variant
(side='left'): it sends `r = b_0` to index −1 = the LAST class on every grid. -/

theorem findRange_spec (p : Nat → Bool) (len i : Nat) (hi : i < len) (hp : p i = true)
    (hmin : ∀ j, j < i → p j = false) : (List.range len).find? (fun i => p i) = some i := by
  rw [List.find?_eq_some_iff_getElem]
  refine ⟨hp, i, by simpa using hi, by simp, ?_⟩
  intro j hj
  simp only [List.getElem_range]
  simp [hmin j hj]

/-- every radius inside the grid lies in some class (no monotonicity needed) -/
theorem exists_class (b : Nat → α) (r : α) : ∀ n, b 0 ≤ r → r < b n →
    ∃ i, i < n ∧ b i ≤ r ∧ r < b (i+1) := by
  intro n
  induction n with
  | zero => intro h0 h1; exact absurd (lt_of_le_of_lt h0 h1) (lt_irrefl _)
  | succ m ih =>
    intro h0 h1
    rcases lt_or_ge r (b m) with h | h
    · obtain ⟨i, hi, h2, h3⟩ := ih h0 h
      exact ⟨i, by omega, h2, h3⟩
    · exact ⟨m, by omega, h, h1⟩

/-- the scan finds the class that contains the radius -/
theorem nucIdx_inside (n : Nat) (b : Nat → α) (r : α) (i : Nat) (hi : i < n)
    (hmono : ∀ a c, a < c → c ≤ n → b a < b c)
    (hlo : b i ≤ r) (hhi : r < b (i+1)) : nucIdx n b r = i := by
  unfold nucIdx
  have h := findRange_spec (fun k => decide (r < b (k+1))) n i hi (by simpa using hhi) (by
    intro j hj
    simp only [decide_eq_false_iff_not, not_lt]
    rcases Nat.lt_or_ge (j+1) i with h | h
    · exact (hmono (j+1) i h (by omega)).le.trans hlo
    · have : j + 1 = i := by omega
      exact this ▸ hlo)
  rw [h]

/-- **`nucIdx_contains`**: for a radius inside the grid the scanned class is a class of the grid and CONTAINS the
radius, `b k ≤ r < b (k+1)` -/
theorem nucIdx_contains (n : Nat) (b : Nat → α) (r : α)
    (hmono : ∀ a c, a < c → c ≤ n → b a < b c) (hlo : b 0 ≤ r) (hhi : r < b n) :
    nucIdx n b r < n ∧ b (nucIdx n b r) ≤ r ∧ r < b (nucIdx n b r + 1) := by
  obtain ⟨i, hi, h1, h2⟩ := exists_class b r n hlo hhi
  rw [nucIdx_inside n b r i hi hmono h1 h2]
  exact ⟨hi, h1, h2⟩

/-- the same for the index the code computes -/
theorem nucIndex_contains (n : Nat) (b : Nat → α) (r : α)
    (hmono : ∀ a c, a < c → c ≤ n → b a < b c) (hlo : b 0 ≤ r) (hhi : r < b n) :
    nucIndex n b r < n ∧ b (nucIndex n b r) ≤ r ∧ r < b (nucIndex n b r + 1) := by
  obtain ⟨i, hi, h1, h2⟩ := exists_class b r n hlo hhi
  rw [nucIndex_inside n b r i hi hmono h1 h2]
  exact ⟨hi, h1, h2⟩

/-- a radius below the first boundary: the scan gives the first class -/
theorem nucIdx_below (n : Nat) (b : Nat → α) (r : α)
    (hmono : ∀ a c, a < c → c ≤ n → b a < b c) (h : r < b 0) : nucIdx n b r = 0 := by
  rcases Nat.eq_zero_or_pos n with h0 | h0
  · subst h0; unfold nucIdx; simp
  · unfold nucIdx
    have := findRange_spec (fun k => decide (r < b (k+1))) n 0 h0
      (by simpa using h.trans (hmono 0 1 (by omega) (by omega))) (by intro j hj; omega)
    rw [this]

/-- a radius at or above the last boundary: the scan gives the last class -/
theorem nucIdx_above (n : Nat) (b : Nat → α) (r : α) (h : ∀ j, j ≤ n → b j ≤ r) :
    nucIdx n b r = n - 1 := by
  unfold nucIdx
  have : (List.range n).find? (fun k => decide (r < b (k+1))) = none := by
    rw [List.find?_eq_none]; intro x hx
    have hx' : x < n := by simpa using hx
    simpa using h (x+1) (by omega)
  rw [this]

/-- **the code's index is the scanned class, for EVERY radius** (inside, on a boundary, below, above) on every
strictly increasing grid -/
theorem nucIndex_eq_nucIdx (n : Nat) (b : Nat → α) (r : α)
    (hmono : ∀ a c, a < c → c ≤ n → b a < b c) : nucIndex n b r = nucIdx n b r := by
  rcases lt_or_ge r (b 0) with h0 | h0
  · rw [nucIndex_below n b r h0, nucIdx_below n b r hmono h0]
  · rcases lt_or_ge r (b n) with h1 | h1
    · obtain ⟨i, hi, h2, h3⟩ := exists_class b r n h0 h1
      rw [nucIndex_inside n b r i hi hmono h2 h3, nucIdx_inside n b r i hi hmono h2 h3]
    · have hall : ∀ j, j ≤ n → b j ≤ r := by
        intro j hj
        rcases Nat.lt_or_ge j n with h | h
        · exact (hmono j n h (le_refl _)).le.trans h1
        · have : j = n := by omega
          exact this ▸ h1
      rw [nucIndex_above n b r hall, nucIdx_above n b r hall]

/-- **`nucIdx_first_boundary`**: a radius exactly on the FIRST boundary enters class 0 -/
theorem nucIdx_first_boundary (n : Nat) (b : Nat → α) (hn : 1 ≤ n)
    (hmono : ∀ a c, a < c → c ≤ n → b a < b c) : nucIdx n b (b 0) = 0 :=
  nucIdx_inside n b (b 0) 0 (by omega) hmono (le_refl _) (hmono 0 1 (by omega) (by omega))

/-- a radius exactly on boundary `b k`, `k < n` (first or interior), enters class `k`: the class whose LOWER
boundary it is (getdXdtEuler's convention `PSDbounds > nucRadius`, strict) -/
theorem nucIndex_on_boundary (n : Nat) (b : Nat → α) (k : Nat) (hk : k < n)
    (hmono : ∀ a c, a < c → c ≤ n → b a < b c) : nucIndex n b (b k) = k :=
  nucIndex_inside n b (b k) k hk hmono (le_refl _) (hmono k (k+1) (by omega) (by omega))

theorem nucIndex_first_boundary (n : Nat) (b : Nat → α) (hn : 1 ≤ n)
    (hmono : ∀ a c, a < c → c ≤ n → b a < b c) : nucIndex n b (b 0) = 0 :=
  nucIndex_on_boundary n b 0 (by omega) hmono

/-- … and never the last class when there is more than one class -/
theorem nucIndex_first_boundary_ne_last (n : Nat) (b : Nat → α) (hn : 2 ≤ n)
    (hmono : ∀ a c, a < c → c ≤ n → b a < b c) : nucIndex n b (b 0) ≠ n - 1 := by
  rw [nucIndex_first_boundary n b (by omega) hmono]; omega

/-- a radius exactly on the LAST boundary enters the last class -/
theorem nucIndex_last_boundary (n : Nat) (b : Nat → α)
    (hmono : ∀ a c, a < c → c ≤ n → b a < b c) : nucIndex n b (b n) = n - 1 := by
  apply nucIndex_above
  intro j hj
  rcases Nat.lt_or_ge j n with h | h
  · exact (hmono j n h (le_refl _)).le
  · have : j = n := by omega
    exact this ▸ le_refl _

/-- **nuclei enter exactly the class that contains the radius**: for ANY face fluxes `nf` (so for the rate of
getdXdtEuler and for the corrected rate of correctdXdtEuler alike), the nucleation term of class `i` is the
nucleation rate if `b i ≤ r < b (i+1)` and 0 otherwise -/
theorem nucleation_enters_containing_class (n : Nat) (b nf : Nat → α) (r rate : α) (i : Nat) (hi : i < n)
    (hmono : ∀ a c, a < c → c ≤ n → b a < b c) (hlo : b 0 ≤ r) (hhi : r < b n) :
    dXdt nf (nucIndex n b r) rate i - (nf i - nf (i+1)) = if b i ≤ r ∧ r < b (i+1) then rate else 0 := by
  obtain ⟨hk, h1, h2⟩ := nucIndex_contains n b r hmono hlo hhi
  rw [nucleation_only_in_class]
  by_cases h : i = nucIndex n b r
  · rw [if_pos h, if_pos (by rw [h]; exact ⟨h1, h2⟩)]
  · rw [if_neg h, if_neg]
    rintro ⟨h3, h4⟩
    exact h (class_unique n b r i _ hi hk hmono h3 h4 h1 h2)

/-- getdXdtEuler and correctdXdtEuler put the nucleation term into the same class with the same value: the
corrected rate differs from the uncorrected one by the face fluxes only -/
theorem nucleation_same_after_correction (n : Nat) (dt : α) (psd nf : Nat → α) (k : Nat) (rate : α) (i : Nat) :
    dXdt (correctedFlux n dt psd nf) k rate i - (correctedFlux n dt psd nf i - correctedFlux n dt psd nf (i+1))
      = dXdt nf k rate i - (nf i - nf (i+1)) := by
  rw [nucleation_only_in_class, nucleation_only_in_class]

/-! the `np.searchsorted` (side='left') variant of the index — NOT the code; kept as the witness of what the
strict/non-strict comparison at a boundary decides -/

/-- `np.searchsorted(a, v)` (side='left') on an increasing array of length `len`: first index with `v ≤ a i`,
`len` if none -/
def searchsortedLeft (a : Nat → α) (len : Nat) (v : α) : Nat :=
  match (List.range len).find? (fun i => decide (v ≤ a i)) with
  | some i => i
  | none => len

/-- `nRad = min(np.searchsorted(PSDbounds, r) - 1, bins - 1)`, then the guard `r < PSDbounds[0] → 0`, used as a
Python index into an array of length n (−1 wraps to the last class) -/
def nucIndexBisect (n : Nat) (b : Nat → α) (r : α) : Nat :=
  if r < b 0 then 0 else
  let s := searchsortedLeft b (n+1) r
  if s = 0 then n - 1 else min (s - 1) (n - 1)

/-- on EVERY grid the bisect variant sends a radius exactly on the first boundary to index −1, the LAST class
(the strict guard `r < b 0` does not apply) -/
theorem nucIndexBisect_first_boundary (n : Nat) (b : Nat → α) : nucIndexBisect n b (b 0) = n - 1 := by
  unfold nucIndexBisect searchsortedLeft
  have := findRange_spec (fun i => decide (b 0 ≤ b i)) (n+1) 0 (by omega) (by simp) (by intro j hj; omega)
  simp [this]

/-- … which does not contain that radius as soon as there are two classes -/
theorem nucIndexBisect_first_boundary_wrong (n : Nat) (b : Nat → α) (hn : 2 ≤ n)
    (hmono : ∀ a c, a < c → c ≤ n → b a < b c) :
    ¬ (b (nucIndexBisect n b (b 0)) ≤ b 0) ∧ nucIndexBisect n b (b 0) ≠ nucIndex n b (b 0) := by
  rw [nucIndexBisect_first_boundary, nucIndex_first_boundary n b (by omega) hmono]
  exact ⟨not_le.mpr (hmono 0 (n-1) (by omega) (by omega)), by omega⟩

/-- concrete witnesses on ℚ, grid 0,1,2,3 (a grid starting at R = 0, nucleation radius 0): the code's index is
class 0, the bisect variant gives class 2 = [2,3); on the interior boundary 1 the code gives class 1 = [1,2), the
variant class 0 = [0,1), which does not contain 1 -/
theorem bisect_witness_first : nucIndex 3 (fun i => (i:ℚ)) 0 = 0 ∧ nucIndexBisect 3 (fun i => (i:ℚ)) 0 = 2 := by
  refine ⟨?_, ?_⟩
  · have := nucIndex_first_boundary 3 (fun i => (i:ℚ)) (by omega) (by intro a c h _; exact_mod_cast h)
    simpa using this
  · have := nucIndexBisect_first_boundary 3 (fun i => (i:ℚ))
    simpa using this

theorem bisect_witness_interior : nucIndex 3 (fun i => (i:ℚ)) 1 = 1 ∧ nucIndexBisect 3 (fun i => (i:ℚ)) 1 = 0 := by
  refine ⟨?_, ?_⟩
  · have := nucIndex_on_boundary 3 (fun i => (i:ℚ)) 1 (by omega) (by intro a c h _; exact_mod_cast h)
    simpa using this
  · decide +kernel

/-! ### limiter

`correctedFlux = limitOut ∘ faceLimited`: two face-wise passes (`faceLimited`, all the code had before the
repair recorded in known_findings.txt as `fixed: property=C07 … total outflow`) and the class-wise third pass
`limitOut`.  The lemmas about `faceLimited` document what the first two passes achieve alone; the theorems
about `correctedFlux` are what the solver applies. -/

theorem pos0_nonneg (x : α) : 0 ≤ pos0 x := by
  unfold pos0; split
  · next h => exact h.le
  · exact le_refl _

theorem le_pos0 (x : α) : x ≤ pos0 x := by
  unfold pos0; split
  · exact le_refl _
  · next h => exact not_lt.mp h

theorem pos0_of_pos {x : α} (h : 0 < x) : pos0 x = x := by unfold pos0; simp [h]

theorem pos0_of_nonpos {x : α} (h : x ≤ 0) : pos0 x = 0 := by unfold pos0; simp [not_lt.mpr h]

theorem pos0_pos_iff (x : α) : 0 < pos0 x ↔ 0 < x := by
  unfold pos0; split
  · next h => simp [h]
  · next h => simp [h]

theorem pos0_mul_nonneg (x c : α) (hc : 0 ≤ c) : pos0 (x * c) = pos0 x * c := by
  rcases lt_or_ge 0 x with hx | hx
  · rcases hc.lt_or_eq with hc' | hc'
    · rw [pos0_of_pos hx, pos0_of_pos (mul_pos hx hc')]
    · subst hc'; simp [pos0]
  · rw [pos0_of_nonpos hx, pos0_of_nonpos (mul_nonpos_of_nonpos_of_nonneg hx hc)]; simp

theorem outflow_nonneg (g : Nat → α) (i : Nat) : 0 ≤ outflow g i :=
  add_nonneg (pos0_nonneg _) (pos0_nonneg _)

/-- the factor the third pass applies to the outflow faces of class i -/
def scaleOf (dt : α) (psd g : Nat → α) (i : Nat) : α :=
  if psd i < outflow g i * dt then psd i / (outflow g i * dt) else 1

theorem scaleOf_nonneg (dt : α) (psd g : Nat → α) (i : Nat) (hpsd : ∀ j, 0 ≤ psd j) :
    0 ≤ scaleOf dt psd g i := by
  unfold scaleOf; split
  · next h => exact div_nonneg (hpsd i) (lt_of_le_of_lt (hpsd i) h).le
  · exact zero_le_one

/-- the factor never exceeds 1: the third pass only ever reduces the magnitude of a face flux -/
theorem scaleOf_le_one (dt : α) (psd g : Nat → α) (i : Nat) (hpsd : ∀ j, 0 ≤ psd j) :
    scaleOf dt psd g i ≤ 1 := by
  unfold scaleOf; split
  · next h => exact (div_le_one (lt_of_le_of_lt (hpsd i) h)).mpr h.le
  · exact le_refl _

theorem outflow_scaled (dt : α) (psd g : Nat → α) (i : Nat) (hdt : 0 < dt) (hpsd : ∀ j, 0 ≤ psd j) :
    outflow g i * scaleOf dt psd g i * dt ≤ psd i := by
  unfold scaleOf; split
  · next h =>
    have hpos : 0 < outflow g i * dt := lt_of_le_of_lt (hpsd i) h
    have ho : 0 < outflow g i := by
      by_contra hh
      have := mul_nonpos_of_nonpos_of_nonneg (not_lt.mp hh) hdt.le
      linarith
    have ho' := ho.ne'
    have hd' := hdt.ne'
    have : outflow g i * (psd i / (outflow g i * dt)) * dt = psd i := by field_simp
    rw [this]
  · next h => simpa using not_lt.mp h

/-- the third pass, face by face, as a multiplication by the factor of the class the face drains -/
theorem limitOut_eq (n : Nat) (dt : α) (psd g : Nat → α) (j : Nat) :
    limitOut n dt psd g j =
      if j < n ∧ 0 < - g j then g j * scaleOf dt psd g j
      else if 1 ≤ j ∧ j ≤ n ∧ 0 < g j then g j * scaleOf dt psd g (j-1) else g j := by
  unfold limitOut scaleOf
  simp only [pos0_pos_iff, mul_ite, mul_one]

/-- the third pass never reverses a face flux -/
theorem limitOut_nonpos (n : Nat) (dt : α) (psd g : Nat → α) (j : Nat) (hpsd : ∀ j, 0 ≤ psd j)
    (h : g j ≤ 0) : limitOut n dt psd g j ≤ 0 := by
  rw [limitOut_eq]; split_ifs
  · exact mul_nonpos_of_nonpos_of_nonneg h (scaleOf_nonneg dt psd g _ hpsd)
  · exact mul_nonpos_of_nonpos_of_nonneg h (scaleOf_nonneg dt psd g _ hpsd)
  · exact h

theorem limitOut_nonneg (n : Nat) (dt : α) (psd g : Nat → α) (j : Nat) (hpsd : ∀ j, 0 ≤ psd j)
    (h : 0 ≤ g j) : 0 ≤ limitOut n dt psd g j := by
  rw [limitOut_eq]; split_ifs
  · exact mul_nonneg h (scaleOf_nonneg dt psd g _ hpsd)
  · exact mul_nonneg h (scaleOf_nonneg dt psd g _ hpsd)
  · exact h

/-- what leaves class i through its left face after the third pass -/
theorem limitOut_outLeft (n : Nat) (dt : α) (psd g : Nat → α) (i : Nat) (hi : i < n)
    (hpsd : ∀ j, 0 ≤ psd j) :
    pos0 (- limitOut n dt psd g i) = pos0 (- g i) * scaleOf dt psd g i := by
  by_cases h : 0 < - g i
  · rw [limitOut_eq, if_pos ⟨hi, h⟩, ← neg_mul, pos0_mul_nonneg _ _ (scaleOf_nonneg dt psd g i hpsd)]
  · have hg : 0 ≤ g i := by linarith [not_lt.mp h]
    rw [pos0_of_nonpos (not_lt.mp h), zero_mul]
    apply pos0_of_nonpos
    linarith [limitOut_nonneg n dt psd g i hpsd hg]

/-- what leaves class i through its right face after the third pass -/
theorem limitOut_outRight (n : Nat) (dt : α) (psd g : Nat → α) (i : Nat) (hi : i < n)
    (hpsd : ∀ j, 0 ≤ psd j) :
    pos0 (limitOut n dt psd g (i+1)) = pos0 (g (i+1)) * scaleOf dt psd g i := by
  by_cases h : 0 < g (i+1)
  · have h1 : ¬ (i+1 < n ∧ 0 < - g (i+1)) := fun hh => by linarith [hh.2]
    rw [limitOut_eq, if_neg h1, if_pos ⟨by omega, by omega, h⟩]
    simp only [Nat.add_sub_cancel]
    exact pos0_mul_nonneg _ _ (scaleOf_nonneg dt psd g i hpsd)
  · have hg : g (i+1) ≤ 0 := not_lt.mp h
    rw [pos0_of_nonpos hg, zero_mul]
    exact pos0_of_nonpos (limitOut_nonpos n dt psd g (i+1) hpsd hg)

/-- every face is an outflow face of exactly one class, so the total outflow of class i is scaled by
the factor of class i and by nothing else -/
theorem outflow_limitOut (n : Nat) (dt : α) (psd g : Nat → α) (i : Nat) (hi : i < n)
    (hpsd : ∀ j, 0 ≤ psd j) :
    outflow (limitOut n dt psd g) i = outflow g i * scaleOf dt psd g i := by
  unfold outflow
  rw [limitOut_outLeft n dt psd g i hi hpsd, limitOut_outRight n dt psd g i hi hpsd]; ring

/-- **(a) total outflow**: after the correction, what leaves class i through BOTH faces in `dt` is at
most what the class holds — for every distribution ≥ 0, all face fluxes (hence every growth field and
every class width), every dt > 0. -/
theorem corrected_total_outflow (n : Nat) (dt : α) (psd nf : Nat → α) (i : Nat) (hi : i < n)
    (hdt : 0 < dt) (hpsd : ∀ j, 0 ≤ psd j) :
    outflow (correctedFlux n dt psd nf) i * dt ≤ psd i := by
  unfold correctedFlux
  rw [outflow_limitOut n dt psd _ i hi hpsd]
  exact outflow_scaled dt psd _ i hdt hpsd

/-- **(b) never negative, unconditionally**: the Euler update with the corrected rate of change leaves
every class non-negative — no hypothesis about the step limit, the dissolution index or the growth field. -/
theorem corrected_update_nonneg (n : Nat) (dt : α) (psd nf : Nat → α) (i : Nat) (hi : i < n)
    (k : Nat) (r : α) (hr : 0 ≤ r) (hdt : 0 < dt) (hpsd : ∀ j, 0 ≤ psd j) :
    0 ≤ psd i + dt * dXdt (correctedFlux n dt psd nf) k r i := by
  have ha := corrected_total_outflow n dt psd nf i hi hdt hpsd
  have h1 := le_pos0 (- correctedFlux n dt psd nf i)
  have h2 := le_pos0 (correctedFlux n dt psd nf (i+1))
  have h3 : (- correctedFlux n dt psd nf i + correctedFlux n dt psd nf (i+1)) * dt
      ≤ outflow (correctedFlux n dt psd nf) i * dt := by
    apply mul_le_mul_of_nonneg_right _ hdt.le
    unfold outflow; linarith
  have hnuc : 0 ≤ dt * (if i = k then r else 0) := by
    apply mul_nonneg hdt.le; split <;> [exact hr; exact le_refl _]
  unfold dXdt
  have : psd i + dt * (correctedFlux n dt psd nf i - correctedFlux n dt psd nf (i+1) + if i = k then r else 0)
      = psd i - (- correctedFlux n dt psd nf i + correctedFlux n dt psd nf (i+1)) * dt
        + dt * (if i = k then r else 0) := by ring
  rw [this]; linarith

/-- (b) for the solver's own fluxes: any growth field `flux`, any class widths `dR` (not even positivity
of the widths is needed), nucleation rate ≥ 0 into any class. -/
theorem corrected_update_nonneg_pbm (n : Nat) (dt : α) (flux psd dR : Nat → α) (i : Nat) (hi : i < n)
    (k : Nat) (r : α) (hr : 0 ≤ r) (hdt : 0 < dt) (hpsd : ∀ j, 0 ≤ psd j) :
    0 ≤ psd i + dt * dXdt (correctedFlux n dt psd (netFlux n flux psd dR)) k r i :=
  corrected_update_nonneg n dt psd _ i hi k r hr hdt hpsd

/-- **limiter, left face**: after the correction class i loses at most what it holds through its
left face: `-psd i ≤ dt · nf' i` (a consequence of the bound on the total outflow). -/
theorem limiter_left (n : Nat) (dt : α) (psd nf : Nat → α) (i : Nat) (hi : i < n)
    (hdt : 0 < dt) (hpsd : ∀ j, 0 ≤ psd j) :
    - psd i ≤ correctedFlux n dt psd nf i * dt := by
  have ha := corrected_total_outflow n dt psd nf i hi hdt hpsd
  have h1 := le_pos0 (- correctedFlux n dt psd nf i)
  have h2 := pos0_nonneg (correctedFlux n dt psd nf (i+1))
  have h3 : (- correctedFlux n dt psd nf i) * dt ≤ outflow (correctedFlux n dt psd nf) i * dt := by
    apply mul_le_mul_of_nonneg_right _ hdt.le
    unfold outflow; linarith
  linarith

/-- **limiter, right face**: class i loses at most what it holds through its right face:
`dt · nf' (i+1) ≤ psd i`. -/
theorem limiter_right (n : Nat) (dt : α) (psd nf : Nat → α) (i : Nat) (hi : i < n)
    (hdt : 0 < dt) (hpsd : ∀ j, 0 ≤ psd j) :
    correctedFlux n dt psd nf (i+1) * dt ≤ psd i := by
  have ha := corrected_total_outflow n dt psd nf i hi hdt hpsd
  have h1 := pos0_nonneg (- correctedFlux n dt psd nf i)
  have h2 := le_pos0 (correctedFlux n dt psd nf (i+1))
  have h3 : correctedFlux n dt psd nf (i+1) * dt ≤ outflow (correctedFlux n dt psd nf) i * dt := by
    apply mul_le_mul_of_nonneg_right _ hdt.le
    unfold outflow; linarith
  linarith

/-- the two face-wise passes alone: left face -/
theorem faceLimited_left (n : Nat) (dt : α) (psd nf : Nat → α) (i : Nat) (hi : i < n)
    (hdt : 0 < dt) (hpsd : ∀ j, 0 ≤ psd j) :
    - psd i ≤ faceLimited n dt psd nf i * dt := by
  unfold faceLimited limitAbove
  split
  · next h =>
    have : psd (i-1) / dt * dt = psd (i-1) := by field_simp
    rw [this]; linarith [hpsd i, hpsd (i-1)]
  · unfold limitBelow
    split
    · next h =>
      have : - psd i / dt * dt = - psd i := by field_simp
      rw [this]
    · next h =>
      have : ¬ nf i * dt < - psd i := fun hh => h ⟨hi, hh⟩
      exact not_lt.mp this

/-- the two face-wise passes alone: right face -/
theorem faceLimited_right (n : Nat) (dt : α) (psd nf : Nat → α) (i : Nat) (hi : i < n)
    (hdt : 0 < dt) :
    faceLimited n dt psd nf (i+1) * dt ≤ psd i := by
  unfold faceLimited limitAbove
  split
  · next h =>
    have : psd (i+1-1) / dt * dt = psd (i+1-1) := by field_simp
    rw [this]; simp
  · next h =>
    have h' : ¬ psd (i+1-1) < limitBelow n dt psd nf (i+1) * dt :=
      fun hh => h ⟨by omega, by omega, hh⟩
    simpa using not_lt.mp h'

theorem faceLimited_zero_nonpos (n : Nat) (dt : α) (psd nf : Nat → α)
    (hdt : 0 < dt) (hpsd : ∀ j, 0 ≤ psd j) (h0 : nf 0 ≤ 0) :
    faceLimited n dt psd nf 0 ≤ 0 := by
  unfold faceLimited limitAbove
  simp only [show ¬ (1 ≤ 0) by omega, false_and, if_false]
  unfold limitBelow
  split
  · exact div_nonpos_of_nonpos_of_nonneg (neg_nonpos.mpr (hpsd 0)) hdt.le
  · exact h0

theorem faceLimited_last_nonneg (n : Nat) (dt : α) (psd nf : Nat → α)
    (hdt : 0 < dt) (hpsd : ∀ j, 0 ≤ psd j) (hn : 0 ≤ nf n) :
    0 ≤ faceLimited n dt psd nf n := by
  unfold faceLimited limitAbove
  split
  · exact div_nonneg (hpsd _) hdt.le
  · unfold limitBelow; simp [hn]

/-- the correction never changes the direction of a face flux into growth at face 0 or dissolution
at face n: the ends stay one-sided (so the corrected budget still only *removes* at the ends). -/
theorem corrected_zero_nonpos (n : Nat) (dt : α) (psd nf : Nat → α)
    (hdt : 0 < dt) (hpsd : ∀ j, 0 ≤ psd j) (h0 : nf 0 ≤ 0) :
    correctedFlux n dt psd nf 0 ≤ 0 :=
  limitOut_nonpos n dt psd _ 0 hpsd (faceLimited_zero_nonpos n dt psd nf hdt hpsd h0)

theorem corrected_last_nonneg (n : Nat) (dt : α) (psd nf : Nat → α)
    (hdt : 0 < dt) (hpsd : ∀ j, 0 ≤ psd j) (hn : 0 ≤ nf n) :
    0 ≤ correctedFlux n dt psd nf n :=
  limitOut_nonneg n dt psd _ n hpsd (faceLimited_last_nonneg n dt psd nf hdt hpsd hn)

/-! ### step limit and non-negativity -/

theorem le_maxList_foldl (xs : List α) (a : α) :
    a ≤ xs.foldl (fun a b => if a < b then b else a) a ∧
    ∀ x ∈ xs, x ≤ xs.foldl (fun a b => if a < b then b else a) a := by
  induction xs generalizing a with
  | nil => simp
  | cons y ys ih =>
    simp only [List.foldl_cons, List.mem_cons]
    obtain ⟨h1, h2⟩ := ih (if a < y then y else a)
    refine ⟨le_trans ?_ h1, ?_⟩
    · split <;> [exact le_of_lt ‹_›; exact le_refl _]
    · intro x hx
      rcases hx with rfl | hx
      · refine le_trans ?_ h1
        split <;> [exact le_refl _; exact not_lt.mp ‹_›]
      · exact h2 x hx

theorem le_maxList (xs : List α) (x : α) (hx : x ∈ xs) : x ≤ maxList xs := by
  cases xs with
  | nil => simp at hx
  | cons y ys =>
    unfold maxList
    obtain ⟨h1, h2⟩ := le_maxList_foldl ys y
    rcases List.mem_cons.mp hx with rfl | h
    · exact h1
    · exact h2 x h

theorem absS_eq_abs (x : α) : absS x = |x| := by
  unfold absS; split
  · next h => exact (abs_of_neg h).symm
  · next h => exact (abs_of_nonneg (not_lt.mp h)).symm

/-- **step limit**: the returned step moves the fastest relevant face (a left face of a populated
class at or above the dissolution index) by exactly `ratio` class widths, hence every relevant
face by at most that. -/
theorem getDT_limits (n d : Nat) (currDT ratio : α) (growth psd bounds : Nat → α)
    (j : Nat) (hj : j < n) (hd : d ≤ j) (hp : 0 < psd j) (hg : growth j ≠ 0)
    (hr : 0 ≤ ratio) (hb : bounds 0 < bounds 1) :
    getDT n d currDT ratio growth psd bounds * |growth j| ≤ ratio * (bounds 1 - bounds 0) := by
  unfold getDT
  have hmem : j ∈ dtFilter n d psd := by
    unfold dtFilter; simp [hj, hd, hp]
  have hne : dtFilter n d psd ≠ [] := List.ne_nil_of_mem hmem
  cases hL : dtFilter n d psd with
  | nil => exact absurd hL hne
  | cons a as =>
    simp only
    rw [← hL]
    have hle : |growth j| ≤ maxList ((dtFilter n d psd).map (fun j => absS (growth j))) := by
      apply le_maxList
      rw [← absS_eq_abs]
      exact List.mem_map.mpr ⟨j, hmem, rfl⟩
    have hpos : 0 < maxList ((dtFilter n d psd).map (fun j => absS (growth j))) :=
      lt_of_lt_of_le (abs_pos.mpr hg) hle
    simp only [hpos, or_true, if_true]
    rw [div_mul_eq_mul_div, div_le_iff₀ hpos]
    exact mul_le_mul_of_nonneg_left hle (mul_nonneg hr (sub_pos.mpr hb).le)

/-- the limit is the configured ratio of the class width over the fastest relevant rate:
it is *attained* (equality for the maximiser) -/
theorem getDT_formula (n d : Nat) (currDT ratio : α) (growth psd bounds : Nat → α)
    (hne : dtFilter n d psd ≠ [])
    (hm : 0 < maxList ((dtFilter n d psd).map (fun j => absS (growth j)))) :
    getDT n d currDT ratio growth psd bounds
      = ratio * (bounds 1 - bounds 0) / maxList ((dtFilter n d psd).map (fun j => absS (growth j))) := by
  unfold getDT
  cases hL : dtFilter n d psd with
  | nil => exact absurd hL hne
  | cons a as => simp only; rw [← hL]; simp [hm]

/-- no populated class above the dissolution index, or all of them static: keep the current step -/
theorem getDT_empty (n d : Nat) (currDT ratio : α) (growth psd bounds : Nat → α)
    (h : dtFilter n d psd = []) : getDT n d currDT ratio growth psd bounds = currDT := by
  unfold getDT; rw [h]

/-- **non-negativity under the limit**: if both faces of class i move by at most `ratio ≤ 1/2`
class widths in `dt`, the class stays non-negative after an Euler step of the *uncorrected*
rate of change (nucleation can only add). -/
theorem nonneg_under_limit (n : Nat) (flux psd dR : Nat → α) (i : Nat) (hi : i < n) (dt ratio : α)
    (k : Nat) (r : α) (hr : 0 ≤ r)
    (hdt : 0 < dt) (hpsd : ∀ j, 0 ≤ psd j) (hdR : ∀ j, 0 < dR j)
    (hratio : ratio ≤ 1/2)
    (hl : dt * |flux i| ≤ ratio * dR i) (hrr : dt * |flux (i+1)| ≤ ratio * dR i) :
    0 ≤ psd i + dt * dXdt (netFlux n flux psd dR) k r i := by
  -- loss through left face ≤ ratio * psd i ; loss through right face ≤ ratio * psd i
  have hdRi := hdR i
  have hpi := hpsd i
  have hL : - (ratio * psd i) ≤ dt * netFlux n flux psd dR i := by
    by_cases hf : 0 < flux i
    · have := netFlux_sign_growth n i flux psd dR hpsd hdR hf
      have h2 : 0 ≤ dt * netFlux n flux psd dR i := mul_nonneg hdt.le this
      have h3 : 0 ≤ ratio * psd i := by
        have : 0 ≤ ratio * dR i := le_trans (mul_nonneg hdt.le (abs_nonneg _)) hl
        have : 0 ≤ ratio := nonneg_of_mul_nonneg_left this hdRi
        exact mul_nonneg this hpi
      linarith
    · have hf' : flux i ≤ 0 := not_lt.mp hf
      rw [netFlux_dissolution n i flux psd dR hi hf']
      rw [abs_of_nonpos hf'] at hl
      have : dt * (flux i * psd i / dR i) = - ((dt * -flux i) * psd i / dR i) := by ring
      rw [this, neg_le_neg_iff, div_le_iff₀ hdRi]
      calc dt * -flux i * psd i ≤ ratio * dR i * psd i := mul_le_mul_of_nonneg_right hl hpi
        _ = ratio * psd i * dR i := by ring
  have hR : dt * netFlux n flux psd dR (i+1) ≤ ratio * psd i := by
    by_cases hf : 0 < flux (i+1)
    · rw [netFlux_growth n (i+1) flux psd dR (by omega) hf]
      simp only [Nat.add_sub_cancel]
      rw [abs_of_pos hf] at hrr
      have : dt * (flux (i+1) * psd i / dR i) = (dt * flux (i+1)) * psd i / dR i := by ring
      rw [this, div_le_iff₀ hdRi]
      calc dt * flux (i+1) * psd i ≤ ratio * dR i * psd i := mul_le_mul_of_nonneg_right hrr hpi
        _ = ratio * psd i * dR i := by ring
    · have hf' : flux (i+1) ≤ 0 := not_lt.mp hf
      have := netFlux_sign_dissolution n (i+1) flux psd dR hpsd hdR hf'
      have h2 : dt * netFlux n flux psd dR (i+1) ≤ 0 := mul_nonpos_of_nonneg_of_nonpos hdt.le this
      have h3 : 0 ≤ ratio * psd i := by
        have : 0 ≤ ratio * dR i := le_trans (mul_nonneg hdt.le (abs_nonneg _)) hrr
        have : 0 ≤ ratio := nonneg_of_mul_nonneg_left this hdRi
        exact mul_nonneg this hpi
      linarith
  unfold dXdt
  have hnuc : 0 ≤ dt * (if i = k then r else 0) := by
    apply mul_nonneg hdt.le; split <;> [exact hr; exact le_refl _]
  have h2 : 2 * (ratio * psd i) ≤ psd i := by nlinarith
  nlinarith

/-- **non-negativity after correction** (fluxes only, no nucleation term): with the corrected face
fluxes no class becomes negative in an Euler step.  (Before the third pass only `−psd i ≤ …` held,
see `facewise_step_lower_partial` and the witness `two_face_drain_old`.) -/
theorem corrected_step_lower (n : Nat) (dt : α) (psd nf : Nat → α) (i : Nat) (hi : i < n)
    (hdt : 0 < dt) (hpsd : ∀ j, 0 ≤ psd j) :
    0 ≤ psd i + dt * (correctedFlux n dt psd nf i - correctedFlux n dt psd nf (i+1)) := by
  have := corrected_update_nonneg n dt psd nf i hi i 0 (le_refl _) hdt hpsd
  unfold dXdt at this
  simpa using this

/-- **the old behaviour, partial statement**: the two face-wise passes alone (the whole correction
before the repair) bound the loss of a class by TWICE what it holds, and keep it non-negative only
under the excluding hypothesis that at most one of its faces removes particles. -/
theorem facewise_step_lower_partial (n : Nat) (dt : α) (psd nf : Nat → α) (i : Nat) (hi : i < n)
    (hdt : 0 < dt) (hpsd : ∀ j, 0 ≤ psd j) :
    - psd i ≤ psd i + dt * (faceLimited n dt psd nf i - faceLimited n dt psd nf (i+1)) ∧
    ((0 ≤ faceLimited n dt psd nf i ∨ faceLimited n dt psd nf (i+1) ≤ 0) →
      0 ≤ psd i + dt * (faceLimited n dt psd nf i - faceLimited n dt psd nf (i+1))) := by
  have h1 := faceLimited_left n dt psd nf i hi hdt hpsd
  have h2 := faceLimited_right n dt psd nf i hi hdt
  refine ⟨by nlinarith, ?_⟩
  rintro (h | h)
  · have := mul_nonneg hdt.le h; nlinarith
  · have := mul_nonpos_of_nonneg_of_nonpos hdt.le h; nlinarith

/-- growth field / distribution of the witness: three classes of unit width holding one particle each,
the growth rate changes sign inside class 1 (faces 0,1 shrink, faces 2,3 grow) -/
def wFlux : Nat → ℚ := fun j => if j ≤ 1 then -1 else 1
def wPsd : Nat → ℚ := fun _ => 1
def wNf : Nat → ℚ := netFlux 3 wFlux wPsd (fun _ => 1)

theorem wNf_vals : wNf 0 = -1 ∧ wNf 1 = -1 ∧ wNf 2 = 1 ∧ wNf 3 = 1 := by
  unfold wNf netFlux wFlux wPsd; norm_num

theorem wFace_vals : faceLimited 3 2 wPsd wNf 1 = -1/2 ∧ faceLimited 3 2 wPsd wNf 2 = 1/2 := by
  obtain ⟨h0, h1, h2, h3⟩ := wNf_vals
  unfold faceLimited limitAbove limitBelow
  simp only [h1, h2]
  unfold wPsd; norm_num

/-- **witness of the old behaviour**: with the two face-wise passes alone, class 1 (holding 1) is drained
through both faces (1/2·2 through each) and ends at −1: the old code did NOT keep classes non-negative. -/
theorem two_face_drain_old :
    wPsd 1 + 2 * dXdt (faceLimited 3 2 wPsd wNf) 0 0 1 = -1 ∧
    wPsd 1 + 2 * dXdt (faceLimited 3 2 wPsd wNf) 0 0 1 < 0 := by
  obtain ⟨h1, h2⟩ := wFace_vals
  unfold dXdt
  rw [h1, h2]
  unfold wPsd; norm_num

/-- the same input through the repaired correction ends at exactly 0 (total outflow scaled by 1/2) -/
theorem two_face_drain_repaired :
    wPsd 1 + 2 * dXdt (correctedFlux 3 2 wPsd wNf) 0 0 1 = 0 := by
  obtain ⟨h1, h2⟩ := wFace_vals
  have e1 : correctedFlux 3 2 wPsd wNf 1 = -1/4 := by
    unfold correctedFlux limitOut outflow pos0
    simp only [h1, h2]
    unfold wPsd; norm_num
  have e2 : correctedFlux 3 2 wPsd wNf 2 = 1/4 := by
    unfold correctedFlux limitOut outflow pos0
    simp only [h1, h2, Nat.add_sub_cancel]
    unfold wPsd; norm_num
  unfold dXdt
  rw [e1, e2]
  unfold wPsd; norm_num

/-- face fluxes under the step limit: a face carries at most the fraction `ratio` of its upwind class -/
theorem face_bounds_under_limit (n : Nat) (flux psd : Nat → α) (w dt ratio : α)
    (hw : 0 < w) (hdt : 0 < dt) (hpsd : ∀ j, 0 ≤ psd j)
    (hlim : ∀ j, dt * |flux j| ≤ ratio * w) :
    (∀ i, i < n → - (ratio * psd i) ≤ netFlux n flux psd (fun _ => w) i * dt) ∧
    (∀ i, 1 ≤ i → netFlux n flux psd (fun _ => w) i * dt ≤ ratio * psd (i-1)) := by
  have hr0 : 0 ≤ ratio := by
    have := le_trans (mul_nonneg hdt.le (abs_nonneg (flux 0))) (hlim 0)
    exact nonneg_of_mul_nonneg_left this hw
  constructor
  · intro i hi
    by_cases hf : 0 < flux i
    · have := netFlux_sign_growth n i flux psd (fun _ => w) hpsd (fun _ => hw) hf
      have h2 : 0 ≤ netFlux n flux psd (fun _ => w) i * dt := mul_nonneg this hdt.le
      linarith [mul_nonneg hr0 (hpsd i)]
    · have hf' : flux i ≤ 0 := not_lt.mp hf
      rw [netFlux_dissolution n i flux psd (fun _ => w) hi hf']
      have hl := hlim i
      rw [abs_of_nonpos hf'] at hl
      have : flux i * psd i / w * dt = - ((dt * -flux i) * psd i / w) := by ring
      rw [this, neg_le_neg_iff, div_le_iff₀ hw]
      calc dt * -flux i * psd i ≤ ratio * w * psd i := mul_le_mul_of_nonneg_right hl (hpsd i)
        _ = ratio * psd i * w := by ring
  · intro i hi
    by_cases hf : 0 < flux i
    · rw [netFlux_growth n i flux psd (fun _ => w) hi hf]
      have hl := hlim i
      rw [abs_of_pos hf] at hl
      have : flux i * psd (i-1) / w * dt = (dt * flux i) * psd (i-1) / w := by ring
      rw [this, div_le_iff₀ hw]
      calc dt * flux i * psd (i-1) ≤ ratio * w * psd (i-1) := mul_le_mul_of_nonneg_right hl (hpsd _)
        _ = ratio * psd (i-1) * w := by ring
    · have hf' : flux i ≤ 0 := not_lt.mp hf
      have := netFlux_sign_dissolution n i flux psd (fun _ => w) hpsd (fun _ => hw) hf'
      have h2 : netFlux n flux psd (fun _ => w) i * dt ≤ 0 := mul_nonpos_of_nonpos_of_nonneg this hdt.le
      linarith [mul_nonneg hr0 (hpsd (i-1))]

/-- if every face moves by at most `ratio ≤ 1` class widths in `dt` (uniform width `w`), the two
face-wise passes change nothing. -/
theorem facewise_inactive_under_limit (n : Nat) (flux psd : Nat → α) (w dt ratio : α)
    (hw : 0 < w) (hdt : 0 < dt) (hpsd : ∀ j, 0 ≤ psd j) (hr1 : ratio ≤ 1)
    (hlim : ∀ j, dt * |flux j| ≤ ratio * w) (j : Nat) :
    faceLimited n dt psd (netFlux n flux psd (fun _ => w)) j = netFlux n flux psd (fun _ => w) j := by
  obtain ⟨hB, hA⟩ := face_bounds_under_limit n flux psd w dt ratio hw hdt hpsd hlim
  have hbelow : ∀ i, i < n → ¬ (netFlux n flux psd (fun _ => w) i * dt < - psd i) := by
    intro i hi
    have := hB i hi
    have h2 : ratio * psd i ≤ 1 * psd i := mul_le_mul_of_nonneg_right hr1 (hpsd i)
    rw [not_lt]; linarith
  have habove : ∀ i, 1 ≤ i → ¬ (psd (i-1) < netFlux n flux psd (fun _ => w) i * dt) := by
    intro i hi
    have := hA i hi
    have h2 : ratio * psd (i-1) ≤ 1 * psd (i-1) := mul_le_mul_of_nonneg_right hr1 (hpsd _)
    rw [not_lt]; linarith
  have hLB : limitBelow n dt psd (netFlux n flux psd (fun _ => w)) j = netFlux n flux psd (fun _ => w) j := by
    unfold limitBelow
    split
    · next h => exact absurd h.2 (hbelow j h.1)
    · rfl
  unfold faceLimited limitAbove
  split
  · next h =>
    exfalso
    have h3 := h.2.2
    rw [hLB] at h3
    exact habove j h.1 h3
  · exact hLB

/-- **the correction is inactive under the step limit**: if every face moves by at most `ratio ≤ 1/2`
class widths in `dt` (uniform width `w`; getDTEuler uses 0.4), none of the three passes changes
anything — the corrected fluxes are the upwind fluxes.  (`1/2`, not `1`: a class may drain through both
faces, each taking up to `ratio` of it.) -/
theorem correction_inactive_under_limit (n : Nat) (flux psd : Nat → α) (w dt ratio : α)
    (hw : 0 < w) (hdt : 0 < dt) (hpsd : ∀ j, 0 ≤ psd j) (hr1 : ratio ≤ 1/2)
    (hlim : ∀ j, dt * |flux j| ≤ ratio * w) (j : Nat) :
    correctedFlux n dt psd (netFlux n flux psd (fun _ => w)) j = netFlux n flux psd (fun _ => w) j := by
  obtain ⟨hB, hA⟩ := face_bounds_under_limit n flux psd w dt ratio hw hdt hpsd hlim
  have hr0 : 0 ≤ ratio := by
    have := le_trans (mul_nonneg hdt.le (abs_nonneg (flux 0))) (hlim 0)
    exact nonneg_of_mul_nonneg_left this hw
  have hfl : faceLimited n dt psd (netFlux n flux psd (fun _ => w)) = netFlux n flux psd (fun _ => w) :=
    funext (facewise_inactive_under_limit n flux psd w dt ratio hw hdt hpsd (by linarith) hlim)
  have hout : ∀ i, i < n → ¬ (psd i < outflow (netFlux n flux psd (fun _ => w)) i * dt) := by
    intro i hi
    have hb := hB i hi
    have ha := hA (i+1) (by omega)
    simp only [Nat.add_sub_cancel] at ha
    have hrp : 0 ≤ ratio * psd i := mul_nonneg hr0 (hpsd i)
    have hl : pos0 (- netFlux n flux psd (fun _ => w) i) * dt ≤ ratio * psd i := by
      unfold pos0; split
      · linarith
      · simpa using hrp
    have hr : pos0 (netFlux n flux psd (fun _ => w) (i+1)) * dt ≤ ratio * psd i := by
      unfold pos0; split
      · exact ha
      · simpa using hrp
    have h2 : 2 * (ratio * psd i) ≤ psd i := by nlinarith [hpsd i]
    rw [not_lt]; unfold outflow; rw [add_mul]; linarith
  unfold correctedFlux
  rw [hfl]
  unfold limitOut
  split
  · next h =>
    split
    · next h' => exact absurd h' (hout j h.1)
    · rfl
  · split
    · next h =>
      split
      · next h' => exact absurd h' (hout (j-1) (by omega))
      · rfl
    · rfl

/-- consequently a class whose faces obey the limit with `ratio ≤ 1/2` stays non-negative under
the CORRECTED update as well (what the solver actually applies); `corrected_update_nonneg` gives the
same conclusion without any of the hypotheses on the step. -/
theorem nonneg_corrected_under_limit (n : Nat) (flux psd : Nat → α) (w dt ratio : α) (i : Nat) (hi : i < n)
    (k : Nat) (r : α) (hr : 0 ≤ r)
    (hw : 0 < w) (hdt : 0 < dt) (hpsd : ∀ j, 0 ≤ psd j) (hratio : ratio ≤ 1/2)
    (hlim : ∀ j, dt * |flux j| ≤ ratio * w) :
    0 ≤ psd i + dt * dXdt (correctedFlux n dt psd (netFlux n flux psd (fun _ => w))) k r i :=
  corrected_update_nonneg n dt psd _ i hi k r hr hdt hpsd

/-! ### dissolution index: which faces are "relevant" for the step limit -/

theorem argmaxFirst_lt_or_zero (p : Nat → Bool) (len : Nat) :
    (argmaxFirst p len < len ∧ p (argmaxFirst p len) = true ∧ ∀ j, j < argmaxFirst p len → p j = false) ∨
    (argmaxFirst p len = 0 ∧ ∀ j, j < len → p j = false) := by
  unfold argmaxFirst
  cases h : (List.range len).find? (fun i => p i) with
  | none =>
    right
    refine ⟨rfl, ?_⟩
    intro j hj
    have := List.find?_eq_none.mp h j (by simpa using hj)
    simpa using this
  | some i =>
    left
    have h' := List.find?_eq_some_iff_getElem.mp h
    obtain ⟨hp, k, hk, hik, hmin⟩ := h'
    simp only [List.getElem_range] at hik
    subst hik
    refine ⟨by simpa using hk, by simpa using hp, ?_⟩
    intro j hj
    have := hmin j hj
    simpa using this

/-- the dissolution index is at least the index of the last unstable class -/
theorem dissolutionIndex_ge_min (n : Nat) (maxDiss : α) (vol : Nat → α) (m : Nat) :
    m ≤ dissolutionIndex n maxDiss vol m := by
  unfold dissolutionIndex
  simp only
  generalize argmaxFirst _ n = a
  by_cases h : a < m
  · simp [h]
  · simp [h]; omega

/-- **what is ignored by the step limit**: if the index `a` returned is above `minIndex`, then the
classes strictly below `a` hold at most the allowed fraction `maxDissolution` of the total particle
volume (cumulative third moment), and class `a` is the first one where that fraction is exceeded. -/
theorem dissolutionIndex_spec (n : Nat) (maxDiss : α) (vol : Nat → α) (m : Nat)
    (h : m < dissolutionIndex n maxDiss vol m) :
    let a := dissolutionIndex n maxDiss vol m
    let total := if n = 0 then 0 else cumSum vol (n-1)
    a < n ∧ maxDiss * total < cumSum vol a ∧ ∀ j, j < a → cumSum vol j ≤ maxDiss * total := by
  unfold dissolutionIndex at *
  simp only at *
  set total := (if n = 0 then (0:α) else cumSum vol (n-1)) with htot
  set a0 := argmaxFirst (fun i => decide (maxDiss * total < cumSum vol i)) n with ha0
  have hcase : ¬ a0 < m := by
    intro hlt; simp [hlt] at h
  simp only [hcase, if_false] at h ⊢
  rcases argmaxFirst_lt_or_zero (fun i => decide (maxDiss * total < cumSum vol i)) n with ⟨h1, h2, h3⟩ | ⟨h1, _⟩
  · refine ⟨h1, by simpa using h2, ?_⟩
    intro j hj
    have := h3 j hj
    simpa using this
  · rw [← ha0] at h1; omega

/-! ### the step limit is a statement about the CURRENT distribution and grid

`getDt` of the grain-growth model (GrainGrowth.py 239-244) hands `pbm.getDTEuler` the STORED `self.dissolutionIndex`.
The clause "the limit equals the stated fraction of the class width divided by the fastest RELEVANT growth rate" is about
the classes of the grid the population balance holds when the step is proposed; the relevant classes are those at or
above `getDissolutionIndex(maxDissolution, 0)` of that grid.  Below: the index is a function of the stored distribution and
grid (equal states give equal index; positive rescaling — `Normalize` — does not change it); `postProcess` stores the index of
the grid it leaves behind (update → adjust → index → normalize), so the stored index IS the current one; the index before a
re-binning differs from the one after it (witness); and `getDT` with a stale index — smaller, larger, or beyond the new
grid — differs from `getDT` with the current index (witnesses).  The oracle `grain-dt-limit` in tools/corr/C07.py evaluates
exactly `getDT … (stateIndex … current state)` on every iteration of real runs. -/

theorem cumSum_congr (f g : Nat → α) (i : Nat) (h : ∀ j, j ≤ i → f j = g j) :
    cumSum f i = cumSum g i := by
  induction i with
  | zero => simp [cumSum, h 0 (le_refl _)]
  | succ k ih =>
    simp only [cumSum]
    rw [ih (fun j hj => h j (by omega)), h (k+1) (le_refl _)]

theorem cumSum_scale (c : α) (f : Nat → α) (i : Nat) :
    cumSum (fun j => c * f j) i = c * cumSum f i := by
  induction i with
  | zero => simp [cumSum]
  | succ k ih => simp only [cumSum]; rw [ih]; ring

theorem find?_congr' {β : Type} (l : List β) (p q : β → Bool) (h : ∀ x, x ∈ l → p x = q x) :
    l.find? p = l.find? q := by
  induction l with
  | nil => rfl
  | cons a as ih =>
    simp only [List.find?_cons, h a List.mem_cons_self]
    rw [ih (fun x hx => h x (List.mem_cons_of_mem _ hx))]

theorem argmaxFirst_congr (p q : Nat → Bool) (len : Nat) (h : ∀ i, i < len → p i = q i) :
    argmaxFirst p len = argmaxFirst q len := by
  unfold argmaxFirst
  rw [find?_congr' (List.range len) (fun i => p i) (fun i => q i) (fun x hx => h x (by simpa using hx))]

/-- **the index is a function of the distribution and the grid**: two states whose class volumes
(`PSD·PSDsize³`) agree on the classes 0..n-1 have the same dissolution index — nothing else enters (no history,
no previous grid). -/
theorem dissolutionIndex_congr (n : Nat) (maxDiss : α) (vol vol' : Nat → α) (m : Nat)
    (h : ∀ i, i < n → vol i = vol' i) :
    dissolutionIndex n maxDiss vol m = dissolutionIndex n maxDiss vol' m := by
  have htot : (if n = 0 then (0:α) else cumSum vol (n-1)) = (if n = 0 then (0:α) else cumSum vol' (n-1)) := by
    by_cases hn : n = 0
    · simp [hn]
    · simp only [hn, if_false]
      exact cumSum_congr _ _ _ (fun j hj => h j (by omega))
  have harg : argmaxFirst (fun i => decide (maxDiss * (if n = 0 then (0:α) else cumSum vol (n-1)) < cumSum vol i)) n
      = argmaxFirst (fun i => decide (maxDiss * (if n = 0 then (0:α) else cumSum vol' (n-1)) < cumSum vol' i)) n := by
    apply argmaxFirst_congr
    intro i hi
    rw [htot, cumSum_congr vol vol' i (fun j hj => h j (by omega))]
  unfold dissolutionIndex
  simp only [harg]

/-- rescaling all class volumes by a positive factor (what `Normalize` does) leaves the index unchanged -/
theorem dissolutionIndex_scale (n : Nat) (maxDiss c : α) (hc : 0 < c) (vol : Nat → α) (m : Nat) :
    dissolutionIndex n maxDiss (fun i => c * vol i) m = dissolutionIndex n maxDiss vol m := by
  have htot : (if n = 0 then (0:α) else cumSum (fun i => c * vol i) (n-1))
      = c * (if n = 0 then (0:α) else cumSum vol (n-1)) := by
    by_cases hn : n = 0
    · simp [hn]
    · simp only [hn, if_false]; exact cumSum_scale c vol _
  have harg : argmaxFirst (fun i => decide (maxDiss * (if n = 0 then (0:α) else cumSum (fun i => c * vol i) (n-1))
        < cumSum (fun i => c * vol i) i)) n
      = argmaxFirst (fun i => decide (maxDiss * (if n = 0 then (0:α) else cumSum vol (n-1)) < cumSum vol i)) n := by
    apply argmaxFirst_congr
    intro i hi
    rw [htot, cumSum_scale c vol i, mul_left_comm]
    exact decide_eq_decide.mpr (mul_lt_mul_iff_of_pos_left hc)
  unfold dissolutionIndex
  simp only [harg]

/-- the step limit reads the growth rates and the distribution of classes 0..n-1 and the first class width only -/
theorem getDT_congr (n d : Nat) (currDT ratio : α) (growth growth' psd psd' bounds bounds' : Nat → α)
    (hg : ∀ j, j < n → growth j = growth' j) (hp : ∀ j, j < n → psd j = psd' j)
    (hb0 : bounds 0 = bounds' 0) (hb1 : bounds 1 = bounds' 1) :
    getDT n d currDT ratio growth psd bounds = getDT n d currDT ratio growth' psd' bounds' := by
  have hf : dtFilter n d psd' = dtFilter n d psd := by
    unfold dtFilter
    apply List.filter_congr
    intro j hj
    rw [hp j (by simpa using hj)]
  have hm : (dtFilter n d psd).map (fun j => absS (growth' j)) = (dtFilter n d psd).map (fun j => absS (growth j)) := by
    apply List.map_congr_left
    intro j hj
    have hjn : j < n := by
      unfold dtFilter at hj
      simpa using (List.mem_filter.mp hj).1
    rw [hg j hjn]
  unfold getDT
  simp only [hf, hm, hb0, hb1]

section grain
open KawinV.Grain

/-- **equal states give equal index** (stored-state form): the index is determined by the number of classes, the
distribution and the class centres the population balance holds. -/
theorem stateIndex_congr (maxDiss : α) (s s' : GState α) (hn : s.n = s'.n)
    (hp : ∀ i, i < s.n → s.psd i = s'.psd i) (hs : ∀ i, i < s.n → s.size i = s'.size i) :
    stateIndex maxDiss s = stateIndex maxDiss s' := by
  unfold stateIndex
  rw [← hn]
  apply dissolutionIndex_congr
  intro i hi
  unfold vol3
  rw [hp i hi, hs i hi]

/-- order of operations of `postProcess`: the index is taken on the grid left by `adjustSizeClassesEuler` -/
theorem postProcess_index_adjusted (adjust : GState α → GState α) (maxDiss : α) (x : Nat → α) (s : GState α) :
    (postProcess adjust maxDiss x s).index = stateIndex maxDiss (adjust { s with psd := truncate x }) := rfl

/-- **the stored index is the index of the stored grid**: after `postProcess` (update → adjust → index → normalize)
`self.dissolutionIndex` equals `getDissolutionIndex(maxDissolution, 0)` evaluated on the distribution and grid the
population balance now holds — for ANY grid adjustment (extension, re-binning to fewer classes, dissolution split),
provided the adjusted distribution is populated (third moment > 0, the divisor of `Normalize`). -/
theorem postProcess_index_current (adjust : GState α → GState α) (maxDiss : α) (x : Nat → α) (s : GState α)
    (hM : 0 < moment 3 (adjust { s with psd := truncate x }).n (adjust { s with psd := truncate x }).psd
      (adjust { s with psd := truncate x }).size) :
    (postProcess adjust maxDiss x s).index = stateIndex maxDiss (postProcess adjust maxDiss x s).state := by
  unfold postProcess stateIndex vol3 normalize
  simp only
  generalize adjust { s with psd := truncate x } = s2 at hM ⊢
  have hc : 0 < 1 / moment 3 s2.n s2.psd s2.size := one_div_pos.mpr hM
  rw [← dissolutionIndex_scale s2.n maxDiss _ hc (fun i => s2.psd i * npow (s2.size i) 3) 0]
  apply dissolutionIndex_congr
  intro i hi
  ring

/-- consequently the step proposed in the next iteration is the step limit for the index of the CURRENT state:
the requirement the oracle `grain-dt-limit` evaluates on the implementation is the model's statement. -/
theorem getDt_uses_current_index (adjust : GState α → GState α) (maxDiss remaining ratio : α) (x growth : Nat → α)
    (s : GState α)
    (hM : 0 < moment 3 (adjust { s with psd := truncate x }).n (adjust { s with psd := truncate x }).psd
      (adjust { s with psd := truncate x }).size) :
    Grain.getDt remaining ratio growth (postProcess adjust maxDiss x s)
      = getDT (postProcess adjust maxDiss x s).state.n
          (stateIndex maxDiss (postProcess adjust maxDiss x s).state) remaining ratio growth
          (postProcess adjust maxDiss x s).state.psd (postProcess adjust maxDiss x s).state.bounds := by
  unfold Grain.getDt
  rw [← postProcess_index_current adjust maxDiss x s hM]

/-- `reset()` / `LoadDistribution…` leave the index of the state they leave (repair 7e7d99f; before it `reset` stored 0,
which is stale whenever the restored distribution has a positive index — `reset_zero_index_was_stale`) -/
theorem reset_index_current (maxDiss : α) (s : GState α) :
    (Grain.reset maxDiss s).index = stateIndex maxDiss (Grain.reset maxDiss s).state := rfl

/-- a stored state from lists (class centres = midpoints of the boundaries, as `PSDsize`) -/
def ofLists (psd bounds : List ℚ) : GState ℚ :=
  { n := psd.length, psd := fun i => psd.getD i 0, bounds := fun i => bounds.getD i 0,
    size := fun i => (Grid.midpoints bounds).getD i 0 }

/-- witness grid: 4 classes of width 1 on [1,5] holding one grain each … -/
def wOldBounds : List ℚ := [1, 2, 3, 4, 5]
def wOldPsd : List ℚ := [1, 1, 1, 1]
/-- … re-binned onto 2 classes of width 2 (`changeSizeClasses`: interpolation of the number density at the new
class centres times the new widths, `KawinV.Grid.remeshRaw`; the following rescaling to the old third moment is a
positive factor, `dissolutionIndex_scale`) -/
def wNewBounds : List ℚ := [1, 3, 5]

theorem wRemesh : Grid.remeshRaw wOldPsd wOldBounds wNewBounds = [2, 2] := by decide +kernel

/-- **a re-binning changes the index**: with `maxDissolution = 1/10` the index of the grid before the re-binning is 1
(class 0 holds 27/8 of 153 volume units), the index of the re-binned grid is 0 (class 0 holds 16 of 144). -/
theorem rebin_changes_index :
    stateIndex (1/10) (ofLists wOldPsd wOldBounds) = 1 ∧
    stateIndex (1/10) (ofLists (Grid.remeshRaw wOldPsd wOldBounds wNewBounds) wNewBounds) = 0 := by
  constructor <;> decide +kernel

/-- the index 0 that `reset()` stored before the repair is not the index of the witness distribution -/
theorem reset_zero_index_was_stale : (Grain.reset (1/10 : ℚ) (ofLists wOldPsd wOldBounds)).index ≠ 0 := by
  rw [reset_index_current]
  show stateIndex (1/10) (ofLists wOldPsd wOldBounds) ≠ 0
  rw [rebin_changes_index.1]; decide

/-- growth rates at the three faces of the re-binned witness grid (shrinking small grains, growing large ones) -/
def wGrowth : Nat → ℚ := fun j => if j = 0 then -4 else if j = 1 then -2 else 1

/-- **a stale index changes the proposed step** (the situation of computing the index BEFORE the grid is adjusted):
on the re-binned grid the step limit with the current index 0 is `2/5·2/4 = 1/5`; with the index 1 of the OLD grid
it is `2/5·2/2 = 2/5` — twice the stated limit. -/
theorem stale_index_after_rebin_changes_step :
    let s := ofLists (Grid.remeshRaw wOldPsd wOldBounds wNewBounds) wNewBounds
    getDT s.n (stateIndex (1/10) s) 100 (2/5) wGrowth s.psd s.bounds = 1/5 ∧
    getDT s.n (stateIndex (1/10) (ofLists wOldPsd wOldBounds)) 100 (2/5) wGrowth s.psd s.bounds = 2/5 := by
  constructor <;> decide +kernel

/-- three classes of unit width holding one grain each: `getDT` for index 0, 1 and 3 (beyond the grid) -/
theorem getDT_by_index :
    getDT 3 0 100 (2/5) wGrowth (fun _ => 1) (fun j => (j : ℚ)) = 1/10 ∧
    getDT 3 1 100 (2/5) wGrowth (fun _ => 1) (fun j => (j : ℚ)) = 1/5 ∧
    getDT 3 3 100 (2/5) wGrowth (fun _ => 1) (fun j => (j : ℚ)) = 100 := by
  refine ⟨?_, ?_, ?_⟩ <;> decide +kernel

/-- **`getDT` with a stale index differs from `getDT` with the current index**: current index 1; a stale SMALLER
index (0) gives a smaller step, a stale LARGER index that lies beyond the grid (3, e.g. the index of a grid with more
classes) silently returns the remaining time. -/
theorem getDT_stale_index_differs :
    getDT 3 0 100 (2/5) wGrowth (fun _ => 1) (fun j => (j : ℚ)) < getDT 3 1 100 (2/5) wGrowth (fun _ => 1) (fun j => (j : ℚ)) ∧
    getDT 3 1 100 (2/5) wGrowth (fun _ => 1) (fun j => (j : ℚ)) < getDT 3 3 100 (2/5) wGrowth (fun _ => 1) (fun j => (j : ℚ)) := by
  obtain ⟨h0, h1, h3⟩ := getDT_by_index
  rw [h0, h1, h3]; constructor <;> norm_num

/-- non-vacuity of `postProcess_index_current`/`getDt_uses_current_index`: a populated adjusted state exists (and the
re-binned witness is one: third moment 144) -/
example : (0:ℚ) < moment 3 (ofLists (Grid.remeshRaw wOldPsd wOldBounds wNewBounds) wNewBounds).n
    (ofLists (Grid.remeshRaw wOldPsd wOldBounds wNewBounds) wNewBounds).psd
    (ofLists (Grid.remeshRaw wOldPsd wOldBounds wNewBounds) wNewBounds).size := by decide +kernel
/-- and the theorem applies to it with the re-binning as the adjustment: stored index 0 = index of the stored grid -/
example : (postProcess (fun _ => ofLists (Grid.remeshRaw wOldPsd wOldBounds wNewBounds) wNewBounds) (1/10 : ℚ)
    (fun i => wOldPsd.getD i 0) (ofLists wOldPsd wOldBounds)).index = 0 := by
  rw [postProcess_index_adjusted]; exact rebin_changes_index.2

end grain

/-! ### non-vacuity: concrete states meeting the hypotheses -/

example : (0:ℚ) < 1 ∧ (∀ j : Nat, (0:ℚ) ≤ (fun _ => (2:ℚ)) j) := by simp
example : netFlux 3 (fun _ => (1:ℚ)) (fun _ => 2) (fun _ => 1/2) 1 = 4 := by
  unfold netFlux; norm_num
/-- hypotheses of (a)/(b) are met by the witness state (psd ≥ 0, dt = 2 > 0, rate 0 ≥ 0, class 1 < 3) and the
third pass is ACTIVE there (total outflow 2 > 1 held) -/
example : (∀ j, 0 ≤ wPsd j) ∧ (0:ℚ) < 2 ∧ (1:Nat) < 3 ∧
    wPsd 1 < outflow (faceLimited 3 2 wPsd wNf) 1 * 2 := by
  obtain ⟨h1, h2⟩ := wFace_vals
  refine ⟨fun j => by unfold wPsd; norm_num, by norm_num, by omega, ?_⟩
  unfold outflow pos0
  simp only [h1, h2]
  unfold wPsd; norm_num
/-- hypotheses of `correction_inactive_under_limit`: a step obeying the limit with ratio 2/5 exists -/
example : ∀ j : Nat, (1:ℚ) * |(fun _ => (2/5:ℚ)) j| ≤ (2/5) * 1 := by intro j; norm_num [abs_of_pos]
example : nucIndex 3 (fun i => (i:ℚ)) (3/2) = 1 := by
  apply nucIndex_inside 3 _ _ 1 (by omega)
  · intro a c h _; exact_mod_cast h
  · norm_num
  · norm_num
/-- hypotheses of `nucIdx_contains` / `nucIndex_contains` / `nucleation_enters_containing_class` / `nucIndex_eq_nucIdx`:
the grid 0,1,2,3 is strictly increasing and the radius 1 (exactly ON an interior boundary) lies inside it; the
scanned class is 1 = [1,2) -/
example : (∀ a c : Nat, a < c → c ≤ 3 → ((a:ℚ)) < (c:ℚ)) ∧ ((0:Nat):ℚ) ≤ 1 ∧ (1:ℚ) < ((3:Nat):ℚ) ∧
    nucIdx 3 (fun i => (i:ℚ)) 1 = 1 := by
  refine ⟨fun a c h _ => by exact_mod_cast h, by norm_num, by norm_num, ?_⟩
  apply nucIdx_inside 3 _ _ 1 (by omega)
  · intro a c h _; exact_mod_cast h
  · norm_num
  · norm_num
/-- hypotheses of `nucIdx_first_boundary` / `nucIndexBisect_first_boundary_wrong` (2 ≤ n, increasing grid) -/
example : (2:Nat) ≤ 3 ∧ nucIdx 3 (fun i => (i:ℚ)) ((fun i => (i:ℚ)) 0) = 0 :=
  ⟨by omega, nucIdx_first_boundary 3 (fun i => (i:ℚ)) (by omega) (by intro a c h _; exact_mod_cast h)⟩

end KawinV.Props.C07
