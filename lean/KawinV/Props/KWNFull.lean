/-
Theorems about the COMPOSED KWN step `KawinV.KWNFull.eulerStep` (one pass through the body of the solver loop for a
precipitation model with the explicit-Euler iterator: getdXdt, getDt, clamp, correctdXdt, update, postProcess with
mass balance, nucleation, growth / lookup table, append, size-distribution update).

Every theorem is for ALL backend answers (thermodynamics, shape factors, effective diffusion, schedule), all
configurations and all entry states: the answers are universally quantified.  The model is tied to /repo by replaying
every accepted step of real runs (entry state + captured answers) through the compiled model and comparing the complete
exit state (tools/lib/kwnfull.py, used by tools/corr/C01.py, C02.py, C03.py); the nucleation formulas and the binary
growth law inside it are the definitions REGENERATED from the source (Gen/C14Nuc.lean, Gen/C12GT.lean).

α is any linearly ordered field with an arbitrary interpretation of the transcendental atoms.
-/
import KawinV.Model.KWNFull
import KawinV.Props.C01
import KawinV.Props.C02
import KawinV.Props.C03
import KawinV.Props.C05
import KawinV.Props.C07
import KawinV.Props.C08
import KawinV.Props.C12
import Mathlib.Algebra.Order.Field.Rat
import Mathlib.Tactic.NormNum

set_option linter.unusedSectionVars false
set_option linter.unusedVariables false
set_option linter.unusedSimpArgs false

namespace KawinV.Props.KWNFull
open KawinV KawinV.KWNFull

variable {α : Type} [Field α] [LinearOrder α] [IsStrictOrderedRing α] [Trans α]

/-! ### the growth-rate stage only rewrites the equilibrium compositions of a slice -/

theorem createLookup_hist (T : α) (tab : List (TablePh α)) (s : St α) : (createLookup T tab s).hist = s.hist := rfl

theorem growthBinary_hist (c : Cfg α) (s : St α) (a : EvalAns α) (y : Slice α) :
    (growthBinary c s a y).1.hist = s.hist := by
  unfold growthBinary
  simp only
  split <;> rfl

theorem growthMulti_hist (c : Cfg α) (s : St α) (a : EvalAns α) (y : Slice α) :
    (growthMulti c s a y).1.hist = s.hist := rfl

theorem growthRate_hist (c : Cfg α) (s : St α) (a : EvalAns α) (y : Slice α) :
    (growthRate c s a y).1.hist = s.hist := by
  unfold growthRate
  split
  · exact growthBinary_hist c s a y
  · exact growthMulti_hist c s a y

theorem growthRate_time (c : Cfg α) (s : St α) (a : EvalAns α) (y : Slice α) :
    (growthRate c s a y).2.time = y.time ∧ (growthRate c s a y).2.temp = y.temp ∧ (growthRate c s a y).2.comp = y.comp := by
  unfold growthRate growthBinary growthMulti
  split <;> simp

/-- a property of a per-phase record that does not mention the equilibrium compositions survives the growth stage -/
theorem growthRate_ph (c : Cfg α) (s : St α) (a : EvalAns α) (y : Slice α) (Q : PSlice α → Prop)
    (hQ : ∀ (yp : PSlice α) (ea eb : List α), Q yp → Q { yp with xEqA := ea, xEqB := eb })
    (h : ∀ yp ∈ y.ph, Q yp) : ∀ yp ∈ (growthRate c s a y).2.ph, Q yp := by
  unfold growthRate
  split
  · unfold growthBinary
    simp only
    intro yp hyp
    rw [List.mem_mapIdx] at hyp
    obtain ⟨i, hi, rfl⟩ := hyp
    exact hQ _ _ _ (h _ (List.getElem_mem hi))
  · unfold growthMulti
    simp only
    intro yp hyp
    rw [List.mem_map] at hyp
    obtain ⟨q, hq, rfl⟩ := hyp
    rw [List.mem_map] at hq
    obtain ⟨t, ht, rfl⟩ := hq
    refine hQ _ _ _ (h _ ?_)
    -- t ∈ zip3 s.ph a.ph y.ph ⇒ t.2.2 ∈ y.ph
    clear hQ h
    generalize s.ph = l1 at ht
    generalize a.ph = l2 at ht
    generalize y.ph = l3 at ht ⊢
    induction l1 generalizing l2 l3 with
    | nil => simp [zip3] at ht
    | cons x xs ih =>
      cases l2 with
      | nil => simp [zip3] at ht
      | cons b bs =>
        cases l3 with
        | nil => simp [zip3] at ht
        | cons d ds =>
          simp only [zip3, List.mem_cons] at ht
          rcases ht with rfl | ht
          · simp
          · exact List.mem_cons_of_mem _ (ih _ _ ht)

/-! ### nucleation: what every per-phase record of a freshly evaluated slice satisfies -/

/-- the nucleation terms of a record are switched off -/
def NucOff (yp : PSlice α) : Prop := yp.Rcrit = 0 ∧ yp.Gcrit = 0 ∧ yp.beta = 0 ∧ yp.nucRate = 0 ∧ yp.Rnuc = 0

/-- what `_calcNucleationRate` guarantees for one phase, whatever the backend answered:
negative driving force ⇒ no nucleation terms at all; otherwise the critical radius is 0 (driving force exactly 0)
or at least the minimum radius, and a nucleation radius is only handed out together with a critical radius ≥ Rmin -/
def NucOK (rmin : α) (yp : PSlice α) : Prop :=
  (yp.dG < 0 → NucOff yp) ∧ (yp.Rcrit = 0 ∨ rmin ≤ yp.Rcrit) ∧ (yp.Rnuc = 0 ∨ rmin ≤ yp.Rcrit) ∧
  (yp.beta = 0 → yp.nucRate = 0 ∧ yp.Rnuc = 0)

theorem barrier_spec (pc : PhaseCfg α) (f dG : α) :
    (barrier pc f dG).1 = 0 ∨ pc.rmin ≤ (barrier pc f dG).1 := by
  unfold barrier
  split
  · split <;> (right; simp only [maxS]; split <;> first | exact le_of_lt ‹_› | exact le_refl _ | linarith)
  · left; rfl

theorem barrier_nonpos (pc : PhaseCfg α) (f dG : α) (h : dG ≤ 0) : barrier pc f dG = (0, 0) := by
  unfold barrier
  simp [not_lt.mpr h]

theorem nucPhase_ok (c : Cfg α) (s : St α) (t T x0 sites : α) (pc : PhaseCfg α) (an : PhaseAns α) (yp : PSlice α) :
    NucOK pc.rmin (nucPhase c s t T x0 sites pc an yp) ∧ (nucPhase c s t T x0 sites pc an yp).dG = an.volDG := by
  unfold nucPhase
  simp only
  split
  · next hneg =>
    refine ⟨⟨fun _ => ⟨rfl, rfl, rfl, rfl, rfl⟩, Or.inl rfl, Or.inl rfl, fun _ => ⟨rfl, rfl⟩⟩, rfl⟩
  · next hnn =>
    split
    · next hb =>
      refine ⟨⟨fun _ => ⟨rfl, rfl, rfl, rfl, rfl⟩, Or.inl rfl, Or.inl rfl, fun _ => ⟨rfl, rfl⟩⟩, rfl⟩
    · next hb =>
      refine ⟨⟨fun h => absurd h hnn, barrier_spec pc an.thermoF an.volDG, ?_, fun h => ?_⟩, rfl⟩
      · by_cases hr : pc.rmin ≤ (barrier pc an.thermoF an.volDG).1
        · right; exact hr
        · left; simp [hr]
      · exact absurd (by simpa [nz, not_or, not_lt] using h) (by
          intro hz; apply hb; simp only [nz, not_or, not_lt]; exact ⟨hz.ge, hz.le⟩)

theorem mem_zip3_fst {β γ δ : Type} : ∀ (l1 : List β) (l2 : List γ) (l3 : List δ) (t : β × γ × δ),
    t ∈ zip3 l1 l2 l3 → t.1 ∈ l1 ∧ t.2.1 ∈ l2 ∧ t.2.2 ∈ l3
  | [], _, _, t, h => by simp [zip3] at h
  | _ :: _, [], _, t, h => by simp [zip3] at h
  | _ :: _, _ :: _, [], t, h => by simp [zip3] at h
  | a :: as, b :: bs, d :: ds, t, h => by
    simp only [zip3, List.mem_cons] at h
    rcases h with rfl | h
    · simp
    · have := mem_zip3_fst as bs ds t h
      exact ⟨List.mem_cons_of_mem _ this.1, List.mem_cons_of_mem _ this.2.1, List.mem_cons_of_mem _ this.2.2⟩

/-- every record of the slice produced by the nucleation stage is `NucOK` for the minimum radius of SOME configured
phase (the one at its position) -/
theorem nucleation_ok (c : Cfg α) (s : St α) (t : α) (x : List (List α)) (a : EvalAns α) (y : Slice α) :
    ∀ yp ∈ (nucleation c s t x a y).ph, ∃ pc ∈ c.phases, NucOK pc.rmin yp := by
  unfold nucleation
  simp only
  intro yp hyp
  rw [List.mem_mapIdx] at hyp
  obtain ⟨i, hi, rfl⟩ := hyp
  have hm := mem_zip3_fst _ _ _ _ (List.getElem_mem hi)
  exact ⟨_, hm.1, (nucPhase_ok _ _ _ _ _ _ _ _ _).1⟩

theorem NucOK_eq (rmin : α) (yp : PSlice α) (ea eb : List α) (h : NucOK rmin yp) :
    NucOK rmin { yp with xEqA := ea, xEqB := eb } := h

/-! ### `_calculateDependentTerms`: the slice it produces -/

theorem massBalance_time (c : Cfg α) (s : St α) (x : List (List α)) (a : EvalAns α) (y : Slice α) :
    (KWNFull.massBalance c s x a y).time = y.time ∧ (KWNFull.massBalance c s x a y).temp = y.temp := ⟨rfl, rfl⟩

theorem nucleation_time (c : Cfg α) (s : St α) (t : α) (x : List (List α)) (a : EvalAns α) (y : Slice α) :
    (nucleation c s t x a y).time = y.time ∧ (nucleation c s t x a y).temp = y.temp ∧
    (nucleation c s t x a y).comp = y.comp := ⟨rfl, rfl, rfl⟩

/-- **time stamp and temperature of an evaluated slice**: the time it was evaluated at, the schedule's answer -/
theorem depEval_time (c : Cfg α) (s : St α) (t : α) (x : List (List α)) (a : EvalAns α) (y : Slice α) :
    (depEval c s t x a y).2.time = t ∧ (depEval c s t x a y).2.temp = a.T := by
  unfold depEval
  simp only
  have h := growthRate_time c s a (nucleation c s t x a (KWNFull.massBalance c s x a { y with time := t, temp := a.T }))
  exact ⟨h.1, h.2.1⟩

theorem depEval_hist (c : Cfg α) (s : St α) (t : α) (x : List (List α)) (a : EvalAns α) (y : Slice α) :
    (depEval c s t x a y).1.hist = s.hist := by
  unfold depEval
  exact growthRate_hist _ _ _ _

/-- **nucleation terms of an evaluated slice**, for every backend: in every phase a negative driving force means
no nucleation rate, radius, barrier or impingement (the values of the slice it was copied from are not kept), and a
non-zero critical radius is at least the phase's minimum radius -/
theorem depEval_nuc (c : Cfg α) (s : St α) (t : α) (x : List (List α)) (a : EvalAns α) (y : Slice α) :
    ∀ yp ∈ (depEval c s t x a y).2.ph, ∃ pc ∈ c.phases, NucOK pc.rmin yp := by
  unfold depEval
  simp only
  apply growthRate_ph c s a _ (fun yp => ∃ pc ∈ c.phases, NucOK pc.rmin yp)
  · intro yp ea eb ⟨pc, hpc, h⟩; exact ⟨pc, hpc, h⟩
  · exact nucleation_ok _ _ _ _ _ _

/-! ### the lookup table is fresh after every growth-rate call (binary) -/

/-- the freshness invariant of C13 on the composed state: the table in use was computed within `maxTempChange` of
the temperature of the slice it is used for -/
def Fresh (c : Cfg α) (s : St α) (T : α) : Prop := absS (T - s.lookT) ≤ c.maxTempChange

theorem absS_self_sub (T : α) : absS (T - T) = 0 := by simp [absS]

theorem growthBinary_fresh (c : Cfg α) (s : St α) (a : EvalAns α) (y : Slice α) (hmax : 0 ≤ c.maxTempChange) :
    Fresh c (growthBinary c s a y).1 y.temp := by
  unfold growthBinary Fresh
  simp only
  split
  · simp only [createLookup]; rw [absS_self_sub]; exact hmax
  · next h => exact not_lt.mp h

theorem growthBinary_lookT (c : Cfg α) (s : St α) (a : EvalAns α) (y : Slice α) :
    (growthBinary c s a y).1.lookT = s.lookT ∨ (growthBinary c s a y).1.lookT = y.temp := by
  unfold growthBinary
  simp only
  split
  · right; rfl
  · left; rfl

/-! ### `_updateParticleSizeDistribution` keeps the recorded rows -/

theorem afterAdjust_hist (c : Cfg α) (s : St α) (p : Nat) (ps : PhaseSt α) (g2 : Grid.State α) (change : Bool)
    (added : Option Nat) (u : UpdAns α) : (afterAdjust c s p ps g2 change added u).hist = s.hist := by
  unfold afterAdjust
  simp only
  split
  · rw [growthRate_hist]
    split
    · split <;> rfl
    · rfl
  · rfl

theorem updatePh_hist (c : Cfg α) (s s' : St α) (t : α) (p : Nat) (xp : List α) (u : UpdAns α)
    (h : updatePh c s t p xp u = some s') : s'.hist = s.hist := by
  unfold updatePh at h
  simp only at h
  split at h
  · simp at h
  · split at h
    · simp only [Option.some.injEq] at h; subst h; rfl
    · split at h
      · simp at h
      · split at h
        · simp at h
        · split at h
          · simp at h
          · split at h
            · simp at h
            · simp only [Option.some.injEq] at h
              subst h
              exact afterAdjust_hist _ _ _ _ _ _ _ _

theorem updateAll_hist (c : Cfg α) (t : α) : ∀ (xs : List (List α)) (s s' : St α) (p : Nat) (us : List (UpdAns α)),
    updateAll c t s p xs us = some s' → s'.hist = s.hist
  | [], s, s', p, us, h => by simp [updateAll] at h; subst h; rfl
  | xp :: xs, s, s', p, us, h => by
    simp only [updateAll] at h
    split at h
    · simp at h
    · next s1 h1 =>
      rw [updateAll_hist c t xs s1 s' (p+1) us.tail h, updatePh_hist c s s1 t p xp _ h1]

/-! ### the whole step -/

/-- what `postProcess` does after its evaluation, for every backend: one row appended on top of the rows of the
evaluated state -/
theorem finishStep_hist (c : Cfg α) (e : St α × Slice α) (t' : α) (xP : List (List α)) (upd : List (UpdAns α)) (sD : St α)
    (h : finishStep c e t' xP upd = some sD) : sD.hist = e.2 :: e.1.hist := by
  unfold finishStep at h
  exact updateAll_hist _ _ _ _ _ _ _ h

/-- **one accepted step, for every backend**: exactly one row is appended and the earlier rows are untouched
(alignment of the 16 histories: they are the fields of one row); the new row is stamped with the old time plus the
accepted step and with the schedule's temperature; its nucleation terms obey `NucOK`; the accepted step is the
solver's clamp of the model's proposal against the remaining time. -/
theorem eulerStep_spec (c : Cfg α) (s : St α) (tf dtminS dtmaxS : α) (aPost : EvalAns α) (upd : List (UpdAns α))
    (o : StepOut α) (h : eulerStep c s tf dtminS dtmaxS aPost upd = some o) :
    ∃ y : Slice α, o.st.hist = y :: s.hist ∧ y.time = (s.cur c.nElem).time + o.dt ∧ y.temp = aPost.T ∧
      (∀ yp ∈ y.ph, ∃ pc ∈ c.phases, NucOK pc.rmin yp) ∧
      o.dt = Solver.clampDt dtminS
              (if tf - (s.cur c.nElem).time < dtmaxS then tf - (s.cur c.nElem).time else dtmaxS) (.fin o.dtProposed) := by
  unfold eulerStep at h
  simp only at h
  split at h
  · simp at h
  · next sD hD =>
    simp only [Option.some.injEq] at h
    subst h
    have hh := finishStep_hist _ _ _ _ _ _ hD
    refine ⟨(evaluated c s tf dtminS dtmaxS aPost).2, ?_, ?_, ?_, ?_, rfl⟩
    · rw [hh]; simp only [evaluated]; rw [depEval_hist]
    · exact (depEval_time _ _ _ _ _ _).1
    · exact (depEval_time _ _ _ _ _ _).2
    · exact depEval_nuc _ _ _ _ _ _

/-- the same for the Runge-Kutta iterator: whatever the three intermediate evaluations did to tables, growth field and
lookup, exactly one row is appended, stamped with old time + accepted step, and its nucleation terms obey `NucOK` -/
theorem rk4Step_spec (c : Cfg α) (s : St α) (tf dtminS dtmaxS : α) (a2 a3 a4 aPost : EvalAns α) (upd : List (UpdAns α))
    (o : StepOut α) (h : rk4Step c s tf dtminS dtmaxS a2 a3 a4 aPost upd = some o) :
    ∃ y : Slice α, o.st.hist = y :: s.hist ∧ y.time = (s.cur c.nElem).time + o.dt ∧ y.temp = aPost.T ∧
      (∀ yp ∈ y.ph, ∃ pc ∈ c.phases, NucOK pc.rmin yp) ∧
      o.dt = Solver.clampDt dtminS
              (if tf - (s.cur c.nElem).time < dtmaxS then tf - (s.cur c.nElem).time else dtmaxS) (.fin o.dtProposed) := by
  unfold rk4Step at h
  simp only at h
  split at h
  · simp at h
  · next sD hD =>
    simp only [Option.some.injEq] at h
    subst h
    have hh := finishStep_hist _ _ _ _ _ _ hD
    refine ⟨(rk4Post c s tf dtminS dtmaxS a2 a3 a4 aPost).2, ?_, (depEval_time _ _ _ _ _ _).1, (depEval_time _ _ _ _ _ _).2,
      depEval_nuc _ _ _ _ _ _, rfl⟩
    rw [hh]
    congr 1
    simp only [rk4Post, rk4Evals]
    rw [depEval_hist, depEval_hist, depEval_hist, depEval_hist]

/-- **alignment**: the number of recorded rows grows by exactly one per accepted step -/
theorem eulerStep_rows (c : Cfg α) (s : St α) (tf dtminS dtmaxS : α) (aPost : EvalAns α) (upd : List (UpdAns α))
    (o : StepOut α) (h : eulerStep c s tf dtminS dtmaxS aPost upd = some o) :
    o.st.hist.length = s.hist.length + 1 ∧ o.st.hist.tail = s.hist := by
  obtain ⟨y, hy, _⟩ := eulerStep_spec c s tf dtminS dtmaxS aPost upd o h
  rw [hy]; simp

theorem rk4Step_rows (c : Cfg α) (s : St α) (tf dtminS dtmaxS : α) (a2 a3 a4 aPost : EvalAns α) (upd : List (UpdAns α))
    (o : StepOut α) (h : rk4Step c s tf dtminS dtmaxS a2 a3 a4 aPost upd = some o) :
    o.st.hist.length = s.hist.length + 1 ∧ o.st.hist.tail = s.hist := by
  obtain ⟨y, hy, _⟩ := rk4Step_spec c s tf dtminS dtmaxS a2 a3 a4 aPost upd o h
  rw [hy]; simp

/-- the clock facts follow from the step specification alone (either iterator) -/
theorem clock_of_spec (c : Cfg α) (s : St α) (tf dtminS dtmaxS : α) (o : StepOut α) (y : Slice α)
    (hy : o.st.hist = y :: s.hist) (ht : y.time = (s.cur c.nElem).time + o.dt)
    (hdt : o.dt = Solver.clampDt dtminS
      (if tf - (s.cur c.nElem).time < dtmaxS then tf - (s.cur c.nElem).time else dtmaxS) (.fin o.dtProposed))
    (hmin : 0 < dtminS) (hmax : 0 < dtmaxS) (hleft : (s.cur c.nElem).time < tf) :
    (s.cur c.nElem).time < (o.st.cur c.nElem).time ∧ (o.st.cur c.nElem).time ≤ tf ∧ o.dt ≤ dtmaxS := by
  have hcur : o.st.cur c.nElem = y := by simp [St.cur, hy]
  rw [hcur, ht]
  set t := (s.cur c.nElem).time with htdef
  set m := (if tf - t < dtmaxS then tf - t else dtmaxS) with hm
  have hmpos : 0 < m := by rw [hm]; split <;> linarith
  have hle : o.dt ≤ m := by rw [hdt]; exact C05.clampDt_le_max _ _ _
  have hpos : 0 < o.dt := by rw [hdt]; exact C05.clampDt_pos _ _ _ hmin hmpos
  have hm1 : m ≤ tf - t := by rw [hm]; split <;> linarith
  have hm2 : m ≤ dtmaxS := by rw [hm]; split <;> linarith
  refine ⟨by linarith, by linarith, by linarith⟩

/-- **clock**: with a positive minimum step and time left, the new time stamp is strictly later than the old one,
does not pass the end time and the step does not exceed the solver's current maximum — whatever `getDt` proposed -/
theorem eulerStep_clock (c : Cfg α) (s : St α) (tf dtminS dtmaxS : α) (aPost : EvalAns α) (upd : List (UpdAns α))
    (o : StepOut α) (h : eulerStep c s tf dtminS dtmaxS aPost upd = some o)
    (hmin : 0 < dtminS) (hmax : 0 < dtmaxS) (hleft : (s.cur c.nElem).time < tf) :
    (s.cur c.nElem).time < (o.st.cur c.nElem).time ∧ (o.st.cur c.nElem).time ≤ tf ∧ o.dt ≤ dtmaxS := by
  obtain ⟨y, hy, ht, _, _, hdt⟩ := eulerStep_spec c s tf dtminS dtmaxS aPost upd o h
  exact clock_of_spec c s tf dtminS dtmaxS o y hy ht hdt hmin hmax hleft

theorem rk4Step_clock (c : Cfg α) (s : St α) (tf dtminS dtmaxS : α) (a2 a3 a4 aPost : EvalAns α) (upd : List (UpdAns α))
    (o : StepOut α) (h : rk4Step c s tf dtminS dtmaxS a2 a3 a4 aPost upd = some o)
    (hmin : 0 < dtminS) (hmax : 0 < dtmaxS) (hleft : (s.cur c.nElem).time < tf) :
    (s.cur c.nElem).time < (o.st.cur c.nElem).time ∧ (o.st.cur c.nElem).time ≤ tf ∧ o.dt ≤ dtmaxS := by
  obtain ⟨y, hy, ht, _, _, hdt⟩ := rk4Step_spec c s tf dtminS dtmaxS a2 a3 a4 aPost upd o h
  exact clock_of_spec c s tf dtminS dtmaxS o y hy ht hdt hmin hmax hleft

/-! ### freshness of the lookup table through the whole step (C13's second sentence, on the composed model) -/

theorem growthRate_fresh (c : Cfg α) (s : St α) (a : EvalAns α) (y : Slice α) (hmax : 0 ≤ c.maxTempChange)
    (h : Fresh c s y.temp) : Fresh c (growthRate c s a y).1 y.temp := by
  unfold growthRate
  split
  · exact growthBinary_fresh c s a y hmax
  · exact h

theorem afterAdjust_fresh (c : Cfg α) (s : St α) (p : Nat) (ps : PhaseSt α) (g2 : Grid.State α) (change : Bool)
    (added : Option Nat) (u : UpdAns α) (hmax : 0 ≤ c.maxTempChange) (hf : Fresh c s (s.cur c.nElem).temp) :
    Fresh c (afterAdjust c s p ps g2 change added u) (s.cur c.nElem).temp := by
  unfold afterAdjust
  simp only
  split
  · -- the `if change:` branch ends with a growth-rate call on a copy of the newest row
    apply growthRate_fresh c _ u.regrow (s.cur c.nElem) hmax
    split
    · split
      · simp only [Fresh, createLookup]; rw [absS_self_sub]; exact hmax
      · exact hf
    · exact hf
  · exact hf

theorem updatePh_fresh (c : Cfg α) (s s' : St α) (t : α) (p : Nat) (xp : List α) (u : UpdAns α)
    (hmax : 0 ≤ c.maxTempChange) (hf : Fresh c s (s.cur c.nElem).temp)
    (h : updatePh c s t p xp u = some s') : Fresh c s' (s.cur c.nElem).temp := by
  unfold updatePh at h
  simp only at h
  split at h
  · simp at h
  · split at h
    · simp only [Option.some.injEq] at h; subst h; exact hf
    · split at h
      · simp at h
      · split at h
        · simp at h
        · split at h
          · simp at h
          · split at h
            · simp at h
            · simp only [Option.some.injEq] at h
              subst h
              exact afterAdjust_fresh _ _ _ _ _ _ _ _ hmax hf

theorem updateAll_fresh (c : Cfg α) (t : α) (hmax : 0 ≤ c.maxTempChange) :
    ∀ (xs : List (List α)) (s s' : St α) (p : Nat) (us : List (UpdAns α)),
    Fresh c s (s.cur c.nElem).temp → updateAll c t s p xs us = some s' → Fresh c s' (s'.cur c.nElem).temp
  | [], s, s', p, us, hf, h => by simp [updateAll] at h; subst h; exact hf
  | xp :: xs, s, s', p, us, hf, h => by
    simp only [updateAll] at h
    split at h
    · simp at h
    · next s1 h1 =>
      have hh := updatePh_hist c s s1 t p xp _ h1
      have hc : s1.cur c.nElem = s.cur c.nElem := by simp [St.cur, hh]
      have := updatePh_fresh c s s1 t p xp _ hmax hf h1
      rw [← hc] at this
      exact updateAll_fresh c t hmax xs s1 s' (p+1) us.tail this h

theorem growthRate_fresh_binary (c : Cfg α) (s : St α) (a : EvalAns α) (y : Slice α) (hb : c.binary = true)
    (hmax : 0 ≤ c.maxTempChange) : Fresh c (growthRate c s a y).1 (growthRate c s a y).2.temp := by
  rw [(growthRate_time c s a y).2.1]
  unfold growthRate
  rw [if_pos hb]
  exact growthBinary_fresh c s a y hmax

theorem depEval_fresh (c : Cfg α) (s : St α) (t : α) (x : List (List α)) (a : EvalAns α) (y : Slice α)
    (hb : c.binary = true) (hmax : 0 ≤ c.maxTempChange) :
    Fresh c (depEval c s t x a y).1 (depEval c s t x a y).2.temp := by
  unfold depEval
  exact growthRate_fresh_binary c s a _ hb hmax

/-- freshness survives `_appendArrays` + `_updateParticleSizeDistribution` -/
theorem finishStep_fresh (c : Cfg α) (e : St α × Slice α) (t' : α) (xP : List (List α)) (upd : List (UpdAns α)) (sD : St α)
    (hmax : 0 ≤ c.maxTempChange) (hf : Fresh c e.1 e.2.temp) (h : finishStep c e t' xP upd = some sD) :
    Fresh c sD (sD.cur c.nElem).temp := by
  unfold finishStep at h
  refine updateAll_fresh c _ hmax _ _ _ _ _ ?_ h
  simpa [St.cur, Fresh] using hf

/-- **lookup freshness after every accepted step, for every backend and schedule**: the interfacial-composition table
in use was computed at a temperature within `maxTempChange` of the temperature of the newest recorded row — heating or
cooling, fast or arbitrarily slow, across re-meshing and extension of the size classes -/
theorem eulerStep_fresh (c : Cfg α) (s : St α) (tf dtminS dtmaxS : α) (aPost : EvalAns α) (upd : List (UpdAns α))
    (o : StepOut α) (hb : c.binary = true) (hmax : 0 ≤ c.maxTempChange)
    (h : eulerStep c s tf dtminS dtmaxS aPost upd = some o) :
    Fresh c o.st (o.st.cur c.nElem).temp := by
  unfold eulerStep at h
  simp only at h
  split at h
  · simp at h
  · next sD hD =>
    simp only [Option.some.injEq] at h
    subst h
    exact finishStep_fresh c _ _ _ _ _ hmax (depEval_fresh c _ _ _ _ _ hb hmax) hD

/-- the same for the Runge-Kutta iterator (four growth-rate calls per step, each may rebuild the table) -/
theorem rk4Step_fresh (c : Cfg α) (s : St α) (tf dtminS dtmaxS : α) (a2 a3 a4 aPost : EvalAns α) (upd : List (UpdAns α))
    (o : StepOut α) (hb : c.binary = true) (hmax : 0 ≤ c.maxTempChange)
    (h : rk4Step c s tf dtminS dtmaxS a2 a3 a4 aPost upd = some o) :
    Fresh c o.st (o.st.cur c.nElem).temp := by
  unfold rk4Step at h
  simp only at h
  split at h
  · simp at h
  · next sD hD =>
    simp only [Option.some.injEq] at h
    subst h
    exact finishStep_fresh c _ _ _ _ _ hmax (depEval_fresh c _ _ _ _ _ hb hmax) hD

/-! ### solute conservation of the row a step records (C01 on the composed model) -/

/-- the inputs of the mass balance of the row recorded by a step: processed new distributions, the tables and grids of the
entry state, previous volume fraction / content from the last recorded row -/
def stepMassIns (c : Cfg α) (s : St α) (tf dtminS dtmaxS : α) : List (MB.PhaseIn α) :=
  massIns c s (processAll c s (advanced c s (acceptedDt c s tf dtminS dtmaxS)))

/-- the matrix composition written into the row a step records IS the composition of `MB.massBalance` on those
inputs, whatever the nucleation and growth stages and the backend did afterwards -/
theorem evaluated_comp (c : Cfg α) (s : St α) (tf dtminS dtmaxS : α) (aPost : EvalAns α) :
    (evaluated c s tf dtminS dtmaxS aPost).2.comp =
      (MB.massBalance c.minDens c.minComp c.x0 (s.cur c.nElem).comp (stepMassIns c s tf dtminS dtmaxS)).comp := by
  unfold evaluated depEval
  simp only
  rw [(growthRate_time _ _ _ _).2.2]
  rfl

/-- **conservation for the recorded row of every accepted step, for every backend**: while the total precipitate fraction
is below 1 and element e is not clamped, initial content = recorded matrix composition × matrix fraction + content held in
the precipitates (the fraction and the content being those of the same mass-balance call) -/
theorem eulerStep_conserves (c : Cfg α) (s : St α) (tf dtminS dtmaxS : α) (aPost : EvalAns α) (upd : List (UpdAns α))
    (o : StepOut α) (h : eulerStep c s tf dtminS dtmaxS aPost upd = some o) (e : Nat) (he : e < c.x0.length)
    (hsat : MB.sumVolFrac (MB.massBalance c.minDens c.minComp c.x0 (s.cur c.nElem).comp (stepMassIns c s tf dtminS dtmaxS)).phases < 1)
    (hpos : ¬ MB.rawComp c.x0 (MB.massBalance c.minDens c.minComp c.x0 (s.cur c.nElem).comp (stepMassIns c s tf dtminS dtmaxS)).phases e < 0) :
    c.x0.getD e 0 =
      (o.st.cur c.nElem).comp.getD e 0
          * (1 - MB.sumVolFrac (MB.massBalance c.minDens c.minComp c.x0 (s.cur c.nElem).comp (stepMassIns c s tf dtminS dtmaxS)).phases)
        + MB.sumFconc (MB.massBalance c.minDens c.minComp c.x0 (s.cur c.nElem).comp (stepMassIns c s tf dtminS dtmaxS)).phases e := by
  have hcur : o.st.cur c.nElem = (evaluated c s tf dtminS dtmaxS aPost).2 := by
    unfold eulerStep at h
    simp only at h
    split at h
    · simp at h
    · next sD hD =>
      simp only [Option.some.injEq] at h
      subst h
      have hh := finishStep_hist _ _ _ _ _ _ hD
      simp only [St.cur, hh, List.headD_cons]
  rw [hcur, evaluated_comp]
  exact C01.massBalance_conserves c.minDens c.minComp c.x0 _ _ e he hsat hpos

/-! ### any number of steps: the recorded histories of every run of the composed model -/

/-- rows that can have been appended on top of `base` by accepted steps: each new row is strictly later than the
previous newest row, not later than the end time, and its nucleation terms obey `NucOK` -/
inductive Reach (c : Cfg α) (tf : α) (base : List (Slice α)) : List (Slice α) → Prop
  | base : Reach c tf base base
  | step (h : List (Slice α)) (y : Slice α) : Reach c tf base h → (h.headD (Slice.zero c.nElem)).time < y.time →
      y.time ≤ tf → (∀ yp ∈ y.ph, ∃ pc ∈ c.phases, NucOK pc.rmin yp) → Reach c tf base (y :: h)

theorem Reach.trans (c : Cfg α) (tf : α) (a b d : List (Slice α)) (h1 : Reach c tf a b) (h2 : Reach c tf b d) :
    Reach c tf a d := by
  induction h2 with
  | base => exact h1
  | step h y _ ht hle hn ih => exact Reach.step h y ih ht hle hn

theorem Reach.length (c : Cfg α) (tf : α) (a b : List (Slice α)) (h : Reach c tf a b) :
    a.length ≤ b.length ∧ b.drop (b.length - a.length) = a := by
  induction h with
  | base => simp
  | step h y _ _ _ _ ih =>
    refine ⟨by simp; omega, ?_⟩
    have : (y :: h).length - a.length = (h.length - a.length) + 1 := by simp; omega
    rw [this, List.drop_succ_cons]; exact ih.2

theorem dtmaxNow_pos (c : Cfg α) (s : St α) (tf dtmaxS : α) (h1 : 0 < dtmaxS) (h2 : (s.cur c.nElem).time < tf) :
    0 < dtmaxNow c s tf dtmaxS := by
  unfold dtmaxNow; split <;> linarith

theorem anyStep_spec (c : Cfg α) (s : St α) (tf dtminS dtmaxS : α) (au : StepAns α) (o : StepOut α)
    (h : anyStep c s tf dtminS dtmaxS au = some o) :
    ∃ y : Slice α, o.st.hist = y :: s.hist ∧ y.time = (s.cur c.nElem).time + o.dt ∧
      (∀ yp ∈ y.ph, ∃ pc ∈ c.phases, NucOK pc.rmin yp) ∧
      o.dt = Solver.clampDt dtminS
              (if tf - (s.cur c.nElem).time < dtmaxS then tf - (s.cur c.nElem).time else dtmaxS) (.fin o.dtProposed) := by
  cases au with
  | euler a u =>
    obtain ⟨y, h1, h2, _, h4, h5⟩ := eulerStep_spec c s tf dtminS dtmaxS a u o h
    exact ⟨y, h1, h2, h4, h5⟩
  | rk4 a2 a3 a4 a u =>
    obtain ⟨y, h1, h2, _, h4, h5⟩ := rk4Step_spec c s tf dtminS dtmaxS a2 a3 a4 a u o h
    exact ⟨y, h1, h2, h4, h5⟩

theorem anyStep_fresh (c : Cfg α) (s : St α) (tf dtminS dtmaxS : α) (au : StepAns α) (o : StepOut α)
    (hb : c.binary = true) (hmax : 0 ≤ c.maxTempChange) (h : anyStep c s tf dtminS dtmaxS au = some o) :
    Fresh c o.st (o.st.cur c.nElem).temp := by
  cases au with
  | euler a u => exact eulerStep_fresh c s tf dtminS dtmaxS a u o hb hmax h
  | rk4 a2 a3 a4 a u => exact rk4Step_fresh c s tf dtminS dtmaxS a2 a3 a4 a u o hb hmax h

/-- **every run of the composed model, any number of accepted steps, either iterator, any backend**: the recorded rows
after the run are the rows before it plus rows appended one per step with strictly increasing time stamps that never
pass the end time, each with nucleation terms obeying `NucOK`. -/
theorem runSteps_reach (c : Cfg α) (tf dtminS : α) (hmin : 0 < dtminS) :
    ∀ (steps : List (StepAns α)) (s s' : St α) (m m' : α), 0 < m →
      runSteps c tf dtminS s m steps = some (s', m') → Reach c tf s.hist s'.hist
  | [], s, s', m, m', _, h => by simp [runSteps] at h; rw [h.1]; exact Reach.base
  | au :: rest, s, s', m, m', hm, h => by
    simp only [runSteps] at h
    split at h
    · next hlt =>
      split at h
      · simp at h
      · next o ho =>
        obtain ⟨y, hy, ht, hnuc, hdt⟩ := anyStep_spec c s tf dtminS m au o ho
        have hclk := clock_of_spec c s tf dtminS m o y hy ht hdt hmin hm hlt
        have hcur : o.st.cur c.nElem = y := by simp [St.cur, hy]
        have h1 : Reach c tf s.hist o.st.hist := by
          rw [hy]
          refine Reach.step s.hist y Reach.base ?_ ?_ hnuc
          · have := hclk.1; rw [hcur] at this; exact this
          · have := hclk.2.1; rw [hcur] at this; exact this
        exact Reach.trans c tf _ _ _ h1
          (runSteps_reach c tf dtminS hmin rest o.st s' _ m' (dtmaxNow_pos c s tf m hm hlt) h)
    · simp only [Option.some.injEq, Prod.mk.injEq] at h; rw [h.1]; exact Reach.base

/-- and (binary models) the lookup table is fresh for the newest row after any run -/
theorem runSteps_fresh (c : Cfg α) (tf dtminS : α) (hb : c.binary = true) (hmax : 0 ≤ c.maxTempChange) :
    ∀ (steps : List (StepAns α)) (s s' : St α) (m m' : α),
      Fresh c s (s.cur c.nElem).temp → runSteps c tf dtminS s m steps = some (s', m') →
      Fresh c s' (s'.cur c.nElem).temp
  | [], s, s', m, m', hf, h => by simp [runSteps] at h; rw [← h.1]; exact hf
  | au :: rest, s, s', m, m', hf, h => by
    simp only [runSteps] at h
    split at h
    · split at h
      · simp at h
      · next o ho =>
        exact runSteps_fresh c tf dtminS hb hmax rest o.st s' _ m'
          (anyStep_fresh c s tf dtminS m au o hb hmax ho) h
    · simp only [Option.some.injEq, Prod.mk.injEq] at h; rw [← h.1]; exact hf

/-! ### the stored size-class grids stay consistent through every step (C08's invariant inside KWN runs) -/

open KawinV.Grid in
/-- a PBM grid as a KWN phase holds it: `C08.Inv` (class count ≥ 1, boundaries = linspace from min to max strictly
increasing, centres are midpoints, lengths match, populations ≥ 0, usable original grid and backup) with sensible bin limits,
history recording off -/
def GridGood (g : Grid.State α) : Prop := C08.Inv g ∧ 1 ≤ g.minBins ∧ 1 ≤ g.maxBins ∧ g.recording = false

def AllGood (l : List (PhaseSt α)) : Prop := ∀ ps ∈ l, GridGood ps.grid

theorem processX_nonneg (k : Nat) (mr : α) (x R : List α) (hx : ∀ v ∈ x, 0 ≤ v) :
    ∀ v ∈ PSD.processX k mr x R, 0 ≤ v := by
  unfold PSD.processX
  intro v hv
  rw [List.mem_mapIdx] at hv
  obtain ⟨i, hi, rfl⟩ := hv
  split
  · exact le_refl _
  · have hm := List.getElem_mem hi
    rw [List.mem_iff_getElem] at hm
    obtain ⟨j, hj, hje⟩ := hm
    rw [List.getElem_zipWith] at hje
    rw [← hje]
    split
    · exact le_refl _
    · exact hx _ (List.getElem_mem _)

theorem update_good (g g1 : Grid.State α) (t : α) (N : List α) (h : GridGood g) (hN : N.length = g.bins)
    (hu : Grid.update g t N = some g1) : GridGood g1 := by
  obtain ⟨hi, h1, h2, hr⟩ := h
  have hinv := C08.update_inv g g1 t N hi hN (by intro h'; rw [hr] at h'; cases h') hu
  unfold Grid.update Grid.record at hu
  simp only [hr] at hu
  simp only [Bool.false_eq_true, if_false, Option.some.injEq] at hu
  subst hu
  exact ⟨hinv, h1, h2, rfl⟩

theorem add_cfg (g g' : Grid.State α) (k : Nat) (h : Grid.add g k = some g') :
    g'.minBins = g.minBins ∧ g'.maxBins = g.maxBins ∧ g'.recording = g.recording := by
  unfold Grid.add at h
  split at h
  · simp only [Option.some.injEq] at h; subst h; exact ⟨rfl, rfl, rfl⟩
  · simp at h

theorem change_cfg (g g' : Grid.State α) (a b : α) (n : Option Nat) (r : Bool) (h : Grid.change g a b n r = some g') :
    g'.minBins = g.minBins ∧ g'.maxBins = g.maxBins ∧ g'.recording = g.recording := by
  unfold Grid.change at h
  simp only at h
  split at h
  · simp only [Option.some.injEq] at h; subst h; simp only [Grid.reset, Grid.retarget]; split <;> exact ⟨rfl, rfl, rfl⟩
  · split at h
    · simp at h
    · split at h <;>
      (simp only [Option.some.injEq] at h; subst h; simp only [Grid.reset, Grid.retarget]; exact ⟨rfl, rfl, rfl⟩)

theorem adjust_good (g g' : Grid.State α) (cd chg : Bool) (ni : Option Nat) (h : GridGood g)
    (ha : Grid.adjust g cd = some (g', chg, ni)) : GridGood g' := by
  obtain ⟨hi, h1, h2, hr⟩ := h
  have hinv := C08.adjust_inv g g' cd chg ni hi h1 h2 ha
  refine ⟨hinv, ?_⟩
  unfold Grid.adjust at ha
  split at ha
  · simp at ha
  · next s1 c1 n1 hadd =>
    have hc1 : s1.minBins = g.minBins ∧ s1.maxBins = g.maxBins ∧ s1.recording = g.recording := by
      unfold Grid.adjustAdd at hadd
      split at hadd
      · simp at hadd
      · split at hadd
        · rw [Option.map_eq_some_iff] at hadd
          obtain ⟨t, hadd', heq⟩ := hadd
          have : t = s1 := by simpa using congrArg Prod.fst heq
          subst this
          exact add_cfg _ _ _ hadd'
        · simp only [Option.some.injEq, Prod.mk.injEq] at hadd
          rw [← hadd.1]; exact ⟨rfl, rfl, rfl⟩
    split at ha
    · simp at ha
    · simp only [Option.some.injEq, Prod.mk.injEq] at ha
      rw [← ha.1, hc1.1, hc1.2.1, hc1.2.2]; exact ⟨h1, h2, hr⟩
    · rw [Option.map_eq_some_iff] at ha
      obtain ⟨t, hch, heq⟩ := ha
      have : t = g' := by simpa using congrArg Prod.fst heq
      subst this
      have hc2 := change_cfg _ _ _ _ _ _ hch
      rw [hc2.1, hc2.2.1, hc2.2.2, hc1.1, hc1.2.1, hc1.2.2]; exact ⟨h1, h2, hr⟩

theorem finishPh_good (c : Cfg α) (ps : PhaseSt α) (h : GridGood ps.grid) : GridGood (finishPh c ps).grid := by
  obtain ⟨hi, h1, h2, hr⟩ := h
  unfold finishPh
  simp only
  refine ⟨C08.setPsd_inv ps.grid _ hi ?_ ?_, h1, h2, hr⟩
  · rw [C03.processX_length]
    have := (C08.inv_spec ps.grid hi)
    rw [this.2.1, this.2.2.2.1]; simp
  · exact processX_nonneg _ _ _ _ (C08.inv_spec ps.grid hi).2.2.2.2.2.2.2.2

theorem reset_good (g : Grid.State α) (h : GridGood g) : GridGood (Grid.reset g true) := by
  obtain ⟨hi, h1, h2, hr⟩ := h
  refine ⟨C08.reset_true_inv g hi.orig_bins hi.orig_nonneg hi.orig_lt hi.recs hi.saved, ?_⟩
  simp only [Grid.reset, if_true]
  exact ⟨h1, h2, hr⟩

theorem allGood_set (l : List (PhaseSt α)) (p : Nat) (v : PhaseSt α) (h : AllGood l) (hv : GridGood v.grid) :
    AllGood (setPh l p v) := by
  intro ps hps
  unfold setPh at hps
  rcases List.mem_or_eq_of_mem_set hps with h1 | h1
  · exact h ps h1
  · rw [h1]; exact hv

theorem createLookup_good (T : α) (tab : List (TablePh α)) (s : St α) (h : AllGood s.ph) :
    AllGood (createLookup T tab s).ph := by
  intro ps hps
  simp only [createLookup] at hps
  rw [List.mem_iff_getElem] at hps
  obtain ⟨i, hi, rfl⟩ := hps
  rw [List.getElem_zipWith]
  show GridGood (s.ph[i]'(by simp at hi; omega)).grid
  exact h _ (List.getElem_mem _)

theorem growthRate_good (c : Cfg α) (s : St α) (a : EvalAns α) (y : Slice α) (h : AllGood s.ph) :
    AllGood (growthRate c s a y).1.ph := by
  unfold growthRate
  split
  · unfold growthBinary
    simp only
    intro ps hps
    rw [List.mem_map] at hps
    obtain ⟨t, ht, rfl⟩ := hps
    have hm := (mem_zip3_fst _ _ _ _ ht).2.1
    show GridGood t.2.1.grid
    split at hm
    · exact createLookup_good _ _ _ h _ hm
    · exact h _ hm
  · unfold growthMulti
    simp only
    intro ps hps
    rw [List.mem_map] at hps
    obtain ⟨q, hq, rfl⟩ := hps
    rw [List.mem_map] at hq
    obtain ⟨t, ht, rfl⟩ := hq
    have hm := (mem_zip3_fst _ _ _ _ ht).1
    have hg : (growthMultiPh c t.1 t.2.1 t.2.2).1.grid = t.1.grid := by
      unfold growthMultiPh
      simp only
      split
      · rfl
      · split
        · split <;> rfl
        · rfl
    simp only
    rw [hg]
    exact h _ hm

theorem depEval_good (c : Cfg α) (s : St α) (t : α) (x : List (List α)) (a : EvalAns α) (y : Slice α) (h : AllGood s.ph) :
    AllGood (depEval c s t x a y).1.ph := by
  unfold depEval
  exact growthRate_good _ _ _ _ h

theorem afterAdjust_good (c : Cfg α) (s : St α) (p : Nat) (ps : PhaseSt α) (g2 : Grid.State α) (change : Bool)
    (added : Option Nat) (u : UpdAns α) (hg : AllGood s.ph) (hg2 : GridGood g2) :
    AllGood (afterAdjust c s p ps g2 change added u).ph := by
  unfold afterAdjust
  simp only
  split
  · apply growthRate_good
    split
    · split
      · apply createLookup_good
        exact allGood_set _ _ _ (allGood_set _ _ _ hg hg2) hg2
      · exact allGood_set _ _ _ (allGood_set _ _ _ (allGood_set _ _ _ hg hg2) hg2) hg2
    · exact allGood_set _ _ _ (allGood_set _ _ _ (allGood_set _ _ _ hg hg2) hg2) hg2
  · exact allGood_set _ _ _ hg hg2

theorem updatePh_good (c : Cfg α) (s s' : St α) (t : α) (p : Nat) (xp : List α) (u : UpdAns α) (hg : AllGood s.ph)
    (h : updatePh c s t p xp u = some s') : AllGood s'.ph := by
  unfold updatePh at h
  simp only at h
  split at h
  · simp at h
  · next ps hps =>
    have hps' : GridGood ps.grid := hg ps (List.mem_of_getElem? hps)
    split at h
    · simp only [Option.some.injEq] at h; subst h
      exact allGood_set _ _ _ hg (reset_good _ hps')
    · split at h
      · simp at h
      · next hlen =>
        split at h
        · simp at h
        · next g1 hu =>
          have hg1 := update_good ps.grid g1 t xp hps' (by simpa using hlen) hu
          split at h
          · simp at h
          · next g2 change added hadj =>
            have hg2 := adjust_good g1 g2 _ change added hg1 hadj
            have hs3 := afterAdjust_good c s p ps g2 change added u hg hg2
            split at h
            · simp at h
            · next psF hF =>
              simp only [Option.some.injEq] at h
              subst h
              exact allGood_set _ _ _ hs3 (finishPh_good c psF (hs3 psF (List.mem_of_getElem? hF)))

theorem updateAll_good (c : Cfg α) (t : α) : ∀ (xs : List (List α)) (s s' : St α) (p : Nat) (us : List (UpdAns α)),
    AllGood s.ph → updateAll c t s p xs us = some s' → AllGood s'.ph
  | [], s, s', p, us, hg, h => by simp [updateAll] at h; subst h; exact hg
  | xp :: xs, s, s', p, us, hg, h => by
    simp only [updateAll] at h
    split at h
    · simp at h
    · next s1 h1 => exact updateAll_good c t xs s1 s' (p+1) us.tail (updatePh_good c s s1 t p xp _ hg h1) h

theorem finishStep_good (c : Cfg α) (e : St α × Slice α) (t' : α) (xP : List (List α)) (upd : List (UpdAns α)) (sD : St α)
    (hg : AllGood e.1.ph) (h : finishStep c e t' xP upd = some sD) : AllGood sD.ph := by
  unfold finishStep at h
  exact updateAll_good c t' xP { e.1 with hist := e.2 :: e.1.hist } sD 0 upd hg h

/-- **the stored size-class grids after every accepted step, for every backend answer and either iterator**: class count
≥ 1, boundaries strictly increasing from the stated minimum to the stated maximum, centres are midpoints, array lengths match
the class count and every stored population is non-negative — whatever growth field, nucleation terms, tables or step the step
used, through truncation, extension, re-meshing, reset and the zeroing below the thresholds -/
theorem anyStep_good (c : Cfg α) (s : St α) (tf dtminS dtmaxS : α) (au : StepAns α) (o : StepOut α) (hg : AllGood s.ph)
    (h : anyStep c s tf dtminS dtmaxS au = some o) : AllGood o.st.ph := by
  cases au with
  | euler a u =>
    simp only [anyStep, eulerStep] at h
    split at h
    · simp at h
    · next sD hD =>
      simp only [Option.some.injEq] at h; subst h
      exact finishStep_good c _ _ _ _ _ (depEval_good _ _ _ _ _ _ hg) hD
  | rk4 a2 a3 a4 a u =>
    simp only [anyStep, rk4Step] at h
    split at h
    · simp at h
    · next sD hD =>
      simp only [Option.some.injEq] at h; subst h
      refine finishStep_good c _ _ _ _ _ ?_ hD
      simp only [rk4Post, rk4Evals]
      exact depEval_good _ _ _ _ _ _ (depEval_good _ _ _ _ _ _ (depEval_good _ _ _ _ _ _ (depEval_good _ _ _ _ _ _ hg)))

theorem runSteps_good (c : Cfg α) (tf dtminS : α) :
    ∀ (steps : List (StepAns α)) (s s' : St α) (m m' : α), AllGood s.ph →
      runSteps c tf dtminS s m steps = some (s', m') → AllGood s'.ph
  | [], s, s', m, m', hg, h => by simp [runSteps] at h; rw [← h.1]; exact hg
  | au :: rest, s, s', m, m', hg, h => by
    simp only [runSteps] at h
    split at h
    · split at h
      · simp at h
      · next o ho => exact runSteps_good c tf dtminS rest o.st s' _ m' (anyStep_good c s tf dtminS m au o hg ho) h
    · simp only [Option.some.injEq, Prod.mk.injEq] at h; rw [← h.1]; exact hg

/-! ### the state an Euler step hands to `postProcess` is non-negative — unconditionally (C07's clause inside KWN runs) -/

theorem fn_nonneg (x : List α) (hx : ∀ v ∈ x, 0 ≤ v) (j : Nat) : 0 ≤ fn x j := by
  unfold fn
  rw [List.getD_eq_getElem?_getD]
  cases h : x[j]? with
  | none => simp
  | some v => simp only [Option.getD_some]; exact hx v (List.mem_of_getElem? h)

/-- for ANY growth field, any grid widths, any nucleation radius and non-negative rate and any positive step: when the
fluxes are computed from, limited against and added to the same non-negative distribution (an Euler step whose stored
distribution is already thresholded — every step of a single-phase run), no class of the new state is negative.  No
hypothesis about the step limit: this is the repaired `correctdXdtEuler` (total-outflow limiter, /repo f9a39e6). -/
theorem advanceStage_nonneg (ps : PhaseSt α) (x : List α) (yp : PSlice α) (dt : α) (hdt : 0 < dt)
    (hx : ∀ v ∈ x, 0 ≤ v) (hlen : x.length = ps.grid.bins) (hr : 0 ≤ yp.nucRate) :
    ∀ v ∈ advanceStage ps x x x yp dt, 0 ≤ v := by
  intro v hv
  unfold advanceStage at hv
  simp only at hv
  rw [List.mem_map] at hv
  obtain ⟨i, hi, rfl⟩ := hv
  rw [List.mem_range] at hi
  have := C07.corrected_update_nonneg_pbm ps.grid.bins dt (fn ps.growth) (fn x) (fn (Grid.widths ps.grid.bounds)) i
    (by omega) (nucIdxOf ps yp.Rnuc) yp.nucRate hr hdt (fn_nonneg x hx)
  unfold faceFlux
  linarith [this, mul_comm dt (PBM.dXdt (PBM.correctedFlux ps.grid.bins dt (fn x)
    (PBM.netFlux ps.grid.bins (fn ps.growth) (fn x) (fn (Grid.widths ps.grid.bounds)))) (nucIdxOf ps yp.Rnuc) yp.nucRate i)]

/-! ### from construction: `setup()` establishes what the step theorems assume -/

theorem setupState_hist (c : Cfg α) (s : St α) (a : EvalAns α) (eq : List (Option (List α × List α))) :
    ∃ y : Slice α, (setupState c s a eq).hist = y :: s.hist.tail ∧ y.temp = a.T ∧
      (∀ yp ∈ y.ph, ∃ pc ∈ c.phases, NucOK pc.rmin yp) := by
  unfold setupState
  simp only
  refine ⟨_, rfl, ?_, ?_⟩
  · rw [(growthRate_time _ _ _ _).2.1, (nucleation_time _ _ _ _ _ _).2.1]; split <;> rfl
  · apply growthRate_ph c _ a _ (fun yp => ∃ pc ∈ c.phases, NucOK pc.rmin yp)
    · intro yp ea eb ⟨pc, hpc, h⟩; exact ⟨pc, hpc, h⟩
    · exact nucleation_ok _ _ _ _ _ _

/-- `setup()` leaves every PBM on a consistent grid when it was constructed on one -/
theorem setupState_good (c : Cfg α) (s : St α) (a : EvalAns α) (eq : List (Option (List α × List α)))
    (hg : AllGood s.ph) : AllGood (setupState c s a eq).ph := by
  unfold setupState
  simp only
  apply growthRate_good
  have h0 : AllGood (s.ph.map (fun ps => { ps with grid := Grid.reset ps.grid true })) := by
    intro ps hps
    rw [List.mem_map] at hps
    obtain ⟨q, hq, rfl⟩ := hps
    exact reset_good _ (hg q hq)
  intro ps hps
  rw [List.mem_map] at hps
  obtain ⟨q, hq, rfl⟩ := hps
  show GridGood q.grid
  split at hq
  · exact createLookup_good _ _ _ h0 q hq
  · simp only at hq
    rw [List.mem_map] at hq
    obtain ⟨r, hr, rfl⟩ := hq
    exact h0 r hr

/-- binary: after `setup()` the lookup table is fresh for the recorded temperature -/
theorem setupState_fresh (c : Cfg α) (s : St α) (a : EvalAns α) (eq : List (Option (List α × List α)))
    (hb : c.binary = true) (hmax : 0 ≤ c.maxTempChange) :
    Fresh c (setupState c s a eq) ((setupState c s a eq).cur c.nElem).temp := by
  unfold setupState
  simp only [St.cur, List.headD_cons]
  exact growthRate_fresh_binary c _ a _ hb hmax

/-- **every run from a freshly constructed model, for every backend, schedule, iterator and number of steps**: the stored
grids are consistent and non-negative after the run, and (binary) the lookup table is fresh for the newest row -/
theorem runFromSetup_good (c : Cfg α) (s : St α) (a0 : EvalAns α) (eq : List (Option (List α × List α))) (tf dtminS dtmaxS : α)
    (steps : List (StepAns α)) (s' : St α) (m' : α) (hg : AllGood s.ph)
    (h : runFromSetup c s a0 eq tf dtminS dtmaxS steps = some (s', m')) : AllGood s'.ph :=
  runSteps_good c tf dtminS steps _ s' dtmaxS m' (setupState_good c s a0 eq hg) h

theorem runFromSetup_fresh (c : Cfg α) (s : St α) (a0 : EvalAns α) (eq : List (Option (List α × List α))) (tf dtminS dtmaxS : α)
    (steps : List (StepAns α)) (s' : St α) (m' : α) (hb : c.binary = true) (hmax : 0 ≤ c.maxTempChange)
    (h : runFromSetup c s a0 eq tf dtminS dtmaxS steps = some (s', m')) : Fresh c s' (s'.cur c.nElem).temp :=
  runSteps_fresh c tf dtminS hb hmax steps _ s' dtmaxS m' (setupState_fresh c s a0 eq hb hmax) h

theorem runFromSetup_reach (c : Cfg α) (s : St α) (a0 : EvalAns α) (eq : List (Option (List α × List α))) (tf dtminS dtmaxS : α)
    (steps : List (StepAns α)) (s' : St α) (m' : α) (hmin : 0 < dtminS) (hmax : 0 < dtmaxS)
    (h : runFromSetup c s a0 eq tf dtminS dtmaxS steps = some (s', m')) :
    Reach c tf (setupState c s a0 eq).hist s'.hist :=
  runSteps_reach c tf dtminS hmin steps _ s' dtmaxS m' hmax h

/-! ### C01 stated on the recorded row: per-phase fractions and contents are those of the mass-balance call -/

theorem zip3_getElem? {β γ δ : Type} : ∀ (l1 : List β) (l2 : List γ) (l3 : List δ) (i : Nat),
    (zip3 l1 l2 l3)[i]? = (match l1[i]?, l2[i]?, l3[i]? with
      | some x, some y, some z => some (x, y, z)
      | _, _, _ => none)
  | [], l2, l3, i => by simp [zip3]
  | a :: as, [], l3, i => by cases i <;> simp [zip3]
  | a :: as, b :: bs, [], i => by cases i <;> simp [zip3]
  | a :: as, b :: bs, d :: ds, 0 => by simp [zip3]
  | a :: as, b :: bs, d :: ds, i+1 => by simp [zip3, zip3_getElem? as bs ds i]

theorem zip3_length {β γ δ : Type} : ∀ (l1 : List β) (l2 : List γ) (l3 : List δ),
    (zip3 l1 l2 l3).length = min l1.length (min l2.length l3.length)
  | [], l2, l3 => by simp [zip3]
  | a :: as, [], l3 => by simp [zip3]
  | a :: as, b :: bs, [] => by simp [zip3]
  | a :: as, b :: bs, d :: ds => by simp [zip3, zip3_length as bs ds]

/-- the fields of a recorded per-phase record that the mass balance writes and nothing later touches -/
def balFields (yp : PSlice α) : α × List α := (yp.volFrac, yp.fconc)

theorem nucPhase_bal (c : Cfg α) (s : St α) (t T x0 sites : α) (pc : PhaseCfg α) (an : PhaseAns α) (yp : PSlice α) :
    balFields (nucPhase c s t T x0 sites pc an yp) = balFields yp := by
  unfold nucPhase balFields clearNuc
  simp only
  split
  · rfl
  · split <;> rfl

theorem nucleation_bal (c : Cfg α) (s : St α) (t : α) (x : List (List α)) (a : EvalAns α) (y : Slice α)
    (h1 : c.phases.length = y.ph.length) (h2 : a.ph.length = y.ph.length) (h3 : s.ph.length = y.ph.length)
    (h4 : x.length = y.ph.length) :
    (nucleation c s t x a y).ph.map balFields = y.ph.map balFields := by
  unfold nucleation
  simp only
  apply List.ext_getElem?
  intro i
  simp only [List.getElem?_map, List.getElem?_mapIdx, zip3_getElem?, dtPhases]
  by_cases hi : i < y.ph.length
  · have e1 : c.phases[i]? = some c.phases[i] := List.getElem?_eq_getElem (by omega)
    have e2 : a.ph[i]? = some a.ph[i] := List.getElem?_eq_getElem (by omega)
    have e3 : s.ph[i]? = some s.ph[i] := List.getElem?_eq_getElem (by omega)
    have e4 : x[i]? = some x[i] := List.getElem?_eq_getElem (by omega)
    have e5 : y.ph[i]? = some y.ph[i] := List.getElem?_eq_getElem hi
    simp only [e1, e2, e3, e4, e5, Option.map_some, nucPhase_bal]
    congr 1
    unfold getPh
    simp [List.getD_eq_getElem?_getD, e5]
  · have e5 : y.ph[i]? = none := List.getElem?_eq_none (by omega)
    have e1 : c.phases[i]? = none := List.getElem?_eq_none (by omega)
    simp [e1, e5]

theorem growthRate_bal (c : Cfg α) (s : St α) (a : EvalAns α) (y : Slice α)
    (h2 : a.ph.length = y.ph.length) (h3 : s.ph.length = y.ph.length) :
    (growthRate c s a y).2.ph.map balFields = y.ph.map balFields := by
  unfold growthRate
  split
  · unfold growthBinary
    simp only
    apply List.ext_getElem?
    intro i
    simp only [List.getElem?_map, List.getElem?_mapIdx]
    cases y.ph[i]? <;> simp [balFields]
  · unfold growthMulti
    simp only
    apply List.ext_getElem?
    intro i
    simp only [List.getElem?_map, zip3_getElem?]
    by_cases hi : i < y.ph.length
    · have e2 : a.ph[i]? = some a.ph[i] := List.getElem?_eq_getElem (by omega)
      have e3 : s.ph[i]? = some s.ph[i] := List.getElem?_eq_getElem (by omega)
      have e5 : y.ph[i]? = some y.ph[i] := List.getElem?_eq_getElem hi
      simp [e2, e3, e5, balFields]
    · have e5 : y.ph[i]? = none := List.getElem?_eq_none (by omega)
      simp [e5]

theorem massBalance_bal (c : Cfg α) (s : St α) (x : List (List α)) (a : EvalAns α) (y : Slice α)
    (h2 : a.ph.length = (massIns c s x).length) :
    (KWNFull.massBalance c s x a y).ph.map balFields =
      (MB.massBalance c.minDens c.minComp c.x0 y.comp (massIns c s x)).phases.map (fun o => (o.volFrac, o.fconc)) := by
  unfold KWNFull.massBalance
  simp only
  have hl : (MB.massBalance c.minDens c.minComp c.x0 y.comp (massIns c s x)).phases.length = (massIns c s x).length := by
    simp [MB.massBalance]
  apply List.ext_getElem?
  intro i
  simp only [List.getElem?_map, List.getElem?_mapIdx, zip3_getElem?]
  by_cases hi : i < (massIns c s x).length
  · have e1 := List.getElem?_eq_getElem (l := (MB.massBalance c.minDens c.minComp c.x0 y.comp (massIns c s x)).phases) (i := i) (by omega)
    have e2 : (massIns c s x)[i]? = some (massIns c s x)[i] := List.getElem?_eq_getElem hi
    have e3 : a.ph[i]? = some a.ph[i] := List.getElem?_eq_getElem (by omega)
    simp [e1, e2, e3, balFields]
  · have e1 : (MB.massBalance c.minDens c.minComp c.x0 y.comp (massIns c s x)).phases[i]? = none :=
      List.getElem?_eq_none (by omega)
    simp [e1]

theorem massIns_length (c : Cfg α) (s : St α) (x : List (List α)) :
    (massIns c s x).length = min c.phases.length (min s.ph.length x.length) := by
  simp [massIns, zip3_length]

theorem massBalance_ph_length (c : Cfg α) (s : St α) (x : List (List α)) (a : EvalAns α) (y : Slice α) :
    (KWNFull.massBalance c s x a y).ph.length = min (massIns c s x).length (min (massIns c s x).length a.ph.length) := by
  simp [KWNFull.massBalance, zip3_length, MB.massBalance]

/-- total precipitate fraction and precipitate solute content AS RECORDED in a row -/
def rowVolFrac (y : Slice α) : α := (y.ph.map (·.volFrac)).sum
def rowFconc (y : Slice α) (e : Nat) : α := (y.ph.map (fun p => p.fconc.getD e 0)).sum

theorem sums_of_bal (l : List (PSlice α)) (m : List (MB.PhaseOut α)) (e : Nat)
    (h : l.map balFields = m.map (fun o => (o.volFrac, o.fconc))) :
    (l.map (·.volFrac)).sum = MB.sumVolFrac m ∧ (l.map (fun p => p.fconc.getD e 0)).sum = MB.sumFconc m e := by
  have h1 := congrArg (List.map Prod.fst) h
  have h2 := congrArg (List.map (fun q : α × List α => q.2.getD e 0)) h
  simp only [List.map_map] at h1 h2
  have e1 : (Prod.fst ∘ balFields : PSlice α → α) = (·.volFrac) := rfl
  have e2 : (Prod.fst ∘ fun o : MB.PhaseOut α => (o.volFrac, o.fconc)) = (·.volFrac) := rfl
  have e3 : ((fun q : α × List α => q.2.getD e 0) ∘ balFields : PSlice α → α) = (fun p => p.fconc.getD e 0) := rfl
  have e4 : ((fun q : α × List α => q.2.getD e 0) ∘ fun o : MB.PhaseOut α => (o.volFrac, o.fconc)) = (fun p => p.fconc.getD e 0) := rfl
  rw [e1, e2] at h1
  rw [e3, e4] at h2
  exact ⟨by rw [h1]; rfl, by rw [h2]; rfl⟩

/-- the balance fields of an evaluated slice are those of the `MB.massBalance` call inside it, phase by phase -/
theorem depEval_bal (c : Cfg α) (s : St α) (t : α) (x : List (List α)) (a : EvalAns α) (y : Slice α)
    (hs : s.ph.length = c.phases.length) (hx : x.length = c.phases.length) (ha : a.ph.length = c.phases.length) :
    (depEval c s t x a y).2.ph.map balFields =
      (MB.massBalance c.minDens c.minComp c.x0 y.comp (massIns c s x)).phases.map (fun o => (o.volFrac, o.fconc)) := by
  have hins : (massIns c s x).length = c.phases.length := by rw [massIns_length]; omega
  unfold depEval
  simp only
  have hy1 : (KWNFull.massBalance c s x a { y with time := t, temp := a.T }).ph.length = c.phases.length := by
    rw [massBalance_ph_length, hins]; omega
  have hy2 : (nucleation c s t x a (KWNFull.massBalance c s x a { y with time := t, temp := a.T })).ph.length = c.phases.length := by
    simp [nucleation, zip3_length, dtPhases]; omega
  rw [growthRate_bal c s a _ (by omega) (by omega)]
  rw [nucleation_bal c s t x a _ (by omega) (by omega) (by omega) (by omega)]
  exact massBalance_bal c s x a _ (by omega)

/-- **C01 on the row itself, for any evaluation**: whenever the recorded total fraction is below 1 and element e is not
clamped, initial content = recorded matrix composition × (1 − recorded total fraction) + recorded precipitate content -/
theorem depEval_conserves_row (c : Cfg α) (s : St α) (t : α) (x : List (List α)) (a : EvalAns α) (y : Slice α)
    (hs : s.ph.length = c.phases.length) (hx : x.length = c.phases.length) (ha : a.ph.length = c.phases.length)
    (e : Nat) (he : e < c.x0.length)
    (hsat : rowVolFrac (depEval c s t x a y).2 < 1)
    (hpos : ¬ (c.x0.getD e 0 - rowFconc (depEval c s t x a y).2 e) / (1 - rowVolFrac (depEval c s t x a y).2) < 0) :
    c.x0.getD e 0 = (depEval c s t x a y).2.comp.getD e 0 * (1 - rowVolFrac (depEval c s t x a y).2)
        + rowFconc (depEval c s t x a y).2 e := by
  have hb := depEval_bal c s t x a y hs hx ha
  obtain ⟨hv, hf⟩ := sums_of_bal _ _ e hb
  have hcomp : (depEval c s t x a y).2.comp =
      (MB.massBalance c.minDens c.minComp c.x0 y.comp (massIns c s x)).comp := by
    unfold depEval
    simp only
    rw [(growthRate_time _ _ _ _).2.2]
    rfl
  unfold rowVolFrac rowFconc at *
  rw [hv] at hsat hpos ⊢
  rw [hf] at hpos ⊢
  rw [hcomp]
  exact C01.massBalance_conserves c.minDens c.minComp c.x0 y.comp _ e he hsat hpos

/-- **C01 for the row recorded by an accepted Euler step of the composed model, every backend**: stated on the recorded
fields (composition, per-phase volume fractions and precipitate contents of the new row) -/
theorem eulerStep_conserves_row (c : Cfg α) (s : St α) (tf dtminS dtmaxS : α) (aPost : EvalAns α) (upd : List (UpdAns α))
    (o : StepOut α) (h : eulerStep c s tf dtminS dtmaxS aPost upd = some o)
    (hs : s.ph.length = c.phases.length) (hcur : (s.cur c.nElem).ph.length = c.phases.length)
    (ha : aPost.ph.length = c.phases.length) (e : Nat) (he : e < c.x0.length)
    (hsat : rowVolFrac (o.st.cur c.nElem) < 1)
    (hpos : ¬ (c.x0.getD e 0 - rowFconc (o.st.cur c.nElem) e) / (1 - rowVolFrac (o.st.cur c.nElem)) < 0) :
    c.x0.getD e 0 = (o.st.cur c.nElem).comp.getD e 0 * (1 - rowVolFrac (o.st.cur c.nElem)) + rowFconc (o.st.cur c.nElem) e := by
  have hc : o.st.cur c.nElem = (evaluated c s tf dtminS dtmaxS aPost).2 := by
    unfold eulerStep at h
    simp only at h
    split at h
    · simp at h
    · next sD hD =>
      simp only [Option.some.injEq] at h
      subst h
      have hh := finishStep_hist _ _ _ _ _ _ hD
      simp only [St.cur, hh, List.headD_cons]
  rw [hc] at hsat hpos ⊢
  unfold evaluated at hsat hpos ⊢
  simp only at hsat hpos ⊢
  refine depEval_conserves_row c s _ _ aPost _ hs ?_ ha e he hsat hpos
  -- the processed new state has one distribution per phase
  simp [processAll, advanced, stageX, entryX, zip3_length, hs, hcur]


/-! ### the step never raises: totality of the composed Euler step and of whole Euler runs (C03's fault clause) -/

open KawinV.Grid in
theorem meshTarget_total (s : Grid.State α) (cd : Bool) (h : C08.Inv s) (hm : s.minBins / 2 < s.bins) :
    ∃ r, Grid.meshTarget s cd = some r := by
  obtain ⟨hn, hpl, hbl, hsl, hhead, hlast, -⟩ := C08.inv_spec s h
  unfold Grid.meshTarget
  split
  · rw [hhead, hlast]
    simp only
    split
    · exact ⟨_, rfl⟩
    · split
      · split
        · have hg : ¬ (s.psd.length ≠ s.size.length ∨ s.psd.length + 1 ≠ s.bounds.length) := by
            rw [hpl, hbl, hsl]; omega
          rw [if_neg hg]
          have : s.size[s.minBins / 2]? = some (s.size[s.minBins / 2]'(by rw [hsl]; exact hm)) :=
            List.getElem?_eq_getElem _
          rw [this]
          simp only
          split <;> exact ⟨_, rfl⟩
        · exact ⟨_, rfl⟩
      · exact ⟨_, rfl⟩
  · exact ⟨_, rfl⟩

open KawinV.Grid in
theorem adjust_total (s : Grid.State α) (cd : Bool) (h : C08.Inv s) (hm : s.minBins / 2 < s.bins) :
    ∃ r, Grid.adjust s cd = some r := by
  obtain ⟨hn, hpl, -⟩ := C08.inv_spec s h
  -- adjustAdd never raises on a consistent grid
  have hadd : ∃ r, Grid.adjustAdd s = some r := by
    unfold Grid.adjustAdd
    have hne : s.psd ≠ [] := by intro h0; rw [h0] at hpl; simp at hpl; omega
    obtain ⟨l, hl⟩ : ∃ l, s.psd.getLast? = some l := by
      cases hg : s.psd.getLast? with
      | none => rw [List.getLast?_eq_none_iff] at hg; exact absurd hg hne
      | some l => exact ⟨l, rfl⟩
    rw [hl]
    simp only
    split
    · rw [C08.add_eq s _ h]; exact ⟨_, rfl⟩
    · exact ⟨_, rfl⟩
  obtain ⟨⟨s1, chg, ni⟩, h1⟩ := hadd
  have hi1 := C08.adjustAdd_inv s s1 chg ni h h1
  have hb1 : s1.minBins / 2 < s1.bins := by
    unfold Grid.adjustAdd at h1
    split at h1
    · simp at h1
    · split at h1
      · rw [C08.add_eq s _ h] at h1
        simp only [Option.map_some, Option.some.injEq, Prod.mk.injEq] at h1
        rw [← h1.1]; simp only; omega
      · simp only [Option.some.injEq, Prod.mk.injEq] at h1
        rw [← h1.1]; exact hm
  obtain ⟨r, hr⟩ := meshTarget_total s1 cd hi1 hb1
  unfold Grid.adjust
  rw [h1]
  simp only
  rw [hr]
  cases r with
  | none => exact ⟨_, rfl⟩
  | some t =>
    obtain ⟨a, b, n⟩ := t
    simp only
    rw [C08.change_false_eq s1 a b (some n) hi1]
    exact ⟨_, rfl⟩

/-! shapes -/

theorem setPh_length (l : List (PhaseSt α)) (p : Nat) (v : PhaseSt α) : (setPh l p v).length = l.length := by
  simp [setPh]

theorem createLookup_length (T : α) (tab : List (TablePh α)) (s : St α) :
    (createLookup T tab s).ph.length = min s.ph.length tab.length := by
  simp [createLookup]

/-- the answers of one evaluation have one entry per phase (and one table per phase, should the lookup be rebuilt) -/
def AnsShaped (c : Cfg α) (n : Nat) (a : EvalAns α) : Prop :=
  a.ph.length = n ∧ (c.binary = true → a.table.length = n)

theorem growthRate_length (c : Cfg α) (s : St α) (a : EvalAns α) (y : Slice α)
    (hc : c.phases.length = s.ph.length) (ha : AnsShaped c s.ph.length a) (hy : y.ph.length = s.ph.length) :
    (growthRate c s a y).1.ph.length = s.ph.length := by
  unfold growthRate
  split
  · next hb =>
    unfold growthBinary
    simp only [List.length_map, zip3_length]
    split
    · rw [createLookup_length, ha.1, ha.2 hb, hc]; simp
    · rw [ha.1, hc]; simp
  · unfold growthMulti
    simp only [List.length_map, zip3_length]
    rw [ha.1, hy]; simp

theorem createLookup_grid (T : α) (tab : List (TablePh α)) (s : St α) (q : Nat) (ps' : PhaseSt α)
    (h : (createLookup T tab s).ph[q]? = some ps') : ∃ ps, s.ph[q]? = some ps ∧ ps'.grid = ps.grid := by
  simp only [createLookup, List.getElem?_zipWith] at h
  cases h2 : s.ph[q]? <;> cases h3 : tab[q]? <;> simp [h2, h3] at h
  exact ⟨_, rfl, by rw [← h]⟩

theorem growthRate_grid (c : Cfg α) (s : St α) (a : EvalAns α) (y : Slice α) (q : Nat) (ps' : PhaseSt α)
    (h : (growthRate c s a y).1.ph[q]? = some ps') : ∃ ps, s.ph[q]? = some ps ∧ ps'.grid = ps.grid := by
  unfold growthRate at h
  split at h
  · unfold growthBinary at h
    simp only at h
    generalize hs1 : (if c.maxTempChange < absS (y.temp - s.lookT) then createLookup y.temp a.table s else s) = s1 at h
    have hs1g : ∀ ps1, s1.ph[q]? = some ps1 → ∃ ps, s.ph[q]? = some ps ∧ ps1.grid = ps.grid := by
      intro ps1 h1
      rw [← hs1] at h1
      split at h1
      · exact createLookup_grid _ _ _ _ _ h1
      · exact ⟨ps1, h1, rfl⟩
    simp only [List.getElem?_map, zip3_getElem?] at h
    cases h1 : c.phases[q]? <;> cases h2 : s1.ph[q]? <;> cases h4 : a.ph[q]? <;> simp [h1, h2, h4] at h
    obtain ⟨ps, hps, hg⟩ := hs1g _ h2
    exact ⟨ps, hps, by rw [← h]; exact hg⟩
  · unfold growthMulti at h
    simp only [List.getElem?_map, zip3_getElem?] at h
    cases h2 : s.ph[q]? <;> cases h4 : a.ph[q]? <;> cases h5 : y.ph[q]? <;> simp [h2, h4, h5] at h
    refine ⟨_, rfl, ?_⟩
    rw [← h]
    unfold growthMultiPh
    simp only
    split
    · rfl
    · split
      · split <;> rfl
      · rfl

/-- every phase of `l'` sits where a phase of `l` sat and carries its grid — except position `p`, which carries `g` -/
def GridsAt (l l' : List (PhaseSt α)) (p : Nat) (g : Grid.State α) : Prop :=
  ∀ q ps', l'[q]? = some ps' → (q = p ∧ ps'.grid = g) ∨ (q ≠ p ∧ ∃ psq, l[q]? = some psq ∧ ps'.grid = psq.grid)

theorem gridsAt_set (l l1 : List (PhaseSt α)) (p : Nat) (g : Grid.State α) (v : PhaseSt α) (hv : v.grid = g)
    (h : GridsAt l l1 p g) : GridsAt l (setPh l1 p v) p g := by
  intro q ps' hq
  unfold setPh at hq
  by_cases hqp : q = p
  · subst hqp
    left
    rw [List.getElem?_set] at hq
    simp only [if_true] at hq
    split at hq
    · simp only [Option.some.injEq] at hq; subst hq; exact ⟨rfl, hv⟩
    · simp at hq
  · rw [List.getElem?_set] at hq
    simp only [show ¬ (p = q) from fun e => hqp e.symm, if_false] at hq
    exact h q ps' hq

theorem gridsAt_self_set (l : List (PhaseSt α)) (p : Nat) (g : Grid.State α) (v : PhaseSt α) (hv : v.grid = g) :
    GridsAt l (setPh l p v) p g := by
  intro q ps' hq
  unfold setPh at hq
  rw [List.getElem?_set] at hq
  by_cases hqp : q = p
  · subst hqp
    simp only [if_true] at hq
    split at hq
    · simp only [Option.some.injEq] at hq; subst hq; exact Or.inl ⟨rfl, hv⟩
    · simp at hq
  · simp only [show ¬ (p = q) from fun e => hqp e.symm, if_false] at hq
    exact Or.inr ⟨hqp, ps', hq, rfl⟩

theorem gridsAt_growthRate (c : Cfg α) (s0 : List (PhaseSt α)) (s : St α) (a : EvalAns α) (y : Slice α) (p : Nat)
    (g : Grid.State α) (h : GridsAt s0 s.ph p g) : GridsAt s0 (growthRate c s a y).1.ph p g := by
  intro q ps' hq
  obtain ⟨ps, hps, hg⟩ := growthRate_grid c s a y q ps' hq
  rcases h q ps hps with ⟨rfl, h1⟩ | ⟨hne, psq, h1, h2⟩
  · exact Or.inl ⟨rfl, by rw [hg, h1]⟩
  · exact Or.inr ⟨hne, psq, h1, by rw [hg, h2]⟩

theorem gridsAt_createLookup (T : α) (tab : List (TablePh α)) (s0 : List (PhaseSt α)) (s : St α) (p : Nat)
    (g : Grid.State α) (h : GridsAt s0 s.ph p g) : GridsAt s0 (createLookup T tab s).ph p g := by
  intro q ps' hq
  obtain ⟨ps, hps, hg⟩ := createLookup_grid T tab s q ps' hq
  rcases h q ps hps with ⟨rfl, h1⟩ | ⟨hne, psq, h1, h2⟩
  · exact Or.inl ⟨rfl, by rw [hg, h1]⟩
  · exact Or.inr ⟨hne, psq, h1, by rw [hg, h2]⟩

theorem afterAdjust_grids (c : Cfg α) (s : St α) (p : Nat) (ps : PhaseSt α) (g2 : Grid.State α) (change : Bool)
    (added : Option Nat) (u : UpdAns α) : GridsAt s.ph (afterAdjust c s p ps g2 change added u).ph p g2 := by
  unfold afterAdjust
  simp only
  split
  · apply gridsAt_growthRate
    split
    · split
      · apply gridsAt_createLookup
        exact gridsAt_set _ _ _ _ _ rfl (gridsAt_self_set _ _ _ _ rfl)
      · exact gridsAt_set _ _ _ _ _ rfl (gridsAt_set _ _ _ _ _ rfl (gridsAt_self_set _ _ _ _ rfl))
    · exact gridsAt_set _ _ _ _ _ rfl (gridsAt_set _ _ _ _ _ rfl (gridsAt_self_set _ _ _ _ rfl))
  · exact gridsAt_self_set _ _ _ _ rfl

def UpdShaped (c : Cfg α) (n : Nat) (u : UpdAns α) : Prop :=
  (c.binary = true → u.table.length = n) ∧ AnsShaped c n u.regrow

theorem afterAdjust_length (c : Cfg α) (s : St α) (p : Nat) (ps : PhaseSt α) (g2 : Grid.State α) (change : Bool)
    (added : Option Nat) (u : UpdAns α) (hc : c.phases.length = s.ph.length)
    (hcur : (s.cur c.nElem).ph.length = s.ph.length) (hu : UpdShaped c s.ph.length u) :
    (afterAdjust c s p ps g2 change added u).ph.length = s.ph.length := by
  unfold afterAdjust
  simp only
  split
  · -- the state handed to the growth-rate call has one entry per phase
    have key : ∀ s4 : St α, s4.ph.length = s.ph.length →
        (growthRate c s4 u.regrow (s.cur c.nElem)).1.ph.length = s.ph.length := by
      intro s4 h4
      rw [← h4]
      exact growthRate_length c s4 u.regrow _ (by rw [h4]; exact hc) (by rw [h4]; exact hu.2) (by rw [h4]; exact hcur)
    apply key
    split
    · next hb =>
      split
      · rw [createLookup_length]; simp only [setPh_length]; rw [hu.1 hb]; simp
      · simp only [setPh_length]
    · simp only [setPh_length]
  · simp only [setPh_length]

/-- **the per-phase body of the size-distribution update never raises** on a consistent grid, for every backend answer of
the right shape: a state vector with one entry per class, class-count limits with `minBins/2 < bins` -/
theorem updatePh_total (c : Cfg α) (s : St α) (t : α) (p : Nat) (xp : List α) (u : UpdAns α) (ps : PhaseSt α)
    (hp : s.ph[p]? = some ps) (hg : GridGood ps.grid) (hx : xp.length = ps.grid.bins)
    (hm : ps.grid.minBins / 2 < ps.grid.bins) (hc : c.phases.length = s.ph.length)
    (hcur : (s.cur c.nElem).ph.length = s.ph.length) (hu : UpdShaped c s.ph.length u) :
    ∃ s', updatePh c s t p xp u = some s' := by
  unfold updatePh
  simp only [hp]
  split
  · exact ⟨_, rfl⟩
  · rw [if_neg (by simpa using hx)]
    -- UpdatePBMEuler: recording is off, the record step is the identity
    have hup : ∃ g1, Grid.update ps.grid t xp = some g1 := by
      unfold Grid.update Grid.record
      simp [hg.2.2.2]
    obtain ⟨g1, hg1⟩ := hup
    rw [hg1]
    simp only
    have hgood1 := update_good ps.grid g1 t xp hg hx hg1
    have hb1 : g1.minBins / 2 < g1.bins := by
      unfold Grid.update Grid.record at hg1
      simp only [hg.2.2.2, Bool.false_eq_true, if_false, Option.some.injEq] at hg1
      rw [← hg1]; exact hm
    obtain ⟨⟨g2, chg, added⟩, hadj⟩ := adjust_total g1 (ps.growth.all (fun v => decide (v < 0))) hgood1.1 hb1
    rw [hadj]
    simp only
    have hlen := afterAdjust_length c s p ps g2 chg added u hc hcur hu
    have hpl : p < s.ph.length := (List.getElem?_eq_some_iff.mp hp).1
    have : ∃ psF, (afterAdjust c s p ps g2 chg added u).ph[p]? = some psF :=
      ⟨_, List.getElem?_eq_getElem (by rw [hlen]; exact hpl)⟩
    obtain ⟨psF, hF⟩ := this
    rw [hF]
    exact ⟨_, rfl⟩

theorem gridsAt_set_new (l l1 : List (PhaseSt α)) (p : Nat) (g : Grid.State α) (v : PhaseSt α)
    (h : GridsAt l l1 p g) : GridsAt l (setPh l1 p v) p v.grid := by
  intro q ps' hq
  unfold setPh at hq
  rw [List.getElem?_set] at hq
  by_cases hqp : q = p
  · subst hqp
    simp only [if_true] at hq
    split at hq
    · simp only [Option.some.injEq] at hq; subst hq; exact Or.inl ⟨rfl, rfl⟩
    · simp at hq
  · simp only [show ¬ (p = q) from fun e => hqp e.symm, if_false] at hq
    rcases h q ps' hq with ⟨e, _⟩ | h2
    · exact absurd e hqp
    · exact Or.inr h2

theorem updatePh_shape (c : Cfg α) (s s' : St α) (t : α) (p : Nat) (xp : List α) (u : UpdAns α)
    (hc : c.phases.length = s.ph.length) (hcur : (s.cur c.nElem).ph.length = s.ph.length) (hu : UpdShaped c s.ph.length u)
    (h : updatePh c s t p xp u = some s') :
    s'.ph.length = s.ph.length ∧ ∃ g, GridsAt s.ph s'.ph p g := by
  unfold updatePh at h
  simp only at h
  split at h
  · simp at h
  · next ps hps =>
    split at h
    · simp only [Option.some.injEq] at h; subst h
      exact ⟨by simp only [setPh_length], _, gridsAt_self_set _ _ _ _ rfl⟩
    · split at h
      · simp at h
      · split at h
        · simp at h
        · split at h
          · simp at h
          · next g2 chg added hadj =>
            split at h
            · simp at h
            · next psF hF =>
              simp only [Option.some.injEq] at h; subst h
              refine ⟨by simp only [setPh_length]; exact afterAdjust_length c s p ps g2 chg added u hc hcur hu, (finishPh c psF).grid, ?_⟩
              exact gridsAt_set_new _ _ _ _ _ (afterAdjust_grids c s p ps g2 chg added u)

/-- phase and state vector fit: consistent grid, one entry per class, class-count limits that the re-mesh test can index -/
def Ready (ps : PhaseSt α) (x : List α) : Prop :=
  GridGood ps.grid ∧ x.length = ps.grid.bins ∧ ps.grid.minBins / 2 < ps.grid.bins

theorem updateAll_total (c : Cfg α) (t : α) : ∀ (xs : List (List α)) (s : St α) (p : Nat) (us : List (UpdAns α)),
    p + xs.length = s.ph.length → c.phases.length = s.ph.length → (s.cur c.nElem).ph.length = s.ph.length →
    us.length = xs.length → (∀ u ∈ us, UpdShaped c s.ph.length u) →
    (∀ i x, xs[i]? = some x → ∃ ps, s.ph[p + i]? = some ps ∧ Ready ps x) →
    ∃ s', updateAll c t s p xs us = some s'
  | [], s, p, us, _, _, _, _, _, _ => ⟨s, by simp [updateAll]⟩
  | xp :: xs, s, p, us, hlen, hc, hcur, hus, hsh, hr => by
    obtain ⟨ps, hps, hg, hx, hm⟩ := hr 0 xp (by simp)
    simp only [Nat.add_zero] at hps
    cases us with
    | nil => simp at hus
    | cons u us' =>
      have hu : UpdShaped c s.ph.length u := hsh u (by simp)
      obtain ⟨s1, h1⟩ := updatePh_total c s t p xp u ps hps hg hx hm hc hcur hu
      obtain ⟨hl1, g, hga⟩ := updatePh_shape c s s1 t p xp u hc hcur hu h1
      have hh := updatePh_hist c s s1 t p xp u h1
      have hcur1 : (s1.cur c.nElem).ph.length = s1.ph.length := by
        have : s1.cur c.nElem = s.cur c.nElem := by simp [St.cur, hh]
        rw [this, hl1]; exact hcur
      simp only [updateAll, List.headD_cons, List.tail_cons, h1]
      apply updateAll_total c t xs s1 (p + 1) us'
      · simp only [List.length_cons] at hlen; omega
      · rw [hl1]; exact hc
      · exact hcur1
      · simpa using hus
      · intro u' hu'; rw [hl1]; exact hsh u' (by simp [hu'])
      · intro i x hx'
        obtain ⟨psq, hq, hready⟩ := hr (i + 1) x (by simpa using hx')
        have hlt : p + 1 + i < s1.ph.length := by
          rw [hl1]; have := (List.getElem?_eq_some_iff.mp hq).1; omega
        refine ⟨s1.ph[p + 1 + i], List.getElem?_eq_getElem hlt, ?_⟩
        rcases hga (p + 1 + i) _ (List.getElem?_eq_getElem hlt) with ⟨e, _⟩ | ⟨_, psq', hq', hgrid⟩
        · omega
        · have : psq' = psq := by
            have e : p + (i + 1) = p + 1 + i := by omega
            rw [e] at hq; rw [hq] at hq'; exact (Option.some.inj hq').symm
          subst this
          unfold Ready at hready ⊢
          rw [hgrid]; exact hready

theorem processX_len (k : Nat) (mr : α) (x R : List α) : (PSD.processX k mr x R).length = min x.length R.length := by
  unfold PSD.processX; simp

theorem advanceStage_length (ps : PhaseSt α) (xF xL xB : List α) (yp : PSlice α) (dt : α) :
    (advanceStage ps xF xL xB yp dt).length = xB.length := by
  simp [advanceStage]

/-- a state whose phases are all ready for the size-distribution update: consistent grids and usable class-count limits -/
def StGood (c : Cfg α) (s : St α) : Prop :=
  c.phases.length = s.ph.length ∧ (s.cur c.nElem).ph.length = s.ph.length ∧
  ∀ ps ∈ s.ph, GridGood ps.grid ∧ ps.grid.minBins / 2 < ps.grid.bins

theorem depEval_length (c : Cfg α) (s : St α) (t : α) (x : List (List α)) (a : EvalAns α) (y : Slice α)
    (hc : c.phases.length = s.ph.length) (ha : AnsShaped c s.ph.length a) (hx : x.length = s.ph.length) :
    (depEval c s t x a y).1.ph.length = s.ph.length ∧ (depEval c s t x a y).2.ph.length = s.ph.length := by
  have hy2 : (nucleation c s t x a (KWNFull.massBalance c s x a { y with time := t, temp := a.T })).ph.length = s.ph.length := by
    simp [nucleation, zip3_length, dtPhases, hc, ha.1, hx]
  unfold depEval
  simp only
  refine ⟨growthRate_length c s a _ hc ha hy2, ?_⟩
  unfold growthRate
  split
  · unfold growthBinary; simp only [List.length_mapIdx]; exact hy2
  · unfold growthMulti; simp only [List.length_map, zip3_length]; rw [ha.1, hy2]; simp

/-- **an accepted Euler step never raises**: from a state with consistent grids, for every configuration, every proposed step
and every backend answer of the right shape (one record per phase; `none` results of the growth request included), the
composed step returns a new state -/
theorem eulerStep_total (c : Cfg α) (s : St α) (tf dtminS dtmaxS : α) (aPost : EvalAns α) (upd : List (UpdAns α))
    (hs : StGood c s) (ha : AnsShaped c s.ph.length aPost) (hul : upd.length = s.ph.length)
    (hu : ∀ u ∈ upd, UpdShaped c s.ph.length u) :
    ∃ o, eulerStep c s tf dtminS dtmaxS aPost upd = some o := by
  obtain ⟨hc, hcur, hgood⟩ := hs
  set dt := acceptedDt c s tf dtminS dtmaxS with hdt
  -- the processed new state: one distribution per phase, each with one entry per class
  have hentry : ∀ (i : Nat) (ps : PhaseSt α), s.ph[i]? = some ps → ∃ x0 : List α, (entryX c s)[i]? = some x0 ∧ x0.length = ps.grid.bins := by
    intro i ps hi
    have hinv := C08.inv_spec ps.grid (hgood ps (List.mem_of_getElem? hi)).1.1
    refine ⟨PSD.processX ps.rdfIdx c.minRadius ps.grid.psd ps.grid.size, ?_, ?_⟩
    · simp [entryX, processAll, List.getElem?_zipWith, List.getElem?_map, hi]
    · rw [processX_len, hinv.2.1, hinv.2.2.2.1]; simp
  have hadv : ∀ (i : Nat) (ps : PhaseSt α), s.ph[i]? = some ps → ∃ xn : List α, (advanced c s dt)[i]? = some xn ∧ xn.length = ps.grid.bins := by
    intro i ps hi
    obtain ⟨x0, hx0, hl0⟩ := hentry i ps hi
    have hil : i < s.ph.length := (List.getElem?_eq_some_iff.mp hi).1
    have hcu : (s.cur c.nElem).ph[i]? = some ((s.cur c.nElem).ph[i]'(by rw [hcur]; exact hil)) := List.getElem?_eq_getElem _
    refine ⟨advanceStage ps x0 ps.grid.psd x0 ((s.cur c.nElem).ph[i]'(by rw [hcur]; exact hil)) dt, ?_, ?_⟩
    · simp only [advanced, stageX, List.getElem?_map, zip3_getElem?, hi, hx0, hcu, Option.map_some]
    · rw [advanceStage_length]; exact hl0
  have hxP : ∀ (i : Nat) (ps : PhaseSt α), s.ph[i]? = some ps →
      ∃ x : List α, (processAll c s (advanced c s dt))[i]? = some x ∧ x.length = ps.grid.bins := by
    intro i ps hi
    obtain ⟨xn, hxn, hln⟩ := hadv i ps hi
    have hinv := C08.inv_spec ps.grid (hgood ps (List.mem_of_getElem? hi)).1.1
    refine ⟨PSD.processX ps.rdfIdx c.minRadius xn ps.grid.size, ?_, ?_⟩
    · simp [processAll, List.getElem?_zipWith, hi, hxn]
    · rw [processX_len, hln, hinv.2.2.2.1]; simp
  have hxPlen : (processAll c s (advanced c s dt)).length = s.ph.length := by
    simp [processAll, advanced, stageX, entryX, zip3_length, hcur]
  have hev := depEval_length c s ((s.cur c.nElem).time + dt) (processAll c s (advanced c s dt)) aPost (s.cur c.nElem) hc ha hxPlen
  unfold eulerStep
  simp only
  rw [← hdt]
  have htot : ∃ sD, finishStep c (evaluated c s tf dtminS dtmaxS aPost) ((s.cur c.nElem).time + dt)
      (processAll c s (advanced c s dt)) upd = some sD := by
    unfold finishStep evaluated
    simp only
    rw [← hdt]
    apply updateAll_total
    · simp only [Nat.zero_add]; rw [hxPlen, hev.1]
    · rw [hev.1]; exact hc
    · have e1 := hev.1; have e2 := hev.2
      simp only [St.cur, List.headD_cons] at e1 e2 ⊢; rw [e2, e1]
    · rw [hul, hxPlen]
    · intro u hu'; rw [hev.1]; exact hu u hu'
    · intro i x hx
      simp only [Nat.zero_add]
      have hil : i < s.ph.length := by rw [← hxPlen]; exact (List.getElem?_eq_some_iff.mp hx).1
      have hsi : s.ph[i]? = some s.ph[i] := List.getElem?_eq_getElem hil
      obtain ⟨x', hx', hlx⟩ := hxP i _ hsi
      have : x' = x := by rw [hx] at hx'; exact (Option.some.inj hx').symm
      subst this
      have hei : i < (depEval c s ((s.cur c.nElem).time + dt) (processAll c s (advanced c s dt)) aPost (s.cur c.nElem)).1.ph.length := by
        rw [hev.1]; exact hil
      refine ⟨_, List.getElem?_eq_getElem hei, ?_⟩
      obtain ⟨ps0, h0, hg0⟩ := growthRate_grid c s aPost _ i _ (by
        have := List.getElem?_eq_getElem hei
        unfold depEval at this
        exact this)
      have : ps0 = s.ph[i] := by rw [hsi] at h0; exact (Option.some.inj h0).symm
      subst this
      unfold Ready
      have hg0' : ((depEval c s ((s.cur c.nElem).time + dt) (processAll c s (advanced c s dt)) aPost (s.cur c.nElem)).1.ph[i]'hei).grid
          = s.ph[i].grid := hg0
      rw [hg0']
      exact ⟨(hgood _ (List.getElem_mem hil)).1, hlx, (hgood _ (List.getElem_mem hil)).2⟩
  obtain ⟨sD, hD⟩ := htot
  rw [hD]
  exact ⟨_, rfl⟩

/-! ### the class-count limits stay usable: the whole run never raises -/

/-- a consistent grid whose class-count limits keep the re-mesh test indexable whatever the automatic adjustment does next:
`minBins/2` is below the current class count and below every class count an adjustment can produce -/
def GridReady (g : Grid.State α) : Prop :=
  GridGood g ∧ g.minBins / 2 < g.bins ∧ g.minBins / 2 < g.maxBins ∧ g.minBins / 2 < g.origBins

open KawinV.Grid in
theorem add_fields (g g' : Grid.State α) (k : Nat) (h : Grid.add g k = some g') :
    g'.bins = g.bins + k ∧ g'.origBins = g.origBins := by
  unfold Grid.add at h
  split at h
  · simp only [Option.some.injEq] at h; subst h; exact ⟨rfl, rfl⟩
  · simp at h

open KawinV.Grid in
theorem change_fields (g g' : Grid.State α) (a b : α) (n : Nat) (h : Grid.change g a b (some n) false = some g') :
    g'.bins = n ∧ g'.origBins = g.origBins := by
  unfold Grid.change at h
  simp only [Bool.false_eq_true, if_false] at h
  split at h
  · simp at h
  · split at h <;>
    (simp only [Option.some.injEq] at h; subst h; simp [Grid.reset, Grid.retarget])

open KawinV.Grid in
theorem adjust_ready (g g' : Grid.State α) (cd chg : Bool) (ni : Option Nat) (h : GridReady g)
    (ha : Grid.adjust g cd = some (g', chg, ni)) : GridReady g' := by
  obtain ⟨hgood, hb, hmx, ho⟩ := h
  have hgood' := adjust_good g g' cd chg ni hgood ha
  refine ⟨hgood', ?_⟩
  have hcfg : g'.minBins = g.minBins ∧ g'.maxBins = g.maxBins := by
    -- from adjust_good's proof: configuration fields are kept
    unfold Grid.adjust at ha
    split at ha
    · simp at ha
    · next s1 c1 n1 hadd =>
      have hc1 : s1.minBins = g.minBins ∧ s1.maxBins = g.maxBins := by
        unfold Grid.adjustAdd at hadd
        split at hadd
        · simp at hadd
        · split at hadd
          · rw [Option.map_eq_some_iff] at hadd
            obtain ⟨t, hadd', heq⟩ := hadd
            have : t = s1 := by simpa using congrArg Prod.fst heq
            subst this
            exact ⟨(add_cfg _ _ _ hadd').1, (add_cfg _ _ _ hadd').2.1⟩
          · simp only [Option.some.injEq, Prod.mk.injEq] at hadd
            rw [← hadd.1]; exact ⟨rfl, rfl⟩
      split at ha
      · simp at ha
      · simp only [Option.some.injEq, Prod.mk.injEq] at ha
        rw [← ha.1]; exact hc1
      · rw [Option.map_eq_some_iff] at ha
        obtain ⟨t, hch, heq⟩ := ha
        have : t = g' := by simpa using congrArg Prod.fst heq
        subst this
        have hc2 := change_cfg _ _ _ _ _ _ hch
        exact ⟨by rw [hc2.1, hc1.1], by rw [hc2.2.1, hc1.2]⟩
  -- class count and original class count after the adjustment
  have hbins : (g.bins ≤ g'.bins ∨ g'.bins = g.minBins ∨ g'.bins = g.maxBins) ∧ g'.origBins = g.origBins := by
    unfold Grid.adjust at ha
    split at ha
    · simp at ha
    · next s1 c1 n1 hadd =>
      have h1 : g.bins ≤ s1.bins ∧ s1.origBins = g.origBins ∧ s1.minBins = g.minBins ∧ s1.maxBins = g.maxBins := by
        unfold Grid.adjustAdd at hadd
        split at hadd
        · simp at hadd
        · split at hadd
          · rw [Option.map_eq_some_iff] at hadd
            obtain ⟨t, hadd', heq⟩ := hadd
            have : t = s1 := by simpa using congrArg Prod.fst heq
            subst this
            have hf := add_fields _ _ _ hadd'
            have hc := add_cfg _ _ _ hadd'
            exact ⟨by rw [hf.1]; omega, hf.2, hc.1, hc.2.1⟩
          · simp only [Option.some.injEq, Prod.mk.injEq] at hadd
            rw [← hadd.1]; exact ⟨le_refl _, rfl, rfl, rfl⟩
      have hi1 := C08.adjustAdd_inv g s1 c1 n1 hgood.1 hadd
      split at ha
      · simp at ha
      · simp only [Option.some.injEq, Prod.mk.injEq] at ha
        rw [← ha.1]; exact ⟨Or.inl h1.1, h1.2.1⟩
      · next a b n hmt =>
        rw [Option.map_eq_some_iff] at ha
        obtain ⟨t, hch, heq⟩ := ha
        have : t = g' := by simpa using congrArg Prod.fst heq
        subst this
        have hf := change_fields _ _ _ _ _ hch
        have hsp := C08.meshTarget_spec s1 cd a b n hi1 hmt
        refine ⟨?_, by rw [hf.2, h1.2.1]⟩
        rcases hsp.2.2 with e | e
        · right; left; rw [hf.1, e, h1.2.2.1]
        · right; right; rw [hf.1, e, h1.2.2.2]
  rw [hcfg.1, hcfg.2, hbins.2]
  refine ⟨?_, hmx, ho⟩
  rcases hbins.1 with h1 | h1 | h1
  · omega
  · rw [h1]; have := hgood.2.1; omega
  · rw [h1]; exact hmx

/-- any property of grids that the grid operations of a step preserve is preserved by the whole step -/
structure StepClosed (c : Cfg α) (Q : Grid.State α → Prop) : Prop where
  reset : ∀ g, Q g → Q (Grid.reset g true)
  update : ∀ g g1 t N, Q g → N.length = g.bins → Grid.update g t N = some g1 → Q g1
  adjust : ∀ g g' cd chg ni, Q g → Grid.adjust g cd = some (g', chg, ni) → Q g'
  finish : ∀ ps : PhaseSt α, Q ps.grid → Q (finishPh c ps).grid

def AllQ (Q : Grid.State α → Prop) (l : List (PhaseSt α)) : Prop := ∀ ps ∈ l, Q ps.grid

theorem allQ_set (Q : Grid.State α → Prop) (l : List (PhaseSt α)) (p : Nat) (v : PhaseSt α) (h : AllQ Q l) (hv : Q v.grid) :
    AllQ Q (setPh l p v) := by
  intro ps hps
  unfold setPh at hps
  rcases List.mem_or_eq_of_mem_set hps with h1 | h1
  · exact h ps h1
  · rw [h1]; exact hv

theorem createLookup_allQ (Q : Grid.State α → Prop) (T : α) (tab : List (TablePh α)) (s : St α) (h : AllQ Q s.ph) :
    AllQ Q (createLookup T tab s).ph := by
  intro ps hps
  rw [List.mem_iff_getElem?] at hps
  obtain ⟨q, hq⟩ := hps
  obtain ⟨ps0, h0, hg⟩ := createLookup_grid T tab s q ps hq
  rw [hg]; exact h ps0 (List.mem_of_getElem? h0)

theorem growthRate_allQ (Q : Grid.State α → Prop) (c : Cfg α) (s : St α) (a : EvalAns α) (y : Slice α) (h : AllQ Q s.ph) :
    AllQ Q (growthRate c s a y).1.ph := by
  intro ps hps
  rw [List.mem_iff_getElem?] at hps
  obtain ⟨q, hq⟩ := hps
  obtain ⟨ps0, h0, hg⟩ := growthRate_grid c s a y q ps hq
  rw [hg]; exact h ps0 (List.mem_of_getElem? h0)

theorem afterAdjust_allQ (Q : Grid.State α → Prop) (c : Cfg α) (s : St α) (p : Nat) (ps : PhaseSt α) (g2 : Grid.State α)
    (change : Bool) (added : Option Nat) (u : UpdAns α) (hg : AllQ Q s.ph) (hg2 : Q g2) :
    AllQ Q (afterAdjust c s p ps g2 change added u).ph := by
  intro ps' hps
  rw [List.mem_iff_getElem?] at hps
  obtain ⟨q, hq⟩ := hps
  rcases afterAdjust_grids c s p ps g2 change added u q ps' hq with ⟨_, e⟩ | ⟨_, psq, h0, e⟩
  · rw [e]; exact hg2
  · rw [e]; exact hg psq (List.mem_of_getElem? h0)

theorem updatePh_allQ (Q : Grid.State α → Prop) (c : Cfg α) (hQ : StepClosed c Q) (s s' : St α) (t : α) (p : Nat)
    (xp : List α) (u : UpdAns α) (hg : AllQ Q s.ph) (h : updatePh c s t p xp u = some s') : AllQ Q s'.ph := by
  unfold updatePh at h
  simp only at h
  split at h
  · simp at h
  · next ps hps =>
    have hps' : Q ps.grid := hg ps (List.mem_of_getElem? hps)
    split at h
    · simp only [Option.some.injEq] at h; subst h
      exact allQ_set Q _ _ _ hg (hQ.reset _ hps')
    · split at h
      · simp at h
      · next hlen =>
        split at h
        · simp at h
        · next g1 hu =>
          have hg1 := hQ.update ps.grid g1 t xp hps' (by simpa using hlen) hu
          split at h
          · simp at h
          · next g2 change added hadj =>
            have hg2 := hQ.adjust g1 g2 _ change added hg1 hadj
            have hs3 := afterAdjust_allQ Q c s p ps g2 change added u hg hg2
            split at h
            · simp at h
            · next psF hF =>
              simp only [Option.some.injEq] at h
              subst h
              exact allQ_set Q _ _ _ hs3 (hQ.finish psF (hs3 psF (List.mem_of_getElem? hF)))

theorem updateAll_allQ (Q : Grid.State α → Prop) (c : Cfg α) (hQ : StepClosed c Q) (t : α) :
    ∀ (xs : List (List α)) (s s' : St α) (p : Nat) (us : List (UpdAns α)),
    AllQ Q s.ph → updateAll c t s p xs us = some s' → AllQ Q s'.ph
  | [], s, s', p, us, hg, h => by simp [updateAll] at h; subst h; exact hg
  | xp :: xs, s, s', p, us, hg, h => by
    simp only [updateAll] at h
    split at h
    · simp at h
    · next s1 h1 => exact updateAll_allQ Q c hQ t xs s1 s' (p+1) us.tail (updatePh_allQ Q c hQ s s1 t p xp _ hg h1) h

theorem eulerStep_allQ (Q : Grid.State α → Prop) (c : Cfg α) (hQ : StepClosed c Q) (s : St α) (tf dtminS dtmaxS : α)
    (aPost : EvalAns α) (upd : List (UpdAns α)) (o : StepOut α) (hg : AllQ Q s.ph)
    (h : eulerStep c s tf dtminS dtmaxS aPost upd = some o) : AllQ Q o.st.ph := by
  simp only [eulerStep] at h
  split at h
  · simp at h
  · next sD hD =>
    simp only [Option.some.injEq] at h; subst h
    unfold finishStep at hD
    refine updateAll_allQ Q c hQ _ _ { (evaluated c s tf dtminS dtmaxS aPost).1 with
      hist := (evaluated c s tf dtminS dtmaxS aPost).2 :: (evaluated c s tf dtminS dtmaxS aPost).1.hist } _ _ _ ?_ hD
    show AllQ Q (evaluated c s tf dtminS dtmaxS aPost).1.ph
    unfold evaluated depEval
    exact growthRate_allQ Q c s aPost _ hg

theorem gridReady_closed (c : Cfg α) : StepClosed c (GridReady (α := α)) where
  reset := by
    intro g ⟨hgood, hb, hmx, ho⟩
    refine ⟨reset_good g hgood, ?_⟩
    simp only [Grid.reset, if_true]
    exact ⟨ho, hmx, ho⟩
  update := by
    intro g g1 t N ⟨hgood, hb, hmx, ho⟩ hN hu
    refine ⟨update_good g g1 t N hgood hN hu, ?_⟩
    unfold Grid.update Grid.record at hu
    simp only [hgood.2.2.2, Bool.false_eq_true, if_false, Option.some.injEq] at hu
    rw [← hu]; exact ⟨hb, hmx, ho⟩
  adjust := fun g g' cd chg ni h ha => adjust_ready g g' cd chg ni h ha
  finish := by
    intro ps ⟨hgood, hb, hmx, ho⟩
    exact ⟨finishPh_good c ps hgood, hb, hmx, ho⟩

theorem updateAll_length (c : Cfg α) (t : α) : ∀ (xs : List (List α)) (s s' : St α) (p : Nat) (us : List (UpdAns α)),
    c.phases.length = s.ph.length → (s.cur c.nElem).ph.length = s.ph.length → us.length = xs.length →
    (∀ u ∈ us, UpdShaped c s.ph.length u) → updateAll c t s p xs us = some s' → s'.ph.length = s.ph.length
  | [], s, s', p, us, _, _, _, _, h => by simp [updateAll] at h; subst h; rfl
  | xp :: xs, s, s', p, us, hc, hcur, hus, hsh, h => by
    cases us with
    | nil => simp at hus
    | cons u us' =>
      simp only [updateAll, List.headD_cons, List.tail_cons] at h
      split at h
      · simp at h
      · next s1 h1 =>
        have hu : UpdShaped c s.ph.length u := hsh u (by simp)
        obtain ⟨hl1, _⟩ := updatePh_shape c s s1 t p xp u hc hcur hu h1
        have hh := updatePh_hist c s s1 t p xp u h1
        have hcur1 : (s1.cur c.nElem).ph.length = s1.ph.length := by
          have : s1.cur c.nElem = s.cur c.nElem := by simp [St.cur, hh]
          rw [this, hl1]; exact hcur
        rw [← hl1]
        exact updateAll_length c t xs s1 s' (p + 1) us' (by rw [hl1]; exact hc) hcur1 (by simpa using hus)
          (by intro u' hu'; rw [hl1]; exact hsh u' (by simp [hu'])) h

/-- what the totality theorems assume of a state: one configuration record and one recorded per-phase record per phase, every
grid consistent with usable class-count limits -/
def StReady (c : Cfg α) (s : St α) : Prop :=
  c.phases.length = s.ph.length ∧ (s.cur c.nElem).ph.length = s.ph.length ∧ AllQ GridReady s.ph

theorem stReady_good (c : Cfg α) (s : St α) (h : StReady c s) : StGood c s :=
  ⟨h.1, h.2.1, fun ps hps => ⟨(h.2.2 ps hps).1, (h.2.2 ps hps).2.1⟩⟩

/-- readiness is an invariant of the accepted Euler step -/
theorem eulerStep_ready (c : Cfg α) (s : St α) (tf dtminS dtmaxS : α) (aPost : EvalAns α) (upd : List (UpdAns α))
    (o : StepOut α) (hs : StReady c s) (ha : AnsShaped c s.ph.length aPost) (hul : upd.length = s.ph.length)
    (hu : ∀ u ∈ upd, UpdShaped c s.ph.length u) (h : eulerStep c s tf dtminS dtmaxS aPost upd = some o) :
    StReady c o.st ∧ o.st.ph.length = s.ph.length := by
  have hq := eulerStep_allQ GridReady c (gridReady_closed c) s tf dtminS dtmaxS aPost upd o hs.2.2 h
  obtain ⟨hc, hcur, _⟩ := hs
  have hxPlen : (processAll c s (advanced c s (acceptedDt c s tf dtminS dtmaxS))).length = s.ph.length := by
    simp [processAll, advanced, stageX, entryX, zip3_length, hcur]
  have hev := depEval_length c s ((s.cur c.nElem).time + acceptedDt c s tf dtminS dtmaxS)
    (processAll c s (advanced c s (acceptedDt c s tf dtminS dtmaxS))) aPost (s.cur c.nElem) hc ha hxPlen
  have hE1 : (evaluated c s tf dtminS dtmaxS aPost).1.ph.length = s.ph.length := hev.1
  have hE2 : (evaluated c s tf dtminS dtmaxS aPost).2.ph.length = s.ph.length := hev.2
  simp only [eulerStep] at h
  split at h
  · simp at h
  · next sD hD =>
    simp only [Option.some.injEq] at h; subst h
    have hhist := finishStep_hist _ _ _ _ _ _ hD
    unfold finishStep at hD
    have hlen : sD.ph.length = s.ph.length := by
      have := updateAll_length c _ _ { (evaluated c s tf dtminS dtmaxS aPost).1 with
          hist := (evaluated c s tf dtminS dtmaxS aPost).2 :: (evaluated c s tf dtminS dtmaxS aPost).1.hist } sD 0 upd
        (by show c.phases.length = (evaluated c s tf dtminS dtmaxS aPost).1.ph.length; rw [hE1]; exact hc)
        (by show ((St.cur c.nElem { (evaluated c s tf dtminS dtmaxS aPost).1 with
                hist := (evaluated c s tf dtminS dtmaxS aPost).2 :: (evaluated c s tf dtminS dtmaxS aPost).1.hist }).ph.length
              = (evaluated c s tf dtminS dtmaxS aPost).1.ph.length)
            simp only [St.cur, List.headD_cons]; rw [hE2, hE1])
        (by rw [hul, hxPlen])
        (by intro u hu'; show UpdShaped c (evaluated c s tf dtminS dtmaxS aPost).1.ph.length u; rw [hE1]; exact hu u hu')
        hD
      rw [this]; exact hE1
    refine ⟨⟨by rw [hlen]; exact hc, ?_, hq⟩, hlen⟩
    simp only [St.cur, hhist, List.headD_cons]
    rw [hlen]; exact hE2

/-- **a whole Euler run never raises**: from a ready state, for every number of steps and every stream of backend answers of the
right shape — including `none` results of the growth request at any step —, the loop of the solver runs through -/
theorem eulerRun_total (c : Cfg α) (tf dtminS : α) :
    ∀ (steps : List (EvalAns α × List (UpdAns α))) (s : St α) (m : α), StReady c s →
      (∀ st ∈ steps, AnsShaped c s.ph.length st.1 ∧ st.2.length = s.ph.length ∧ ∀ u ∈ st.2, UpdShaped c s.ph.length u) →
      ∃ r, runSteps c tf dtminS s m (steps.map (fun st => StepAns.euler st.1 st.2)) = some r
  | [], s, m, _, _ => ⟨(s, m), by simp [runSteps]⟩
  | st :: rest, s, m, hs, hsh => by
    simp only [List.map_cons, runSteps]
    split
    · obtain ⟨ha, hul, hu⟩ := hsh st (by simp)
      obtain ⟨o, ho⟩ := eulerStep_total c s tf dtminS m st.1 st.2 (stReady_good c s hs) ha hul hu
      simp only [anyStep, ho]
      obtain ⟨hr, hl⟩ := eulerStep_ready c s tf dtminS m st.1 st.2 o hs ha hul hu ho
      exact eulerRun_total c tf dtminS rest o.st _ hr (by
        intro st' hst'; rw [hl]; exact hsh st' (by simp [hst']))
    · exact ⟨_, rfl⟩


/-! ### totality for the Runge-Kutta step and for runs with either iterator -/

/-- a state `sF` reached from `s` by evaluations (same phases, same grids, position by position) together with a state vector
with one distribution per phase and one entry per class -/
def StageOK (s sF : St α) (x : List (List α)) : Prop :=
  sF.ph.length = s.ph.length ∧ sF.hist = s.hist ∧
  (∀ (i : Nat) (psF : PhaseSt α), sF.ph[i]? = some psF → ∃ ps, s.ph[i]? = some ps ∧ psF.grid = ps.grid) ∧
  x.length = s.ph.length ∧
  (∀ (i : Nat) (ps : PhaseSt α) (xi : List α), s.ph[i]? = some ps → x[i]? = some xi → xi.length = ps.grid.bins)

theorem entryX_getElem (c : Cfg α) (s : St α) (i : Nat) (ps : PhaseSt α) (hi : s.ph[i]? = some ps) :
    (entryX c s)[i]? = some (PSD.processX ps.rdfIdx c.minRadius ps.grid.psd ps.grid.size) := by
  simp [entryX, processAll, List.getElem?_zipWith, List.getElem?_map, hi]

theorem stageOK_entry (c : Cfg α) (s : St α) (hg : AllGood s.ph) : StageOK s s (entryX c s) := by
  refine ⟨rfl, rfl, fun i psF h => ⟨psF, h, rfl⟩, by simp [entryX, processAll], ?_⟩
  intro i ps xi hi hx
  rw [entryX_getElem c s i ps hi] at hx
  have hinv := C08.inv_spec ps.grid (hg ps (List.mem_of_getElem? hi)).1
  rw [← Option.some.inj hx, processX_len, hinv.2.1, hinv.2.2.2.1]; simp

/-- `_processX` on a stage vector keeps it a stage vector (the thresholds are those of the state it is evaluated in) -/
theorem stageOK_process (c : Cfg α) (s sF : St α) (x : List (List α)) (hg : AllGood s.ph) (h : StageOK s sF x) :
    StageOK s sF (processAll c sF x) := by
  obtain ⟨hl, hh, hgr, hxl, hxi⟩ := h
  refine ⟨hl, hh, hgr, by simp [processAll, hl, hxl], ?_⟩
  intro i ps xi hi hx
  have hil : i < s.ph.length := (List.getElem?_eq_some_iff.mp hi).1
  have hF : sF.ph[i]? = some sF.ph[i] := List.getElem?_eq_getElem (by rw [hl]; exact hil)
  have hX : x[i]? = some x[i] := List.getElem?_eq_getElem (by rw [hxl]; exact hil)
  obtain ⟨ps', hps', hgrid⟩ := hgr i _ hF
  have : ps' = ps := by rw [hi] at hps'; exact (Option.some.inj hps').symm
  subst this
  simp only [processAll, List.getElem?_zipWith, hF, hX, Option.map_some, Option.some.injEq] at hx
  have hinv := C08.inv_spec ps'.grid (hg ps' (List.mem_of_getElem? hi)).1
  rw [← hx, processX_len, hxi i ps' _ hi hX, hgrid, hinv.2.2.2.1]; simp

/-- an evaluation keeps a stage state a stage state -/
theorem stageOK_eval (c : Cfg α) (s sF : St α) (x : List (List α)) (t : α) (a : EvalAns α) (y : Slice α)
    (hc : c.phases.length = s.ph.length) (ha : AnsShaped c s.ph.length a) (h : StageOK s sF x) :
    StageOK s (depEval c sF t x a y).1 x ∧ (depEval c sF t x a y).2.ph.length = s.ph.length := by
  obtain ⟨hl, hh, hgr, hxl, hxi⟩ := h
  have hev := depEval_length c sF t x a y (by rw [hl]; exact hc) (by rw [hl]; exact ha) (by rw [hl]; exact hxl)
  refine ⟨⟨by rw [hev.1]; exact hl, by rw [depEval_hist]; exact hh, ?_, hxl, hxi⟩, by rw [hev.2]; exact hl⟩
  intro i psF hF
  unfold depEval at hF
  obtain ⟨ps1, h1, hg1⟩ := growthRate_grid c sF a _ i psF hF
  obtain ⟨ps, hps, hg⟩ := hgr i ps1 h1
  exact ⟨ps, hps, by rw [hg1, hg]⟩

/-- `_updateX` from a stage state gives a stage vector again -/
theorem stageOK_stageX (c : Cfg α) (s sF : St α) (x : List (List α)) (y : Slice α) (dt : α) (hg : AllGood s.ph)
    (hy : y.ph.length = s.ph.length) (h : StageOK s sF x) : StageOK s sF (stageX c s sF x y dt) := by
  obtain ⟨hl, hh, hgr, hxl, hxi⟩ := h
  have he := stageOK_entry c s hg
  refine ⟨hl, hh, hgr, ?_, ?_⟩
  · simp only [stageX, List.length_map, zip3_length]; rw [hl, hxl, he.2.2.2.1, hy]; simp
  · intro i ps xi hi hx
    have hil : i < s.ph.length := (List.getElem?_eq_some_iff.mp hi).1
    have hF : sF.ph[i]? = some sF.ph[i] := List.getElem?_eq_getElem (by rw [hl]; exact hil)
    have hX : x[i]? = some x[i] := List.getElem?_eq_getElem (by rw [hxl]; exact hil)
    have hY : y.ph[i]? = some y.ph[i] := List.getElem?_eq_getElem (by rw [hy]; exact hil)
    have hE := entryX_getElem c s i ps hi
    simp only [stageX, List.getElem?_map, zip3_getElem?, hF, hX, hi, hE, hY, Option.map_some, Option.some.injEq] at hx
    rw [← hx, advanceStage_length]
    exact he.2.2.2.2 i ps _ hi hE

/-- `_appendArrays` + `_updateParticleSizeDistribution` never raise on a stage state reached from a good state -/
theorem finishStep_total (c : Cfg α) (s sE : St α) (y : Slice α) (t' : α) (x : List (List α)) (upd : List (UpdAns α))
    (hs : StGood c s) (hst : StageOK s sE x) (hy : y.ph.length = s.ph.length) (hul : upd.length = s.ph.length)
    (hu : ∀ u ∈ upd, UpdShaped c s.ph.length u) : ∃ sD, finishStep c (sE, y) t' x upd = some sD := by
  obtain ⟨hc, hcur, hgood⟩ := hs
  obtain ⟨hl, hh, hgr, hxl, hxi⟩ := hst
  unfold finishStep
  apply updateAll_total
  · simp only [Nat.zero_add]; rw [hxl, hl]
  · show c.phases.length = sE.ph.length; rw [hl]; exact hc
  · show (St.cur c.nElem { sE with hist := y :: sE.hist }).ph.length = sE.ph.length
    simp only [St.cur, List.headD_cons]; rw [hy, hl]
  · rw [hul, hxl]
  · intro u hu'; show UpdShaped c sE.ph.length u; rw [hl]; exact hu u hu'
  · intro i xi hx
    simp only [Nat.zero_add]
    have hil : i < s.ph.length := by rw [← hxl]; exact (List.getElem?_eq_some_iff.mp hx).1
    have hF : sE.ph[i]? = some sE.ph[i] := List.getElem?_eq_getElem (by rw [hl]; exact hil)
    obtain ⟨ps, hps, hgrid⟩ := hgr i _ hF
    refine ⟨sE.ph[i], hF, ?_⟩
    unfold Ready
    rw [hgrid]
    exact ⟨(hgood ps (List.mem_of_getElem? hps)).1, hxi i ps xi hps hx, (hgood ps (List.mem_of_getElem? hps)).2⟩

/-- **an accepted Runge-Kutta step never raises** either: three intermediate evaluations, each of which may rebuild tables
or fall back on previous values, then the same post-processing -/
theorem rk4Step_total (c : Cfg α) (s : St α) (tf dtminS dtmaxS : α) (a2 a3 a4 aPost : EvalAns α) (upd : List (UpdAns α))
    (hs : StGood c s) (h2 : AnsShaped c s.ph.length a2) (h3 : AnsShaped c s.ph.length a3) (h4 : AnsShaped c s.ph.length a4)
    (ha : AnsShaped c s.ph.length aPost) (hul : upd.length = s.ph.length) (hu : ∀ u ∈ upd, UpdShaped c s.ph.length u) :
    ∃ o, rk4Step c s tf dtminS dtmaxS a2 a3 a4 aPost upd = some o := by
  have hc := hs.1
  have hcur := hs.2.1
  have hg : AllGood s.ph := fun ps hps => (hs.2.2 ps hps).1
  set dt := acceptedDt c s tf dtminS dtmaxS with hdt
  set cur := s.cur c.nElem with hcu
  -- stage 1 → 2
  have k1 := stageOK_process c s s _ hg (stageOK_stageX c s s (entryX c s) cur (dt / 2) hg hcur (stageOK_entry c s hg))
  obtain ⟨e2ok, e2y⟩ := stageOK_eval c s s _ (cur.time + dt / 2) a2 cur hc h2 k1
  -- stage 2 → 3
  have k2 := stageOK_process c s _ _ hg (stageOK_stageX c s _ _ _ (dt / 2) hg e2y e2ok)
  obtain ⟨e3ok, e3y⟩ := stageOK_eval c s _ _ (cur.time + dt / 2) a3 _ hc h3 k2
  -- stage 3 → 4
  have k3 := stageOK_process c s _ _ hg (stageOK_stageX c s _ _ _ dt hg e3y e3ok)
  obtain ⟨e4ok, e4y⟩ := stageOK_eval c s _ _ (cur.time + dt) a4 _ hc h4 k3
  -- accepted state and its evaluation inside postProcess
  have kN := stageOK_process c s _ _ hg (stageOK_stageX c s _ _ _ dt hg e4y e4ok)
  obtain ⟨pok, py⟩ := stageOK_eval c s _ _ (cur.time + dt) aPost _ hc ha kN
  obtain ⟨sD, hD⟩ := finishStep_total c s _ _ (cur.time + dt) _ upd hs pok py hul hu
  unfold rk4Step
  simp only
  have : finishStep c (rk4Post c s tf dtminS dtmaxS a2 a3 a4 aPost) ((s.cur c.nElem).time + acceptedDt c s tf dtminS dtmaxS)
      (processAll c (rk4Evals c s (acceptedDt c s tf dtminS dtmaxS) a2 a3 a4).s4.1
        (rk4Evals c s (acceptedDt c s tf dtminS dtmaxS) a2 a3 a4).xNew) upd = some sD := hD
  rw [this]
  exact ⟨_, rfl⟩

theorem finishStep_ready (c : Cfg α) (s sE : St α) (y : Slice α) (t' : α) (x : List (List α)) (upd : List (UpdAns α)) (sD : St α)
    (hs : StReady c s) (hst : StageOK s sE x) (hy : y.ph.length = s.ph.length) (hul : upd.length = s.ph.length)
    (hu : ∀ u ∈ upd, UpdShaped c s.ph.length u) (h : finishStep c (sE, y) t' x upd = some sD) :
    StReady c sD ∧ sD.ph.length = s.ph.length := by
  obtain ⟨hc, hcur, hq⟩ := hs
  obtain ⟨hl, hh, hgr, hxl, hxi⟩ := hst
  have hhist := finishStep_hist _ _ _ _ _ _ h
  unfold finishStep at h
  have hqE : AllQ GridReady sE.ph := by
    intro ps hps
    rw [List.mem_iff_getElem?] at hps
    obtain ⟨i, hi⟩ := hps
    obtain ⟨ps0, h0, hg⟩ := hgr i ps hi
    rw [hg]; exact hq ps0 (List.mem_of_getElem? h0)
  have hlen : sD.ph.length = s.ph.length := by
    have := updateAll_length c t' x { sE with hist := y :: sE.hist } sD 0 upd
      (by show c.phases.length = sE.ph.length; rw [hl]; exact hc)
      (by show (St.cur c.nElem { sE with hist := y :: sE.hist }).ph.length = sE.ph.length
          simp only [St.cur, List.headD_cons]; rw [hy, hl])
      (by rw [hul, hxl]) (by intro u hu'; show UpdShaped c sE.ph.length u; rw [hl]; exact hu u hu') h
    rw [this]; exact hl
  refine ⟨⟨by rw [hlen]; exact hc, ?_, updateAll_allQ GridReady c (gridReady_closed c) t' x { sE with hist := y :: sE.hist } sD 0 upd hqE h⟩, hlen⟩
  simp only [St.cur, hhist, List.headD_cons]
  rw [hlen]; exact hy

/-- the answers one pass of the loop consumes have the right shape -/
def StepShaped (c : Cfg α) (n : Nat) : StepAns α → Prop
  | .euler a u => AnsShaped c n a ∧ u.length = n ∧ ∀ x ∈ u, UpdShaped c n x
  | .rk4 a2 a3 a4 a u => AnsShaped c n a2 ∧ AnsShaped c n a3 ∧ AnsShaped c n a4 ∧ AnsShaped c n a ∧ u.length = n ∧
      ∀ x ∈ u, UpdShaped c n x

theorem anyStep_total (c : Cfg α) (s : St α) (tf dtminS dtmaxS : α) (au : StepAns α) (hs : StReady c s)
    (hsh : StepShaped c s.ph.length au) : ∃ o, anyStep c s tf dtminS dtmaxS au = some o := by
  cases au with
  | euler a u => exact eulerStep_total c s tf dtminS dtmaxS a u (stReady_good c s hs) hsh.1 hsh.2.1 hsh.2.2
  | rk4 a2 a3 a4 a u =>
    exact rk4Step_total c s tf dtminS dtmaxS a2 a3 a4 a u (stReady_good c s hs) hsh.1 hsh.2.1 hsh.2.2.1 hsh.2.2.2.1
      hsh.2.2.2.2.1 hsh.2.2.2.2.2

theorem rk4Step_ready (c : Cfg α) (s : St α) (tf dtminS dtmaxS : α) (a2 a3 a4 aPost : EvalAns α) (upd : List (UpdAns α))
    (o : StepOut α) (hs : StReady c s) (h2 : AnsShaped c s.ph.length a2) (h3 : AnsShaped c s.ph.length a3)
    (h4 : AnsShaped c s.ph.length a4) (ha : AnsShaped c s.ph.length aPost) (hul : upd.length = s.ph.length)
    (hu : ∀ u ∈ upd, UpdShaped c s.ph.length u) (h : rk4Step c s tf dtminS dtmaxS a2 a3 a4 aPost upd = some o) :
    StReady c o.st ∧ o.st.ph.length = s.ph.length := by
  have hc := hs.1
  have hcur := hs.2.1
  have hg : AllGood s.ph := fun ps hps => (hs.2.2 ps hps).1
  set dt := acceptedDt c s tf dtminS dtmaxS with hdt
  set cur := s.cur c.nElem with hcu
  have k1 := stageOK_process c s s _ hg (stageOK_stageX c s s (entryX c s) cur (dt / 2) hg hcur (stageOK_entry c s hg))
  obtain ⟨e2ok, e2y⟩ := stageOK_eval c s s _ (cur.time + dt / 2) a2 cur hc h2 k1
  have k2 := stageOK_process c s _ _ hg (stageOK_stageX c s _ _ _ (dt / 2) hg e2y e2ok)
  obtain ⟨e3ok, e3y⟩ := stageOK_eval c s _ _ (cur.time + dt / 2) a3 _ hc h3 k2
  have k3 := stageOK_process c s _ _ hg (stageOK_stageX c s _ _ _ dt hg e3y e3ok)
  obtain ⟨e4ok, e4y⟩ := stageOK_eval c s _ _ (cur.time + dt) a4 _ hc h4 k3
  have kN := stageOK_process c s _ _ hg (stageOK_stageX c s _ _ _ dt hg e4y e4ok)
  obtain ⟨pok, py⟩ := stageOK_eval c s _ _ (cur.time + dt) aPost _ hc ha kN
  simp only [rk4Step] at h
  split at h
  · simp at h
  · next sD hD =>
    simp only [Option.some.injEq] at h; subst h
    exact finishStep_ready c s _ _ (cur.time + dt) _ upd sD hs pok py hul hu hD

theorem anyStep_ready (c : Cfg α) (s : St α) (tf dtminS dtmaxS : α) (au : StepAns α) (o : StepOut α) (hs : StReady c s)
    (hsh : StepShaped c s.ph.length au) (h : anyStep c s tf dtminS dtmaxS au = some o) :
    StReady c o.st ∧ o.st.ph.length = s.ph.length := by
  cases au with
  | euler a u => exact eulerStep_ready c s tf dtminS dtmaxS a u o hs hsh.1 hsh.2.1 hsh.2.2 h
  | rk4 a2 a3 a4 a u =>
    exact rk4Step_ready c s tf dtminS dtmaxS a2 a3 a4 a u o hs hsh.1 hsh.2.1 hsh.2.2.1 hsh.2.2.2.1 hsh.2.2.2.2.1
      hsh.2.2.2.2.2 h

/-- **every run of the composed model runs through**: any number of passes of the solver loop, either iterator in any pass, every
stream of backend answers of the right shape (failures of the growth request included) — the model of `solve` never raises -/
theorem runSteps_total (c : Cfg α) (tf dtminS : α) :
    ∀ (steps : List (StepAns α)) (s : St α) (m : α), StReady c s → (∀ au ∈ steps, StepShaped c s.ph.length au) →
      ∃ r, runSteps c tf dtminS s m steps = some r
  | [], s, m, _, _ => ⟨(s, m), by simp [runSteps]⟩
  | au :: rest, s, m, hs, hsh => by
    simp only [runSteps]
    split
    · obtain ⟨o, ho⟩ := anyStep_total c s tf dtminS m au hs (hsh au (by simp))
      rw [ho]
      obtain ⟨hr, hl⟩ := anyStep_ready c s tf dtminS m au o hs (hsh au (by simp)) ho
      exact runSteps_total c tf dtminS rest o.st _ hr (by intro au' h'; rw [hl]; exact hsh au' (by simp [h']))
    · exact ⟨_, rfl⟩


/-! ### C01 for every row of every run: the solute balance is an invariant of the recorded histories -/

/-- the solute balance read off ONE recorded row: for every element that is not clamped and while the recorded total
precipitate fraction is below 1, initial content = matrix composition × (1 − total fraction) + precipitate content -/
def RowBal (c : Cfg α) (y : Slice α) : Prop :=
  ∀ e, e < c.x0.length → rowVolFrac y < 1 →
    ¬ (c.x0.getD e 0 - rowFconc y e) / (1 - rowVolFrac y) < 0 →
    c.x0.getD e 0 = y.comp.getD e 0 * (1 - rowVolFrac y) + rowFconc y e

theorem depEval_rowBal (c : Cfg α) (s : St α) (t : α) (x : List (List α)) (a : EvalAns α) (y : Slice α)
    (hs : s.ph.length = c.phases.length) (hx : x.length = c.phases.length) (ha : a.ph.length = c.phases.length) :
    RowBal c (depEval c s t x a y).2 :=
  fun e he hsat hpos => depEval_conserves_row c s t x a y hs hx ha e he hsat hpos

/-- the row appended by an accepted step of either iterator balances -/
theorem eulerStep_rowBal (c : Cfg α) (s : St α) (tf dtminS dtmaxS : α) (aPost : EvalAns α) (upd : List (UpdAns α))
    (o : StepOut α) (hs : StReady c s) (ha : AnsShaped c s.ph.length aPost)
    (h : eulerStep c s tf dtminS dtmaxS aPost upd = some o) : RowBal c (o.st.cur c.nElem) :=
  fun e he hsat hpos => eulerStep_conserves_row c s tf dtminS dtmaxS aPost upd o h hs.1.symm (by rw [hs.2.1, hs.1])
    (by rw [ha.1, hs.1]) e he hsat hpos

theorem rk4Step_rowBal (c : Cfg α) (s : St α) (tf dtminS dtmaxS : α) (a2 a3 a4 aPost : EvalAns α) (upd : List (UpdAns α))
    (o : StepOut α) (hs : StReady c s) (h2 : AnsShaped c s.ph.length a2) (h3 : AnsShaped c s.ph.length a3)
    (h4 : AnsShaped c s.ph.length a4) (ha : AnsShaped c s.ph.length aPost)
    (h : rk4Step c s tf dtminS dtmaxS a2 a3 a4 aPost upd = some o) : RowBal c (o.st.cur c.nElem) := by
  have hc := hs.1
  have hcur := hs.2.1
  have hg : AllGood s.ph := fun ps hps => (hs.2.2 ps hps).1
  set dt := acceptedDt c s tf dtminS dtmaxS with hdt
  set cur := s.cur c.nElem with hcu
  have k1 := stageOK_process c s s _ hg (stageOK_stageX c s s (entryX c s) cur (dt / 2) hg hcur (stageOK_entry c s hg))
  obtain ⟨e2ok, e2y⟩ := stageOK_eval c s s _ (cur.time + dt / 2) a2 cur hc h2 k1
  have k2 := stageOK_process c s _ _ hg (stageOK_stageX c s _ _ _ (dt / 2) hg e2y e2ok)
  obtain ⟨e3ok, e3y⟩ := stageOK_eval c s _ _ (cur.time + dt / 2) a3 _ hc h3 k2
  have k3 := stageOK_process c s _ _ hg (stageOK_stageX c s _ _ _ dt hg e3y e3ok)
  obtain ⟨e4ok, e4y⟩ := stageOK_eval c s _ _ (cur.time + dt) a4 _ hc h4 k3
  have kN := stageOK_process c s _ _ hg (stageOK_stageX c s _ _ _ dt hg e4y e4ok)
  have kN' : StageOK s (rk4Evals c s dt a2 a3 a4).s4.1
      (processAll c (rk4Evals c s dt a2 a3 a4).s4.1 (rk4Evals c s dt a2 a3 a4).xNew) := kN
  have hrow : o.st.cur c.nElem = (rk4Post c s tf dtminS dtmaxS a2 a3 a4 aPost).2 := by
    simp only [rk4Step] at h
    split at h
    · simp at h
    · next sD hD =>
      simp only [Option.some.injEq] at h; subst h
      have hh := finishStep_hist _ _ _ _ _ _ hD
      simp only [St.cur, hh, List.headD_cons]
  rw [hrow]
  exact depEval_rowBal c _ _ _ aPost _ (by rw [kN'.1]; exact hc.symm) (by rw [kN'.2.2.2.1]; exact hc.symm)
    (by rw [ha.1]; exact hc.symm)

theorem anyStep_rowBal (c : Cfg α) (s : St α) (tf dtminS dtmaxS : α) (au : StepAns α) (o : StepOut α) (hs : StReady c s)
    (hsh : StepShaped c s.ph.length au) (h : anyStep c s tf dtminS dtmaxS au = some o) : RowBal c (o.st.cur c.nElem) := by
  cases au with
  | euler a u => exact eulerStep_rowBal c s tf dtminS dtmaxS a u o hs hsh.1 h
  | rk4 a2 a3 a4 a u =>
    exact rk4Step_rowBal c s tf dtminS dtmaxS a2 a3 a4 a u o hs hsh.1 hsh.2.1 hsh.2.2.1 hsh.2.2.2.1 h

/-- **C01 over whole runs**: if every recorded row balances before a run, every recorded row balances after it — any number
of passes, either iterator in any pass, every stream of well-shaped backend answers (failed growth requests included) -/
theorem runSteps_rowBal (c : Cfg α) (tf dtminS : α) :
    ∀ (steps : List (StepAns α)) (s s' : St α) (m m' : α), StReady c s → (∀ au ∈ steps, StepShaped c s.ph.length au) →
      (∀ y ∈ s.hist, RowBal c y) → runSteps c tf dtminS s m steps = some (s', m') → ∀ y ∈ s'.hist, RowBal c y
  | [], s, s', m, m', _, _, hb, h => by simp [runSteps] at h; rw [← h.1]; exact hb
  | au :: rest, s, s', m, m', hs, hsh, hb, h => by
    simp only [runSteps] at h
    split at h
    · split at h
      · simp at h
      · next o ho =>
        obtain ⟨hr, hl⟩ := anyStep_ready c s tf dtminS m au o hs (hsh au (by simp)) ho
        have hrow := anyStep_rowBal c s tf dtminS m au o hs (hsh au (by simp)) ho
        obtain ⟨y, hy, _⟩ := anyStep_spec c s tf dtminS m au o ho
        refine runSteps_rowBal c tf dtminS rest o.st s' _ m' hr (by intro au' h'; rw [hl]; exact hsh au' (by simp [h'])) ?_ h
        intro y' hy'
        rw [hy] at hy'
        rcases List.mem_cons.mp hy' with h1 | h1
        · subst h1
          have : o.st.cur c.nElem = y' := by simp [St.cur, hy]
          rw [← this]; exact hrow
        · exact hb y' h1
    · simp only [Option.some.injEq, Prod.mk.injEq] at h; rw [← h.1]; exact hb


/-! ### `setup()` row and whole histories from construction -/

/-- the `(state, row)` pair of `setupState` after the lookup / equilibrium-composition branch -/
def setupPre (c : Cfg α) (s : St α) (a : EvalAns α) (eqMulti : List (Option (List α × List α))) : St α × Slice α :=
  let rest := s.hist.tail
  let row1 : Slice α := { s.cur c.nElem with comp := c.x0, temp := a.T }
  let ph0 := s.ph.map (fun ps => { ps with grid := Grid.reset ps.grid true })
  let s0 : St α := { s with ph := ph0, hist := row1 :: rest }
  if c.binary then
    let s1 := createLookup row1.temp a.table s0
    (s1, { row1 with ph := row1.ph.mapIdx (fun p yp => { yp with xEqA := s1.lookEqA.getD p [], xEqB := s1.lookEqB.getD p [] }) })
  else
    ({ s0 with ph := ph0.map (fun ps => { ps with xaT := List.replicate c.nElem (zerosL (ps.grid.bins + 1)),
                                                    xbT := List.replicate c.nElem (zerosL (ps.grid.bins + 1)) }) },
     { row1 with ph := row1.ph.mapIdx (fun p yp => match eqMulti.getD p none with
                                                    | some (ea, eb) => { yp with xEqA := ea, xEqB := eb }
                                                    | none => yp) })

theorem setupState_eq (c : Cfg α) (s : St α) (a : EvalAns α) (eq : List (Option (List α × List α))) :
    setupState c s a eq =
      let sr := setupPre c s a eq
      let s1 : St α := { sr.1 with hist := sr.2 :: s.hist.tail }
      let y1 := nucleation c s1 (s.cur c.nElem).time (s1.ph.map (fun ps => ps.grid.psd)) a sr.2
      let s2 : St α := { s1 with ph := s1.ph.map (fun ps => { ps with growth := zerosL (ps.grid.bins + 1) }) }
      { (growthRate c s2 a y1).1 with hist := (growthRate c s2 a y1).2 :: s.hist.tail } := rfl

theorem setupPre_facts (c : Cfg α) (s : St α) (a : EvalAns α) (eq : List (Option (List α × List α)))
    (Q : Grid.State α → Prop) (hres : ∀ g, Q g → Q (Grid.reset g true)) (hq : AllQ Q s.ph)
    (ha : AnsShaped c s.ph.length a) :
    (setupPre c s a eq).1.ph.length = s.ph.length ∧ AllQ Q (setupPre c s a eq).1.ph := by
  have h0 : AllQ Q (s.ph.map (fun ps => { ps with grid := Grid.reset ps.grid true })) := by
    intro ps hps
    rw [List.mem_map] at hps
    obtain ⟨q, hq', rfl⟩ := hps
    exact hres _ (hq q hq')
  unfold setupPre
  simp only
  split
  · next hb => refine ⟨by rw [createLookup_length, ha.2 hb]; simp, createLookup_allQ Q _ _ _ h0⟩
  · refine ⟨by simp, ?_⟩
    intro ps hps
    simp only [List.mem_map] at hps
    obtain ⟨q, ⟨r, hr, rfl⟩, rfl⟩ := hps
    exact hres _ (hq r hr)

/-- `setup()` keeps the state ready for the step theorems (grids reset to the original, one record per phase) -/
theorem setupState_ready (c : Cfg α) (s : St α) (a : EvalAns α) (eq : List (Option (List α × List α)))
    (hs : StReady c s) (ha : AnsShaped c s.ph.length a) :
    StReady c (setupState c s a eq) ∧ (setupState c s a eq).ph.length = s.ph.length := by
  obtain ⟨hc, hcur, hq⟩ := hs
  obtain ⟨hl, hQ⟩ := setupPre_facts c s a eq GridReady (gridReady_closed c).reset hq ha
  rw [setupState_eq]
  simp only
  set sr := setupPre c s a eq with hsr
  set s2 : St α := { sr.1 with ph := sr.1.ph.map (fun ps => { ps with growth := zerosL (ps.grid.bins + 1) }),
                               hist := sr.2 :: s.hist.tail } with hs2
  have hl2 : s2.ph.length = s.ph.length := by simp [hs2, hl]
  have hQ2 : AllQ GridReady s2.ph := by
    intro ps hps
    simp only [hs2, List.mem_map] at hps
    obtain ⟨q, hq', rfl⟩ := hps
    exact hQ q hq'
  set y1 := nucleation c { sr.1 with hist := sr.2 :: s.hist.tail } (s.cur c.nElem).time
    (sr.1.ph.map (fun ps => ps.grid.psd)) a sr.2 with hy1
  have hy1l : y1.ph.length = s2.ph.length := by
    simp [hy1, nucleation, zip3_length, dtPhases, hc, ha.1, hl, hl2]
  have hgl := growthRate_length c s2 a y1 (by rw [hl2]; exact hc) (by rw [hl2]; exact ha) hy1l
  have hrow : (growthRate c s2 a y1).2.ph.length = s2.ph.length := by
    unfold growthRate
    split
    · unfold growthBinary; simp only [List.length_mapIdx]; exact hy1l
    · unfold growthMulti; simp only [List.length_map, zip3_length]; rw [ha.1, hy1l, hl2]; simp
  refine ⟨⟨?_, ?_, growthRate_allQ GridReady c s2 a y1 hQ2⟩, by rw [hgl, hl2]⟩
  · show c.phases.length = (growthRate c s2 a y1).1.ph.length
    rw [hgl, hl2]; exact hc
  · show (St.cur c.nElem { (growthRate c s2 a y1).1 with hist := (growthRate c s2 a y1).2 :: s.hist.tail }).ph.length
        = (growthRate c s2 a y1).1.ph.length
    simp only [St.cur, List.headD_cons]
    rw [hrow, hgl]

/-- the row `setup()` records balances when the precipitate fields of the row it starts from are empty (a model that has
not run, or has been reset): composition = initial composition, fraction and content 0 -/
theorem setupState_rowBal (c : Cfg α) (s : St α) (a : EvalAns α) (eq : List (Option (List α × List α)))
    (hs : StReady c s) (ha : AnsShaped c s.ph.length a)
    (hz : ∀ yp ∈ (s.cur c.nElem).ph, yp.volFrac = 0 ∧ ∀ e, yp.fconc.getD e 0 = 0) :
    RowBal c ((setupState c s a eq).cur c.nElem) := by
  obtain ⟨hc, hcur, hq⟩ := hs
  obtain ⟨hl, _⟩ := setupPre_facts c s a eq GridReady (gridReady_closed c).reset hq ha
  rw [setupState_eq]
  simp only [St.cur, List.headD_cons]
  set sr := setupPre c s a eq with hsr
  set s2 : St α := { sr.1 with ph := sr.1.ph.map (fun ps => { ps with growth := zerosL (ps.grid.bins + 1) }),
                               hist := sr.2 :: s.hist.tail } with hs2
  have hl2 : s2.ph.length = s.ph.length := by simp [hs2, hl]
  set y0 : Slice α := { s.cur c.nElem with comp := c.x0, temp := a.T } with hy0
  have hcur' : (List.headD s.hist (Slice.zero c.nElem)).ph.length = s.ph.length := hcur
  have hy0l : y0.ph.length = s.ph.length := hcur
  set y1 := nucleation c { sr.1 with hist := sr.2 :: s.hist.tail } (s.cur c.nElem).time
    (sr.1.ph.map (fun ps => ps.grid.psd)) a sr.2 with hy1
  -- the row with the equilibrium compositions written in has the balance fields and the composition of the plain row
  have hsr2 : sr.2.ph.map balFields = y0.ph.map balFields ∧ sr.2.comp = c.x0 ∧ sr.2.ph.length = y0.ph.length := by
    rw [hsr]
    unfold setupPre
    simp only
    split
    · refine ⟨?_, rfl, by rw [List.length_mapIdx]⟩
      apply List.ext_getElem?
      intro i
      simp only [List.getElem?_map, List.getElem?_mapIdx]
      cases (s.cur c.nElem).ph[i]? <;> simp [balFields]
    · refine ⟨?_, rfl, by rw [List.length_mapIdx]⟩
      apply List.ext_getElem?
      intro i
      simp only [List.getElem?_map, List.getElem?_mapIdx]
      cases (s.cur c.nElem).ph[i]? with
      | none => simp
      | some yp =>
        simp only [Option.map_some, Option.some.injEq]
        split <;> rfl
  have hy1l : y1.ph.length = s.ph.length := by
    simp [hy1, nucleation, zip3_length, dtPhases, hc, ha.1, hl]
  have hb1 : y1.ph.map balFields = y0.ph.map balFields := by
    rw [← hsr2.1]
    exact nucleation_bal c _ _ _ a sr.2 (by rw [hsr2.2.2, hy0l]; exact hc) (by rw [hsr2.2.2, hy0l]; exact ha.1)
      (by rw [hsr2.2.2, hy0l]; exact hl) (by rw [hsr2.2.2, hy0l]; simp [hl])
  have hb2 : (growthRate c s2 a y1).2.ph.map balFields = y0.ph.map balFields := by
    rw [growthRate_bal c s2 a y1 (by rw [hy1l]; exact ha.1) (by rw [hy1l]; exact hl2)]; exact hb1
  have hcomp : (growthRate c s2 a y1).2.comp = c.x0 := by
    rw [(growthRate_time c s2 a y1).2.2, hy1, (nucleation_time _ _ _ _ _ _).2.2]; exact hsr2.2.1
  have hzero : ∀ yp ∈ (growthRate c s2 a y1).2.ph, yp.volFrac = 0 ∧ ∀ e, yp.fconc.getD e 0 = 0 := by
    intro yp hyp
    have : balFields yp ∈ y0.ph.map balFields := by rw [← hb2]; exact List.mem_map_of_mem hyp
    rw [List.mem_map] at this
    obtain ⟨q, hq', hqe⟩ := this
    have hq0 := hz q hq'
    simp only [balFields, Prod.mk.injEq] at hqe
    exact ⟨by rw [← hqe.1]; exact hq0.1, fun e => by rw [← hqe.2]; exact hq0.2 e⟩
  have hv : rowVolFrac (growthRate c s2 a y1).2 = 0 := by
    unfold rowVolFrac
    apply List.sum_eq_zero
    intro v hv'
    rw [List.mem_map] at hv'
    obtain ⟨yp, hyp, rfl⟩ := hv'
    exact (hzero yp hyp).1
  have hf : ∀ e, rowFconc (growthRate c s2 a y1).2 e = 0 := by
    intro e
    unfold rowFconc
    apply List.sum_eq_zero
    intro v hv'
    rw [List.mem_map] at hv'
    obtain ⟨yp, hyp, rfl⟩ := hv'
    exact (hzero yp hyp).2 e
  show RowBal c (growthRate c s2 a y1).2
  intro e _ _ _
  rw [hv, hf e, hcomp]; ring

/-- **C01 for every history from construction**: `setup()` and then any number of solver passes with either iterator, for
every configuration, schedule and stream of well-shaped backend answers — every recorded row (the setup row and one per
accepted step) satisfies the solute balance -/
theorem runFromSetup_rowBal (c : Cfg α) (s : St α) (a0 : EvalAns α) (eq : List (Option (List α × List α))) (tf dtminS dtmaxS : α)
    (steps : List (StepAns α)) (s' : St α) (m' : α) (hs : StReady c s) (ha : AnsShaped c s.ph.length a0)
    (hsh : ∀ au ∈ steps, StepShaped c s.ph.length au)
    (hz : ∀ yp ∈ (s.cur c.nElem).ph, yp.volFrac = 0 ∧ ∀ e, yp.fconc.getD e 0 = 0)
    (hrest : ∀ y ∈ s.hist.tail, RowBal c y)
    (h : runFromSetup c s a0 eq tf dtminS dtmaxS steps = some (s', m')) : ∀ y ∈ s'.hist, RowBal c y := by
  obtain ⟨hr, hl⟩ := setupState_ready c s a0 eq hs ha
  refine runSteps_rowBal c tf dtminS steps _ s' dtmaxS m' hr (by rw [hl]; exact hsh) ?_ h
  obtain ⟨y, hy, _⟩ := setupState_hist c s a0 eq
  intro y' hy'
  rw [hy] at hy'
  rcases List.mem_cons.mp hy' with h1 | h1
  · have hcur : (setupState c s a0 eq).cur c.nElem = y' := by simp [St.cur, hy, h1]
    rw [← hcur]; exact setupState_rowBal c s a0 eq hs ha hz
  · exact hrest y' h1

/-- and such a run never raises and ends ready for the next `solve` call -/
theorem runFromSetup_total (c : Cfg α) (s : St α) (a0 : EvalAns α) (eq : List (Option (List α × List α))) (tf dtminS dtmaxS : α)
    (steps : List (StepAns α)) (hs : StReady c s) (ha : AnsShaped c s.ph.length a0)
    (hsh : ∀ au ∈ steps, StepShaped c s.ph.length au) :
    ∃ r, runFromSetup c s a0 eq tf dtminS dtmaxS steps = some r := by
  obtain ⟨hr, hl⟩ := setupState_ready c s a0 eq hs ha
  exact runSteps_total c tf dtminS steps _ dtmaxS hr (by rw [hl]; exact hsh)


/-! ### `reset()` rewinds: after a reset the past is forgotten

Two binary models configured alike (same population-balance parameters, phase by phase) have, after `reset()`, the same future:
`setup()` and every later run produce identical states for identical backend answers — whatever either model did before
(earlier runs, re-meshed grids, stale tables and growth fields that `reset` leaves in place).  In particular a model that was
reset behaves like a freshly constructed one (`reset_like_fresh`), which is what the time-temperature-precipitation calculator
relies on when it resets one model for every temperature. -/

/-- two population balance models configured alike (whatever they hold now) -/
def GridCfgEq (g1 g2 : Grid.State α) : Prop :=
  g1.origMin = g2.origMin ∧ g1.origMax = g2.origMax ∧ g1.origBins = g2.origBins ∧ g1.minBins = g2.minBins ∧
  g1.maxBins = g2.maxBins ∧ g1.adaptive = g2.adaptive ∧ g1.recording = g2.recording ∧ g1.savedOk = g2.savedOk ∧
  g1.savedBins = g2.savedBins ∧ g1.savedPsd = g2.savedPsd ∧ g1.savedTime = g2.savedTime

theorem reset_forgets_grid (g1 g2 : Grid.State α) (h : GridCfgEq g1 g2) :
    ({ Grid.reset g1 true with recBins := [], recPsd := [], recTime := [] } : Grid.State α) =
      { Grid.reset g2 true with recBins := [], recPsd := [], recTime := [] } := by
  obtain ⟨h1, h2, h3, h4, h5, h6, h7, h8, h9, h10, h11⟩ := h
  simp only [Grid.reset, if_true, h1, h2, h3, h4, h5, h6, h7, h8, h9, h10, h11]

/-- a `DtRules.Phase` without its growth field -/
def noG (ph : DtRules.Phase α) : DtRules.Phase α := { ph with growth := [] }

theorem occupied_noG (pred : DtRules.Site → Bool) (w : DtRules.Phase α → α) (hw : ∀ ph, w (noG ph) = w ph)
    (l : List (DtRules.Phase α)) : DtRules.occupied pred w (l.map noG) = DtRules.occupied pred w l := by
  unfold DtRules.occupied
  congr 1
  induction l with
  | nil => rfl
  | cons x xs ih =>
    simp only [List.map_cons, List.filter_cons]
    have : (noG x).site = x.site := rfl
    rw [this]
    split
    · simp only [List.map_cons, hw, ih]
    · exact ih

theorem parentSites_noG (NA : α) (l : List (DtRules.Phase α)) (parents : List Nat) :
    DtRules.parentSites NA (l.map noG) parents = DtRules.parentSites NA l parents := by
  unfold DtRules.parentSites
  congr 1
  apply List.map_congr_left
  intro q _
  have hf : List.find? (fun ph : DtRules.Phase α => ph.id == q) (l.map noG) =
      (List.find? (fun ph : DtRules.Phase α => ph.id == q) l).map noG := by
    rw [List.find?_map]; rfl
  rw [hf]
  cases List.find? (fun ph : DtRules.Phase α => ph.id == q) l <;> rfl

/-- the available nucleation sites do not depend on the growth fields -/
theorem calcSites_noG (sc : DtRules.SiteCfg α) (l : List (DtRules.Phase α)) (p : DtRules.Phase α) :
    DtRules.calcSites sc (l.map noG) (noG p) = DtRules.calcSites sc l p := by
  unfold DtRules.calcSites
  have hs : (noG p).site = p.site := rfl
  have hp : (noG p).parents = p.parents := rfl
  simp only [hs, hp, parentSites_noG]
  rw [occupied_noG _ _ (fun _ => rfl), occupied_noG _ _ (fun _ => rfl), occupied_noG _ _ (fun _ => rfl),
    occupied_noG _ _ (fun _ => rfl), occupied_noG _ _ (fun _ => rfl)]

/-- a phase state without its growth field -/
def stripG (ps : PhaseSt α) : PhaseSt α := { ps with growth := [] }

theorem nucPhase_hist_congr (c : Cfg α) (sA sB : St α) (hh : sA.hist = sB.hist) (t T x0 sites : α) (pc : PhaseCfg α)
    (an : PhaseAns α) (yp : PSlice α) :
    nucPhase c sA t T x0 sites pc an yp = nucPhase c sB t T x0 sites pc an yp := by
  unfold nucPhase St.n St.cur St.prev
  rw [hh]

theorem dtPhase_noG (c : Cfg α) (sA sB : St α) (hh : sA.hist = sB.hist) (pc : PhaseCfg α) (psA psB : PhaseSt α)
    (hp : stripG psA = stripG psB) (p : Nat) (x : List α) :
    noG (dtPhase c sA pc psA p x) = noG (dtPhase c sB pc psB p x) := by
  have hg : psA.grid = psB.grid := by
    have : (stripG psA).grid = (stripG psB).grid := by rw [hp]
    exact this
  have hd : psA.dissIdx = psB.dissIdx := by
    have : (stripG psA).dissIdx = (stripG psB).dissIdx := by rw [hp]
    exact this
  unfold dtPhase noG St.cur St.prev
  simp only [hh, hg, hd]

theorem dtPhases_noG (c : Cfg α) (sA sB : St α) (x : List (List α)) (hh : sA.hist = sB.hist)
    (hp : sA.ph.map stripG = sB.ph.map stripG) :
    (dtPhases c sA x).map noG = (dtPhases c sB x).map noG := by
  apply List.ext_getElem?
  intro i
  have hi := congrArg (fun l => l[i]?) hp
  simp only [List.getElem?_map] at hi
  simp only [dtPhases, List.getElem?_map, List.getElem?_mapIdx, zip3_getElem?]
  cases hA : sA.ph[i]? with
  | none =>
    rw [hA] at hi
    cases hB : sB.ph[i]? with
    | none => simp
    | some b => rw [hB] at hi; simp at hi
  | some a =>
    rw [hA] at hi
    cases hB : sB.ph[i]? with
    | none => rw [hB] at hi; simp at hi
    | some b =>
      rw [hB] at hi
      simp only [Option.map_some, Option.some.injEq] at hi
      cases c.phases[i]? with
      | none => simp
      | some pc =>
        cases x[i]? with
        | none => simp
        | some xi =>
          simp only [Option.map_some, Option.some.injEq]
          exact dtPhase_noG c sA sB hh pc a b hi i xi

/-- `_calcNucleationRate` reads the state only through the recorded rows and the phases without their growth fields -/
theorem nucleation_congr (c : Cfg α) (sA sB : St α) (t : α) (x : List (List α)) (a : EvalAns α) (y : Slice α)
    (hh : sA.hist = sB.hist) (hp : sA.ph.map stripG = sB.ph.map stripG) :
    nucleation c sA t x a y = nucleation c sB t x a y := by
  have hd := dtPhases_noG c sA sB x hh hp
  unfold nucleation
  simp only
  congr 1
  apply List.ext_getElem?
  intro i
  have hi := congrArg (fun l => l[i]?) hd
  simp only [List.getElem?_map] at hi
  simp only [List.getElem?_mapIdx, zip3_getElem?]
  cases c.phases[i]? with
  | none => simp
  | some pc =>
    cases a.ph[i]? with
    | none => simp
    | some an =>
      cases hA : (dtPhases c sA x)[i]? with
      | none =>
        rw [hA] at hi
        cases hB : (dtPhases c sB x)[i]? with
        | none => simp
        | some b => rw [hB] at hi; simp at hi
      | some uA =>
        rw [hA] at hi
        cases hB : (dtPhases c sB x)[i]? with
        | none => rw [hB] at hi; simp at hi
        | some uB =>
          rw [hB] at hi
          simp only [Option.map_some, Option.some.injEq] at hi
          simp only [Option.map_some, Option.some.injEq]
          rw [← calcSites_noG c.sites (dtPhases c sA x) uA, ← calcSites_noG c.sites (dtPhases c sB x) uB, hd, hi]
          exact nucPhase_hist_congr c sA sB hh _ _ _ _ _ _ _


theorem St_ext (s t : St α) (h1 : s.ph = t.ph) (h2 : s.lookT = t.lookT) (h3 : s.lookEqA = t.lookEqA)
    (h4 : s.lookEqB = t.lookEqB) (h5 : s.hist = t.hist) : s = t := by
  cases s; cases t; simp_all

/-- a phase state without tables and growth field: what is left is the grid and the two indices -/
def stripT (ps : PhaseSt α) : PhaseSt α := { ps with xaT := [], xbT := [], growth := [] }

theorem resetPh_strip (lA lB : List (PhaseSt α))
    (hcfg : List.Forall₂ (fun p q : PhaseSt α => GridCfgEq p.grid q.grid) lA lB) :
    lA.map (fun ps => stripT { ps with grid := { Grid.reset ps.grid true with recBins := [], recPsd := [], recTime := [] },
                                         dissIdx := 0, rdfIdx := 0 }) =
    lB.map (fun ps => stripT { ps with grid := { Grid.reset ps.grid true with recBins := [], recPsd := [], recTime := [] },
                                         dissIdx := 0, rdfIdx := 0 }) := by
  induction hcfg with
  | nil => rfl
  | cons h _ ih =>
    simp only [List.map_cons, List.cons.injEq]
    refine ⟨?_, ih⟩
    simp only [stripT]
    rw [reset_forgets_grid _ _ h]

theorem resetState_strip (c : Cfg α) (sA sB : St α)
    (hcfg : List.Forall₂ (fun p q : PhaseSt α => GridCfgEq p.grid q.grid) sA.ph sB.ph) :
    (resetState c sA).ph.map stripT = (resetState c sB).ph.map stripT := by
  simp only [resetState, List.map_map]
  exact resetPh_strip sA.ph sB.ph hcfg

/-- the lookup-table rebuild reads a phase only through `stripT` (it overwrites the tables) and keeps the growth field -/
theorem createLookup_strip (T : α) (tab : List (TablePh α)) (sA sB : St α) (hp : sA.ph.map stripT = sB.ph.map stripT) :
    (createLookup T tab sA).ph.map stripG = (createLookup T tab sB).ph.map stripG ∧
    (createLookup T tab sA).lookT = (createLookup T tab sB).lookT ∧
    (createLookup T tab sA).lookEqA = (createLookup T tab sB).lookEqA ∧
    (createLookup T tab sA).lookEqB = (createLookup T tab sB).lookEqB := by
  refine ⟨?_, rfl, rfl, rfl⟩
  apply List.ext_getElem?
  intro i
  have hi := congrArg (fun l => l[i]?) hp
  simp only [List.getElem?_map] at hi
  simp only [createLookup, List.getElem?_map, List.getElem?_zipWith]
  cases hA : sA.ph[i]? with
  | none =>
    rw [hA] at hi
    cases hB : sB.ph[i]? with
    | none => simp
    | some b => rw [hB] at hi; simp at hi
  | some a =>
    rw [hA] at hi
    cases hB : sB.ph[i]? with
    | none => rw [hB] at hi; simp at hi
    | some b =>
      rw [hB] at hi
      simp only [Option.map_some, Option.some.injEq] at hi
      cases tab[i]? with
      | none => simp
      | some tp =>
        simp only [Option.map_some, Option.some.injEq, stripG]
        have hg : a.grid = b.grid := by
          have : (stripT a).grid = (stripT b).grid := by rw [hi]
          exact this
        have hd : a.dissIdx = b.dissIdx := by
          have : (stripT a).dissIdx = (stripT b).dissIdx := by rw [hi]
          exact this
        simp only [hg, hd]


theorem map_strip_congr {β : Type} (f : PhaseSt α → β) (g : PhaseSt α → PhaseSt α) (hf : ∀ ps, f ps = f (g ps))
    (lA lB : List (PhaseSt α)) (h : lA.map g = lB.map g) : lA.map f = lB.map f := by
  have e1 : lA.map f = (lA.map g).map f := by rw [List.map_map]; exact List.map_congr_left (fun ps _ => hf ps)
  have e2 : lB.map f = (lB.map g).map f := by rw [List.map_map]; exact List.map_congr_left (fun ps _ => hf ps)
  rw [e1, e2, h]

/-- the state `setup()` hands to the lookup rebuild, and the row it writes the equilibrium compositions into -/
def setupS0 (c : Cfg α) (s : St α) (a : EvalAns α) : St α :=
  { s with ph := s.ph.map (fun ps => { ps with grid := Grid.reset ps.grid true }),
           hist := { s.cur c.nElem with comp := c.x0, temp := a.T } :: s.hist.tail }

def setupRow (c : Cfg α) (s : St α) (a : EvalAns α) (s1 : St α) : Slice α :=
  let row1 : Slice α := { s.cur c.nElem with comp := c.x0, temp := a.T }
  { row1 with ph := row1.ph.mapIdx (fun p yp => { yp with xEqA := s1.lookEqA.getD p [], xEqB := s1.lookEqB.getD p [] }) }

/-- **`reset()` forgets the past (binary models)**: two models whose population balance models are configured alike, phase by
phase, are after `reset()` and `setup()` in the SAME state — for every configuration and every backend answer, whatever either
did before (different histories, re-meshed grids, stale tables, growth fields and lookup temperatures) -/
theorem reset_forgets (c : Cfg α) (sA sB : St α) (a : EvalAns α) (eq : List (Option (List α × List α)))
    (hb : c.binary = true)
    (hcfg : List.Forall₂ (fun p q : PhaseSt α => GridCfgEq p.grid q.grid) sA.ph sB.ph) :
    setupState c (resetState c sA) a eq = setupState c (resetState c sB) a eq := by
  have hR := resetState_strip c sA sB hcfg
  have hH : (resetState c sA).hist = (resetState c sB).hist := rfl
  -- the states handed to the lookup rebuild agree up to tables and growth
  have h0 : ((resetState c sA).ph.map (fun ps => { ps with grid := Grid.reset ps.grid true })).map stripT =
            ((resetState c sB).ph.map (fun ps => { ps with grid := Grid.reset ps.grid true })).map stripT := by
    have e : ∀ l : List (PhaseSt α), (l.map (fun ps => { ps with grid := Grid.reset ps.grid true })).map stripT =
        (l.map stripT).map (fun ps => { ps with grid := Grid.reset ps.grid true }) := by
      intro l; simp only [List.map_map]; rfl
    rw [e, e, hR]
  rw [setupState_eq, setupState_eq]
  simp only
  -- `setupPre`, binary branch
  have hpre1 : ∀ s : St α, (setupPre c s a eq).1 = createLookup a.T a.table (setupS0 c s a) := by
    intro s; unfold setupPre setupS0; simp only [hb, if_true]
  have hpre2 : ∀ s : St α, (setupPre c s a eq).2 = setupRow c s a (createLookup a.T a.table (setupS0 c s a)) := by
    intro s; unfold setupPre setupS0 setupRow; simp only [hb, if_true]
  have h0' : (setupS0 c (resetState c sA) a).ph.map stripT = (setupS0 c (resetState c sB) a).ph.map stripT := h0
  obtain ⟨hL1, hL2, hL3, hL4⟩ := createLookup_strip a.T a.table _ _ h0'
  have hcurEq : (resetState c sA).cur c.nElem = (resetState c sB).cur c.nElem := rfl
  have hrow : (setupPre c (resetState c sA) a eq).2 = (setupPre c (resetState c sB) a eq).2 := by
    rw [hpre2, hpre2]; unfold setupRow; rw [hL3, hL4, hcurEq]
  have hph : (setupPre c (resetState c sA) a eq).1.ph.map stripG = (setupPre c (resetState c sB) a eq).1.ph.map stripG := by
    rw [hpre1, hpre1]; exact hL1
  have hlT : (setupPre c (resetState c sA) a eq).1.lookT = (setupPre c (resetState c sB) a eq).1.lookT := by
    rw [hpre1, hpre1]; exact hL2
  have hlA : (setupPre c (resetState c sA) a eq).1.lookEqA = (setupPre c (resetState c sB) a eq).1.lookEqA := by
    rw [hpre1, hpre1]; exact hL3
  have hlB : (setupPre c (resetState c sA) a eq).1.lookEqB = (setupPre c (resetState c sB) a eq).1.lookEqB := by
    rw [hpre1, hpre1]; exact hL4
  generalize setupPre c (resetState c sA) a eq = pA at hrow hph hlT hlA hlB ⊢
  generalize setupPre c (resetState c sB) a eq = pB at hrow hph hlT hlA hlB ⊢
  -- the nucleation terms agree
  have hpsd : pA.1.ph.map (fun ps => ps.grid.psd) = pB.1.ph.map (fun ps => ps.grid.psd) :=
    map_strip_congr _ stripG (fun _ => rfl) _ _ hph
  have hy : nucleation c { pA.1 with hist := pA.2 :: (resetState c sA).hist.tail } ((resetState c sA).cur c.nElem).time
        (pA.1.ph.map (fun ps => ps.grid.psd)) a pA.2 =
      nucleation c { pB.1 with hist := pB.2 :: (resetState c sB).hist.tail } ((resetState c sB).cur c.nElem).time
        (pB.1.ph.map (fun ps => ps.grid.psd)) a pB.2 := by
    rw [hpsd, hcurEq, hrow]
    exact nucleation_congr c _ _ _ _ a _ (by show pB.2 :: _ = pB.2 :: _; rw [hH]) hph
  -- and the states handed to the growth-rate call are equal
  have hs2 : ({ pA.1 with
                  ph := pA.1.ph.map (fun ps => { ps with growth := zerosL (ps.grid.bins + 1) }),
                  hist := pA.2 :: (resetState c sA).hist.tail } : St α) =
             { pB.1 with
                  ph := pB.1.ph.map (fun ps => { ps with growth := zerosL (ps.grid.bins + 1) }),
                  hist := pB.2 :: (resetState c sB).hist.tail } := by
    apply St_ext
    · exact map_strip_congr _ stripG (fun _ => rfl) _ _ hph
    · exact hlT
    · exact hlA
    · exact hlB
    · show pA.2 :: _ = pB.2 :: _; rw [hrow, hH]
  rw [hy, hs2, hH]

/-- … hence every later run is the same too (same answers, same end time, same iterators) -/
theorem reset_forgets_runs (c : Cfg α) (sA sB : St α) (a : EvalAns α) (eq : List (Option (List α × List α)))
    (tf dtminS dtmaxS : α) (steps : List (StepAns α)) (hb : c.binary = true)
    (hcfg : List.Forall₂ (fun p q : PhaseSt α => GridCfgEq p.grid q.grid) sA.ph sB.ph) :
    runFromSetup c (resetState c sA) a eq tf dtminS dtmaxS steps = runFromSetup c (resetState c sB) a eq tf dtminS dtmaxS steps := by
  unfold runFromSetup
  rw [reset_forgets c sA sB a eq hb hcfg]

/-- a model that was reset behaves like a freshly constructed one with the same population-balance parameters -/
theorem reset_like_fresh (c : Cfg α) (s : St α) (a : EvalAns α) (eq : List (Option (List α × List α)))
    (tf dtminS dtmaxS : α) (steps : List (StepAns α)) (hb : c.binary = true) (grids : List (Grid.State α))
    (hcfg : List.Forall₂ (fun (p : PhaseSt α) (g : Grid.State α) => GridCfgEq p.grid g) s.ph grids) :
    runFromSetup c (resetState c s) a eq tf dtminS dtmaxS steps =
      runFromSetup c (resetState c (freshState c grids)) a eq tf dtminS dtmaxS steps := by
  apply reset_forgets_runs c s (freshState c grids) a eq tf dtminS dtmaxS steps hb
  simp only [freshState]
  rw [List.forall₂_map_right_iff]
  exact hcfg


/-! ### the effective diffusion distance is part of the model: its range, and the sign of the binary growth field

`EffectiveDiffusionFunctions` (a 252-point table interpolated by `np.interp`) used to be a backend answer of the composed step;
it is now computed by the model (`effOf`) from the implementation's own tables, so the hypothesis `0 < eff` of C12's growth-sign
theorems is DISCHARGED here instead of being assumed about an answer. -/

open KawinV.Grid in
theorem interpAux_le (M : α) : ∀ (xp fp : List α) (x : α), 0 ≤ M → (∀ y ∈ fp, y ≤ M) →
    (∀ x0, xp.head? = some x0 → x0 ≤ x) → interpAux xp fp x ≤ M := by
  intro xp
  induction xp with
  | nil =>
    intro fp x hM hf _
    cases fp with
    | nil => simpa [interpAux] using hM
    | cons f0 fs => simp only [interpAux]; exact hf f0 (by simp)
  | cons x0 xs ih =>
    intro fp x hM hf hx
    cases fp with
    | nil => simpa [interpAux] using hM
    | cons f0 fs =>
      cases xs with
      | nil => simp only [interpAux]; exact hf f0 (by simp)
      | cons x1 xs' =>
        cases fs with
        | nil => simp only [interpAux]; exact hf f0 (by simp)
        | cons f1 fs' =>
          simp only [interpAux]
          have h0 : f0 ≤ M := hf f0 (by simp)
          have h1 : f1 ≤ M := hf f1 (by simp)
          have hx0 : x0 ≤ x := hx x0 rfl
          split
          · next hlt =>
            have hd : 0 < x1 - x0 := by linarith
            have e : (f1 - f0) / (x1 - x0) * (x - x0) + f0 = (f1 * (x - x0) + f0 * (x1 - x)) / (x1 - x0) := by
              field_simp; ring
            rw [e, div_le_iff₀ hd]
            have a1 : 0 ≤ x - x0 := by linarith
            have a2 : 0 ≤ x1 - x := by linarith
            nlinarith [mul_le_mul_of_nonneg_right h1 a1, mul_le_mul_of_nonneg_right h0 a2]
          · next hge =>
            apply ih (f1 :: fs') x hM (fun y hy => hf y (by simp [List.mem_cons] at hy ⊢; tauto))
            intro y hy
            simp at hy; subst hy
            exact not_lt.mp hge

open KawinV.Grid in
/-- interpolating ordinates bounded by `M` gives a value bounded by `M`, whatever the abscissae -/
theorem interp_le (M : α) (xp fp : List α) (x : α) (hM : 0 ≤ M) (hf : ∀ y ∈ fp, y ≤ M) : interp xp fp x ≤ M := by
  unfold interp
  split
  · next x0 _ f0 _ =>
    split
    · exact hf f0 (by simp)
    · next h =>
      apply interpAux_le M _ _ _ hM hf
      intro y hy; simp at hy; subst hy; exact not_lt.mp h
  · exact hM

/-- ordinates positive except possibly the last one, which is not negative -/
def PosButLast : List α → Prop
  | [] => True
  | [f] => 0 ≤ f
  | f :: g :: r => 0 < f ∧ PosButLast (g :: r)

open KawinV.Grid in
theorem interpAux_pos : ∀ (xp fp : List α) (x : α), xp ≠ [] → xp.length = fp.length → PosButLast fp →
    (∀ x0, xp.head? = some x0 → x0 ≤ x) → (∀ xl, xp.getLast? = some xl → x < xl) → 0 < interpAux xp fp x := by
  intro xp
  induction xp with
  | nil => intro fp x hne; exact absurd rfl hne
  | cons x0 xs ih =>
    intro fp x _ hlen hp hx hl
    cases fp with
    | nil => simp at hlen
    | cons f0 fs =>
      cases xs with
      | nil =>
        -- a single abscissa: x0 ≤ x < x0 is impossible
        have := hx x0 rfl
        have := hl x0 rfl
        linarith
      | cons x1 xs' =>
        cases fs with
        | nil => simp at hlen
        | cons f1 fs' =>
          simp only [interpAux]
          obtain ⟨h0, hrest⟩ := hp
          have hx0 : x0 ≤ x := hx x0 rfl
          have h1 : 0 ≤ f1 := by
            cases fs' with
            | nil => exact hrest
            | cons _ _ => exact hrest.1.le
          split
          · next hlt =>
            have hd : 0 < x1 - x0 := by linarith
            have e : (f1 - f0) / (x1 - x0) * (x - x0) + f0 = (f1 * (x - x0) + f0 * (x1 - x)) / (x1 - x0) := by
              field_simp; ring
            rw [e]
            apply div_pos _ hd
            have a1 : 0 ≤ x - x0 := by linarith
            have a2 : 0 < x1 - x := by linarith
            have : 0 < f0 * (x1 - x) := mul_pos h0 a2
            have : 0 ≤ f1 * (x - x0) := mul_nonneg h1 a1
            linarith
          · next hge =>
            apply ih (f1 :: fs') x (by simp) (by simpa using hlen) hrest
            · intro y hy; simp at hy; subst hy; exact not_lt.mp hge
            · intro xl hxl; apply hl xl; simpa [List.getLast?_cons_cons] using hxl

/-- the tables of `setupInterpolation`: as many abscissae as ordinates (at least two), ordinates positive except the last
(which is 0 at supersaturation 1) and at most 1 -/
def EffTableOK (c : Cfg α) : Prop :=
  c.effOhm.length = c.effVal.length ∧ PosButLast c.effVal ∧ (∀ v ∈ c.effVal, v ≤ 1) ∧ 2 ≤ c.effVal.length

open KawinV.Grid in
/-- **range of the effective diffusion distance factor**: at most 1 always … -/
theorem effOf_le_one (c : Cfg α) (Q : α) (h : EffTableOK c) : effOf c Q ≤ 1 := by
  unfold effOf
  split
  · exact interp_le 1 _ _ _ zero_le_one h.2.2.1
  · exact le_refl 1

open KawinV.Grid in
/-- … and strictly positive below the last tabulated supersaturation (the value 0 is reached only at supersaturation 1, where
the growth law has a pole) -/
theorem effOf_pos (c : Cfg α) (Q : α) (h : EffTableOK c) (hQ : ∀ xl, c.effOhm.getLast? = some xl → Q < xl) : 0 < effOf c Q := by
  obtain ⟨hlen, hp, _, h2⟩ := h
  unfold effOf
  split
  · unfold interp
    split
    · next x0 xr f0 fr hxp hfp =>
      rw [hfp] at hp h2
      split
      · cases fr with
        | nil => simp at h2
        | cons f1 fr' => exact hp.1
      · next h' =>
        rw [hxp, hfp] at hlen
        rw [hxp, hfp]
        apply interpAux_pos _ _ _ (by simp) hlen hp
        · intro y hy; simp at hy; subst hy; exact not_lt.mp h'
        · intro xl hxl; apply hQ xl; rw [hxp]; exact hxl
    · next hno =>
      exfalso
      cases hx : c.effOhm with
      | nil => rw [hx] at hlen; simp at hlen; rw [← hlen] at h2; simp at h2
      | cons x0 xr =>
        cases hf : c.effVal with
        | nil => rw [hf] at h2; simp at h2
        | cons f0 fr => exact hno x0 xr f0 fr hx hf
  · exact zero_lt_one


/-- **sign of the binary growth field in the composed model (C12's growth clause without an assumption on the backend)**: for a
class boundary of the stable branch with positive kinetic factor, diffusivity and radius, a precipitate richer in solute than the
matrix (`xa < Va·xb/Vb`, `x < Va·xb/Vb`), the growth rate the step stores is positive exactly when the matrix is supersaturated
with respect to the interfacial composition of that class, and negative exactly when it is undersaturated — the effective
diffusion distance is the model's own interpolation and is proved positive there -/
theorem growthBinaryPh_sign (c : Cfg α) (x D : α) (pc : PhaseCfg α) (ps : PhaseSt α) (an : PhaseAns α) (i : Nat)
    (hi : i < ps.grid.bounds.length) (hstable : ps.rdfIdx + 1 < (ps.xaT.headD []).length)
    (hkin : 0 < an.kin.getD i 0) (hD : 0 < D) (hR : 0 < ps.grid.bounds.getD i 0)
    (hden : 0 < c.sites.vmAlpha * (ps.xbT.headD []).getD i 0 / pc.vmBeta - (ps.xaT.headD []).getD i 0)
    (hx : x < c.sites.vmAlpha * (ps.xbT.headD []).getD i 0 / pc.vmBeta)
    (htab : EffTableOK c) (hlast : c.effOhm.getLast? = some 1) :
    (0 < (growthBinaryPh c x D pc ps an).getD i 0 ↔ (ps.xaT.headD []).getD i 0 < x) ∧
    ((growthBinaryPh c x D pc ps an).getD i 0 < 0 ↔ x < (ps.xaT.headD []).getD i 0) := by
  have hQ : Gen.C12.superSat x ((ps.xaT.headD []).getD i 0) ((ps.xbT.headD []).getD i 0) c.sites.vmAlpha pc.vmBeta < 1 := by
    unfold Gen.C12.superSat
    rw [div_lt_one hden]
    linarith
  have heff := effOf_pos c _ htab (fun xl hxl => by rw [hlast] at hxl; cases hxl; exact hQ)
  have hval : (growthBinaryPh c x D pc ps an).getD i 0 =
      Gen.C12.growthBinary (an.kin.getD i 0) D
        (effOf c (Gen.C12.superSat x ((ps.xaT.headD []).getD i 0) ((ps.xbT.headD []).getD i 0) c.sites.vmAlpha pc.vmBeta))
        x ((ps.xaT.headD []).getD i 0) ((ps.xbT.headD []).getD i 0) c.sites.vmAlpha pc.vmBeta (ps.grid.bounds.getD i 0) := by
    unfold growthBinaryPh
    simp only [hstable, if_true]
    rw [List.getD_eq_getElem?_getD, List.getElem?_map, List.getElem?_range hi]
    rfl
  rw [hval]
  exact ⟨C12.growthBinary_pos_iff _ _ _ _ _ _ _ _ _ hkin hD heff hR hden,
         C12.growthBinary_neg_iff _ _ _ _ _ _ _ _ _ hkin hD heff hR hden⟩


/-! ### multicomponent models never read the binary lookup fields -/

/-- overwrite the three binary-lookup attributes (`_lookupTemperature`, `_lookupXEq`) -/
def setLook (L : α × List (List α) × List (List α)) (s : St α) : St α :=
  { s with lookT := L.1, lookEqA := L.2.1, lookEqB := L.2.2 }

@[simp] theorem setLook_ph (L : α × List (List α) × List (List α)) (s : St α) : (setLook L s).ph = s.ph := rfl
@[simp] theorem setLook_hist (L : α × List (List α) × List (List α)) (s : St α) : (setLook L s).hist = s.hist := rfl

theorem growthRate_setLook (c : Cfg α) (hb : c.binary = false) (L : α × List (List α) × List (List α)) (s : St α)
    (a : EvalAns α) (y : Slice α) :
    growthRate c (setLook L s) a y = (setLook L (growthRate c s a y).1, (growthRate c s a y).2) := by
  unfold growthRate
  simp only [hb, Bool.false_eq_true, if_false]
  rfl

theorem nucleation_setLook (c : Cfg α) (L : α × List (List α) × List (List α)) (s : St α) (t : α) (x : List (List α))
    (a : EvalAns α) (y : Slice α) : nucleation c (setLook L s) t x a y = nucleation c s t x a y :=
  nucleation_congr c _ _ t x a y rfl rfl

theorem depEval_setLook (c : Cfg α) (hb : c.binary = false) (L : α × List (List α) × List (List α)) (s : St α) (t : α)
    (x : List (List α)) (a : EvalAns α) (y : Slice α) :
    depEval c (setLook L s) t x a y = (setLook L (depEval c s t x a y).1, (depEval c s t x a y).2) := by
  unfold depEval
  simp only
  rw [nucleation_setLook]
  have : KWNFull.massBalance c (setLook L s) x a { y with time := t, temp := a.T } =
      KWNFull.massBalance c s x a { y with time := t, temp := a.T } := rfl
  rw [this, growthRate_setLook c hb]

theorem afterAdjust_setLook (c : Cfg α) (hb : c.binary = false) (L : α × List (List α) × List (List α)) (s : St α) (p : Nat)
    (ps : PhaseSt α) (g2 : Grid.State α) (change : Bool) (added : Option Nat) (u : UpdAns α) :
    afterAdjust c (setLook L s) p ps g2 change added u = setLook L (afterAdjust c s p ps g2 change added u) := by
  unfold afterAdjust
  simp only [hb, Bool.false_eq_true, if_false]
  split
  · let ps2 : PhaseSt α := { ps with grid := g2 }
    let ps3 : PhaseSt α := { ps2 with growth := zerosL g2.bounds.length }
    let ps4 : PhaseSt α := { ps3 with
                               xaT := List.replicate c.nElem (zerosL (g2.bins + 1)),
                               xbT := List.replicate c.nElem (zerosL (g2.bins + 1)) }
    let S4 : St α := { s with ph := setPh (setPh (setPh s.ph p ps2) p ps3) p ps4 }
    have := growthRate_setLook c hb L S4 u.regrow (s.cur c.nElem)
    exact congrArg Prod.fst this
  · rfl

theorem updatePh_setLook (c : Cfg α) (hb : c.binary = false) (L : α × List (List α) × List (List α)) (s : St α) (t : α)
    (p : Nat) (xp : List α) (u : UpdAns α) :
    updatePh c (setLook L s) t p xp u = (updatePh c s t p xp u).map (setLook L) := by
  unfold updatePh
  simp only [setLook_ph]
  have hcur : (setLook L s).cur c.nElem = s.cur c.nElem := rfl
  rw [hcur]
  cases s.ph[p]? with
  | none => rfl
  | some ps =>
    simp only
    split
    · rfl
    · split
      · rfl
      · cases Grid.update ps.grid t xp with
        | none => rfl
        | some g1 =>
          simp only
          cases Grid.adjust g1 (ps.growth.all (fun v => decide (v < 0))) with
          | none => rfl
          | some r =>
            obtain ⟨g2, change, added⟩ := r
            simp only
            rw [afterAdjust_setLook c hb]
            simp only [setLook_ph]
            cases (afterAdjust c s p ps g2 change added u).ph[p]? with
            | none => rfl
            | some psF => rfl

theorem updateAll_setLook (c : Cfg α) (hb : c.binary = false) (L : α × List (List α) × List (List α)) (t : α) :
    ∀ (xs : List (List α)) (s : St α) (p : Nat) (us : List (UpdAns α)),
      updateAll c t (setLook L s) p xs us = (updateAll c t s p xs us).map (setLook L)
  | [], s, p, us => by simp [updateAll]
  | xp :: xs, s, p, us => by
    simp only [updateAll]
    rw [updatePh_setLook c hb]
    cases updatePh c s t p xp (us.headD { table := [], xaNew := [], xbNew := [], regrow := { T := 0, ph := [], D := 0, table := [] } }) with
    | none => rfl
    | some s' => simp only [Option.map_some]; exact updateAll_setLook c hb L t xs s' (p+1) us.tail

/-- everything the solver loop computes BEFORE the evaluations reads the state through the phases and the rows only -/
theorem entryX_setLook (c : Cfg α) (L : α × List (List α) × List (List α)) (s : St α) : entryX c (setLook L s) = entryX c s := rfl
theorem acceptedDt_setLook (c : Cfg α) (L : α × List (List α) × List (List α)) (s : St α) (tf dtminS dtmaxS : α) :
    acceptedDt c (setLook L s) tf dtminS dtmaxS = acceptedDt c s tf dtminS dtmaxS := rfl
theorem proposedDt_setLook (c : Cfg α) (L : α × List (List α) × List (List α)) (s : St α) (tf : α) :
    proposedDt c (setLook L s) tf = proposedDt c s tf := rfl
theorem stageX_setLook (c : Cfg α) (L L' : α × List (List α) × List (List α)) (s sF : St α) (x : List (List α)) (y : Slice α)
    (dt : α) : stageX c (setLook L s) (setLook L' sF) x y dt = stageX c s sF x y dt := rfl
theorem processAll_setLook (c : Cfg α) (L : α × List (List α) × List (List α)) (s : St α) (x : List (List α)) :
    processAll c (setLook L s) x = processAll c s x := rfl

theorem finishStep_setLook (c : Cfg α) (hb : c.binary = false) (L : α × List (List α) × List (List α)) (e : St α × Slice α)
    (t' : α) (xP : List (List α)) (upd : List (UpdAns α)) :
    finishStep c (setLook L e.1, e.2) t' xP upd = (finishStep c e t' xP upd).map (setLook L) := by
  unfold finishStep
  exact updateAll_setLook c hb L t' xP { e.1 with hist := e.2 :: e.1.hist } 0 upd

/-- the step output with the lookup attributes of its state overwritten -/
def outLook (L : α × List (List α) × List (List α)) (o : StepOut α) : StepOut α := { o with st := setLook L o.st }

theorem eulerStep_setLook (c : Cfg α) (hb : c.binary = false) (L : α × List (List α) × List (List α)) (s : St α)
    (tf dtminS dtmaxS : α) (aPost : EvalAns α) (upd : List (UpdAns α)) :
    eulerStep c (setLook L s) tf dtminS dtmaxS aPost upd = (eulerStep c s tf dtminS dtmaxS aPost upd).map (outLook L) := by
  have hev : evaluated c (setLook L s) tf dtminS dtmaxS aPost =
      (setLook L (evaluated c s tf dtminS dtmaxS aPost).1, (evaluated c s tf dtminS dtmaxS aPost).2) := by
    unfold evaluated
    exact depEval_setLook c hb L s _ _ aPost _
  have hadv : ∀ dt, advanced c (setLook L s) dt = advanced c s dt := fun _ => rfl
  have hcur : (setLook L s).cur c.nElem = s.cur c.nElem := rfl
  unfold eulerStep
  simp only
  rw [hev, finishStep_setLook c hb L (evaluated c s tf dtminS dtmaxS aPost)]
  simp only [acceptedDt_setLook, proposedDt_setLook, processAll_setLook, hadv, hcur]
  cases finishStep c (evaluated c s tf dtminS dtmaxS aPost) ((s.cur c.nElem).time + acceptedDt c s tf dtminS dtmaxS)
      (processAll c s (advanced c s (acceptedDt c s tf dtminS dtmaxS))) upd with
  | none => rfl
  | some sD => rfl

theorem rk4Step_setLook (c : Cfg α) (hb : c.binary = false) (L : α × List (List α) × List (List α)) (s : St α)
    (tf dtminS dtmaxS : α) (a2 a3 a4 aPost : EvalAns α) (upd : List (UpdAns α)) :
    rk4Step c (setLook L s) tf dtminS dtmaxS a2 a3 a4 aPost upd =
      (rk4Step c s tf dtminS dtmaxS a2 a3 a4 aPost upd).map (outLook L) := by
  -- the three intermediate evaluations and the final one, each commuting with `setLook`
  have hcur : (setLook L s).cur c.nElem = s.cur c.nElem := rfl
  have hevals : ∀ dt, rk4Evals c (setLook L s) dt a2 a3 a4 =
      { s2 := (setLook L (rk4Evals c s dt a2 a3 a4).s2.1, (rk4Evals c s dt a2 a3 a4).s2.2),
        s3 := (setLook L (rk4Evals c s dt a2 a3 a4).s3.1, (rk4Evals c s dt a2 a3 a4).s3.2),
        s4 := (setLook L (rk4Evals c s dt a2 a3 a4).s4.1, (rk4Evals c s dt a2 a3 a4).s4.2),
        xNew := (rk4Evals c s dt a2 a3 a4).xNew } := by
    intro dt
    unfold rk4Evals
    simp only [hcur, entryX_setLook, stageX_setLook, processAll_setLook, depEval_setLook c hb]
  have hpost : rk4Post c (setLook L s) tf dtminS dtmaxS a2 a3 a4 aPost =
      (setLook L (rk4Post c s tf dtminS dtmaxS a2 a3 a4 aPost).1, (rk4Post c s tf dtminS dtmaxS a2 a3 a4 aPost).2) := by
    unfold rk4Post
    simp only [acceptedDt_setLook, hcur, hevals, processAll_setLook]
    exact depEval_setLook c hb L _ _ _ aPost _
  unfold rk4Step
  simp only [acceptedDt_setLook, proposedDt_setLook, hcur, hevals, processAll_setLook]
  rw [hpost, finishStep_setLook c hb L (rk4Post c s tf dtminS dtmaxS a2 a3 a4 aPost)]
  cases finishStep c (rk4Post c s tf dtminS dtmaxS a2 a3 a4 aPost) ((s.cur c.nElem).time + acceptedDt c s tf dtminS dtmaxS)
      (processAll c (rk4Evals c s (acceptedDt c s tf dtminS dtmaxS) a2 a3 a4).s4.1
        (rk4Evals c s (acceptedDt c s tf dtminS dtmaxS) a2 a3 a4).xNew) upd with
  | none => rfl
  | some sD => rfl

theorem anyStep_setLook (c : Cfg α) (hb : c.binary = false) (L : α × List (List α) × List (List α)) (s : St α)
    (tf dtminS dtmaxS : α) (au : StepAns α) :
    anyStep c (setLook L s) tf dtminS dtmaxS au = (anyStep c s tf dtminS dtmaxS au).map (outLook L) := by
  cases au with
  | euler a u => exact eulerStep_setLook c hb L s tf dtminS dtmaxS a u
  | rk4 a2 a3 a4 a u => exact rk4Step_setLook c hb L s tf dtminS dtmaxS a2 a3 a4 a u

/-- **multicomponent runs never read the binary lookup attributes**: overwriting them before a run changes nothing but those
attributes in the result — every recorded row, grid, table, growth field and the carried step limit are the same -/
theorem runSteps_setLook (c : Cfg α) (hb : c.binary = false) (L : α × List (List α) × List (List α)) (tf dtminS : α) :
    ∀ (steps : List (StepAns α)) (s : St α) (m : α),
      runSteps c tf dtminS (setLook L s) m steps = (runSteps c tf dtminS s m steps).map (fun r => (setLook L r.1, r.2))
  | [], s, m => by simp [runSteps]
  | au :: rest, s, m => by
    have hcur : (setLook L s).cur c.nElem = s.cur c.nElem := rfl
    have hdm : dtmaxNow c (setLook L s) tf m = dtmaxNow c s tf m := rfl
    simp only [runSteps, hcur, hdm]
    split
    · rw [anyStep_setLook c hb]
      cases anyStep c s tf dtminS m au with
      | none => rfl
      | some o =>
        simp only [Option.map_some, outLook]
        exact runSteps_setLook c hb L tf dtminS rest o.st _
    · rfl

/-- the three binary-lookup attributes of a state -/
def lookOf (s : St α) : α × List (List α) × List (List α) := (s.lookT, s.lookEqA, s.lookEqB)

theorem setLook_lookOf (s t : St α) (h1 : s.ph = t.ph) (h2 : s.hist = t.hist) : s = setLook (lookOf s) t := by
  cases s; cases t; simp_all [setLook, lookOf]

/-- the row `setup()` writes the equilibrium compositions into (multicomponent branch) -/
def setupRowM (c : Cfg α) (s : St α) (a : EvalAns α) (eqMulti : List (Option (List α × List α))) : Slice α :=
  let row1 : Slice α := { s.cur c.nElem with comp := c.x0, temp := a.T }
  { row1 with ph := row1.ph.mapIdx (fun p yp => match eqMulti.getD p none with
                                                 | some (ea, eb) => { yp with xEqA := ea, xEqB := eb }
                                                 | none => yp) }

/-- **`reset()` forgets the past (multicomponent models)**: after `reset(); setup()` two models configured alike are in the same
state EXCEPT for the three binary-lookup attributes, which `reset` does not touch and a multicomponent model never reads -/
theorem reset_forgets_multi_setup (c : Cfg α) (sA sB : St α) (a : EvalAns α) (eq : List (Option (List α × List α)))
    (hb : c.binary = false)
    (hcfg : List.Forall₂ (fun p q : PhaseSt α => GridCfgEq p.grid q.grid) sA.ph sB.ph) :
    setupState c (resetState c sA) a eq = setLook (lookOf sA) (setupState c (resetState c sB) a eq) := by
  have hR := resetState_strip c sA sB hcfg
  have hH : (resetState c sA).hist = (resetState c sB).hist := rfl
  have hcurEq : (resetState c sA).cur c.nElem = (resetState c sB).cur c.nElem := rfl
  have h0 : (setupS0 c (resetState c sA) a).ph.map stripT = (setupS0 c (resetState c sB) a).ph.map stripT := by
    have e : ∀ l : List (PhaseSt α), (l.map (fun ps => { ps with grid := Grid.reset ps.grid true })).map stripT =
        (l.map stripT).map (fun ps => { ps with grid := Grid.reset ps.grid true }) := by
      intro l; simp only [List.map_map]; rfl
    show ((resetState c sA).ph.map _).map stripT = ((resetState c sB).ph.map _).map stripT
    rw [e, e, hR]
  have hpre1 : ∀ s : St α, (setupPre c s a eq).1 =
      { setupS0 c s a with ph := (setupS0 c s a).ph.map (fun ps =>
          { ps with xaT := List.replicate c.nElem (zerosL (ps.grid.bins + 1)),
                    xbT := List.replicate c.nElem (zerosL (ps.grid.bins + 1)) }) } := by
    intro s; unfold setupPre setupS0; simp only [hb, Bool.false_eq_true, if_false]
  have hpre2 : ∀ s : St α, (setupPre c s a eq).2 = setupRowM c s a eq := by
    intro s; unfold setupPre setupRowM; simp only [hb, Bool.false_eq_true, if_false]
  have hrow : (setupPre c (resetState c sA) a eq).2 = (setupPre c (resetState c sB) a eq).2 := by
    rw [hpre2, hpre2]; unfold setupRowM; rw [hcurEq]
  have hph : (setupPre c (resetState c sA) a eq).1.ph.map stripG = (setupPre c (resetState c sB) a eq).1.ph.map stripG := by
    rw [hpre1, hpre1]
    simp only [List.map_map]
    exact map_strip_congr _ stripT (fun _ => rfl) _ _ h0
  have hlook : lookOf (setupPre c (resetState c sA) a eq).1 = lookOf sA := by rw [hpre1]; rfl
  rw [setupState_eq, setupState_eq]
  simp only
  generalize setupPre c (resetState c sA) a eq = pA at hrow hph hlook ⊢
  generalize setupPre c (resetState c sB) a eq = pB at hrow hph ⊢
  have hpsd : pA.1.ph.map (fun ps => ps.grid.psd) = pB.1.ph.map (fun ps => ps.grid.psd) :=
    map_strip_congr _ stripG (fun _ => rfl) _ _ hph
  have hy : nucleation c { pA.1 with hist := pA.2 :: (resetState c sA).hist.tail } ((resetState c sA).cur c.nElem).time
        (pA.1.ph.map (fun ps => ps.grid.psd)) a pA.2 =
      nucleation c { pB.1 with hist := pB.2 :: (resetState c sB).hist.tail } ((resetState c sB).cur c.nElem).time
        (pB.1.ph.map (fun ps => ps.grid.psd)) a pB.2 := by
    rw [hpsd, hcurEq, hrow]
    exact nucleation_congr c _ _ _ _ a _ (by show pB.2 :: _ = pB.2 :: _; rw [hH]) hph
  have hs2 : ({ pA.1 with
                  ph := pA.1.ph.map (fun ps => { ps with growth := zerosL (ps.grid.bins + 1) }),
                  hist := pA.2 :: (resetState c sA).hist.tail } : St α) =
             setLook (lookOf sA) { pB.1 with
                  ph := pB.1.ph.map (fun ps => { ps with growth := zerosL (ps.grid.bins + 1) }),
                  hist := pB.2 :: (resetState c sB).hist.tail } := by
    rw [← hlook]
    apply setLook_lookOf
    · exact map_strip_congr _ stripG (fun _ => rfl) _ _ hph
    · show pA.2 :: _ = pB.2 :: _; rw [hrow, hH]
  rw [hy, hs2, growthRate_setLook c hb, hH]
  rfl

/-- … and so is every later run -/
theorem reset_forgets_multi (c : Cfg α) (sA sB : St α) (a : EvalAns α) (eq : List (Option (List α × List α)))
    (tf dtminS dtmaxS : α) (steps : List (StepAns α)) (hb : c.binary = false)
    (hcfg : List.Forall₂ (fun p q : PhaseSt α => GridCfgEq p.grid q.grid) sA.ph sB.ph) :
    runFromSetup c (resetState c sA) a eq tf dtminS dtmaxS steps =
      (runFromSetup c (resetState c sB) a eq tf dtminS dtmaxS steps).map (fun r => (setLook (lookOf sA) r.1, r.2)) := by
  unfold runFromSetup
  rw [reset_forgets_multi_setup c sA sB a eq hb hcfg]
  exact runSteps_setLook c hb (lookOf sA) tf dtminS steps _ dtmaxS

/-! ### C02's budget clause on the composed step: the number density changes by nucleation and through the two ends only

`advanceStage` is `X_old + correctdXdt·dt` of one phase.  Interior exchange telescopes away, so the total number after the
update is the total before plus (nucleation rate + what crosses the two ends) × dt — and with non-negative populations and a
consistent grid the end terms can only REMOVE particles, whatever the growth field, the limiter and the step are.  Hence with
zero nucleation rate the density handed to `postProcess` never exceeds the one the step started from. -/

open Finset in
theorem advanceStage_sum (ps : PhaseSt α) (xF xL xB : List α) (yp : PSlice α) (dt : α)
    (hlen : xB.length = ps.grid.bins) (hk : nucIdxOf ps yp.Rnuc < ps.grid.bins) :
    (advanceStage ps xF xL xB yp dt).sum =
      xB.sum + (PBM.correctedFlux ps.grid.bins dt (fn xL) (faceFlux ps xF) 0
                - PBM.correctedFlux ps.grid.bins dt (fn xL) (faceFlux ps xF) ps.grid.bins + yp.nucRate) * dt := by
  unfold advanceStage
  simp only
  rw [C02.sum_map_range, Finset.sum_add_distrib, ← Finset.sum_mul, hlen,
    C07.budget ps.grid.bins _ (nucIdxOf ps yp.Rnuc) hk yp.nucRate, C02.list_sum_eq_range xB, hlen]
  rfl

theorem faceFlux_zero_nonpos (ps : PhaseSt α) (x : List α) (hx : ∀ v ∈ x, 0 ≤ v)
    (hw : 0 ≤ fn (Grid.widths ps.grid.bounds) 0) : faceFlux ps x 0 ≤ 0 := by
  unfold faceFlux PBM.netFlux
  simp only [show ¬ (1 ≤ 0) by omega, false_and, if_false, add_zero]
  split
  · next h =>
    exact div_nonpos_of_nonpos_of_nonneg (mul_nonpos_of_nonpos_of_nonneg (not_lt.mp h.2) (fn_nonneg x hx 0)) hw
  · exact le_refl _

theorem faceFlux_last_nonneg (ps : PhaseSt α) (x : List α) (hx : ∀ v ∈ x, 0 ≤ v)
    (hw : 0 ≤ fn (Grid.widths ps.grid.bounds) (ps.grid.bins - 1)) : 0 ≤ faceFlux ps x ps.grid.bins := by
  unfold faceFlux PBM.netFlux
  simp only [Nat.lt_irrefl, false_and, if_false, zero_add]
  split
  · next h => exact div_nonneg (mul_nonneg h.2.le (fn_nonneg x hx _)) hw
  · exact le_refl _

/-- every class width of a consistent grid is non-negative (positive inside the grid, 0 read beyond it) -/
theorem widths_fn_nonneg (g : Grid.State α) (h : GridGood g) (i : Nat) : 0 ≤ fn (Grid.widths g.bounds) i := by
  unfold fn
  rw [List.getD_eq_getElem?_getD]
  cases hi : (Grid.widths g.bounds)[i]? with
  | none => simp
  | some w =>
    simp only [Option.getD_some]
    have hinv := C08.inv_spec g h.1
    have hmem : w ∈ Grid.widths g.bounds := List.mem_of_getElem? hi
    unfold Grid.widths at hmem
    rw [List.mem_iff_getElem?] at hmem
    obtain ⟨j, hj⟩ := hmem
    rw [List.getElem?_zipWith] at hj
    cases ha : g.bounds[j]? with
    | none => simp [ha] at hj
    | some a =>
      cases hb : g.bounds.tail[j]? with
      | none => simp [ha, hb] at hj
      | some b =>
        simp only [ha, hb, Option.map_some, Option.some.injEq] at hj
        have hb' : g.bounds[j+1]? = some b := by rw [← List.getElem?_tail]; exact hb
        have := hinv.2.2.2.2.2.2.1 j (j+1) a b (by omega) ha hb'
        rw [← hj]; linarith

/-- **the budget of one stage**: total after ≤ total before + nucleation rate × step, for every growth field, limiter
reference and step — the ends only remove -/
theorem advanceStage_sum_le (ps : PhaseSt α) (xF xL xB : List α) (yp : PSlice α) (dt : α) (hg : GridGood ps.grid)
    (hdt : 0 < dt) (hF : ∀ v ∈ xF, 0 ≤ v) (hL : ∀ v ∈ xL, 0 ≤ v)
    (hlen : xB.length = ps.grid.bins) (hk : nucIdxOf ps yp.Rnuc < ps.grid.bins) :
    (advanceStage ps xF xL xB yp dt).sum ≤ xB.sum + yp.nucRate * dt := by
  rw [advanceStage_sum ps xF xL xB yp dt hlen hk]
  have h0 := C07.corrected_zero_nonpos ps.grid.bins dt (fn xL) (faceFlux ps xF) hdt (fn_nonneg xL hL)
    (faceFlux_zero_nonpos ps xF hF (widths_fn_nonneg ps.grid hg 0))
  have hn := C07.corrected_last_nonneg ps.grid.bins dt (fn xL) (faceFlux ps xF) hdt (fn_nonneg xL hL)
    (faceFlux_last_nonneg ps xF hF (widths_fn_nonneg ps.grid hg _))
  nlinarith [mul_nonneg hn hdt.le, mul_nonpos_of_nonpos_of_nonneg h0 hdt.le]

/-- with no nucleation the number of particles handed on never exceeds the number the stage started from -/
theorem advanceStage_no_nucleation (ps : PhaseSt α) (xF xL xB : List α) (yp : PSlice α) (dt : α) (hg : GridGood ps.grid)
    (hdt : 0 < dt) (hF : ∀ v ∈ xF, 0 ≤ v) (hL : ∀ v ∈ xL, 0 ≤ v)
    (hlen : xB.length = ps.grid.bins) (hk : nucIdxOf ps yp.Rnuc < ps.grid.bins) (hr : yp.nucRate = 0) :
    (advanceStage ps xF xL xB yp dt).sum ≤ xB.sum := by
  have := advanceStage_sum_le ps xF xL xB yp dt hg hdt hF hL hlen hk
  rw [hr, zero_mul, add_zero] at this
  exact this


theorem argmaxFirst_lt (p : Nat → Bool) (len : Nat) (hl : 0 < len) : PBM.argmaxFirst p len < len := by
  unfold PBM.argmaxFirst
  split
  · next i hi =>
    have := List.mem_of_find?_eq_some hi
    rw [List.mem_range] at this
    exact this
  · exact hl

/-- the class the code puts the nuclei into is a class of the grid, for every radius -/
theorem nucIndex_lt (n : Nat) (b : Nat → α) (r : α) (hn : 1 ≤ n) : PBM.nucIndex n b r < n := by
  unfold PBM.nucIndex
  split
  · omega
  · simp only
    have hle := argmaxFirst_lt (fun i => decide (r < b i)) (n+1) (by omega)
    generalize PBM.argmaxFirst (fun i => decide (r < b i)) (n+1) = a at hle ⊢
    split <;> omega

/-- **C02's budget clause for an accepted Euler step of the composed model**: for every phase, the number of particles in the
state handed to `postProcess` is at most the number in the (processed) state the step started from plus the recorded nucleation
rate times the accepted step — for every configuration, growth field and backend; with zero nucleation rate it never increases -/
theorem eulerStep_density_budget (c : Cfg α) (s : St α) (tf dtminS dtmaxS : α) (aPost : EvalAns α) (upd : List (UpdAns α))
    (o : StepOut α) (h : eulerStep c s tf dtminS dtmaxS aPost upd = some o) (hs : StReady c s) (hdt : 0 < o.dt)
    (i : Nat) (ps : PhaseSt α) (hi : s.ph[i]? = some ps) :
    ∃ xN xE yp, o.xNew[i]? = some xN ∧ (entryX c s)[i]? = some xE ∧ (s.cur c.nElem).ph[i]? = some yp ∧
      xN.sum ≤ xE.sum + yp.nucRate * o.dt := by
  obtain ⟨hc, hcur, hq⟩ := hs
  have hgood : GridGood ps.grid := (hq ps (List.mem_of_getElem? hi)).1
  have hinv := C08.inv_spec ps.grid hgood.1
  have hil : i < s.ph.length := (List.getElem?_eq_some_iff.mp hi).1
  have hY : (s.cur c.nElem).ph[i]? = some (s.cur c.nElem).ph[i] := List.getElem?_eq_getElem (by rw [hcur]; exact hil)
  have hE := entryX_getElem c s i ps hi
  -- the step output
  have ho : o.xNew = advanced c s (acceptedDt c s tf dtminS dtmaxS) ∧ o.dt = acceptedDt c s tf dtminS dtmaxS := by
    unfold eulerStep at h
    simp only at h
    split at h
    · simp at h
    · simp only [Option.some.injEq] at h; subst h; exact ⟨rfl, rfl⟩
  set xE := PSD.processX ps.rdfIdx c.minRadius ps.grid.psd ps.grid.size with hxE
  have hxEnn : ∀ v ∈ xE, 0 ≤ v := processX_nonneg _ _ _ _ hinv.2.2.2.2.2.2.2.2
  have hxElen : xE.length = ps.grid.bins := by
    rw [hxE, processX_len, hinv.2.1, hinv.2.2.2.1]; simp
  refine ⟨advanceStage ps xE ps.grid.psd xE (s.cur c.nElem).ph[i] o.dt, xE, (s.cur c.nElem).ph[i], ?_, hE, hY, ?_⟩
  · rw [ho.1, ho.2]
    simp only [advanced, stageX, List.getElem?_map, zip3_getElem?, hi, hE, hY, Option.map_some]
  · exact advanceStage_sum_le ps xE ps.grid.psd xE _ o.dt hgood hdt hxEnn hinv.2.2.2.2.2.2.2.2 hxElen
      (nucIndex_lt _ _ _ hinv.1)


/-! ### the same budget for any stage and for the Runge-Kutta step -/

/-- **the budget of one `_updateX` of any stage, for every phase**: from any stage state `sF` (same grids as `s`) and any
non-negative stage vector `x`, the total handed on is at most the total of the processed old state plus the stage's nucleation
rate times the stage's step -/
theorem stageX_budget (c : Cfg α) (s sF : St α) (x : List (List α)) (y : Slice α) (dt : α) (hs : StReady c s)
    (hst : StageOK s sF x) (hy : y.ph.length = s.ph.length) (hdt : 0 < dt) (hx : ∀ xi ∈ x, ∀ v ∈ xi, 0 ≤ v)
    (i : Nat) (ps : PhaseSt α) (hi : s.ph[i]? = some ps) :
    ∃ xN xE yp, (stageX c s sF x y dt)[i]? = some xN ∧ (entryX c s)[i]? = some xE ∧ y.ph[i]? = some yp ∧
      xN.sum ≤ xE.sum + yp.nucRate * dt := by
  obtain ⟨hc, hcur, hq⟩ := hs
  obtain ⟨hl, hh, hgr, hxl, hxi⟩ := hst
  have hgood : GridGood ps.grid := (hq ps (List.mem_of_getElem? hi)).1
  have hinv := C08.inv_spec ps.grid hgood.1
  have hil : i < s.ph.length := (List.getElem?_eq_some_iff.mp hi).1
  have hF : sF.ph[i]? = some sF.ph[i] := List.getElem?_eq_getElem (by rw [hl]; exact hil)
  have hX : x[i]? = some x[i] := List.getElem?_eq_getElem (by rw [hxl]; exact hil)
  have hY : y.ph[i]? = some y.ph[i] := List.getElem?_eq_getElem (by rw [hy]; exact hil)
  have hE := entryX_getElem c s i ps hi
  obtain ⟨ps', hps', hgrid⟩ := hgr i _ hF
  have : ps' = ps := by rw [hi] at hps'; exact (Option.some.inj hps').symm
  subst this
  set xE := PSD.processX ps'.rdfIdx c.minRadius ps'.grid.psd ps'.grid.size with hxE
  have hxElen : xE.length = ps'.grid.bins := by
    rw [hxE, processX_len, hinv.2.1, hinv.2.2.2.1]; simp
  refine ⟨advanceStage sF.ph[i] x[i] ps'.grid.psd xE y.ph[i] dt, xE, y.ph[i], ?_, hE, hY, ?_⟩
  · simp only [stageX, List.getElem?_map, zip3_getElem?, hi, hE, hY, hF, hX, Option.map_some]
  · exact advanceStage_sum_le sF.ph[i] x[i] ps'.grid.psd xE _ dt (by rw [hgrid]; exact hgood) hdt
      (hx _ (List.mem_of_getElem? hX)) hinv.2.2.2.2.2.2.2.2 (by rw [hgrid]; exact hxElen)
      (by unfold nucIdxOf; rw [hgrid]; exact nucIndex_lt _ _ _ hinv.1)

/-- the processed stage-3 vector of a Runge-Kutta step: what the fourth `getdXdt` is evaluated on and whose fluxes the accepted
state is built from -/
def rk4X3 (c : Cfg α) (s : St α) (dt : α) (a2 a3 : EvalAns α) : List (List α) :=
  let cur := s.cur c.nElem
  let t := cur.time
  let xk1P := processAll c s (stageX c s s (entryX c s) cur (dt / 2))
  let e2 := depEval c s (t + dt / 2) xk1P a2 cur
  let xk2P := processAll c e2.1 (stageX c s e2.1 xk1P e2.2 (dt / 2))
  let e3 := depEval c e2.1 (t + dt / 2) xk2P a3 e2.2
  processAll c e3.1 (stageX c s e3.1 xk2P e3.2 dt)

omit [IsStrictOrderedRing α] in
theorem rk4Evals_xNew (c : Cfg α) (s : St α) (dt : α) (a2 a3 a4 : EvalAns α) :
    (rk4Evals c s dt a2 a3 a4).xNew =
      stageX c s (rk4Evals c s dt a2 a3 a4).s4.1 (rk4X3 c s dt a2 a3) (rk4Evals c s dt a2 a3 a4).s4.2 dt := rfl

/-- **C02's budget clause for an accepted Runge-Kutta step — partial**: the same bound as for the Euler step, with the
nucleation rate of the FOURTH evaluation (the one whose terms `_updateX` uses), under the hypothesis that the processed stage-3
vector is non-negative.  What is missing for the full statement: the intermediate Runge-Kutta vectors are `X0 + limited flux of
stage k × step` with the limiter referring to the STORED distribution, not to the vector the fluxes were computed from, so their
non-negativity is not a consequence of the limiter (it is for the Euler step, `advanceStage_nonneg`).  The check run records the
processed vector and the nucleation rates of every evaluation of a Runge-Kutta step and evaluates hypothesis and conclusion on the
implementation's own numbers (oracle `budget`: counts `composed:rk4-budget-evaluated` / `…-hypothesis-not-met`). -/
theorem rk4Step_density_budget_partial (c : Cfg α) (s : St α) (tf dtminS dtmaxS : α) (a2 a3 a4 aPost : EvalAns α)
    (upd : List (UpdAns α)) (o : StepOut α) (h : rk4Step c s tf dtminS dtmaxS a2 a3 a4 aPost upd = some o)
    (hs : StReady c s) (h2 : AnsShaped c s.ph.length a2) (h3 : AnsShaped c s.ph.length a3)
    (h4 : AnsShaped c s.ph.length a4) (hdt : 0 < o.dt)
    (hx3 : ∀ xi ∈ rk4X3 c s o.dt a2 a3, ∀ v ∈ xi, 0 ≤ v)
    (i : Nat) (ps : PhaseSt α) (hi : s.ph[i]? = some ps) :
    ∃ xN xE yp, o.xNew[i]? = some xN ∧ (entryX c s)[i]? = some xE ∧
      (rk4Evals c s o.dt a2 a3 a4).s4.2.ph[i]? = some yp ∧ xN.sum ≤ xE.sum + yp.nucRate * o.dt := by
  have hc := hs.1
  have hcur := hs.2.1
  have hg : AllGood s.ph := fun ps hps => (hs.2.2 ps hps).1
  have ho : o.xNew = (rk4Evals c s (acceptedDt c s tf dtminS dtmaxS) a2 a3 a4).xNew ∧
      o.dt = acceptedDt c s tf dtminS dtmaxS := by
    unfold rk4Step at h
    simp only at h
    split at h
    · simp at h
    · simp only [Option.some.injEq] at h; subst h; exact ⟨rfl, rfl⟩
  rw [ho.1, ← ho.2, rk4Evals_xNew]
  set dt := o.dt with hdtdef
  set cur := s.cur c.nElem with hcu
  have k1 := stageOK_process c s s _ hg (stageOK_stageX c s s (entryX c s) cur (dt / 2) hg hcur (stageOK_entry c s hg))
  obtain ⟨e2ok, e2y⟩ := stageOK_eval c s s _ (cur.time + dt / 2) a2 cur hc h2 k1
  have k2 := stageOK_process c s _ _ hg (stageOK_stageX c s _ _ _ (dt / 2) hg e2y e2ok)
  obtain ⟨e3ok, e3y⟩ := stageOK_eval c s _ _ (cur.time + dt / 2) a3 _ hc h3 k2
  have k3 := stageOK_process c s _ _ hg (stageOK_stageX c s _ _ _ dt hg e3y e3ok)
  obtain ⟨e4ok, e4y⟩ := stageOK_eval c s _ _ (cur.time + dt) a4 _ hc h4 k3
  have e4ok' : StageOK s (rk4Evals c s dt a2 a3 a4).s4.1 (rk4X3 c s dt a2 a3) := e4ok
  have e4y' : (rk4Evals c s dt a2 a3 a4).s4.2.ph.length = s.ph.length := e4y
  exact stageX_budget c s _ _ _ dt hs e4ok' e4y' hdt hx3 i ps hi


/-! ### non-vacuity

`GridGood` is satisfiable (the grid a `PopulationBalanceModel` is constructed with).  The hypothesis `… = some o` of the step
theorems says "the implementation does not raise in this step"; that it is met by real steps is what the refinement run shows on
every check run (thousands of accepted steps answered `val …`, never `raises`, by the compiled model); here the degenerate witness
of a model without precipitate phases, for which the equation reduces by computation. -/

namespace Example

def g0 : Grid.State ℚ := Grid.init (1 : ℚ) 20 2 1 4

example : GridGood g0 :=
  ⟨C08.inv_init (1 : ℚ) 20 2 1 4 (by decide) (by norm_num) (by norm_num [Grid.amax2]), by decide, by decide, by decide⟩

/-- the hypotheses of the totality theorems are satisfiable: the constructed grid is ready -/
example : GridReady g0 :=
  ⟨⟨C08.inv_init (1 : ℚ) 20 2 1 4 (by decide) (by norm_num) (by norm_num [Grid.amax2]), by decide, by decide, by decide⟩,
   by decide, by decide, by decide⟩

variable [Trans ℚ]

def cfg0 : Cfg ℚ :=
  { dt := { checkPSD := true, checkNuc := true, checkTemp := true, checkRcrit := true, checkVol := true, minNucRate := 1 / 100000,
            maxNucChange := 1 / 2, maxNonIsoDT := 1, maxRcritChange := 1 / 100, maxVolChange := 1 / 1000, dtScale := 1 / 1000,
            binRatio := 2 / 5 },
    sites := { bulkN0 := 1000, dislN0 := 1000, gbN0 := 1000, edgeN0 := 1000, cornerN0 := 1000, NA := 6, vmAlpha := 1 },
    phases := [], nElem := 1, binary := true, betaType := 1, isothermal := true, kB := 1, a0 := 1, theta := 2,
    minDens := 1 / 10000000000, minComp := 0, minRadius := 1 / 2, maxDissolution := 1 / 1000, maxTempChange := 1, x0 := [1 / 10],
    effEnabled := true, effOhm := [0, 1 / 2, 1], effVal := [1, 1 / 3, 0] }

def st0 : St ℚ :=
  { ph := [], lookT := 700, lookEqA := [], lookEqB := [], hist := [{ time := 0, temp := 700, comp := [1 / 10], ph := [] }] }

def ans0 : EvalAns ℚ := { T := 700, D := 1, table := [], ph := [] }

example : (eulerStep cfg0 st0 10 (1 / 100) 10 ans0 []).isSome = true := by
  simp [eulerStep, finishStep, updateAll, processAll, advanced, stageX, entryX, st0, zip3]

example : (rk4Step cfg0 st0 10 (1 / 100) 10 ans0 ans0 ans0 ans0 []).isSome = true := by
  simp [rk4Step, finishStep, updateAll, processAll, rk4Evals, stageX, entryX, st0, zip3]

/-! a constructed ONE-PHASE model meets the hypotheses of the run theorems (`StReady`, empty precipitate fields), so
`runFromSetup_total` and `runFromSetup_rowBal` speak about real histories: every run of this model, for every stream of
well-shaped backend answers, runs through and every recorded row balances -/

def pc1 : PhaseCfg ℚ :=
  { id := 0, site := .bulk, isGB := false, gamma := 1 / 10, gbE := 0, vmBeta := 1, areaFactor := 12, volumeFactor := 4,
    gbRemoval := 0, gbk := 1, rmin := 1 / 2, infinite := false, parents := [] }

def cfg1 : Cfg ℚ := { cfg0 with phases := [pc1] }

def st1 : St ℚ :=
  { ph := [{ grid := g0, xaT := [], xbT := [], growth := [], dissIdx := 0, rdfIdx := 0 }], lookT := 700, lookEqA := [],
    lookEqB := [], hist := [{ time := 0, temp := 700, comp := [1 / 10], ph := [PSlice.zero 1] }] }

theorem st1_ready : StReady cfg1 st1 := by
  refine ⟨rfl, rfl, ?_⟩
  intro ps hps
  simp only [st1, List.mem_singleton] at hps
  subst hps
  exact ⟨⟨C08.inv_init (1 : ℚ) 20 2 1 4 (by decide) (by norm_num) (by norm_num [Grid.amax2]), by decide, by decide, by decide⟩,
    by decide, by decide, by decide⟩

theorem st1_empty : ∀ yp ∈ (st1.cur cfg1.nElem).ph, yp.volFrac = 0 ∧ ∀ e, yp.fconc.getD e 0 = 0 := by
  intro yp hyp
  simp only [st1, St.cur, List.headD_cons, List.mem_singleton] at hyp
  subst hyp
  refine ⟨rfl, fun e => ?_⟩
  cases e <;> simp [PSlice.zero, zerosL]

/-- every history of the one-phase example model: it runs through, and every recorded row satisfies the solute balance -/
theorem example_runs (a0 : EvalAns ℚ) (eq : List (Option (List ℚ × List ℚ))) (tf dtminS dtmaxS : ℚ) (steps : List (StepAns ℚ))
    (ha : AnsShaped cfg1 1 a0) (hsh : ∀ au ∈ steps, StepShaped cfg1 1 au) :
    ∃ r, runFromSetup cfg1 st1 a0 eq tf dtminS dtmaxS steps = some r ∧ ∀ y ∈ r.1.hist, RowBal cfg1 y := by
  obtain ⟨r, hr⟩ := runFromSetup_total cfg1 st1 a0 eq tf dtminS dtmaxS steps st1_ready ha hsh
  refine ⟨r, hr, ?_⟩
  exact runFromSetup_rowBal cfg1 st1 a0 eq tf dtminS dtmaxS steps r.1 r.2 st1_ready ha hsh st1_empty
    (by intro y hy; simp [st1] at hy) hr

/-- and a well-shaped answer exists -/
example : AnsShaped cfg1 1 { T := 700, D := 1, table := [{ eqOK := true, eqA := 0, eqB := 1, xa := [], xb := [] }],
                             ph := [{ volDG := 0, thermoF := 1, d0 := 1, d1 := 1, tauNonIso := 0, arClass := [], kin := [],
                                      eff := [], multi := none }] } := ⟨rfl, fun _ => rfl⟩

/-! `reset_forgets`: its hypothesis is met by a grid with a genuinely different past (extended by three classes), and the
variant of `reset()` that was repaired (9231d6f: population balance models replaced by default ones) does NOT meet it -/

theorem add_cfgEq (g g' : Grid.State ℚ) (k : Nat) (h : Grid.add g k = some g') : GridCfgEq g' g := by
  unfold Grid.add at h
  split at h
  · simp only [Option.some.injEq] at h; subst h; exact ⟨rfl, rfl, rfl, rfl, rfl, rfl, rfl, rfl, rfl, rfl, rfl⟩
  · simp at h

example : ∃ g', Grid.add g0 3 = some g' ∧ g'.bins = 5 ∧ GridCfgEq g' g0 := by
  refine ⟨_, rfl, by decide, add_cfgEq g0 _ 3 rfl⟩

/-- the default population balance model (150 classes on [1e-10, 1e-9], limits 100/200; lengths in units of 1e-10 m) -/
def gDefault : Grid.State ℚ := Grid.init (1 : ℚ) 10 150 100 200

theorem unrepaired_reset_changes_configuration : ¬ GridCfgEq gDefault g0 := by
  intro h; exact absurd h.2.2.1 (by decide)

theorem unrepaired_reset_changes_grid : (Grid.reset gDefault true).bins ≠ (Grid.reset g0 true).bins := by decide

/-- the table hypothesis of `effOf_pos` / `growthBinaryPh_sign` is met by a table of the shape `setupInterpolation` builds -/
example : EffTableOK cfg0 ∧ cfg0.effOhm.getLast? = some 1 := by
  refine ⟨⟨rfl, ?_, ?_, by decide⟩, rfl⟩
  · show (0 : ℚ) < 1 ∧ (0 : ℚ) < 1 / 3 ∧ (0 : ℚ) ≤ 0
    norm_num
  · intro v hv
    simp only [cfg0, List.mem_cons, List.not_mem_nil, or_false] at hv
    rcases hv with rfl | rfl | rfl <;> norm_num

end Example

end KawinV.Props.KWNFull
