/-
C02 — reported precipitate statistics are moments of the size distribution; the number density
changes only by nucleation and by loss through the ends of the grid.
Theorems about KawinV.MB (mass balance), KawinV.PBM (transport) and KawinV.PSD (state → stored PSD).
-/
import KawinV.Model.PSDUpdate
import KawinV.Model.PBMGrid
import KawinV.Props.C07
import Mathlib.Tactic.Ring
import Mathlib.Tactic.Linarith
import Mathlib.Tactic.FieldSimp
import Mathlib.Algebra.Order.Field.Basic
import Mathlib.Algebra.BigOperators.Group.List.Basic
import Mathlib.Algebra.Order.BigOperators.Group.Finset
import Mathlib.Algebra.BigOperators.Ring.Finset

set_option linter.unusedSectionVars false
set_option linter.unusedVariables false
set_option linter.unusedSimpArgs false

namespace KawinV.Props.C02
open KawinV KawinV.MB KawinV.PBM KawinV.PSD Finset

variable {α : Type} [Field α] [LinearOrder α] [IsStrictOrderedRing α]

/-! ### reported statistics are moments of the state of that step -/

/-- **density / mean radius / fraction**: for a populated phase the reported number density is the
zeroth moment, the mean radius the first/zeroth moment ratio, the volume fraction the scaled third
moment capped at 1 (or the sticky 1). -/
theorem recorded_stats_are_moments (nElem : Nat) (minDens : α) (p : PhaseIn α)
    (hpop : ¬ moment 0 p.N p.R < minDens) :
    (phaseBalance nElem minDens p).dens = moment 0 p.N p.R ∧
    (phaseBalance nElem minDens p).ravg = moment 1 p.N p.R / moment 0 p.N p.R ∧
    (phaseBalance nElem minDens p).volFrac =
      (if isOne p.prevVolFrac then 1 else
        if p.volRatio * p.volumeFactor * moment 3 p.N p.R < 1
        then p.volRatio * p.volumeFactor * moment 3 p.N p.R else 1) := by
  unfold phaseBalance rawVolFrac
  simp [hpop]

/-- below the density floor the density is still the zeroth moment; radius and fraction are 0 -/
theorem recorded_stats_empty (nElem : Nat) (minDens : α) (p : PhaseIn α)
    (h : moment 0 p.N p.R < minDens) :
    (phaseBalance nElem minDens p).dens = moment 0 p.N p.R ∧
    (phaseBalance nElem minDens p).ravg = 0 ∧ (phaseBalance nElem minDens p).volFrac = 0 := by
  unfold phaseBalance; simp [h]

/-- the zeroth moment is the plain sum of the populations -/
theorem moment_zero_eq_sum (N R : List α) (h : N.length = R.length) : moment 0 N R = N.sum := by
  unfold moment
  induction N generalizing R with
  | nil => simp
  | cons n ns ih =>
    cases R with
    | nil => simp at h
    | cons r rs =>
      have := ih rs (by simpa using h)
      simp only [npow, mul_one] at this
      simp only [List.zipWith_cons_cons, List.sum_cons, npow, mul_one, this]

/-! ### stored PSD = truncation of the state -/

/-- **PSD ≥ 0**: whatever the state (even negative entries from an oversized step), the stored
distribution after `UpdatePBMEuler` is non-negative. -/
theorem trunc_nonneg (x : List α) : ∀ v ∈ trunc x, 0 ≤ v := by
  intro v hv
  unfold trunc at hv
  obtain ⟨a, _, rfl⟩ := List.mem_map.mp hv
  split
  · exact le_refl _
  · next h => exact le_trans zero_le_one (not_lt.mp h)

theorem trunc_length (x : List α) : (trunc x).length = x.length := by simp [trunc]

/-- **documented slack**: truncation removes less than one particle per class:
`0 ≤ Σx − Σ(trunc x) ≤ #classes` for a non-negative state. -/
theorem trunc_sum_bounds (x : List α) (hx : ∀ v ∈ x, 0 ≤ v) :
    (trunc x).sum ≤ x.sum ∧ x.sum - (trunc x).sum ≤ (x.length : α) := by
  induction x with
  | nil => simp [trunc]
  | cons a as ih =>
    have ha : 0 ≤ a := hx a (by simp)
    obtain ⟨h1, h2⟩ := ih (fun v hv => hx v (by simp [hv]))
    simp only [trunc, List.map_cons, List.sum_cons, List.length_cons, Nat.cast_succ] at *
    by_cases h : a < 1
    · simp only [h, if_true]
      constructor <;> linarith
    · simp only [h, if_false]
      constructor <;> linarith

theorem npow_nonneg (r : α) (hr : 0 ≤ r) (k : Nat) : 0 ≤ npow r k := by
  induction k with
  | zero => simp [npow]
  | succ k ihk =>
    cases k with
    | zero => simpa [npow] using hr
    | succ k => simp only [npow]; exact mul_nonneg ihk hr

theorem sum_map_range (f : Nat → α) (n : Nat) :
    ((List.range n).map f).sum = ∑ i ∈ range n, f i := by
  induction n with
  | zero => simp
  | succ n ih => rw [List.range_succ, List.map_append, List.sum_append, Finset.sum_range_succ, ih]; simp

theorem list_sum_eq_range (xs : List α) : xs.sum = ∑ i ∈ range xs.length, xs.getD i 0 := by
  rw [← sum_map_range]
  congr 1
  apply List.ext_getElem
  · simp
  · intro i h1 h2; simp [List.getD_eq_getElem?_getD, List.getElem?_eq_getElem h1]

/-- the same for any moment with non-negative class radii: truncation never increases a moment -/
theorem trunc_moment_le (k : Nat) (x R : List α) (hx : ∀ v ∈ x, 0 ≤ v) (hR : ∀ r ∈ R, 0 ≤ r) :
    moment k (trunc x) R ≤ moment k x R := by
  unfold moment trunc
  induction x generalizing R with
  | nil => simp
  | cons a as ih =>
    cases R with
    | nil => simp
    | cons r rs =>
      have ha : 0 ≤ a := hx a (by simp)
      have hr : 0 ≤ r := hR r (by simp)
      have hrk : 0 ≤ npow r k := npow_nonneg r hr k
      have := ih rs (fun v hv => hx v (by simp [hv])) (fun v hv => hR v (by simp [hv]))
      simp only [List.map_cons, List.zipWith_cons_cons, List.sum_cons]
      by_cases h : a < 1
      · simp only [h, if_true, zero_mul]
        have : 0 ≤ a * npow r k := mul_nonneg ha hrk
        linarith
      · simp only [h, if_false]; linarith

/-! ### the density budget of one accepted step -/

/-- **density budget**: after the solver's update with any face fluxes `nf` (the corrected fluxes of
the last derivative evaluation — Euler, and also what the RK4 glue ends up using), the total
number of particles changes by exactly `dt·(nf 0 − nf n + nucRate)`. -/
theorem density_step (n : Nat) (x nf : Nat → α) (k : Nat) (hk : k < n) (r dt : α) :
    ∑ i ∈ range n, eulerUpdate x (dXdt nf k r) dt i
      = ∑ i ∈ range n, x i + dt * (nf 0 - nf n + r) := by
  unfold eulerUpdate
  rw [sum_add_distrib, ← sum_mul, C07.budget n nf k hk r]
  ring

/-- **only nucleation adds**: with one-sided end fluxes (nothing enters through either end, C07)
the density grows by at most `nucRate·dt`; the rest of the change is loss through the smallest
class (dissolution) and through the top face. -/
theorem density_step_le (n : Nat) (x nf : Nat → α) (k : Nat) (hk : k < n) (r dt : α)
    (hdt : 0 ≤ dt) (h0 : nf 0 ≤ 0) (hn : 0 ≤ nf n) :
    ∑ i ∈ range n, eulerUpdate x (dXdt nf k r) dt i ≤ ∑ i ∈ range n, x i + r * dt := by
  rw [density_step n x nf k hk r dt]
  have : dt * (nf 0 - nf n) ≤ 0 := mul_nonpos_of_nonneg_of_nonpos hdt (by linarith)
  nlinarith

/-- with zero nucleation rate the density never increases in the transport step -/
theorem density_step_no_nucleation (n : Nat) (x nf : Nat → α) (k : Nat) (hk : k < n) (dt : α)
    (hdt : 0 ≤ dt) (h0 : nf 0 ≤ 0) (hn : 0 ≤ nf n) :
    ∑ i ∈ range n, eulerUpdate x (dXdt nf k 0) dt i ≤ ∑ i ∈ range n, x i := by
  simpa using density_step_le n x nf k hk 0 dt hdt h0 hn

/-- the budget for the model's own (uncorrected or corrected) PBM fluxes: instantiates the
hypotheses from C07 — `netFlux 0 ≤ 0 ≤ netFlux n` for a non-negative distribution. -/
theorem density_step_pbm (n : Nat) (x flux dR : Nat → α) (k : Nat) (hk : k < n) (r dt : α)
    (hdt : 0 < dt) (hx : ∀ i, 0 ≤ x i) (hdR : ∀ i, 0 < dR i) :
    ∑ i ∈ range n, eulerUpdate x (dXdt (correctedFlux n dt x (netFlux n flux x dR)) k r) dt i
      ≤ ∑ i ∈ range n, x i + r * dt := by
  apply density_step_le n x _ k hk r dt hdt.le
  · exact C07.corrected_zero_nonpos n dt x _ hdt hx (C07.netFlux_zero_nonpos n flux x dR hx hdR)
  · exact C07.corrected_last_nonneg n dt x _ hdt hx (C07.netFlux_last_nonneg n flux x dR hx hdR)

/-! ### zeroing and extension steps -/

/-- zeroing classes (unstable / below the minimum radius) never increases the density -/
theorem processX_sum_le (k : Nat) (minRadius : α) (x R : List α) (hx : ∀ v ∈ x, 0 ≤ v)
    (hlen : x.length = R.length) :
    (processX k minRadius x R).sum ≤ x.sum := by
  unfold processX
  have key : ∀ (l : List α) (m : List α), l.length = m.length →
      (∀ i (h : i < l.length) (h' : i < m.length), 0 ≤ l[i] ∧ l[i] ≤ m[i]) → l.sum ≤ m.sum := by
    intro l
    induction l with
    | nil => intro m hm _; cases m <;> simp_all
    | cons a as ih =>
      intro m hm h
      cases m with
      | nil => simp at hm
      | cons b bs =>
        simp only [List.sum_cons]
        have h0 := h 0 (by simp) (by simp)
        have := ih bs (by simpa using hm) (fun i hi hi' => by
          have := h (i+1) (by simpa using hi) (by simpa using hi'); simpa using this)
        simp at h0; linarith
  apply key
  · simp [hlen]
  · intro i h h'
    simp only [List.getElem_mapIdx, List.getElem_zipWith]
    have hxi : 0 ≤ x[i]'(by simpa using h') := hx _ (List.getElem_mem _)
    constructor
    · split
      · exact le_refl _
      · split <;> [exact le_refl _; exact hxi]
    · split
      · exact hxi
      · split <;> [exact hxi; exact le_refl _]

/-- **extension steps**: appending empty classes leaves every moment unchanged -/
theorem moment_append_zeros (k m : Nat) (N R R' : List α) (h : N.length = R.length)
    (hR' : R'.length = m) :
    moment k (N ++ List.replicate m 0) (R ++ R') = moment k N R := by
  unfold moment
  rw [List.zipWith_append h, List.sum_append]
  have : (List.zipWith (fun n r => n * npow r k) (List.replicate m (0:α)) R').sum = 0 := by
    subst hR'
    induction R' with
    | nil => simp
    | cons r rs ih => simp [List.replicate_succ, ih]
  rw [this, add_zero]

/-! ### the whole step, all steps except re-mesh steps (`…_partial`)

The re-mesh operation (`changeSizeClasses`) rescales to preserve the third moment only; the
number density is NOT preserved (known finding F-C02-remesh, see known_findings.txt and
`KawinV.Props.C08`).  The chain below is therefore stated for steps without a re-mesh. -/

/-- **density_step_partial**: one accepted step without re-mesh.  `x` is the stored (non-negative)
PSD at the start of the step, the new state is the Euler update with one-sided face fluxes, then
`_processX` zeroing; the density recorded for the new slice is at most the old stored density plus
`nucRate·dt`; the stored PSD after truncation is again non-negative and not larger. -/
theorem density_step_partial (xs : List α) (R : List α) (nf : Nat → α) (kn : Nat) (r dt minRadius : α)
    (kz : Nat) (hk : kn < xs.length) (hlen : xs.length = R.length)
    (hdt : 0 ≤ dt) (h0 : nf 0 ≤ 0) (hn : 0 ≤ nf xs.length)
    (hnew : ∀ i, i < xs.length → 0 ≤ eulerUpdate (fun i => xs.getD i 0) (dXdt nf kn r) dt i) :
    let x' := (List.range xs.length).map (eulerUpdate (fun i => xs.getD i 0) (dXdt nf kn r) dt)
    (processX kz minRadius x' R).sum ≤ xs.sum + r * dt ∧
    (trunc (processX kz minRadius x' R)).sum ≤ xs.sum + r * dt ∧
    (∀ v ∈ trunc (processX kz minRadius x' R), 0 ≤ v) := by
  intro x'
  have hx'pos : ∀ v ∈ x', 0 ≤ v := by
    intro v hv
    obtain ⟨i, hi, rfl⟩ := List.mem_map.mp hv
    exact hnew i (by simpa using hi)
  have hsum : x'.sum ≤ xs.sum + r * dt := by
    have h1 : x'.sum = ∑ i ∈ range xs.length, eulerUpdate (fun i => xs.getD i 0) (dXdt nf kn r) dt i :=
      sum_map_range _ _
    rw [h1, list_sum_eq_range xs]
    exact density_step_le xs.length _ nf kn hk r dt hdt h0 hn
  have hlen' : x'.length = R.length := by simp [x', hlen]
  have hp := processX_sum_le kz minRadius x' R hx'pos hlen'
  have hppos : ∀ v ∈ processX kz minRadius x' R, 0 ≤ v := by
    intro v hv
    unfold processX at hv
    obtain ⟨i, hi, rfl⟩ := List.mem_mapIdx.mp hv
    split
    · exact le_refl _
    · simp only [List.getElem_zipWith]
      split
      · exact le_refl _
      · exact hx'pos _ (List.getElem_mem _)
  refine ⟨le_trans hp hsum, ?_, trunc_nonneg _⟩
  exact le_trans (trunc_sum_bounds _ hppos).1 (le_trans hp hsum)

/-- **density_step_corrected**: the same chain for the fluxes the solver actually applies (PBM upwind
fluxes of any growth field, corrected by `correctdXdtEuler`).  Since the repair of the correction (the total
outflow of a class is limited, known_findings.txt `fixed: property=C02 f9a39e6`) the non-negativity of the
new state is a CONCLUSION (`C07.corrected_update_nonneg`), no longer a hypothesis, for every step size; the
one-sidedness of the end fluxes follows from the non-negativity of the stored PSD. -/
theorem density_step_corrected (xs R : List α) (flux dR : Nat → α) (kn : Nat) (r dt minRadius : α)
    (kz : Nat) (hk : kn < xs.length) (hlen : xs.length = R.length)
    (hdt : 0 < dt) (hr : 0 ≤ r) (hx : ∀ v ∈ xs, 0 ≤ v) (hdR : ∀ i, 0 < dR i) :
    let x := fun i => xs.getD i 0
    let nf := correctedFlux xs.length dt x (netFlux xs.length flux x dR)
    let x' := (List.range xs.length).map (eulerUpdate x (dXdt nf kn r) dt)
    (∀ v ∈ x', 0 ≤ v) ∧
    (processX kz minRadius x' R).sum ≤ xs.sum + r * dt ∧
    (trunc (processX kz minRadius x' R)).sum ≤ xs.sum + r * dt ∧
    (∀ v ∈ trunc (processX kz minRadius x' R), 0 ≤ v) := by
  intro x nf x'
  have hx0 : ∀ i, 0 ≤ x i := by
    intro i
    simp only [x, List.getD_eq_getElem?_getD]
    cases h : xs[i]? with
    | none => simp
    | some v => simpa using hx v (List.mem_of_getElem? h)
  have hnew : ∀ i, i < xs.length → 0 ≤ eulerUpdate x (dXdt nf kn r) dt i := by
    intro i hi
    have := C07.corrected_update_nonneg xs.length dt x (netFlux xs.length flux x dR) i hi kn r hr hdt hx0
    unfold eulerUpdate
    rw [mul_comm]; exact this
  have h0 := C07.corrected_zero_nonpos xs.length dt x _ hdt hx0 (C07.netFlux_zero_nonpos xs.length flux x dR hx0 hdR)
  have hn := C07.corrected_last_nonneg xs.length dt x _ hdt hx0 (C07.netFlux_last_nonneg xs.length flux x dR hx0 hdR)
  have hp := density_step_partial xs R nf kn r dt minRadius kz hk hlen hdt.le h0 hn hnew
  refine ⟨?_, hp⟩
  intro v hv
  obtain ⟨i, hi, rfl⟩ := List.mem_map.mp hv
  exact hnew i (by simpa using hi)

/-! ### re-mesh steps: the clause is false of the code (known finding `remesh-changes-number-density`) -/

/-- 9 classes on [1,10], only class 7 = [8,9] populated with 50 particles -/
def remeshWitness : Grid.State ℚ := { Grid.init (1 : ℚ) 10 9 4 8 with psd := [0, 0, 0, 0, 0, 0, 0, 50, 0] }

/-- **remesh_changes_density**: re-meshing to 7 classes on the same range (what `changeSizeClasses`
does, also inside `adjustSizeClassesEuler` on an accepted step) keeps the third moment exactly and
INCREASES the number density from 50 to 421289750/8019679 ≈ 52.5 — with no nucleation at all.
Kernel-evaluated on the executable grid model of C08 (`decide +kernel`, standard axioms only). -/
theorem remesh_changes_density :
    ∃ s', Grid.change remeshWitness 1 10 (some 7) false = some s' ∧
      Grid.moment remeshWitness.psd remeshWitness.size 3 = 122825/4 ∧
      Grid.moment s'.psd s'.size 3 = 122825/4 ∧
      Grid.moment remeshWitness.psd remeshWitness.size 0 = 50 ∧
      Grid.moment s'.psd s'.size 0 = 421289750/8019679 ∧
      Grid.moment remeshWitness.psd remeshWitness.size 0 < Grid.moment s'.psd s'.size 0 := by
  decide +kernel

/-! ### non-vacuity -/

example : (∀ v ∈ ([5, 0, 7/2] : List ℚ), 0 ≤ v) ∧ trunc ([5, 1/2, 7/2] : List ℚ) = [5, 0, 7/2] := by
  constructor
  · intro v hv; simp at hv; rcases hv with rfl | rfl | rfl <;> norm_num
  · simp [trunc]; norm_num

/-- a concrete step meeting the hypotheses of `density_step_le` (dissolution through class 0) -/
example : (0:ℚ) ≤ 1 ∧ (fun j : Nat => if j = 0 then (-2:ℚ) else 0) 0 ≤ 0 ∧
    (0:ℚ) ≤ (fun j : Nat => if j = 0 then (-2:ℚ) else 0) 3 := by norm_num

/-- the hypotheses of `density_step_corrected` are met by a concrete stored PSD (non-negative, uniform widths) -/
example : (∀ v ∈ ([5, 0, 7/2] : List ℚ), 0 ≤ v) ∧ (0:ℚ) < 2 ∧ (0:ℚ) ≤ 0 ∧ (∀ i : Nat, (0:ℚ) < (fun _ => 1) i) ∧
    (1 : Nat) < ([5, 0, 7/2] : List ℚ).length := by
  refine ⟨?_, by norm_num, le_refl _, fun _ => by norm_num, by simp⟩
  intro v hv; simp at hv; rcases hv with rfl | rfl | rfl <;> norm_num

end KawinV.Props.C02
