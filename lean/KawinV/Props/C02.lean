/-
C02 — property theorems (stub; nothing proved yet).
-/
namespace KawinV.Props.C02
end KawinV.Props.C02
