/-
C01 — property theorems (stub; nothing proved yet).
-/
namespace KawinV.Props.C01
end KawinV.Props.C01
