/-
C01 — precipitation conserves solute between matrix and precipitates.
Theorems about `KawinV.MB` (hand model of PrecipitateModel._calcMassBalance), tied to /repo by
replaying every logged `_calcMassBalance` call of real runs through the model (tools/corr/C01.py).
α is any linearly ordered field.
-/
import KawinV.Model.MassBalance
import KawinV.Gen.C01MassBalance
import Mathlib.Tactic.Ring
import Mathlib.Tactic.Linarith
import Mathlib.Tactic.FieldSimp
import Mathlib.Algebra.Order.Field.Basic
import Mathlib.Algebra.BigOperators.Group.List.Basic

set_option linter.unusedSectionVars false
set_option linter.unusedVariables false
set_option linter.unusedSimpArgs false

namespace KawinV.Props.C01
open KawinV KawinV.MB

variable {α : Type} [Field α] [LinearOrder α] [IsStrictOrderedRing α]

theorem getD_map_range (f : Nat → α) (n e : Nat) (he : e < n) :
    ((List.range n).map f).getD e 0 = f e := by
  simp [List.getD_eq_getElem?_getD, List.getElem?_map, List.getElem?_range he]

/-! ### the balance itself -/

/-- **balance**: whenever the total precipitate fraction is below 1 and element e is not clamped,
the initial content of e equals matrix content × matrix fraction + content held in precipitates. -/
theorem massBalance_conserves (minDens minComp : α) (x0 prev : List α) (ins : List (PhaseIn α))
    (e : Nat) (he : e < x0.length)
    (hsat : sumVolFrac (massBalance minDens minComp x0 prev ins).phases < 1)
    (hpos : ¬ rawComp x0 (massBalance minDens minComp x0 prev ins).phases e < 0) :
    x0.getD e 0 =
      (massBalance minDens minComp x0 prev ins).comp.getD e 0
          * (1 - sumVolFrac (massBalance minDens minComp x0 prev ins).phases)
        + sumFconc (massBalance minDens minComp x0 prev ins).phases e := by
  simp only [massBalance] at *
  set ps := ins.map (phaseBalance x0.length minDens) with hps
  have hne : (1 - sumVolFrac ps) ≠ 0 := by linarith
  unfold composition
  simp only [hsat, if_true]
  rw [getD_map_range _ _ _ he]
  simp only [hpos, if_false]
  unfold rawComp
  field_simp
  ring

/-- **the clamp is the only deviation**: every recorded matrix composition is either the balance
value or `minComposition`, the latter only where the balance value is negative. -/
theorem massBalance_clamp (minDens minComp : α) (x0 prev : List α) (ins : List (PhaseIn α))
    (e : Nat) (he : e < x0.length)
    (hsat : sumVolFrac (massBalance minDens minComp x0 prev ins).phases < 1) :
    let s := massBalance minDens minComp x0 prev ins
    (s.comp.getD e 0 = rawComp x0 s.phases e ∧ ¬ rawComp x0 s.phases e < 0) ∨
    (s.comp.getD e 0 = minComp ∧ rawComp x0 s.phases e < 0) := by
  simp only [massBalance] at *
  set ps := ins.map (phaseBalance x0.length minDens) with hps
  unfold composition
  simp only [hsat, if_true]
  rw [getD_map_range _ _ _ he]
  by_cases h : rawComp x0 ps e < 0
  · right; simp [h]
  · left; simp [h]

/-- **excluded branch, explicit**: with total fraction ≥ 1 the composition is carried over unchanged. -/
theorem massBalance_saturated (minDens minComp : α) (x0 prev : List α) (ins : List (PhaseIn α))
    (hsat : ¬ sumVolFrac (massBalance minDens minComp x0 prev ins).phases < 1) :
    (massBalance minDens minComp x0 prev ins).comp = prev := by
  simp only [massBalance] at *
  unfold composition
  simp [hsat]

/-! ### per-phase content -/

/-- **empty phase**: below the density floor the phase contributes nothing. -/
theorem phase_empty (nElem : Nat) (minDens : α) (p : PhaseIn α)
    (h : moment 0 p.N p.R < minDens) :
    (phaseBalance nElem minDens p).volFrac = 0 ∧ (phaseBalance nElem minDens p).ravg = 0 ∧
    (∀ e, (phaseBalance nElem minDens p).fconc.getD e 0 = 0) := by
  unfold phaseBalance
  simp only [h, if_true, true_and]
  intro e
  rw [List.getD_eq_getElem?_getD]
  by_cases he : e < nElem
  · simp [List.getElem?_replicate, he]
  · simp [List.getElem?_replicate, he]

theorem zipWith_sum_mul_left (c : α) (f : α → α → α) (N R : List α) :
    c * (List.zipWith f N R).sum = (List.zipWith (fun n r => c * f n r) N R).sum := by
  induction N generalizing R with
  | nil => simp
  | cons n ns ih =>
    cases R with
    | nil => simp
    | cons r rs => simp [List.zipWith_cons_cons, List.sum_cons, mul_add, ih]

/-- **content is the PSD sum** (default, infinite-precipitate-diffusion mode): the recorded
precipitate content of element e in a populated phase is the sum over size classes of
(particle volume `volRatio·volumeFactor·Rᵢ³`) × population × class-averaged interfacial precipitate
composition — with the site-type volume factor, so grain-boundary nuclei are covered. -/
theorem fconc_eq_sum (nElem : Nat) (minDens : α) (p : PhaseIn α) (e : Nat) (he : e < nElem)
    (hpop : ¬ moment 0 p.N p.R < minDens) (hinf : p.infinite = true) :
    (phaseBalance nElem minDens p).fconc.getD e 0 =
      (List.zipWith (fun nr w => p.volRatio * p.volumeFactor * (nr * w))
        (List.zipWith (fun n r => n * npow r 3) p.N p.R) (p.xb.getD e [])).sum := by
  unfold phaseBalance
  simp only [hpop, if_false]
  rw [getD_map_range _ _ _ he]
  unfold fconcE wmoment
  simp only [hinf, if_true]
  rw [zipWith_sum_mul_left]

/-- the volume fraction of a populated, unsaturated phase is the same sum with composition ≡ 1:
`Σᵢ (volRatio·volumeFactor·Rᵢ³)·Nᵢ`. -/
theorem volFrac_eq_sum (nElem : Nat) (minDens : α) (p : PhaseIn α)
    (hpop : ¬ moment 0 p.N p.R < minDens) (hcap : rawVolFrac p < 1) (hprev : isOne p.prevVolFrac = false) :
    (phaseBalance nElem minDens p).volFrac =
      (List.zipWith (fun n r => p.volRatio * p.volumeFactor * (n * npow r 3)) p.N p.R).sum := by
  unfold phaseBalance
  simp only [hpop, if_false, hcap, if_true, hprev]
  unfold rawVolFrac moment
  rw [zipWith_sum_mul_left]
  simp

/-- volume fraction never exceeds 1 -/
theorem volFrac_le_one (nElem : Nat) (minDens : α) (p : PhaseIn α) :
    (phaseBalance nElem minDens p).volFrac ≤ 1 := by
  unfold phaseBalance
  by_cases h1 : moment 0 p.N p.R < minDens
  · simp [h1]
  · by_cases h2 : isOne p.prevVolFrac = true
    · simp [h1, h2]
    · by_cases h3 : rawVolFrac p < 1
      · simp [h1, h2, h3, le_of_lt h3]
      · simp [h1, h2, h3]

/-! ### every step of every run -/

/-- the predicate of C01 on one recorded slice -/
def Balanced (x0 : List α) (minComp : α) (s : Slice α) : Prop :=
  sumVolFrac s.phases < 1 →
    ∀ e, e < x0.length →
      (s.comp.getD e 0 = minComp ∧ rawComp x0 s.phases e < 0) ∨
      x0.getD e 0 = s.comp.getD e 0 * (1 - sumVolFrac s.phases) + sumFconc s.phases e

theorem massBalance_balanced (minDens minComp : α) (x0 prev : List α) (ins : List (PhaseIn α)) :
    Balanced x0 minComp (massBalance minDens minComp x0 prev ins) := by
  intro hsat e he
  by_cases h : rawComp x0 (massBalance minDens minComp x0 prev ins).phases e < 0
  · left
    rcases massBalance_clamp minDens minComp x0 prev ins e he hsat with h' | h'
    · exact absurd h h'.2
    · exact h'
  · right; exact massBalance_conserves minDens minComp x0 prev ins e he hsat h

/-- **every step, every solve call**: whatever the sequence of inputs (any backend results, any
grids, either iterator, any split into solve calls), every recorded slice is balanced up to the
documented clamp. Induction over the run. -/
theorem kwn_conserves_all_steps (minDens minComp : α) (x0 : List α)
    (steps : List (List α × List (PhaseIn α))) :
    ∀ s ∈ recordRun minDens minComp x0 steps, Balanced x0 minComp s := by
  induction steps with
  | nil => simp [recordRun]
  | cons st rest ih =>
    obtain ⟨prev, ins⟩ := st
    intro s hs
    simp only [recordRun, List.mem_cons] at hs
    rcases hs with rfl | hs
    · exact massBalance_balanced minDens minComp x0 prev ins
    · exact ih s hs

/-- the recorded history has one slice per step -/
theorem recordRun_length (minDens minComp : α) (x0 : List α)
    (steps : List (List α × List (PhaseIn α))) :
    (recordRun minDens minComp x0 steps).length = steps.length := by
  induction steps with
  | nil => simp [recordRun]
  | cons st rest ih => obtain ⟨prev, ins⟩ := st; simp [recordRun, ih]

/-! ### the same laws for the mass balance REGENERATED from the source (tie 1)

`KawinV.Gen.C01.mb_*` are produced on every run by executing the real
`PrecipitateModel._calcMassBalance` on symbolic state (2 phases × 2 elements × 3 size classes,
populated / unsaturated / unclamped path, asserted at generation time).  The theorems below are
about what the code computes NOW; a change of the formula changes the definitions and the proofs
no longer check. -/

section generated
open KawinV.Gen.C01
variable [Trans α]
variable (N R : Nat → Nat → α) (xb : Nat → Nat → Nat → α) (vma : α) (vmb vfac x0 : Nat → α)

/-- the recorded matrix composition is the balance quotient of the recorded contents and fractions -/
theorem gen_comp0_eq :
    mb_comp0 N R xb vma vmb vfac x0 =
      (x0 0 - (mb_fc00 N R xb vma vmb vfac x0 + mb_fc10 N R xb vma vmb vfac x0)) /
        (1 - (mb_vf0 N R xb vma vmb vfac x0 + mb_vf1 N R xb vma vmb vfac x0)) := by
  simp only [mb_comp0, mb_vf0, mb_vf1, mb_fc00, mb_fc10, npow] <;> ring

theorem gen_comp1_eq :
    mb_comp1 N R xb vma vmb vfac x0 =
      (x0 1 - (mb_fc01 N R xb vma vmb vfac x0 + mb_fc11 N R xb vma vmb vfac x0)) /
        (1 - (mb_vf0 N R xb vma vmb vfac x0 + mb_vf1 N R xb vma vmb vfac x0)) := by
  simp only [mb_comp1, mb_vf0, mb_vf1, mb_fc01, mb_fc11, npow] <;> ring

/-- **balance, regenerated**: for both solutes, initial content = matrix content × matrix fraction
+ content of both precipitate phases. -/
theorem gen_balance
    (hsat : 1 - (mb_vf0 N R xb vma vmb vfac x0 + mb_vf1 N R xb vma vmb vfac x0) ≠ 0) :
    x0 0 = mb_comp0 N R xb vma vmb vfac x0 * (1 - (mb_vf0 N R xb vma vmb vfac x0 + mb_vf1 N R xb vma vmb vfac x0))
            + (mb_fc00 N R xb vma vmb vfac x0 + mb_fc10 N R xb vma vmb vfac x0) ∧
    x0 1 = mb_comp1 N R xb vma vmb vfac x0 * (1 - (mb_vf0 N R xb vma vmb vfac x0 + mb_vf1 N R xb vma vmb vfac x0))
            + (mb_fc01 N R xb vma vmb vfac x0 + mb_fc11 N R xb vma vmb vfac x0) := by
  rw [gen_comp0_eq, gen_comp1_eq]
  constructor <;> (rw [div_mul_cancel₀ _ hsat]; ring)

/-- **volume fraction, regenerated**: (Vα/Vβ)·volumeFactor·Σ Nᵢ Rᵢ³ -/
theorem gen_volFrac :
    mb_vf0 N R xb vma vmb vfac x0 =
      vma / vmb 0 * vfac 0 * (N 0 0 * R 0 0 ^ 3 + N 0 1 * R 0 1 ^ 3 + N 0 2 * R 0 2 ^ 3) := by
  simp only [mb_vf0, npow]; ring

/-- **content is the PSD sum, regenerated**: Σᵢ (Vα/Vβ·volumeFactor·Rᵢ³)·Nᵢ·½(xβᵢ + xβᵢ₊₁) -/
theorem gen_fconc :
    mb_fc00 N R xb vma vmb vfac x0 =
      vma / vmb 0 * vfac 0 * (N 0 0 * R 0 0 ^ 3 * ((xb 0 0 0 + xb 0 1 0) / 2)
        + N 0 1 * R 0 1 ^ 3 * ((xb 0 1 0 + xb 0 2 0) / 2) + N 0 2 * R 0 2 ^ 3 * ((xb 0 2 0 + xb 0 3 0) / 2)) := by
  simp only [mb_fc00, npow]; ring

/-- **statistics are moments, regenerated** -/
theorem gen_density : mb_dens0 N R xb vma vmb vfac x0 = N 0 0 + N 0 1 + N 0 2 := by
  simp only [mb_dens0, npow]; ring

theorem gen_ravg :
    mb_ravg0 N R xb vma vmb vfac x0 =
      (N 0 0 * R 0 0 + N 0 1 * R 0 1 + N 0 2 * R 0 2) / (N 0 0 + N 0 1 + N 0 2) := by
  simp only [mb_ravg0, npow]; ring

end generated

/-! ### non-vacuity -/

/-- a concrete populated, unsaturated, unclamped state: one phase, two classes, one element -/
def exPhase : PhaseIn ℚ :=
  { N := [1000, 2000], R := [1/10, 2/10], xb := [[1/4, 1/4]], volRatio := 1, volumeFactor := 4,
    prevVolFrac := 0, infinite := true, prevFconc := [0], psdOld := [0, 0] }

example : sumVolFrac (massBalance (1/100 : ℚ) (1/1000) [1/2] [1/2] [{ exPhase with N := [1, 2] }]).phases < 1 := by
  simp [massBalance, phaseBalance, sumVolFrac, exPhase, moment, rawVolFrac, npow, isOne]
  norm_num

end KawinV.Props.C01
