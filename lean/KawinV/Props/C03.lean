/-
C03 — precipitation runs are well formed for every configuration and survive backend faults.
Theorems about the bookkeeping models KawinV.KWNF (fault path, history alignment), KawinV.MB
(recorded statistics) and KawinV.PSD (stored distribution); the solver clock is C05.
-/
import KawinV.Model.KWNFault
import KawinV.Model.KWNStep
import KawinV.Gen.C03Attrs
import KawinV.Props.C01
import KawinV.Props.C02
import KawinV.Props.C05
import Mathlib.Tactic.Ring
import Mathlib.Tactic.Linarith
import Mathlib.Algebra.Order.Field.Basic

set_option linter.unusedSectionVars false
set_option linter.unusedVariables false
set_option linter.unusedSimpArgs false

namespace KawinV.Props.C03
open KawinV KawinV.KWNF KawinV.MB KawinV.PSD

variable {α : Type} [Field α] [LinearOrder α] [IsStrictOrderedRing α]

/-! ### histories stay aligned -/

/-- (regenerated table) every array that a fresh PrecipitationData holds is in ATTRIBUTES, so
`appendToArrays` grows every one of them. -/
theorem attrs_cover : ∀ a ∈ Gen.C03.arrayAttrs, a ∈ Gen.C03.attributes := by decide

theorem attrs_cover' : ∀ a ∈ Gen.C03.attributes, a ∈ Gen.C03.arrayAttrs := by decide

theorem appendAll_aligned (attrs : List String) (hist : List (String × Nat)) (n : Nat)
    (hall : ∀ e ∈ hist, e.1 ∈ attrs) (hlen : ∀ e ∈ hist, e.2 = n) :
    (∀ e ∈ appendAll attrs hist, e.1 ∈ attrs) ∧ (∀ e ∈ appendAll attrs hist, e.2 = n + 1) := by
  unfold appendAll
  constructor
  · intro e he
    obtain ⟨⟨nm, len⟩, hm, rfl⟩ := List.mem_map.mp he
    have := hall _ hm
    simp only at this
    simp [this]
  · intro e he
    obtain ⟨⟨nm, len⟩, hm, rfl⟩ := List.mem_map.mp he
    have h1 := hall _ hm
    have h2 := hlen _ hm
    simp only at h1 h2
    simp [h1, h2]

/-- **alignment**: after any number of accepted steps (over any number of solve calls) all
histories have the same length, initial length + number of steps. -/
theorem histories_aligned (attrs : List String) (hist : List (String × Nat)) (n0 k : Nat)
    (hall : ∀ e ∈ hist, e.1 ∈ attrs) (hlen : ∀ e ∈ hist, e.2 = n0) :
    (∀ e ∈ appendN attrs hist k, e.1 ∈ attrs) ∧ (∀ e ∈ appendN attrs hist k, e.2 = n0 + k) := by
  induction k with
  | zero => exact ⟨by simpa [appendN] using hall, by simpa [appendN] using hlen⟩
  | succ k ih =>
    have := appendAll_aligned attrs (appendN attrs hist k) (n0 + k) ih.1 ih.2
    simpa [appendN, Nat.add_assoc] using this

/-- the 16 kawin histories, concretely: the regenerated table, each of length 1 after setup -/
example : ∀ e ∈ appendN Gen.C03.attributes (Gen.C03.arrayAttrs.map (fun a => (a, 1))) 5, e.2 = 6 := by
  have := (histories_aligned Gen.C03.attributes (Gen.C03.arrayAttrs.map (fun a => (a, 1))) 1 5
    (by intro e he; obtain ⟨a, ha, rfl⟩ := List.mem_map.mp he; exact attrs_cover a ha)
    (by intro e he; obtain ⟨a, ha, rfl⟩ := List.mem_map.mp he; rfl)).2
  simpa using this

/-! ### the fault path does not crash and keeps the last valid values -/

/-- **fault path is total**: once `self.growth` exists (it is initialised to zeros in setup before
the first growth calculation), `_singleGrowthMulti` returns a value for EVERY backend answer,
including "no result" with non-negative driving force. -/
theorem growth_fallback_total (nElem nBounds : Nat) (dG precDens : α)
    (res : Option (List α × List α × List α)) (kin g0 prevEqA prevEqB : List α) :
    ∃ out, singleGrowthMulti nElem nBounds dG precDens res kin (some g0) prevEqA prevEqB = .ok out := by
  unfold singleGrowthMulti
  split
  · exact ⟨_, rfl⟩
  · cases res with
    | none => simp only; split <;> exact ⟨_, rfl⟩
    | some r => obtain ⟨g, a, b⟩ := r; exact ⟨_, rfl⟩

/-- **last valid values**: on a failed calculation with non-negative driving force the growth
rate and the equilibrium compositions are exactly the previous ones and no table is overwritten. -/
theorem growth_fallback_keeps_previous (nElem nBounds : Nat) (dG precDens : α)
    (kin g0 prevEqA prevEqB : List α) (hdG : ¬ dG < 0) :
    singleGrowthMulti nElem nBounds dG precDens none kin (some g0) prevEqA prevEqB
      = .ok { growth := g0, xEqA := prevEqA, xEqB := prevEqB, tablesKept := true } := by
  unfold singleGrowthMulti
  simp [hdG]

/-- the crash that the repair removed, made explicit: without a previous growth rate the code path
raises (AttributeError) — reachable only if setup did not initialise it. -/
theorem growth_fallback_needs_previous (nElem nBounds : Nat) (dG precDens : α)
    (kin prevEqA prevEqB : List α) (hdG : ¬ dG < 0) :
    singleGrowthMulti nElem nBounds dG precDens none kin none prevEqA prevEqB = .error .attr := by
  unfold singleGrowthMulti
  simp [hdG]

/-- the growth field keeps the length of the class-boundary array on every branch -/
theorem growth_length (nElem nBounds : Nat) (dG precDens : α)
    (res : Option (List α × List α × List α)) (kin g0 prevEqA prevEqB : List α) (out : GrowthOut α)
    (hk : kin.length = nBounds) (hg0 : g0.length = nBounds)
    (hres : ∀ g a b, res = some (g, a, b) → g.length = nBounds)
    (h : singleGrowthMulti nElem nBounds dG precDens res kin (some g0) prevEqA prevEqB = .ok out) :
    out.growth.length = nBounds := by
  unfold singleGrowthMulti at h
  split at h
  · cases h; simp
  · cases res with
    | none =>
      simp only at h
      split at h
      · cases h; simp
      · cases h; exact hg0
    | some r =>
      obtain ⟨g, a, b⟩ := r
      simp only at h
      cases h
      simp [hk, hres g a b rfl]

/-- a growth request is well shaped for the current grid: the kinetic factor and a returned growth
field both live on the current class boundaries -/
def GOp.shaped (n : Nat) : GOp α → Prop
  | .grid _ => True
  | .growth _ _ res kin _ _ => kin.length = n ∧ ∀ g a b, res = some (g, a, b) → g.length = n

theorem gstep_inv (nElem : Nat) (s : GState α) (op : GOp α) (hs : s.growth.length = s.nBounds)
    (hop : GOp.shaped s.nBounds op) :
    ∃ s', gstep nElem s op = .ok s' ∧ s'.growth.length = s'.nBounds := by
  cases op with
  | grid n => exact ⟨_, rfl, by simp⟩
  | growth dG dens res kin a b =>
    obtain ⟨hk, hr⟩ := hop
    obtain ⟨o, ho⟩ := growth_fallback_total nElem s.nBounds dG dens res kin s.growth a b
    have hl := growth_length nElem s.nBounds dG dens res kin s.growth a b o hk hs hr ho
    refine ⟨{ s with growth := o.growth }, ?_, hl⟩
    simp [gstep, ho]

/-- **growth field follows the grid, faults included**: over ANY sequence of grid changes
(extension, re-mesh) and growth calculations with ANY backend answers — in particular a failure on
the first request after a grid change — no step raises and the stored growth-rate field always has
one entry per class boundary of the current grid.  (Seeded change C03-1 breaks exactly this:
zeros of length `bins` instead of `bins+1` after a grid change.) -/
theorem growth_field_follows_grid (nElem : Nat) (ops : List (GOp α)) (s : GState α)
    (hs : s.growth.length = s.nBounds)
    (hops : ∀ (pre : List (GOp α)) (op : GOp α) (post : List (GOp α)) (s' : GState α),
        ops = pre ++ op :: post → grun nElem s pre = .ok s' → GOp.shaped s'.nBounds op) :
    ∃ s', grun nElem s ops = .ok s' ∧ s'.growth.length = s'.nBounds := by
  induction ops generalizing s with
  | nil => exact ⟨s, rfl, hs⟩
  | cons op rest ih =>
    obtain ⟨s1, h1, hl1⟩ := gstep_inv nElem s op hs (hops [] op rest s rfl rfl)
    have := ih s1 hl1 (by
      intro pre op' post s' hsplit hrun
      apply hops (op :: pre) op' post s' (by simp [hsplit])
      simp [grun, h1, hrun])
    obtain ⟨s2, h2, hl2⟩ := this
    exact ⟨s2, by simp [grun, h1, h2], hl2⟩

/-! ### recorded quantities stay in range, whatever the backend returned -/

theorem moment_nonneg (k : Nat) (N R : List α) (hN : ∀ v ∈ N, 0 ≤ v) (hR : ∀ r ∈ R, 0 ≤ r) :
    0 ≤ moment k N R := by
  unfold moment
  induction N generalizing R with
  | nil => simp
  | cons a as ih =>
    cases R with
    | nil => simp
    | cons r rs =>
      simp only [List.zipWith_cons_cons, List.sum_cons]
      have h1 : 0 ≤ a * npow r k := mul_nonneg (hN a (by simp)) (C02.npow_nonneg r (hR r (by simp)) k)
      have h2 := ih rs (fun v hv => hN v (by simp [hv])) (fun v hv => hR v (by simp [hv]))
      linarith

/-- **fraction bounds, radii, density**: for a non-negative state (guaranteed by the stored-PSD
theorem `C02.trunc_nonneg`) every recorded volume fraction lies in [0,1], the mean radius and the
density are non-negative — the mass balance does not involve the backend at all. -/
theorem recorded_ranges (nElem : Nat) (minDens : α) (p : PhaseIn α)
    (hN : ∀ v ∈ p.N, 0 ≤ v) (hR : ∀ r ∈ p.R, 0 ≤ r)
    (hvr : 0 ≤ p.volRatio) (hvf : 0 ≤ p.volumeFactor) (hmin : 0 ≤ minDens) :
    0 ≤ (phaseBalance nElem minDens p).volFrac ∧ (phaseBalance nElem minDens p).volFrac ≤ 1 ∧
    0 ≤ (phaseBalance nElem minDens p).ravg ∧ 0 ≤ (phaseBalance nElem minDens p).dens := by
  have hm0 := moment_nonneg 0 p.N p.R hN hR
  have hm1 := moment_nonneg 1 p.N p.R hN hR
  have hm3 := moment_nonneg 3 p.N p.R hN hR
  refine ⟨?_, C01.volFrac_le_one nElem minDens p, ?_, ?_⟩
  · unfold phaseBalance rawVolFrac
    by_cases h1 : moment 0 p.N p.R < minDens
    · simp [h1]
    · by_cases h2 : isOne p.prevVolFrac = true
      · simp [h1, h2]
      · have : 0 ≤ p.volRatio * p.volumeFactor * moment 3 p.N p.R :=
          mul_nonneg (mul_nonneg hvr hvf) hm3
        by_cases h3 : p.volRatio * p.volumeFactor * moment 3 p.N p.R < 1
        · simp [h1, h2, h3, this]
        · simp [h1, h2, h3]
  · unfold phaseBalance
    by_cases h1 : moment 0 p.N p.R < minDens
    · simp [h1]
    · simp only [h1, if_false]
      exact div_nonneg hm1 hm0
  · unfold phaseBalance
    by_cases h1 : moment 0 p.N p.R < minDens <;> simp [h1, hm0]

/-- **PSD ≥ 0 on every step, faulted or not**: the stored distribution is a truncation. -/
theorem stored_psd_nonneg (x : List α) : ∀ v ∈ trunc x, 0 ≤ v := C02.trunc_nonneg x

/-! ### every step of every run: the composed step model `KawinV.KWN`

`KWN.step` composes the solver update, `_processX`, the mass balance, `UpdatePBMEuler` and the
optional extension — each piece tied to the code by its own correspondence (C01, C02, C07, C08) —
with everything the backend, the nucleation model and the step-size rules produce as a universally
quantified per-step input.  The theorem below is the "for every step of every run, whatever the
backend returned" statement of C01/C02/C03 in one place. -/

open KawinV.KWN in
/-- well-formed state: stored populations non-negative, one centre per class -/
def WF (st : KWN.State α) : Prop :=
  ∀ s ∈ st.phases, (∀ v ∈ s.psd, 0 ≤ v) ∧ s.psd.length = s.R.length

theorem processX_length (k : Nat) (mr : α) (x R : List α) :
    (processX k mr x R).length = min x.length R.length := by
  unfold processX; simp

open KawinV.KWN in
theorem nextPhase_wf (dt : α) (s : PhaseState α) (i : StepIn α) (h : s.psd.length = s.R.length) :
    (∀ v ∈ (nextPhase dt s i).psd, 0 ≤ v) ∧ (nextPhase dt s i).psd.length = (nextPhase dt s i).R.length := by
  unfold nextPhase
  constructor
  · intro v hv
    simp only [List.mem_append, List.mem_replicate] at hv
    rcases hv with hv | hv
    · exact C02.trunc_nonneg _ v hv
    · exact hv.2 ▸ le_refl _
  · simp only [List.length_append, List.length_replicate, C02.trunc_length]
    unfold processed
    rw [processX_length]
    simp [h]

theorem zipWith_pair_mem_left {β γ : Type} (l : List β) (m : List γ) (a : β) (b : γ)
    (h : (a, b) ∈ List.zipWith (fun s i => (s, i)) l m) : a ∈ l := by
  induction l generalizing m with
  | nil => simp at h
  | cons x xs ih =>
    cases m with
    | nil => simp at h
    | cons y ys =>
      simp only [List.zipWith_cons_cons, List.mem_cons, Prod.mk.injEq] at h
      rcases h with ⟨rfl, _⟩ | h
      · simp
      · exact List.mem_cons_of_mem _ (ih ys h)

open KawinV.KWN in
theorem step_wf (minDens minComp : α) (x0 : List α) (st : State α) (dt : α) (ins : List (StepIn α))
    (h : WF st) : WF (step minDens minComp x0 st dt ins) := by
  intro s hs
  simp only [step, List.mem_map] at hs
  obtain ⟨⟨s0, i⟩, hp, rfl⟩ := hs
  have hmem : s0 ∈ st.phases := zipWith_pair_mem_left st.phases ins s0 i hp
  exact nextPhase_wf dt s0 i (h s0 hmem).2

open KawinV.KWN in
/-- **every step of every run**: from a well-formed state, after ANY sequence of steps with ANY
per-step inputs (backend answers, nucleation terms, face fluxes, step sizes, extensions),
 * the state is well formed (stored distributions non-negative, grids aligned),
 * every slice recorded by the run is balanced up to the documented clamp (C01),
 * every recorded volume fraction is at most 1,
 * and exactly one slice was recorded per step. -/
theorem run_wellformed (minDens minComp : α) (x0 : List α) (st : State α)
    (steps : List (α × List (StepIn α))) (h : WF st) :
    WF (run minDens minComp x0 st steps) ∧
    (∀ sl ∈ (run minDens minComp x0 st steps).history,
        sl ∈ st.history ∨ (C01.Balanced x0 minComp sl ∧ ∀ p ∈ sl.phases, p.volFrac ≤ 1)) ∧
    (run minDens minComp x0 st steps).history.length = st.history.length + steps.length := by
  induction steps generalizing st with
  | nil => exact ⟨h, fun sl hsl => Or.inl hsl, by simp [run]⟩
  | cons sd rest ih =>
    obtain ⟨dt, ins⟩ := sd
    have hwf' := step_wf minDens minComp x0 st dt ins h
    obtain ⟨h1, h2, h3⟩ := ih (step minDens minComp x0 st dt ins) hwf'
    refine ⟨by simpa [run] using h1, ?_, ?_⟩
    · intro sl hsl
      have := h2 sl (by simpa [run] using hsl)
      rcases this with hold | hnew
      · simp only [step, List.mem_cons] at hold
        rcases hold with rfl | hold
        · right
          refine ⟨C01.massBalance_balanced minDens minComp x0 st.comp _, ?_⟩
          intro p hp
          simp only [massBalance, List.mem_map] at hp
          obtain ⟨pin, _, rfl⟩ := hp
          exact C01.volFrac_le_one _ _ _
        · exact Or.inl hold
      · exact Or.inr hnew
    · simp only [run] at h3 ⊢
      rw [h3]; simp [step]; omega

/-! ### the clock of a precipitation run (instances of the C05 solver theorems)

`PrecipitateModel.getDt` (minimum over the constraint-derived steps, `dt == dtMax ⇒ dtPropose`) is
just one more proposal function; the solver theorems hold for EVERY proposal function, finite or
not, so they hold for it, faulted steps included. -/

open KawinV.Solver in
/-- **clock**: whatever `getDt` proposes on whatever history, the recorded time stamps strictly
increase and stay in (t0, tf]. -/
theorem kwn_clock (t0 tf minFrac maxFrac : α) (getDt : List α → Dt α) (stop : List α → Bool)
    (h : t0 < tf) (hmin : 0 < minFrac) (hmm : minFrac ≤ maxFrac) (fuel : Nat) :
    (solve t0 tf minFrac maxFrac getDt stop fuel).times.Pairwise (fun newer older => older < newer) ∧
    (∀ x ∈ (solve t0 tf minFrac maxFrac getDt stop fuel).times, t0 < x ∧ x ≤ tf) :=
  ⟨C05.solve_times_increasing t0 tf minFrac maxFrac getDt stop h hmin hmm fuel,
   C05.solve_times_bounds t0 tf minFrac maxFrac getDt stop h hmin hmm fuel⟩

open KawinV.Solver in
/-- **exact end time**: without a stop request the run terminates exactly at the requested end. -/
theorem kwn_reaches_end (t0 tf minFrac maxFrac : α) (getDt : List α → Dt α)
    (h : t0 < tf) (hmin : 0 < minFrac) (hmm : minFrac ≤ maxFrac) (N : Nat) (hN : 1 ≤ (N : α) * minFrac) :
    (solve t0 tf minFrac maxFrac getDt (fun _ => false) N).cur = tf :=
  C05.solve_reaches_tf t0 tf minFrac maxFrac getDt (fun _ => false) h hmin hmm (fun _ => rfl) N hN

end KawinV.Props.C03
