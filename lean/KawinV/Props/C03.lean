/-
C03 — property theorems (stub; nothing proved yet).
-/
namespace KawinV.Props.C03
end KawinV.Props.C03
